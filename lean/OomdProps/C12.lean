import OomdProofs.Config

/-!
# C12 — A configuration is either rejected cleanly or honoured exactly

Property theorems only.  Models: `OomdModel.Parse` (std::sto*, parseSize, parseSizeOrPercent,
parseUnsignedInt, parseValue<T>, parseCgroup) and `OomdModel.Config` (JsonConfigParser,
PluginArgParser::parse against the extracted schemas, ConfigCompiler, the two loading paths), both
of the code WITH the fixes of /verif/fixes/C12-*.patch.  Specifications: `OomdModel.Parse.Spec`
(what a value string means, as a grammar over the whole string, in exact arithmetic) and
`OomdModel.Config.Spec` (valid / honoured, over the pinned table of declared arguments).

All statements quantify over every string (`List Char`), every IR, every JSON value tree and every
environment; the only hypotheses are range assumptions on what the machine reports (`TotalOk`,
`EnvOk`), satisfied by the examples at the end.
-/

namespace C12
open OomdModel.Parse OomdModel.Parse.Spec OomdModel.Config OomdModel.Config.Spec OomdModel.Generated
open OomdProofs.Parse OomdProofs.Config

/-! ## sizes: `1.5G 32K`, bare megabytes, `N%` -/

/-- Whatever `Util::parseSize` accepts is a valid size, and the value is its exact byte count. -/
theorem size_exact (s : Str) (v : Int) (h : parseSize s = some v) : validSize s = some v :=
  parseSize_sound h

/-- Anything that is not a valid size (overflowing, non-finite, empty, garbage …) is rejected. -/
theorem size_invalid_rejected (s : Str) (h : validSize s = none) : parseSize s = none := by
  cases hp : parseSize s with
  | none => rfl
  | some v => rw [size_exact s v hp] at h; exact absurd h (by simp)

/-- An accepted size never wraps: it lies strictly inside the int64 range. -/
theorem size_fits_int64 (s : Str) (v : Int) (h : parseSize s = some v) : -(2 ^ 63) < v ∧ v < 2 ^ 63 := by
  have hv := size_exact s v h
  unfold validSize at hv
  simp only at hv
  split at hv
  · exact absurd hv (by simp)
  · split at hv
    · rename_i total _
      split at hv
      · rename_i hlt
        simp only [Option.some.injEq] at hv
        subst hv
        split <;> omega
      · exact absurd hv (by simp)
    · exact absurd hv (by simp)

/-- The arithmetic primitive of the specification means what its name says:
    `floorBelow cap m b e u` is `⌊m · b^e · u⌋` when that is below `cap`, else nothing. -/
theorem floor_meaning (cap m base : Nat) (e : Int) (u : Nat) (hb : 2 ≤ base) :
    floorBelow cap m base e u =
      if exactFloor m base e u < cap then some (exactFloor m base e u) else none :=
  floorBelow_eq hb

/-- `parseSizeOrPercent`: accepted ⇒ valid with exactly that value (`N%` of the total, rounded
    down; a bare integer is megabytes; else a size), for every total the machine can report. -/
theorem size_or_percent_exact (s : Str) (total v : Int) (ht : TotalOk total)
    (h : parseSizeOrPercent s total = some v) : validSizeOrPercent s total = some v :=
  parseSizeOrPercent_sound ht h

theorem size_or_percent_invalid_rejected (s : Str) (total : Int) (ht : TotalOk total)
    (h : validSizeOrPercent s total = none) : parseSizeOrPercent s total = none := by
  cases hp : parseSizeOrPercent s total with
  | none => rfl
  | some v => rw [size_or_percent_exact s total v ht hp] at h; exact absurd h (by simp)

/-! ## numbers -/

/-- `int`, `int64` and millisecond arguments: accepted exactly when the whole string is one
    integer numeral inside the type's range - no truncation of fractions, no trailing garbage,
    no wrap-around. -/
theorem integer_exact_iff (bits : Nat) (s : Str) (v : Int) :
    whole (stoSigned bits s) = .ok v ↔
      inRange (-((2 : Int) ^ (bits - 1))) ((2 : Int) ^ (bits - 1)) (intNumeral? s) = some v :=
  whole_stoSigned bits s v

/-- `double` / `float` arguments: accepted ⇒ the whole string is one floating numeral the format
    can hold, and the value handed on is that numeral's exact value. -/
theorem float_exact (f : Fmt) (s : Str) (v : FVal) (h : whole (stoFloat f s) = .ok v) :
    floatIn f s = some v :=
  whole_stoFloat h

/-- Every argument kind a plugin can declare: what its parser accepts is a valid reading of the
    string in that kind, with exactly that value. -/
theorem value_exact (k : ArgKind) (fs : Str) (total : Int) (s : Str) (v : Val) (ht : TotalOk total)
    (h : parseArg k fs total s = .ok v) : validReading k fs total s = some v :=
  parseArg_sound ht h

/-- A string without a valid reading in the argument's kind is rejected (by a `std::exception`
    that `PluginArgParser::parse` turns into an error result). -/
theorem value_invalid_rejected (k : ArgKind) (fs : Str) (total : Int) (s : Str) (ht : TotalOk total)
    (h : validReading k fs total s = none) : ∃ e, parseArg k fs total s = .error e := by
  cases hp : parseArg k fs total s with
  | error e => exact ⟨e, rfl⟩
  | ok v => rw [value_exact k fs total s v ht hp] at h; exact absurd h (by simp)

/-! ## the declared arguments -/

/-- The argument schemas regenerated from /repo on this run are the pinned table the
    specification is written over (names, required flags, kinds, for every registered plugin). -/
theorem schema_table_pinned : typedSchemas = declaredSchemas := schemas_eq

/-- What `pluginValid` says, clause by clause: the plugin is named, it exists, every required
    argument is present, every given argument is declared (or is one the plugin consumes itself)
    and has a valid reading in the kind of its declaration. -/
theorem plugin_valid_means (env : Env) (hook : Bool) (p : IRPlugin) :
    pluginValid env hook p = true ↔
      p.name ≠ [] ∧ ∃ sch, schemaOf declaredSchemas hook p.name = some sch ∧
        (∀ a ∈ (declaredFor sch p.args).args, a.required = true → hasArg p.args a.name = true) ∧
        (∀ kv ∈ p.args, isExtern (declaredFor sch p.args) kv.1 = true ∨
          ∃ a, (declaredFor sch p.args).args.find? (fun a => a.name.toList == kv.1) = some a ∧
            ∃ v, validReading a.kind env.fs (totalFor env sch p.args) kv.2 = some v) := by
  unfold pluginValid
  constructor
  · intro h
    simp only [Bool.and_eq_true, Bool.not_eq_true'] at h
    obtain ⟨hn, hm⟩ := h
    refine ⟨by intro hc; simp [hc] at hn, ?_⟩
    cases hs : schemaOf declaredSchemas hook p.name with
    | none => simp [hs] at hm
    | some sch =>
      simp only [hs, Bool.and_eq_true, List.all_eq_true] at hm
      refine ⟨sch, rfl, ?_, ?_⟩
      · intro a ha hr
        have := hm.1 a ha
        simpa [hr] using this
      · intro kv hkv
        have := hm.2 kv hkv
        simp only [Bool.or_eq_true] at this
        rcases this with h1 | h1
        · exact Or.inl h1
        · right
          unfold argReading at h1
          cases hf : List.find? (fun a => a.name.toList == kv.1) (declaredFor sch p.args).args with
          | none => simp [hf] at h1
          | some a =>
            simp only [hf] at h1
            exact ⟨a, rfl, Option.isSome_iff_exists.1 h1⟩
  · rintro ⟨hn, sch, hs, h1, h2⟩
    have : (!p.name.isEmpty) = true := by cases hp : p.name <;> simp_all
    simp only [this, Bool.true_and, hs, Bool.and_eq_true, List.all_eq_true]
    refine ⟨?_, ?_⟩
    · intro a ha
      cases hr : a.required
      · simp
      · simp [h1 a ha hr]
    · intro kv hkv
      rcases h2 kv hkv with h | ⟨a, hf, v, hv⟩
      · simp [h]
      · simp only [Bool.or_eq_true]
        right
        unfold argReading
        simp only [hf, hv, Option.isSome_some]

/-! ## loading a configuration -/

/-- A compiled configuration is valid: every ruleset, detector group and plugin is named, every
    plugin exists, required arguments are present, nothing undeclared is given, every value
    (plugin arguments and the two ruleset delays) has a valid reading. -/
theorem accept_only_if_valid (env : Env) (he : EnvOk env) (root : IRRoot) (e : EngineC)
    (h : compile env root = .ok e) : irValid env root = true :=
  (compile_sound he h).1

/-- A compiled configuration is honoured exactly: rulesets, groups and plugins in the order of
    the IR; each plugin instantiated under its name with precisely the given arguments, holding
    for every argument its valid reading; delays, drop-in flags, xattr filter and cgroup as given. -/
theorem honoured (env : Env) (he : EnvOk env) (root : IRRoot) (e : EngineC)
    (h : compile env root = .ok e) : engineHonours env root e :=
  (compile_sound he h).2

/-- `compile` returns an engine or the error result; no exception leaves it. -/
theorem no_escape_compile (env : Env) (root : IRRoot) (x : Exc) : compile env root ≠ .throws x :=
  noThrow_compile env root x

/-- Start-up (`Main.cpp parseConfig` + `compile`), for every JSON value tree and for texts that are
    not JSON at all (`doc = none`): rejected or accepted, never an exception. -/
theorem no_escape_load (env : Env) (doc : Option JVal) (x : Exc) : load env doc ≠ .throws x := by
  unfold load
  exact noThrow_bind (noThrow_catchAll _) (fun ir => noThrow_compile env ir) x

/-- A drop-in file at run time (`processDropInAdd` → `compileDropIn` on the watcher thread):
    rejected or accepted, never an exception (which would terminate the daemon). -/
theorem no_escape_dropin (env : Env) (root : IRRoot) (doc : Option JVal) (x : Exc) :
    loadDropIn env root doc ≠ .throws x := by
  unfold loadDropIn
  exact noThrow_bind (noThrow_catchAll _) (fun ir => noThrow_compileDropIn env root ir) x

/-- Start-up from a document: accepted ⇒ the document parsed to an IR that is valid and honoured. -/
theorem load_accept_only_if_valid (env : Env) (he : EnvOk env) (doc : Option JVal) (e : EngineC)
    (h : load env doc = .ok e) :
    ∃ ir, parseJson doc = .ok ir ∧ irValid env ir = true ∧ engineHonours env ir e := by
  unfold load at h
  obtain ⟨ir, hir, hc⟩ := bind_ok h
  have hp : parseJson doc = .ok ir := by
    cases hpj : parseJson doc with
    | ok a => simp only [hpj, Res.catchAll, Res.ok.injEq] at hir; rw [hir]
    | rejected => simp [hpj, Res.catchAll] at hir
    | throws x => simp [hpj, Res.catchAll] at hir
  exact ⟨ir, hp, compile_sound he hc⟩

/-- An accepted drop-in is valid: every drop-in ruleset is named, targets a ruleset of the base
    configuration, and its plugins, delays and hooks are valid. -/
theorem dropin_accept_only_if_valid (env : Env) (he : EnvOk env) (root : IRRoot) (doc : Option JVal)
    (u : DropInUnitC) (h : loadDropIn env root doc = .ok u) :
    ∃ ir, parseJson doc = .ok ir ∧ dropInValid env root ir = true := by
  unfold loadDropIn at h
  obtain ⟨ir, hir, hc⟩ := bind_ok h
  have hp : parseJson doc = .ok ir := by
    cases hpj : parseJson doc with
    | ok a => simp only [hpj, Res.catchAll, Res.ok.injEq] at hir; rw [hir]
    | rejected => simp [hpj, Res.catchAll] at hir
    | throws x => simp [hpj, Res.catchAll] at hir
  exact ⟨ir, hp, compileDropIn_sound he hc⟩

/-- Arguments given in the document are not dropped on the way to the IR: a plugin that keeps
    its name carries exactly the members of its `args` object, all of them scalars. -/
theorem json_args_kept (l : List (Str × JVal)) (al : List (Str × JVal))
    (ha : objGet l "args" = some (JVal.obj al))
    (hn : (parsePlugin (.obj l)).name ≠ []) :
    al.all (fun kv => jisScalar kv.2) = true ∧ (parsePlugin (.obj l)).args.map (·.1) = al.map (·.1) := by
  have key : ∀ (al : List (Str × JVal)) (a : List (Str × Str)), parseArgsObj al = some a →
      al.all (fun kv => jisScalar kv.2) = true ∧ a.map (·.1) = al.map (·.1) := by
    intro al
    induction al with
    | nil => intro a h; simp only [parseArgsObj, Option.some.injEq] at h; subst h; simp
    | cons kv rest ih =>
      intro a h
      obtain ⟨k, v⟩ := kv
      simp only [parseArgsObj] at h
      by_cases hsc : jisScalar v = true
      · rw [if_pos hsc] at h
        cases hs : jasString v with
        | ok str =>
          cases hr : parseArgsObj rest with
          | some r =>
            simp only [hs, hr, Option.some.injEq] at h
            subst h
            obtain ⟨h1, h2⟩ := ih r hr
            simp [hsc, h1, h2]
          | none => simp [hs, hr] at h
        | rejected => simp [hs] at h
        | throws e => simp [hs] at h
      · rw [if_neg hsc] at h; exact absurd h (by simp)
  unfold parsePlugin at hn ⊢
  simp only at hn ⊢
  cases hname : objGet l "name" with
  | none => simp [hname, emptyPlugin] at hn
  | some nv =>
    cases nv with
    | str name =>
      simp only [hname, ha] at hn ⊢
      cases hp : parseArgsObj al with
      | some a =>
        simp only [hp] at hn ⊢
        exact key al a hp
      | none => simp [hp, emptyPlugin] at hn
    | null => simp [hname, emptyPlugin] at hn
    | bool b => simp [hname, emptyPlugin] at hn
    | int i => simp [hname, emptyPlugin] at hn
    | arr x => simp [hname, emptyPlugin] at hn
    | obj x => simp [hname, emptyPlugin] at hn


/-! ## the hypotheses are satisfiable, the statements are about non-trivial inputs -/

set_option exponentiation.threshold 20000
set_option maxRecDepth 20000

example : parseSize "1.5G 32K".toList = some 1610645504 := by decide
example : validSize "1.5M 32K 512".toList = some (3 * 2 ^ 19 + 32 * 2 ^ 10 + 512) := by decide
example : parseSize "9223372036854775807".toList = some 9223372036854775807 := by decide
example : parseSize "9223372036854775808".toList = none := by decide
example : validSize "9223372036854775808".toList = none := by decide
example : parseSize "1e30".toList = none ∧ parseSize "nan".toList = none ∧ parseSize "inf".toList = none ∧
    parseSize "".toList = none ∧ parseSize "99999999999T".toList = none := by decide
example : parseSizeOrPercent "5%".toList 1000 = some 50 ∧ parseSizeOrPercent "5.5%".toList 1000 = none ∧
    parseSizeOrPercent "5".toList 1000 = some 5242880 ∧ parseSizeOrPercent "9999999999999".toList 1000 = none := by decide
example : TotalOk 16384000000 := by unfold TotalOk; decide
example : (match parseArg .int [] 0 "12abc".toList with | .error .invalidArgument => true | _ => false) = true ∧
    (match parseArg .uint [] 0 "1.25".toList with | .error .invalidArgument => true | _ => false) = true ∧
    (match parseArg .int64 [] 0 "18446744073709551615".toList with | .error .outOfRange => true | _ => false) = true ∧
    (match parseArg .int [] 0 " 12".toList with | .ok (.int 12) => true | _ => false) = true := by decide

/-- a machine with 16 GB of memory and 2 GB of swap -/
def env₀ : Env := ⟨"/sys/fs/cgroup".toList, fun _ => some 16384000000, fun _ => some 2048000000⟩

set_option linter.defProp false in
def env₀_ok : EnvOk env₀ := by
  have hm : ∀ b, env₀.memAt b = some 16384000000 := fun _ => rfl
  have hs : ∀ b, env₀.swapAt b = some 2048000000 := fun _ => rfl
  constructor
  · intro b t h
    rw [hm b] at h
    simp only [Option.some.injEq] at h
    subst h
    unfold TotalOk
    decide
  · intro b t h
    rw [hs b] at h
    simp only [Option.some.injEq] at h
    subst h
    unfold TotalOk
    decide

def plugin (name : String) (args : List (String × String)) : IRPlugin :=
  ⟨name.toList, args.map fun kv => (kv.1.toList, kv.2.toList)⟩

def ruleset₀ (delay : String) : IRRuleset :=
  { name := "user session protection".toList
    dgs := [⟨"pressure".toList, [plugin "pressure_above" [("cgroup", "user.slice"), ("resource", "memory"), ("threshold", "60"), ("duration", "30")],
                                plugin "memory_above" [("cgroup", "user.slice"), ("threshold", "10%"), ("duration", "10")]]⟩]
    acts := [plugin "kill_by_memory_size_or_growth" [("cgroup", "user.slice/*"), ("min_growth_ratio", "1.25")]]
    disableOnDropIn := false
    detectorgroupsEnabled := true
    actiongroupEnabled := false
    silenceLogs := "engine".toList
    postActionDelay := delay.toList
    prekillHookTimeout := []
    xattrFilter := []
    cgroup := [] }

def ir₀ (delay : String) : IRRoot := ⟨[ruleset₀ delay], [plugin "dummy_prekill_hook" [("cgroup", "a/*")]]⟩

/-- a configuration that is accepted (so `accept_only_if_valid` / `honoured` speak about it) … -/
example : (compile env₀ (ir₀ "10")).isOk = true := by decide
example : irValid env₀ (ir₀ "10") = true := by decide
/-- … and the input that used to escape from `compileRuleset` as `std::invalid_argument` is rejected -/
example : (match compile env₀ (ir₀ "abc") with | .rejected => true | _ => false) = true := by decide
example : (match compile env₀ (ir₀ "10abc") with | .rejected => true | _ => false) = true := by decide

/-- wrong value shapes in a document: `"rulesets": 5` is an empty configuration, `"name": {}` makes
    the parser throw and start-up reject; a text that is not JSON is rejected too -/
example : (match load env₀ (some (.obj [("rulesets".toList, .arr [.obj [("name".toList, .obj [])]])])) with
    | .rejected => true | _ => false) = true := by decide
example : (match load env₀ none with | .rejected => true | _ => false) = true := by decide

end C12

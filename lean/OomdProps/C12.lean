import OomdProofs.Config

namespace C12
open OomdModel.Parse OomdModel.Config

/-- placeholder while the check is being assembled -/
theorem schema_table_pinned : OomdModel.Generated.typedSchemas = Spec.declaredSchemas := by decide

end C12

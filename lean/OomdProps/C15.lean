import OomdProofs.FsRead
import OomdProofs.CgStats
import OomdModel.Generated.Consts

/-!
# C15 — Cgroup statistics equal the reference function of kernel files and tick history

Property theorems only.  Models: `OomdModel.FsRead` (readers), `OomdModel.CgStats` (formulas over
`Num α`, the lazy per-tick cache as a state machine, the stateless reference `ref*`).  Helper lemmas:
`OomdProofs.FsRead`, `OomdProofs.CgStats`.

* parsing: every value of the kernel's grammar is read back exactly (all lengths, by induction);
* formulas: laws of the derived values over exact arithmetic (`Rat`); where the code truncates a
  `double` to `int64_t` the truncation is part of the statement;
* cache: the operational model (`accepts` in the driver) returns the stateless reference (`holds`) on
  every coherent state, values never change within a tick, `refresh` starts from the files again,
  a re-created cgroup is a new context.

IEEE rounding is modelled, not verified: the driver runs the same definitions with `α = Float` and is
compared bit for bit with the C++.
-/

namespace C15
open OomdModel.Path (Str)
open OomdModel.FsRead OomdModel.CgStats

/-! ## parsing round trips -/

/-- the core: decimal text of any natural number scans back to the number -/
theorem roundtrip_decimal (n : Nat) : natOfDigits (renderNat n) = n := natOfDigits_renderNat n

/-- `strtoll` / `sscanf` integer conversions read the decimal text of any integer, of any length,
and stop exactly where the number ends -/
theorem roundtrip_scan_int (v : Int) (rest : Str) (hr : NonDigitStart rest) :
    scanInt (renderInt v ++ rest) = some (v, rest) := scanInt_renderInt v rest hr

/-- `readFileByLine`: newline-terminated lines come back unchanged (any number of lines, any length) -/
theorem roundtrip_lines (ls : List Str) (h : ∀ l ∈ ls, '\n' ∉ l) : linesOf (joinLines ls) = ls :=
  linesOf_joinLines ls h

/-- memory.current, memory.swap.current: the file `"<n>\n"` is read as `n`, for every 0 ≤ n ≤ 2^63-1 -/
theorem roundtrip_int_file (n : Nat) (h : (n : Int) ≤ int64Max) :
    readFirstLineInt (linesOf (renderNat n ++ ['\n'])) = .ok (n : Int) := by
  have hl : linesOf (joinLines [renderNat n]) = [renderNat n] :=
    linesOf_joinLines _ (by
      intro l hl
      simp at hl
      subst hl
      exact renderNat_not_mem n '\n' (by decide))
  have : joinLines [renderNat n] = renderNat n ++ ['\n'] := by simp [joinLines]
  rw [← this, hl]
  exact readFirstLineInt_render n h []

/-- memory.min/low/high/max, memory.swap.max: a number is read as itself, `max` as INT64_MAX -/
theorem roundtrip_limit (v : Option Nat) (h : ∀ n, v = some n → (n : Int) ≤ int64Max) :
    readMinMaxLowHigh [Kernel.limit v] = .ok (match v with | none => int64Max | some n => (n : Int)) :=
  readMinMaxLowHigh_render v h

/-- ... and a file that is not exactly one line is unavailable (not a crash) -/
theorem limit_needs_one_line (lines : List Str) (h : lines.length ≠ 1) :
    readMinMaxLowHigh lines = .unavailable := readMinMaxLowHigh_lines lines h

/-- memory.high.tmp `"<limit> <microseconds>"` -/
theorem roundtrip_memhightmp (v : Option Nat) (dur : Nat) (h : ∀ n, v = some n → (n : Int) ≤ int64Max) :
    readMemhightmp [Kernel.limit v ++ ' ' :: renderNat dur] =
      .ok (match v with | none => int64Max | some n => (n : Int)) := readMemhightmp_render v dur h

/-- memory.oom.group -/
theorem roundtrip_oom_group (b : Bool) : readOomGroup [if b then s "1" else s "0"] = .ok b :=
  readOomGroup_render b

/-- cgroup.events: `populated` is found whatever other `key value` lines come before or after it -/
theorem roundtrip_events (pre : List (Str × Nat)) (post : List Str) (b : Bool)
    (hpre : ∀ kv ∈ pre, Word kv.1 ∧ kv.1 ≠ s "populated") :
    readIsPopulated (pre.map (fun kv => Kernel.kvLine kv.1 kv.2) ++
      Kernel.kvLine (s "populated") (if b then 1 else 0) :: post) = .ok b :=
  readIsPopulated_render pre post b hpre

/-- memory.stat / cgroup.stat: lookup semantics - any key order, extra keys, a repeated key: the last
occurrence wins; values are the full `uint64_t` range stored into `int64_t` -/
theorem roundtrip_stat_lookup (kvs : List (Str × Nat)) (k : Str)
    (h : ∀ kv ∈ kvs, Word kv.1 ∧ kv.1.length ≤ 255 ∧ kv.2 ≤ uint64Max) :
    kvLookup (readKVMap (kvs.map fun kv => Kernel.kvLine kv.1 kv.2)) k =
      (lastVal kvs k).map fun v => wrap64 v := readKVMap_lookup kvs k h

/-- cgroup.stat: nr_dying_descendants, 0 when the key is absent -/
theorem roundtrip_nr_dying (kvs : List (Str × Nat))
    (h : ∀ kv ∈ kvs, Word kv.1 ∧ kv.1.length ≤ 255 ∧ kv.2 ≤ uint64Max) :
    readNrDying (kvs.map fun kv => Kernel.kvLine kv.1 kv.2) =
      .ok (((lastVal kvs (s "nr_dying_descendants")).map fun v => wrap64 v).getD 0) :=
  readNrDying_render kvs h

/-- io.stat: every list of device lines (any number of devices, any counters up to 2^63-1, optional
trailing keys of newer kernels) is read back exactly -/
theorem roundtrip_iostat (rows : List (Kernel.IoRow × Str))
    (h : ∀ x ∈ rows, x.1.InRange ∧ NonDigitStart x.2) :
    readIoStat (rows.map fun x => Kernel.ioLine x.1 x.2) = .ok (rows.map fun x => x.1.toDevStat) :=
  readIoStat_render rows h

/-- PSI, upstream format: both lines, every `%lu.%02lu` average and every total -/
theorem roundtrip_psi_upstream (rs rf : Kernel.PsiRow) (hs : rs.InRange) (hf : rf.InRange) (more : List Str)
    (full : Bool) :
    readPressure (Kernel.psiUpstream (s "some") rs :: Kernel.psiUpstream (s "full") rf :: more) full =
      .ok ((if full then rf else rs).pressure true) := readPressure_upstream rs rf hs hf more full

/-- PSI, experimental format (`aggr` line first, no totals) -/
theorem roundtrip_psi_experimental (aggr : Nat) (rs rf : Kernel.PsiRow) (hs : rs.InRange) (hf : rf.InRange)
    (more : List Str) (full : Bool) :
    readPressure ((s "aggr" ++ ' ' :: renderNat aggr) :: Kernel.psiExperimental (s "some") rs ::
        Kernel.psiExperimental (s "full") rf :: more) full =
      .ok ((if full then rf else rs).pressure false) := readPressure_experimental aggr rs rf hs hf more full

/-- an empty control file is "unavailable" for every reader, never an index past the end -/
theorem empty_file_unavailable (full : Bool) :
    readFirstLineInt [] = .unavailable ∧ readMinMaxLowHigh [] = .unavailable ∧
    readMemhightmp [] = .unavailable ∧ readIsPopulated [] = .unavailable ∧
    readPressure [] full = .unavailable := ⟨rfl, rfl, rfl, rfl, readPressure_empty full⟩

/-- a memory.stat without `pgscan` makes pg_scan_cumulative unavailable (older kernels) -/
theorem missing_pgscan_unavailable (m : List (Str × Int)) (h : kvLookup m (s "pgscan") = none) :
    pgscanOf m = .unavailable := by simp [pgscanOf, h]

/-- prefer/avoid xattrs: prefer (system or user) beats avoid -/
theorem kill_preference_priority (sp up sa ua : Bool) :
    killPreference sp up sa ua = (if sp || up then 1 else if sa || ua then -1 else 0) :=
  killPreference_spec sp up sa ua

/-- child directories (with `fixes/C15-readdir-dtype.patch`): the same with and without d_type -/
theorem children_independent_of_dtype (ents : List (Str × EntKind)) :
    readDirDirs ents false = readDirDirs ents true := readDirDirs_dtype_irrelevant ents

/-- the unfixed `readDirFromDIR` returns no directory at all when d_type is not reported -/
theorem children_unfixed_counterexample :
    readDirDirsUnfixed [(s "a", .dir), (s "memory.current", .reg)] false = [] ∧
    readDirDirs [(s "a", .dir), (s "memory.current", .reg)] false = [s "a"] :=
  readDirDirsUnfixed_counterexample

/-- the file and xattr names of the model are the ones in `Fs.h` (regenerated on every run) -/
theorem file_names_pinned :
    fMemCurrent = OomdModel.Generated.fsMemCurrent.toList ∧ fMemLow = OomdModel.Generated.fsMemLow.toList ∧
    fMemMin = OomdModel.Generated.fsMemMin.toList ∧ fMemHigh = OomdModel.Generated.fsMemHigh.toList ∧
    fMemHighTmp = OomdModel.Generated.fsMemHighTmp.toList ∧ fMemMax = OomdModel.Generated.fsMemMax.toList ∧
    fMemStat = OomdModel.Generated.fsMemStat.toList ∧ fMemPressure = OomdModel.Generated.fsMemPressure.toList ∧
    fIoPressure = OomdModel.Generated.fsIoPressure.toList ∧ fIoStat = OomdModel.Generated.fsIoStat.toList ∧
    fSwapCurrent = OomdModel.Generated.fsSwapCurrent.toList ∧ fSwapMax = OomdModel.Generated.fsSwapMax.toList ∧
    fEvents = OomdModel.Generated.fsEvents.toList ∧ fCgStat = OomdModel.Generated.fsCgroupStat.toList ∧
    fOomGroup = OomdModel.Generated.fsOomGroup.toList ∧ fControllers = OomdModel.Generated.fsControllers.toList ∧
    xSysPrefer = OomdModel.Generated.xattrPreferTrusted.toList ∧ xUserPrefer = OomdModel.Generated.xattrPreferUser.toList ∧
    xSysAvoid = OomdModel.Generated.xattrAvoidTrusted.toList ∧ xUserAvoid = OomdModel.Generated.xattrAvoidUser.toList ∧
    OomdModel.Generated.ctxAverageSizeDecay = "4.0" := by decide

/-! ## memory protection -/

/-- 0 ≤ R ≤ usage -/
theorem raw_protection_bounds (cur mn lo : Int) (hc : 0 ≤ cur) (hm : 0 ≤ mn) :
    0 ≤ rawProtection cur mn lo ∧ rawProtection cur mn lo ≤ cur := rawProtection_bounds cur mn lo hc hm

/-- 0 ≤ P ≤ R (exact arithmetic; the truncation to `int64_t` is part of `normProtection`) -/
theorem protection_bounds (raw parent sum : Int) (hr : 0 ≤ raw) (hp : 0 ≤ parent) (hs : 0 ≤ sum) :
    0 ≤ normProtection (α := Rat) raw parent sum ∧ normProtection (α := Rat) raw parent sum ≤ raw :=
  normProtection_bounds raw parent sum hr hp hs

/-- no over-commit: Σ R(siblings) ≤ P(parent) ⇒ P = R -/
theorem protection_no_overcommit (raw parent sum : Int) (hr : 0 ≤ raw) (hs : 0 < sum) (h : sum ≤ parent) :
    normProtection (α := Rat) raw parent sum = raw := normProtection_no_overcommit raw parent sum hr hs h

/-- over-commit: the children's protections (each truncated) add up to at most the parent's -/
theorem protection_sum_le_parent (raws : List Int) (parent : Int) (hr : ∀ r ∈ raws, 0 ≤ r)
    (hp : 0 ≤ parent) (hover : parent < sumInt raws) :
    sumInt (raws.map fun r => normProtection (α := Rat) r parent (sumInt raws)) ≤ parent :=
  normProtection_sum_le_parent raws parent hr hp hover

/-- the hierarchical formula as a whole: 0 ≤ P(c) ≤ usage(c) for every cgroup at every depth, when the
files hold non-negative numbers (exact arithmetic) -/
theorem protection_within_usage (e : RefEnv Rat) (h : NonNegWorld e) (p : RPath) (v : Int)
    (hv : refMemProt e p = .ok v) : 0 ≤ v ∧ ∀ cur, refInt e p .currentUsage = .ok cur → v ≤ cur :=
  refMemProt_bounds e h p v hv

/-! ## effective swap -/

/-- effective_swap_max ≤ SwapTotal and ≤ memory.swap.max of the cgroup and of every ancestor ... -/
theorem eff_swap_max_le_chain {α : Type} [Num α] (e : RefEnv α) (p : RPath) (v : Int)
    (h : refEffSwapMax e p = .ok v) :
    v ≤ wrap64 e.sys.swaptotal ∧ ∀ q, OnChain q p → ∀ m, refInt e q .swapMax = .ok m → v ≤ m :=
  refEffSwapMax_le e p v h

/-- ... and equal to one of them: it is the minimum over the chain (root = SwapTotal) -/
theorem eff_swap_max_is_min {α : Type} [Num α] (e : RefEnv α) (p : RPath) (v : Int)
    (h : refEffSwapMax e p = .ok v) :
    v = wrap64 e.sys.swaptotal ∨ ∃ q, OnChain q p ∧ refInt e q .swapMax = .ok v :=
  refEffSwapMax_attained e p v h

/-- effective_swap_free = min of (max − usage) over the chain, root = SwapTotal − SwapUsed -/
theorem eff_swap_free_le_chain {α : Type} [Num α] (e : RefEnv α) (p : RPath) (v : Int)
    (h : refEffSwapFree e p = .ok v) :
    v ≤ wrap64 ((e.sys.swaptotal : Int) - e.sys.swapused) ∧
    ∀ q, OnChain q p → ∀ m u, refInt e q .swapMax = .ok m → refInt e q .swapUsage = .ok u → v ≤ m - u :=
  refEffSwapFree_le e p v h

theorem eff_swap_free_is_min {α : Type} [Num α] (e : RefEnv α) (p : RPath) (v : Int)
    (h : refEffSwapFree e p = .ok v) :
    v = wrap64 ((e.sys.swaptotal : Int) - e.sys.swapused) ∨
    ∃ q m u, OnChain q p ∧ refInt e q .swapMax = .ok m ∧ refInt e q .swapUsage = .ok u ∧ v = m - u :=
  refEffSwapFree_attained e p v h

/-- utilisation: 0 when this level's `memory.swap.max` is 0 (the ancestors are not consulted),
otherwise the larger of usage/max and the parent's utilisation -/
theorem eff_swap_util_recurrence {α : Type} [Num α] (e : RefEnv α) (n : Str) (ps : RPath) (sm : Int)
    (hsm : refInt e (n :: ps) .swapMax = .ok sm) :
    refEffSwapUtil e (n :: ps) =
      if sm = 0 then .ok Num.zero else
        (refInt e (n :: ps) .swapUsage).bind fun su => (refOpen e ps).bind fun _ =>
          (refEffSwapUtil e ps).bind fun pu => .ok (Num.nmax pu (localUtil su sm)) :=
  refEffSwapUtil_cons e n ps sm hsm

/-- over exact arithmetic `nmax` is the maximum -/
theorem util_max_is_max (a b : Rat) : Num.nmax a b = max a b := by
  rw [rat_nmax, Rat.max_def]
  by_cases h : a < b
  · simp [h, Rat.le_of_lt h]
  · have : b ≤ a := Rat.not_lt.1 h
    by_cases e : a ≤ b
    · have := Rat.le_antisymm e this
      simp [h, this]
    · simp [h, e]

/-! ## io cost -/

/-- io cost = Σ over the io.stat lines of configured devices of the coefficient dot product;
lines of other devices contribute nothing -/
theorem io_cost_dot_product (cfg : Params Rat) (stats : List DevStat) :
    ioCost cfg stats = sumRat (stats.filterMap (ioContrib cfg)) := ioCost_eq_sum cfg stats

/-- one line of a configured device is the six-term coefficient dot product (HDD or SSD coefficients) -/
theorem io_cost_single_device (cfg : Params Rat) (d : DevStat) (hdd : Bool)
    (h : devLookup cfg.devs d.devId = some hdd) :
    ioCost cfg [d] =
      let c := if hdd then cfg.hdd else cfg.ssd
      (d.rios : Rat) * c.readIops + (d.rbytes : Rat) * c.readBw + (d.wios : Rat) * c.writeIops +
      (d.wbytes : Rat) * c.writeBw + (d.dios : Rat) * c.trimIops + (d.dbytes : Rat) * c.trimBw := by
  rw [ioCost_eq_sum]
  simp [ioContrib, h, sumRat, devCost_rat, Rat.add_zero]

/-- devices that are not configured cost nothing -/
theorem io_cost_unconfigured (cfg : Params Rat) (stats : List DevStat)
    (h : ∀ d ∈ stats, devLookup cfg.devs d.devId = none) : ioCost cfg stats = 0 := by
  rw [ioCost_eq_sum]
  have : stats.filterMap (ioContrib cfg) = [] := by
    apply List.filterMap_eq_nil_iff.2
    intro d hd
    simp [ioContrib, h d hd]
  rw [this]; rfl

/-! ## moving averages -/

/-- EWMA closed form: avg_n = Σ_j (1/d)·((d−1)/d)^j · usage_{n−j} (exact arithmetic, newest first) -/
theorem ewma_closed_form (d : Rat) (us : List Int) :
    avgExact d us = weighted ((d - 1) / d) (1 / d) 0 (us.map fun (u : Int) => (u : Rat)) := by
  rw [avgExact_eq_linRec, linRec_closed]

/-- the code truncates to `int64_t` every tick; the truncated average stays within `d` below the exact one -/
theorem ewma_truncation_bound (d : Rat) (hd : 1 ≤ d) (us : List Int) (hu : ∀ u ∈ us, 0 ≤ u) :
    0 ≤ avgTrunc d us ∧ ((avgTrunc d us : Int) : Rat) ≤ avgExact d us ∧
      avgExact d us < ((avgTrunc d us : Int) : Rat) + d := avgTrunc_bounds d hd us hu

/-- the swap-out averages of `updateContext`: s' = f·s + (1−f)·x -/
theorem swapout_ewma_step (f prev x : Rat) : ewmaStep f prev x = f * prev + (1 - f) * x :=
  ewmaStep_rat f prev x

/-! ## the per-tick cache -/

section Cache
variable {α : Type} [Num α]

/-- what can happen inside a tick: an accessor call, opening a context, listing children - each
against an arbitrary world (files may have been rewritten, cgroups removed or created in between) -/
inductive Op where
  | get (w : World) (p : RPath) (a : Acc)
  | open (w : World) (p : RPath)
  | kids (w : World) (p : RPath)

def Op.run (cfg : Params α) : Op → OSt α → OSt α
  | .get w p a, st => (getAcc cfg w p a st).2
  | .open w p, st => (addToCache w p st).2
  | .kids w p, st => (addChildren w p st).2

def runOps (cfg : Params α) (ops : List Op) (st : OSt α) : OSt α := ops.foldl (fun st op => op.run cfg st) st

/-- any sequence of operations only ever extends the cache -/
theorem ops_only_extend_cache (cfg : Params α) (ops : List Op) : ∀ st : OSt α, Le st (runOps cfg ops st) := by
  induction ops with
  | nil => intro st; exact Le.refl st
  | cons op ops ih =>
    intro st
    have h1 : Le st (op.run cfg st) := by
      cases op with
      | get w p a => exact infl_getAcc cfg w p a st
      | «open» w p => exact infl_addToCache w p st
      | kids w p => exact infl_addChildren w p st
    exact Le.trans h1 (ih _)

/-- `C15_stable_within_tick`: once a field of a context has a value, every later call of that accessor
in the same tick returns the same value - whatever was called in between and whatever happened to
the files (each operation sees its own, arbitrary world) -/
theorem stable_within_tick (cfg : Params α) (st : OSt α) (p : RPath) (f : Field) (v : Val α)
    (h : cached st p f = some v) (ops : List Op) (w' : World) :
    (getField cfg w' p f (runOps cfg ops st)).1 = .ok v := by
  have := cached_of_le (ops_only_extend_cache cfg ops st) h
  rw [getField_cached cfg w' p f _ v this]

/-- ... and the value an accessor returns is the value that stays: get after get gives the same -/
theorem get_after_get (cfg : Params α) (w : World) (st : OSt α) (p : RPath) (f : Field) (v : Val α)
    (hp : Has st p) (h : (getField cfg w p f st).1 = .ok v) (ops : List Op) (w' : World) :
    (getField cfg w' p f (runOps cfg ops (getField cfg w p f st).2)).1 = .ok v :=
  stable_within_tick cfg _ p f v (getField_ok_cached cfg w p f st v hp h) ops w'

/-- the operational model returns the reference: on a coherent state every public accessor of an
existing context returns `refAcc` of the world, and the state stays coherent -/
theorem get_eq_reference (e : RefEnv α) (st : OSt α) (p : RPath) (a : Acc) (hc : Coh e st) (hp : Has st p) :
    (getAcc e.cfg e.w p a st).1 = refAcc e p a ∧ Coh e (getAcc e.cfg e.w p a st).2 := by
  have := Triple.getAcc e p a [p] (by simp) st hc (by intro q hq; simp at hq; subst hq; exact hp)
  exact ⟨this.1, this.2.1⟩

/-- `addToCacheAndGet` succeeds exactly when the directory exists, and keeps coherence -/
theorem open_eq_reference (e : RefEnv α) (st : OSt α) (p : RPath) (hc : Coh e st) :
    (addToCache e.w p st).1 = refOpen e p ∧ Coh e (addToCache e.w p st).2 ∧
      (refOpen e p = .ok () → Has (addToCache e.w p st).2 p) := by
  have := Triple.addToCache e p st hc (by intro q hq; simp at hq)
  exact ⟨this.1, this.2.1, fun h => this.2.2.2 () h p (by simp)⟩

/-- `C15_refresh_rereads`: after `refresh` nothing of the previous tick is cached ... -/
theorem refresh_clears (w : World) (st : OSt α) (p : RPath) (f : Field) : cached (refresh w st) p f = none :=
  cached_refresh w st p f

/-- ... so the first access of the new tick is the reference function of the files as they are now
(with the archive `refresh` took), for every state the previous tick may have left behind -/
theorem refresh_rereads (cfg : Params α) (w : World) (st : OSt α) (p : RPath) (a : Acc)
    (hw : ∀ q c, st.ctxs q = some c → (w.file c.dir fControllers).isSome → w.openDir q = some c.dir)
    (hp : Has (refresh w st) p) :
    (getAcc cfg w p a (refresh w st)).1 =
      refAcc { w := w, sys := st.sys, cfg := cfg, arch := archOf (refresh w st) } p a :=
  (get_eq_reference { w := w, sys := st.sys, cfg := cfg, arch := archOf (refresh w st) } (refresh w st) p a
    (coh_refresh w st cfg hw) hp).1

/-- what `refresh` archives is exactly what was obtained during the tick that ends -/
theorem archive_is_previous_tick (w : World) (st : OSt α) (p : RPath) (c : Ctx α) (hc : st.ctxs p = some c)
    (hvalid : (w.file c.dir fControllers).isSome) :
    ∃ c', (refresh w st).ctxs p = some c' ∧ c'.dir = c.dir ∧
      c'.arch.avg = ((cached st p .averageUsage).bind fun v => v.int?.toOption) ∧
      c'.arch.io = ((cached st p .ioCostCum).bind fun v => v.num?.toOption) ∧
      c'.arch.pg = ((cached st p .pgScanCum).bind fun v => v.int?.toOption) :=
  refresh_keeps w st p c hc hvalid

/-- `C15_recreated_is_new`: a context whose held directory is gone (removed, possibly re-created under
the same name) is dropped by `refresh`; the context made for the new directory holds the new
directory, has an empty archive and nothing cached -/
theorem recreated_is_new (w : World) (st : OSt α) (p : RPath) (c : Ctx α) (hc : st.ctxs p = some c)
    (hgone : w.file c.dir fControllers = none) (inc : Nat) (hnew : w.openDir p = some inc) :
    (refresh w st).ctxs p = none ∧
    ∃ c', (addToCache w p (refresh w st)).2.ctxs p = some c' ∧ c'.dir = inc ∧
      c'.arch.avg = none ∧ c'.arch.io = none ∧ c'.arch.pg = none ∧ ∀ f, c'.data f = none := by
  have h := refresh_drops w st p c hc hgone
  refine ⟨h, ?_⟩
  simp [addToCache, h, hnew, Arch.empty]

/-- ... and its id is the inode of the new directory (different from the old id exactly when the
kernel gives the two directories different inode numbers - it never reuses a cgroup id) -/
theorem recreated_has_new_id (cfg : Params α) (w : World) (st : OSt α) (p : RPath) (c : Ctx α)
    (hc : st.ctxs p = some c) (hgone : w.file c.dir fControllers = none) (inc : Nat) (hnew : w.openDir p = some inc) :
    (getField cfg w p .id (addToCache w p (refresh w st)).2).1 = .ok (.int (w.inode inc)) := by
  have h := refresh_drops w st p c hc hgone
  simp [getField, getPrim, memo, cached, addToCache, h, hnew, Act.read, readPrim]

/-- fresh history: with an empty archive the average starts from 0, the io-cost rate is 0 and the
pgscan rate is absent (first tick of a context, also of a re-created one) -/
theorem fresh_history (e : RefEnv α) (p : RPath) (h : e.arch p = Arch.empty) :
    refAverageUsage e p = (refInt e p .currentUsage).bind (fun cur => .ok (avgStep e.cfg.decay 0 cur)) ∧
    refIoCostRate e p = (refIoCostCum e p).bind (fun _ => .ok Num.zero) ∧
    refPgScanRate e p = (refPgScanCum e p).bind (fun _ => .unavailable) := by
  simp [refAverageUsage, refIoCostRate, refPgScanRate, h, Arch.empty, ioRateOf, pgRateOf]

/-- two consecutive ticks of the machine: pg_scan_rate of the new tick = the new cumulative value
minus the value obtained in the previous tick (the context survived `refresh`) -/
theorem rate_is_difference (cfg : Params α) (w : World) (st : OSt α) (p : RPath) (c : Ctx α) (prev : Int)
    (hc : st.ctxs p = some c) (hvalid : (w.file c.dir fControllers).isSome)
    (hw : ∀ q c, st.ctxs q = some c → (w.file c.dir fControllers).isSome → w.openDir q = some c.dir)
    (hprev : cached st p .pgScanCum = some (.int prev)) :
    (getAcc cfg w p (.field .pgScanRate) (refresh w st)).1 =
      ((refPgScanCum { w := w, sys := st.sys, cfg := cfg, arch := archOf (refresh w st) } p).bind
        fun cur => .ok (cur - prev)).map .int := by
  obtain ⟨c', h1, _, _, _, hpg⟩ := refresh_keeps w st p c hc hvalid
  rw [refresh_rereads cfg w st p _ hw ⟨c', h1⟩]
  simp [refAcc, refField, refPgScanRate, archOf, h1, hpg, hprev, pgRateOf, Val.int?, Res.toOption]

/-- ... and absent when pg_scan_cumulative was not obtained in the previous tick -/
theorem rate_absent_after_gap (cfg : Params α) (w : World) (st : OSt α) (p : RPath) (c : Ctx α)
    (hc : st.ctxs p = some c) (hvalid : (w.file c.dir fControllers).isSome)
    (hw : ∀ q c, st.ctxs q = some c → (w.file c.dir fControllers).isSome → w.openDir q = some c.dir)
    (hprev : cached st p .pgScanCum = none) :
    (getAcc cfg w p (.field .pgScanRate) (refresh w st)).1 =
      ((refPgScanCum { w := w, sys := st.sys, cfg := cfg, arch := archOf (refresh w st) } p).bind
        fun _ => (.unavailable : Res Int)).map .int := by
  obtain ⟨c', h1, _, _, _, hpg⟩ := refresh_keeps w st p c hc hvalid
  rw [refresh_rereads cfg w st p _ hw ⟨c', h1⟩]
  simp [refAcc, refField, refPgScanRate, archOf, h1, hpg, hprev, pgRateOf]

/-- io_cost_rate = difference of the cumulative io cost of consecutive ticks -/
theorem io_rate_is_difference (cfg : Params α) (w : World) (st : OSt α) (p : RPath) (c : Ctx α) (prev : α)
    (hc : st.ctxs p = some c) (hvalid : (w.file c.dir fControllers).isSome)
    (hw : ∀ q c, st.ctxs q = some c → (w.file c.dir fControllers).isSome → w.openDir q = some c.dir)
    (hprev : cached st p .ioCostCum = some (.num prev)) :
    (getAcc cfg w p (.field .ioCostRate) (refresh w st)).1 =
      ((refIoCostCum { w := w, sys := st.sys, cfg := cfg, arch := archOf (refresh w st) } p).bind
        fun cur => .ok (Num.sub cur prev)).map .num := by
  obtain ⟨c', h1, _, _, hio, _⟩ := refresh_keeps w st p c hc hvalid
  rw [refresh_rereads cfg w st p _ hw ⟨c', h1⟩]
  simp [refAcc, refField, refIoCostRate, archOf, h1, hio, hprev, ioRateOf, Val.num?, Res.toOption]

/-- the moving average of a tick is one `avgStep` (the recurrence of `ewma_closed_form` /
`ewma_truncation_bound`) from the average obtained in the previous tick -/
theorem average_recurrence (cfg : Params α) (w : World) (st : OSt α) (p : RPath) (c : Ctx α) (prev : Int)
    (hc : st.ctxs p = some c) (hvalid : (w.file c.dir fControllers).isSome)
    (hw : ∀ q c, st.ctxs q = some c → (w.file c.dir fControllers).isSome → w.openDir q = some c.dir)
    (hprev : cached st p .averageUsage = some (.int prev)) :
    (getAcc cfg w p (.field .averageUsage) (refresh w st)).1 =
      ((refInt { w := w, sys := st.sys, cfg := cfg, arch := archOf (refresh w st) } p .currentUsage).bind
        fun cur => .ok (avgStep cfg.decay prev cur)).map .int := by
  obtain ⟨c', h1, _, havg, _, _⟩ := refresh_keeps w st p c hc hvalid
  rw [refresh_rereads cfg w st p _ hw ⟨c', h1⟩]
  simp [refAcc, refField, refAverageUsage, archOf, h1, havg, hprev, Val.int?, Res.toOption]

end Cache

/-! ## non-vacuity: concrete instances of the hypotheses -/

example : Kernel.PsiRow.InRange { w10 := 0, f10 := 22, w60 := 0, f60 := 17, w300 := 1, f300 := 11, total := 58761459 } := by
  simp [Kernel.PsiRow.InRange, uint64Max]

example : Kernel.IoRow.InRange ⟨8, 0, 100, 200, 3, 4, 5, 6⟩ ∧ NonDigitStart (s " cost.usage=5") := by
  constructor
  · simp [Kernel.IoRow.InRange, int64Max]
  · show isDigitC ' ' = false
    decide

example : Word (s "nr_dying_descendants") ∧ (s "nr_dying_descendants").length ≤ 255 := by
  unfold Word
  decide

/-- over-commit instance: children 600 and 400 under a parent with 500 -/
example : (600 : Int) + 400 = sumInt [600, 400] ∧ (500 : Int) < sumInt [600, 400] := by decide

/-- the initial state is coherent with any world -/
example (w : World) (cfg : Params Rat) :
    Coh { w := w, sys := SysCtx.init, cfg := cfg, arch := fun _ => Arch.empty } (OSt.init : OSt Rat) :=
  coh_init _ rfl (fun _ => rfl)

end C15

import OomdModel.Path

/-!
# Crash-point model of the file readers (src/oomd/util/Fs.cpp) and of the two optional-key
sites outside it (`Oomd::updateContext` pswpout, `CgroupContext::getPgScanCumulative`), for C10.

Every reader is a function of the state of its file.  The result type makes the outcomes the
property is about explicit: `ok` / `unavailable` (the `SystemMaybe` error path) / `throws` (a C++
exception leaves the function - nothing between the readers and `main` catches it) / `ub` (an
operation with undefined behaviour: index past the end of a vector).

`std::stoll` & co. are a parameter `num : Str → Option Int` (`none` = the function throws
`std::invalid_argument` / `std::out_of_range`); theorems quantify over every such function.

The model is of the code after the `fix:` commits (empty-file checks, `find` instead of `at` for
`pswpout`, `nullopt` for a missing `pgscan`, directories into `dirs` in the `d_type`-less branch);
each `…Unfixed` definition is the code before, kept for the proved counterexamples.
-/

namespace OomdModel.Fault
open OomdModel.Path

inductive Res (α : Type) where
  | ok (a : α)
  | unavailable
  | throws
  | ub
deriving Repr, DecidableEq

def Res.safe {α} : Res α → Bool
  | .ok _ => true
  | .unavailable => true
  | _ => false

/-- state of a control file at the moment it is opened and read -/
inductive FileSt where
  | absent                      -- ENOENT (also: the cgroup directory is gone)
  | denied                      -- open fails (EACCES, ENODEV, ...)
  | unreadable                  -- open succeeds, read fails (EISDIR, EIO, ENODEV)
  | lines (ls : List Str)       -- content, split at newlines (an empty file is `lines []`)
deriving Repr, DecidableEq

/-- `Fs::readFileByLine(Fs::Fd::openat(...))` -/
def readLines : FileSt → Option (List Str)
  | .lines ls => some ls
  | _ => none

abbrev Num := Str → Option Int

def liftNum (num : Num) (s : Str) : Res Int :=
  match num s with
  | some v => .ok v
  | none => .throws

/-- `std::stoll((*lines)[0])` after the empty check: readMemcurrentAt, readSwapCurrentAt, readPidsCurrentAt -/
def firstLineNum (num : Num) (f : FileSt) : Res Int :=
  match readLines f with
  | none => .unavailable
  | some [] => .unavailable
  | some (l :: _) => liftNum num l

def firstLineNumUnfixed (num : Num) (f : FileSt) : Res Int :=
  match readLines f with
  | none => .unavailable
  | some [] => .ub
  | some (l :: _) => liftNum num l

def int64Max : Int := 9223372036854775807

/-- `readMinMaxLowHighFromLines`: memory.low / high / max / min, memory.swap.max -/
def minMaxLowHigh (num : Num) (f : FileSt) : Res Int :=
  match readLines f with
  | none => .unavailable
  | some [l] => if l = "max".toList then .ok int64Max else liftNum num l
  | some _ => .unavailable

/-- `readMemhightmpFromLines` -/
def memHighTmp (num : Num) (f : FileSt) : Res Int :=
  match readLines f with
  | none => .unavailable
  | some [l] =>
    match split l ' ' with
    | [a, _] => if a = "max".toList then .ok int64Max else liftNum num a
    | _ => .unavailable
  | some _ => .unavailable

/-- `readControllersAt` -/
def controllers (f : FileSt) : Res (List Str) :=
  match readLines f with
  | none => .unavailable
  | some [] => .unavailable
  | some (l :: _) => .ok (split l ' ')

def controllersUnfixed (f : FileSt) : Res (List Str) :=
  match readLines f with
  | none => .unavailable
  | some [] => .ub
  | some (l :: _) => .ok (split l ' ')

/-- `readIsPopulatedAt` -/
def populatedFromLines : List Str → Res Bool
  | [] => .unavailable
  | l :: rest =>
    match split l ' ' with
    | [k, v] =>
      if k = "populated".toList then
        (if v = "1".toList then .ok true else if v = "0".toList then .ok false else .unavailable)
      else populatedFromLines rest
    | _ => populatedFromLines rest

def populated (f : FileSt) : Res Bool :=
  match readLines f with
  | none => .unavailable
  | some ls => populatedFromLines ls

/-- `readMemoryOomGroupAt` -/
def oomGroup (f : FileSt) : Res Bool :=
  match readLines f with
  | none => .unavailable
  | some ls => .ok (ls == ["1".toList])

/-- key/value files read with `sscanf` (memory.stat, cgroup.stat, /proc/meminfo): lines that do
not scan are skipped, the reader itself never fails once the file could be read -/
def kvFile (scan : Str → Option (Str × Int)) (f : FileSt) : Res (List (Str × Int)) :=
  match readLines f with
  | none => .unavailable
  | some ls => .ok (ls.filterMap scan)

/-- `getPgScanCumulative` over the memory.stat map -/
def pgScan (memstat : Res (List (Str × Int))) : Res Int :=
  match memstat with
  | .ok m => match m.lookup "pgscan".toList with
    | some v => .ok v
    | none => .unavailable
  | .unavailable => .unavailable
  | .throws => .throws
  | .ub => .ub

def pgScanUnfixed (memstat : Res (List (Str × Int))) : Res Int :=
  match memstat with
  | .ok m => match m.lookup "pgscan".toList with
    | some v => .ok v
    | none => .throws
  | .unavailable => .unavailable
  | .throws => .throws
  | .ub => .ub

/-- the swapout-rate step of `Oomd::updateContext`: `none` = no rate computed this tick -/
def swapoutDelta (cur prev : List (Str × Int)) : Res (Option Int) :=
  if prev.isEmpty then .ok none
  else match cur.lookup "pswpout".toList, prev.lookup "pswpout".toList with
    | some a, some b => .ok (some (a - b))
    | _, _ => .ok none

def swapoutDeltaUnfixed (cur prev : List (Str × Int)) : Res (Option Int) :=
  if prev.isEmpty then .ok none
  else match cur.lookup "pswpout".toList, prev.lookup "pswpout".toList with
    | some a, some b => .ok (some (a - b))
    | _, _ => .throws

/-- `getVmstat`: a line without a space makes the file invalid; the value goes through `stoll` -/
def vmstatFromLines (num : Num) : List Str → Res (List (Str × Int))
  | [] => .ok []
  | l :: rest =>
    if ' ' ∈ l then
      match num (l.dropWhile (· != ' ')).tail with
      | some v =>
        match vmstatFromLines num rest with
        | .ok m => .ok ((l.takeWhile (· != ' '), v) :: m)
        | r => r
      | none => .throws
    else .unavailable

def vmstat (num : Num) (f : FileSt) : Res (List (Str × Int)) :=
  match readLines f with
  | none => .unavailable
  | some ls => vmstatFromLines num ls

/-! ### PSI files (`readRespressureFromLines`): the indices the code uses without a check -/

inductive PsiFormat | missing | invalid | experimental | upstream
deriving DecidableEq, Repr

def getPsiFormat (ls : List Str) : PsiFormat :=
  match ls with
  | [] => .missing
  | first :: _ =>
    if "some".toList.isPrefixOf first && ls.length ≥ 2 then .upstream
    else if "aggr".toList.isPrefixOf first && ls.length ≥ 3 then .experimental
    else .invalid

/-- `vec[i]` on a vector (with `_GLIBCXX_ASSERTIONS` an abort, otherwise undefined behaviour) -/
def idx {α} (l : List α) (i : Nat) : Res α :=
  match l[i]? with
  | some a => .ok a
  | none => .ub

def Res.bind {α β} (r : Res α) (f : α → Res β) : Res β :=
  match r with
  | .ok a => f a
  | .unavailable => .unavailable
  | .throws => .throws
  | .ub => .ub

/-- one `avgNN=value` token: `Util::split(tok, '=')`, name check, `stof(parts[1])` -/
def psiField (fnum : Num) (tok : Str) (name : Str) : Res Int :=
  (idx (split tok '=') 0).bind fun k =>
    if k != name then .unavailable
    else (idx (split tok '=') 1).bind fun v => liftNum fnum v

/-- returns the three averages (as whatever `fnum` yields) and the total for the upstream format -/
def pressure (fnum : Num) (full : Bool) (f : FileSt) : Res (Int × Int × Int) :=
  match readLines f with
  | none => .unavailable
  | some ls =>
    let i := if full then 1 else 0
    let tn := if full then "full".toList else "some".toList
    match getPsiFormat ls with
    | .upstream =>
      (idx ls i).bind fun line =>
        let toks := split line ' '
        (idx toks 0).bind fun t0 =>
          if t0 != tn then .unavailable
          else (idx toks 1).bind fun t1 => (psiField fnum t1 "avg10".toList).bind fun a =>
            (idx toks 2).bind fun t2 => (psiField fnum t2 "avg60".toList).bind fun b =>
            (idx toks 3).bind fun t3 => (psiField fnum t3 "avg300".toList).bind fun c =>
            (idx toks 4).bind fun t4 => (psiField fnum t4 "total".toList).bind fun _ =>
            .ok (a, b, c)
    | .experimental =>
      (idx ls (i + 1)).bind fun line =>
        let toks := split line ' '
        (idx toks 0).bind fun t0 =>
          if t0 != tn then .unavailable
          else (idx toks 1).bind fun t1 => (liftNum fnum t1).bind fun a =>
            (idx toks 2).bind fun t2 => (liftNum fnum t2).bind fun b =>
            (idx toks 3).bind fun t3 => (liftNum fnum t3).bind fun c => .ok (a, b, c)
    | .missing => .unavailable
    | .invalid => .unavailable

/-! ### directory listing without `d_type` (`readDirFromDIR`, fstatat branch) -/

structure DirEnt where
  name : Str
  isDir : Bool
  isReg : Bool
deriving Repr, DecidableEq

/-- (dirs, files) -/
def readDirUnknownType (ents : List DirEnt) : List Str × List Str :=
  let vis := ents.filter fun e => e.name.head? != some '.'
  ((vis.filter (·.isDir)).map (·.name), (vis.filter (·.isReg)).map (·.name))

def readDirUnknownTypeUnfixed (ents : List DirEnt) : List Str × List Str :=
  let vis := ents.filter fun e => e.name.head? != some '.'
  ([], (vis.filter fun e => e.isReg || e.isDir).map (·.name))

end OomdModel.Fault

/-!
# Model of the ranking done by the five kill plugins (C09)

Sources, modelled line by line:

* `src/oomd/OomdContext.h` `sortDescWithKillPrefs` (an unstable `std::sort` by the tuple
  `(kill_preference, key)`, descending): every output the sort may produce is a permutation of its
  input in which no later element compares greater than an earlier one (`admits`).
* `src/oomd/CgroupContext.cpp`: `rawProtection`, `normalizedProtection`, `getMemoryProtection`,
  `effective_usage`, `getAverageUsage`, `memory_growth`, `getIoCostCumulative`, `getIoCostRate`,
  `getPgScanRate`; `Fs::readKillPreferenceAt` (`src/oomd/util/Fs.cpp`).
* `src/oomd/plugins/Kill{MemoryGrowth,SwapUsage,Pressure,IOCost,PgScan}-inl.h`: `init` (the
  arguments that enter the ranking) and `rankForKilling`.

The model is of the code **with the repairs proposed in `/verif/fixes/`**
(`C09-swap-total-type.patch`, `C09-pressure-mean-float.patch`) and with `min_growth_ratio` parsed as a
fraction (repaired in `/repo` by commit 281abd7, found independently by C12 and C09);
the behaviour of the unrepaired code is kept as `Variant.legacy` so that the defects are stated
(and proved, `OomdProps/C09.lean`) as counterexamples and so that the driver can name them.

Arithmetic done in `double` / `float` is written once over `Num`; `Rat` is the instance theorems
are about, `Float` / `Float32` the instance the driver executes (bit-exact with the C++).
Integers (`int64_t`) are `Int`; the places where the C++ narrows are explicit (`toInt32`, `trunc`).
Everything here is executable and imports nothing outside core.
-/

namespace OomdModel.Rank

/-! ## Numbers -/

/-- The floating-point operations the ranking code uses. -/
class Num (α : Type) where
  /-- `static_cast<double>(int64_t)` / `float(int64_t)` -/
  ofInt : Int → α
  /-- decimal literal `m · 10^-e` as parsed by `std::stof` / `strtod` -/
  ofDec : Nat → Nat → α
  add : α → α → α
  sub : α → α → α
  mul : α → α → α
  div : α → α → α
  lt : α → α → Bool
  /-- conversion to `int64_t` (toward zero) -/
  trunc : α → Int

/-- `double` → `float` (identity on `Rat`). -/
class Narrow (D F : Type) where
  narrow : D → F

namespace Num
variable {α : Type} [Num α]
def zero : α := ofInt 0
def one : α := ofInt 1
/-- `a >= b` on floating-point values without NaN -/
def ge (a b : α) : Bool := !lt a b
def min (a b : α) : α := if lt b a then b else a     -- std::min(a, b) = (b < a) ? b : a
end Num

def ratTrunc (a : Rat) : Int := if 0 ≤ a then a.floor else -((-a).floor)

instance : Num Rat where
  ofInt := fun i => (i : Rat)
  ofDec := fun m e => (m : Rat) / ((10 ^ e : Nat) : Rat)
  add := (· + ·)
  sub := (· - ·)
  mul := (· * ·)
  div := (· / ·)
  lt := fun a b => decide (a < b)
  trunc := ratTrunc

instance : Num Float where
  ofInt := fun i => (Int64.ofInt i).toFloat
  ofDec := fun m e => Float.ofScientific m true e
  add := (· + ·)
  sub := (· - ·)
  mul := (· * ·)
  div := (· / ·)
  lt := fun a b => decide (a < b)
  trunc := fun a => a.toInt64.toInt

instance : Num Float32 where
  ofInt := fun i => (Int64.ofInt i).toFloat32
  ofDec := fun m e => Float32.ofScientific m true e
  add := (· + ·)
  sub := (· - ·)
  mul := (· * ·)
  div := (· / ·)
  lt := fun a b => decide (a < b)
  trunc := fun a => a.toInt64.toInt

instance : Narrow Rat Rat := ⟨id⟩
instance : Narrow Float Float32 := ⟨Float.toFloat32⟩

/-- value of an `int64_t` stored into an `int` (`auto swapTotal = 0;` in the unrepaired code) -/
def toInt32 (i : Int) : Int := (i + 2147483648) % 4294967296 - 2147483648

def int64Max : Int := 9223372036854775807

/-! ## `sortDescWithKillPrefs` -/

/-- one cgroup as the sort sees it: identity, `kill_preference().value_or(NORMAL)`, `get_key` -/
structure Entry (K : Type) where
  id : Nat
  pref : Int
  key : K
deriving Repr, DecidableEq

/-- `std::make_tuple(pref_a, key_a) > std::make_tuple(pref_b, key_b)` (lexicographic, built from `<`) -/
def gtPK {K : Type} (ltK : K → K → Bool) (a b : Entry K) : Bool :=
  decide (b.pref < a.pref) || (!decide (a.pref < b.pref) && ltK b.key a.key)

/-- no later element compares greater than `a` -/
def headOK {K : Type} (ltK : K → K → Bool) (a : Entry K) (rest : List (Entry K)) : Bool :=
  rest.all fun b => !gtPK ltK b a

def sortedDesc {K : Type} (ltK : K → K → Bool) : List (Entry K) → Bool
  | [] => true
  | a :: rest => headOK ltK a rest && sortedDesc ltK rest

/-- `out` is an output that `std::sort` with the comparator above may produce from `inp`:
    a permutation of the input in which no later element compares greater than an earlier one -/
def Admissible {K : Type} (ltK : K → K → Bool) (inp out : List (Entry K)) : Prop :=
  out.Perm inp ∧ sortedDesc ltK out = true

def lookup {K : Type} (inp : List (Entry K)) (id : Nat) : Option (Entry K) := inp.find? (·.id == id)

/-- executable acceptor used by the driver: the implementation's order is given by ids
    (ids are positions in the input, hence distinct) -/
def admitsIds {K : Type} (ltK : K → K → Bool) (inp : List (Entry K)) (outIds : List Nat) : Bool :=
  match outIds.mapM (lookup inp) with
  | none => false
  | some out => outIds.isPerm (inp.map (·.id)) && sortedDesc ltK out

/-! ## Statistics of one cgroup (`CgroupContext.cpp`) -/

/-- `rawProtection`: `min(current, max(memory.min, memory.low))` -/
def rawProtection (cur mmin low : Int) : Int := Min.min cur (Max.max mmin low)

section
variable {D : Type} [Num D]
open Num

/-- `normalizedProtection` : `raw * min(1.0, 1.0 * parent_prot / protection_sum)` truncated to `int64_t` -/
def normalizedProtection (raw parentProt protSum : Int) : Int :=
  if protSum = 0 then 0
  else trunc (mul (ofInt raw : D) (Num.min (one : D) (div (mul (one : D) (ofInt parentProt)) (ofInt protSum))))

/-- `effective_usage()` with the default scale 1 and adjustment 0 -/
def effectiveUsage (cur prot : Int) : Int := cur * 1 - prot + 0

/-- `getAverageUsage`: `prev_avg * ((decay - 1) / decay) + current / decay`, truncated -/
def averageUsage (decay : D) (prevAvg cur : Int) : Int :=
  trunc (add (mul (ofInt prevAvg : D) (div (sub decay one) decay)) (div (ofInt cur) decay))

/-- moving average after the given per-tick usages (oldest first), starting from "no archive" = 0 -/
def averageOver (decay : D) : Int → List Int → Int
  | prev, [] => prev
  | prev, c :: cs => averageOver decay (averageUsage decay prev c) cs

/-- `memory_growth()`: 0 when the average is 0, else `double(current) / average` -/
def memoryGrowth (cur avg : Int) : D :=
  if avg = 0 then zero else div (ofInt cur) (ofInt avg)

/-- one line of `io.stat` for a device that is in `io_devs`, with the coefficients of its type -/
structure IoLine (D : Type) where
  rbytes : Int
  wbytes : Int
  rios : Int
  wios : Int
  dbytes : Int
  dios : Int
  readIops : D
  readBw : D
  writeIops : D
  writeBw : D
  trimIops : D
  trimBw : D

/-- `getIoCostCumulative`: `cost += rios*c.read_iops + rbytes*c.readbw + wios*… + dbytes*c.trimbw` -/
def ioCostCumulative (lines : List (IoLine D)) : D :=
  lines.foldl (fun cost l =>
    add cost (add (add (add (add (add (mul (ofInt l.rios) l.readIops) (mul (ofInt l.rbytes) l.readBw))
      (mul (ofInt l.wios) l.writeIops)) (mul (ofInt l.wbytes) l.writeBw))
      (mul (ofInt l.dios) l.trimIops)) (mul (ofInt l.dbytes) l.trimBw))) zero

/-- `getIoCostRate`: 0 without an archived value, else the difference -/
def ioCostRate (prev : Option D) (cur : D) : D :=
  match prev with
  | none => zero
  | some p => sub cur p

end

/-- `getPgScanRate`: absent without an archived value -/
def pgScanRate (prev : Option Int) (cur : Int) : Option Int := prev.map (cur - ·)

/-- `Fs::readKillPreferenceAt`: the prefer xattrs are looked at first -/
def killPreference (trustedPrefer userPrefer trustedAvoid userAvoid : Bool) : Int :=
  if trustedPrefer || userPrefer then 1 else if trustedAvoid || userAvoid then -1 else 0

/-- what the plugins read of one sibling at the ranking tick -/
structure Stat (D F : Type) where
  id : Nat
  pref : Int
  cur : Int
  prot : Int
  avg : Int
  swap : Int
  mp10 : F
  mp60 : F
  ip10 : F
  ip60 : F
  ioRate : D
  pgRate : Option Int

namespace Stat
variable {D F : Type}
def eff (s : Stat D F) : Int := effectiveUsage s.cur s.prot
end Stat

/-! ## Which code is modelled -/

/-- `fixed` is the code with the proposed repairs; `legacy` the unrepaired code. -/
structure Variant where
  /-- `auto swapTotal = 0; auto memTotal = 0;` hold the totals in `int` -/
  totalsInt32 : Bool
  /-- `min_growth_ratio` goes through `parseUnsignedInt` -/
  ratioAsUInt : Bool
  /-- `int average` in `KillPressure::rankForKilling` -/
  pressureInt : Bool
deriving Repr, DecidableEq

def Variant.fixed : Variant := { totalsInt32 := false, ratioAsUInt := false, pressureInt := false }
def Variant.legacy : Variant := { totalsInt32 := true, ratioAsUInt := true, pressureInt := true }

/-! ## `kill_by_memory_size_or_growth` (`KillMemoryGrowth-inl.h`) -/

structure GrowthParams (F : Type) where
  sizeThreshold : Int          -- percent, `parseUnsignedInt`
  percentile : Int             -- `[0, 100)`
  minGrowthRatio : F

/-- `min_growth_ratio` argument `m · 10^-e` (digits, optional fraction).
    Repaired: `std::stof`.  Unrepaired: `std::stoi` stops at the `.` and keeps the integer part. -/
def parseMinGrowthRatio {F : Type} [Num F] (v : Variant) (m e : Nat) : F :=
  if v.ratioAsUInt then Num.ofInt ((m / 10 ^ e : Nat) : Int) else Num.ofDec m e

def insertDesc (x : Int) : List Int → List Int
  | [] => [x]
  | y :: ys => if y < x then x :: y :: ys else y :: insertDesc x ys

def sortDescInt (l : List Int) : List Int := l.foldr insertDesc []

/-- index used with `std::nth_element`: `ceil(n * (100 - P) / 100) - 1` -/
def nthIndex (n : Nat) (percentile : Int) : Nat := (((n : Int) * (100 - percentile) + 99) / 100 - 1).toNat

/-- `growth_kill_min_effective_usage_threshold` -/
def growthMinEff (percentile : Int) (effs : List Int) : Int :=
  if effs.length > 0 ∧ percentile > 0 then (sortDescInt effs).getD (nthIndex effs.length percentile) 0 else 0

section
variable {D F : Type} [Num D] [Num F] [Narrow D F]
open Num

/-- `size_threshold_in_bytes = cur_memcurrent * (double(size_threshold_) / 100)` -/
def sizeThresholdBytes (D : Type) [Num D] (total sizeThreshold : Int) : Int :=
  trunc (mul (ofInt total : D) (div (ofInt sizeThreshold) (ofInt 100)))

/-- what `get_ranking_fn` computes from the whole sibling list before ranking any of them -/
structure GrowthCtx where
  thresholdBytes : Int
  minEff : Int

def growthCtx (D : Type) [Num D] {F : Type} (p : GrowthParams F) (sibs : List (Stat D F)) : GrowthCtx :=
  { thresholdBytes := sizeThresholdBytes D ((sibs.map (·.cur)).foldl (· + ·) 0) p.sizeThreshold
    minEff := growthMinEff p.percentile (sibs.map Stat.eff) }

def growthRatio (s : Stat D F) : F := Narrow.narrow (memoryGrowth (D := D) s.cur s.avg)

def sizeEligible (c : GrowthCtx) (s : Stat D F) : Bool := decide (c.thresholdBytes ≤ s.cur)

def growthEligible (p : GrowthParams F) (c : GrowthCtx) (s : Stat D F) : Bool :=
  ge (growthRatio s) p.minGrowthRatio && decide (c.minEff ≤ s.eff)

/-- the rank tuple `(size_eligible ? eff : 0, growth_eligible ? ratio : 0, eff)` -/
def growthKey (p : GrowthParams F) (c : GrowthCtx) (s : Stat D F) : Int × F × Int :=
  (if sizeEligible c s then s.eff else 0, if growthEligible p c s then growthRatio s else Num.zero, s.eff)

/-- `operator<` of `std::tuple<int64_t, float, int64_t>` -/
def ltGrowthKey (a b : Int × F × Int) : Bool :=
  decide (a.1 < b.1) || (!decide (b.1 < a.1) &&
    (lt a.2.1 b.2.1 || (!lt b.2.1 a.2.1 && decide (a.2.2 < b.2.2))))

def growthEntries (p : GrowthParams F) (sibs : List (Stat D F)) : List (Entry (Int × F × Int)) :=
  let c := growthCtx D p sibs
  sibs.map fun s => { id := s.id, pref := s.pref, key := growthKey p c s }

/-! ## `kill_by_swap_usage` (`KillSwapUsage-inl.h`) -/

/-- the `threshold` argument forms the check generates -/
inductive ThresholdArg where
  | default                 -- argument absent: `threshold_{1}`
  | percent (p : Int)       -- "p%" : `swapTotal * p / 100`
  | bytes (b : Int)         -- bare megabytes / size with a suffix, already in bytes
deriving Repr

structure SwapParams where
  threshold : ThresholdArg
  biased : Bool
  swapTotal : Option Int     -- `SwapTotal` of meminfo in bytes, if present
  memTotal : Option Int

def swapTotalSeen (v : Variant) (p : SwapParams) : Int :=
  let t := p.swapTotal.getD 0
  if v.totalsInt32 then toInt32 t else t

def memTotalSeen (v : Variant) (p : SwapParams) : Int :=
  let t := p.memTotal.getD 0
  if v.totalsInt32 then toInt32 t else t

/-- `Util::parseSizeOrPercent(str, &res, swapTotal)` for the generated forms; C++ `/` truncates toward zero -/
def swapThreshold (v : Variant) (p : SwapParams) : Int :=
  match p.threshold with
  | .default => 1
  | .percent pct => Int.tdiv (swapTotalSeen v p * pct) 100
  | .bytes b => b

/-- `swapRatio_ = float(swapTotal) / memTotal` when `MemTotal` is present and positive, else 0 -/
def swapRatio (F : Type) [Num F] (v : Variant) (p : SwapParams) : F :=
  if p.memTotal.isSome ∧ memTotalSeen v p > 0 then div (ofInt (swapTotalSeen v p)) (ofInt (memTotalSeen v p)) else zero

/-- `getSwapExcess`: `swap - int64_t(swapRatio_ * protection)`, not below 0 -/
def swapExcess (ratio : F) (s : Stat D F) : Int :=
  let swapLow := trunc (mul ratio (ofInt s.prot : F))
  let excess := s.swap - swapLow
  if excess > 0 then excess else 0

def swapEntries (v : Variant) (p : SwapParams) (sibs : List (Stat D F)) : List (Entry Int) :=
  let thr := swapThreshold v p
  let ratio : F := swapRatio F v p
  (sibs.filter fun s => decide (s.swap > thr)).map fun s =>
    { id := s.id, pref := s.pref, key := if p.biased then swapExcess ratio s else s.swap }

def ltInt (a b : Int) : Bool := decide (a < b)

/-! ## `kill_by_pressure` (`KillPressure-inl.h`) -/

inductive Resource where
  | io
  | memory
deriving Repr, DecidableEq

/-- repaired code: `float average = sec_10 / 2 + sec_60 / 2` -/
def pressureMean (r : Resource) (s : Stat D F) : F :=
  match r with
  | .io => add (div s.ip10 (ofInt 2)) (div s.ip60 (ofInt 2))
  | .memory => add (div s.mp10 (ofInt 2)) (div s.mp60 (ofInt 2))

def pressureEntries (r : Resource) (sibs : List (Stat D F)) : List (Entry F) :=
  sibs.map fun s => { id := s.id, pref := s.pref, key := pressureMean r s }

/-- unrepaired code: `int average = …` truncates the mean -/
def pressureEntriesLegacy (r : Resource) (sibs : List (Stat D F)) : List (Entry Int) :=
  sibs.map fun s => { id := s.id, pref := s.pref, key := trunc (pressureMean r s) }

/-! ## `kill_by_io_cost` (`KillIOCost-inl.h`) -/

def ioCostEntries (sibs : List (Stat D F)) : List (Entry D) :=
  sibs.map fun s => { id := s.id, pref := s.pref, key := s.ioRate }

/-! ## `kill_by_pg_scan` (`KillPgScan-inl.h`) -/

def pgScanEntries (sibs : List (Stat D F)) : List (Entry Int) :=
  (sibs.filter fun s => decide (s.pgRate.getD 0 > 0)).map fun s =>
    { id := s.id, pref := s.pref, key := s.pgRate.getD 0 }

end

end OomdModel.Rank

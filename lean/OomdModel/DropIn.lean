import OomdModel.Engine

/-!
# Model of drop-in configs

* `Config2::compileDropIn`, `compileRuleset` (src/oomd/config/ConfigCompiler.cpp)
* `Ruleset::mergeWithDropIn`, `markDropInTargeted`, `markDropInUntargeted`, the `enabled_` test of
  `Ruleset::prerun / runOnce` (src/oomd/engine/Ruleset.cpp)
* `Engine::Engine`, `addDropInConfig`, `addDropInRuleset`, `removeDropInConfig`, `prerun`, `runOnce`,
  `firePrekillHook` (src/oomd/engine/Engine.cpp)
* `DropInServiceAdaptor::scheduleDropInAdd / scheduleDropInRemove / updateDropIns`
  (src/oomd/dropin/DropInServiceAdaptor.cpp)

Running one ruleset is `OomdModel.Engine.rsRun` (C02/C05/C06).  Ruleset names are numbers (`rid`),
tags are numbers, plugin / hook instances are numbers.  What the plugin registry does with an
instance (create + `init()` succeed or not) is an environment predicate (`Reg`).

Not modelled: rulesets with a `cgroup` (C11), `oomd.dropin.fired`, 32-bit wrap of `numTargeted_` and
of the `int` statistics (more than 2^31 drop-ins).
-/

namespace OomdModel.DropIn
open OomdModel.Engine

abbrev Tag := Nat

/-- `IR::DropIn` : the three permission bits of a base ruleset -/
structure Perm where
  disable : Bool := false
  dg : Bool := false
  act : Bool := false
deriving DecidableEq, Repr

/-- `Config2::IR::Ruleset` as far as `compileRuleset` reads it.  `malformed` = `silence_logs` names an
unknown source or a delay / time-out is negative (`compileRuleset` returns nullptr). -/
structure RsIR where
  rid : Nat
  groups : List Group
  actions : List Nat
  delay : Nat
  hookTimeout : Nat
  perm : Perm
  malformed : Bool
deriving DecidableEq, Repr

structure Root where
  rulesets : List RsIR
  hooks : List Nat
deriving Repr

/-- the plugin registries as the compiler sees them: `true` = `create` or `init()` fails -/
structure Reg where
  badPlugin : Nat → Bool
  badHook : Nat → Bool

/-- a `Ruleset` object -/
structure Rs where
  cfg : RsCfg
  perm : Perm
  st : RsState
  enabled : Bool
  numTargeted : Int
deriving DecidableEq, Repr

/-- `compileRuleset(ruleset, dropin, context)`: nullptr (`none`) or a new `Ruleset` (`enabled_{true}`,
`numTargeted_{0}`, no pause, no suspended chain).  The order of the checks does not matter for the
result. -/
def compileRuleset (reg : Reg) (ir : RsIR) (dropin : Bool) : Option Rs :=
  if ir.malformed then none
  else if !dropin && (ir.groups.isEmpty || ir.actions.isEmpty) then none
  else if ir.groups.any (·.dets.isEmpty) then none
  else if (ir.groups.flatMap (·.dets) ++ ir.actions).any reg.badPlugin then none
  else some
    { cfg := { rid := ir.rid, groups := ir.groups, actions := ir.actions, delay := ir.delay, hookTimeout := ir.hookTimeout }
      perm := ir.perm
      st := {}
      enabled := true
      numTargeted := 0 }

/-- `Ruleset::mergeWithDropIn`: `this` = the fresh copy of the base, argument = the compiled drop-in -/
def mergeWithDropIn (target drop : Rs) : Option Rs :=
  if !drop.cfg.groups.isEmpty && !target.perm.dg then none
  else if !drop.cfg.actions.isEmpty && !target.perm.act then none
  else some
    { target with
      cfg :=
        { target.cfg with
          groups := if drop.cfg.groups.isEmpty then target.cfg.groups else drop.cfg.groups
          actions := if drop.cfg.actions.isEmpty then target.cfg.actions else drop.cfg.actions } }

/-- body of the outer loop of `compileDropIn` for one drop-in ruleset: the first base ruleset of the
IR with the same name is compiled afresh and merged with the compiled drop-in -/
def compileDropRs (reg : Reg) (root : List RsIR) (d : RsIR) : Option Rs :=
  match root.find? (fun b => b.rid == d.rid) with
  | none => none
  | some b =>
    match compileRuleset reg b false with
    | none => none
    | some target =>
      match compileRuleset reg d true with
      | none => none
      | some drop => mergeWithDropIn target drop

def compileDropRss (reg : Reg) (root : List RsIR) : List RsIR → Option (List Rs)
  | [] => some []
  | d :: ds =>
    match compileDropRs reg root d with
    | none => none
    | some r =>
      match compileDropRss reg root ds with
      | none => none
      | some rs => some (r :: rs)

def compileHooks (reg : Reg) : List Nat → Option (List Nat)
  | [] => some []
  | h :: hs => if reg.badHook h then none else (compileHooks reg hs).map (h :: ·)

/-- `Engine::DropInUnit` -/
structure DUnit where
  rulesets : List Rs
  hooks : List Nat
deriving DecidableEq, Repr

/-- `Config2::compileDropIn(root, dropin, context)` -/
def compileDropIn (reg : Reg) (root : Root) (d : Root) : Option DUnit :=
  match compileDropRss reg root.rulesets d.rulesets with
  | none => none
  | some rs =>
    match compileHooks reg d.hooks with
    | none => none
    | some hs => some { rulesets := rs, hooks := hs }

/-! ### Engine state -/

structure DropInRs where
  tag : Tag
  rs : Rs
deriving DecidableEq, Repr

/-- `Engine::BaseRuleset`; `dropins` is the deque, head = front -/
structure BaseRs where
  rs : Rs
  dropins : List DropInRs
deriving DecidableEq, Repr

structure TaggedHook where
  tag : Option Tag
  hid : Nat
deriving DecidableEq, Repr

structure Eng where
  rulesets : List BaseRs
  /-- `prekill_hooks_in_reverse_order_` -/
  hooksRev : List TaggedHook
  /-- the statistic `oomd.dropin.added` -/
  added : Int
deriving DecidableEq, Repr

/-- `Engine::Engine(rulesets, prekill_hooks)` -/
def mkEngine (rs : List Rs) (hooks : List Nat) : Eng :=
  { rulesets := rs.map fun r => { rs := r, dropins := [] }
    hooksRev := hooks.reverse.map fun h => { tag := none, hid := h }
    added := 0 }

def compileRss (reg : Reg) : List RsIR → Option (List Rs)
  | [] => some []
  | r :: rs =>
    match compileRuleset reg r false with
    | none => none
    | some c => (compileRss reg rs).map (c :: ·)

/-- `Config2::compile(root, context)` (statistics start at 0: `Stats` is fresh) -/
def compile (reg : Reg) (root : Root) : Option Eng :=
  match compileRss reg root.rulesets with
  | none => none
  | some rs => (compileHooks reg root.hooks).map (mkEngine rs)

/-- `Ruleset::markDropInTargeted` -/
def markTargeted (r : Rs) : Rs :=
  let n := r.numTargeted + 1
  { r with numTargeted := n, enabled := !(r.perm.disable && n != 0) && r.enabled }

/-- `Ruleset::markDropInUntargeted` -/
def markUntargeted (r : Rs) : Rs :=
  let n := r.numTargeted - 1
  { r with numTargeted := n, enabled := decide (n ≤ 0) || r.enabled }

def untargetN : Nat → Rs → Rs
  | 0, r => r
  | n + 1, r => untargetN n (markUntargeted r)

/-- `addDropInRuleset`, the part after the null test: `find_if` by name, `emplace_front`,
`markDropInTargeted`; `none` = target not found (nothing changed) -/
def addToFirst (tag : Tag) (r : Rs) : List BaseRs → Option (List BaseRs)
  | [] => none
  | b :: bs =>
    if b.rs.cfg.rid == r.cfg.rid then
      some ({ rs := markTargeted b.rs, dropins := { tag := tag, rs := r } :: b.dropins } :: bs)
    else (addToFirst tag r bs).map (b :: ·)

/-- `Engine::addDropInRuleset` (the unit's rulesets are never null: `compileDropIn` only stores
successfully merged rulesets) -/
def addDropInRuleset (tag : Tag) (r : Rs) (e : Eng) : Option Eng :=
  (addToFirst tag r e.rulesets).map fun bs => { e with rulesets := bs, added := e.added + 1 }

def countTag (tag : Tag) (b : BaseRs) : Nat := (b.dropins.filter (·.tag == tag)).length

/-- loop body of `removeDropInConfig` for one base ruleset -/
def removeFromBase (tag : Tag) (b : BaseRs) : BaseRs :=
  let n := countTag tag b
  if n == 0 then b
  else { rs := untargetN n b.rs, dropins := b.dropins.filter (fun d => !(d.tag == tag)) }

def sumNat : List Nat → Nat
  | [] => 0
  | x :: xs => x + sumNat xs

/-- `Engine::removeDropInConfig` -/
def removeDropInConfig (tag : Tag) (e : Eng) : Eng :=
  { rulesets := e.rulesets.map (removeFromBase tag)
    hooksRev := e.hooksRev.filter (fun h => !(h.tag == some tag))
    added := e.added - Int.ofNat (sumNat (e.rulesets.map (countTag tag))) }

/-- first loop of `addDropInConfig`; on failure the engine reached so far is returned with `false` -/
def addRulesets (tag : Tag) : List Rs → Eng → Bool × Eng
  | [], e => (true, e)
  | r :: rs, e =>
    match addDropInRuleset tag r e with
    | none => (false, e)
    | some e' => addRulesets tag rs e'

/-- `Engine::addDropInConfig` -/
def addDropInConfig (tag : Tag) (u : DUnit) (e : Eng) : Bool × Eng :=
  let r := addRulesets tag u.rulesets e
  if r.1 then
    (true, { r.2 with hooksRev := r.2.hooksRev ++ u.hooks.reverse.map fun h => { tag := some tag, hid := h } })
  else (false, removeDropInConfig tag r.2)

/-- one queue entry of `DropInServiceAdaptor::updateDropIns`: remove, then add if there is a unit -/
def updateDropIn (tag : Tag) (u : Option DUnit) (e : Eng) : Bool × Eng :=
  let e1 := removeDropInConfig tag e
  match u with
  | none => (true, e1)
  | some u => addDropInConfig tag u e1

/-! ### A tick -/

def prerunRs (r : Rs) : List Ev := if r.enabled then preruns r.cfg else []

/-- `Engine::prerun` -/
def enginePrerun (e : Eng) : List Ev :=
  e.rulesets.flatMap fun b => b.dropins.flatMap (fun d => prerunRs d.rs) ++ prerunRs b.rs

/-- `Ruleset::runOnce` without a ruleset cgroup -/
def runRs (inv : Bool) (sc : Script) (r : Rs) (now ctr : Nat) : Rs × List Ev × Nat × Nat :=
  if r.enabled then
    let x := rsRun inv r.cfg sc r.st now ctr
    ({ r with st := x.1 }, x.2.1, x.2.2.1, x.2.2.2)
  else (r, [], now, ctr)

def runDropins (inv : Bool) (sc : Script) : List DropInRs → Nat → Nat → List DropInRs × List Ev × Nat × Nat
  | [], now, ctr => ([], [], now, ctr)
  | d :: ds, now, ctr =>
    let r := runRs inv sc d.rs now ctr
    let r2 := runDropins inv sc ds r.2.2.1 r.2.2.2
    ({ d with rs := r.1 } :: r2.1, r.2.1 ++ r2.2.1, r2.2.2.1, r2.2.2.2)

/-- `Engine::runOnce` -/
def runBases (inv : Bool) (sc : Script) : List BaseRs → Nat → Nat → List BaseRs × List Ev × Nat × Nat
  | [], now, ctr => ([], [], now, ctr)
  | b :: bs, now, ctr =>
    let rd := runDropins inv sc b.dropins now ctr
    let rb := runRs inv sc b.rs rd.2.2.1 rd.2.2.2
    let r2 := runBases inv sc bs rb.2.2.1 rb.2.2.2
    ({ rs := rb.1, dropins := rd.1 } :: r2.1, rd.2.1 ++ rb.2.1 ++ r2.2.1, r2.2.2.1, r2.2.2.2)

/-- `Engine::firePrekillHook`: the first hook, from the back of the vector, that can run on the cgroup -/
def firePrekillHook (e : Eng) (canRun : Nat → Bool) : Option Nat :=
  (e.hooksRev.reverse.find? fun h => canRun h.hid).map (·.hid)

/-! ### Histories -/

structure World where
  eng : Eng
  now : Nat
  ctr : Nat

inductive Op
  | add (tag : Tag) (d : Root)
  | remove (tag : Tag)
  | tick (ti : TickIn)

/-- what the operation reports: for `add` whether the compile and the engine accepted it -/
inductive OpRes
  | compileFailed | added | addFailed | removed
deriving DecidableEq, Repr

inductive Out
  | op (res : OpRes) (stat : Int)
  | tick (evs : List Ev)
deriving DecidableEq

/-- context of a history: registry contents, the base IR the adaptor holds (`root_`), and whether the
C05 repair is in (see `OomdModel.Engine`) -/
structure Env where
  reg : Reg
  root : Root
  inv : Bool

/-- one step of the main loop's drop-in handling / one tick (`Oomd::run`) -/
def step (env : Env) (w : World) : Op → World × Out
  | .add tag d =>
    -- scheduleDropInAdd: compile now; queue only if it compiled; updateDropIns: remove then add
    match compileDropIn env.reg env.root d with
    | none => (w, .op .compileFailed w.eng.added)
    | some u =>
      let r := updateDropIn tag (some u) w.eng
      ({ w with eng := r.2 }, .op (if r.1 then .added else .addFailed) r.2.added)
  | .remove tag =>
    let r := updateDropIn tag none w.eng
    ({ w with eng := r.2 }, .op .removed r.2.added)
  | .tick ti =>
    let now := w.now + ti.gap
    let pre := enginePrerun w.eng
    let r := runBases env.inv ti.sc w.eng.rulesets now w.ctr
    ({ eng := { w.eng with rulesets := r.1 }, now := r.2.2.1, ctr := r.2.2.2 }, .tick (pre ++ r.2.1))

def run (env : Env) : World → List Op → List Out
  | _, [] => []
  | w, op :: ops =>
    let r := step env w op
    r.2 :: run env r.1 ops

/-- state after a history -/
def apply (env : Env) : World → List Op → World
  | w, [] => w
  | w, op :: ops => apply env (step env w op).1 ops

def Op.tag? : Op → Option Tag
  | .add t _ => some t
  | .remove t => some t
  | .tick _ => none

end OomdModel.DropIn

/-!
# Model of the seven core detector plugins (C08)

Written from the C++ line by line:

* `src/oomd/plugins/PressureAbove.cpp`        `PressureAbove::run`
* `src/oomd/plugins/MemoryAbove.cpp`          `MemoryAbove::run`, threshold argument of `init`
* `src/oomd/plugins/PressureRisingBeyond.cpp` `PressureRisingBeyond::run`
* `src/oomd/plugins/MemoryReclaim.cpp`        `MemoryReclaim::run`
* `src/oomd/plugins/SwapFree.cpp`             `SwapFree::run`
* `src/oomd/plugins/Exists.cpp`               `Exists::run`
* `src/oomd/plugins/NrDyingDescendants.cpp`   `NrDyingDescendants::run`

**The model is of the code with the proposed fix `fixes/C08-reclaim-epoch.patch` applied**
(`memory_reclaim` must not report reclaim while `last_reclaim_at_` is still the epoch, i.e. before
any growth of pgscan was ever seen).  `reclaimStepUnfixed` is the code as it is on the pinned
commit; it is used only for the counterexample in `OomdProps/C08.lean`.

Conventions
* time: `steady_clock` readings are `Nat` nanoseconds; `0` is `steady_clock::time_point()`, which
  the plugins use as "unset" (so a reading of exactly 0 ns is indistinguishable from "unset":
  theorems carry the hypothesis that readings are positive).
* PSI averages: the kernel prints `%lu.%02lu`; the model keeps hundredths as `Nat`.  The plugins
  hold them in `float` and compare with an `int` threshold; for hundredths ≤ 10^6 and |threshold|
  < 2^24 the float comparison `stof(s) > (float)thr` decides like `h > 100*thr` (monotone rounding,
  the integer is exactly representable, the spacing of floats there is far below 0.01).  The same
  holds for the weighted score `3*a + 2*b + c` whenever the exact scores differ (they then differ by
  ≥ 0.01, the accumulated float error is < 2·10⁻⁴); when the exact scores are *equal* the float
  scores may differ in the last bit, which only moves the choice inside the set of exact maxima -
  that set is what the acceptor (`watchCands`) allows.  These are tested facts of the
  correspondence run, not theorems.
* the only float computation that is mirrored bit for bit is the fast-fall product
  (`fallingF32`); the step functions take the comparison as a parameter so that theorems hold for
  every such function.
* what a plugin sees of the cgroup tree in one tick is a list (in the iteration order of the
  `std::unordered_set`, which is part of the environment) of per-cgroup values, `value_or`
  defaults already applied by the caller (`Driver/Detect.lean`), exactly as the C++ does inline.
-/

namespace OomdModel.Detect

/-- nanoseconds per second.  All clock readings stay in nanoseconds inside the model; `NS` only occurs as
the divisor of `secsBetween` and as a factor in theorem statements.  No proof unfolds it (lemmas use
`NS_pos` and treat it as an opaque positive constant; `omega` sees it as an atom), so the kernel never
has to evaluate `_ * 1000000000` symbolically (FRAMEWORK.md quirk); `lake build` of the C08 modules
takes < 5 s and `leanchecker OomdProps.C08` 10 s. -/
def NS : Nat := 1000000000

/-- `duration_cast<seconds>(b - a).count()` (truncation toward zero, as `duration_cast` does) -/
def secsBetween (a b : Nat) : Int := Int.tdiv ((b : Int) - (a : Int)) (NS : Int)

/-! ## watched value: the selection loops -/

/-- `ResourcePressure` in hundredths -/
structure P3 where
  s10 : Nat
  s60 : Nat
  s300 : Nat
deriving DecidableEq, Repr

def P3.zero : P3 := ⟨0, 0, 0⟩

/-- `rp.sec_10 * 3 + rp.sec_60 * 2 + rp.sec_300` -/
def P3.score (p : P3) : Nat := 3 * p.s10 + 2 * p.s60 + p.s300

/-- PressureAbove.cpp:57-76 / PressureRisingBeyond.cpp:59-78: `current_pressure` starts as
`ResourcePressure{}` and is replaced by a cgroup's pressure when that one's score is strictly larger. -/
def watchP (cgs : List P3) : P3 :=
  cgs.foldl (fun cur rp => if cur.score < rp.score then rp else cur) P3.zero

/-- MemoryAbove.cpp:103-116: `if (current_memory_usage < usage) current_memory_usage = usage;` from 0 -/
def watchMem (us : List Nat) : Nat :=
  us.foldl (fun cur u => if cur < u then u else cur) 0

def maxScore (cgs : List P3) : Nat := cgs.foldl (fun m p => max m p.score) 0

/-- acceptor for the iteration-order nondeterminism: every cgroup of maximal (positive) score can be
the watched one, depending on the order in which the set is walked (`C08.watched_*`). -/
def watchCands (cgs : List P3) : List P3 :=
  if maxScore cgs = 0 then [P3.zero] else cgs.filter (fun p => p.score == maxScore cgs)

/-! ## arm / disarm window (pressure_above, memory_above, 60 s part of pressure_rising_beyond) -/

/-- PressureAbove.cpp:85-108 (same block in MemoryAbove.cpp:120-151, PressureRisingBeyond.cpp:88-104).
`hit` is `hit_thres_at_` (0 = epoch), result = (new `hit_thres_at_`, "duration met"). -/
def winStep (dur : Int) (hit now : Nat) (exceeds : Bool) : Nat × Bool :=
  if exceeds then
    let hit' := if hit = 0 then now else hit
    (hit', decide (dur ≤ secsBetween hit' now))
  else (0, false)

/-- `current_pressure.sec_10 > threshold_` with `float` vs `int`, on hundredths -/
def exceedsP (thr : Int) (h : Nat) : Bool := decide (100 * thr < (h : Int))

/-- one tick of `PressureAbove::run` -/
def pressureAboveStep (thr dur : Int) (hit : Nat) (now : Nat) (cgs : List P3) : Nat × Bool :=
  winStep dur hit now (exceedsP thr (watchP cgs).s10)

/-- one tick of `MemoryAbove::run`; `thr` is `threshold_` in bytes (see `parseThreshold`) -/
def memoryAboveStep (thr dur : Int) (hit : Nat) (now : Nat) (usages : List Nat) : Nat × Bool :=
  winStep dur hit now (decide (thr < (watchMem usages : Int)))

/-! ## pressure_rising_beyond -/

structure RiseSt where
  hit : Nat      -- hit_thres_at_
  last10 : Nat   -- last_pressure_.sec_10, hundredths
deriving DecidableEq, Repr

/-- PressureRisingBeyond.h:49-50: `last_pressure_{100, 100, 100}`, `hit_thres_at_{}` -/
def RiseSt.init : RiseSt := ⟨0, 10000⟩

/-- one tick of `PressureRisingBeyond::run`; `falling cur last` is
`current_pressure.sec_10 < last_pressure_.sec_10 * fast_fall_ratio_` -/
def risingStep (falling : Nat → Nat → Bool) (thr dur : Int) (st : RiseSt) (now : Nat) (cgs : List P3) :
    RiseSt × Bool :=
  let w := watchP cgs
  let r := winStep dur st.hit now (exceedsP thr w.s60)
  let above := exceedsP thr w.s10
  let fall := falling w.s10 st.last10
  (⟨r.1, w.s10⟩, r.2 && above && !fall)     -- OOMD_SCOPE_EXIT: last_pressure_ = current_pressure

/-- the comparison over the rationals, ratio = `num / den` -/
def fallingRat (num den : Nat) (cur last : Nat) : Bool := decide (cur * den < last * num)

/-- the comparison as the C++ does it: all three values are `float`s obtained by `std::stof` from
decimal strings (`mant · 10^-decs` for the ratio, hundredths for the pressures; 100 for the
initial `last_pressure_`), the product is a `float` product. -/
def fallingF32 (mant decs : Nat) (cur last : Nat) : Bool :=
  let c := Float32.ofScientific cur true 2
  let l := Float32.ofScientific last true 2
  let r := Float32.ofScientific mant true decs
  decide (c < l * r)

/-! ## memory_reclaim -/

structure RecSt where
  lastPgscan : Int   -- last_pgscan_
  lastAt : Nat       -- last_reclaim_at_ (0 = epoch)
deriving DecidableEq, Repr

def RecSt.init : RecSt := ⟨0, 0⟩

/-- MemoryReclaim.cpp:47-78 on the pinned commit: with `last_reclaim_at_` still the epoch the
difference is the time since boot, so the plugin answers CONTINUE during the first `duration`
seconds of uptime although pgscan never grew. -/
def reclaimStepUnfixed (dur : Int) (st : RecSt) (now : Nat) (pgscans : List Nat) : RecSt × Bool :=
  let sum : Int := (pgscans.foldl (· + ·) 0 : Nat)
  let lastAt := if st.lastPgscan < sum then now else st.lastAt
  (⟨sum, lastAt⟩, decide (secsBetween lastAt now ≤ dur))

/-- the same with `fixes/C08-reclaim-epoch.patch`:
`if (last_reclaim_at_ != time_point() && diff <= duration_)`. `pgscans` are the `pgscan` entries of
the resolved cgroups whose memory.stat is readable and has the key. -/
def reclaimStep (dur : Int) (st : RecSt) (now : Nat) (pgscans : List Nat) : RecSt × Bool :=
  let sum : Int := (pgscans.foldl (· + ·) 0 : Nat)
  let lastAt := if st.lastPgscan < sum then now else st.lastAt
  (⟨sum, lastAt⟩, decide (lastAt ≠ 0) && decide (secsBetween lastAt now ≤ dur))

/-! ## instantaneous detectors -/

def U64 : Nat := 2 ^ 64

/-- conversion of a (possibly negative) `int` / `int64_t` to `uint64_t` -/
def toU64 (i : Int) : Nat := (i % (U64 : Int)).toNat

/-- SwapFree.cpp:41-60.  `total`, `used` are the `uint64_t` fields of `SystemContext`;
`swaptotal * threshold_pct_ / 100` and `swaptotal - swapused` are computed in `uint64_t`;
`rate`/`bpsThr`: `system_ctx.swapout_bps >= swapout_bps_threshold_` (double vs int64, exact below 2^53). -/
def swapFreeVerdict (pct bpsThr : Int) (total used : Nat) (rate : Int) : Bool :=
  let thres := (total * toU64 pct) % U64 / 100
  let free := (total + (U64 - used % U64)) % U64
  decide (free < thres) && decide (bpsThr ≤ rate)

/-- Exists.cpp:47-69: `resolved` = for each configured pattern the list `resolveWildcard()` returned -/
def existsVerdict {α : Type} (negate : Bool) (resolved : List (List α)) : Bool :=
  (resolved.any (fun r => !r.isEmpty)) != negate

/-- NrDyingDescendants.cpp:50-66: `nrs` = `nr_dying_descendants` of the resolved cgroups whose
cgroup.stat is readable (a missing key reads as 0) -/
def dyingVerdict (lte : Bool) (count : Int) (nrs : List Nat) : Bool :=
  nrs.any (fun n => if lte then decide ((n : Int) ≤ count) else decide (count < (n : Int)))

/-! ## running a detector over a history -/

/-- verdicts of all ticks, oldest first -/
def runDet {σ ι : Type} (step : σ → ι → σ × Bool) : σ → List ι → List Bool
  | _, [] => []
  | st, x :: xs => (step st x).2 :: runDet step (step st x).1 xs

def stateAfter {σ ι : Type} (step : σ → ι → σ × Bool) (init : σ) (h : List ι) : σ :=
  h.foldl (fun st x => (step st x).1) init

/-- the verdict of the last tick of the history `pre ++ [x]` -/
def lastVerdict {σ ι : Type} (step : σ → ι → σ × Bool) (init : σ) (pre : List ι) (x : ι) : Bool :=
  (step (stateAfter step init pre) x).2

/-! ## `threshold` / `threshold_anon` of memory_above (MemoryAbove.cpp:72-83, Util.cpp:132-166)

Only the part of `parseSizeOrPercent` that the C08 generator uses: `N%`, a bare `N` (megabytes),
and components `N[KMGT]` with an optional trailing bare `N` (bytes), `N` decimal digits, blanks
allowed between components.  Everything else is C12's subject and yields `none` here. -/

def digitVal (c : Char) : Option Nat :=
  if '0' ≤ c ∧ c ≤ '9' then some (c.toNat - '0'.toNat) else none

/-- leading decimal digits: (value, number of digits, rest) -/
def takeNat : List Char → Nat → Nat → Nat × Nat × List Char
  | [], acc, n => (acc, n, [])
  | c :: cs, acc, n =>
    match digitVal c with
    | some d => takeNat cs (acc * 10 + d) (n + 1)
    | none => (acc, n, c :: cs)

def unitMul (c : Char) : Option Nat :=
  match c.toLower with
  | 'k' => some (2 ^ 10)
  | 'm' => some (2 ^ 20)
  | 'g' => some (2 ^ 30)
  | 't' => some (2 ^ 40)
  | _ => none

/-- `Util::parseSize` on a blank-free string of integer components; fuel = length -/
def parseComps : Nat → List Char → Nat → Option Nat
  | _, [], acc => some acc
  | 0, _, _ => none
  | fuel + 1, s, acc =>
    match takeNat s 0 0 with
    | (_, 0, _) => none
    | (v, _, []) => some (acc + v)
    | (v, _, u :: rest) =>
      match unitMul u with
      | some m => parseComps fuel rest (acc + v * m)
      | none => none

def parseThreshold (s : String) (memTotal : Nat) : Option Int :=
  let cs := s.toList
  match takeNat cs 0 0 with
  | (_, 0, _) => none
  | (v, _, []) => some ((v * 2 ^ 20 : Nat) : Int)                 -- bare number: megabytes
  | (v, _, ['%']) => if v ≤ 100 then some ((memTotal * v / 100 : Nat) : Int) else none
  | _ =>
    let t := cs.filter (fun c => !c.isWhitespace)
    (parseComps (t.length + 1) t 0).map (fun n => (n : Int))

end OomdModel.Detect

/-!
# Model of the drop-in directory watcher (C14)

Written from `src/oomd/dropin/FsDropInService.cpp` and `src/oomd/dropin/DropInServiceAdaptor.cpp`.
The model is of the code **after** the two repairs proposed in `/verif/fixes`:

* `C12-ruleset-delay.patch` (proposed by the C12 check; C14 relies on it) – `std::stoi` of `post_action_delay` /
  `prekill_hook_timeout` in `ConfigCompiler.cpp:compileRuleset` no longer lets an exception escape
  `compileDropIn` (which runs on the watcher thread, where it ends in `std::terminate`);
* `C14-invalid-rewrite.patch` – every failure path of `FsDropInService::processDropInAdd` schedules
  the removal of that file's tag, so a file rewritten with invalid content stops being active.

`Fixes` switches either defect back on (`Fixes.none` = the pinned tree), so that the counterexamples for
the unrepaired code are statements about the same definitions.

Two threads:

* the **watcher thread** (`FsDropInService::run` → `processEventLoop` → `processDropInWatcher`), one atomic
  step per inotify event, each under `event_loop_mutex_`; what `open` + read + `JsonConfigParser::parse`
  + `compileDropIn` make of the file's bytes at that moment is supplied by the environment (`Load`);
  the append to `drop_in_queue_` happens under `queue_mutex_`;
* the **main thread** (`DropInServiceAdaptor::updateDropIns`), three kinds of atomic steps in program
  order: `tick()` (re-register + load the existing files, sorted, under `event_loop_mutex_`), the swap of
  the queue under `queue_mutex_`, and the application of one item (remove, then add) to the engine.

A schedule is an arbitrary list of `Step`s: every interleaving of the two threads.  The engine is the
abstraction of `OomdModel.DropIn` (C13) that C14 needs: the list of active drop-in tags with their
content, newest first.

Not in the model (observed by `h_watcher` under ThreadSanitizer instead): data races, deadlock, which
inotify events the kernel delivers, failures of `epoll`/`inotify` system calls (`OCHECK(ret != 1)`).
-/

namespace OomdModel.Watcher

/-- which of the proposed repairs are present in the code being modelled -/
structure Fixes where
  /-- `std::stoi` failures are turned into a rejected ruleset (`ConfigCompiler.cpp:compileRuleset`,
  `fixes/C12-ruleset-delay.patch`) -/
  stoiCaught : Bool
  /-- a failed (re)load schedules the removal of the tag (`FsDropInService.cpp:processDropInAdd`) -/
  removeOnFail : Bool
deriving DecidableEq, Repr

def Fixes.all : Fixes := ⟨true, true⟩
def Fixes.none : Fixes := ⟨false, false⟩

/-- What loading a file gives at the moment a thread looks at it (`processDropInAdd`): environment. -/
inductive Load (α : Type) where
  /-- `std::ifstream` not open (file vanished, unreadable) -/
  | noFile
  /-- `JsonConfigParser::parse` threw (caught in `processDropInAdd`) or returned null -/
  | badJson
  /-- parses, but `compileRuleset` reaches `std::stoi` on a string that is not an `int` -/
  | badNumber
  /-- `compileDropIn` returned `nullopt` (unknown target / plugin, part not opened up, init failed, …) -/
  | rejected
  /-- compiled into a `DropInUnit` -/
  | unit (u : α)
deriving DecidableEq, Repr

/-- element of `drop_in_queue_`: `(tag, optional<DropInUnit>)`; `none` = remove -/
abbrev Item (α : Type) := String × Option α

/-- outcome of a step: `fatal` = an exception reached the top frame of a thread (`std::terminate`) -/
inductive Res (σ : Type) where
  | ok (s : σ)
  | fatal
deriving DecidableEq, Repr

/-- `file.empty() || file.at(0) == '.'` -/
def isDot (f : String) : Bool :=
  match f.toList with
  | [] => true
  | c :: _ => c == '.'

/-- with `C14-invalid-rewrite.patch`: `scheduleDropInRemove(file)` on a failure path -/
def failItems {α : Type} (fx : Fixes) (f : String) : List (Item α) :=
  if fx.removeOnFail then [(f, none)] else []

/-- `FsDropInService::processDropInAdd(file)`: what is appended to the queue -/
def processAdd {α : Type} (fx : Fixes) (f : String) (l : Load α) : Res (List (Item α)) :=
  if isDot f then .ok [] else
  match l with
  | .unit u => .ok [(f, some u)]
  | .badNumber => if fx.stoiCaught then .ok (failItems fx f) else .fatal
  | .noFile => .ok (failItems fx f)
  | .badJson => .ok (failItems fx f)
  | .rejected => .ok (failItems fx f)

/-- `FsDropInService::processDropInRemove(file)` -/
def processRemove {α : Type} (f : String) : List (Item α) :=
  if isDot f then [] else [(f, none)]

/-- `std::sort(de->files.begin(), de->files.end())` on the names -/
def leName {α : Type} (a b : String × Load α) : Bool := decide (a.1 ≤ b.1)

/-- (insertion sort: structurally recursive, so that closed instances evaluate in the kernel; which
algorithm `std::sort` uses is immaterial, the names of a directory are distinct) -/
def insertByName {α : Type} (p : String × Load α) : List (String × Load α) → List (String × Load α)
  | [] => [p]
  | q :: r => if leName p q then p :: q :: r else q :: insertByName p r

def sortFiles {α : Type} (files : List (String × Load α)) : List (String × Load α) :=
  files.foldr insertByName []

/-- the loop `for (const auto& config : de->files) processDropInAdd(config);` -/
def loadAll {α : Type} (fx : Fixes) : List (String × Load α) → Res (List (Item α))
  | [] => .ok []
  | p :: rest =>
    match processAdd fx p.1 p.2 with
    | .fatal => .fatal
    | .ok xs =>
      match loadAll fx rest with
      | .fatal => .fatal
      | .ok ys => .ok (xs ++ ys)

/-- `FsDropInService::prepDropInWatcher` once the directory exists: register, list, sort, load -/
def prep {α : Type} (fx : Fixes) (files : List (String × Load α)) : Res (List (Item α)) :=
  loadAll fx (sortFiles files)

/-! ## the engine, as far as C14 needs it (abstraction of `OomdModel.DropIn`) -/

/-- `Engine::removeDropInConfig(tag)` -/
def engRemove {α : Type} (t : String) (act : List (String × α)) : List (String × α) :=
  act.filter (fun p => p.1 != t)

/-- one iteration of the loop in `updateDropIns`: remove, then add to the front (LIFO) -/
def engApply {α : Type} (act : List (String × α)) (it : Item α) : List (String × α) :=
  match it.2 with
  | none => engRemove it.1 act
  | some u => (it.1, u) :: engRemove it.1 act

def applyAll {α : Type} (act : List (String × α)) (items : List (Item α)) : List (String × α) :=
  items.foldl engApply act

/-- "last writer wins": the engine after applying a whole item sequence to an engine without drop-ins -/
def lww {α : Type} (items : List (Item α)) : List (String × α) := applyAll [] items

/-! ## state and steps -/

/-- program counter of the main thread inside `updateDropIns` -/
inductive Pc where
  | top        -- between ticks / about to call `tick()`
  | ticked     -- `tick()` done, about to swap the queue
  | applying   -- iterating over the local batch
deriving DecidableEq, Repr

/-- what a thread looked at (ghost): a load of `f` with its result, or a removal event for `f` -/
inductive Obs (α : Type) where
  | add (f : String) (l : Load α)
  | rem (f : String)
deriving DecidableEq, Repr

structure St (α : Type) where
  /-- `drop_in_queue_`, oldest first (guarded by `queue_mutex_`) -/
  queue : List (Item α)
  /-- the main thread's local `drop_in_queue` that is being applied -/
  batch : List (Item α)
  /-- the engine's drop-ins, newest first (main thread only) -/
  active : List (String × α)
  /-- `drop_in_dir_deleted_` -/
  deleted : Bool
  pc : Pc
  /-- ghost: every item ever appended to the queue, in order -/
  scheduled : List (Item α)
  /-- ghost: every item applied to the engine, in order -/
  applied : List (Item α)
  /-- ghost: the batches swapped out, in order -/
  drained : List (List (Item α))
  /-- ghost: what the two threads looked at, in order -/
  observed : List (Obs α)
  /-- ghost: number of swaps so far -/
  swaps : Nat
deriving DecidableEq, Repr

inductive Step (α : Type) where
  /-- watcher: `IN_MODIFY | IN_MOVED_TO` for `f`; `l` = what the load gives now -/
  | evAdd (f : String) (l : Load α)
  /-- watcher: `IN_DELETE | IN_MOVED_FROM` for `f` -/
  | evRemove (f : String)
  /-- watcher: `IN_DELETE_SELF | IN_MOVE_SELF | IN_Q_OVERFLOW` (the directory went away, or the kernel dropped events):
  deregister, set the flag - the main loop arms a new watch and re-scans -/
  | evSelf
  /-- main thread performs its next atomic step; `dir` = what `Fs::isDir` / `Fs::readDir` see if that step
  is a `tick()` with the flag set (`none`: not a directory) -/
  | main (dir : Option (List (String × Load α)))
deriving Repr

def Step.isMain {α : Type} : Step α → Bool
  | .main _ => true
  | _ => false

def St.empty {α : Type} : St α where
  queue := []
  batch := []
  active := []
  deleted := false
  pc := .top
  scheduled := []
  applied := []
  drained := []
  observed := []
  swaps := 0

/-- `drop_in_queue_.emplace_back(..)` under `queue_mutex_` (plus the ghost) -/
def St.emit {α : Type} (s : St α) (xs : List (Item α)) : St α :=
  { s with queue := s.queue ++ xs, scheduled := s.scheduled ++ xs }

def obsOfFiles {α : Type} (files : List (String × Load α)) : List (Obs α) :=
  (sortFiles files).map (fun p => Obs.add p.1 p.2)

/-- the constructor: `prepDropInWatcher` before the watcher thread is started -/
def init {α : Type} (fx : Fixes) (dir : Option (List (String × Load α))) : Res (St α) :=
  match dir with
  | none => .ok { (St.empty : St α) with deleted := true }
  | some files =>
    match prep fx files with
    | .fatal => .fatal
    | .ok xs => .ok { ((St.empty : St α).emit xs) with observed := obsOfFiles files }

def Obs.name {α : Type} : Obs α → String
  | .add f _ => f
  | .rem f => f

/-- the items one observation puts into the queue -/
def itemsOfObs {α : Type} (fx : Fixes) : Obs α → List (Item α)
  | .add f l => match processAdd fx f l with | .ok xs => xs | .fatal => []
  | .rem f => processRemove f

/-- the last observation of name `f`, if any -/
def lastObsOf {α : Type} (f : String) (obs : List (Obs α)) : Option (Obs α) :=
  obs.reverse.find? (fun o => o.name == f)

/-- `seen_files_` membership: `processDropInAdd` inserts the name (whatever the load gives), `processDropInRemove` erases it -/
def isSeen {α : Type} (obs : List (Obs α)) (f : String) : Bool :=
  match lastObsOf f obs with
  | some (.add _ _) => !isDot f
  | _ => false

/-- what `resyncDropInDir` looks at, in order: a removal for every seen name (from `seen`) that is not in the directory, then a
load of every file present (`std::set` iteration = name order) -/
def resyncObs {α : Type} (seen : List String) (files : List (String × Load α)) : List (Obs α) :=
  (seen.filter fun f => !(files.any fun p => p.1 == f)).map Obs.rem ++ obsOfFiles files

/-- the names in `seen_files_`, as a list (order immaterial: their removals commute) -/
def seenList {α : Type} (obs : List (Obs α)) : List String :=
  ((obs.map Obs.name).eraseDups).filter (isSeen obs)

def step {α : Type} (fx : Fixes) (s : St α) : Step α → Res (St α)
  | .evAdd f l =>
    match processAdd fx f l with
    | .fatal => .fatal
    | .ok xs => .ok { (s.emit xs) with observed := s.observed ++ [Obs.add f l] }
  | .evRemove f => .ok { (s.emit (processRemove f)) with observed := s.observed ++ [Obs.rem f] }
  | .evSelf => .ok { s with deleted := true }
  | .main dir =>
    match s.pc with
    | .top =>
      -- FsDropInService::tick()
      -- (re-registration = `prepDropInWatcher` = `resyncDropInDir`: the seen names that are gone are removed, the files
      -- present are loaded in name order; when the directory does not exist everything seen is removed and the flag stays)
      if s.deleted then
        match dir with
        | none =>
          let o := resyncObs (seenList s.observed) ([] : List (String × Load α))
          .ok { (s.emit (o.flatMap (itemsOfObs fx))) with pc := .ticked, observed := s.observed ++ o }
        | some files =>
          match prep fx files with
          | .fatal => .fatal
          | .ok _ =>
            let o := resyncObs (seenList s.observed) files
            .ok { (s.emit (o.flatMap (itemsOfObs fx))) with deleted := false, pc := .ticked,
                                                            observed := s.observed ++ o }
      else .ok { s with pc := .ticked }
    | .ticked =>
      -- { lock_guard lock(queue_mutex_); drop_in_queue = std::move(drop_in_queue_); }
      .ok { s with batch := s.queue, queue := [], drained := s.drained ++ [s.queue],
                   swaps := s.swaps + 1, pc := .applying }
    | .applying =>
      match s.batch with
      | [] => .ok { s with pc := .top }
      | it :: r => .ok { s with batch := r, active := engApply s.active it, applied := s.applied ++ [it] }

def run {α : Type} (fx : Fixes) (s : St α) : List (Step α) → Res (St α)
  | [] => .ok s
  | st :: rest =>
    match step fx s st with
    | .fatal => .fatal
    | .ok s' => run fx s' rest

/-! ## specification side (no reference to the transition system) -/

/-- the newest item of each tag, walking from the newest item to the oldest -/
def firstPerTag {α : Type} : List (Item α) → List (Item α)
  | [] => []
  | it :: older => it :: (firstPerTag older).filter (fun x => x.1 != it.1)

def toActive {α : Type} (it : Item α) : Option (String × α) :=
  match it.2 with
  | none => none
  | some u => some (it.1, u)

/-- tags whose last item is a successful add, with that content, ordered by their last add (newest first) -/
def lwwSpec {α : Type} (items : List (Item α)) : List (String × α) :=
  (firstPerTag items.reverse).filterMap toActive

/-- the last item scheduled for tag `t`, if any -/
def lastFor {α : Type} (t : String) (items : List (Item α)) : Option (Option α) :=
  (items.reverse.find? (fun it => it.1 == t)).map (·.2)

def Obs.load {α : Type} : Obs α → Load α
  | .add _ l => l
  | .rem _ => .noFile

/-- the last thing either thread saw of name `f` -/
def lastObs {α : Type} (f : String) (obs : List (Obs α)) : Option (Load α) :=
  (obs.reverse.find? (fun o => o.name == f)).map Obs.load

/-- a state some schedule can reach from the constructor -/
def Reachable (fx : Fixes) (s : St α) : Prop :=
  ∃ dir steps s0, init fx dir = .ok s0 ∧ run fx s0 steps = .ok s

/-- what a load result contributes to the engine -/
def unitOf : Load α → Option α
  | .unit u => some u
  | _ => none

/-- Environment assumption (observed with real inotify, not proved): once the file system is quiet, the last
thing the service saw of every non-dot name is that name's final state (`final f`; `.noFile` when absent), and
a name it never looked at is not a valid file at the end. -/
def Faithful (final : String → Load α) (obs : List (Obs α)) : Prop :=
  ∀ f, isDot f = false →
    lastObs f obs = some (final f) ∨ (lastObs f obs = none ∧ ∀ u, final f ≠ .unit u)

/-! ## inotify queue overflow (`IN_Q_OVERFLOW`) and the re-scan that answers it (`resyncDropInDir`)

When more events arrive than the inotify queue holds, the kernel drops events: the observations of the service then no
longer end with the final state of every name, i.e. `Faithful` fails.  The repaired service keeps `seen_files_` - the names
whose last processing was a load - and on `IN_Q_OVERFLOW` removes the seen names that are gone and loads everything present. -/

/-! ## executable helpers for the driver -/

/-- project the engine's drop-ins to what one base ruleset shows: `targets u` lists the base ruleset of
each ruleset of the unit in file order; `addDropInRuleset` puts each in front, so file order is reversed -/
def perBase {α : Type} (targets : α → List Nat) (b : Nat) (act : List (String × α)) : List (α × Nat) :=
  act.flatMap fun p =>
    ((((targets p.2).zipIdx).filter (fun q => q.1 == b)).map (fun q => (p.2, q.2))).reverse

end OomdModel.Watcher

import OomdModel.Engine
import OomdModel.Path

/-!
# Model of a ruleset with a ruleset-level `cgroup` setting (src/oomd/engine/Ruleset.cpp)

`Ruleset::runOnce` (the per-cgroup loop: `resolveWildcard`, `Fs::DirFd::open`, xattr filter,
`registerRunnableRulesetForCgroupPath`, `runnable_rulesets_[path]->runOnceImpl`, the discard loop),
`Ruleset::prerun`, `DetectorGroup`'s copy constructor.  The per-cgroup instance is an ordinary
`Ruleset` run through `runOnceImpl`, i.e. `OomdModel.Engine.rsRun` on the instance's own `RsState`.

What the environment supplies on a tick: the list of paths `resolveWildcard()` returns, **in the
order it returns them** (glob(3) with GLOB_NOSORT: directory order; with GLOB_BRACE the same path can
occur more than once), each with "open(2) succeeds" and the result of the xattr test; the script of
every plugin of every instance; the clock.

Object identity of an instance (its plugin objects hold the detector windows) is modelled by a
generation number taken from a counter when the instance is created (`nextGen`).

The model is of the code **with** the three repairs proposed in /verif/fixes:
  * C11-erase-in-loop      (`eraseSafe`):   the discard loop uses the iterator returned by `erase`;
                                            without it, discarding any instance is undefined behaviour (`ub`);
  * C11-prerun-instances   (`prerunInsts`): `Ruleset::prerun` also preruns the per-cgroup instances;
                                            without it they are prerun only when created;
  * C11-duplicate-match    (`skipVisited`): a path that glob yields twice is evaluated once; without it
                                            the instance runs once per occurrence.
`Fixes` selects the behaviour; the unrepaired code is `Fixes.none`.  (`invOnResume` is the C05 repair
already in /repo.)
-/

namespace OomdModel.RsCgroup
open OomdModel.Engine

abbrev Path := String

/-- result of `Fs::hasxattrAt(fd, xattr_filter_)` -/
inductive XRes
  | yes | no | err
deriving DecidableEq, Repr

/-- one element of `cgroup_->resolveWildcard()` as the loop of `runOnce` sees it -/
structure MatchIn where
  path : Path
  openable : Bool := true
  xattr : XRes := .no
deriving DecidableEq, Repr

structure Cfg where
  rs : RsCfg
  /-- `!xattr_filter_.empty()` -/
  filter : Bool
  /-- the `cgroup` argument a plugin's configuration names itself, by plugin id -/
  own : Nat → Option Path

/-- a per-cgroup `Ruleset` object held in `runnable_rulesets_` -/
structure Inst where
  gen : Nat
  st : RsState
deriving DecidableEq, Repr

structure Fixes where
  invOnResume : Bool := true
  eraseSafe : Bool := true
  prerunInsts : Bool := true
  skipVisited : Bool := true
deriving DecidableEq, Repr

def Fixes.none : Fixes :=
  { invOnResume := true, eraseSafe := false, prerunInsts := false, skipVisited := false }

inductive CEv
  /-- prerun of a plugin of the template ruleset (`Engine::prerun` → `Ruleset::prerun`) -/
  | tpre (plugin : Nat)
  /-- `init` of a plugin object of the instance for `p` with this `cgroup` argument -/
  | init (p : Path) (gen : Nat) (plugin : Nat) (arg : Option Path)
  /-- prerun of a plugin object of the instance for `p` -/
  | pre (p : Path) (gen : Nat) (plugin : Nat)
  /-- event of the instance's `runOnceImpl`; `OomdContext::getRulesetCgroup()` and
  `ActionContext::target_cgroup` are `p` -/
  | run (p : Path) (gen : Nat) (e : Ev)
deriving DecidableEq, Repr

def dets (cfg : Cfg) : List Nat := cfg.rs.groups.flatMap (·.dets)

/-- all plugins in `Ruleset::prerun` order -/
def plugins (cfg : Cfg) : List Nat := dets cfg ++ cfg.rs.actions

/-- `runnable_rulesets_.find(path)` -/
def find (p : Path) : List (Path × Inst) → Option Inst
  | [] => none
  | (q, j) :: rest => if q = p then some j else find p rest

/-- `runnable_rulesets_[path] = inst` -/
def upsert (p : Path) (i : Inst) : List (Path × Inst) → List (Path × Inst)
  | [] => [(p, i)]
  | (q, j) :: rest => if q = p then (p, i) :: rest else (q, j) :: upsert p i rest

/-- `Ruleset::prerun` on an instance -/
def instPreruns (cfg : Cfg) (p : Path) (g : Nat) : List CEv := (plugins cfg).map (CEv.pre p g)

/-- the instance's path written as a pattern that names exactly that path (repair path-is-not-a-pattern) -/
def literalPattern (p : Path) : Path := String.ofList (OomdModel.Path.globEscape p.toList)

/-- the `cgroup` argument of an action copy: `args.try_emplace("cgroup", <the cgroup's path, glob-escaped>)` -/
def actionArg (cfg : Cfg) (p : Path) (a : Nat) : Path :=
  match cfg.own a with
  | some c => c
  | none => literalPattern p

/-- `registerRunnableRulesetForCgroupPath`: detector groups copied with the template's arguments,
actions re-created with `cgroup` defaulting to the instance's path, then `ruleset->prerun(context)` -/
def createEvs (cfg : Cfg) (p : Path) (g : Nat) : List CEv :=
  (dets cfg).map (fun d => CEv.init p g d (cfg.own d)) ++
  cfg.rs.actions.map (fun a => CEv.init p g a (some (actionArg cfg p a))) ++
  instPreruns cfg p g

/-- the tests between `resolveWildcard()` and the use of the instance -/
def eligible (filter : Bool) (m : MatchIn) : Bool :=
  m.openable && (!filter || decide (m.xattr = .yes))

structure VisitOut where
  inst : Inst
  evs : List CEv
  now : Nat
  ctr : Nat
  created : Bool

/-- what happens for one eligible path given the instance found for it (if any), the instance's
script and the shared counters (clock, uuid counter, generation counter) at that moment -/
def instVisit (F : Fixes) (cfg : Cfg) (p : Path) (oi : Option Inst) (sc : Script) (now ctr g : Nat) : VisitOut :=
  let i0 : Inst := match oi with
    | some i => i
    | none => { gen := g, st := {} }
  let cev : List CEv := match oi with
    | some _ => []
    | none => createEvs cfg p g
  let r := rsRun F.invOnResume cfg.rs sc i0.st now ctr
  { inst := { gen := i0.gen, st := r.1 }
    evs := cev ++ r.2.1.map (CEv.run p i0.gen)
    now := r.2.2.1
    ctr := r.2.2.2
    created := oi.isNone }

/-- state of the per-cgroup loop of `Ruleset::runOnce` -/
structure Loop where
  insts : List (Path × Inst)
  visited : List Path
  now : Nat
  ctr : Nat
  nextGen : Nat

/-- one iteration of `for (const auto& cgroup : cgroup_.value()->resolveWildcard())` -/
def visit (F : Fixes) (cfg : Cfg) (sc : Path → Script) (L : Loop) (m : MatchIn) : Loop × List CEv :=
  if eligible cfg.filter m = false then (L, [])
  else if (F.skipVisited && L.visited.contains m.path) = true then (L, [])
  else
    let o := instVisit F cfg m.path (find m.path L.insts) (sc m.path) L.now L.ctr L.nextGen
    ({ insts := upsert m.path o.inst L.insts
       visited := m.path :: L.visited
       now := o.now
       ctr := o.ctr
       nextGen := if o.created then L.nextGen + 1 else L.nextGen }, o.evs)

def loop (F : Fixes) (cfg : Cfg) (sc : Path → Script) : List MatchIn → Loop → Loop × List CEv
  | [], L => (L, [])
  | m :: ms, L =>
    let r := visit F cfg sc L m
    let r2 := loop F cfg sc ms r.1
    (r2.1, r.2 ++ r2.2)

structure CgWorld where
  insts : List (Path × Inst) := []
  now : Nat
  ctr : Nat := 0
  nextGen : Nat := 0

/-- `Ruleset::prerun` of the template (called from `Engine::prerun`) -/
def prerunPhase (F : Fixes) (cfg : Cfg) (insts : List (Path × Inst)) : List CEv :=
  (plugins cfg).map CEv.tpre ++
  (if F.prerunInsts then insts.flatMap (fun pi => instPreruns cfg pi.1 pi.2.gen) else [])

structure RunOut where
  w : CgWorld
  evs : List CEv
  /-- the discard loop erased an element and then incremented the invalidated iterator -/
  ub : Bool

/-- `Ruleset::runOnce` for a ruleset with a cgroup setting -/
def runPhase (F : Fixes) (cfg : Cfg) (w : CgWorld) (ms : List MatchIn) (sc : Path → Script) : RunOut :=
  let r := loop F cfg sc ms { insts := w.insts, visited := [], now := w.now, ctr := w.ctr, nextGen := w.nextGen }
  let L := r.1
  { w := { insts := L.insts.filter (fun pi => L.visited.contains pi.1), now := L.now, ctr := L.ctr, nextGen := L.nextGen }
    evs := r.2
    ub := !F.eraseSafe && L.insts.any (fun pi => !L.visited.contains pi.1) }

structure CgTickIn where
  gap : Nat
  ms : List MatchIn
  sc : Path → Script

/-- one main-loop tick of an engine whose only ruleset is this one -/
def cgTick (F : Fixes) (cfg : Cfg) (w : CgWorld) (ti : CgTickIn) : RunOut :=
  let r := runPhase F cfg { w with now := w.now + ti.gap } ti.ms ti.sc
  { r with evs := prerunPhase F cfg w.insts ++ r.evs }

/-- the world after a history of ticks -/
def runTicks (F : Fixes) (cfg : Cfg) : CgWorld → List CgTickIn → CgWorld
  | w, [] => w
  | w, ti :: rest => runTicks F cfg (cgTick F cfg w ti).w rest

/-- the events of a history, tick by tick -/
def runEvs (F : Fixes) (cfg : Cfg) : CgWorld → List CgTickIn → List (List CEv)
  | _, [] => []
  | w, ti :: rest => (cgTick F cfg w ti).evs :: runEvs F cfg (cgTick F cfg w ti).w rest

/-- does some eligible element of the resolve list name `p` -/
def present (filter : Bool) (ms : List MatchIn) (p : Path) : Bool :=
  ms.any fun m => eligible filter m && decide (m.path = p)

def pathOf : CEv → Option Path
  | .tpre _ => none
  | .init p _ _ _ => some p
  | .pre p _ _ => some p
  | .run p _ _ => some p

/-- the events that concern the instance for `p` -/
def evsOf (p : Path) (evs : List CEv) : List CEv := evs.filter fun e => decide (pathOf e = some p)

/-- the prerun phase seen from one path: the instance that exists when the tick starts is prerun -/
def prePhaseOf (F : Fixes) (cfg : Cfg) (p : Path) : Option Inst → List CEv
  | some i => if F.prerunInsts then instPreruns cfg p i.gen else []
  | none => []

/-- specification of one tick seen from one path: previous instance (if any), whether the path is
present, the instance's own script and the shared counters at which it is reached -/
def instTick (F : Fixes) (cfg : Cfg) (p : Path) (oi : Option Inst) (pres : Bool) (sc : Script) (now ctr g : Nat) :
    Option Inst × List CEv :=
  let pre : List CEv := prePhaseOf F cfg p oi
  if pres then
    let o := instVisit F cfg p oi sc now ctr g
    (some o.inst, pre ++ o.evs)
  else (none, pre)

end OomdModel.RsCgroup

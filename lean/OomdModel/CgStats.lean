import OomdModel.FsRead

/-!
# Model of `CgroupContext` / `OomdContext` / `Oomd::updateContext` (C15)

* `Num α` : the arithmetic the code does in `double`, written once; instance `Rat` is what the
  theorems are about, instance `Float` is what the driver runs (compared bit for bit with the C++).
* pure formulas (`rawProtection`, `normProtection`, `ioCost`, `avgStep`, ...) from `CgroupContext.cpp`.
* `World` : what the operating system answers (an oracle: directory identities, file lines,
  directory entries, xattrs, inode numbers, /proc files).
* the lazy per-tick cache as a state machine (`memo` = the `PROXY` macro, `refresh`, `addToCache`,
  one getter per cached field) - used by `accepts`.
* `Ref` : the same statistics as plain recursive functions of the world and of the archive,
  with no cache and no state - used by `holds`.

Written from the code line by line (function names in comments).
-/

namespace OomdModel.CgStats
open OomdModel.Path (Str)
open OomdModel.FsRead

/-! ## numbers -/

class Num (α : Type) where
  ofInt : Int → α
  /-- `uint64_t → double` -/
  ofNat : Nat → α
  add : α → α → α
  sub : α → α → α
  mul : α → α → α
  div : α → α → α
  lt : α → α → Bool
  /-- `double → int64_t` conversion (toward zero); only meaningful in range -/
  trunc : α → Int

instance : Num Rat where
  ofInt i := (i : Rat)
  ofNat n := (n : Rat)
  add := (· + ·)
  sub := (· - ·)
  mul := (· * ·)
  div := (· / ·)
  lt a b := decide (a < b)
  trunc q := if 0 ≤ q then q.floor else -((-q).floor)

instance : Num Float where
  ofInt := Float.ofInt
  ofNat := Float.ofNat
  add := (· + ·)
  sub := (· - ·)
  mul := (· * ·)
  div := (· / ·)
  lt a b := a < b
  trunc x := x.toInt64.toInt

namespace Num
variable {α : Type} [Num α]
def zero : α := ofInt 0
def one : α := ofInt 1
/-- `std::min(a, b)` : `(b < a) ? b : a` -/
def nmin (a b : α) : α := if lt b a then b else a
/-- `std::max(a, b)` : `(a < b) ? b : a` -/
def nmax (a b : α) : α := if lt a b then b else a
end Num
open Num

/-! ## formulas of `CgroupContext.cpp` -/

section Formulas
variable {α : Type} [Num α]

/-- `rawProtection`: `min(current, max(memory.min, memory.low))` -/
def rawProtection (cur mn lo : Int) : Int := min cur (max mn lo)

/-- `normalizedProtection`: `raw * std::min(1.0, 1.0 * parent / sum)` returned as `int64_t` -/
def normProtection (raw parent sum : Int) : Int :=
  if sum = 0 then 0
  else trunc (mul (ofInt raw : α) (nmin (one : α) (div (mul one (ofInt parent)) (ofInt sum))))

structure Coeffs (α : Type) where
  readIops : α
  readBw : α
  writeIops : α
  writeBw : α
  trimIops : α
  trimBw : α

/-- the six-term dot product of `getIoCostCumulative`, in the code's order of evaluation -/
def devCost (c : Coeffs α) (d : DevStat) : α :=
  add (add (add (add (add
    (mul (ofInt d.rios) c.readIops) (mul (ofInt d.rbytes) c.readBw))
    (mul (ofInt d.wios) c.writeIops)) (mul (ofInt d.wbytes) c.writeBw))
    (mul (ofInt d.dios) c.trimIops)) (mul (ofInt d.dbytes) c.trimBw)

structure Params (α : Type) where
  /-- `io_devs`: device id (`major:minor`) and whether it is an HDD -/
  devs : List (Str × Bool)
  hdd : Coeffs α
  ssd : Coeffs α
  /-- `average_size_decay` -/
  decay : α
  /-- `interval_` in seconds and `exp(-interval/60)`, `exp(-interval/300)` -/
  interval : Int
  factor60 : α
  factor300 : α

def devLookup (devs : List (Str × Bool)) (id : Str) : Option Bool :=
  match devs with
  | [] => none
  | (k, v) :: rest => if k = id then some v else devLookup rest id

/-- one iteration of the loop of `getIoCostCumulative`: only configured devices contribute -/
def ioStep (cfg : Params α) (cost : α) (d : DevStat) : α :=
  match devLookup cfg.devs d.devId with
  | none => cost
  | some hdd => add cost (devCost (if hdd then cfg.hdd else cfg.ssd) d)

/-- `getIoCostCumulative` -/
def ioCost (cfg : Params α) (stats : List DevStat) : α := stats.foldl (ioStep cfg) (zero : α)

/-- `getAverageUsage`: `prev * ((decay - 1) / decay) + cur / decay` returned as `int64_t` -/
def avgStep (decay : α) (prev cur : Int) : Int :=
  trunc (add (mul (ofInt prev) (div (sub decay one) decay)) (div (ofInt cur) decay))

/-- swap utilisation of one level: `double(usage) / double(max)` -/
def localUtil (usage mx : Int) : α := div (ofInt usage) (ofInt mx)

/-- one step of the swap-out moving average of `Oomd::updateContext` -/
def ewmaStep (factor prev x : α) : α := add x (mul factor (sub prev x))

/-- `getIoCostRate`: 0 without an archived value -/
def ioRateOf (c : α) (a : Option α) : α :=
  match a with
  | none => zero
  | some x => sub c x

end Formulas

/-- `getPgScanCumulative`: a `memory.stat` without `pgscan` makes the statistic unavailable (fix 8db4465) -/
def pgscanOf (m : List (Str × Int)) : Res Int :=
  match kvLookup m (s "pgscan") with
  | some x => .ok x
  | none => .unavailable

/-- `anon_usage` & co: a missing key is an error -/
def statOf (m : List (Str × Int)) (key : String) : Res Int :=
  match kvLookup m (s key) with
  | some x => .ok x
  | none => .unavailable

/-- `getPgScanRate`: absent without an archived value -/
def pgRateOf (c : Int) (a : Option Int) : Res Int :=
  match a with
  | none => .unavailable
  | some x => .ok (c - x)

/-! ## cached fields and values -/

inductive Field where
  | children | memPressure | memPressureSome | ioPressure | ioPressureSome | memoryStat | ioStat | id
  | currentUsage | swapUsage | swapMax | memoryLow | memoryMin | memoryHigh | memoryHighTmp | memoryMax
  | nrDying | isPopulated | killPreference | oomGroup
  | effSwapMax | effSwapFree | effSwapUtil | memoryProtection | ioCostCum | pgScanCum
  | averageUsage | ioCostRate | pgScanRate
deriving DecidableEq, Repr

/-- 0 for fields read from the operating system, then by depth in the call graph of the getters -/
def Field.rank : Field → Nat
  | .effSwapMax | .effSwapFree | .effSwapUtil | .memoryProtection | .ioCostCum | .pgScanCum
  | .averageUsage => 1
  | .ioCostRate | .pgScanRate => 2
  | _ => 0

inductive Val (α : Type) where
  | int (i : Int)
  | num (x : α)
  | bool (b : Bool)
  | strs (l : List Str)
  | psi (p : Pressure)
  | kv (m : List (Str × Int))
  | io (l : List DevStat)

namespace Val
variable {α : Type}
def int? : Val α → Res Int | .int i => .ok i | _ => .unavailable
def num? : Val α → Res α | .num x => .ok x | _ => .unavailable
def strs? : Val α → Res (List Str) | .strs l => .ok l | _ => .unavailable
def kv? : Val α → Res (List (Str × Int)) | .kv m => .ok m | _ => .unavailable
def io? : Val α → Res (List DevStat) | .io l => .ok l | _ => .unavailable
end Val

/-! ## the operating system as an oracle -/

/-- cgroup path relative to the cgroup2 root, leaf first (`[]` is the root; the parent is the tail) -/
abbrev RPath := List Str

structure World where
  /-- `DirFd::open(absolutePath)` / existence for `glob`: identity of the directory now at this path -/
  openDir : RPath → Option Nat
  /-- `openat(held dir, name, O_DIRECTORY)` -/
  openChild : Nat → Str → Option Nat
  /-- `readFileByLine(openat(held dir, name))` -/
  file : Nat → Str → Option (List Str)
  /-- `readdir` on the held directory -/
  entries : Nat → List (Str × EntKind)
  /-- does `readdir` fill in `d_type` -/
  dtype : Bool
  /-- `fgetxattr(held dir, name) != ENODATA` -/
  xattr : Nat → Str → Bool
  /-- `fstat(held dir).st_ino` -/
  inode : Nat → Nat
  /-- /proc files by name below /proc -/
  proc : Str → Option (List Str)

def fMemCurrent := s "memory.current"
def fMemLow := s "memory.low"
def fMemMin := s "memory.min"
def fMemHigh := s "memory.high"
def fMemHighTmp := s "memory.high.tmp"
def fMemMax := s "memory.max"
def fMemStat := s "memory.stat"
def fMemPressure := s "memory.pressure"
def fIoPressure := s "io.pressure"
def fIoStat := s "io.stat"
def fSwapCurrent := s "memory.swap.current"
def fSwapMax := s "memory.swap.max"
def fEvents := s "cgroup.events"
def fCgStat := s "cgroup.stat"
def fOomGroup := s "memory.oom.group"
def fControllers := s "cgroup.controllers"
def xSysPrefer := s "trusted.oomd_prefer"
def xUserPrefer := s "user.oomd_prefer"
def xSysAvoid := s "trusted.oomd_avoid"
def xUserAvoid := s "user.oomd_avoid"

section Prim
variable {α : Type}

def fileRes {β} (w : World) (inc : Nat) (name : Str) (reader : List Str → Res β) : Res β :=
  match w.file inc name with
  | none => .unavailable
  | some ls => reader ls

def procRes {β} (w : World) (name : String) (reader : List Str → Res β) : Res β :=
  match w.proc (s name) with
  | none => .unavailable
  | some ls => reader ls

/-- `Fs::readRootMempressure`: /proc/pressure/memory, else /proc/mempressure -/
def rootMemPressure (w : World) (full : Bool) : Res Pressure :=
  match w.proc (s "pressure/memory") with
  | some ls => readPressure ls full
  | none => procRes w "mempressure" (readPressure · full)

/-- what a not yet cached field of a context reads from the operating system (the `expr` of the
`PROXY` lines that call `Fs::` directly, and `getMemPressure` / `getIoPressure` / `getMemcurrent`,
which switch to /proc for the root cgroup) -/
def readPrim (w : World) (isRoot : Bool) (inc : Nat) : Field → Res (Val α)
  | .children => .ok (.strs (readDirDirs (w.entries inc) w.dtype))
  | .memPressure =>
    (if isRoot then rootMemPressure w true else fileRes w inc fMemPressure (readPressure · true)).map .psi
  | .memPressureSome =>
    (if isRoot then rootMemPressure w false else fileRes w inc fMemPressure (readPressure · false)).map .psi
  | .ioPressure =>
    (if isRoot then procRes w "pressure/io" (readPressure · true)
     else fileRes w inc fIoPressure (readPressure · true)).map .psi
  | .ioPressureSome =>
    (if isRoot then procRes w "pressure/io" (readPressure · false)
     else fileRes w inc fIoPressure (readPressure · false)).map .psi
  | .memoryStat => fileRes w inc fMemStat (fun ls => .ok (.kv (readKVMap ls)))
  | .ioStat => (fileRes w inc fIoStat readIoStat).map .io
  | .id => .ok (.int (w.inode inc))
  | .currentUsage =>
    (if isRoot then procRes w "meminfo" readRootMemcurrent
     else fileRes w inc fMemCurrent readFirstLineInt).map .int
  | .swapUsage => (fileRes w inc fSwapCurrent readFirstLineInt).map .int
  | .swapMax => (fileRes w inc fSwapMax readMinMaxLowHigh).map .int
  | .memoryLow => (fileRes w inc fMemLow readMinMaxLowHigh).map .int
  | .memoryMin => (fileRes w inc fMemMin readMinMaxLowHigh).map .int
  | .memoryHigh => (fileRes w inc fMemHigh readMinMaxLowHigh).map .int
  | .memoryHighTmp => (fileRes w inc fMemHighTmp readMemhightmp).map .int
  | .memoryMax => (fileRes w inc fMemMax readMinMaxLowHigh).map .int
  | .nrDying => (fileRes w inc fCgStat readNrDying).map .int
  | .isPopulated => (fileRes w inc fEvents readIsPopulated).map .bool
  | .killPreference =>
    .ok (.int (killPreference (w.xattr inc xSysPrefer) (w.xattr inc xUserPrefer)
      (w.xattr inc xSysAvoid) (w.xattr inc xUserAvoid)))
  | .oomGroup => (fileRes w inc fOomGroup readOomGroup).map .bool
  | _ => .unavailable   -- derived fields are not read from the operating system

end Prim

/-! ## state: `OomdContext::cgroups_`, `CgroupContext::{data_, archive_, cgroup_dir_}`, `SystemContext` -/

structure Arch (α : Type) where
  avg : Option Int
  io : Option α
  pg : Option Int

def Arch.empty {α} : Arch α := { avg := none, io := none, pg := none }

structure Ctx (α : Type) where
  /-- the directory held open (`cgroup_dir_`) -/
  dir : Nat
  data : Field → Option (Val α)
  arch : Arch α

structure SysCtx (α : Type) where
  swaptotal : Nat
  swapused : Nat
  swappiness : Int
  vmstat : List (Str × Int)
  swapoutBps : α
  swapoutBps60 : α
  swapoutBps300 : α

structure OSt (α : Type) where
  ctxs : RPath → Option (Ctx α)
  /-- the keys of `cgroups_` (for `cgroups()` and `refresh()`) -/
  keys : List RPath
  sys : SysCtx α

section Machine
variable {α : Type} [Num α]

def SysCtx.init : SysCtx α :=
  { swaptotal := 0, swapused := 0, swappiness := 0, vmstat := [],
    swapoutBps := zero, swapoutBps60 := zero, swapoutBps300 := zero }

def OSt.init : OSt α := { ctxs := fun _ => none, keys := [], sys := SysCtx.init }

/-- a computation on the context cache that may fail -/
abbrev Act (α β : Type) := OSt α → Res β × OSt α

namespace Act
variable {β γ : Type}
def pure (r : Res β) : Act α β := fun st => (r, st)
def read (f : OSt α → Res β) : Act α β := fun st => (f st, st)
def bind (a : Act α β) (k : β → Act α γ) : Act α γ := fun st =>
  match a st with
  | (.ok b, st') => k b st'
  | (.unavailable, st') => (.unavailable, st')
  | (.crash c, st') => (.crash c, st')
/-- `.value_or(d)` -/
def getD (a : Act α β) (d : β) : Act α β := fun st =>
  match a st with
  | (.unavailable, st') => (.ok d, st')
  | r => r
def bindInt (a : Act α (Val α)) (k : Int → Act α γ) : Act α γ := a.bind fun v => (pure v.int?).bind k
def bindNum (a : Act α (Val α)) (k : α → Act α γ) : Act α γ := a.bind fun v => (pure v.num?).bind k
end Act

def cached (st : OSt α) (p : RPath) (f : Field) : Option (Val α) := (st.ctxs p).bind (·.data f)

/-- `data_->field = value` -/
def setField (st : OSt α) (p : RPath) (f : Field) (v : Val α) : OSt α :=
  { st with ctxs := fun q =>
      if q = p then (st.ctxs q).map fun c => { c with data := fun g => if g = f then some v else c.data g }
      else st.ctxs q }

/-- the `PROXY` macro: `if (!data_->field) proxy(expr, data_->field, err); return data_->field;` -/
def memo (p : RPath) (f : Field) (compute : Act α (Val α)) : Act α (Val α) := fun st =>
  match cached st p f with
  | some v => (.ok v, st)
  | none =>
    match compute st with
    | (.ok v, st') => (.ok v, setField st' p f v)
    | r => r

/-- `OomdContext::addToCacheAndGet(const CgroupPath&)` (`CgroupContext::make` opens the directory) -/
def addToCache (w : World) (p : RPath) : Act α Unit := fun st =>
  match st.ctxs p with
  | some _ => (.ok (), st)
  | none =>
    match w.openDir p with
    | none => (.unavailable, st)
    | some inc =>
      (.ok (), { st with
        ctxs := fun q => if q = p then some { dir := inc, data := fun _ => none, arch := Arch.empty } else st.ctxs q
        keys := p :: st.keys })

/-- a field read from the operating system through the held directory -/
def getPrim (w : World) (p : RPath) (f : Field) : Act α (Val α) :=
  memo p f (Act.read fun st =>
    match st.ctxs p with
    | none => .unavailable
    | some c => readPrim w p.isEmpty c.dir f)

def archOf (st : OSt α) (p : RPath) : Arch α :=
  match st.ctxs p with
  | none => Arch.empty
  | some c => c.arch

/-- `rawProtection(ctx)`: current_usage, memory_min, memory_low in this order -/
def getRaw (w : World) (p : RPath) : Act α (Val α) :=
  (getPrim w p .currentUsage).bindInt fun cur =>
  (getPrim w p .memoryMin).bindInt fun mn =>
  (getPrim w p .memoryLow).bindInt fun lo =>
  Act.pure (.ok (.int (rawProtection cur mn lo)))

/-- the loop `protection_sum += rawProtection(sibling_ctx).value_or(0)` over the children of the parent, each looked up by its
name (`addToCacheAndGet(parent.getChild(name))`: the cached context of that path, else the directory is opened now; a name is
not a pattern - repair a-sibling-name-is-not-a-pattern, see known_findings.txt) -/
def sumRaw (w : World) (pp : RPath) : List Str → Act α Int
  | [] => Act.pure (.ok 0)
  | nm :: rest =>
    (((addToCache w (nm :: pp)).bind fun _ =>
        (getRaw w (nm :: pp)).bindInt fun r => Act.pure (.ok r)).getD 0).bind
      fun r => (sumRaw w pp rest).bind fun sum => Act.pure (.ok (r + sum))

/-- `effective_swap_max` = `PROXY(getEffectiveSwapMax)` -/
def getEffSwapMax (w : World) : RPath → Act α (Val α)
  | [] => memo [] .effSwapMax (Act.read fun st => .ok (.int (wrap64 st.sys.swaptotal)))
  | n :: ps => memo (n :: ps) .effSwapMax (
      (addToCache w ps).bind fun _ =>
      (getEffSwapMax w ps).bindInt fun pm =>
      (getPrim w (n :: ps) .swapMax).bindInt fun sm =>
      Act.pure (.ok (.int (min pm sm))))

/-- `effective_swap_free` = `PROXY(getEffectiveSwapFree)` -/
def getEffSwapFree (w : World) : RPath → Act α (Val α)
  | [] => memo [] .effSwapFree (Act.read fun st =>
      .ok (.int (wrap64 ((st.sys.swaptotal : Int) - st.sys.swapused))))
  | n :: ps => memo (n :: ps) .effSwapFree (
      (getPrim w (n :: ps) .swapMax).bindInt fun sm =>
      (getPrim w (n :: ps) .swapUsage).bindInt fun su =>
      (addToCache w ps).bind fun _ =>
      (getEffSwapFree w ps).bindInt fun pf =>
      Act.pure (.ok (.int (min pf (sm - su)))))

/-- `effective_swap_util_pct` = `PROXY(getEffectiveSwapUtilPct)` -/
def getEffSwapUtil (w : World) : RPath → Act α (Val α)
  | [] => memo [] .effSwapUtil (Act.read fun st =>
      if st.sys.swaptotal = 0 then .ok (.num zero)
      else .ok (.num (div (ofNat st.sys.swapused) (ofNat st.sys.swaptotal))))
  | n :: ps => memo (n :: ps) .effSwapUtil (
      (getPrim w (n :: ps) .swapMax).bindInt fun sm =>
      if sm = 0 then Act.pure (.ok (.num zero)) else
      (getPrim w (n :: ps) .swapUsage).bindInt fun su =>
      (addToCache w ps).bind fun _ =>
      (getEffSwapUtil w ps).bindNum fun pu =>
      Act.pure (.ok (.num (nmax pu (localUtil su sm)))))

/-- `memory_protection` = `PROXY(getMemoryProtection)` -/
def getMemProt (w : World) : RPath → Act α (Val α)
  | [] => memo [] .memoryProtection (getPrim w [] .currentUsage)
  | [n] => memo [n] .memoryProtection (getRaw w [n])
  | n :: m :: ps => memo (n :: m :: ps) .memoryProtection (
      (addToCache w (m :: ps)).bind fun _ =>
      (getPrim w (m :: ps) .children).bind fun cv => (Act.pure cv.strs?).bind fun names =>
      (sumRaw w (m :: ps) names).bind fun sum =>
      if sum = 0 then Act.pure (.ok (.int 0)) else
      (getRaw w (n :: m :: ps)).bindInt fun raw =>
      (getMemProt w (m :: ps)).bindInt fun pp =>
      Act.pure (.ok (.int (normProtection (α := α) raw pp sum))))

variable (cfg : Params α)

/-- `io_cost_cumulative` = `PROXY(getIoCostCumulative)` -/
def getIoCostCum (w : World) (p : RPath) : Act α (Val α) :=
  memo p .ioCostCum ((getPrim w p .ioStat).bind fun v => (Act.pure v.io?).bind fun stats =>
    Act.pure (.ok (.num (ioCost cfg stats))))

/-- `pg_scan_cumulative` = `PROXY(getPgScanCumulative)` -/
def getPgScanCum (w : World) (p : RPath) : Act α (Val α) :=
  memo p .pgScanCum ((getPrim w p .memoryStat).bind fun v => (Act.pure v.kv?).bind fun m =>
    Act.pure ((pgscanOf m).map .int))

/-- `average_usage` = `PROXY(getAverageUsage)` -/
def getAverageUsage (w : World) (p : RPath) : Act α (Val α) :=
  memo p .averageUsage ((getPrim w p .currentUsage).bindInt fun cur =>
    Act.read fun st => .ok (.int (avgStep cfg.decay ((archOf st p).avg.getD 0) cur)))

/-- `io_cost_rate` = `PROXY(getIoCostRate)` -/
def getIoCostRate (w : World) (p : RPath) : Act α (Val α) :=
  memo p .ioCostRate ((getIoCostCum cfg w p).bindNum fun c =>
    Act.read fun st => .ok (.num (ioRateOf c (archOf st p).io)))

/-- `pg_scan_rate` = `PROXY(getPgScanRate)` -/
def getPgScanRate (w : World) (p : RPath) : Act α (Val α) :=
  memo p .pgScanRate ((getPgScanCum w p).bindInt fun c =>
    Act.read fun st => (pgRateOf c (archOf st p).pg).map .int)

/-- every cached accessor of `CgroupContext` -/
def getField (w : World) (p : RPath) : Field → Act α (Val α)
  | .effSwapMax => getEffSwapMax w p
  | .effSwapFree => getEffSwapFree w p
  | .effSwapUtil => getEffSwapUtil w p
  | .memoryProtection => getMemProt w p
  | .ioCostCum => getIoCostCum cfg w p
  | .pgScanCum => getPgScanCum w p
  | .averageUsage => getAverageUsage cfg w p
  | .ioCostRate => getIoCostRate cfg w p
  | .pgScanRate => getPgScanRate w p
  | f => getPrim w p f

/-- the public accessors: cached fields and the non-cached derived counters -/
inductive Acc where
  | field (f : Field)
  | anon | file | shmem
  | effUsage (scale adj : Int)
  | growth
deriving DecidableEq, Repr

def statKey (w : World) (p : RPath) (key : String) : Act α (Val α) :=
  (getPrim w p .memoryStat).bind fun v => (Act.pure v.kv?).bind fun m =>
    Act.pure ((statOf m key).map .int)

def getAcc (w : World) (p : RPath) : Acc → Act α (Val α)
  | .field f => getField cfg w p f
  | .anon => statKey w p "anon"
  | .file => statKey w p "file"
  | .shmem => statKey w p "shmem"
  | .effUsage scale adj =>
    -- `*current_usage() * memory_scale - *memory_protection() + memory_adj`
    (getPrim w p .currentUsage).bindInt fun cur =>
    (getMemProt w p).bindInt fun prot =>
    Act.pure (.ok (.int (cur * scale - prot + adj)))
  | .growth =>
    -- `memory_growth`
    (getPrim w p .currentUsage).bindInt fun cur =>
    (getAverageUsage cfg w p).bindInt fun avg =>
    if avg = 0 then Act.pure (.ok (.num zero))
    else Act.pure (.ok (.num (div (ofInt cur) (ofInt avg))))

/-- `addChildToCacheAndGet` for one name: `createChildCgroupCtx` opens the child through the held
directory first; `cgroups_.emplace` then keeps an existing entry -/
def addChildStep (w : World) (dir : Nat) (p : RPath) (acc : List Str × OSt α) (nm : Str) : List Str × OSt α :=
  match w.openChild dir nm with
  | none => acc
  | some inc =>
    match acc.2.ctxs (nm :: p) with
    | some _ => (acc.1 ++ [nm], acc.2)
    | none =>
      (acc.1 ++ [nm], { acc.2 with
        ctxs := fun q => if q = nm :: p then some { dir := inc, data := fun _ => none, arch := Arch.empty } else acc.2.ctxs q
        keys := (nm :: p) :: acc.2.keys })

/-- `OomdContext::addChildrenToCacheAndGet`: children by name through the held directory.
Returns the names that have a context afterwards. -/
def addChildren (w : World) (p : RPath) : Act α (List Str) :=
  (getPrim w p .children).bind fun cv => (Act.pure cv.strs?).bind fun names => fun st =>
    match st.ctxs p with
    | none => (.unavailable, st)
    | some c =>
      let r := names.foldl (addChildStep w c.dir p) ([], st)
      (.ok r.1, r.2)

/-- `CgroupContext::refresh` + `Fs::isCgroupValid` -/
def refreshCtx (w : World) (c : Ctx α) : Option (Ctx α) :=
  if (w.file c.dir fControllers).isSome then
    some { dir := c.dir, data := fun _ => none,
           arch := { avg := (c.data .averageUsage).bind fun v => v.int?.toOption
                     io := (c.data .ioCostCum).bind fun v => v.num?.toOption
                     pg := (c.data .pgScanCum).bind fun v => v.int?.toOption } }
  else none

/-- `OomdContext::refresh`: archive, clear, drop the contexts whose directory is gone -/
def refresh (w : World) (st : OSt α) : OSt α :=
  { st with
    ctxs := fun q => (st.ctxs q).bind (refreshCtx w)
    keys := st.keys.filter fun q => ((st.ctxs q).bind (refreshCtx w)).isSome }

/-- the `SystemContext` part of `Oomd::updateContext`: /proc/swaps, swappiness, /proc/vmstat and the
swap-out moving averages (which restart from 0 after a tick without a `pswpout` sample) -/
def nextSys (w : World) (prev : SysCtx α) : Res (SysCtx α) :=
  let swaps : Res (Nat × Nat) := match w.proc (s "swaps") with
    | none => .ok (0, 0)
    | some ls => readSwaps ls
  swaps.bind fun (tot, used) =>
  let swp : Res Int := match procRes w "sys/vm/swappiness" readSwappiness with
    | .unavailable => .ok 0
    | r => r
  swp.bind fun swappiness =>
  let base : SysCtx α := { SysCtx.init with swaptotal := tot, swapused := used, swappiness := swappiness }
  let vm : Res (Option (List (Str × Int))) := match procRes w "vmstat" readVmstat with
    | .ok m => .ok (some m)
    | .unavailable => .ok none
    | .crash c => .crash c
  vm.bind fun vmo =>
  match vmo with
  | none => .ok base
  | some m =>
    let withVm := { base with vmstat := m }
    -- fix ed41fc7: both samples must have the key, otherwise the rates stay 0
    match kvLookup m (s "pswpout"), kvLookup prev.vmstat (s "pswpout") with
    | some cur, some old =>
      let bps : α := div (mul (ofInt (cur - old)) (ofInt 4096)) (ofInt cfg.interval)
      .ok { withVm with
            swapoutBps := bps
            swapoutBps60 := ewmaStep cfg.factor60 prev.swapoutBps60 bps
            swapoutBps300 := ewmaStep cfg.factor300 prev.swapoutBps300 bps }
    | _, _ => .ok withVm

/-- `Oomd::updateContext` -/
def updateContext (w : World) (st : OSt α) : Res (OSt α) :=
  (nextSys cfg w st.sys).bind fun sys => .ok (refresh w { st with sys := sys })

end Machine

/-! ## the reference: statistics as functions of the world, the system context and the archive -/

section Ref
variable {α : Type} [Num α]

structure RefEnv (α : Type) where
  w : World
  sys : SysCtx α
  cfg : Params α
  /-- what the context at a path archived at the last refresh (`Arch.empty` for a new context) -/
  arch : RPath → Arch α

def refPrim (e : RefEnv α) (p : RPath) (f : Field) : Res (Val α) :=
  match e.w.openDir p with
  | none => .unavailable
  | some inc => readPrim e.w p.isEmpty inc f

def refInt (e : RefEnv α) (p : RPath) (f : Field) : Res Int := (refPrim e p f).bind Val.int?

/-- R(c) = min(memory.current, max(memory.min, memory.low)) -/
def refRaw (e : RefEnv α) (p : RPath) : Res Int :=
  (refInt e p .currentUsage).bind fun cur => (refInt e p .memoryMin).bind fun mn =>
  (refInt e p .memoryLow).bind fun lo => .ok (rawProtection cur mn lo)

def Res.getD' {β} (r : Res β) (d : β) : Res β :=
  match r with
  | .unavailable => .ok d
  | r => r

/-- Σ R(sibling) over the children of `pp` (unreadable ones count 0) -/
def refSumRaw (e : RefEnv α) (pp : RPath) : List Str → Res Int
  | [] => .ok 0
  | nm :: rest =>
    (Res.getD' (refRaw e (nm :: pp)) 0).bind fun r => (refSumRaw e pp rest).bind fun sum => .ok (r + sum)

def refChildren (e : RefEnv α) (p : RPath) : Res (List Str) := (refPrim e p .children).bind Val.strs?

def refOpen (e : RefEnv α) (p : RPath) : Res Unit :=
  match e.w.openDir p with | none => .unavailable | some _ => .ok ()

/-- P(root) = usage; P(top level) = R; P(c) = R(c) * min(1, P(parent) / Σ R(siblings)) -/
def refMemProt (e : RefEnv α) : RPath → Res Int
  | [] => refInt e [] .currentUsage
  | [n] => refRaw e [n]
  | n :: m :: ps =>
    (refOpen e (m :: ps)).bind fun _ =>
    (refChildren e (m :: ps)).bind fun names =>
    (refSumRaw e (m :: ps) names).bind fun sum =>
    if sum = 0 then .ok 0 else
    (refRaw e (n :: m :: ps)).bind fun raw =>
    (refMemProt e (m :: ps)).bind fun pp => .ok (normProtection (α := α) raw pp sum)

def refEffSwapMax (e : RefEnv α) : RPath → Res Int
  | [] => .ok (wrap64 e.sys.swaptotal)
  | n :: ps =>
    (refOpen e ps).bind fun _ => (refEffSwapMax e ps).bind fun pm =>
    (refInt e (n :: ps) .swapMax).bind fun sm => .ok (min pm sm)

def refEffSwapFree (e : RefEnv α) : RPath → Res Int
  | [] => .ok (wrap64 ((e.sys.swaptotal : Int) - e.sys.swapused))
  | n :: ps =>
    (refInt e (n :: ps) .swapMax).bind fun sm => (refInt e (n :: ps) .swapUsage).bind fun su =>
    (refOpen e ps).bind fun _ => (refEffSwapFree e ps).bind fun pf => .ok (min pf (sm - su))

def refEffSwapUtil (e : RefEnv α) : RPath → Res α
  | [] => if e.sys.swaptotal = 0 then .ok zero else .ok (div (ofNat e.sys.swapused) (ofNat e.sys.swaptotal))
  | n :: ps =>
    (refInt e (n :: ps) .swapMax).bind fun sm =>
    if sm = 0 then .ok zero else
    (refInt e (n :: ps) .swapUsage).bind fun su =>
    (refOpen e ps).bind fun _ => (refEffSwapUtil e ps).bind fun pu => .ok (nmax pu (localUtil su sm))

def refIoCostCum (e : RefEnv α) (p : RPath) : Res α :=
  ((refPrim e p .ioStat).bind Val.io?).bind fun stats => .ok (ioCost e.cfg stats)

def refPgScanCum (e : RefEnv α) (p : RPath) : Res Int :=
  ((refPrim e p .memoryStat).bind Val.kv?).bind pgscanOf

def refAverageUsage (e : RefEnv α) (p : RPath) : Res Int :=
  (refInt e p .currentUsage).bind fun cur => .ok (avgStep e.cfg.decay ((e.arch p).avg.getD 0) cur)

def refIoCostRate (e : RefEnv α) (p : RPath) : Res α :=
  (refIoCostCum e p).bind fun c => .ok (ioRateOf c (e.arch p).io)

def refPgScanRate (e : RefEnv α) (p : RPath) : Res Int :=
  (refPgScanCum e p).bind fun c => pgRateOf c (e.arch p).pg

def refField (e : RefEnv α) (p : RPath) : Field → Res (Val α)
  | .effSwapMax => (refEffSwapMax e p).map .int
  | .effSwapFree => (refEffSwapFree e p).map .int
  | .effSwapUtil => (refEffSwapUtil e p).map .num
  | .memoryProtection => (refMemProt e p).map .int
  | .ioCostCum => (refIoCostCum e p).map .num
  | .pgScanCum => (refPgScanCum e p).map .int
  | .averageUsage => (refAverageUsage e p).map .int
  | .ioCostRate => (refIoCostRate e p).map .num
  | .pgScanRate => (refPgScanRate e p).map .int
  | f => refPrim e p f

def refStatKey (e : RefEnv α) (p : RPath) (key : String) : Res (Val α) :=
  (((refPrim e p .memoryStat).bind Val.kv?).bind fun m => statOf m key).map .int

def refAcc (e : RefEnv α) (p : RPath) : Acc → Res (Val α)
  | .field f => refField e p f
  | .anon => refStatKey e p "anon"
  | .file => refStatKey e p "file"
  | .shmem => refStatKey e p "shmem"
  | .effUsage scale adj =>
    (refInt e p .currentUsage).bind fun cur => (refMemProt e p).bind fun prot =>
    .ok (.int (cur * scale - prot + adj))
  | .growth =>
    (refInt e p .currentUsage).bind fun cur => (refAverageUsage e p).bind fun avg =>
    if avg = 0 then .ok (.num zero) else .ok (.num (div (ofInt cur) (ofInt avg)))

end Ref

end OomdModel.CgStats

import OomdModel.Generated.Consts

/-!
# Model of the asynchronous logger — `src/oomd/Log.h`, `src/oomd/Log.cpp` (property C20)

The logger is a transition system whose steps are the **critical sections** (everything a thread does
while it holds `state_.lock`) and the individual sink writes of the flusher thread.  A schedule is any
list of steps; a step that is not enabled in a state cannot be taken.  Theorems quantify over every
schedule, so over every interleaving of producers, flusher and shutdown.

The model is of the code **after** the two fixes proposed in `/verif/fixes`:

* `C20-size-after-move.patch`  – `Log::debugLog` takes `buf.size()` before `std::move(buf)`;
* `C20-release-after-write.patch` – `Log::ioThread` keeps the batch accounted in `curSize` until it has
  been written (`batchSize = curSize` at the swap, `curSize -= batchSize` in a second critical section
  after `q->clear()`).

The unchanged code is kept as well: `Variant` switches each defect back on (`unfixed`, `fix25only`), and
`OomdProps/C20.lean` proves the counterexamples for those variants.

Source map (Log.cpp, line numbers of the unchanged file):
* `enq`      = `Log::debugLog` 127-137 (cap check, `emplace_back`, size update: one critical section)
* `swap`     = `Log::ioThread` 148-162 (wait predicate, capture flag and drop count, flip `ioTick`)
* `write1`   = one iteration of the loop 164-166 (`debug_sink << buf`)
* `report`   = 168-175 (drop report if any, flush, `q->clear()`)
* `release`  = the added critical section (`curSize -= batchSize`)
* `stop`     = `Log::~Log` 64-67
* `stmt`     = one `LogStream(log) << … ;` statement: `operator<<` (Log.h 106-130, Log.cpp 180-194) and
               `~LogStream` (Log.cpp 41-48) – touches only the thread-local flag until it calls `debugLog`
* `kmsgWrite`= `Log::kmsgLog` 98-107, the `writeFull(kmsg_fd_, …)` part (the trailing `OLOG << buf` is an
               ordinary `stmt` of the same thread)

`otherQ` is the part of the batch the `for` loop has not written yet (the loop cursor is folded into the
list; `q->clear()` at the end of the iteration makes this exact).
-/

namespace OomdModel.Log

structure Msg where
  tid : Nat
  seq : Nat
  size : Nat
deriving DecidableEq, Repr

/-- total `buf.size()` of a list of queued lines -/
def bytes (l : List Msg) : Nat := (l.map (·.size)).sum

/-- `AsyncLogState::maxSize`, regenerated from Log.h on every run -/
def maxSize : Nat := Generated.logMaxSize

/-- which code is modelled -/
structure Variant where
  /-- defect 25 present: `state_.curSize += buf.size()` is evaluated after `std::move(buf)` and adds 0 -/
  sizeAfterMove : Bool
  /-- defect 26 present: `state_.curSize = 0` in the swap critical section, before the batch is written -/
  releaseAtSwap : Bool
deriving DecidableEq, Repr

def fixed : Variant := ⟨false, false⟩
def fix25only : Variant := ⟨false, true⟩
def unfixed : Variant := ⟨true, true⟩

/-- what reaches `debug_sink` -/
inductive Out
  | line (m : Msg)
  | report (n : Nat)
deriving DecidableEq, Repr

/-- program counter of the flusher thread -/
inductive Pc
  | idle        -- at `cv.wait` (or about to take the lock)
  | writing     -- between the swap and `q->clear()`
  | releasing   -- batch written, about to subtract it from `curSize`
  | exited      -- left the `while (io_thread_running)` loop
deriving DecidableEq, Repr

/-! ## LogStream: one statement `LogStream(log) << a << b << … ;` -/

inductive Tok
  | text (n : Nat)     -- any ordinary value; `n` = bytes it formats to
  | disable            -- `LogStream::Control::DISABLE`
  | enable             -- `LogStream::Control::ENABLE`
deriving DecidableEq, Repr

/-- the LogStream object plus the calling thread's `enabled()` flag -/
structure LS where
  enabled : Bool
  skip : Bool
  stored : Nat         -- bytes in `stream_`
deriving DecidableEq, Repr

/-- `operator<<` (generic template and the `Control` specialisation) -/
def LS.tok (s : LS) : Tok → LS
  | .text n => { s with skip := false, stored := if s.enabled then s.stored + n else s.stored }
  | .disable => { s with enabled := false }
  | .enable => { s with skip := true, enabled := true }

/-- `~LogStream`: the size handed to `debugLog` (text plus `std::endl`), or nothing -/
def LS.finish (s : LS) : Option Nat :=
  if !s.enabled || s.skip then none else some (s.stored + 1)

/-- a whole statement run by a thread whose flag is `en`: new flag, and what is handed to `debugLog` -/
def runStmt (en : Bool) (toks : List Tok) : Bool × Option Nat :=
  let s := toks.foldl LS.tok ⟨en, false, 0⟩
  (s.enabled, s.finish)

/-! ## State -/

structure St where
  -- AsyncLogState (Log.h 56-77)
  curQ : List Msg          -- `queues[ioTick & 1]`: producers append here
  otherQ : List Msg        -- the other queue: unwritten rest of the batch owned by the flusher, else empty
  curSize : Nat
  numDiscarded : Nat
  running : Bool           -- `ioThreadRunning`
  -- locals of `Log::ioThread`
  pc : Pc
  lastRunning : Bool       -- `io_thread_running`
  ioDiscarded : Nat        -- `numDiscarded` captured at the swap
  batchSize : Nat          -- `batchSize` captured at the swap (fixed code only)
  -- outputs
  sink : List Out
  kmsg : List Msg
  -- `LogStream::enabled()`: thread_local, initially true; the ids of the threads whose flag is false
  disabled : List Nat
  -- ghosts
  offered : List Msg       -- every message passed to `debugLog`, in critical-section order
  accepted : List Msg      -- … those that passed the cap check
  droppedL : List Msg      -- … those that did not
  atStop : Option (List Msg)   -- `accepted` at the moment of the (first) `stop`
deriving Repr

def St.init : St where
  curQ := []
  otherQ := []
  curSize := 0
  numDiscarded := 0
  running := true
  pc := .idle
  lastRunning := true
  ioDiscarded := 0
  batchSize := 0
  sink := []
  kmsg := []
  disabled := []
  offered := []
  accepted := []
  droppedL := []
  atStop := none

def enabledOf (s : St) (t : Nat) : Bool := !s.disabled.contains t

def setFlag (d : List Nat) (t : Nat) (b : Bool) : List Nat :=
  if b then d.filter (· != t) else t :: d.filter (· != t)

/-- lines among the sink output -/
def sinkLines : List Out → List Msg
  | [] => []
  | .line m :: r => m :: sinkLines r
  | .report _ :: r => sinkLines r

/-- sum of the drop counts written to the sink -/
def reported : List Out → Nat
  | [] => 0
  | .line _ :: r => reported r
  | .report n :: r => n + reported r

/-- bytes held by the flusher and still counted against the cap (fixed code) -/
def inflight (s : St) : Nat :=
  match s.pc with
  | .writing | .releasing => s.batchSize
  | _ => 0

/-! ## Steps -/

inductive Step
  | debugLog (m : Msg)                       -- direct call (as LogTest does)
  | stmt (tid seq : Nat) (toks : List Tok)   -- a LogStream statement of thread `tid`
  | kmsgWrite (m : Msg)
  | swap
  | write1
  | report
  | release
  | stop
deriving DecidableEq, Repr

/-- `Log::debugLog` (async branch): one critical section -/
def enq (v : Variant) (s : St) (m : Msg) : St :=
  if m.size + s.curSize > maxSize then
    { s with numDiscarded := s.numDiscarded + 1,
             offered := s.offered ++ [m],
             droppedL := s.droppedL ++ [m] }
  else
    { s with curQ := s.curQ ++ [m],
             curSize := s.curSize + (if v.sizeAfterMove then 0 else m.size),
             offered := s.offered ++ [m],
             accepted := s.accepted ++ [m] }

/-- `none` = the step is not enabled in this state -/
def step (v : Variant) (s : St) : Step → Option St
  | .debugLog m => some (enq v s m)
  | .stmt tid seq toks =>
    let r := runStmt (enabledOf s tid) toks
    let s1 := { s with disabled := setFlag s.disabled tid r.1 }
    match r.2 with
    | none => some s1
    | some n => some (enq v s1 ⟨tid, seq, n⟩)
  | .kmsgWrite m => some { s with kmsg := s.kmsg ++ [m] }
  | .swap =>
    if s.pc != .idle then none
    else if s.running && s.curQ.isEmpty then none      -- `cv.wait` predicate false
    else some { s with otherQ := s.curQ,
                       curQ := s.otherQ,
                       pc := .writing,
                       lastRunning := s.running,
                       ioDiscarded := s.numDiscarded,
                       numDiscarded := 0,
                       batchSize := if v.releaseAtSwap then 0 else s.curSize,
                       curSize := if v.releaseAtSwap then 0 else s.curSize }
  | .write1 =>
    match s.pc, s.otherQ with
    | .writing, m :: rest => some { s with sink := s.sink ++ [.line m], otherQ := rest }
    | _, _ => none
  | .report =>
    if s.pc == .writing && s.otherQ.isEmpty then
      some { s with sink := if s.ioDiscarded = 0 then s.sink else s.sink ++ [.report s.ioDiscarded],
                    ioDiscarded := 0,
                    pc := if v.releaseAtSwap then (if s.lastRunning then .idle else .exited) else .releasing }
    else none
  | .release =>
    if s.pc == .releasing then
      some { s with curSize := s.curSize - s.batchSize,
                    batchSize := 0,
                    pc := if s.lastRunning then .idle else .exited }
    else none
  | .stop =>
    some { s with running := false,
                  atStop := match s.atStop with
                            | some a => some a
                            | none => some s.accepted }

/-- run a schedule; a step that is not enabled is not taken -/
def run (v : Variant) (s : St) : List Step → St
  | [] => s
  | x :: xs => run v (match step v s x with | some s' => s' | none => s) xs

/-- states the code can be in -/
inductive Reachable (v : Variant) : St → Prop
  | init : Reachable v St.init
  | step {s s' : St} (e : Step) : Reachable v s → step v s e = some s' → Reachable v s'

/-- bytes accepted and not yet written to the sink -/
def unwritten (s : St) : Nat := bytes s.otherQ + bytes s.curQ

/-! ## Thread-local view (for the silencing clauses) -/

/-- thread `u`'s flag after step `e`, computed without looking at any other thread -/
def flag1 (u : Nat) (en : Bool) : Step → Bool
  | .stmt t _ toks => if t = u then (runStmt en toks).1 else en
  | _ => en

/-- what step `e` makes thread `u` hand to `debugLog` -/
def offer1 (u : Nat) (en : Bool) : Step → List Msg
  | .debugLog m => if m.tid = u then [m] else []
  | .stmt t q toks =>
    if t = u then
      match (runStmt en toks).2 with
      | some n => [⟨t, q, n⟩]
      | none => []
    else []
  | _ => []

/-- what thread `u` hands to `debugLog`, computed from its own steps alone, starting with flag `en` -/
def threadOffers (u : Nat) : Bool → List Step → List Msg
  | _, [] => []
  | en, e :: r => offer1 u en e ++ threadOffers u (flag1 u en e) r

/-- thread `u`'s flag after its own statements alone -/
def threadFlag (u : Nat) : Bool → List Step → Bool
  | en, [] => en
  | en, e :: r => threadFlag u (flag1 u en e) r

/-- which producer thread executes a step (flusher, kmsg and `~Log` steps belong to none) -/
def owner : Step → Option Nat
  | .debugLog m => some m.tid
  | .stmt t _ _ => some t
  | _ => none

/-- steps of the flusher thread -/
def isIoStep (e : Step) : Bool :=
  match e with
  | .swap | .write1 | .report | .release => true
  | _ => false

/-- the kmsg records a schedule asks for -/
def kmsgAsked : List Step → List Msg
  | [] => []
  | .kmsgWrite m :: r => m :: kmsgAsked r
  | _ :: r => kmsgAsked r

/-! ## The model as an acceptor of an observed linearisation (trace hooks, `fixes/C20-hooks.patch`) -/

inductive Obs
  | enq (m : Msg) (acc : Bool)                    -- `debugLog` critical section: accepted or dropped
  | swap (nlines ndisc : Nat) (running : Bool)    -- swap critical section: `q->size()`, drop count, flag
  | cleared                                       -- after `q->clear()`: batch and report are in the sink
  | release
  | stop
deriving Repr

/-- write the rest of the batch and the report -/
def drainBatch (v : Variant) (s : St) : Nat → Option St
  | 0 => none
  | fuel + 1 =>
    match s.otherQ with
    | [] => step v s .report
    | _ :: _ => match step v s .write1 with
      | some s' => drainBatch v s' fuel
      | none => none

def replayObs (v : Variant) (s : St) : Obs → Option St
  | .enq m acc =>
    if acc == !(decide (m.size + s.curSize > maxSize)) then some (enq v s m) else none
  | .swap n d r =>
    if s.curQ.length == n && s.numDiscarded == d && s.running == r then step v s .swap else none
  | .cleared => drainBatch v s (s.otherQ.length + 1)
  | .release => step v s .release
  | .stop => step v s .stop

def replay (v : Variant) (s : St) : List Obs → Option St
  | [] => some s
  | o :: os => match replayObs v s o with
    | some s' => replay v s' os
    | none => none

end OomdModel.Log

import OomdModel.Generated.Consts

/-!
# Model of the stats service (`src/oomd/Stats.{h,cpp}`, `StatsClient.cpp`) — property C19

Written from the C++ line by line.  The model describes the code **with the three fixes proposed in
`/verif/fixes/C19-*.patch` applied** when the flag `fixed = true` is passed, and the code as it is at
the pinned commit when `fixed = false`:

* `C19-handler-count.patch`  – `processMsg`: the handler-count decrement (and the notification, now made
  under `thread_mutex_`) moves into a scope guard, so it happens on *every* exit path; unfixed, the early
  `return` after a failed `read` (2 s receive time-out of a stalled client) skips it;
* `C19-sun-path-length.patch` – `Stats::startSocket` / `StatsClient`: a path that does not fit
  `sockaddr_un::sun_path` (with its NUL) is refused before the `strcpy`; unfixed, `strcpy` writes past it;
* `C19-sigpipe.patch` – the reply is written with `send(MSG_NOSIGNAL)`; unfixed, a client that has
  already gone away makes `write(2)` raise `SIGPIPE`, whose default action kills the daemon.

Parts: (a) counter map with `increment / set / reset / getAll`; (a') the same calls cut into the
micro-steps the C++ performs between `lock` and `unlock` of `stats_mutex_`, run by several threads under
an arbitrary schedule; (b) `processMsg` as a function of what the connection delivers; (c) handler
book-keeping (`thread_count_`) of `runSocket` / `processMsg` and the destructor's wait; (d) the copy of
the socket path into `sun_path`.

Keys are any type with decidable equality (`String` in the driver, `Nat` in examples).  Counter values
are `Int`: the C++ `int` wraps (formally: is undefined) beyond 2^31 – not modelled, see ASSUMPTIONS of
the check.  Core Lean only.
-/

namespace OomdModel.StatsSvc

open OomdModel

/-! ## (a) The counter map  (`stats_`, `Stats.cpp:225-248`) -/

section Counters
variable {κ : Type} [DecidableEq κ]

/-- `std::unordered_map<std::string,int>`; iteration order is not observable in this model: every
    statement about a map is made through `get` (or `keys` as a set). -/
abbrev CMap (κ : Type) := List (κ × Int)

def get : CMap κ → κ → Option Int
  | [], _ => none
  | (k', v) :: m, k => if k' = k then some v else get m k

/-- `stats_[k] = v` : overwrite the existing entry or insert a new one -/
def put : CMap κ → κ → Int → CMap κ
  | [], k, v => [(k, v)]
  | (k', v') :: m, k, v => if k' = k then (k', v) :: m else (k', v') :: put m k v

def keys (m : CMap κ) : List κ := m.map (·.1)

/-- `Stats::increment`: `stats_[key] = stats_[key] + val;` – `operator[]` default-inserts 0. -/
def increment (m : CMap κ) (k : κ) (v : Int) : CMap κ := put m k ((get m k).getD 0 + v)

/-- `Stats::set`: `stats_[key] = val;` -/
def set (m : CMap κ) (k : κ) (v : Int) : CMap κ := put m k v

/-- `Stats::reset`: `for (pair : stats_) stats_[pair.first] = 0;` – keys stay. -/
def reset (m : CMap κ) : CMap κ := m.map (fun p => (p.1, 0))

/-- `Stats::getAll`: a copy of the map. -/
def getAll (m : CMap κ) : CMap κ := m

/-- the four API calls (`Oomd::incrementStat/setStat/resetStats/getStats` forward to these) -/
inductive Op (κ : Type) where
  | inc (k : κ) (v : Int)
  | set (k : κ) (v : Int)
  | reset
  | getAll
deriving Repr, DecidableEq

inductive Ret (κ : Type) where
  | rc (n : Nat)              -- `return 0;`
  | snap (m : CMap κ)         -- the copy returned by getAll
deriving Repr, DecidableEq

/-- one API call as ONE atomic step of the sequential specification -/
def step (m : CMap κ) : Op κ → CMap κ × Ret κ
  | .inc k v => (increment m k v, .rc 0)
  | .set k v => (set m k v, .rc 0)
  | .reset => (reset m, .rc 0)
  | .getAll => (m, .snap (getAll m))

def run (m : CMap κ) (ops : List (Op κ)) : CMap κ := ops.foldl (fun m o => (step m o).1) m

/-- results of a sequential run, in order -/
def runRets : CMap κ → List (Op κ) → List (Ret κ)
  | _, [] => []
  | m, o :: os => (step m o).2 :: runRets (step m o).1 os

def applyIncs (m : CMap κ) (incs : List (κ × Int)) : CMap κ :=
  incs.foldl (fun m p => increment m p.1 p.2) m

/-- sum of the increments addressed to key `k` -/
def sumFor (k : κ) : List (κ × Int) → Int
  | [] => 0
  | (k', v) :: r => (if k' = k then v else 0) + sumFor k r

/-! ## (a') The same calls as the C++ executes them: micro-steps between lock and unlock -/

/-- what a method body does to `stats_` and to its own temporaries, one memory access at a time -/
inductive Micro (κ : Type) where
  | load (k : κ)               -- right-hand side `stats_[key]` (default-inserts 0), value kept in a temporary
  | store (k : κ) (v : Int)    -- `stats_[key] = tmp + val`
  | put (k : κ) (v : Int)      -- `stats_[key] = val`
  | zeroAll                    -- the loop of `reset` (runs entirely under the lock; one step here)
  | copy                       -- `return stats_;` (copy construction under the lock)
deriving Repr, DecidableEq

structure Local (κ : Type) where
  reg : Int := 0
  snap : CMap κ := []
deriving Repr, DecidableEq

def micro (m : CMap κ) (l : Local κ) : Micro κ → CMap κ × Local κ
  | .load k => (put m k ((get m k).getD 0), { l with reg := (get m k).getD 0 })
  | .store k v => (put m k (l.reg + v), l)
  | .put k v => (put m k v, l)
  | .zeroAll => (reset m, l)
  | .copy => (m, { l with snap := m })

def body : Op κ → List (Micro κ)
  | .inc k v => [.load k, .store k v]
  | .set k v => [.put k v]
  | .reset => [.zeroAll]
  | .getAll => [.copy]

def retOf : Op κ → Local κ → Ret κ
  | .getAll, l => .snap l.snap
  | _, _ => .rc 0

def runMicros (m : CMap κ) (l : Local κ) : List (Micro κ) → CMap κ × Local κ
  | [] => (m, l)
  | μ :: μs => runMicros (micro m l μ).1 (micro m l μ).2 μs

/-- a thread executing a list of API calls -/
structure Thr (κ : Type) where
  todo : List (Op κ)
  cur : Option (Op κ × List (Micro κ)) := none   -- call in progress and its remaining micro-steps
  loc : Local κ := {}
  rets : List (Ret κ) := []

structure Sys (κ : Type) where
  shared : CMap κ
  owner : Option Nat := none                      -- holder of `stats_mutex_`
  thr : Nat → Thr κ
  order : List (Nat × Op κ) := []                 -- ghost: calls in the order their lock was acquired

def upd (f : Nat → Thr κ) (t : Nat) (x : Thr κ) : Nat → Thr κ := fun u => if u = t then x else f u

/-- thread `t` is scheduled for one step.  `locked = true` is the code as written
    (`std::lock_guard<std::mutex> lock(stats_mutex_)` first thing in every method);
    `locked = false` is the same code with the lock removed (used for the counterexample only). -/
def stepT (locked : Bool) (s : Sys κ) (t : Nat) : Sys κ :=
  let th := s.thr t
  match th.cur with
  | none =>
    match th.todo with
    | [] => s
    | op :: rest =>
      if locked && s.owner.isSome then s                         -- blocked in lock()
      else { s with owner := some t,
                    thr := upd s.thr t { th with todo := rest, cur := some (op, body op), loc := {} },
                    order := s.order ++ [(t, op)] }
  | some (op, []) =>                                             -- unlock, return
    { s with owner := none,
             thr := upd s.thr t { th with cur := none, rets := th.rets ++ [retOf op th.loc] } }
  | some (op, μ :: μs) =>
    { s with shared := (micro s.shared th.loc μ).1,
             thr := upd s.thr t { th with cur := some (op, μs), loc := (micro s.shared th.loc μ).2 } }

def runSched (locked : Bool) (s : Sys κ) (sch : List Nat) : Sys κ := sch.foldl (stepT locked) s

def initSys (m0 : CMap κ) (progs : Nat → List (Op κ)) : Sys κ :=
  { shared := m0, thr := fun t => { todo := progs t } }

/-- results thread `t` gets when the calls of `order` run one after the other from `m` -/
def seqRets (t : Nat) : CMap κ → List (Nat × Op κ) → List (Ret κ)
  | _, [] => []
  | m, (u, o) :: r => if u = t then (step m o).2 :: seqRets t (step m o).1 r else seqRets t (step m o).1 r

end Counters

/-! ## (b) `Stats::processMsg` (`Stats.cpp:162-223`) -/

def window : Nat := Generated.statsReadWindow          -- `num_read < 32`
def ioTimeoutSec : Nat := Generated.statsIoTimeoutSec  -- SO_RCVTIMEO / SO_SNDTIMEO
def shutdownWaitSec : Nat := Generated.statsShutdownWaitSec

/-- What a connection delivers to the server's one-byte `read`s: some bytes, and then either end of
    file (peer closed or half-closed) or nothing within the 2 s receive time-out (`res < 0`). -/
structure Conn where
  bytes : List Nat
  stalls : Bool
deriving Repr, DecidableEq

def isTerm (b : Nat) : Bool := b == 10 || b == 0       -- '\n' or '\0'

inductive Scan where
  | mode (m : Nat)        -- loop left normally with this mode byte
  | readError             -- `return` from inside the loop
deriving Repr, DecidableEq

/-- the `for (; num_read < 32; num_read++)` loop; `fuel = 32 - num_read`, `first ↔ num_read == 0` -/
def scanL (stalls : Bool) : Nat → List Nat → Bool → Nat → Scan
  | 0, _, _, mode => .mode mode
  | _ + 1, [], _, mode => if stalls then .readError else .mode mode
  | f + 1, b :: bs, first, mode =>
    if isTerm b then .mode mode else scanL stalls f bs false (if first then b else mode)

/-- `char mode = 'a';` then the loop -/
def scan (c : Conn) : Scan := scanL c.stalls window c.bytes true 97

/-- number of `read` calls the loop makes -/
def readsL (stalls : Bool) : Nat → List Nat → Nat
  | 0, _ => 0
  | _ + 1, [] => 1
  | f + 1, b :: bs => if isTerm b then 1 else 1 + readsL stalls f bs

inductive ReplyKind where
  | all | resetAck | noop | err1
deriving Repr, DecidableEq

/-- `switch (mode)` -/
def kindOf (mode : Nat) : ReplyKind :=
  if mode = 103 then .all            -- 'g'
  else if mode = 114 then .resetAck  -- 'r'
  else if mode = 48 then .noop       -- '0'
  else .err1

section Handler
variable {κ : Type} [DecidableEq κ]

/-- externally visible / book-keeping events of one handler thread -/
inductive Ev (κ : Type) where
  | reply (error : Nat) (body : CMap κ)     -- one JSON object `{"error":e,"body":{...}}` written to the socket
  | decr                                    -- `thread_count_--` + notify
  | close                                   -- `::close(sockfd)` (scope guard)
deriving Repr, DecidableEq

/-- the scope guards that run when `processMsg` is left; `replied` = the normal path was taken -/
def exitEvents (fixed : Bool) (replied : Bool) : List (Ev κ) :=
  if fixed then [.close, .decr]                 -- close guard, then the decrement guard (declared first, runs last)
  else if replied then [.decr, .close]          -- decrement at the end of the body, then the close guard
  else [.close]                                 -- early `return`: only the close guard

/-- `processMsg` on connection `c` with counter map `m`: new counter map and the events, in order -/
def handler (fixed : Bool) (c : Conn) (m : CMap κ) : CMap κ × List (Ev κ) :=
  match scan c with
  | .readError => (m, exitEvents fixed false)
  | .mode md =>
    match kindOf md with
    | .all => (m, .reply 0 (getAll m) :: exitEvents fixed true)
    | .resetAck => (reset m, .reply 0 [] :: exitEvents fixed true)
    | .noop => (m, .reply 0 [] :: exitEvents fixed true)
    | .err1 => (m, .reply 1 [] :: exitEvents fixed true)

def isReply : Ev κ → Bool
  | .reply _ _ => true
  | _ => false

def isDecr : Ev κ → Bool
  | .decr => true
  | _ => false

def isClose : Ev κ → Bool
  | .close => true
  | _ => false

/-! ### closed form of the protocol, stated without the loop -/

/-- the part of the request the server looks at: up to 32 bytes, cut at the first terminator -/
def requestWindow (c : Conn) : List Nat := (c.bytes.take window).takeWhile (fun b => !isTerm b)

/-- the request is answered: a terminator inside the window, or a full window, or end of file -/
def answered (c : Conn) : Bool :=
  (requestWindow c).length < (c.bytes.take window).length || (c.bytes.take window).length == window || !c.stalls

/-- the reply the protocol prescribes for a request whose first byte (if any, and not a terminator) is `first` -/
def replyFor (m : CMap κ) (first : Option Nat) : Nat × CMap κ :=
  if first = some 103 then (0, m)          -- 'g': all counters
  else if first = some 114 then (0, [])    -- 'r': reset acknowledged
  else if first = some 48 then (0, [])     -- '0': no-op
  else (1, [])                             -- anything else, including an empty request: error 1

def expectedReply (c : Conn) (m : CMap κ) : Option (Nat × CMap κ) :=
  if answered c then some (replyFor m (requestWindow c).head?) else none

def replies : List (Ev κ) → List (Nat × CMap κ)
  | [] => []
  | .reply e b :: r => (e, b) :: replies r
  | _ :: r => replies r

/-! ## (c) handler book-keeping (`runSocket`, `processMsg`, `~Stats`) -/

/-- `thread_count_` and the handler threads that are really alive, plus the counter map they share.
    A handler is identified with its connection; `live` is in accept order. -/
structure Svc (κ : Type) where
  counters : CMap κ
  count : Int := 0
  live : List Conn := []
  sent : List (Nat × CMap κ) := []      -- replies written so far (all connections)

inductive SvcEv (κ : Type) where
  | accept (c : Conn)     -- runSocket: accept, `++thread_count_`, spawn + detach the handler
  | finish (i : Nat)      -- the i-th live handler runs `processMsg` to whichever exit its connection leads to
  | api (op : Op κ)       -- a call from the main loop / a plugin in between
deriving Repr

/-- A handler touches shared state in exactly two places: the counter map (one atomic step, by (a'))
    and `thread_count_` on exit.  Its reads are on a private descriptor.  So one `finish` step per
    handler loses no interleaving of shared-state accesses. -/
def svcStep (fixed : Bool) (s : Svc κ) : SvcEv κ → Svc κ
  | .accept c => { s with count := s.count + 1, live := s.live ++ [c] }
  | .finish i =>
    match s.live[i]? with
    | none => s
    | some c =>
      let r := handler fixed c s.counters
      { counters := r.1,
        count := s.count - ((r.2.filter isDecr).length : Int),
        live := s.live.eraseIdx i,
        sent := s.sent ++ replies r.2 }
  | .api op => { s with counters := (step s.counters op).1 }

def svcRun (fixed : Bool) (s : Svc κ) (evs : List (SvcEv κ)) : Svc κ := evs.foldl (svcStep fixed) s

/-- `~Stats`: `thread_exited_.wait_for(lock, 5 s, [this]{ return thread_count_ == 0; })`; a `false`
    result is followed by `OCHECK(false)` (abort) -/
def waitPredicate (s : Svc κ) : Bool := s.count == 0

end Handler

/-! ## (d) the socket path (`Stats::startSocket`, `StatsClient::StatsClient` / `msgSocket`) -/

def sunPathSize : Nat := Generated.sunPathSize

inductive PathRes where
  | ok (sunPath : List Nat)        -- contents of `sun_path` afterwards (path and its NUL)
  | refused                        -- init fails / the client returns an error; nothing was copied
  | overflow (beyond : List Nat)   -- bytes `strcpy` wrote past the end of `sun_path` (undefined behaviour)
deriving Repr, DecidableEq

/-- `::strcpy(serv_addr_.sun_path, path.c_str())` into an array of `cap` bytes -/
def strcpyInto (cap : Nat) (src : List Nat) : List Nat × List Nat :=
  ((src ++ [0]).take cap, (src ++ [0]).drop cap)

def copyPath (fixed : Bool) (path : List Nat) : PathRes :=
  if fixed && decide (sunPathSize ≤ path.length) then .refused
  else
    let r := strcpyInto sunPathSize path
    if r.2 = [] then .ok r.1 else .overflow r.2

end OomdModel.StatsSvc

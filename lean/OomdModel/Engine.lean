/-!
# Model of the rule engine: `DetectorGroup::check` (src/oomd/engine/DetectorGroup.cpp),
`Ruleset::prerun / runOnceImpl / run_action_chain / pause_actions` (src/oomd/engine/Ruleset.cpp),
`Engine::prerun / runOnce` (src/oomd/engine/Engine.cpp), one tick of `Oomd::run`.

Plugins are opaque: what a plugin does in one `run()` is a `Call` (return value, how far the
steady clock advances inside the call, and whether it calls `Ruleset::pause_actions(d)` on its
invoking ruleset before returning - the `BaseKillPlugin::run` protocol).  A history supplies, for
every tick, the `Call` of every plugin instance (`Script`) and the time since the previous tick.

The model is of the code **after** the repair recorded in `known_findings.txt` ("fix: set the
invoking ruleset when a suspended action chain is resumed"): `invOnResume = true`.  The behaviour
of the unrepaired code is `invOnResume = false`; `OomdProps.C05` proves the counterexample for it.

Clock readings are `Nat` nanoseconds.
-/

namespace OomdModel.Engine

inductive Ret
  | cont | stop | async
deriving DecidableEq, Repr

structure Call where
  ret : Ret := .cont
  adv : Nat := 0
  pause : Option Nat := none
deriving Repr, DecidableEq

structure Group where
  gid : Nat
  dets : List Nat
deriving Repr, DecidableEq

structure RsCfg where
  rid : Nat
  groups : List Group
  actions : List Nat
  delay : Nat
  hookTimeout : Nat
deriving Repr, DecidableEq

/-- `ActionContext` (ruleset name, detector group name, run uuid, prekill-hook deadline);
the target cgroup is constant per ruleset instance and handled in `OomdModel.RsCgroup`. -/
structure Ctx where
  ruleset : Nat
  group : Nat
  uuid : Nat
  deadline : Nat
deriving Repr, DecidableEq

structure RsState where
  pauseUntil : Nat := 0
  overrode : Bool := false
  active : Option (Nat × Ctx) := none
deriving Repr, DecidableEq

inductive Ev
  | prerun (inst : Nat)
  | det (inst : Nat) (now : Nat)
  | act (inst : Nat) (now : Nat) (ctx : Ctx) (invoking : Bool)
deriving Repr, DecidableEq

-- delays and time-outs are held in nanoseconds like clock readings; the driver converts the
-- configuration's whole seconds (`std::chrono::seconds`) when it builds an `RsCfg` / `Call`
def NS : Nat := 1000000000

abbrev Script := Nat → Call

/-- `DetectorGroup::check`: every detector runs; triggered iff none returned STOP. -/
def checkGroup (sc : Script) : List Nat → Nat → Bool × List Ev × Nat
  | [], now => (true, [], now)
  | d :: ds, now =>
    let c := sc d
    let r := checkGroup sc ds (now + c.adv)
    (c.ret != .stop && r.1, Ev.det d now :: r.2.1, r.2.2)

/-- detector loop of `runOnceImpl`: all groups are checked; the first that fires fixes the action
context (fresh uuid from the counter, deadline = now + prekill_hook_timeout). -/
def detPhase (cfg : RsCfg) (sc : Script) : List Group → Nat → Nat → Option Ctx → Option Ctx × List Ev × Nat × Nat
  | [], now, ctr, fired => (fired, [], now, ctr)
  | g :: gs, now, ctr, fired =>
    let r := checkGroup sc g.dets now
    let now' := r.2.2
    let new := r.1 && fired.isNone
    let fired' := if new then some { ruleset := cfg.rid, group := g.gid, uuid := ctr, deadline := now' + cfg.hookTimeout } else fired
    let ctr' := if new then ctr + 1 else ctr
    let r2 := detPhase cfg sc gs now' ctr' fired'
    (r2.1, r.2.1 ++ r2.2.1, r2.2.2.1, r2.2.2.2)

/-- `Ruleset::pause_actions`, reachable by the plugin only through the invoking ruleset -/
def applyPause (invoking : Bool) (c : Call) (now' : Nat) (st : RsState) : RsState :=
  match c.pause with
  | some d => if invoking then { st with pauseUntil := now' + d, overrode := true } else st
  | none => st

/-- the STOP case of `run_action_chain` -/
def onStop (cfg : RsCfg) (now' : Nat) (st : RsState) : RsState :=
  if st.overrode then { st with overrode := false }
  else { st with pauseUntil := now' + cfg.delay }

/-- `run_action_chain` from the action with index `i` (`as` = the actions from `i` on) -/
def chain (cfg : RsCfg) (sc : Script) (invoking : Bool) (ctx : Ctx) :
    List Nat → Nat → Nat → RsState → RsState × List Ev × Nat
  | [], _, now, st => (st, [], now)
  | a :: as, i, now, st =>
    let c := sc a
    let now' := now + c.adv
    let st1 := applyPause invoking c now' st
    let ev := Ev.act a now ctx invoking
    match c.ret with
    | .cont =>
      let r := chain cfg sc invoking ctx as (i + 1) now' st1
      (r.1, ev :: r.2.1, r.2.2)
    | .stop => (onStop cfg now' st1, [ev], now')
    | .async => ({ st1 with active := some (i, ctx) }, [ev], now')

/-- start a fresh chain if a group fired -/
def startFresh (cfg : RsCfg) (sc : Script) (fired : Option Ctx) (now : Nat) (st : RsState) :
    RsState × List Ev × Nat :=
  match fired with
  | some ctx => chain cfg sc true ctx cfg.actions 0 now st
  | none => (st, [], now)

/-- `Ruleset::runOnceImpl`; returns new state, events, clock, uuid counter -/
def rsRun (invOnResume : Bool) (cfg : RsCfg) (sc : Script) (st : RsState) (now ctr : Nat) :
    RsState × List Ev × Nat × Nat :=
  let d := detPhase cfg sc cfg.groups now ctr none
  let fired := d.1
  let now1 := d.2.2.1
  let ctr1 := d.2.2.2
  if now1 < st.pauseUntil then (st, d.2.1, now1, ctr1)
  else
    match st.active with
    | some (i, actx) =>
      let st0 := { st with active := none }
      if i < cfg.actions.length then
        let r := chain cfg sc (fired.isSome || invOnResume) actx (cfg.actions.drop i) i now1 st0
        (r.1, d.2.1 ++ r.2.1, r.2.2, ctr1)
      else
        let r := startFresh cfg sc fired now1 st0
        (r.1, d.2.1 ++ r.2.1, r.2.2, ctr1)
    | none =>
      let r := startFresh cfg sc fired now1 st
      (r.1, d.2.1 ++ r.2.1, r.2.2, ctr1)

/-- `Ruleset::prerun` -/
def preruns (cfg : RsCfg) : List Ev :=
  (cfg.groups.flatMap (·.dets)).map Ev.prerun ++ cfg.actions.map Ev.prerun

/-- `Engine::runOnce` over the base rulesets in configuration order -/
def engineRun (invOnResume : Bool) (sc : Script) :
    List (RsCfg × RsState) → Nat → Nat → List (RsCfg × RsState) × List Ev × Nat × Nat
  | [], now, ctr => ([], [], now, ctr)
  | (cfg, st) :: rest, now, ctr =>
    let r := rsRun invOnResume cfg sc st now ctr
    let r2 := engineRun invOnResume sc rest r.2.2.1 r.2.2.2
    ((cfg, r.1) :: r2.1, r.2.1 ++ r2.2.1, r2.2.2.1, r2.2.2.2)

structure TickIn where
  gap : Nat
  sc : Script

structure World where
  rs : List (RsCfg × RsState)
  now : Nat
  ctr : Nat

/-- one main-loop tick: clock moves by `gap`, `Engine::prerun`, `Engine::runOnce` -/
def tick (invOnResume : Bool) (w : World) (ti : TickIn) : World × List Ev :=
  let now := w.now + ti.gap
  let pre := w.rs.flatMap (fun p => preruns p.1)
  let r := engineRun invOnResume ti.sc w.rs now w.ctr
  ({ rs := r.1, now := r.2.2.1, ctr := r.2.2.2 }, pre ++ r.2.1)

def run (invOnResume : Bool) : World → List TickIn → List (List Ev)
  | _, [] => []
  | w, ti :: rest =>
    let r := tick invOnResume w ti
    r.2 :: run invOnResume r.1 rest

def initWorld (cfgs : List RsCfg) (now : Nat) : World :=
  { rs := cfgs.map (fun c => (c, {})), now := now, ctr := 0 }

end OomdModel.Engine

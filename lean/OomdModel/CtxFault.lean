import OomdModel.Fault

/-!
# Crash-point model of the accessor layer (`src/oomd/CgroupContext.cpp`) for C10

`OomdModel.Fault` models the file readers of `Fs.cpp`.  This module models what `CgroupContext` builds on top of them:
the lazily filled `std::optional` fields (`PROXY`), the derived statistics (`rawProtection`, `getMemoryProtection`,
`getEffectiveSwapMax/Free/UtilPct`, `effective_usage`, `memory_growth`, `getAverageUsage`, `getIoCostCumulative`,
`getIoCostRate`, `getPgScanCumulative`, `getPgScanRate`, `anon/file/shmem_usage`) and their walk up the hierarchy
through `OomdContext::addToCacheAndGet(parent)`.

Only the *outcome class* of an accessor matters for C10 (`ok` / `unavailable` / `throws` / `ub`), so arithmetic the
code does in `double` (`normalizedProtection`, the moving average, the io-cost dot product) is a parameter (`Arith`);
every theorem quantifies over it.  The code's `std::optional` is `Res` restricted to `ok` / `unavailable`; a reader
that throws (or indexes out of bounds) makes the accessor that called it throw - nothing in `CgroupContext.cpp`
catches - which is why `throws` / `ub` are propagated, not dropped.

A cgroup is described by the readings of its own control files (`Readings`, one `Res` per reader) and its position:
`Level`s from the cgroup itself up to (not including) the root, each with whether `addToCacheAndGet(parent)` could
open the parent, and the readings of the siblings that `getMemoryProtection` sums over.
-/

namespace OomdModel.CtxFault
open OomdModel.Fault OomdModel.Path

/-- the control files of one cgroup directory, each in some state -/
structure CgFiles where
  memCurrent : FileSt
  swapCurrent : FileSt
  swapMax : FileSt
  memLow : FileSt
  memMin : FileSt
  memHigh : FileSt
  memHighTmp : FileSt
  memMax : FileSt
  memStat : FileSt
  cgStat : FileSt
  events : FileSt
  oomGroupF : FileSt
  memPressure : FileSt
  ioPressure : FileSt
  ioStat : FileSt
deriving Repr, DecidableEq

/-- one parsed `io.stat` line (`sscanf` with eight conversions) -/
structure IoLine where
  dev : Str
  vals : List Int
deriving Repr, DecidableEq

/-- `Fs::readIostatAt`: every line must scan, else the whole file is invalid (EINVAL) -/
def ioStatFromLines (scanIo : Str → Option IoLine) : List Str → Res (List IoLine)
  | [] => .ok []
  | l :: rest =>
    match scanIo l with
    | none => .unavailable
    | some x =>
      match ioStatFromLines scanIo rest with
      | .ok xs => .ok (x :: xs)
      | r => r

def ioStat (scanIo : Str → Option IoLine) (f : FileSt) : Res (List IoLine) :=
  match readLines f with
  | none => .unavailable
  | some ls => ioStatFromLines scanIo ls

/-- `Fs::getNrDyingDescendantsAt`: `map["nr_dying_descendants"]` - a missing entry reads 0 -/
def nrDying (scan : Str → Option (Str × Int)) (f : FileSt) : Res Int :=
  match kvFile scan f with
  | .ok m => .ok ((m.lookup "nr_dying_descendants".toList).getD 0)
  | .unavailable => .unavailable
  | .throws => .throws
  | .ub => .ub

/-- what the readers return for one cgroup (the first call of each `PROXY` field in a tick) -/
structure Readings where
  current : Res Int
  swapUsage : Res Int
  swapMax : Res Int
  memLow : Res Int
  memMin : Res Int
  memHigh : Res Int
  memHighTmp : Res Int
  memMax : Res Int
  memStat : Res (List (Str × Int))
  nrDying : Res Int
  populated : Res Bool
  oomGroup : Res Bool
  memPressureFull : Res (Int × Int × Int)
  memPressureSome : Res (Int × Int × Int)
  ioPressureFull : Res (Int × Int × Int)
  ioPressureSome : Res (Int × Int × Int)
  ioStat : Res (List IoLine)

/-- the parsers libc supplies (`stoll`, `stof`/`stoull`, the two `sscanf` formats) -/
structure Parsers where
  num : Num
  fnum : Num
  scan : Str → Option (Str × Int)
  scanIo : Str → Option IoLine

def readingsOf (P : Parsers) (f : CgFiles) : Readings where
  current := firstLineNum P.num f.memCurrent
  swapUsage := firstLineNum P.num f.swapCurrent
  swapMax := minMaxLowHigh P.num f.swapMax
  memLow := minMaxLowHigh P.num f.memLow
  memMin := minMaxLowHigh P.num f.memMin
  memHigh := minMaxLowHigh P.num f.memHigh
  memHighTmp := memHighTmp P.num f.memHighTmp
  memMax := minMaxLowHigh P.num f.memMax
  memStat := kvFile P.scan f.memStat
  nrDying := nrDying P.scan f.cgStat
  populated := populated f.events
  oomGroup := oomGroup f.oomGroupF
  memPressureFull := pressure P.fnum true f.memPressure
  memPressureSome := pressure P.fnum false f.memPressure
  ioPressureFull := pressure P.fnum true f.ioPressure
  ioPressureSome := pressure P.fnum false f.ioPressure
  ioStat := ioStat P.scanIo f.ioStat

/-- every reading is `ok` or `unavailable` -/
def Readings.safe (r : Readings) : Bool :=
  r.current.safe && r.swapUsage.safe && r.swapMax.safe && r.memLow.safe && r.memMin.safe && r.memHigh.safe &&
  r.memHighTmp.safe && r.memMax.safe && r.memStat.safe && r.nrDying.safe && r.populated.safe && r.oomGroup.safe &&
  r.memPressureFull.safe && r.memPressureSome.safe && r.ioPressureFull.safe && r.ioPressureSome.safe && r.ioStat.safe

/-- arithmetic done in `double` / on device tables: only its totality matters here -/
structure Arith where
  /-- `raw * min(1.0, 1.0 * parent / sum)` -/
  scale : Int → Int → Int → Int
  /-- `prev * ((decay - 1) / decay) + cur / decay` -/
  avg : Int → Int → Int
  /-- coefficient dot product over the configured devices -/
  ioCost : List IoLine → Int
  /-- `double(cur) / avg` -/
  ratio : Int → Int → Int

/-- `Res.bind`, the code's `if (!x) return std::nullopt;` -/
abbrev bnd {α β} (r : Res α) (f : α → Res β) : Res β := Res.bind r f

/-- `opt.value_or(d)` on a value obtained with a null error pointer (a reader that throws still throws) -/
def valueOr (r : Res Int) (d : Int) : Res Int :=
  match r with
  | .ok a => .ok a
  | .unavailable => .ok d
  | .throws => .throws
  | .ub => .ub

/-! ### statistics of one cgroup -/

def lookupStat (r : Readings) (key : String) : Res Int :=
  bnd r.memStat fun m => match m.lookup key.toList with
    | some v => .ok v
    | none => .unavailable

def anonUsage (r : Readings) : Res Int := lookupStat r "anon"
def fileUsage (r : Readings) : Res Int := lookupStat r "file"
def shmemUsage (r : Readings) : Res Int := lookupStat r "shmem"
/-- `getPgScanCumulative` (after the fix: a missing `pgscan` is `nullopt`) -/
def pgScanCumulative (r : Readings) : Res Int := pgScan r.memStat

/-- `rawProtection`: `min(current, max(memory.min, memory.low))` -/
def rawProtection (r : Readings) : Res Int :=
  bnd r.current fun c => bnd r.memMin fun mn => bnd r.memLow fun lw => .ok (min c (max mn lw))

/-- `getAverageUsage` (`prev` = `archive_.average_usage.value_or(0)`) -/
def averageUsage (A : Arith) (prev : Int) (r : Readings) : Res Int :=
  bnd r.current fun c => .ok (A.avg prev c)

/-- `memory_growth` -/
def memoryGrowth (A : Arith) (prev : Int) (r : Readings) : Res Int :=
  bnd r.current fun c => bnd (averageUsage A prev r) fun a => if a = 0 then .ok 0 else .ok (A.ratio c a)

def ioCostCumulative (A : Arith) (r : Readings) : Res Int :=
  bnd r.ioStat fun s => .ok (A.ioCost s)

/-- `getIoCostRate`: 0 on the first tick -/
def ioCostRate (A : Arith) (prev : Option Int) (r : Readings) : Res Int :=
  bnd (ioCostCumulative A r) fun c => match prev with
    | none => .ok 0
    | some p => .ok (c - p)

/-- `getPgScanRate`: unavailable on the first tick -/
def pgScanRate (prev : Option Int) (r : Readings) : Res Int :=
  bnd (pgScanCumulative r) fun c => match prev with
    | none => .unavailable
    | some p => .ok (c - p)

/-! ### the hierarchy -/

structure Level where
  r : Readings
  /-- `ctx_.addToCacheAndGet(parent_cgroup)` returned a context -/
  parentOpen : Bool
  /-- the children of the parent that could be opened (normally including this cgroup) -/
  sibs : List Readings

/-- the system context: `swaptotal`, `swapused`, and the root's `current_usage` (from /proc/meminfo) -/
structure Sys where
  swapTotal : Int
  swapUsed : Int
  rootUsage : Res Int

/-- `protection_sum += rawProtection(sibling_ctx).value_or(0)` -/
def protectionSum : List Readings → Res Int
  | [] => .ok 0
  | s :: rest => bnd (valueOr (rawProtection s) 0) fun a => bnd (protectionSum rest) fun b => .ok (a + b)

/-- `getMemoryProtection` for the cgroup at the head of the chain (`[]` = the root cgroup) -/
def memoryProtection (A : Arith) (S : Sys) : List Level → Res Int
  | [] => S.rootUsage
  | [l] => rawProtection l.r
  | l :: p :: rest =>
    if !l.parentOpen then .unavailable
    else bnd (protectionSum l.sibs) fun sum =>
      if sum = 0 then .ok 0
      else bnd (rawProtection l.r) fun raw =>
        bnd (memoryProtection A S (p :: rest)) fun pp => .ok (A.scale raw pp sum)

/-- `effective_usage(err, scale = 1, adj = 0)` -/
def effectiveUsage (A : Arith) (S : Sys) (chain : List Level) : Res Int :=
  match chain with
  | [] => bnd S.rootUsage fun c => bnd (memoryProtection A S []) fun p => .ok (c - p)
  | l :: _ => bnd l.r.current fun c => bnd (memoryProtection A S chain) fun p => .ok (c - p)

def effectiveSwapMax (S : Sys) : List Level → Res Int
  | [] => .ok S.swapTotal
  | l :: rest =>
    if !l.parentOpen then .unavailable
    else bnd (effectiveSwapMax S rest) fun pm => bnd l.r.swapMax fun sm => .ok (min pm sm)

def effectiveSwapFree (S : Sys) : List Level → Res Int
  | [] => .ok (S.swapTotal - S.swapUsed)
  | l :: rest =>
    bnd l.r.swapMax fun sm => bnd l.r.swapUsage fun su =>
      if !l.parentOpen then .unavailable
      else bnd (effectiveSwapFree S rest) fun pf => .ok (min pf (sm - su))

def effectiveSwapUtil (A : Arith) (S : Sys) : List Level → Res Int
  | [] => if S.swapTotal = 0 then .ok 0 else .ok (A.ratio S.swapUsed S.swapTotal)
  | l :: rest =>
    bnd l.r.swapMax fun sm =>
      if sm = 0 then .ok 0
      else bnd l.r.swapUsage fun su =>
        if !l.parentOpen then .unavailable
        else bnd (effectiveSwapUtil A S rest) fun pu => .ok (max pu (A.ratio su sm))

/-! ### a consumer that dereferenced without a check: `KillSwapUsage::getSwapExcess` (KillSwapUsage-inl.h)

`memory_protection()` and `swap_usage()` are independent accessors; the biased swap excess is computed for every candidate the
kill loop logs, also for candidates restored after a prekill hook (not re-ranked on the resuming tick, so nothing has cached
their swap usage).  After the `fix:` commit an unavailable swap usage counts as 0; before it `.value()` threw
`std::bad_optional_access` through `Oomd::run`. -/

def swapExcess (ratio : Int → Int) (prot usage : Res Int) : Res Int :=
  match prot with
  | .ok p => bnd (valueOr usage 0) fun u => .ok (max (u - ratio p) 0)
  | .unavailable => valueOr usage 0
  | .throws => .throws
  | .ub => .ub

def swapExcessUnfixed (ratio : Int → Int) (prot usage : Res Int) : Res Int :=
  match prot with
  | .ok p =>
    match usage with
    | .ok u => .ok (max (u - ratio p) 0)
    | .unavailable => .throws                 -- std::optional::value() on nullopt
    | .throws => .throws
    | .ub => .ub
  | .unavailable => valueOr usage 0
  | .throws => .throws
  | .ub => .ub

/-! ### the accessors the plugins call, as one table (used by the driver and by the theorems) -/

inductive Acc
  | currentUsage | swapUsage | swapMax | memoryLow | memoryMin | memoryHigh | memoryHighTmp | memoryMax
  | nrDying | isPopulated | oomGroup | memPressure | memPressureSome | ioPressure | ioPressureSome
  | memoryStat | ioStat | anonUsage | fileUsage | shmemUsage | pgScanCumulative | pgScanRate
  | ioCostCumulative | ioCostRate | averageUsage | memoryGrowth | rawProtection
  | memoryProtection | effectiveUsage | effectiveSwapMax | effectiveSwapFree | effectiveSwapUtil
deriving Repr, DecidableEq

def Acc.all : List Acc :=
  [.currentUsage, .swapUsage, .swapMax, .memoryLow, .memoryMin, .memoryHigh, .memoryHighTmp, .memoryMax,
   .nrDying, .isPopulated, .oomGroup, .memPressure, .memPressureSome, .ioPressure, .ioPressureSome,
   .memoryStat, .ioStat, .anonUsage, .fileUsage, .shmemUsage, .pgScanCumulative, .pgScanRate,
   .ioCostCumulative, .ioCostRate, .averageUsage, .memoryGrowth, .rawProtection,
   .memoryProtection, .effectiveUsage, .effectiveSwapMax, .effectiveSwapFree, .effectiveSwapUtil]

/-- name of the accessor in `CgroupContext.cpp` (`rawProtection` is a file-local helper, not an accessor) -/
def Acc.cxxName : Acc → Option String
  | .currentUsage => some "current_usage" | .swapUsage => some "swap_usage" | .swapMax => some "swap_max"
  | .memoryLow => some "memory_low" | .memoryMin => some "memory_min" | .memoryHigh => some "memory_high"
  | .memoryHighTmp => some "memory_high_tmp" | .memoryMax => some "memory_max" | .nrDying => some "nr_dying_descendants"
  | .isPopulated => some "is_populated" | .oomGroup => some "oom_group" | .memPressure => some "mem_pressure"
  | .memPressureSome => some "mem_pressure_some" | .ioPressure => some "io_pressure" | .ioPressureSome => some "io_pressure_some"
  | .memoryStat => some "memory_stat" | .ioStat => some "io_stat" | .anonUsage => some "anon_usage"
  | .fileUsage => some "file_usage" | .shmemUsage => some "shmem_usage" | .pgScanCumulative => some "pg_scan_cumulative"
  | .pgScanRate => some "pg_scan_rate" | .ioCostCumulative => some "io_cost_cumulative" | .ioCostRate => some "io_cost_rate"
  | .averageUsage => some "average_usage" | .memoryGrowth => some "memory_growth" | .rawProtection => none
  | .memoryProtection => some "memory_protection" | .effectiveUsage => some "effective_usage"
  | .effectiveSwapMax => some "effective_swap_max" | .effectiveSwapFree => some "effective_swap_free"
  | .effectiveSwapUtil => some "effective_swap_util_pct"

/-- accessors of `CgroupContext` that read no control file: the directory listing (`getChildren` returns an empty list when
the listing fails - modelled in `Fault.readDirUnknownType` and exercised by the tick-level fault runs), the inode number
(`fstat` on the held descriptor) and the kill preference (`fgetxattr` probes, C03 / C15) -/
def notFileAccessors : List String := ["children", "id", "kill_preference"]

/-- the tick history of one cgroup that the temporal accessors read (`archive_`) -/
structure Archive where
  avg : Int
  ioCost : Option Int
  pgScan : Option Int

def unit {α} (r : Res α) : Res Unit :=
  match r with
  | .ok _ => .ok ()
  | .unavailable => .unavailable
  | .throws => .throws
  | .ub => .ub

/-- outcome class of accessor `a` on the non-root cgroup at the head of `l :: up` -/
def evalAcc (A : Arith) (S : Sys) (ar : Archive) (l : Level) (up : List Level) : Acc → Res Unit
  | .currentUsage => unit l.r.current
  | .swapUsage => unit l.r.swapUsage
  | .swapMax => unit l.r.swapMax
  | .memoryLow => unit l.r.memLow
  | .memoryMin => unit l.r.memMin
  | .memoryHigh => unit l.r.memHigh
  | .memoryHighTmp => unit l.r.memHighTmp
  | .memoryMax => unit l.r.memMax
  | .nrDying => unit l.r.nrDying
  | .isPopulated => unit l.r.populated
  | .oomGroup => unit l.r.oomGroup
  | .memPressure => unit l.r.memPressureFull
  | .memPressureSome => unit l.r.memPressureSome
  | .ioPressure => unit l.r.ioPressureFull
  | .ioPressureSome => unit l.r.ioPressureSome
  | .memoryStat => unit l.r.memStat
  | .ioStat => unit l.r.ioStat
  | .anonUsage => unit (anonUsage l.r)
  | .fileUsage => unit (fileUsage l.r)
  | .shmemUsage => unit (shmemUsage l.r)
  | .pgScanCumulative => unit (pgScanCumulative l.r)
  | .pgScanRate => unit (pgScanRate ar.pgScan l.r)
  | .ioCostCumulative => unit (ioCostCumulative A l.r)
  | .ioCostRate => unit (ioCostRate A ar.ioCost l.r)
  | .averageUsage => unit (averageUsage A ar.avg l.r)
  | .memoryGrowth => unit (memoryGrowth A ar.avg l.r)
  | .rawProtection => unit (rawProtection l.r)
  | .memoryProtection => unit (memoryProtection A S (l :: up))
  | .effectiveUsage => unit (effectiveUsage A S (l :: up))
  | .effectiveSwapMax => unit (effectiveSwapMax S (l :: up))
  | .effectiveSwapFree => unit (effectiveSwapFree S (l :: up))
  | .effectiveSwapUtil => unit (effectiveSwapUtil A S (l :: up))

/-- every reading of every cgroup the accessors of the head cgroup can reach is `ok` or `unavailable` -/
def chainSafe : List Level → Bool
  | [] => true
  | l :: rest => l.r.safe && l.sibs.all Readings.safe && chainSafe rest

end OomdModel.CtxFault

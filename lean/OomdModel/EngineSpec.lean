import OomdModel.Engine

/-!
# Trace predicates of the engine properties (what C05 / C06 say about an observed call log)

An observed action event together with the `Call` the plugin made (known to the harness because
plugins are scripted; for real plugins it is their return value and `post_action_delay`).
-/

namespace OomdModel.Engine

/-- what C05 needs to know about one event: when an action ran, and - if it returned STOP - the
deadline `t + d` before which no further action of the ruleset may run (`t` = reading when it
returned, `d` = its own `post_action_delay` if it specifies one, else the ruleset's) -/
structure Obs where
  actAt : Option Nat
  stopDl : Option Nat
deriving Repr, DecidableEq

def obs (cfg : RsCfg) (sc : Script) : Ev → Obs
  | Ev.act a t _ _ =>
    { actAt := some t
      stopDl := if (sc a).ret = .stop then some (t + (sc a).adv + ((sc a).pause.getD cfg.delay)) else none }
  | _ => { actAt := none, stopDl := none }

def okAfter (dl : Nat) (o : Obs) : Bool :=
  match o.actAt with
  | some t => decide (dl ≤ t)
  | none => true

/-- C05 on one ruleset's observed events: after a STOP with deadline `dl` no action runs before `dl` -/
def holdsC05 : List Obs → Bool
  | [] => true
  | o :: rest =>
    (match o.stopDl with
     | some dl => rest.all (okAfter dl)
     | none => true) && holdsC05 rest

/-- plugin protocol (`BaseKillPlugin::run`): `pause_actions` is called only right before returning STOP -/
def Protocol (sc : Script) : Prop := ∀ a, (sc a).pause.isSome = true → (sc a).ret = .stop

/-- one invocation of the ruleset by its environment (the main loop and the other rulesets): the
clock reading and uuid counter at which it is reached and this tick's script -/
structure Invocation where
  now : Nat
  ctr : Nat
  sc : Script

/-- the observed events of one ruleset over a whole history; the environment can only move the
clock forward (`max`) -/
def rsHistory (invOnResume : Bool) (cfg : RsCfg) : RsState → Nat → List Invocation → List Obs
  | _, _, [] => []
  | st, last, i :: rest =>
    let r := rsRun invOnResume cfg i.sc st (max i.now last) i.ctr
    r.2.1.map (obs cfg i.sc) ++ rsHistory invOnResume cfg r.1 r.2.2.1 rest

end OomdModel.Engine

import OomdModel.Generated.Consts

/-!
# Shared kill model (C01, C03, C04, C17; C07 builds on it)

Model of `BaseKillPlugin` (src/oomd/plugins/BaseKillPlugin.cpp) as one invocation of `run()` on one
tick's cached view of the cgroup tree, reacting to an environment that answers every libc call:

* `run`                              → `runKill`
* `tryToKillSomething`               → `rank roots` pushed best-on-top, then `loop`
* `resumeTryingToKillSomething`      → `loop` (explicit stack, `mayRecurse`, unpopulated skip, first success stops)
* `tryToLogAndKillCgroup`            → `tryToLogAndKill` (uuid, stat, kmsg record)
* `tryToKillCgroup`                  → `tryToKillCgroup` (dry return, kernelkill branch, ≤ 10 retry rounds, reap, xattrs)
* `getAndTryToKillPids`              → `killTree` / `killForest` (own pids first, then cached children)
* `tryToKillPids`                    → `tryToKillPids`
* `reapCgroupRecursively/reapProcess`→ `reapTree` / `reapForest` / `reapPids`
* `reportKill{Uuid,Initiation,Completion}ToXattr` → `reportUuid`, `reportOoms`, `reportKills`
* `SystemdRestart::run`              → `runRestart`
* `KillPgScan::run`                  → `pgScanGate`

The model is of the code **with these proposed fixes applied** (see /verif/fixes):
* `C01-nonpositive-pid.patch`   : `tryToKillPids` skips pids ≤ 0 (unfixed: `kill(0, SIGKILL)` signals oomd's own process group);
* `C17-xattr-nonint.patch`      : a pre-existing counter xattr that is not an integer is read as 0 (unfixed: `std::stoi` throws through `run()`);
* `C04-restart-dry-counter.patch`: `systemd_restart` does not count a dry restart.

Not modelled here: prekill hooks (`resumeFromPrekillHook`, DEFER) – C07 adds them on top; log text; the 1 s
sleeps between retry rounds (no observable besides time); the split of the pid stream into chunks of
`Generated.killStreamSize` (the `kill(2)` sequence is the same with or without it because pid lines are
decimal numbers – see `Env.procs`).

`rankForKilling` is a parameter `rank`; what the proofs need from it is stated in `OomdProofs.Kill.RankOK`.
-/

namespace OomdModel.Kill

/-! ## cgroup views -/

/-- `KillPreference` (src/oomd/include/Types.h) -/
inductive Pref | avoid | normal | prefer
deriving DecidableEq, Repr

def Pref.toInt : Pref → Int
  | .avoid => Generated.killPrefAvoid
  | .normal => Generated.killPrefNormal
  | .prefer => Generated.killPrefPrefer

/-- presence of the four preference xattrs -/
structure Marks where
  trustedPrefer : Bool
  userPrefer : Bool
  trustedAvoid : Bool
  userAvoid : Bool
deriving DecidableEq, Repr, Inhabited

/-- `Fs::readKillPreferenceAt`: prefer xattrs are looked at before avoid xattrs -/
def prefOf (m : Marks) : Pref :=
  if m.trustedPrefer then .prefer
  else if m.userPrefer then .prefer
  else if m.trustedAvoid then .avoid
  else if m.userAvoid then .avoid
  else .normal

/-- what one tick's `CgroupContext` of a cgroup holds (cached for the tick) -/
structure Info where
  id : Nat                      -- identity of the cgroup (scenario id; inode in the implementation)
  path : String                 -- relative path, only used to name the cgroup in the kmsg record
  populated : Option Bool       -- `is_populated()`; `none` = cgroup.events unreadable
  oomGroup : Option Bool        -- `oom_group()`
  marks : Marks
  key : Int                     -- the plugin's ranking key (C09), scenario data here
  eligible : Bool               -- passes the plugin's ranking filter (swap > threshold, pgscan rate > 0)
  pidsCurrent : Option Int      -- pids.current, read by the kernelkill branch
deriving Repr, Inhabited

inductive View where
  | mk (info : Info) (children : List View)

instance : Inhabited View := ⟨.mk default []⟩

namespace View
def info : View → Info | mk i _ => i
def children : View → List View | mk _ c => c
def id (v : View) : Nat := v.info.id
def pref (v : View) : Pref := prefOf v.info.marks
end View

mutual
/-- number of nodes -/
def vsize : View → Nat
  | .mk _ cs => 1 + fsize cs
def fsize : List View → Nat
  | [] => 0
  | c :: cs => vsize c + fsize cs
end

mutual
/-- ids of a cgroup and all its descendants (pre-order) -/
def subtreeIds : View → List Nat
  | .mk i cs => i.id :: forestIds cs
def forestIds : List View → List Nat
  | [] => []
  | c :: cs => subtreeIds c ++ forestIds cs
end

/-! ## configuration -/

structure KillCfg where
  recursive : Bool
  dry : Bool
  alwaysContinue : Bool
  kernelKill : Bool
  reapMemory : Bool
  postActionDelay : Option Nat
  hasRuleset : Bool             -- `ctx.getInvokingRuleset()` is set (it is whenever a group fired this tick, C05)
deriving Repr

/-! ## boundary events -/

inductive XName | uuidT | uuidU | oomsT | oomsU | killT | killU
deriving DecidableEq, Repr

def XName.str : XName → String
  | .uuidT => Generated.xattrUuidTrusted
  | .uuidU => Generated.xattrUuidUser
  | .oomsT => Generated.xattrOomsTrusted
  | .oomsU => Generated.xattrOomsUser
  | .killT => Generated.xattrKillTrusted
  | .killU => Generated.xattrKillUser

inductive XVal
  | uuid (attempt : Nat)        -- the fresh id of the attempt-th `tryToLogAndKillCgroup` of this invocation
  | num (n : Int)
deriving DecidableEq, Repr

inductive CtlFile | freeze | kill
deriving DecidableEq, Repr

def CtlFile.str : CtlFile → String
  | .freeze => Generated.fileCgroupFreeze
  | .kill => Generated.fileCgroupKill

inductive Ret | cont | stop | async
deriving DecidableEq, Repr

def Ret.toNat : Ret → Nat
  | .cont => Generated.pluginRet_CONTINUE
  | .stop => Generated.pluginRet_STOP
  | .async => Generated.pluginRet_ASYNC_PAUSED

/-- What crosses the libc boundary (request together with the environment's answer), plus the two
    in-process effects the properties name (stats counter, `pause_actions`). Every `kill` is SIGKILL. -/
inductive Ev
  | setxattr (cg : Nat) (name : XName) (val : XVal) (old : Option String) (rc : Nat)
  | procs (cg : Nat) (pids : Option (List Int))       -- openat(cgroup.procs) on the held dir fd; `none` = failed
  | kill (pid : Int) (rc : Nat)                       -- kill(pid, SIGKILL); rc = errno, 0 = delivered
  | write (cg : Nat) (file : CtlFile) (rc : Int)      -- "1" written to a control file; rc < 0 = open/write failed
  | pidfdOpen (pid : Int) (rc : Nat)
  | mrelease (pid : Int) (rc : Nat)
  | kmsg (cg : Nat) (dry : Bool)                      -- the structured `oomd kill` record naming cgroup, ruleset, group, plugin
  | statKills                                         -- oomd.kills += 1
  | pause (secs : Nat)                                -- ruleset->pause_actions(secs)
  | dbus (restart : Bool) (rc : Nat)                  -- systemd Manager.RestartUnit call
  | kmsgRestart (dry : Bool)
  | statRestarts
deriving DecidableEq, Repr

/-! ## the environment: one answer stream per kind of call, consumed in order

When a stream is exhausted the call gets the default answer (file cannot be opened / ESRCH / ENODATA, ok …),
which is itself a possible behaviour of the OS, so the model is total. -/

structure Env where
  procs : List (Option (List Int))      -- per openat(cgroup.procs): the pid lines (decimal numbers; kernel grammar)
  killRc : List Nat                     -- per kill(2): errno
  xattr : List (Option String × Nat)    -- per setxattr: value of the attribute before the call, errno
  writes : List Int                     -- per control-file write: bytes written, or -errno
  pidfd : List Nat                      -- per pidfd_open: errno
  mrelease : List Nat                   -- per process_mrelease: errno
  events : List (Option Bool) := []     -- per fresh read of cgroup.events by the kernelkill branch: `populated` (none = unreadable)
deriving Repr

structure R (α : Type) where
  evs : List Ev
  env : Env
  val : α

/-- computations that emit boundary events and consume environment answers -/
def M (α : Type) := Env → R α

namespace M
def pure (a : α) : M α := fun env => ⟨[], env, a⟩
def bind (m : M α) (f : α → M β) : M β := fun env =>
  let r := m env
  let s := f r.val r.env
  ⟨r.evs ++ s.evs, s.env, s.val⟩
instance : Monad M where
  pure := M.pure
  bind := M.bind
end M

def emit (e : Ev) : M Unit := fun env => ⟨[e], env, ()⟩

def nextProcs : M (Option (List Int)) := fun env =>
  match env.procs with
  | [] => ⟨[], env, none⟩
  | a :: r => ⟨[], { env with procs := r }, a⟩

def nextKillRc : M Nat := fun env =>
  match env.killRc with
  | [] => ⟨[], env, 3⟩        -- ESRCH
  | a :: r => ⟨[], { env with killRc := r }, a⟩

def nextXattr : M (Option String × Nat) := fun env =>
  match env.xattr with
  | [] => ⟨[], env, (none, 0)⟩
  | a :: r => ⟨[], { env with xattr := r }, a⟩

def nextWrite : M Int := fun env =>
  match env.writes with
  | [] => ⟨[], env, -2⟩       -- ENOENT
  | a :: r => ⟨[], { env with writes := r }, a⟩

def nextPidfd : M Nat := fun env =>
  match env.pidfd with
  | [] => ⟨[], env, 3⟩
  | a :: r => ⟨[], { env with pidfd := r }, a⟩

def nextMrelease : M Nat := fun env =>
  match env.mrelease with
  | [] => ⟨[], env, 3⟩
  | a :: r => ⟨[], { env with mrelease := r }, a⟩

/-- the kernelkill branch's own read of cgroup.events (`Fs::readIsPopulatedAt` on the held directory fd).  The file may have
changed since the tick sampled it (processes exit on their own); when the stream is exhausted the answer is the sampled one. -/
def nextEvents (sampled : Option Bool) : M (Option Bool) := fun env =>
  match env.events with
  | [] => ⟨[], env, sampled⟩
  | a :: r => ⟨[], { env with events := r }, a⟩

/-! ## `std::stoi` on a pre-existing counter xattr -/

def isSpace (c : Char) : Bool := c = ' ' || c = '\t' || c = '\n' || c = '\x0b' || c = '\x0c' || c = '\r'

def digitsVal : List Char → Nat → Nat × Nat      -- (value, number of digits consumed)
  | [], acc => (acc, 0)
  | c :: cs, acc =>
    if c.isDigit then let (v, n) := digitsVal cs (acc * 10 + (c.toNat - '0'.toNat)); (v, n + 1) else (acc, 0)

/-- `std::stoi(s)`: optional white space, optional sign, at least one digit, the rest ignored;
    `none` = `std::invalid_argument` (no digit) or `std::out_of_range` (does not fit `int`). -/
def stoi? (s : String) : Option Int :=
  let cs := s.toList.dropWhile isSpace
  let (neg, ds) := match cs with
    | '-' :: r => (true, r)
    | '+' :: r => (false, r)
    | r => (false, r)
  let (v, n) := digitsVal ds 0
  if n = 0 then none
  else
    let i : Int := if neg then -(v : Int) else (v : Int)
    if i < -2147483648 || i > 2147483647 then none else some i

/-- previous value of a counter xattr: absent or empty = 0; with fix C17-xattr-nonint a value `std::stoi`
    rejects also counts as 0 -/
def parseCount (old : Option String) : Int :=
  match old with
  | none => 0
  | some s => if s = "" then 0 else (stoi? s).getD 0

/-! ## killing the processes of one cgroup -/

/-- `tryToKillPids` (with fix C01-nonpositive-pid): SIGKILL each pid, count the successes -/
def tryToKillPids : List Int → M Nat
  | [] => pure 0
  | p :: ps =>
    if p ≤ 0 then tryToKillPids ps
    else do
      let rc ← nextKillRc
      emit (.kill p rc)
      let n ← tryToKillPids ps
      pure ((if rc = 0 then 1 else 0) + n)

mutual
/-- `getAndTryToKillPids`: the target's own cgroup.procs through its held dir fd, then the cached children -/
def killTree : View → M Nat
  | .mk i cs => do
    let a ← nextProcs
    emit (.procs i.id a)
    match a with
    | none => pure 0                       -- openat failed: `return 0`, children not visited
    | some pids => do
      let n ← tryToKillPids pids
      let m ← killForest cs
      pure (n + m)
def killForest : List View → M Nat
  | [] => pure 0
  | c :: cs => do
    let a ← killTree c
    let b ← killForest cs
    pure (a + b)
end

/-- the retry loop of `tryToKillCgroup`: `while (tries--) { nrKilled += …; if (nrKilled == last) break; last = nrKilled; }` -/
def killRounds (v : View) : Nat → Nat → Nat → M Nat
  | 0, nr, _ => pure nr
  | t + 1, nr, last => do
    let k ← killTree v
    if nr + k = last then pure (nr + k) else killRounds v t (nr + k) (nr + k)

/-- `reapProcess` for each pid of one cgroup.procs -/
def reapPids : List Int → M Nat
  | [] => pure 0
  | p :: ps => do
    let rc ← nextPidfd
    emit (.pidfdOpen p rc)
    if rc ≠ 0 then reapPids ps
    else do
      let rc2 ← nextMrelease
      emit (.mrelease p rc2)
      let n ← reapPids ps
      pure ((if rc2 = 0 then 1 else 0) + n)

mutual
/-- `reapCgroupRecursively`: children first, then the cgroup's own pids -/
def reapTree : View → M Nat
  | .mk i cs => do
    let r ← reapForest cs
    let a ← nextProcs
    emit (.procs i.id a)
    match a with
    | none => pure r
    | some pids => do
      let q ← reapPids pids
      pure (r + q)
def reapForest : List View → M Nat
  | [] => pure 0
  | c :: cs => do
    let a ← reapTree c
    let b ← reapForest cs
    pure (a + b)
end

/-! ## xattr accounting -/

def setX (cg : Nat) (name : XName) (mkVal : Option String → XVal) : M Unit := do
  let (old, rc) ← nextXattr
  emit (.setxattr cg name (mkVal old) old rc)

/-- `reportKillUuidToXattr` -/
def reportUuid (cg attempt : Nat) : M Unit := do
  setX cg .uuidT (fun _ => .uuid attempt)
  setX cg .uuidU (fun _ => .uuid attempt)

/-- `reportKillInitiationToXattr`: previous value + 1 -/
def reportOoms (cg : Nat) : M Unit := do
  setX cg .oomsT (fun old => .num (parseCount old + 1))
  setX cg .oomsU (fun old => .num (parseCount old + 1))

/-- `reportKillCompletionToXattr`: previous value + nrKilled -/
def reportKills (cg : Nat) (nr : Nat) : M Unit := do
  setX cg .killT (fun old => .num (parseCount old + nr))
  setX cg .killU (fun old => .num (parseCount old + nr))

/-! ## one kill attempt -/

/-- `if (reapMemory_ && nrKilled > 0) stats.nrReaped = reapCgroupRecursively(target);` -/
def maybeReap (cfg : KillCfg) (v : View) (nr : Nat) : M Unit :=
  if cfg.reapMemory && nr > 0 then reapTree v >>= fun _ => pure () else pure ()

/-- tail shared by both branches of `tryToKillCgroup`: reap, completion xattr, `return nrKilled` -/
def finishKill (cfg : KillCfg) (v : View) (nr : Nat) : M (Option Nat) := do
  maybeReap cfg v nr
  reportKills v.id nr
  pure (some nr)

/-- the `else` branch of `tryToKillCgroup`: up to `killRetries` rounds of SIGKILLs over the victim's subtree -/
def signalBranch (cfg : KillCfg) (v : View) : M (Option Nat) := do
  let nr ← killRounds v Generated.killRetries 0 0
  finishKill cfg v nr

/-- number the kernelkill branch reports: pids.current before the kill, or 1 when unknown / 0 -/
def kernelCount (v : View) : Nat :=
  match v.info.pidsCurrent with
  | some n => if n ≤ 0 then 1 else n.toNat
  | none => 1

/-- the `kernelKill_` branch of `tryToKillCgroup`; `none` = `SYSTEM_ERROR` -/
def kernelBranch (cfg : KillCfg) (v : View) : M (Option Nat) := do
  let f ← nextWrite
  emit (.write v.id .freeze f)                    -- failure only logged
  let p ← nextEvents v.info.populated             -- fresh read of cgroup.events (not the tick's cached flag)
  match p with
  | none => pure none
  | some false => pure (some 0)
  | some true => do
    let k ← nextWrite
    emit (.write v.id .kill k)
    if k < 0 then pure none else finishKill cfg v (kernelCount v)

/-- `tryToKillCgroup`; `none` = `SYSTEM_ERROR` -/
def tryToKillCgroup (cfg : KillCfg) (v : View) (attempt : Nat) : M (Option Nat) :=
  if cfg.dry then pure (some 1)                       -- `return true` before any effect
  else do
    reportUuid v.id attempt
    reportOoms v.id
    if cfg.kernelKill then kernelBranch cfg v else signalBranch cfg v

/-- `if (!dry_) incrementStat(kKillsKey, 1); OOMD_KMSG_LOG(...)` -/
def logKill (cfg : KillCfg) (v : View) : M Unit :=
  if cfg.dry then emit (.kmsg v.id true)
  else do
    emit .statKills
    emit (.kmsg v.id false)

/-- `tryToLogAndKillCgroup`: true iff at least one process was signalled (or, dry, a victim was selected) -/
def tryToLogAndKill (cfg : KillCfg) (v : View) (attempt : Nat) : M Bool := do
  let r ← tryToKillCgroup cfg v attempt
  if r.getD 0 > 0 then do
    logKill cfg v
    pure true
  else pure false

/-! ## victim selection -/

def mayRecurse (cfg : KillCfg) (v : View) : Bool := cfg.recursive && !(v.info.oomGroup.getD false)

/-- candidate is descended into (its ranked children replace it on the stack) -/
def descends (cfg : KillCfg) (v : View) : Bool := mayRecurse cfg v && !v.children.isEmpty

/-- `resumeTryingToKillSomething` without hooks. Stack top = head of the list; `k` numbers the attempts.
    The first argument is fuel (the caller passes more than the number of nodes on the stack). -/
def loop (cfg : KillCfg) (rank : List View → List View) : Nat → List View → Nat → M Bool
  | 0, _, _ => pure false
  | _, [], _ => pure false
  | n + 1, v :: stack, k =>
    if descends cfg v then loop cfg rank n (rank v.children ++ stack) k     -- pushed reversed ⇒ best on top
    else if !(v.info.populated.getD true) then loop cfg rank n stack k      -- empty cgroup skipped
    else do
      let ok ← tryToLogAndKill cfg v k
      if ok then pure true else loop cfg rank n stack (k + 1)

/-- `BaseKillPlugin::run` (no hook pending): `tryToKillSomething` then the mapping to `PluginRet` -/
def runKill (cfg : KillCfg) (rank : List View → List View) (roots : List View) : M Ret := do
  let st := rank roots
  let ok ← loop cfg rank (fsize st + 1) st 0
  if !ok || cfg.alwaysContinue then pure .cont
  else do
    match cfg.hasRuleset, cfg.postActionDelay with
    | true, some d => emit (.pause d)
    | _, _ => pure ()
    pure .stop

/-- `KillPgScan::run`: the kill runs only when pgscan data was collected on the previous tick.
    State = tick at which data was last collected. Returns the new state and whether `Base::run` runs. -/
def pgScanGate (last : Option Nat) (tick : Nat) : Option Nat × Bool :=
  (some tick, match last with | some l => l + 1 == tick | none => false)

/-! ## `systemd_restart` -/

structure RestartCfg where
  dry : Bool
  /-- `post_action_delay` in seconds (default: `Generated.restartDefPostActionDelay`) -/
  delay : Nat := Generated.restartDefPostActionDelay
deriving Repr

/-- `SystemdRestart::run` (with fix C04-restart-dry-counter: the counter only moves for a real restart).
    `dbusRc` is the outcome of the D-Bus call. -/
def runRestart (cfg : RestartCfg) (dbusRc : Nat) : List Ev × Ret :=
  if cfg.dry then ([.kmsgRestart true], .stop)
  else if dbusRc = 0 then ([.dbus true dbusRc, .kmsgRestart false, .statRestarts], .stop)
  else ([.dbus true dbusRc], .cont)

/-- seconds `SystemdRestart::run` sleeps before it returns: `post_action_delay` after a restart (real or dry) - this plugin
    holds its ruleset off by blocking, not through `pause_actions` - and nothing after a failed one -/
def restartSleep (cfg : RestartCfg) (dbusRc : Nat) : Nat :=
  if cfg.dry || dbusRc = 0 then cfg.delay else 0

end OomdModel.Kill

/-!
# Model of the `senpai` plugin (src/oomd/plugins/Senpai.{h,cpp})

Written from the C++ function by function; the name of the C++ function is given with each
definition.  **This is the code with `fixes/C18-validate-swap.patch` and
`fixes/C18-pressure-ms-positive.patch` applied**: `validateSwap` returns `util < swap_threshold_`
(the comparison of the unpatched tree, `>=`, is kept separately as `validateSwapUnfixed` so that the
defect can be stated: `C18.unfixed_validateSwap_inverted`), and `init` rejects `pressure_ms <= 0`
(`initOk`; unpatched, `pressure_ms = 0` divides by zero in `tick`), so the divisions of
`backoffFactor` / `probeFactor` are by non-zero numbers in every configuration that runs.

What the plugin reads in one tick from one cgroup is a `View` (every accessor of `CgroupContext`
may be unavailable = `none`); what it writes is a list of `Ev` (libc-boundary writes, in order).
The arithmetic the C++ does in `double` is written once over the class `Num`; integer arithmetic
(`int64_t`) is `Int` (no wrap: `C18.floor_in_int64`/`C18.ceil_in_int64` show that the sums stay inside `int64_t`
for statistics below 2^60).

Not modelled (not observable at the write boundary): log lines, `probe_count` / `probe_bytes`,
`log_ticks_`.  `writeMemhighTimeout` = `writeMemhigh` (a write to the simulated cgroupfs never
blocks).  The unreachable `if (!id_opt) continue;` of `run` is omitted (`fstat` on a held fd).
-/

namespace OomdModel.Senpai

/-! ## numbers -/

/-- the operations the code performs on `double`s (no laws assumed: every theorem that is stated
for an arbitrary instance therefore holds for IEEE doubles as well as for exact rationals) -/
class Num (α : Type) where
  ofInt : Int → α            -- (double) of an int64_t / int
  toInt : α → Int            -- conversion double → int64_t / int (truncation)
  add : α → α → α
  sub : α → α → α
  mul : α → α → α
  div : α → α → α
  neg : α → α
  lt : α → α → Bool
  le : α → α → Bool

/-- `std::min(a, b)` : `(b < a) ? b : a` -/
def minC [Num α] (a b : α) : α := if Num.lt b a then b else a
/-- `std::max(a, b)` : `(a < b) ? b : a` -/
def maxC [Num α] (a b : α) : α := if Num.lt a b then b else a

/-- exact arithmetic: what the theorems about magnitudes are stated for -/
instance : Num Rat where
  ofInt i := (i : Rat)
  toInt x := if 0 ≤ x then x.floor else x.ceil
  add := (· + ·)
  sub := (· - ·)
  mul := (· * ·)
  div := (· / ·)
  neg x := -x
  lt a b := decide (a < b)
  le a b := decide (a ≤ b)

def two63 : Float := 9223372036854775808.0

/-- IEEE double, what the driver executes (compared bit for bit with the C++).  An out-of-range or
NaN conversion is undefined in C++; x86-64 `cvttsd2si` yields INT64_MIN, which is what is mirrored. -/
instance : Num Float where
  ofInt i := Float.ofInt i
  toInt x := if x.isNaN || x >= two63 || x < -two63 then -9223372036854775808 else x.toInt64.toInt
  add := (· + ·)
  sub := (· - ·)
  mul := (· * ·)
  div := (· / ·)
  neg x := -x
  lt a b := a < b
  le a b := a ≤ b

def int64Max : Int := 9223372036854775807

/-- `x &= ~0xFFF` on a two's complement `int64_t` -/
def alignDown (x : Int) : Int := x - x % 4096

/-! ## configuration, environment, state, events -/

/-- plugin arguments after `init` (Senpai.h:103-127) and `host_mem_total_` -/
structure Cfg (α : Type) where
  limitMinBytes : Int
  limitMaxBytes : Int
  interval : Int
  pressureMs : Int
  memPressurePct : α
  ioPressurePct : α
  maxProbe : α
  maxBackoff : α
  coeffProbe : α
  coeffBackoff : α
  swapThreshold : α
  swapoutBpsThreshold : Int
  swapValidation : Bool
  immediateBackoff : Bool
  modulateSwappiness : Bool
  hostMemTotal : Int

/-- `SystemContext` as set by `Oomd::updateContext` -/
structure Sys (α : Type) where
  swaptotal : Int
  swapused : Int
  swappiness : Int
  swapoutBps60 : α
  swapoutBps300 : α

/-- one `some` line of a PSI file: avg10, avg60 (converted `float` → `double`), total in µs -/
structure Psi (α : Type) where
  avg10 : α
  avg60 : α
  total : Int

/-- the keys of memory.stat that `getReclaimableBytes` looks at (`none` = the key is missing) -/
structure MemStat where
  activeFile : Option Int
  inactiveFile : Option Int
  activeAnon : Option Int
  inactiveAnon : Option Int

/-- what the accessors of one `CgroupContext` return during one tick (`none` = unavailable) -/
structure View (α : Type) where
  id : Nat                                 -- CgroupContext::id() = inode of the directory
  current : Option Int                     -- current_usage()
  memStat : Option MemStat                 -- memory_stat()
  memMin : Option Int
  memHigh : Option Int
  memHighTmp : Option Int
  memMax : Option Int
  effSwapFree : Option Int                 -- effective_swap_free()
  effSwapMax : Option Int                  -- effective_swap_max()
  effSwapUtil : Option α                   -- effective_swap_util_pct()
  memSome : Option (Psi α)                 -- memory.pressure, `some` line
  ioSome : Option (Psi α)                  -- io.pressure, `some` line
  ctrlMemory : Bool                        -- cgroup.controllers readable and lists "memory"
  highFile : Bool                          -- memory.high can be opened for writing
  highTmpFile : Bool                       -- memory.high.tmp can be opened for writing
  reclaimFile : Bool                       -- memory.reclaim exists (can be opened for writing)

/-- `CgroupState` (Senpai.h:51-68) without the logging counters -/
structure CgState where
  limit : Int
  lastTotal : Int
  cumulative : Int
  ticks : Int
deriving DecidableEq, Repr

/-- sticky feature detection (Senpai.h:97-98) -/
structure Flags where
  reclaim : Option Bool := none
  highTmp : Option Bool := none
deriving DecidableEq, Repr

/-- plugin state that survives a tick -/
structure PState where
  fl : Flags := {}
  tracked : List (Nat × CgState) := []      -- `tracked_cgroups_` (std::map: increasing id)
deriving DecidableEq, Repr

/-- why a limit is written (not visible at the boundary; erased before comparing traces) -/
inductive Why | start | adjust | poke | reset
deriving DecidableEq, Repr

/-- one `write(2)` reaching a control file -/
inductive Ev
  | high (cg : Nat) (tmp : Bool) (val : Int) (why : Why)   -- memory.high / memory.high.tmp of cgroup `cg`
  | reclaim (cg : Nat) (size : Int)                        -- memory.reclaim of cgroup `cg`
  | swappiness (val : Int)                                 -- /proc/sys/vm/swappiness
deriving DecidableEq, Repr

/-- `Senpai::init` after argument parsing: 0 = plugin constructed (Senpai.cpp:67-87) -/
def initOk (pressureMs : Int) (meminfoReadable : Bool) : Bool := decide (0 < pressureMs) && meminfoReadable

/-! ## values Senpai reads that `CgroupContext` derives up the hierarchy (CgroupContext.cpp:265-374) -/

structure SwapNode where
  swapMax : Option Int
  swapUsage : Option Int

/-- `getEffectiveSwapMax`; the chain lists the cgroup first, then its ancestors below the root -/
def effSwapMax (swaptotal : Int) : List SwapNode → Option Int
  | [] => some swaptotal
  | n :: up =>
    match effSwapMax swaptotal up with
    | none => none
    | some p => match n.swapMax with
      | none => none
      | some m => some (min p m)

/-- `getEffectiveSwapFree` -/
def effSwapFree (swaptotal swapused : Int) : List SwapNode → Option Int
  | [] => some (swaptotal - swapused)
  | n :: up =>
    match n.swapMax with
    | none => none
    | some m => match n.swapUsage with
      | none => none
      | some u => match effSwapFree swaptotal swapused up with
        | none => none
        | some p => some (min p (m - u))

/-- `getEffectiveSwapUtilPct` -/
def effSwapUtil [Num α] (swaptotal swapused : Int) : List SwapNode → Option α
  | [] => if swaptotal = 0 then some (Num.ofInt 0)
          else some (Num.div (Num.ofInt swapused) (Num.ofInt swaptotal))
  | n :: up =>
    match n.swapMax with
    | none => none
    | some m =>
      if m = 0 then some (Num.ofInt 0) else
      match n.swapUsage with
      | none => none
      | some u => match effSwapUtil swaptotal swapused up with
        | none => none
        | some p => some (maxC p (Num.div (Num.ofInt u) (Num.ofInt m)))

/-! ## feature detection and the write primitives -/

/-- result of a write primitive: updated sticky flags, "cgroup still valid", the writes made -/
structure W where
  fl : Flags
  ok : Bool
  evs : List Ev

/-- `Senpai::hasMemoryHighTmp` -/
def hasMemoryHighTmp (fl : Flags) (v : View α) : Flags × Option Bool :=
  match fl.highTmp with
  | some b => (fl, some b)
  | none =>
    if v.memHighTmp.isSome then ({ fl with highTmp := some true }, some true)
    else if v.memHigh.isSome then ({ fl with highTmp := some false }, some false)
    else (fl, none)

/-- `Senpai::hasMemoryReclaim` -/
def hasMemoryReclaim (fl : Flags) (v : View α) : Flags × Option Bool :=
  match fl.reclaim with
  | some b => (fl, some b)
  | none =>
    if v.ctrlMemory then ({ fl with reclaim := some v.reclaimFile }, some v.reclaimFile)
    else (fl, none)

/-- `Senpai::readMemhigh` -/
def readMemhigh (fl : Flags) (v : View α) : Flags × Option Int :=
  match hasMemoryHighTmp fl v with
  | (fl', some true) => (fl', v.memHighTmp)
  | (fl', some false) => (fl', v.memHigh)
  | (fl', none) => (fl', none)

/-- `Senpai::writeMemhigh` (why ≠ reset) and `Senpai::resetMemhigh` (why = reset, value INT64_MAX).
`Fs::writeMemhighAt` / `writeMemhightmpAt` fail iff the file cannot be opened. -/
def writeMemhigh (fl : Flags) (v : View α) (value : Int) (why : Why) : W :=
  match hasMemoryHighTmp fl v with
  | (fl', none) => ⟨fl', false, []⟩
  | (fl', some true) =>
    if v.highTmpFile then ⟨fl', true, [Ev.high v.id true value why]⟩ else ⟨fl', false, []⟩
  | (fl', some false) =>
    if v.highFile then ⟨fl', true, [Ev.high v.id false value why]⟩ else ⟨fl', false, []⟩

def resetMemhigh (fl : Flags) (v : View α) : W := writeMemhigh fl v int64Max .reset

/-- `Senpai::reclaim` -/
def reclaim (fl : Flags) (v : View α) (size : Int) : W :=
  let hr := hasMemoryReclaim fl v
  if hr.2 = some true then
    if v.reclaimFile then ⟨hr.1, true, [Ev.reclaim v.id size]⟩ else ⟨hr.1, false, []⟩
  else
    match v.current with
    | none => ⟨hr.1, false, []⟩
    | some cur =>
      let w1 := writeMemhigh hr.1 v (cur - size) .poke
      if !w1.ok then w1 else
      let w2 := resetMemhigh w1.fl v
      ⟨w2.fl, w2.ok, w1.evs ++ w2.evs⟩

/-! ## floor and ceiling -/

/-- `Senpai::getReclaimableBytes` : file cache + swappable anon -/
def getReclaimableBytes (sys : Sys α) (v : View α) : Option Int :=
  match v.memStat with
  | none => none
  | some s =>
    match s.activeFile, s.inactiveFile with
    | some af, some inf =>
    let fileCache := af + inf
    if sys.swaptotal > 0 ∧ sys.swappiness > 0 then
      match v.effSwapFree with
      | none => none
      | some free =>
        if free > 0 then
          match s.activeAnon, s.inactiveAnon with
          | some a, some i => some (fileCache + min free (a + i))
          | _, _ => none
        else some fileCache
    else some fileCache
    | _, _ => none                       -- SYSTEM_ERROR(EINVAL) (fix 0271fcf: no longer throws)

/-- `Senpai::getLimitMinBytes` : unreclaimable + limit_min_bytes, at least memory.min -/
def getLimitMinBytes (cfg : Cfg α) (sys : Sys α) (v : View α) : Option Int :=
  match v.current with
  | none => none
  | some cur => match getReclaimableBytes sys v with
    | none => none
    | some recl => match v.memMin with
      | none => none
      | some mmin => some (max (cfg.limitMinBytes + (cur - recl)) mmin)

/-- `Senpai::getLimitMaxBytes` -/
def getLimitMaxBytes (cfg : Cfg α) (fl : Flags) (v : View α) : Flags × Option Int :=
  match v.current with
  | none => (fl, none)
  | some cur =>
    let lim := min cfg.hostMemTotal (cfg.limitMaxBytes + cur)
    match hasMemoryHighTmp fl v with
    | (fl', none) => (fl', none)
    | (fl', some tmp) =>
      let lim' : Option Int := if tmp then (match v.memHigh with | none => none | some h => some (min lim h)) else some lim
      match lim' with
      | none => (fl', none)
      | some l => match v.memMax with
        | none => (fl', none)
        | some mx => (fl', some (min l mx))

/-! ## per-cgroup steps -/

/-- result of processing one resolved cgroup: flags, new state (`none` = not / no longer tracked), writes -/
structure R where
  fl : Flags
  st : Option CgState
  evs : List Ev

/-- `getPressureTotalSome` -/
def pressureTotal (v : View α) : Option Int := v.memSome.map (·.total)

/-- `Senpai::initializeCgroup` -/
def initializeCgroup (cfg : Cfg α) (fl : Flags) (v : View α) : R :=
  if cfg.immediateBackoff then
    match pressureTotal v with
    | none => ⟨fl, none, []⟩
    | some t => ⟨fl, some { limit := 0, lastTotal := t, cumulative := 0, ticks := cfg.interval }, []⟩
  else
    match v.current with
    | none => ⟨fl, none, []⟩
    | some cur =>
      let w := writeMemhigh fl v cur .start
      if !w.ok then ⟨w.fl, none, w.evs⟩ else
      match pressureTotal v with
      | none => ⟨w.fl, none, w.evs⟩
      | some t => ⟨w.fl, some { limit := cur, lastTotal := t, cumulative := 0, ticks := cfg.interval }, w.evs⟩

/-- the value `state.limit += state.limit * factor` leaves in `state.limit` -/
def scaled [Num α] (limit : Int) (factor : α) : Int :=
  Num.toInt (Num.add (Num.ofInt limit) (Num.mul (Num.ofInt limit) factor))

/-- the lambda `adjust` inside `Senpai::tick` -/
def adjust [Num α] (cfg : Cfg α) (sys : Sys α) (fl : Flags) (v : View α) (st : CgState) (factor : α) : R :=
  match getLimitMinBytes cfg sys v with
  | none => ⟨fl, none, []⟩
  | some lo =>
    match getLimitMaxBytes cfg fl v with
    | (fl1, none) => ⟨fl1, none, []⟩
    | (fl1, some hi) =>
      let limit := alignDown (max lo (min hi (scaled st.limit factor)))
      let w := writeMemhigh fl1 v limit .adjust
      ⟨w.fl, if w.ok then some { st with limit := limit, ticks := cfg.interval, cumulative := 0 } else none, w.evs⟩

/-- back-off factor (Senpai.cpp:511-514); `cumulative / pressure_ms_` is an integer division of µs counts -/
def backoffFactor [Num α] (cfg : Cfg α) (cumulative : Int) : α :=
  let error : α := Num.ofInt (Int.tdiv cumulative (cfg.pressureMs * 1000))
  let f := Num.div error cfg.coeffBackoff
  let f := Num.mul f f
  minC (Num.mul f cfg.maxBackoff) cfg.maxBackoff

/-- probe factor (Senpai.cpp:533-538) -/
def probeFactor [Num α] (cfg : Cfg α) (cumulative : Int) : α :=
  let error : α := Num.ofInt (Int.tdiv (cfg.pressureMs * 1000) (max cumulative 1))
  let f := Num.div error cfg.coeffProbe
  let f := Num.mul f f
  Num.neg (minC (Num.mul f cfg.maxProbe) cfg.maxProbe)

/-- `Senpai::tick` -/
def tick [Num α] (cfg : Cfg α) (sys : Sys α) (fl : Flags) (v : View α) (st : CgState) : R :=
  match readMemhigh fl v with
  | (fl1, none) => ⟨fl1, none, []⟩
  | (fl1, some limit) =>
    if limit ≠ st.limit then initializeCgroup cfg fl1 v else
    match pressureTotal v with
    | none => ⟨fl1, none, []⟩
    | some total =>
      let cumulative := st.cumulative + (total - st.lastTotal)
      let st1 := { st with lastTotal := total, cumulative := cumulative }
      if cumulative ≥ cfg.pressureMs * 1000 then
        adjust cfg sys fl1 v st1 (backoffFactor cfg cumulative)
      else if st1.ticks ≠ 0 then ⟨fl1, some { st1 with ticks := st1.ticks - 1 }, []⟩
      else adjust cfg sys fl1 v st1 (probeFactor cfg cumulative)

/-- `Senpai::validatePressure` -/
def validatePressure [Num α] (cfg : Cfg α) (v : View α) : Option Bool :=
  match v.memSome with
  | none => none
  | some m => match v.ioSome with
    | none => none
    | some io => some (Num.lt (maxC m.avg10 m.avg60) cfg.memPressurePct &&
                       Num.lt (maxC io.avg10 io.avg60) cfg.ioPressurePct)

/-- `Senpai::validateSwap` with fixes/C18-validate-swap.patch (`<`) -/
def validateSwap [Num α] (cfg : Cfg α) (sys : Sys α) (v : View α) : Option Bool :=
  if sys.swaptotal = 0 ∨ sys.swappiness = 0 then some true else
  match v.effSwapMax with
  | none => none
  | some m =>
    if m = 0 then some true else
    match v.effSwapUtil with
    | none => none
    | some u => some (Num.lt u cfg.swapThreshold)

/-- `Senpai::validateSwap` of the unpatched tree (Senpai.cpp:682: `>=`) -/
def validateSwapUnfixed [Num α] (cfg : Cfg α) (sys : Sys α) (v : View α) : Option Bool :=
  if sys.swaptotal = 0 ∨ sys.swappiness = 0 then some true else
  match v.effSwapMax with
  | none => none
  | some m =>
    if m = 0 then some true else
    match v.effSwapUtil with
    | none => none
    | some u => some (Num.le cfg.swapThreshold u)

/-- `Senpai::calculateSwappinessFactor` -/
def calculateSwappinessFactor [Num α] (cfg : Cfg α) (sys : Sys α) (v : View α) : Option α :=
  if Num.le cfg.swapThreshold (Num.ofInt 0) then some (Num.ofInt 0) else
  let bps := maxC sys.swapoutBps60 sys.swapoutBps300
  if Num.le (Num.ofInt cfg.swapoutBpsThreshold) bps then some (Num.ofInt 0) else
  let byRate : α := Num.sub (Num.ofInt 1) (Num.div bps (Num.ofInt cfg.swapoutBpsThreshold))
  match v.effSwapUtil with
  | none => none
  | some u =>
    if Num.le cfg.swapThreshold u then some (Num.ofInt 0) else
    let bySize : α := Num.sub (Num.ofInt 1) (Num.div u cfg.swapThreshold)
    some (minC byRate bySize)

/-- `reclaim_size` (Senpai.cpp:601-603) -/
def reclaimSize [Num α] (cfg : Cfg α) (cur lo : Int) : Int :=
  alignDown (Num.toInt (Num.mul (Num.ofInt (cur - lo)) cfg.maxProbe))

/-- `Senpai::tick_immediate_backoff` -/
def tickImmediate [Num α] (cfg : Cfg α) (sys : Sys α) (fl : Flags) (v : View α) (st : CgState) : R :=
  if st.ticks ≠ 0 then ⟨fl, some { st with ticks := st.ticks - 1 }, []⟩ else
  match validatePressure cfg v with
  | none => ⟨fl, none, []⟩
  | some vp =>
    let vs : Option Bool := if cfg.swapValidation then validateSwap cfg sys v else some true
    match vs with
    | none => ⟨fl, none, []⟩
    | some vsw =>
      if !(vp && vsw) then ⟨fl, some st, []⟩ else
      match getLimitMinBytes cfg sys v with
      | none => ⟨fl, none, []⟩
      | some lo => match v.current with
        | none => ⟨fl, none, []⟩
        | some cur =>
          if ¬ cur > lo then ⟨fl, some st, []⟩ else
          if cfg.modulateSwappiness then
            match calculateSwappinessFactor cfg sys v with
            | none => ⟨fl, none, []⟩
            | some f =>
              let w := reclaim fl v (reclaimSize cfg cur lo)
              ⟨w.fl, if w.ok then some { st with ticks := cfg.interval } else none,
               Ev.swappiness (Num.toInt (Num.mul (Num.ofInt sys.swappiness) f)) :: w.evs
                 ++ [Ev.swappiness sys.swappiness]⟩
          else
            let w := reclaim fl v (reclaimSize cfg cur lo)
            ⟨w.fl, if w.ok then some { st with ticks := cfg.interval } else none, w.evs⟩

/-- what `run` does with a resolved cgroup whose id is tracked -/
def tickAny [Num α] (cfg : Cfg α) (sys : Sys α) (fl : Flags) (v : View α) (st : CgState) : R :=
  if cfg.immediateBackoff then tickImmediate cfg sys fl v st else tick cfg sys fl v st

/-! ## `Senpai::run` : the merge walk over resolved (by id) and tracked cgroups -/

structure WalkOut where
  fl : Flags
  tracked : List (Nat × CgState)
  evs : List Ev

def keep (id : Nat) (s : Option CgState) : List (Nat × CgState) :=
  match s with
  | some s => [(id, s)]
  | none => []

/-- the `while` loop of `Senpai::run` (Senpai.cpp:100-139).  `resolved` is in increasing id order,
`tracked` is the part of the map from `trackedIt` on; the result lists the entries that stay. -/
def walk [Num α] (cfg : Cfg α) (sys : Sys α) (fl : Flags) :
    List (View α) → List (Nat × CgState) → WalkOut
  | [], _ => ⟨fl, [], []⟩                                   -- erase(trackedIt, end)
  | v :: rs, [] =>
    let r := initializeCgroup cfg fl v
    let o := walk cfg sys r.fl rs []
    ⟨o.fl, keep v.id r.st ++ o.tracked, r.evs ++ o.evs⟩
  | v :: rs, t :: tr =>
    if v.id < t.1 then
      let r := initializeCgroup cfg fl v
      let o := walk cfg sys r.fl rs (t :: tr)
      ⟨o.fl, keep v.id r.st ++ o.tracked, r.evs ++ o.evs⟩
    else if v.id > t.1 then
      walk cfg sys fl (v :: rs) tr                          -- erase(trackedIt)
    else
      let r := tickAny cfg sys fl v t.2
      let o := walk cfg sys r.fl rs tr
      ⟨o.fl, keep v.id r.st ++ o.tracked, r.evs ++ o.evs⟩
termination_by rs tr => rs.length + tr.length

/-- one tick's input: the system context and the cgroups the `cgroup` argument resolves to
(any order – `ctx.reverseSort` orders them by id) -/
structure TickIn (α : Type) where
  sys : Sys α
  resolved : List (View α)

def sortById (l : List (View α)) : List (View α) := l.mergeSort (fun a b => decide (a.id ≤ b.id))

/-- `Senpai::run` -/
def runTick [Num α] (cfg : Cfg α) (st : PState) (t : TickIn α) : PState × List Ev :=
  let o := walk cfg t.sys st.fl (sortById t.resolved) st.tracked
  ({ fl := o.fl, tracked := o.tracked }, o.evs)

/-- a history of ticks: the writes of each tick -/
def runHist [Num α] (cfg : Cfg α) : PState → List (TickIn α) → List (List Ev)
  | _, [] => []
  | st, t :: rest => (runTick cfg st t).2 :: runHist cfg (runTick cfg st t).1 rest

end OomdModel.Senpai

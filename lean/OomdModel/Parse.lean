import OomdModel.Path
import OomdModel.Generated.ArgSchemas

/-!
# Model of the string-level parsers behind a configuration (C12)

* `std::stoi / stoll / stoull / stof / stod / stold` (libstdc++ on top of glibc `strto*`):
  accepted prefix language, value, `invalid_argument` / `out_of_range`.  Trusted, validated on
  every run against the real libc by engine `h_parse` (fields `si sl su sf sd sL`).
* `Util::parseSize`, `Util::parseSizeOrPercent` (src/oomd/util/Util.cpp)
* `PluginArgParser::parseUnsignedInt`, `parseValue<T>`, `parseCgroup`
  (src/oomd/util/PluginArgParser.cpp) and the custom parsers plugins attach to arguments.

The model is of the code WITH the fixes proposed in /verif/fixes/C12-*.patch:
`C12-parsesize` (empty / non-finite / ≥ 2^63 rejected, `long double`, per-term truncation),
`C12-sizeorpercent` (whole-number percent, megabyte range), `C12-argvalue-whole` (whole string must
be consumed, `int64` through `stoll`), `C12-percentile-whole`.

Arithmetic the code does in `long double` is modelled exactly (a decimal / hexadecimal literal is
`mant * base ^ exp`); the driver reports how many inputs fall outside the domain where the two are
guaranteed to agree (more than 64 significant bits in `mant * unit`).

`namespace Spec` at the end is the independent specification: what a string *means*, written as a
grammar over the whole string, not as a scanner.
-/

namespace OomdModel.Parse
open OomdModel.Generated (ArgKind)

abbrev Str := List Char

/-! ## character classes ("C" locale) -/

def isSpace (c : Char) : Bool :=
  c == ' ' || c == '\t' || c == '\n' || c == '\x0b' || c == '\x0c' || c == '\r'

def isHexDigit (c : Char) : Bool :=
  c.isDigit || ('a' ≤ c && c ≤ 'f') || ('A' ≤ c && c ≤ 'F')

def isAlnumU (c : Char) : Bool := c.isAlphanum || c == '_'

def digitVal (c : Char) : Nat := c.toNat - 48

def hexVal (c : Char) : Nat :=
  if c.isDigit then c.toNat - 48 else if 'a' ≤ c && c ≤ 'f' then c.toNat - 87 else c.toNat - 55

def natOfDigits (ds : Str) : Nat := ds.foldl (fun a c => a * 10 + digitVal c) 0
def natOfHex (ds : Str) : Nat := ds.foldl (fun a c => a * 16 + hexVal c) 0

/-! ## `strtol` family (base 10, as `std::stoi(str, &pos)` calls it) -/

inductive StoErr where
  | invalidArgument
  | outOfRange
deriving DecidableEq, Repr

def takeSign : Str → Bool × Str
  | '-' :: t => (true, t)
  | '+' :: t => (false, t)
  | s => (false, s)

structure IntScan where
  neg : Bool
  mag : Nat
  rest : Str

def IntScan.val (r : IntScan) : Int := if r.neg then -(r.mag : Int) else (r.mag : Int)

/-- leading white space, optional sign, one or more decimal digits; `rest` is what follows -/
def scanInt (s : Str) : Option IntScan :=
  let st := takeSign (s.dropWhile isSpace)
  let ds := st.2.takeWhile Char.isDigit
  if ds.isEmpty then none else some ⟨st.1, natOfDigits ds, st.2.dropWhile Char.isDigit⟩

/-- `std::stoi` (`bits = 32`), `std::stol/stoll` (`bits = 64`): value and unconsumed rest -/
def stoSigned (bits : Nat) (s : Str) : Except StoErr (Int × Str) :=
  match scanInt s with
  | none => .error .invalidArgument
  | some r =>
    if r.val < -((2 : Int) ^ (bits - 1)) ∨ r.val ≥ (2 : Int) ^ (bits - 1) then .error .outOfRange else .ok (r.val, r.rest)

def stoi := stoSigned 32
def stoll := stoSigned 64

/-- `std::stoull`: a minus sign is accepted and the magnitude negated modulo 2^64 -/
def stoull (s : Str) : Except StoErr (Nat × Str) :=
  match scanInt s with
  | none => .error .invalidArgument
  | some r =>
    if r.mag ≥ 2 ^ 64 then .error .outOfRange
    else .ok ((if r.neg then (2 ^ 64 - r.mag) % 2 ^ 64 else r.mag), r.rest)

/-! ## `strtod` family -/

/-- the exact value of a literal: `(-1)^neg * mant * base ^ exp` (`base` is 10 or 2) -/
inductive FVal where
  | fin (neg : Bool) (mant : Nat) (base : Nat) (exp : Int)
  | inf (neg : Bool)
  | nan
deriving DecidableEq, Repr

/-- digits [ '.' digits ], at least one digit in total: (integer digits, fraction digits, rest) -/
def scanMant (isD : Char → Bool) (s : Str) : Option (Str × Str × Str) :=
  let ip := s.takeWhile isD
  match s.dropWhile isD with
  | '.' :: r2 =>
    let fp := r2.takeWhile isD
    if ip.isEmpty && fp.isEmpty then none else some (ip, fp, r2.dropWhile isD)
  | r1 => if ip.isEmpty then none else some (ip, [], r1)

/-- optional exponent `<marker>[+-]digits`; consumed only when at least one digit follows -/
def scanExp (lo up : Char) (s : Str) : Int × Str :=
  match s with
  | m :: t =>
    if m == lo || m == up then
      let st := takeSign t
      let ds := st.2.takeWhile Char.isDigit
      if ds.isEmpty then (0, s)
      else ((if st.1 then -(natOfDigits ds : Int) else (natOfDigits ds : Int)), st.2.dropWhile Char.isDigit)
    else (0, s)
  | [] => (0, s)

def ciPrefix (pat s : Str) : Bool := (s.take pat.length).map Char.toLower == pat

/-- after "nan": an optional `(n-char-sequence)` is consumed only when it is closed -/
def scanNanTail (r : Str) : Str :=
  match r with
  | '(' :: t =>
    match t.dropWhile isAlnumU with
    | ')' :: u => u
    | _ => r
  | _ => r

/-- what follows a `0x` / `0X` prefix -/
def hexBody? : Str → Option Str
  | c :: x :: t => if c == '0' && (x == 'x' || x == 'X') then some t else none
  | _ => none

/-- glibc `strtod` (also `strtof`, `strtold`): value of the longest valid prefix and the rest -/
def scanFloat (s : Str) : Option (FVal × Str) :=
  let st := takeSign (s.dropWhile isSpace)
  let neg := st.1
  let b := st.2
  if ciPrefix "infinity".toList b then some (.inf neg, b.drop 8)
  else if ciPrefix "inf".toList b then some (.inf neg, b.drop 3)
  else if ciPrefix "nan".toList b then some (.nan, scanNanTail (b.drop 3))
  else
    let dec : Option (FVal × Str) :=
      match scanMant Char.isDigit b with
      | none => none
      | some (ip, fp, r) =>
        let ex := scanExp 'e' 'E' r
        some (.fin neg (natOfDigits (ip ++ fp)) 10 (ex.1 - fp.length), ex.2)
    match hexBody? b with
    | some t =>
      match scanMant isHexDigit t with
      | some (ip, fp, r) =>
        let ex := scanExp 'p' 'P' r
        some (.fin neg (natOfHex (ip ++ fp)) 2 (ex.1 - 4 * fp.length), ex.2)
      | none => dec                       -- "0x" without hex digits: the "0" is a decimal literal
    | none => dec

/-! ## round-to-nearest-even to a binary format

What the hardware stores for an in-range literal.  Used only to compare a stored `float` /
`double` / `long double` of the implementation with the exact literal (driver); no theorem
depends on it. -/

def stripTwos : Nat → Nat → Int → Nat × Int
  | 0, q, k => (q, k)
  | fuel + 1, q, k => if q != 0 && q % 2 == 0 then stripTwos fuel (q / 2) (k + 1) else (q, k)

/-- nearest `prec`-bit value to `n / d` (`n, d > 0`) as `(q, k)`: `q * 2 ^ k`, `q` odd -/
def roundRat (prec n d : Nat) : Nat × Int :=
  let k0 : Int := (Nat.log2 n : Int) - (Nat.log2 d : Int)
  let scaled (k : Int) : Nat × Nat :=
    let s : Int := (prec : Int) - 1 - k
    if s ≥ 0 then (n * 2 ^ s.toNat, d) else (n, d * 2 ^ (-s).toNat)
  let k : Int := if (scaled k0).1 / (scaled k0).2 < 2 ^ (prec - 1) then k0 - 1 else k0
  let nd := scaled k
  let q0 := nd.1 / nd.2
  let rem := nd.1 % nd.2
  let q := if 2 * rem > nd.2 || (2 * rem == nd.2 && q0 % 2 == 1) then q0 + 1 else q0
  stripTwos (prec + 1) q (k - (prec : Int) + 1)

/-- the stored value of the literal `mant * base ^ exp` (assumed in the normal range of the format) -/
def roundLit (prec mant base : Nat) (exp : Int) : Nat × Int :=
  if mant == 0 then (0, 0)
  else if exp ≥ 0 then roundRat prec (mant * base ^ exp.toNat) 1
  else roundRat prec mant (base ^ (-exp).toNat)

/-- binary interchange format: `prec` significand bits, finite values are `< 2 ^ emax`,
    normal values are `≥ 2 ^ (2 - emax)` -/
structure Fmt where
  prec : Nat
  emax : Nat

def binary32 : Fmt := ⟨24, 128⟩
def binary64 : Fmt := ⟨53, 1024⟩
def x87ext : Fmt := ⟨64, 16384⟩

inductive RangeCls where
  | ok | overflow | underflow
deriving DecidableEq, Repr

/-- `ERANGE` of glibc for `mant * base ^ exp`: the value rounds to infinity (overflow), or the
    result, rounded to `prec` bits, is below the smallest normal number and not exact (underflow;
    tininess is detected after rounding).  Magnitudes are first bounded through bit lengths so that
    no needless power is computed. -/
def classify (f : Fmt) (mant base : Nat) (exp : Int) : RangeCls :=
  if mant == 0 then .ok else
  let L : Int := (Nat.log2 mant : Int)
  let lo : Int := L + (if base == 2 then exp else if exp ≥ 0 then 3 * exp else 4 * exp)
  let hi : Int := L + 1 + (if base == 2 then exp else if exp ≥ 0 then 4 * exp else 3 * exp)
  if lo ≥ (f.emax : Int) then .overflow
  else if hi ≤ 1 - (f.emax : Int) - (f.prec : Int) then .underflow
  else
    let n := if exp ≥ 0 then mant * base ^ exp.toNat else mant
    let d := if exp ≥ 0 then 1 else base ^ (-exp).toNat
    if n ≥ d * (2 ^ f.emax - 2 ^ (f.emax - f.prec - 1)) then .overflow
    else
      let r := roundRat f.prec n d
      let t : Int := 2 - (f.emax : Int) - r.2
      let tiny := t > 0 && r.1 < 2 ^ t.toNat
      if tiny && (n * 2 ^ (f.emax + f.prec - 3)) % d != 0 then .underflow else .ok

/-- `std::stof / stod / stold`: `(value, rest)`; the value is the exact literal, rounding to the
    format happens in hardware and is checked by the driver, not modelled -/
def stoFloat (f : Fmt) (s : Str) : Except StoErr (FVal × Str) :=
  match scanFloat s with
  | none => .error .invalidArgument
  | some (.fin neg m b e, rest) =>
    match classify f m b e with
    | .ok => .ok (.fin neg m b e, rest)
    | _ => .error .outOfRange
  | some (v, rest) => .ok (v, rest)

def stof := stoFloat binary32
def stod := stoFloat binary64
def stold := stoFloat x87ext

/-! ## exact arithmetic on literals -/

/-- `⌊ mant * base ^ exp * u ⌋` -/
def exactFloor (m base : Nat) (e : Int) (u : Nat) : Nat :=
  if e ≥ 0 then m * u * base ^ e.toNat else m * u / base ^ (-e).toNat

/-- `exactFloor` when it is `< cap`, else `none` (proved in `OomdProofs.Parse.floorBelow_eq`);
    written so that a power is only computed when its size is bounded by the operands -/
def floorBelow (cap m base : Nat) (e : Int) (u : Nat) : Option Nat :=
  if m * u = 0 then (if 0 < cap then some 0 else none)
  else if e ≥ 0 then
    if e.toNat > Nat.log2 cap + 1 then none
    else
      let f := m * u * base ^ e.toNat
      if f < cap then some f else none
  else
    if (-e).toNat > Nat.log2 (m * u) + 1 then (if 0 < cap then some 0 else none)
    else
      let f := m * u / base ^ (-e).toNat
      if f < cap then some f else none

/-! ## `Util::parseSize` (with C12-parsesize) -/

def isUnitCh (c : Char) : Bool := c == 'k' || c == 'm' || c == 'g' || c == 't'

def unitMult (c : Char) : Nat :=
  if c == 'k' then 2 ^ 10 else if c == 'm' then 2 ^ 20 else if c == 'g' then 2 ^ 30
  else if c == 't' then 2 ^ 40 else 1

/-- the `while (pos < istr.length())` loop; `s` is `istr.substr(pos)`, `size` the running total.
    One iteration: `find_first_of("kmgt", pos)`, `substr`, `stold`, checks, scale, accumulate.
    `fuel` only bounds the recursion (every iteration consumes at least one character). -/
def sizeLoop : Nat → Str → Nat → Option Nat
  | 0, _, _ => none
  | fuel + 1, s, size =>
    if s.isEmpty then some size else
    let num := s.takeWhile (fun c => !isUnitCh c)
    let tail := s.dropWhile (fun c => !isUnitCh c)
    if num.isEmpty then none else            -- unit_pos == pos
    match stold num with
    | .error _ => none                        -- catch (...) { return -1; }
    | .ok (.fin neg m b e, rest) =>
      if !rest.isEmpty then none               -- end_pos != num.length()
      else if neg && m != 0 then none          -- v < 0
      else
        let mult := match tail with | [] => 1 | u :: _ => unitMult u
        -- v >= 2^63 - size  (an integer bound: same as ⌊v⌋ >= 2^63 - size) ; size += (uint64_t) v
        match floorBelow (2 ^ 63 - size) m b e mult with
        | none => none
        | some f => sizeLoop fuel (tail.drop 1) (size + f)
    | .ok (_, _) => none                       -- !std::isfinite(v)  (or end_pos mismatch)

def parseSize (input : Str) : Option Int :=
  let istr := (input.map Char.toLower).filter (fun c => !isSpace c)
  let st := takeSign istr
  if st.2.isEmpty then none                    -- pos >= istr.length()
  else
    match sizeLoop (st.2.length + 1) st.2 0 with
    | none => none
    | some sz => some (if st.1 then -(sz : Int) else (sz : Int))

/-! ## `Util::parseSizeOrPercent` (with C12-sizeorpercent) -/

def wrap64 (v : Int) : Int := (v + 2 ^ 63) % 2 ^ 64 - 2 ^ 63

def parseSizeOrPercent (input : Str) (total : Int) : Option Int :=
  if input.getLast? = some '%' then
    match stoi input.dropLast with
    | .error _ => none                                          -- catch (...)
    | .ok (pct, rest) =>
      if !rest.isEmpty ∨ pct < 0 ∨ pct > 100 then none
      else some (Int.tdiv (wrap64 (total * pct)) 100)
  else
    match stoll input with
    | .error _ => none                                          -- catch (...): parseSize is never tried
    | .ok (v, rest) =>
      if rest.isEmpty then
        (if v > 2 ^ 43 - 1 ∨ v < -(2 ^ 43) then none else some (v * 2 ^ 20))
      else parseSize input

/-! ## `PluginArgParser` value parsers (with C12-argvalue-whole) -/

/-- `parseWhole` of the fix: the whole string must have been consumed -/
def whole {α : Type} (r : Except StoErr (α × Str)) : Except StoErr α :=
  match r with
  | .error e => .error e
  | .ok (v, rest) => if rest.isEmpty then .ok v else .error .invalidArgument

def parseUnsignedInt (s : Str) : Except StoErr Int :=
  match whole (stoi s) with
  | .error e => .error e
  | .ok v => if v < 0 then .error .invalidArgument else .ok v

/-- `PluginArgParser::parseCgroup`: `Util::split(str, ',')`, one `CgroupPath(cgroup_fs, c)` each -/
def parseCgroup (fs s : Str) : List Path.CgPath := (Path.split s ',').map (Path.mk fs)

inductive Val where
  | int (v : Int)
  | flt (v : FVal)
  | bool (b : Bool)
  | str (s : Str)
  | resource (io : Bool)
  | cgroups (l : List Path.CgPath)
deriving DecidableEq, Repr

/-- the parser attached to an argument of the given kind (`parseValue<T>` or the custom lambda);
    every failure is a `std::exception` that `addArgumentCustom`'s wrapper turns into a rejection.
    `fs` is the cgroup fs root of the construction context, `total` the MemTotal / SwapTotal the
    plugin read before registering a `sizepct` argument. -/
def parseArg (k : ArgKind) (fs : Str) (total : Int) (s : Str) : Except StoErr Val :=
  match k with
  | .int => (whole (stoi s)).map Val.int
  | .int64 => (whole (stoll s)).map Val.int
  | .ms => (whole (stoll s)).map Val.int
  | .double => (whole (stod s)).map Val.flt
  | .float => (whole (stof s)).map Val.flt
  | .bool =>
    if s == "true".toList || s == "True".toList || s == "1".toList then .ok (.bool true)
    else if s == "false".toList || s == "False".toList || s == "0".toList then .ok (.bool false)
    else .error .invalidArgument
  | .string => .ok (.str s)
  | .resource =>
    if s == "io".toList then .ok (.resource true)
    else if s == "memory".toList then .ok (.resource false)
    else .error .invalidArgument
  | .cgroup => .ok (.cgroups (parseCgroup fs s))
  | .uint => (parseUnsignedInt s).map Val.int
  | .sizepct =>
    match parseSizeOrPercent s total with
    | some v => .ok (.int v)
    | none => .error .invalidArgument
  | .pct100 =>
    match whole (stoi s) with
    | .error e => .error e
    | .ok v => if v < 0 ∨ v ≥ 100 then .error .invalidArgument else .ok (.int v)
  | .nonempty => if s.isEmpty then .error .invalidArgument else .ok (.str s)
  | .unknown => .error .invalidArgument

/-! # Specification: what a value string means

Written over the whole string as a grammar; no scanning state, no positions. -/
namespace Spec

/-- a string of one or more decimal digits -/
def digits? (s : Str) : Option Nat :=
  if !s.isEmpty && s.all Char.isDigit then some (natOfDigits s) else none

/-- optional sign, then one or more digits -/
def signedDigits? (s : Str) : Option Int :=
  let st := takeSign s
  match digits? st.2 with
  | some n => some (if st.1 then -(n : Int) else (n : Int))
  | none => none

/-- An integer numeral: white space may precede it (`strtol` skips it), nothing may follow. -/
def intNumeral? (s : Str) : Option Int := signedDigits? (s.dropWhile isSpace)

def inRange (lo hi : Int) (v : Option Int) : Option Int :=
  match v with
  | some x => if lo ≤ x ∧ x < hi then some x else none
  | none => none

/-- the part of `s` before the first character satisfying `p`, and what follows that character -/
def cutAt (p : Char → Bool) (s : Str) : Str × Option Str :=
  (s.takeWhile (fun c => !p c), match s.dropWhile (fun c => !p c) with | [] => none | _ :: t => some t)

/-- `digits`, `digits.`, `digits.digits` or `.digits` in the digit class `isD`: only digits and at
    most one point, at least one digit.  Result: all the digits in order, and how many of them
    stand after the point. -/
def pointNumeral? (isD : Char → Bool) (s : Str) : Option (Str × Nat) :=
  if s.all (fun c => isD c || c == '.') && s.count '.' ≤ 1 && s.any isD then
    some (s.filter isD, match (cutAt (· == '.') s).2 with | some f => f.length | none => 0)
  else none

/-- `pointNumeral [ (lo|up) signedDigits ]`: the digits, how many of them are fractional, and the
    exponent written after the marker (0 when there is none) -/
def genLiteral? (isD : Char → Bool) (lo up : Char) (s : Str) : Option (Str × Nat × Int) :=
  let c := cutAt (fun ch => ch == lo || ch == up) s
  match pointNumeral? isD c.1 with
  | none => none
  | some (ds, nfrac) =>
    match c.2 with
    | none => some (ds, nfrac, 0)
    | some ex =>
      match signedDigits? ex with
      | some e => some (ds, nfrac, e)
      | none => none

/-- decimal floating literal as `(mant, exp)`: value `mant * 10 ^ exp` -/
def decLiteral? (s : Str) : Option (Nat × Int) :=
  (genLiteral? Char.isDigit 'e' 'E' s).map fun r => (natOfDigits r.1, r.2.2 - (r.2.1 : Int))

/-- hexadecimal floating literal (what follows `0x`) as `(mant, exp)`: value `mant * 2 ^ exp` -/
def hexLiteral? (s : Str) : Option (Nat × Int) :=
  (genLiteral? isHexDigit 'p' 'P' s).map fun r => (natOfHex r.1, r.2.2 - 4 * (r.2.1 : Int))

/-- `nan` optionally followed by `(letters, digits, underscores)` -/
def isNanWord (s : Str) : Bool :=
  (s.take 3).map Char.toLower == "nan".toList &&
    (s.length == 3 ||
      (s.drop 3).head? == some '(' && s.getLast? == some ')' && s.length ≥ 5 &&
        ((s.drop 4).dropLast).all isAlnumU)

/-- A floating numeral in C notation, the whole string: leading white space, sign, then a decimal
    literal, a hexadecimal literal, or the words inf / infinity / nan. -/
def floatNumeral? (s : Str) : Option FVal :=
  let st := takeSign (s.dropWhile isSpace)
  let b := st.2
  let lower := b.map Char.toLower
  if lower == "inf".toList || lower == "infinity".toList then some (.inf st.1)
  else if isNanWord b then some .nan
  else
    match hexBody? b with
    | some t => (hexLiteral? t).map (fun r => FVal.fin st.1 r.1 2 r.2)
    | none => (decLiteral? b).map (fun r => FVal.fin st.1 r.1 10 r.2)

/-- a floating numeral that the binary format can hold (finite ones: not rounding to infinity and
    not below the smallest normal number) -/
def floatIn (f : Fmt) (s : Str) : Option FVal :=
  match floatNumeral? s with
  | some (.fin neg m b e) => if classify f m b e = .ok then some (.fin neg m b e) else none
  | r => r

/-! ### sizes -/

/-- pieces of `s`, each ending just after a character satisfying `p` (the last one may not) -/
def splitAfter (p : Char → Bool) : Str → List Str
  | [] => []
  | c :: cs =>
    if p c then [c] :: splitAfter p cs
    else
      match splitAfter p cs with
      | [] => [[c]]
      | t :: ts => (c :: t) :: ts

/-- one term `number [k|m|g|t]`: whole bytes of `number * unit` (a fraction of a byte is dropped),
    `none` unless the number is a finite non-negative numeral and the term is below 2^63.
    (`floorBelow cap m b e u` is `exactFloor m b e u = ⌊m * b^e * u⌋` when that is `< cap`, else
    `none`: theorem `floorBelow_eq`; it is used instead of `exactFloor` only to stay executable.) -/
def termBytes (piece : Str) : Option Nat :=
  let nu : Str × Nat :=
    match piece.getLast? with
    | some u => if isUnitCh u then (piece.dropLast, unitMult u) else (piece, 1)
    | none => (piece, 1)
  match floatNumeral? nu.1 with
  | some (.fin neg m b e) =>
    if neg && m != 0 then none else floorBelow (2 ^ 63) m b e nu.2
  | _ => none

def sumTerms : List Str → Option Nat
  | [] => some 0
  | p :: ps =>
    match termBytes p, sumTerms ps with
    | some a, some b => some (a + b)
    | _, _ => none

/-- A size: case and white space are insignificant; an optional sign; one or more terms
    `number[K|M|G|T]` (only the last may lack the unit); the byte count is the sum of the terms and
    must be below 2^63. -/
def validSize (s : Str) : Option Int :=
  let t := (s.map Char.toLower).filter (fun c => !isSpace c)
  let st := takeSign t
  let pieces := splitAfter isUnitCh st.2
  if pieces.isEmpty then none
  else
    match sumTerms pieces with
    | some total => if total < 2 ^ 63 then some (if st.1 then -(total : Int) else (total : Int)) else none
    | none => none

/-- `N%` (whole percent 0…100 of `total`), or a bare integer numeral (megabytes), or a size. -/
def validSizeOrPercent (s : Str) (total : Int) : Option Int :=
  if s.getLast? = some '%' then
    match inRange 0 101 (intNumeral? s.dropLast) with
    | some n => some (total * n / 100)
    | none => none
  else
    match intNumeral? s with
    | some mb => inRange (-(2 ^ 63)) (2 ^ 63) (some (mb * 2 ^ 20))
    | none => validSize s

/-- The reading of a value string under an argument kind; `none` = no valid reading. -/
def validReading (k : ArgKind) (fs : Str) (total : Int) (s : Str) : Option Val :=
  match k with
  | .int => (inRange (-(2 ^ 31)) (2 ^ 31) (intNumeral? s)).map Val.int
  | .int64 => (inRange (-(2 ^ 63)) (2 ^ 63) (intNumeral? s)).map Val.int
  | .ms => (inRange (-(2 ^ 63)) (2 ^ 63) (intNumeral? s)).map Val.int
  | .uint => (inRange 0 (2 ^ 31) (intNumeral? s)).map Val.int
  | .pct100 => (inRange 0 100 (intNumeral? s)).map Val.int
  | .double => (floatIn binary64 s).map Val.flt
  | .float => (floatIn binary32 s).map Val.flt
  | .bool =>
    if s == "true".toList || s == "True".toList || s == "1".toList then some (.bool true)
    else if s == "false".toList || s == "False".toList || s == "0".toList then some (.bool false)
    else none
  | .string => some (.str s)
  | .resource =>
    if s == "io".toList then some (.resource true)
    else if s == "memory".toList then some (.resource false) else none
  | .cgroup => some (.cgroups ((Path.split s ',').map (Path.mk fs)))
  | .sizepct => (validSizeOrPercent s total).map Val.int
  | .nonempty => if s.isEmpty then none else some (.str s)
  | .unknown => none

end Spec

end OomdModel.Parse

import OomdModel.Kill
import OomdModel.Path

/-!
# Prekill hooks on top of the shared kill model (C07)

Model of the hook state machine of `BaseKillPlugin` (src/oomd/plugins/BaseKillPlugin.cpp) across ticks,
of `PrekillHook::canRunOnCgroup` (src/oomd/engine/PrekillHook.h) and of the selection made by
`Engine::firePrekillHook` (src/oomd/engine/Engine.cpp; its list order is `OomdModel.DropIn`'s business, C13).

* `BaseKillPlugin::run`                         → `runTick`  (`prekillHookState_` set → `resume`, else `fresh`; DEFER → ASYNC_PAUSED)
* `tryToKillSomething`                          → `fresh`    (rank the roots, best on top)
* `resumeTryingToKillSomething`                 → `hloop`    (the DFS loop of `OomdModel.Kill.loop` with the hook gate in front of
                                                              every kill attempt, i.e. again for the next candidate after a failed kill)
* `if (!pastPrekillHookTimeout(ctx)) { fire … }`→ `gate` = `pastTimeout` then `fireHook`
* `pastPrekillHookTimeout`                      → `pastTimeout` / `past` (one steady-clock reading, compared with `>` against
                                                              `ActionContext.prekill_hook_timeout_ts`)
* `ctx.firePrekillHook(cgroup_ctx)`             → `selectHook` (first hook in priority order whose patterns `prefixMatch` the victim)
* serialisation of victim and remaining stack   → `ser`, `Pending`
* `resumeFromPrekillHook`                       → `resume` = `hookDone` (didFinish / timed out / still running) then `afterHook`
                                                              (state reset = invocation destroyed, `deser` with the id check, kill, fallback stack
                                                              cut at the first entry that cannot be deserialised, `hloop` again)
* the `Ruleset` keeping the `ActionContext` of a suspended chain (C06) → `runHistory` (`saved`)

One kill attempt is `OomdModel.Kill.tryToLogAndKill`, kept as one block `HEv.attempt` that contains its boundary events, so
everything proved about an attempt in C01/C03/C04/C17 applies to the blocks unchanged.  With no hook configured `hloop` is
`OomdModel.Kill.loop` (`OomdProofs.Hook.hloop_no_hooks`).

Modelling notes
* `CgroupContext::id()` is `fstat(dirfd).st_ino` on a directory fd the context holds: it cannot fail, so a serialised id is a
  number (the C++ type is optional; `nullopt` would only make the reference undeserialisable).
* `SerializedKillCandidate.killRoot` is serialised from `kc.cgroupCtx` (not from `kc.killRoot`), so it is the same reference
  as `target`; `peers` and `killRoot` only feed log text.  One reference per candidate is modelled.
* The tick's view of the tree does not change while `run()` executes (as in `OomdModel.Kill`).
* `hasTriedToKillSomethingAlready` only selects log text; not modelled.
* Invocation numbers (`inv`) name the n-th `PrekillHookInvocation` created for this plugin instance.
-/

namespace OomdModel.Hook
open OomdModel.Kill

/-! ## which hook fires -/

/-- the victim's `CgroupPath` (only its components matter for matching) -/
def vp (path : String) : Path.CgPath := Path.mk [] path.toList

/-- `PrekillHook::canRunOnCgroup`: some pattern of the hook `hasDescendantWithPrefixMatching` the victim -/
def canRunOn (pats : Nat → List Path.CgPath) (victim : Path.CgPath) (h : Nat) : Bool :=
  (pats h).any fun p => Path.prefixMatch victim p

/-- `Engine::firePrekillHook`: the first hook, in priority order, that can run on the victim -/
def selectHook (prio : List Nat) (pats : Nat → List Path.CgPath) (victim : Path.CgPath) : Option Nat :=
  prio.find? (canRunOn pats victim)

/-- `pastPrekillHookTimeout`: `timeout.has_value() && now > timeout` -/
def past (dl : Option Nat) (t : Nat) : Bool :=
  match dl with
  | some d => decide (t > d)
  | none => false

/-! ## configuration, state, events -/

structure HCfg where
  kill : KillCfg
  prio : List Nat                       -- hook instances in the order `Engine::firePrekillHook` tries them
  pats : Nat → List Path.CgPath         -- `cgroup_patterns_` of a hook instance

/-- `SerializedCgroupRef` -/
structure SRef where
  path : String
  id : Nat
deriving DecidableEq, Repr

/-- `ActivePrekillHook` (the value of `prekillHookState_`) -/
structure Pending where
  inv : Nat                 -- the outstanding invocation
  victim : SRef             -- `intendedVictim`
  stack : List SRef         -- `nextBestOptionStack`, head = top (= back of the vector)
deriving DecidableEq, Repr

inductive HEv
  | now (t : Nat) (past : Bool)                               -- a clock reading taken by `pastPrekillHookTimeout`, and its verdict
  | fire (hook cg : Nat) (path : String) (inv : Nat)          -- `PrekillHook::fire` of hook `hook` on the victim
  | poll (inv : Nat) (fin : Bool)                             -- `PrekillHookInvocation::didFinish`
  | destroy (inv : Nat)                                       -- `~PrekillHookInvocation`
  | attempt (cg : Nat) (path : String) (evs : List Ev) (ok : Bool)   -- one `tryToLogAndKillCgroup`: every signal is in here
  | k (e : Ev)                                                -- `pause_actions`
  | ret (r : Ret)                                             -- `run()` returns
deriving DecidableEq, Repr

/-- answers of the environment: those of `OomdModel.Kill`, the clock readings, the `didFinish` answers; `nextInv` numbers the
    invocations (not an answer, threaded here to keep one state) -/
structure HEnv where
  kenv : Env
  clock : List Nat
  polls : List Bool
  nextInv : Nat
deriving Repr

structure HR (α : Type) where
  evs : List HEv
  env : HEnv
  val : α

def HM (α : Type) := HEnv → HR α

namespace HM
def pure (a : α) : HM α := fun env => ⟨[], env, a⟩
def bind (m : HM α) (f : α → HM β) : HM β := fun env =>
  let r := m env
  let s := f r.val r.env
  ⟨r.evs ++ s.evs, s.env, s.val⟩
instance : Monad HM where
  pure := HM.pure
  bind := HM.bind
end HM

def emit (e : HEv) : HM Unit := fun env => ⟨[e], env, ()⟩

/-- exhausted stream: reading 0 -/
def nextClock : HM Nat := fun env =>
  match env.clock with
  | [] => ⟨[], env, 0⟩
  | a :: r => ⟨[], { env with clock := r }, a⟩

/-- exhausted stream: finished -/
def nextPoll : HM Bool := fun env =>
  match env.polls with
  | [] => ⟨[], env, true⟩
  | a :: r => ⟨[], { env with polls := r }, a⟩

def freshInv : HM Nat := fun env => ⟨[], { env with nextInv := env.nextInv + 1 }, env.nextInv⟩

/-- one `tryToLogAndKillCgroup` of the kill model as a block -/
def attempt (cfg : KillCfg) (v : View) (k : Nat) : HM Bool := fun env =>
  let r := tryToLogAndKill cfg v k env.kenv
  ⟨[.attempt v.id v.info.path r.evs r.val], { env with kenv := r.env }, r.val⟩

/-! ## the gate in front of a kill attempt -/

inductive Gate
  | proceed               -- kill now
  | defer (inv : Nat)     -- hook running: serialise and return DEFER
deriving DecidableEq, Repr

/-- `pastPrekillHookTimeout(ctx)` -/
def pastTimeout (dl : Option Nat) : HM Bool := do
  let t ← nextClock
  emit (.now t (past dl t))
  pure (past dl t)

/-- a hook was selected: `fire`, first `didFinish`; the local invocation object dies at the end of the `if` block, before the kill -/
def fireSelected (v : View) (h : Nat) : HM Gate := do
  let inv ← freshInv
  emit (.fire h v.id v.info.path inv)
  let fin ← nextPoll
  emit (.poll inv fin)
  if fin then do
    emit (.destroy inv)
    pure .proceed
  else pure (.defer inv)

/-- `auto hookInvocation = ctx.firePrekillHook(candidate); if (hookInvocation && !didFinish()) …` -/
def fireHook (cfg : HCfg) (v : View) : HM Gate :=
  match selectHook cfg.prio cfg.pats (vp v.info.path) with
  | none => pure .proceed
  | some h => fireSelected v h

/-- `if (!pastPrekillHookTimeout(ctx)) { … }` -/
def gate (cfg : HCfg) (dl : Option Nat) (v : View) : HM Gate := do
  let p ← pastTimeout dl
  if p then pure .proceed else fireHook cfg v

/-! ## serialisation -/

def ser (v : View) : SRef := { path := v.info.path, id := v.id }

mutual
/-- the cgroup at a path in this tick's tree (`ctx.addToCacheAndGet(sc.path)`) -/
def findV (p : String) : View → Option View
  | .mk i cs => if i.path = p then some (.mk i cs) else findF p cs
def findF (p : String) : List View → Option View
  | [] => none
  | c :: cs =>
    match findV p c with
    | some v => some v
    | none => findF p cs
end

/-- `deserializeCgroupRef`: the path must exist and carry the serialised id (not removed, not re-created) -/
def deser (top : List View) (r : SRef) : Option View :=
  match findF r.path top with
  | some v => if v.id = r.id then some v else none
  | none => none

/-- the fallback stack: an entry that cannot be deserialised clears everything below it -/
def deserStack (top : List View) : List SRef → List View
  | [] => []
  | r :: rs =>
    match deser top r with
    | some v => v :: deserStack top rs
    | none => []

/-! ## the loop -/

inductive LoopRes
  | success
  | failed
  | defer (p : Pending)
deriving DecidableEq, Repr

/-- what follows the gate for candidate `v`; `cont` = the loop on the rest of the stack -/
def afterGate (cfg : HCfg) (v : View) (stack : List View) (k : Nat) (cont : HM LoopRes) : Gate → HM LoopRes
  | .defer inv => pure (.defer { inv := inv, victim := ser v, stack := stack.map ser })
  | .proceed => do
    let ok ← attempt cfg.kill v k
    if ok then pure .success else cont

/-- `resumeTryingToKillSomething`.  Stack top = head; `k` numbers the attempts of this `run()`; first argument is fuel. -/
def hloop (cfg : HCfg) (rank : List View → List View) (dl : Option Nat) : Nat → List View → Nat → HM LoopRes
  | 0, _, _ => pure .failed
  | _, [], _ => pure .failed
  | n + 1, v :: stack, k =>
    if descends cfg.kill v then hloop cfg rank dl n (rank v.children ++ stack) k
    else if !(v.info.populated.getD true) then hloop cfg rank dl n stack k
    else gate cfg dl v >>= afterGate cfg v stack k (hloop cfg rank dl n stack (k + 1))

/-- `tryToKillSomething` -/
def fresh (cfg : HCfg) (rank : List View → List View) (dl : Option Nat) (roots : List View) : HM LoopRes :=
  hloop cfg rank dl (fsize (rank roots) + 1) (rank roots) 0

/-! ## resuming -/

/-- head of `resumeFromPrekillHook`: finished, or timed out, or (false) still running -/
def hookDone (dl : Option Nat) (p : Pending) : HM Bool := do
  let fin ← nextPoll
  emit (.poll p.inv fin)
  if fin then pure true else pastTimeout dl

/-- the fallback part of `resumeFromPrekillHook` -/
def fallback (cfg : HCfg) (rank : List View → List View) (dl : Option Nat) (top : List View) (p : Pending) : HM LoopRes :=
  hloop cfg rank dl (fsize (deserStack top p.stack) + 1) (deserStack top p.stack) 1

/-- the intended victim after the hook: deserialise, kill, else fall back -/
def killIntended (cfg : HCfg) (rank : List View → List View) (dl : Option Nat) (top : List View) (p : Pending) : HM LoopRes :=
  match deser top p.victim with
  | none => pure .failed                      -- removed or re-created: "someone else removed it before we could"
  | some v => do
    let ok ← attempt cfg.kill v 0
    if ok then pure .success else fallback cfg rank dl top p

/-- rest of `resumeFromPrekillHook`: `prekillHookState_ = std::nullopt` destroys the invocation first -/
def afterHook (cfg : HCfg) (rank : List View → List View) (dl : Option Nat) (top : List View) (p : Pending) : HM LoopRes := do
  emit (.destroy p.inv)
  killIntended cfg rank dl top p

def resume (cfg : HCfg) (rank : List View → List View) (dl : Option Nat) (top : List View) (p : Pending) : HM LoopRes := do
  let d ← hookDone dl p
  if d then afterHook cfg rank dl top p else pure (.defer p)

/-! ## `run()` -/

/-- `ruleset->pause_actions(postActionDelay_)` -/
def pauseEv (cfg : KillCfg) : HM Unit :=
  match cfg.hasRuleset, cfg.postActionDelay with
  | true, some d => emit (.k (.pause d))
  | _, _ => pure ()

def retWith (st : Option Pending) (r : Ret) : HM (Option Pending × Ret) := do
  emit (.ret r)
  pure (st, r)

/-- mapping of `KillResult` to `PluginRet` -/
def finish (cfg : KillCfg) : LoopRes → HM (Option Pending × Ret)
  | .defer p => retWith (some p) .async
  | .failed => retWith none .cont
  | .success =>
    if cfg.alwaysContinue then retWith none .cont
    else pauseEv cfg >>= fun _ => retWith none .stop

/-- one `BaseKillPlugin::run` with `ActionContext.prekill_hook_timeout_ts = dl` on a tick whose tree is `top`
    and whose resolved `cgroup` argument is `roots` -/
def runTick (cfg : HCfg) (rank : List View → List View) (dl : Option Nat) (top roots : List View)
    (st : Option Pending) : HM (Option Pending × Ret) :=
  (match st with
   | some p => resume cfg rank dl top p
   | none => fresh cfg rank dl roots) >>= finish cfg.kill

/-! ## histories -/

structure TickIn where
  top : List View               -- the tick's tree
  roots : List View             -- resolved `cgroup` argument
  freshDl : Option Nat          -- the deadline a chain fired on this tick gets: reading at fire + prekill_hook_timeout
                                --   (`Ruleset::runOnceImpl`; `none` = no ActionContext deadline)
  rank : List View → List View  -- `rankForKilling` on this tick (ties may be broken differently on every tick:
                                --   `std::sort` is unstable and the roots come out of an `unordered_set`)

structure TickOut where
  dl : Option Nat               -- the deadline in the ActionContext this `run()` saw
  evs : List HEv
  ret : Ret
  st : Option Pending           -- `prekillHookState_` afterwards

/-- the ActionContext deadline of a `run()`: the saved one while the chain is suspended, else that of a chain fired on this tick -/
def curDl (saved : Option (Option Nat)) (ti : TickIn) : Option Nat :=
  match saved with
  | some d => d
  | none => ti.freshDl

/-- successive `run()` calls of one plugin instance.  `saved` = the deadline of the ActionContext the ruleset keeps while
    the action is ASYNC_PAUSED (`active_action_chain_state_`, C06): a resumed action sees the context of the firing tick. -/
def runHistory (cfg : HCfg) :
    Option Pending → Option (Option Nat) → List TickIn → HEnv → List TickOut
  | _, _, [], _ => []
  | st, saved, ti :: rest, env =>
    let dl := curDl saved ti
    let r := runTick cfg ti.rank dl ti.top ti.roots st env
    { dl := dl, evs := r.evs, ret := r.val.2, st := r.val.1 } ::
      runHistory cfg r.val.1 (if r.val.2 = .async then some dl else none) rest r.env

/-- the whole observable history -/
def flat (outs : List TickOut) : List HEv := outs.flatMap (·.evs)

end OomdModel.Hook

import OomdModel.Parse
import OomdModel.Generated.Consts
import OomdModel.Generated.ArgSchemas

/-!
# Model of configuration loading (C12)

* `JsonConfigParser::parse` (src/oomd/config/JsonConfigParser.cpp) from a JSON value tree (the
  text → tree step is jsoncpp's and external) to the IR of `ConfigTypes.h`;
* `PluginArgParser::parse` (src/oomd/util/PluginArgParser.cpp) against the argument schemas that
  `tools/extract.py` regenerates from the plugins' `init()` (`Generated.typedSchemas`), with the
  pre-processing `MemoryAbove::init` and `KillSwapUsage::init` do by hand;
* `ConfigCompiler`'s `compile`, `compileDropIn`, `compileRuleset`, `compileDetectorGroup`,
  `compilePluginGeneric` (src/oomd/config/ConfigCompiler.cpp) and `Ruleset::mergeWithDropIn`;
* `Main.cpp parseConfig` + `compile` (start-up) and `FsDropInService::processDropInAdd` +
  `DropInServiceAdaptor::scheduleDropInAdd` (a drop-in file at run time).

Model of the code WITH /verif/fixes/C12-*.patch: `C12-ruleset-delay` (the two `std::stoi` of
`compileRuleset` are caught and must consume the string), `C12-main-parse-catch`,
`C12-json-args-shape` (wrong-shaped `args` make the plugin invalid instead of being dropped),
`C12-continue-stop-args` (visible through `Generated.typedSchemas`: `checksArgs`).

A C++ exception that would leave a function is the outcome `throws`, never omitted.
`namespace Spec` holds the independent statement of "valid" and "honoured".
-/

namespace OomdModel.Config
open OomdModel.Parse OomdModel.Generated

/-! ## outcomes -/

inductive Exc where
  | invalidArgument | outOfRange | jsonLogic | runtime
deriving DecidableEq, Repr

/-- `ok`, rejected through the documented error result, or a C++ exception leaving the function -/
inductive Res (α : Type) where
  | ok (a : α)
  | rejected
  | throws (e : Exc)
deriving Repr

def Res.bind {α β : Type} (r : Res α) (f : α → Res β) : Res β :=
  match r with
  | .ok a => f a
  | .rejected => .rejected
  | .throws e => .throws e

/-- `try { … } catch (const std::exception&) { return <error>; }` — every `Exc` derives from `std::exception` -/
def Res.catchAll {α : Type} (r : Res α) : Res α :=
  match r with
  | .throws _ => .rejected
  | x => x

def Res.isOk {α : Type} : Res α → Bool
  | .ok _ => true
  | _ => false

/-! ## IR (`Config2::IR`) -/

structure IRPlugin where
  name : Str
  args : List (Str × Str)      -- unordered_map: keys distinct, order immaterial
deriving DecidableEq, Repr

structure IRDetectorGroup where
  name : Str
  detectors : List IRPlugin
deriving DecidableEq, Repr

structure IRRuleset where
  name : Str
  dgs : List IRDetectorGroup
  acts : List IRPlugin
  disableOnDropIn : Bool
  detectorgroupsEnabled : Bool
  actiongroupEnabled : Bool
  silenceLogs : Str
  postActionDelay : Str
  prekillHookTimeout : Str
  xattrFilter : Str
  cgroup : Str
deriving DecidableEq, Repr

structure IRRoot where
  rulesets : List IRRuleset
  prekillHooks : List IRPlugin
deriving DecidableEq, Repr

/-! ## JSON value tree and the jsoncpp operations the parser uses -/

inductive JVal where
  | null
  | bool (b : Bool)
  | int (i : Int)
  | str (s : Str)
  | arr (l : List JVal)
  | obj (l : List (Str × JVal))    -- members in key order (jsoncpp keeps a std::map)

/-- `Value::get(key, Value())`: needs an object or null, else `Json::LogicError` -/
def jget (v : JVal) (k : String) : Res JVal :=
  match v with
  | .obj l => .ok (match l.find? (fun kv => kv.1 == k.toList) with | some kv => kv.2 | none => .null)
  | .null => .ok .null
  | _ => .throws .jsonLogic

/-- `Value::asString()` -/
def jasString (v : JVal) : Res Str :=
  match v with
  | .null => .ok []
  | .str s => .ok s
  | .bool b => .ok (if b then "true".toList else "false".toList)
  | .int i => .ok (toString i).toList
  | _ => .throws .jsonLogic

/-- `Value::asBool()` -/
def jasBool (v : JVal) : Res Bool :=
  match v with
  | .bool b => .ok b
  | .null => .ok false
  | .int i => .ok (i != 0)
  | _ => .throws .jsonLogic

/-- range-for over a value: array elements, object member values, nothing for scalars -/
def jelems (v : JVal) : List JVal :=
  match v with
  | .arr l => l
  | .obj l => l.map (·.2)
  | _ => []

def jisScalar (v : JVal) : Bool :=
  match v with
  | .str _ | .int _ | .bool _ => true
  | _ => false

/-! ## `JsonConfigParser` -/

def emptyPlugin : IRPlugin := ⟨[], []⟩

/-- the loop over `json_args.getMemberNames()`; `none`: a value that is not string / number / bool -/
def parseArgsObj : List (Str × JVal) → Option (List (Str × Str))
  | [] => some []
  | (k, v) :: rest =>
    if jisScalar v then
      match jasString v, parseArgsObj rest with
      | .ok s, some r => some ((k, s) :: r)
      | _, _ => none
    else none

/-- member `k` of an object -/
def objGet (l : List (Str × JVal)) (k : String) : Option JVal :=
  (l.find? (fun kv => kv.1 == k.toList)).map (·.2)

/-- `parsePlugin<T>` -/
def parsePlugin (p : JVal) : IRPlugin :=
  match p with
  | .obj l =>
    match objGet l "name" with
    | some (JVal.str name) =>
      match objGet l "args" with
      | none => ⟨name, []⟩
      | some JVal.null => ⟨name, []⟩
      | some (JVal.obj al) =>
        match parseArgsObj al with
        | some a => ⟨name, a⟩
        | none => emptyPlugin                -- fix C12-json-args-shape (was: the arguments so far)
      | some _ => emptyPlugin                -- fix C12-json-args-shape (was: no arguments)
    | _ => emptyPlugin
  | _ => emptyPlugin

/-- `parseDetectorGroup` -/
def parseDetectorGroup (g : JVal) : IRDetectorGroup :=
  match g with
  | .arr (.str name :: rest) => ⟨name, rest.map parsePlugin⟩
  | .arr l => ⟨[], l.map parsePlugin⟩
  | _ => ⟨[], []⟩

def getStr (v : JVal) (k : String) : Res Str := (jget v k).bind jasString
def getBool (v : JVal) (k : String) : Res Bool := (jget v k).bind jasBool

/-- `parseRuleset` (with `parseDropIn`), statement by statement -/
def parseRuleset (r : JVal) : Res IRRuleset :=
  (getStr r "name").bind fun name =>
  (jget r "drop-in").bind fun di =>
  (getBool di "disable-on-drop-in").bind fun dis =>
  (getBool di "detectors").bind fun den =>
  (getBool di "actions").bind fun aen =>
  (getStr r "silence-logs").bind fun sl =>
  (getStr r "post_action_delay").bind fun pad =>
  (getStr r "prekill_hook_timeout").bind fun pht =>
  (jget r "detectors").bind fun dets =>
  (jget r "actions").bind fun acts =>
  (getStr r "xattr_filter").bind fun xf =>
  (getStr r "cgroup").bind fun cg =>
  .ok {
    name := name
    dgs := (jelems dets).map parseDetectorGroup
    acts := (jelems acts).map parsePlugin
    disableOnDropIn := dis
    detectorgroupsEnabled := den
    actiongroupEnabled := aen
    silenceLogs := sl
    postActionDelay := pad
    prekillHookTimeout := pht
    xattrFilter := xf
    cgroup := cg }

def parseRulesets : List JVal → Res (List IRRuleset)
  | [] => .ok []
  | r :: rs => (parseRuleset r).bind fun x => (parseRulesets rs).bind fun xs => .ok (x :: xs)

/-- `JsonConfigParser::parse` after `getJson` succeeded.  `none` stands for a text jsoncpp cannot
    read: `getJson` throws `std::runtime_error`. -/
def parseJson (doc : Option JVal) : Res IRRoot :=
  match doc with
  | none => .throws .runtime
  | some root =>
    (jget root "rulesets").bind fun rs =>
    (parseRulesets (jelems rs)).bind fun rulesets =>
    (jget root "prekill_hooks").bind fun hs =>
    .ok ⟨rulesets, (jelems hs).map parsePlugin⟩

/-! ## plugins -/

/-- what `init()` reads from the machine besides its arguments: `MemTotal` / `SwapTotal` (bytes) of
    the meminfo file at a location (`none` = the default /proc/meminfo); `none` as a result: the file
    is unreadable or has no such key -/
structure Env where
  fs : Str                               -- cgroup fs root of the PluginConstructionContext
  memAt : Option Str → Option Int
  swapAt : Option Str → Option Int

def lookupArg (args : List (Str × Str)) (k : String) : Option Str :=
  (args.find? (fun kv => kv.1 == k.toList)).map (·.2)

structure PluginInst where
  name : Str
  args : List (Str × Str)      -- as handed to initPlugin
  vals : List (Str × Val)      -- what the argument parser stored, per given argument
deriving DecidableEq, Repr

def hasArg (args : List (Str × Str)) (k : String) : Bool := args.any (fun kv => kv.1 == k.toList)
def eraseArg (args : List (Str × Str)) (k : String) : List (Str × Str) := args.filter (fun kv => kv.1 != k.toList)

/-- the second loop of `PluginArgParser::parse` -/
def fillArgs (schema : List TypedArg) (fs : Str) (total : Int) : List (Str × Str) → Option (List (Str × Val))
  | [] => some []
  | (k, v) :: rest =>
    match schema.find? (fun a => a.name.toList == k) with
    | none => none                                          -- Unknown arg
    | some a =>
      match parseArg a.kind fs total v, fillArgs schema fs total rest with
      | .ok x, some r => some ((k, x) :: r)
      | _, _ => none                                        -- Failed parsing arg / later failure

/-- `PluginArgParser::parse`: required present, every given argument declared and parsed -/
def argParse (schema : List TypedArg) (fs : Str) (total : Int) (args : List (Str × Str)) : Option (List (Str × Val)) :=
  if schema.any (fun a => a.required && !hasArg args a.name) then none
  else fillArgs schema fs total args

def wrap32 (v : Int) : Int := (v + 2 ^ 31) % 2 ^ 32 - 2 ^ 31

/-- checks `init()` makes after the argument parser succeeded: `Senpai::init` refuses a
    non-positive `pressure_ms` (the default, 10, is positive) -/
def postParseRejects (sch : TypedSchema) (vals : List (Str × Val)) : Bool :=
  sch.plugin == "senpai" &&
    vals.any (fun kv => kv.1 == "pressure_ms".toList && (match kv.2 with | .int v => decide (v ≤ 0) | _ => false))

/-- `init()` of the registered plugin described by `sch` -/
def pluginInit (env : Env) (sch : TypedSchema) (args : List (Str × Str)) : Option (List (Str × Val)) :=
  if !sch.checksArgs then some []                            -- init() returns 0 whatever it is given
  else if sch.plugin == "memory_above" then
    -- MemoryAbove::init: meminfo first, then the argument list is edited, then the parser
    match env.memAt (lookupArg args "meminfo_location") with
    | none => none
    | some mt =>
      let a1 := eraseArg args "meminfo_location"
      let anon := hasArg a1 "threshold_anon"
      let a2 := if anon then eraseArg a1 "threshold" else a1
      let schema := if anon then sch.args.map (fun a => if a.name == "threshold" then { a with name := "threshold_anon" } else a) else sch.args
      argParse schema env.fs mt a2
  else if sch.plugin == "kill_by_swap_usage" then
    -- `int64_t swapTotal` (an `int` until /repo 2945329, repaired under C09)
    argParse sch.args env.fs ((env.swapAt (lookupArg args "meminfo_location")).getD 0) (eraseArg args "meminfo_location")
  else
    match argParse sch.args env.fs 0 args with
    | none => none
    | some vals => if postParseRejects sch vals then none else some vals

def schemaOf (table : List TypedSchema) (hook : Bool) (name : Str) : Option TypedSchema :=
  table.find? (fun s => s.plugin.toList == name && s.isHook == hook)

/-- `compilePluginGeneric`: name, registry, `initPlugin` -/
def compilePlugin (env : Env) (hook : Bool) (p : IRPlugin) : Option PluginInst :=
  if p.name.isEmpty then none
  else
    match schemaOf typedSchemas hook p.name with
    | none => none
    | some sch =>
      match pluginInit env sch p.args with
      | none => none
      | some vals => some ⟨p.name, p.args, vals⟩

def compilePlugins (env : Env) (hook : Bool) : List IRPlugin → Option (List PluginInst)
  | [] => some []
  | p :: ps =>
    match compilePlugin env hook p with
    | none => none
    | some i =>
      match compilePlugins env hook ps with
      | none => none
      | some is => some (i :: is)

/-! ## rulesets and the engine -/

structure DetectorGroupC where
  name : Str
  detectors : List PluginInst
deriving DecidableEq, Repr

structure RulesetC where
  name : Str
  dgs : List DetectorGroupC
  acts : List PluginInst
  disableOnDropIn : Bool
  dgDropIn : Bool
  actDropIn : Bool
  silenced : Nat
  postActionDelay : Int
  prekillHookTimeout : Int
  xattrFilter : Str
  cgroup : Option Path.CgPath
deriving DecidableEq, Repr

structure EngineC where
  rulesets : List RulesetC
  hooks : List PluginInst
deriving DecidableEq, Repr

def compileDetectorGroup (env : Env) (g : IRDetectorGroup) : Option DetectorGroupC :=
  if g.name.isEmpty then none
  else if g.detectors.isEmpty then none
  else (compilePlugins env false g.detectors).map fun ds => ⟨g.name, ds⟩

def compileDetectorGroups (env : Env) : List IRDetectorGroup → Option (List DetectorGroupC)
  | [] => some []
  | g :: gs =>
    match compileDetectorGroup env g with
    | none => none
    | some c =>
      match compileDetectorGroups env gs with
      | none => none
      | some cs => some (c :: cs)

def isTrimCh (c : Char) : Bool := c == ' ' || c == '\t' || c == '\n' || c == '\r'
/-- `Util::trim` -/
def trim (s : Str) : Str := ((s.reverse.dropWhile isTrimCh).reverse).dropWhile isTrimCh

/-- the silence-logs field: bit mask, `none` on an unrecognised source -/
def silenceMask : List Str → Option Nat
  | [] => some 0
  | p :: ps =>
    let t := trim p
    let bit : Option Nat :=
      if t == "engine".toList then some (2 ^ logSourceEngine)
      else if t == "plugins".toList then some (2 ^ logSourcePlugins) else none
    match bit, silenceMask ps with
    | some b, some m => some (b ||| m)
    | _, _ => none

/-- `parseDelay` of the fix: `std::stoi` inside try/catch, whole string, non-negative -/
def parseDelay (s : Str) : Res Int :=
  let r : Res Int :=
    match stoi s with
    | .error .invalidArgument => .throws .invalidArgument
    | .error .outOfRange => .throws .outOfRange
    | .ok (v, rest) => if !rest.isEmpty then .rejected else if v < 0 then .rejected else .ok v
  r.catchAll

def ofOption {α : Type} (o : Option α) : Res α :=
  match o with
  | some a => .ok a
  | none => .rejected

/-- `compileRuleset(ruleset, dropin, context)` -/
def compileRuleset (env : Env) (dropin : Bool) (r : IRRuleset) : Res RulesetC :=
  if r.name.isEmpty then .rejected
  else
    (ofOption (if r.silenceLogs.isEmpty then some 0 else silenceMask (Path.split (trim r.silenceLogs) ','))).bind fun mask =>
    if !dropin && (r.dgs.isEmpty || r.acts.isEmpty) then .rejected
    else
      (if r.postActionDelay.isEmpty then .ok (defaultPostActionDelay : Int) else parseDelay r.postActionDelay).bind fun pad =>
      (if r.prekillHookTimeout.isEmpty then .ok (defaultPrekillHookTimeout : Int) else parseDelay r.prekillHookTimeout).bind fun pht =>
      (ofOption (compileDetectorGroups env r.dgs)).bind fun dgs =>
      (ofOption (compilePlugins env false r.acts)).bind fun acts =>
      .ok {
        name := r.name
        dgs := dgs
        acts := acts
        disableOnDropIn := r.disableOnDropIn
        dgDropIn := r.detectorgroupsEnabled
        actDropIn := r.actiongroupEnabled
        silenced := mask
        postActionDelay := pad
        prekillHookTimeout := pht
        xattrFilter := r.xattrFilter
        cgroup := if r.cgroup.isEmpty then none else some (Path.mk env.fs r.cgroup) }

def compileRulesets (env : Env) : List IRRuleset → Res (List RulesetC)
  | [] => .ok []
  | r :: rs => (compileRuleset env false r).bind fun c => (compileRulesets env rs).bind fun cs => .ok (c :: cs)

/-- `Config2::compile` -/
def compile (env : Env) (root : IRRoot) : Res EngineC :=
  (compileRulesets env root.rulesets).bind fun rs =>
  (ofOption (compilePlugins env true root.prekillHooks)).bind fun hs =>
  .ok ⟨rs, hs⟩

/-- `Ruleset::mergeWithDropIn` -/
def mergeWithDropIn (target drop : RulesetC) : Option RulesetC :=
  if !drop.dgs.isEmpty && !target.dgDropIn then none
  else
    let t1 := if drop.dgs.isEmpty then target else { target with dgs := drop.dgs }
    if !drop.acts.isEmpty && !target.actDropIn then none
    else some (if drop.acts.isEmpty then t1 else { t1 with acts := drop.acts })

structure DropInUnitC where
  rulesets : List RulesetC
  hooks : List PluginInst
deriving DecidableEq, Repr

def compileDropInRulesets (env : Env) (base : List IRRuleset) : List IRRuleset → Res (List RulesetC)
  | [] => .ok []
  | d :: ds =>
    match base.find? (fun rs => rs.name == d.name) with
    | none => .rejected                                        -- Could not locate targeted ruleset
    | some rs =>
      (compileRuleset env false rs).bind fun target =>
      (compileRuleset env true d).bind fun drop =>
      (ofOption (mergeWithDropIn target drop)).bind fun merged =>
      (compileDropInRulesets env base ds).bind fun rest => .ok (merged :: rest)

/-- `Config2::compileDropIn(root, dropin, context)` -/
def compileDropIn (env : Env) (root dropin : IRRoot) : Res DropInUnitC :=
  (compileDropInRulesets env root.rulesets dropin.rulesets).bind fun rs =>
  (ofOption (compilePlugins env true dropin.prekillHooks)).bind fun hs =>
  .ok ⟨rs, hs⟩

/-! ## the two loading paths of the daemon -/

/-- start-up: `Main.cpp parseConfig` (the parser call is inside try/catch: C12-main-parse-catch)
    then `compile` -/
def load (env : Env) (doc : Option JVal) : Res EngineC :=
  (parseJson doc).catchAll.bind (compile env)

/-- a drop-in file: `FsDropInService::processDropInAdd` catches `std::exception` around the parser
    only; `scheduleDropInAdd` → `compileDropIn` runs unprotected on the watcher thread -/
def loadDropIn (env : Env) (root : IRRoot) (doc : Option JVal) : Res DropInUnitC :=
  (parseJson doc).catchAll.bind (compileDropIn env root)

/-! # Specification -/
namespace Spec

/-- The arguments each registered plugin declares, as of the pinned sources: name, required, kind.
    `C12.schema_table_pinned` proves `Generated.typedSchemas` (regenerated from /repo on every run)
    equal to it, so making an argument optional, adding or dropping one, or changing a plugin's
    registration breaks a proof obligation, and `holds` (which uses this table) names the input. -/
def killBaseArgs : List TypedArg := [
  ⟨"cgroup", false, .cgroup⟩, ⟨"recursive", false, .bool⟩, ⟨"post_action_delay", false, .uint⟩,
  ⟨"dry", false, .bool⟩, ⟨"always_continue", false, .bool⟩, ⟨"debug", false, .bool⟩,
  ⟨"kernelkill", false, .bool⟩, ⟨"reap_memory", false, .bool⟩]

def declaredSchemas : List TypedSchema := [
  ⟨"continue", false, false, true, []⟩,
  ⟨"dummy_prekill_hook", true, false, true, [⟨"cgroup", false, .cgroup⟩]⟩,
  ⟨"dump_cgroup_overview", false, false, true, [⟨"cgroup", false, .cgroup⟩, ⟨"always", false, .bool⟩]⟩,
  ⟨"exists", false, false, true, [⟨"cgroup", false, .cgroup⟩, ⟨"negate", false, .bool⟩, ⟨"debug", false, .bool⟩]⟩,
  ⟨"kill_by_io_cost", false, true, true, killBaseArgs⟩,
  ⟨"kill_by_memory_size_or_growth", false, true, true,
    [⟨"size_threshold", false, .uint⟩, ⟨"growing_size_percentile", false, .pct100⟩, ⟨"min_growth_ratio", false, .float⟩] ++ killBaseArgs⟩,
  ⟨"kill_by_pg_scan", false, true, true, killBaseArgs⟩,
  ⟨"kill_by_pressure", false, true, true, [⟨"resource", true, .resource⟩] ++ killBaseArgs⟩,
  ⟨"kill_by_swap_usage", false, true, true, [⟨"threshold", false, .sizepct⟩, ⟨"biased_swap_kill", false, .bool⟩] ++ killBaseArgs⟩,
  ⟨"memory_above", false, false, true,
    [⟨"cgroup", false, .cgroup⟩, ⟨"threshold", true, .sizepct⟩, ⟨"duration", true, .int⟩, ⟨"debug", false, .bool⟩]⟩,
  ⟨"memory_reclaim", false, false, true, [⟨"cgroup", false, .cgroup⟩, ⟨"duration", true, .int⟩]⟩,
  ⟨"nr_dying_descendants", false, false, true,
    [⟨"cgroup", false, .cgroup⟩, ⟨"count", true, .uint⟩, ⟨"lte", false, .bool⟩, ⟨"debug", false, .bool⟩]⟩,
  ⟨"pressure_above", false, false, true,
    [⟨"cgroup", false, .cgroup⟩, ⟨"resource", true, .resource⟩, ⟨"threshold", true, .int⟩, ⟨"duration", true, .int⟩]⟩,
  ⟨"pressure_rising_beyond", false, false, true,
    [⟨"cgroup", false, .cgroup⟩, ⟨"resource", true, .resource⟩, ⟨"threshold", true, .int⟩, ⟨"duration", true, .int⟩,
     ⟨"fast_fall_ratio", false, .float⟩]⟩,
  ⟨"senpai", false, false, true,
    [⟨"cgroup", true, .cgroup⟩, ⟨"limit_min_bytes", false, .int64⟩, ⟨"limit_max_bytes", false, .int64⟩,
     ⟨"interval", false, .int64⟩, ⟨"pressure_ms", false, .ms⟩, ⟨"pressure_pct", false, .double⟩,
     ⟨"io_pressure_pct", false, .double⟩, ⟨"max_probe", false, .double⟩, ⟨"max_backoff", false, .double⟩,
     ⟨"coeff_probe", false, .double⟩, ⟨"coeff_backoff", false, .double⟩, ⟨"immediate_backoff", false, .bool⟩,
     ⟨"memory_high_timeout_ms", false, .ms⟩, ⟨"swap_threshold", false, .double⟩,
     ⟨"swapout_bps_threshold", false, .int64⟩, ⟨"swap_validation", false, .bool⟩,
     ⟨"modulate_swappiness", false, .bool⟩, ⟨"log_interval", false, .int64⟩]⟩,
  ⟨"stop", false, false, true, []⟩,
  ⟨"swap_free", false, false, true, [⟨"threshold_pct", true, .int⟩, ⟨"swapout_bps_threshold", false, .int64⟩]⟩,
  ⟨"systemd_restart", false, false, true,
    [⟨"service", true, .nonempty⟩, ⟨"post_action_delay", false, .uint⟩, ⟨"dry", false, .bool⟩]⟩]

/-- What a plugin declares, given the arguments it is handed.  Beyond the parser's table:
    `memory_above` and `kill_by_swap_usage` take `meminfo_location`, which they consume themselves
    before the parser runs (any string; it names the file `MemTotal` / `SwapTotal` is read from);
    `memory_above` takes `threshold_anon` in place of `threshold` - when both are given only
    `threshold_anon` is effective and `threshold` is set aside unread (docs/core_plugins.md). -/
structure Declared where
  args : List TypedArg          -- the arguments the parser reads: name, required, kind
  extern : List String          -- arguments set aside before the parser (not read by it)

def renameArg (frm to : String) (a : TypedArg) : TypedArg := if a.name == frm then { a with name := to } else a

def declaredFor (sch : TypedSchema) (args : List (Str × Str)) : Declared :=
  if sch.plugin == "memory_above" then
    if hasArg args "threshold_anon" then
      { args := sch.args.map (renameArg "threshold" "threshold_anon"), extern := ["meminfo_location", "threshold"] }
    else { args := sch.args, extern := ["meminfo_location"] }
  else if sch.plugin == "kill_by_swap_usage" then { args := sch.args, extern := ["meminfo_location"] }
  else { args := sch.args, extern := [] }

def isExtern (d : Declared) (k : Str) : Bool := d.extern.any (fun n => n.toList == k)

/-- the total a `sizepct` argument of this plugin is a percentage of -/
def totalFor (env : Env) (sch : TypedSchema) (args : List (Str × Str)) : Int :=
  if sch.plugin == "memory_above" then (env.memAt (lookupArg args "meminfo_location")).getD 0
  else if sch.plugin == "kill_by_swap_usage" then (env.swapAt (lookupArg args "meminfo_location")).getD 0 else 0

/-- the valid reading of one argument the parser reads: `none` if undeclared or without a valid reading -/
def argReading (env : Env) (sch : TypedSchema) (d : Declared) (args : List (Str × Str)) (kv : Str × Str) : Option Val :=
  match d.args.find? (fun a => a.name.toList == kv.1) with
  | none => none
  | some a => Parse.Spec.validReading a.kind env.fs (totalFor env sch args) kv.2

/-- "the plugin is named, exists, every required argument is present, no argument is given that
    the plugin does not declare, every value has a valid reading" -/
def pluginValid (env : Env) (hook : Bool) (p : IRPlugin) : Bool :=
  !p.name.isEmpty &&
  match schemaOf declaredSchemas hook p.name with
  | none => false
  | some sch =>
    let d := declaredFor sch p.args
    d.args.all (fun a => !a.required || hasArg p.args a.name) &&
    p.args.all (fun kv => isExtern d kv.1 || (argReading env sch d p.args kv).isSome)

/-- what an accepted plugin must hold: for every given argument the parser reads, its valid reading -/
def expectedVals (env : Env) (hook : Bool) (p : IRPlugin) : List (Str × Option Val) :=
  match schemaOf declaredSchemas hook p.name with
  | none => []
  | some sch =>
    let d := declaredFor sch p.args
    (p.args.filter (fun kv => !isExtern d kv.1)).map fun kv => (kv.1, argReading env sch d p.args kv)

def delayValid (s : Str) : Bool :=
  s.isEmpty || (Parse.Spec.inRange 0 (2 ^ 31) (Parse.Spec.intNumeral? s)).isSome

def rulesetValid (env : Env) (r : IRRuleset) : Bool :=
  !r.name.isEmpty && delayValid r.postActionDelay && delayValid r.prekillHookTimeout &&
  r.dgs.all (fun g => !g.name.isEmpty && g.detectors.all (pluginValid env false)) &&
  r.acts.all (pluginValid env false)

/-- the validity the property demands of an accepted configuration -/
def irValid (env : Env) (root : IRRoot) : Bool :=
  root.rulesets.all (rulesetValid env) && root.prekillHooks.all (pluginValid env true)

/-! ### honoured exactly -/

/-- element-wise relation between two lists of the same length -/
def Forall2 {α β : Type} (R : α → β → Prop) : List α → List β → Prop
  | [], [] => True
  | a :: as, b :: bs => R a b ∧ Forall2 R as bs
  | _, _ => False

/-- the instance is the IR's plugin: its name, precisely the given arguments, and for every
    argument the parser reads the stored value is the valid reading of the given string -/
def instHonours (env : Env) (hook : Bool) (p : IRPlugin) (i : PluginInst) : Prop :=
  i.name = p.name ∧ i.args = p.args ∧
    i.vals.map (fun kv => (kv.1, some kv.2)) = expectedVals env hook p

def groupHonours (env : Env) (g : IRDetectorGroup) (c : DetectorGroupC) : Prop :=
  c.name = g.name ∧ Forall2 (instHonours env false) g.detectors c.detectors

/-- a delay field: absent = the default, else a whole non-negative `int` -/
def delayReading (dflt : Nat) (s : Str) : Option Int :=
  if s.isEmpty then some (dflt : Int) else Parse.Spec.inRange 0 (2 ^ 31) (Parse.Spec.intNumeral? s)

def rulesetHonours (env : Env) (r : IRRuleset) (c : RulesetC) : Prop :=
  c.name = r.name ∧ Forall2 (groupHonours env) r.dgs c.dgs ∧ Forall2 (instHonours env false) r.acts c.acts ∧
  delayReading defaultPostActionDelay r.postActionDelay = some c.postActionDelay ∧
  delayReading defaultPrekillHookTimeout r.prekillHookTimeout = some c.prekillHookTimeout ∧
  c.disableOnDropIn = r.disableOnDropIn ∧ c.dgDropIn = r.detectorgroupsEnabled ∧
  c.actDropIn = r.actiongroupEnabled ∧ c.xattrFilter = r.xattrFilter ∧
  c.cgroup = (if r.cgroup.isEmpty then none else some (Path.mk env.fs r.cgroup))

/-- rulesets, groups and plugins in the order of the configuration, each honoured -/
def engineHonours (env : Env) (root : IRRoot) (e : EngineC) : Prop :=
  Forall2 (rulesetHonours env) root.rulesets e.rulesets ∧ Forall2 (instHonours env true) root.prekillHooks e.hooks

/-- validity of a drop-in document against the base configuration -/
def dropInValid (env : Env) (root dropin : IRRoot) : Bool :=
  dropin.rulesets.all (fun d => rulesetValid env d && root.rulesets.any (fun b => b.name == d.name)) &&
  dropin.prekillHooks.all (pluginValid env true)

end Spec

end OomdModel.Config

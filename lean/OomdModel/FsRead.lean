import OomdModel.Path

/-!
# Model of the file readers of `src/oomd/util/Fs.cpp` (C15; crash points shared with C10)

Every reader is a function of the file's lines (`readFileByLine`) to `Res`:

* `ok v`         the `SystemMaybe` holds a value,
* `unavailable`  the `SystemMaybe` holds an error (`std::nullopt` at the `CgroupContext` level),
* `crash why`    the C++ leaves the function by an exception (`std::stoll("")`, `.at`) or performs an
                 unchecked index (`(*lines)[0]` on an empty vector).  Those are C10's business; here they
                 are only kept distinct from `unavailable`.

libc parsers (`strtoll` behind `std::stoll` and `sscanf %d/%ld/%lu`, `strtof` behind `std::stof`) are
modelled by their accepted prefix language: optional white space, optional sign, decimal digits
(`strtof`: digits with an optional fraction; exponents, hex floats, `inf`, `nan` are outside the
kernel's grammar and outside this model).  Written from the code line by line, as it is after the
`fix:` commits af9b740 (empty control file = error), 183405d (= `fixes/C15-readdir-dtype.patch`:
directories found through the `fstatat` fallback of `readDirFromDIR` are returned as directories),
ed41fc7 (missing `pswpout`) and 8db4465 (missing `pgscan`).
-/

namespace OomdModel.FsRead
open OomdModel.Path (Str split)

inductive Res (α : Type) where
  | ok (a : α)
  | unavailable
  | crash (why : String)
deriving Repr

namespace Res
def bind {α β} (r : Res α) (f : α → Res β) : Res β :=
  match r with
  | ok a => f a
  | unavailable => unavailable
  | crash w => crash w
def map {α β} (f : α → β) (r : Res α) : Res β := r.bind (fun a => ok (f a))
def toOption {α} : Res α → Option α
  | ok a => some a
  | _ => none
def isCrash {α} : Res α → Bool
  | crash _ => true
  | _ => false
end Res

def s (x : String) : Str := x.toList

/-! ## characters and numbers -/

/-- C `isspace` in the "C" locale -/
def isSpaceC (c : Char) : Bool :=
  c = ' ' || c = '\t' || c = '\n' || c = '\x0b' || c = '\x0c' || c = '\r'

def isDigitC (c : Char) : Bool := c.toNat ≥ 48 && c.toNat ≤ 57
def digitVal (c : Char) : Nat := c.toNat - 48

def digitChar : Nat → Char
  | 0 => '0' | 1 => '1' | 2 => '2' | 3 => '3' | 4 => '4'
  | 5 => '5' | 6 => '6' | 7 => '7' | 8 => '8' | _ => '9'

def natOfDigits (ds : Str) : Nat := ds.foldl (fun a c => 10 * a + digitVal c) 0

/-- decimal rendering (what the kernel's `%llu` and `std::to_string` print) -/
def renderNat (n : Nat) : Str :=
  if _h : n < 10 then [digitChar n] else renderNat (n / 10) ++ [digitChar (n % 10)]
termination_by n
decreasing_by omega

def renderInt (v : Int) : Str :=
  if v < 0 then '-' :: renderNat v.natAbs else renderNat v.natAbs

def int64Max : Int := 9223372036854775807
def int64Min : Int := -9223372036854775808
def uint64Max : Nat := 18446744073709551615

/-- two's complement reinterpretation `uint64_t → int64_t` / wrap of an out-of-range value -/
def wrap64 (v : Int) : Int :=
  let m := v % 18446744073709551616
  if m > int64Max then m - 18446744073709551616 else m

def wrap32 (v : Int) : Int :=
  let m := v % 4294967296
  if m > 2147483647 then m - 4294967296 else m

/-- value modulo 2^64 (`uint64_t` arithmetic) -/
def wrapU64 (v : Int) : Nat := (v % 18446744073709551616).toNat

/-- optional sign: (negative?, rest) -/
def signOf (t : Str) : Bool × Str :=
  match t with
  | c :: r => if c = '-' then (true, r) else if c = '+' then (false, r) else (false, c :: r)
  | [] => (false, [])

/-- `strtol`-family prefix scan: white space, optional sign, at least one digit. Returns the
mathematical value and the unread rest. -/
def scanInt (str : Str) : Option (Int × Str) :=
  let (neg, t) := signOf (str.dropWhile isSpaceC)
  let ds := t.takeWhile isDigitC
  let rest := t.dropWhile isDigitC
  if ds.isEmpty then none
  else some (if neg then -(natOfDigits ds : Int) else (natOfDigits ds : Int), rest)

/-- `std::stoll` -/
def stoll (str : Str) : Res Int :=
  match scanInt str with
  | none => .crash "stoll:invalid_argument"
  | some (v, _) => if int64Min ≤ v ∧ v ≤ int64Max then .ok v else .crash "stoll:out_of_range"

/-- `std::stoi` -/
def stoi (str : Str) : Res Int :=
  match scanInt str with
  | none => .crash "stoi:invalid_argument"
  | some (v, _) => if -2147483648 ≤ v ∧ v ≤ 2147483647 then .ok v else .crash "stoi:out_of_range"

/-- `std::stoull` (negative input is negated in unsigned arithmetic, as `strtoull` does) -/
def stoull (str : Str) : Res Nat :=
  match scanInt str with
  | none => .crash "stoull:invalid_argument"
  | some (v, _) =>
    if v.natAbs ≤ uint64Max then .ok (wrapU64 v) else .crash "stoull:out_of_range"

/-- `sscanf("%lu")` : `strtoul` semantics, saturating -/
def scanU64 (str : Str) : Option (Nat × Str) :=
  match scanInt str with
  | none => none
  | some (v, r) => some (if v.natAbs ≤ uint64Max then wrapU64 v else uint64Max, r)

/-- `sscanf("%ld")` : `strtol` semantics, saturating -/
def scanI64 (str : Str) : Option (Int × Str) :=
  match scanInt str with
  | none => none
  | some (v, r) => some (if v < int64Min then int64Min else if v > int64Max then int64Max else v, r)

/-- `sscanf("%d")` : converted as `long`, stored into an `int` -/
def scanI32 (str : Str) : Option (Int × Str) :=
  match scanI64 str with
  | none => none
  | some (v, r) => some (wrap32 v, r)

/-- a literal of a `scanf` format: exact characters -/
def scanLit : Str → Str → Option Str
  | [], t => some t
  | c :: cs, d :: ds => if c = d then scanLit cs ds else none
  | _ :: _, [] => none

/-- a white-space directive of a `scanf` format: any amount of white space, also none -/
def scanWs (t : Str) : Str := t.dropWhile isSpaceC

/-! ## decimals (`std::stof` on the kernel's `%lu.%02lu`) -/

/-- value `(-1)^neg * mant / 10^exp` -/
structure Dec where
  neg : Bool
  mant : Nat
  exp : Nat
deriving Repr, DecidableEq

/-- `strtof` prefix scan restricted to `[ws][sign]digits[.digits]` with at least one digit -/
def scanDec (str : Str) : Option (Dec × Str) :=
  let (neg, t) := signOf (str.dropWhile isSpaceC)
  let ip := t.takeWhile isDigitC
  let t1 := t.dropWhile isDigitC
  match t1 with
  | '.' :: t2 =>
    let fp := t2.takeWhile isDigitC
    if ip.isEmpty && fp.isEmpty then none
    else some ({ neg := neg, mant := natOfDigits (ip ++ fp), exp := fp.length }, t2.dropWhile isDigitC)
  | _ => if ip.isEmpty then none else some ({ neg := neg, mant := natOfDigits ip, exp := 0 }, t1)

def stof (str : Str) : Res Dec :=
  match scanDec str with
  | none => .crash "stof:invalid_argument"
  | some (d, _) => .ok d

/-! ## `readFileByLine` -/

/-- `getline` loop: lines without their terminator; a last unterminated fragment counts when non-empty -/
def linesGo : Str → Str → List Str
  | [], cur => if cur.isEmpty then [] else [cur.reverse]
  | c :: cs, cur => if c = '\n' then cur.reverse :: linesGo cs [] else linesGo cs (c :: cur)

def linesOf (content : Str) : List Str := linesGo content []

/-- `vec[i]` with `_GLIBCXX_ASSERTIONS` / undefined behaviour otherwise -/
def idx {α} (l : List α) (i : Nat) (what : String) : Res α :=
  match l[i]? with
  | some a => .ok a
  | none => .crash ("index:" ++ what)

/-! ## single-value files -/

/-- `Fs::readMemcurrentAt`, `readSwapCurrentAt`, `readPidsCurrentAt`: an empty file is an error
(fix af9b740), otherwise `stoll((*lines)[0])` -/
def readFirstLineInt (lines : List Str) : Res Int :=
  match lines with
  | [] => .unavailable
  | l :: _ => stoll l

def maxStr : Str := s "max"

/-- `Fs::readMinMaxLowHighFromLines` -/
def readMinMaxLowHigh (lines : List Str) : Res Int :=
  match lines with
  | [l] => if l = maxStr then .ok int64Max else stoll l
  | _ => .unavailable

/-- `Fs::readMemhightmpFromLines` -/
def readMemhightmp (lines : List Str) : Res Int :=
  match lines with
  | [l] =>
    match split l ' ' with
    | [t0, _] => if t0 = maxStr then .ok int64Max else stoll t0
    | _ => .unavailable
  | _ => .unavailable

/-- `Fs::readMemoryOomGroupAt` -/
def readOomGroup (lines : List Str) : Res Bool := .ok (lines == [s "1"])

/-- `Fs::readIsPopulatedAt` (cgroup.events) -/
def readIsPopulated : List Str → Res Bool
  | [] => .unavailable
  | line :: rest =>
    match split line ' ' with
    | [k, v] =>
      if k = s "populated" then
        (if v = s "1" then .ok true else if v = s "0" then .ok false else .unavailable)
      else readIsPopulated rest
    | _ => readIsPopulated rest

/-! ## PSI files -/

structure Pressure where
  a10 : Dec
  a60 : Dec
  a300 : Dec
  /-- `std::chrono::microseconds(std::stoull(..))`: the count is an `int64_t` -/
  total : Option Int
deriving Repr, DecidableEq

inductive PsiFormat where
  | missing | invalid | experimental | upstream
deriving Repr, DecidableEq

def startsWith (pre str : Str) : Bool := pre.isPrefixOf str

/-- `getPsiFormat` -/
def psiFormat (lines : List Str) : PsiFormat :=
  match lines with
  | [] => .missing
  | first :: _ =>
    if startsWith (s "some") first && lines.length ≥ 2 then .upstream
    else if startsWith (s "aggr") first && lines.length ≥ 3 then .experimental
    else .invalid

/-- `key=value` token: checks the key, returns the text after `=` (`kv[1]`, unchecked in the code) -/
def psiKV (tok : Str) (key : String) : Res Str :=
  let kv := split tok '='
  (idx kv 0 "kv[0]").bind fun k =>
    if k ≠ s key then .unavailable else idx kv 1 "kv[1]"

/-- `Fs::readRespressureFromLines`; `full = false` is `PressureType::SOME` -/
def readPressure (lines : List Str) (full : Bool) : Res Pressure :=
  let i := if full then 1 else 0
  let name := if full then s "full" else s "some"
  match psiFormat lines with
  | .missing => .unavailable
  | .invalid => .unavailable
  | .upstream =>
    (idx lines i "lines[i]").bind fun line =>
    let toks := split line ' '
    (idx toks 0 "toks[0]").bind fun t0 =>
    if t0 ≠ name then .unavailable else
    (idx toks 1 "toks[1]").bind fun t1 => (psiKV t1 "avg10").bind fun v10 =>
    (idx toks 2 "toks[2]").bind fun t2 => (psiKV t2 "avg60").bind fun v60 =>
    (idx toks 3 "toks[3]").bind fun t3 => (psiKV t3 "avg300").bind fun v300 =>
    (idx toks 4 "toks[4]").bind fun t4 => (psiKV t4 "total").bind fun vt =>
    (stof v10).bind fun a => (stof v60).bind fun b => (stof v300).bind fun c =>
    (stoull vt).bind fun t =>
    .ok { a10 := a, a60 := b, a300 := c, total := some (wrap64 t) }
  | .experimental =>
    (idx lines (i + 1) "lines[i+1]").bind fun line =>
    let toks := split line ' '
    (idx toks 0 "toks[0]").bind fun t0 =>
    if t0 ≠ name then .unavailable else
    (idx toks 1 "toks[1]").bind fun t1 => (idx toks 2 "toks[2]").bind fun t2 =>
    (idx toks 3 "toks[3]").bind fun t3 =>
    (stof t1).bind fun a => (stof t2).bind fun b => (stof t3).bind fun c =>
    .ok { a10 := a, a60 := b, a300 := c, total := none }

/-! ## `key value` files (`memory.stat`, `cgroup.stat`) -/

/-- `sscanf(line, "%255s %lu\n", name, &val) == 2` -/
def scanKV (line : Str) : Option (Str × Int) :=
  let t := line.dropWhile isSpaceC
  let tok := t.takeWhile (fun c => !isSpaceC c)
  let name := tok.take 255
  let rest := t.drop name.length
  if name.isEmpty then none else
  match scanU64 rest with
  | none => none
  | some (v, _) => some (name, wrap64 v)   -- stored into an int64_t map

/-- `map[name] = val` -/
def kvInsert (m : List (Str × Int)) (k : Str) (v : Int) : List (Str × Int) :=
  match m with
  | [] => [(k, v)]
  | (k', v') :: rest => if k' = k then (k, v) :: rest else (k', v') :: kvInsert rest k v

def kvLookup (m : List (Str × Int)) (k : Str) : Option Int :=
  match m with
  | [] => none
  | (k', v) :: rest => if k' = k then some v else kvLookup rest k

/-- `Fs::getMemstatLikeFromLines` -/
def readKVMap (lines : List Str) : List (Str × Int) :=
  lines.foldl (fun m line => match scanKV line with
    | some (k, v) => kvInsert m k v
    | none => m) []

/-- `Fs::getNrDyingDescendantsAt`: `map["nr_dying_descendants"]`, 0 when absent -/
def readNrDying (lines : List Str) : Res Int :=
  .ok ((kvLookup (readKVMap lines) (s "nr_dying_descendants")).getD 0)

/-! ## io.stat -/

structure DevStat where
  major : Int
  minor : Int
  rbytes : Int
  wbytes : Int
  rios : Int
  wios : Int
  dbytes : Int
  dios : Int
deriving Repr, DecidableEq

/-- `std::to_string(major) + ":" + std::to_string(minor)` -/
def DevStat.devId (d : DevStat) : Str := renderInt d.major ++ ':' :: renderInt d.minor

/-- one `sscanf` with the format of `Fs::readIostatAt`; `none` when fewer than 8 conversions succeed -/
def scanIoLine (line : Str) : Option DevStat :=
  (scanI32 line).bind fun (maj, t) =>
  (scanLit [':'] t).bind fun t =>
  (scanI32 t).bind fun (mnr, t) =>
  (scanLit (s "rbytes=") (scanWs t)).bind fun t => (scanI64 t).bind fun (rb, t) =>
  (scanLit (s "wbytes=") (scanWs t)).bind fun t => (scanI64 t).bind fun (wb, t) =>
  (scanLit (s "rios=") (scanWs t)).bind fun t => (scanI64 t).bind fun (ri, t) =>
  (scanLit (s "wios=") (scanWs t)).bind fun t => (scanI64 t).bind fun (wi, t) =>
  (scanLit (s "dbytes=") (scanWs t)).bind fun t => (scanI64 t).bind fun (db, t) =>
  (scanLit (s "dios=") (scanWs t)).bind fun t => (scanI64 t).bind fun (di, _) =>
  some { major := maj, minor := mnr, rbytes := rb, wbytes := wb, rios := ri, wios := wi,
         dbytes := db, dios := di }

/-- `Fs::readIostatAt`: any malformed line makes the whole file unavailable -/
def readIoStat : List Str → Res (List DevStat)
  | [] => .ok []
  | line :: rest =>
    match scanIoLine line with
    | none => .unavailable
    | some d => (readIoStat rest).map (d :: ·)

/-! ## xattrs -/

/-- `Fs::readKillPreferenceAt` given the presence of the four xattrs (errors other than
"no such attribute" are not modelled): PREFER = 1, NORMAL = 0, AVOID = -1 -/
def killPreference (sysPrefer userPrefer sysAvoid userAvoid : Bool) : Int :=
  if sysPrefer then 1 else if userPrefer then 1 else if sysAvoid then -1 else if userAvoid then -1 else 0

/-! ## directory listing -/

/-- kinds of directory entries as `d_type` / `st_mode` report them -/
inductive EntKind where
  | dir | reg | other
deriving Repr, DecidableEq

/-- `Fs::readDirFromDIR(d, DE_DIR)` as fixed by `fixes/C15-readdir-dtype.patch` (commit 183405d): the names of the
directories, dot files skipped, whether or not the filesystem fills in `d_type`.
(Unfixed code: with `d_type == DT_UNKNOWN` directories are appended to `files`, `dirs` stays empty.) -/
def readDirDirs (ents : List (Str × EntKind)) (_dtypeSupported : Bool) : List Str :=
  (ents.filter fun e => e.1.head? ≠ some '.' && e.2 == .dir).map (·.1)

/-- the unfixed code, kept for the counterexample theorem -/
def readDirDirsUnfixed (ents : List (Str × EntKind)) (dtypeSupported : Bool) : List Str :=
  if dtypeSupported then readDirDirs ents true else []

/-! ## /proc files read by `Oomd::updateContext` and the root cgroup -/

/-- `sscanf(line, "%255[^:]:%*[ \t]%lu%*s\n")  == 2`, value `* 1024` in `uint64_t`, stored as `int64_t` -/
def scanMeminfoLine (line : Str) : Option (Str × Int) :=
  let name := (line.takeWhile (· ≠ ':')).take 255
  let t := line.drop name.length
  if name.isEmpty then none else
  match t with
  | ':' :: t1 =>
    let pad := t1.takeWhile (fun c => c = ' ' || c = '\t')
    if pad.isEmpty then none else
    match scanU64 (t1.drop pad.length) with
    | none => none
    | some (v, _) => some (name, wrap64 ((v : Int) * 1024))
  | _ => none

/-- `Fs::getMeminfo` -/
def readMeminfo (lines : List Str) : List (Str × Int) :=
  lines.foldl (fun m line => match scanMeminfoLine line with
    | some (k, v) => kvInsert m k v
    | none => m) []

/-- `Fs::readRootMemcurrent` -/
def readRootMemcurrent (lines : List Str) : Res Int :=
  let m := readMeminfo lines
  match kvLookup m (s "MemTotal"), kvLookup m (s "MemFree") with
  | some t, some f => .ok (t - f)
  | _, _ => .unavailable

/-- `Fs::getVmstat`: `key<space>rest`, `stoll(rest)`; a line without a space makes the file unavailable -/
def readVmstat (lines : List Str) : Res (List (Str × Int)) :=
  lines.foldl (fun acc line => acc.bind fun m =>
    let key := line.takeWhile (· ≠ ' ')
    if key.length = line.length then .unavailable else
    (stoll (line.drop (key.length + 1))).bind fun v => .ok (kvInsert m key v)) (.ok [])

/-- `/proc/swaps` part of `Oomd::updateContext`: (total, used) in bytes, `uint64_t` accumulators -/
def readSwaps (lines : List Str) : Res (Nat × Nat) :=
  (lines.drop 1).foldl (fun acc line => acc.bind fun (tot, used) =>
    match split line '\t' with
    | [_, sz, us, _] =>
      (stoll sz).bind fun a => (stoll us).bind fun b =>
        .ok (wrapU64 (tot + wrap64 (a * 1024)), wrapU64 (used + wrap64 (b * 1024)))
    | _ => .crash "runtime_error:/proc/swaps malformed") (.ok (0, 0))

/-- `Fs::getSwappiness` -/
def readSwappiness (lines : List Str) : Res Int :=
  match lines with
  | [l] => stoi l
  | _ => .unavailable

end OomdModel.FsRead

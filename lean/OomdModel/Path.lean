/-!
# Model of `CgroupPath` (src/oomd/include/CgroupPath.cpp), `Util::split`
(src/oomd/util/Util.cpp) and the part of `glob(3)` that
`CgroupPath::resolveWildcard` relies on.

Strings are `List Char`.  Everything here is executable; the driver runs these
definitions on the same inputs as the C++ and the two outputs are compared
(engine `h_path`).
-/

namespace OomdModel.Path

abbrev Str := List Char

/-! ## `Util::split(line, delim)` : non-empty pieces between delimiters -/

/-- `cur` is the piece being accumulated, reversed. -/
def splitGo (d : Char) : Str → Str → List Str
  | [], cur => if cur.isEmpty then [] else [cur.reverse]
  | c :: cs, cur =>
    if c = d then
      (if cur.isEmpty then splitGo d cs [] else cur.reverse :: splitGo d cs [])
    else splitGo d cs (c :: cur)

def split (s : Str) (d : Char) : List Str := splitGo d s []

/-- `relative_cache_` : parts joined by `/` (no leading / trailing separator). -/
def joinSlash : List Str → Str
  | [] => []
  | [p] => p
  | p :: q :: rest => p ++ '/' :: joinSlash (q :: rest)

/-! ## `CgroupPath` -/

structure CgPath where
  fs : Str
  parts : List Str
deriving DecidableEq, Repr

/-- constructor: one trailing `/` of the fs root is stripped when it is longer than 1 -/
def stripFs (fs : Str) : Str :=
  if fs.length > 1 ∧ fs.getLast? = some '/' then fs.dropLast else fs

def mk (fs path : Str) : CgPath := { fs := stripFs fs, parts := split path '/' }

def relative (p : CgPath) : Str := joinSlash p.parts

def absolute (p : CgPath) : Str :=
  let r := relative p
  if r.isEmpty then p.fs else p.fs ++ '/' :: r

def isRoot (p : CgPath) : Bool := p.parts.isEmpty

/-- `getParent` throws `std::invalid_argument` on the root: `none`. -/
def getParent (p : CgPath) : Option CgPath :=
  if isRoot p then none else some { p with parts := p.parts.dropLast }

def getChild (p : CgPath) (c : Str) : CgPath := { p with parts := p.parts ++ split c '/' }

/-- `operator==` compares `absolutePath()`; `std::hash` hashes `absolutePath()`. -/
def eqv (p q : CgPath) : Bool := absolute p == absolute q

def hashWith (H : Str → Nat) (p : CgPath) : Nat := H (absolute p)

/-! ## `hasDescendantWithPrefixMatching` -/

def star : Str := ['*']

def compMatch (path pat : Str) : Bool := path == pat || pat == star

def prefixMatchParts : List Str → List Str → Bool
  | [], _ => true
  | _, [] => true
  | a :: as, b :: bs => compMatch a b && prefixMatchParts as bs

def prefixMatch (path pattern : CgPath) : Bool := prefixMatchParts path.parts pattern.parts

/-! ## `fnmatch(3)`: `*`, `?`, bracket expressions (`[abc]`, `[a-c]`, `[!a]` / `[^a]`, a leading `]` is literal, an
unterminated `[` is literal), backslash escapes and literal characters, with the leading-period rule (`glob` passes
`FNM_PERIOD`).  Character classes (`[:alpha:]`), collating symbols and brace alternatives (`GLOB_BRACE`, expanded by glob
before matching) are outside the model (generated only in the malformed stream and compared for outcome class). -/

def firstClose : Str → Option Nat
  | [] => none
  | c :: cs => if c == ']' then some 0 else (firstClose cs).map (· + 1)

/-- position, in the text after `[`, of the `]` that closes the bracket expression -/
def closeIdx (ps : Str) : Option Nat :=
  let start := match ps with
    | '!' :: _ => 1
    | '^' :: _ => 1
    | _ => 0
  let skip := match ps.drop start with
    | ']' :: _ => 1          -- a `]` in first position is an ordinary member
    | _ => 0
  match firstClose (ps.drop (start + skip)) with
  | some k => some (start + skip + k)
  | none => none

/-- the members of a bracket expression as closed ranges -/
def classItems : Str → List (Char × Char)
  | a :: '-' :: b :: rest => (a, b) :: classItems rest
  | a :: rest => (a, a) :: classItems rest
  | [] => []

/-- does `c` match the bracket expression whose text (between `[` and the closing `]`) is `body` -/
def classMatch (body : Str) (c : Char) : Bool :=
  let (neg, items) := match body with
    | '!' :: r => (true, classItems r)
    | '^' :: r => (true, classItems r)
    | r => (false, classItems r)
  (items.any fun (lo, hi) => decide (lo ≤ c) && decide (c ≤ hi)) != neg

def fnm : Str → Str → Bool
  | [], [] => true
  | [], _ :: _ => false
  | '*' :: ps, [] => fnm ps []
  | '*' :: ps, c :: cs => fnm ps (c :: cs) || fnm ('*' :: ps) cs
  | _ :: _, [] => false
  | '[' :: ps, c :: cs =>
    match closeIdx ps with
    | some n => classMatch (ps.take n) c && fnm (ps.drop (n + 1)) cs
    | none => c == '[' && fnm ps cs
  | '\\' :: p :: ps, c :: cs => p == c && fnm ps cs
  | p :: ps, c :: cs => (p == '?' || p == c) && fnm ps cs
termination_by p s => p.length + s.length
decreasing_by
  all_goals simp_wf
  all_goals (try simp only [List.length_drop]) <;> omega

/-- `fnmatch(pat, name, FNM_PERIOD)` -/
def fnmatch (pat name : Str) : Bool :=
  match name, pat with
  | '.' :: _, '.' :: _ => fnm pat name
  | '.' :: _, '\\' :: '.' :: _ => fnm pat name      -- an escaped period is an explicit period
  | '.' :: _, _ => false
  | _, _ => fnm pat name

/-- backslash-escape of every character `glob(3)` (with `GLOB_BRACE`) gives a meaning to: what `Ruleset::
registerRunnableRulesetForCgroupPath` does to a cgroup's path before handing it to a plugin as its `cgroup` pattern -/
def escChar (c : Char) : Str :=
  if c == '\\' || c == '*' || c == '?' || c == '[' || c == '{' then ['\\', c] else [c]

def globEscape (s : Str) : Str := s.flatMap escChar

def hasMeta (pat : Str) : Bool := pat.any (fun c => c == '*' || c == '?' || c == '[' || c == '\\')

/-! ## A directory tree and the glob walk

A tree is given by the list of its directories and of its regular files, each
as a list of components from the top of the scratch area.  `fsAt` is the
position of the cgroup-fs root inside it.  `.` and `..` are directory entries
as in a real file system. -/

structure Tree where
  dirs : List (List Str)
  files : List (List Str)
deriving Repr

def dot : Str := ['.']
def dotdot : Str := ['.', '.']

def Tree.isDir (t : Tree) (p : List Str) : Bool := t.dirs.contains p

/-- names in directory `p` that are themselves directories (glob runs with `GLOB_ONLYDIR`, and
`Fs::glob` double-checks with `isDir`), including `.` and `..` -/
def Tree.dirEntries (t : Tree) (p : List Str) : List Str :=
  dot :: dotdot :: (t.dirs.filterMap fun d =>
    if d.length = p.length + 1 ∧ d.dropLast = p then d.getLast? else none)

/-- follow one component from directory `cur` -/
def Tree.step (t : Tree) (cur : List Str) (c : Str) : Option (List Str) :=
  if c = dot then some cur
  else if c = dotdot then some cur.dropLast
  else if t.isDir (cur ++ [c]) then some (cur ++ [c]) else none

def candidates (t : Tree) (cur : List Str) (pat : Str) : List Str :=
  if hasMeta pat then (t.dirEntries cur).filter (fnmatch pat) else [pat]

/-- component lists (as written, i.e. possibly containing `.`/`..`) produced by the walk -/
def walk (t : Tree) : List Str → List Str → List Str → List (List Str)
  | [], _, acc => [acc]
  | p :: ps, cur, acc =>
    (candidates t cur p).flatMap fun c =>
      match t.step cur c with
      | some cur' => walk t ps cur' (acc ++ [c])
      | none => []

/-- `resolveWildcard` for a pattern path whose fs root is the directory `fsAt` of the tree:
the relative paths of the `CgroupPath`s returned (the prefix filter keeps all of them, see
`OomdProps.C16`). -/
def resolve (t : Tree) (fsAt : List Str) (pattern : CgPath) : List (List Str) :=
  if t.isDir fsAt then walk t pattern.parts fsAt [] else []

/-! ## `GLOB_BRACE`

`Fs::glob` passes `GLOB_BRACE`: before anything is matched, glob rewrites the pattern text: the first `{` that has a matching
`}` is replaced, once per comma-separated alternative at its own nesting level, by that alternative (`{a}` is `a`, `{}` is the
empty text); the results are expanded again.  A `{` without a matching `}` is an ordinary character.  Alternatives may contain `/`
(the text is the whole relative path), so expansion happens on the joined path, not per component. -/

/-- scan the text after a `{`: `depth` open inner braces, `cur` = current alternative (reversed), `alts` = finished ones
(reversed).  Returns the alternatives and the text after the matching `}`. -/
def braceScan : Nat → Str → List Str → Str → Option (List Str × Str)
  | _, _, _, [] => none
  | 0, cur, alts, '}' :: rest => some ((cur.reverse :: alts).reverse, rest)
  | 0, cur, alts, ',' :: rest => braceScan 0 [] (cur.reverse :: alts) rest
  | d, cur, alts, '{' :: rest => braceScan (d + 1) ('{' :: cur) alts rest
  | d + 1, cur, alts, '}' :: rest => braceScan d ('}' :: cur) alts rest
  | d, cur, alts, c :: rest => braceScan d (c :: cur) alts rest

/-- first expandable brace: (text before it, alternatives, text after it) -/
def firstBrace : Str → Str → Option (Str × List Str × Str)
  | _, [] => none
  | pre, '{' :: rest =>
    match braceScan 0 [] [] rest with
    | some (alts, post) => some (pre.reverse, alts, post)
    | none => firstBrace ('{' :: pre) rest
  | pre, c :: rest => firstBrace (c :: pre) rest

/-- all expansions, in glob's order (fuel: every step removes one `{`) -/
def braceExpand : Nat → Str → List Str
  | 0, s => [s]
  | n + 1, s =>
    match firstBrace [] s with
    | none => [s]
    | some (pre, alts, post) => alts.flatMap fun a => braceExpand n (pre ++ a ++ post)

/-- `resolveWildcard` with brace alternatives: each expansion of the relative pattern text is resolved on its own (a
directory matched by two expansions is listed twice, as glob does) -/
def resolveB (t : Tree) (fsAt : List Str) (pattern : CgPath) : List (List Str) :=
  let text := joinSlash pattern.parts
  (braceExpand (text.count '{' + 1) text).flatMap fun s => resolve t fsAt { pattern with parts := split s '/' }

/-- The prefix filter of `resolveWildcard` applied to one path string returned by glob. -/
def prefixFilter (fs path : Str) : Option CgPath :=
  if fs.isPrefixOf path then
    if path.length = fs.length then some (mk fs [])
    else if path[fs.length]? = some '/' then some (mk fs (path.drop (fs.length + 1)))
    else none
  else none

end OomdModel.Path

import Driver.Json
import Driver.Path

def engines : List (String × (Lean.Json → Lean.Json)) :=
  [ ("path", Driver.Path.handle) ]

def main (args : List String) : IO UInt32 := do
  match args with
  | [e] =>
    match engines.lookup e with
    | some f =>
      let i ← IO.getStdin
      let o ← IO.getStdout
      Driver.lineLoop i o f
      return 0
    | none => IO.eprintln s!"unknown engine {e}"; return 2
  | _ => IO.eprintln "usage: driver <engine>"; return 2

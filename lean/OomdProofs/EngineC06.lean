import OomdProofs.EngineC05

/-! Lemmas for C06 (async continuation). -/

namespace OomdModel.Engine

/-- index (in the ruleset's action list) of the action at which the chain suspends, if it does -/
def asyncIdx (sc : Script) : List Nat → Nat → Option Nat
  | [], _ => none
  | a :: as, i =>
    match (sc a).ret with
    | .cont => asyncIdx sc as (i + 1)
    | .stop => none
    | .async => some i

theorem chain_active (cfg : RsCfg) (sc : Script) (inv : Bool) (ctx : Ctx) (as : List Nat) (i now : Nat) (st : RsState)
    (hp : Protocol sc) (hn : st.active = none) :
    (chain cfg sc inv ctx as i now st).1.active = (asyncIdx sc as i).map (fun j => (j, ctx)) := by
  induction as generalizing i now st with
  | nil => simp [chain, asyncIdx, hn]
  | cons a as ih =>
    simp only [chain, asyncIdx]
    cases hr : (sc a).ret
    · have hq : (sc a).pause = none := by
        cases hq : (sc a).pause with
        | none => rfl
        | some d => have := hp a (by simp [hq]); rw [hr] at this; cases this
      simp only [applyPause_none _ _ _ _ hq]
      exact ih _ _ _ hn
    · simp only [Option.map_none]
      unfold onStop applyPause
      cases (sc a).pause <;> cases inv <;> simp [hn] <;> split <;> simp [hn]
    · have hq : (sc a).pause = none := by
        cases hq : (sc a).pause with
        | none => rfl
        | some d => have := hp a (by simp [hq]); rw [hr] at this; cases this
      simp [applyPause_none _ _ _ _ hq]

/-- the suspending action is the last one run, it returned ASYNC_PAUSED, and `j` is its position -/
theorem asyncIdx_spec (sc : Script) (as : List Nat) (i j : Nat) (h : asyncIdx sc as i = some j) :
    ∃ k a, j = i + k ∧ as[k]? = some a ∧ (sc a).ret = .async ∧ takeThrough sc as = as.take (k + 1) := by
  induction as generalizing i with
  | nil => simp [asyncIdx] at h
  | cons a as ih =>
    simp only [asyncIdx] at h
    cases hr : (sc a).ret <;> simp only [hr] at h
    · obtain ⟨k, b, hj, hb, hrb, ht⟩ := ih _ h
      exact ⟨k + 1, b, by omega, by simpa using hb, hrb, by simp [takeThrough, hr, ht]⟩
    · cases h
    · cases h
      exact ⟨0, a, rfl, rfl, hr, by simp [takeThrough, hr]⟩

theorem asyncIdx_none (sc : Script) (as : List Nat) (i : Nat) (h : asyncIdx sc as i = none) :
    ∀ a, (takeThrough sc as).getLast? = some a → (sc a).ret ≠ .async := by
  induction as generalizing i with
  | nil => simp [takeThrough]
  | cons a as ih =>
    simp only [asyncIdx] at h
    cases hr : (sc a).ret <;> simp only [hr] at h
    · intro b hb
      simp only [takeThrough, hr, if_true] at hb
      cases hq : takeThrough sc as with
      | nil =>
        simp only [hq, List.getLast?_singleton, Option.some.injEq] at hb
        subst hb; simp [hr]
      | cons x xs =>
        rw [hq, List.getLast?_cons_cons] at hb
        exact ih _ h b (by rw [hq]; exact hb)
    · intro b hb
      simp [takeThrough, hr] at hb
      subst hb; simp [hr]
    · cases h

/-- state invariant of a ruleset at clock reading `now`: no pending override flag, and a suspended
chain implies the ruleset is not inside a pause -/
def Good (st : RsState) (now : Nat) : Prop :=
  st.overrode = false ∧ (st.active.isSome = true → st.pauseUntil ≤ now)

theorem rsRun_good (cfg : RsCfg) (sc : Script) (st : RsState) (now ctr : Nat)
    (hp : Protocol sc) (hg : Good st now) :
    Good (rsRun true cfg sc st now ctr).1 (rsRun true cfg sc st now ctr).2.2.1 := by
  obtain ⟨o, h1, h2, _, _, h5, h6⟩ := rsRun_spec cfg sc st now ctr hp hg.1
  refine ⟨h1, ?_⟩
  have hclk := detPhase_clock cfg sc cfg.groups now ctr none
  -- generic fact about a chain started at n1 ≥ pauseUntil from a state with active = none
  have key : ∀ (ctx : Ctx) (as : List Nat) (i n1 : Nat) (s0 : RsState),
      s0.overrode = false → s0.active = none → s0.pauseUntil ≤ n1 →
      ((chain cfg sc true ctx as i n1 s0).1.active.isSome = true →
        (chain cfg sc true ctx as i n1 s0).1.pauseUntil ≤ (chain cfg sc true ctx as i n1 s0).2.2) := by
    intro ctx as i n1 s0 h0 ha hle hsome
    rw [chain_active cfg sc true ctx as i n1 s0 hp ha] at hsome
    rw [(chain_state cfg sc ctx as i n1 s0 hp h0).2]
    have hc := chain_clock cfg sc true ctx as i n1 s0
    cases hs : chainStop cfg sc as n1 with
    | none => simp; omega
    | some dl =>
      -- a chain cannot both stop and suspend
      exfalso
      clear hc
      induction as generalizing i n1 with
      | nil => simp [chainStop] at hs
      | cons a as ih =>
        simp only [chainStop] at hs
        simp only [asyncIdx] at hsome
        cases hr : (sc a).ret <;> simp only [hr] at hs hsome
        · exact ih _ _ (by omega) hsome hs
        · simp at hsome
        · cases hs
  unfold rsRun
  simp only
  split
  · rename_i hpz
    intro hs
    have := hg.2 hs
    omega
  · rename_i hnp
    have hle : st.pauseUntil ≤ (detPhase cfg sc cfg.groups now ctr none).2.2.1 := by omega
    split
    · rename_i i actx hact
      split
      · simpa using key actx (cfg.actions.drop i) i _ { st with active := none } hg.1 rfl hle
      · unfold startFresh
        split
        · simpa using key _ cfg.actions 0 _ { st with active := none } hg.1 rfl hle
        · simp
    · rename_i hact
      unfold startFresh
      split
      · simpa using key _ cfg.actions 0 _ st hg.1 hact hle
      · simp [hact]

end OomdModel.Engine

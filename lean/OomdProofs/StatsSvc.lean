import OomdModel.StatsSvc

/-! Helper lemmas for C19 (model: `OomdModel.StatsSvc`). Core Lean only. -/

namespace OomdModel.StatsSvc

section Counters
variable {κ : Type} [DecidableEq κ]

/-! ### counter map -/

theorem get_put_same (m : CMap κ) (k : κ) (v : Int) : get (put m k v) k = some v := by
  induction m with
  | nil => simp [put, get]
  | cons p m ih =>
    obtain ⟨k', v'⟩ := p
    by_cases h : k' = k
    · simp [put, get, h]
    · simp [put, get, h, ih]

theorem get_put_other (m : CMap κ) (k k' : κ) (v : Int) (h : k ≠ k') : get (put m k v) k' = get m k' := by
  induction m with
  | nil => simp [put, get, h]
  | cons p m ih =>
    obtain ⟨k1, v1⟩ := p
    by_cases h1 : k1 = k
    · subst h1; simp [put, get, h]
    · by_cases h2 : k1 = k'
      · subst h2; simp [put, get, h1]
      · simp [put, get, h1, h2, ih]

theorem put_put (m : CMap κ) (k : κ) (a b : Int) : put (put m k a) k b = put m k b := by
  induction m with
  | nil => simp [put]
  | cons p m ih =>
    obtain ⟨k1, v1⟩ := p
    by_cases h1 : k1 = k
    · simp [put, h1]
    · simp [put, h1, ih]

theorem get_reset (m : CMap κ) (k : κ) : get (reset m) k = (get m k).map (fun _ => 0) := by
  induction m with
  | nil => simp [reset, get]
  | cons p m ih =>
    obtain ⟨k1, v1⟩ := p
    by_cases h1 : k1 = k
    · simp [reset, get, h1]
    · simp only [reset, List.map_cons, get, h1, if_false]
      exact ih

omit [DecidableEq κ] in
theorem keys_reset (m : CMap κ) : keys (reset m) = keys m := by
  simp [keys, reset, List.map_map, Function.comp_def]

theorem get_isSome_iff (m : CMap κ) (k : κ) : (get m k).isSome = true ↔ k ∈ keys m := by
  induction m with
  | nil => simp [get, keys]
  | cons p m ih =>
    obtain ⟨k1, v1⟩ := p
    by_cases h1 : k1 = k
    · simp [get, keys, h1]
    · have : ¬ k = k1 := fun e => h1 e.symm
      simp only [get, h1, if_false, keys, List.map_cons, List.mem_cons, this, false_or]
      exact ih

theorem get_increment_same (m : CMap κ) (k : κ) (v : Int) :
    get (increment m k v) k = some ((get m k).getD 0 + v) := get_put_same _ _ _

theorem get_increment_other (m : CMap κ) (k k' : κ) (v : Int) (h : k ≠ k') :
    get (increment m k v) k' = get m k' := get_put_other _ _ _ _ h

/-- closed form of any sequence of increments: nothing is lost -/
theorem get_applyIncs (incs : List (κ × Int)) : ∀ (m : CMap κ) (k : κ),
    get (applyIncs m incs) k =
      if (get m k).isSome || incs.any (fun p => decide (p.1 = k)) then some ((get m k).getD 0 + sumFor k incs) else none := by
  induction incs with
  | nil =>
    intro m k
    cases h : get m k <;> simp [applyIncs, sumFor, h]
  | cons p r ih =>
    intro m k
    obtain ⟨k1, v1⟩ := p
    have e : applyIncs m ((k1, v1) :: r) = applyIncs (increment m k1 v1) r := rfl
    rw [e, ih]
    by_cases h1 : k1 = k
    · subst h1
      simp only [get_increment_same, Option.isSome_some, Bool.true_or, if_true, Option.getD_some, sumFor,
        List.any_cons, decide_true, Bool.or_true]
      congr 1
      omega
    · simp only [get_increment_other _ _ _ _ h1, sumFor, h1, if_false, List.any_cons, decide_false, Bool.false_or]
      simp

theorem sumFor_perm (k : κ) {a b : List (κ × Int)} (h : a.Perm b) : sumFor k a = sumFor k b := by
  induction h with
  | nil => rfl
  | cons x _ ih => obtain ⟨k1, v1⟩ := x; simp [sumFor, ih]
  | swap x y l => obtain ⟨k1, v1⟩ := x; obtain ⟨k2, v2⟩ := y; simp only [sumFor]; omega
  | trans _ _ ih1 ih2 => rw [ih1, ih2]

theorem any_key_perm (k : κ) {a b : List (κ × Int)} (h : a.Perm b) :
    a.any (fun p => decide (p.1 = k)) = b.any (fun p => decide (p.1 = k)) := by
  rw [Bool.eq_iff_iff]
  simp only [List.any_eq_true]
  constructor
  · rintro ⟨x, hx, hk⟩; exact ⟨x, h.mem_iff.1 hx, hk⟩
  · rintro ⟨x, hx, hk⟩; exact ⟨x, h.mem_iff.2 hx, hk⟩

/-! ### a method body run without interference is the atomic step -/

theorem body_atomic (m : CMap κ) (op : Op κ) (l : Local κ) :
    (runMicros m l (body op)).1 = (step m op).1 ∧ retOf op (runMicros m l (body op)).2 = (step m op).2 := by
  cases op with
  | inc k v => simp [body, runMicros, micro, step, retOf, increment, put_put]
  | set k v => simp [body, runMicros, micro, step, retOf, set]
  | reset => simp [body, runMicros, micro, step, retOf]
  | getAll => simp [body, runMicros, micro, step, retOf, getAll]

theorem run_append (m : CMap κ) (a b : List (Op κ)) : run m (a ++ b) = run (run m a) b := by
  simp [run, List.foldl_append]

theorem seqRets_append_single (t u : Nat) (op : Op κ) : ∀ (m : CMap κ) (pre : List (Nat × Op κ)),
    seqRets u m (pre ++ [(t, op)]) =
      seqRets u m pre ++ (if t = u then [(step (run m (pre.map (·.2))) op).2] else []) := by
  intro m pre
  induction pre generalizing m with
  | nil => by_cases h : t = u <;> simp [seqRets, run, h]
  | cons p r ih =>
    obtain ⟨t1, o1⟩ := p
    by_cases h1 : t1 = u
    · simp only [List.cons_append, seqRets, h1, if_true, ih, List.map_cons, run, List.foldl_cons]
    · simp only [List.cons_append, seqRets, h1, if_false, ih, List.map_cons, run, List.foldl_cons]

/-! ### mutual exclusion ⇒ atomicity, for every schedule -/

theorem stepT_done (locked : Bool) (s : Sys κ) (t : Nat) (hc : (s.thr t).cur = none)
    (ht : (s.thr t).todo = []) : stepT locked s t = s := by
  simp [stepT, hc, ht]

theorem stepT_blocked (s : Sys κ) (t : Nat) (hc : (s.thr t).cur = none) (o : Nat)
    (ho : s.owner = some o) : stepT true s t = s := by
  unfold stepT
  simp only [hc, ho]
  cases (s.thr t).todo <;> simp

theorem stepT_acquire (locked : Bool) (s : Sys κ) (t : Nat) (hc : (s.thr t).cur = none) (op : Op κ)
    (rest : List (Op κ)) (ht : (s.thr t).todo = op :: rest) (ho : (locked && s.owner.isSome) = false) :
    stepT locked s t =
      { s with owner := some t,
               thr := upd s.thr t { s.thr t with todo := rest, cur := some (op, body op), loc := {} },
               order := s.order ++ [(t, op)] } := by
  simp [stepT, hc, ht, ho]

theorem stepT_release (locked : Bool) (s : Sys κ) (t : Nat) (op : Op κ)
    (hc : (s.thr t).cur = some (op, [])) :
    stepT locked s t =
      { s with owner := none,
               thr := upd s.thr t { s.thr t with cur := none, rets := (s.thr t).rets ++ [retOf op (s.thr t).loc] } } := by
  simp [stepT, hc]

theorem stepT_micro (locked : Bool) (s : Sys κ) (t : Nat) (op : Op κ) (μ : Micro κ) (μs : List (Micro κ))
    (hc : (s.thr t).cur = some (op, μ :: μs)) :
    stepT locked s t =
      { s with shared := (micro s.shared (s.thr t).loc μ).1,
               thr := upd s.thr t { s.thr t with cur := some (op, μs), loc := (micro s.shared (s.thr t).loc μ).2 } } := by
  simp [stepT, hc]

structure MInv (m0 : CMap κ) (progs : Nat → List (Op κ)) (s : Sys κ) : Prop where
  idle : ∀ t, s.owner ≠ some t → (s.thr t).cur = none
  prog : ∀ t, ((s.order.filter (fun p => p.1 == t)).map (·.2)) ++ (s.thr t).todo = progs t
  free : s.owner = none →
    s.shared = run m0 (s.order.map (·.2)) ∧ ∀ u, (s.thr u).rets = seqRets u m0 s.order
  held : ∀ t, s.owner = some t → ∃ op μs pre,
    (s.thr t).cur = some (op, μs) ∧ s.order = pre ++ [(t, op)] ∧
    (runMicros s.shared (s.thr t).loc μs).1 = (step (run m0 (pre.map (·.2))) op).1 ∧
    retOf op (runMicros s.shared (s.thr t).loc μs).2 = (step (run m0 (pre.map (·.2))) op).2 ∧
    ∀ u, (s.thr u).rets = seqRets u m0 pre

theorem minv_init (m0 : CMap κ) (progs : Nat → List (Op κ)) : MInv m0 progs (initSys m0 progs) where
  idle := by intro t _; rfl
  prog := by intro t; simp [initSys]
  free := by intro _; simp [initSys, run, seqRets]
  held := by intro t h; simp [initSys] at h

theorem minv_step (m0 : CMap κ) (progs : Nat → List (Op κ)) (s : Sys κ) (t : Nat)
    (inv : MInv m0 progs s) : MInv m0 progs (stepT true s t) := by
  cases hc : (s.thr t).cur with
  | none =>
    cases ht : (s.thr t).todo with
    | nil => rw [stepT_done true s t hc ht]; exact inv
    | cons op rest =>
      cases ho : s.owner with
      | some o => rw [stepT_blocked s t hc o ho]; exact inv
      | none =>
        rw [stepT_acquire true s t hc op rest ht (by simp [ho])]
        obtain ⟨hsh, hrets⟩ := inv.free ho
        have hidle : ∀ u, (s.thr u).cur = none := fun u => inv.idle u (by simp [ho])
        refine ⟨?_, ?_, ?_, ?_⟩
        · intro u hu
          have : u ≠ t := fun e => hu (by simp [e])
          simp [upd, this, hidle u]
        · intro u
          by_cases hut : u = t
          · subst hut
            have := inv.prog u
            rw [ht] at this
            simpa [List.filter_append, upd] using this
          · have hne : ¬ (t = u) := fun e => hut e.symm
            have := inv.prog u
            simpa [List.filter_append, upd, hut, hne] using this
        · intro h; simp at h
        · intro t' ht'
          have e : t' = t := by simpa using ht'.symm
          subst e
          refine ⟨op, body op, s.order, by simp [upd], rfl, ?_, ?_, ?_⟩
          · simp only [upd, if_true]
            rw [hsh]; exact (body_atomic _ _ _).1
          · simp only [upd, if_true]
            rw [hsh]; exact (body_atomic _ _ _).2
          · intro u
            by_cases hut : u = t'
            · subst hut; simp [upd, hrets]
            · simp [upd, hut, hrets]
  | some cur =>
    obtain ⟨op, μl⟩ := cur
    have hown : s.owner = some t := by
      by_cases h : s.owner = some t
      · exact h
      · have := inv.idle t h; rw [hc] at this; cases this
    obtain ⟨op', μs', pre, hcur, hord, hm, hr, hrets⟩ := inv.held t hown
    rw [hc] at hcur
    have e1 : op' = op := by cases hcur; rfl
    have e2 : μs' = μl := by cases hcur; rfl
    subst e1 e2
    cases μs' with
    | nil =>
      rw [stepT_release true s t op' hc]
      simp only [runMicros] at hm hr
      refine ⟨?_, ?_, ?_, ?_⟩
      · intro u _
        by_cases hut : u = t
        · simp [upd, hut]
        · have : s.owner ≠ some u := by rw [hown]; intro e; exact hut (by cases e; rfl)
          simp [upd, hut, inv.idle u this]
      · intro u
        have := inv.prog u
        by_cases hut : u = t
        · subst hut; simpa [upd] using this
        · simpa [upd, hut] using this
      · intro _
        refine ⟨?_, ?_⟩
        · show s.shared = run m0 (s.order.map (·.2))
          rw [hord, List.map_append, run_append, hm]
          simp [run]
        · intro u
          show (upd s.thr t _ u).rets = seqRets u m0 s.order
          rw [hord, seqRets_append_single]
          by_cases hut : u = t
          · subst hut; simp [upd, hrets u, hr]
          · have hne : ¬ (t = u) := fun e => hut e.symm
            simp [upd, hut, hne, hrets u]
      · intro t' ht'; simp at ht'
    | cons μ μs =>
      rw [stepT_micro true s t op' μ μs hc]
      refine ⟨?_, ?_, ?_, ?_⟩
      · intro u hu
        have hu' : s.owner ≠ some u := hu
        by_cases hut : u = t
        · subst hut; exact absurd hown hu'
        · simp [upd, hut, inv.idle u hu']
      · intro u
        have := inv.prog u
        by_cases hut : u = t
        · subst hut; simpa [upd] using this
        · simpa [upd, hut] using this
      · intro h
        have : s.owner = none := h
        rw [hown] at this; cases this
      · intro t' ht'
        have ht'' : s.owner = some t' := ht'
        have e : t' = t := by rw [hown] at ht''; cases ht''; rfl
        subst e
        refine ⟨op', μs, pre, by simp [upd], hord, ?_, ?_, ?_⟩
        · simpa [upd, runMicros] using hm
        · simpa [upd, runMicros] using hr
        · intro u
          by_cases hut : u = t'
          · subst hut; simp [upd, hrets u]
          · simp [upd, hut, hrets u]

theorem minv_run (m0 : CMap κ) (progs : Nat → List (Op κ)) (sch : List Nat) :
    ∀ s, MInv m0 progs s → MInv m0 progs (runSched true s sch) := by
  induction sch with
  | nil => intro s h; exact h
  | cons t r ih => intro s h; exact ih _ (minv_step m0 progs s t h)

end Counters

/-! ### processMsg: the loop equals its closed form -/

theorem scanL_spec (stalls : Bool) : ∀ (f : Nat) (bs : List Nat) (first : Bool) (mode : Nat),
    scanL stalls f bs first mode =
      (let pre := bs.take f
       let w := pre.takeWhile (fun b => !isTerm b)
       if w.length < pre.length || pre.length == f || !stalls
       then Scan.mode (if first then w.head?.getD mode else mode) else Scan.readError) := by
  intro f
  induction f with
  | zero => intro bs first mode; simp [scanL]
  | succ f ih =>
    intro bs first mode
    cases bs with
    | nil => cases stalls <;> simp [scanL]
    | cons b bs =>
      by_cases hb : isTerm b = true
      · simp [scanL, hb]
      · simp only [Bool.not_eq_true] at hb
        simp only [scanL, hb, Bool.false_eq_true, if_false, ih, List.take_succ_cons, List.takeWhile_cons,
          Bool.not_false, if_true, List.length_cons, Nat.add_lt_add_iff_right,
          List.head?_cons, Option.getD_some]
        have : ((bs.take f).length + 1 == f + 1) = ((bs.take f).length == f) := by
          rw [Bool.eq_iff_iff]; simp
        rw [this]

theorem readsL_le (stalls : Bool) : ∀ (f : Nat) (bs : List Nat), readsL stalls f bs ≤ f := by
  intro f
  induction f with
  | zero => intro bs; simp [readsL]
  | succ f ih =>
    intro bs
    cases bs with
    | nil => simp [readsL]
    | cons b bs =>
      simp only [readsL]
      split
      · omega
      · have := ih bs; omega

section Handler
variable {κ : Type} [DecidableEq κ]

theorem scan_spec (c : Conn) :
    scan c = if answered c then Scan.mode ((requestWindow c).head?.getD 97) else Scan.readError := by
  simp only [scan, scanL_spec, answered, requestWindow, if_true]
  have : ((List.take window c.bytes).length == window) = ((List.take window c.bytes).length == window) := rfl
  simp

omit [DecidableEq κ] in
theorem replies_exitEvents (fixed replied : Bool) : replies (exitEvents (κ := κ) fixed replied) = [] := by
  cases fixed <;> cases replied <;> rfl

omit [DecidableEq κ] in
theorem decr_exitEvents (fixed replied : Bool) :
    ((exitEvents (κ := κ) fixed replied).filter isDecr).length = if fixed || replied then 1 else 0 := by
  cases fixed <;> cases replied <;> rfl

omit [DecidableEq κ] in
theorem close_exitEvents (fixed replied : Bool) :
    ((exitEvents (κ := κ) fixed replied).filter isClose).length = 1 := by
  cases fixed <;> cases replied <;> rfl

theorem kindOf_cases (md : Nat) :
    (md = 103 ∧ kindOf md = .all) ∨ (md = 114 ∧ kindOf md = .resetAck) ∨ (md = 48 ∧ kindOf md = .noop) ∨
    (md ≠ 103 ∧ md ≠ 114 ∧ md ≠ 48 ∧ kindOf md = .err1) := by
  unfold kindOf
  by_cases h1 : md = 103
  · simp [h1]
  · by_cases h2 : md = 114
    · simp [h2]
    · by_cases h3 : md = 48
      · simp [h3]
      · simp [h1, h2, h3]

omit [DecidableEq κ] in
/-- the handler in closed form -/
theorem handler_spec (fixed : Bool) (c : Conn) (m : CMap κ) :
    replies (handler fixed c m).2 = (expectedReply c m).toList ∧
    (handler fixed c m).1 = (if answered c && ((requestWindow c).head? == some 114) then reset m else m) ∧
    ((handler fixed c m).2.filter isDecr).length = (if fixed || answered c then 1 else 0) ∧
    ((handler fixed c m).2.filter isClose).length = 1 := by
  unfold handler expectedReply replyFor
  rw [scan_spec]
  by_cases ha : answered c = true
  · simp only [ha, if_true, Bool.true_and, Bool.or_true]
    cases hh : (requestWindow c).head? with
    | none =>
      have : kindOf 97 = ReplyKind.err1 := by decide
      simp [this, replies, replies_exitEvents, decr_exitEvents, close_exitEvents, isDecr, isClose]
    | some b =>
      simp only [Option.getD_some]
      rcases kindOf_cases b with ⟨hb, hk⟩ | ⟨hb, hk⟩ | ⟨hb, hk⟩ | ⟨h1, h2, h3, hk⟩
      · subst hb
        simp [hk, replies, replies_exitEvents, decr_exitEvents, close_exitEvents, isDecr, isClose, getAll]
      · subst hb
        simp [hk, replies, replies_exitEvents, decr_exitEvents, close_exitEvents, isDecr, isClose]
      · subst hb
        simp [hk, replies, replies_exitEvents, decr_exitEvents, close_exitEvents, isDecr, isClose]
      · simp [hk, replies, replies_exitEvents, decr_exitEvents, close_exitEvents, isDecr, isClose, h1, h2, h3]
  · simp only [Bool.not_eq_true] at ha
    simp [ha, replies_exitEvents, decr_exitEvents, close_exitEvents]

end Handler

section Handler2
variable {κ : Type} [DecidableEq κ]

/-! ### handler book-keeping -/

/-- how much `thread_count_ − #live handlers` grows in one event: 1 exactly when a handler leaves
    through the early `return` of the unfixed code -/
def leak (fixed : Bool) (s : Svc κ) : SvcEv κ → Int
  | .finish i =>
    match s.live[i]? with
    | some c => if fixed || answered c then 0 else 1
    | none => 0
  | _ => 0

omit [DecidableEq κ] in
theorem leak_nonneg (fixed : Bool) (s : Svc κ) (e : SvcEv κ) : 0 ≤ leak fixed s e := by
  unfold leak
  split
  · split
    · split <;> decide
    · decide
  · decide

omit [DecidableEq κ] in
theorem leak_fixed (s : Svc κ) (e : SvcEv κ) : leak true s e = 0 := by
  unfold leak
  split
  · split <;> simp
  · rfl

/-- `thread_count_ - #live handlers` after one event -/
theorem svcStep_gap (fixed : Bool) (s : Svc κ) (e : SvcEv κ) :
    (svcStep fixed s e).count - ((svcStep fixed s e).live.length : Int) =
      s.count - (s.live.length : Int) + leak fixed s e := by
  cases e with
  | accept c => simp [svcStep, leak]; omega
  | api op => simp [svcStep, leak]
  | finish i =>
    simp only [svcStep, leak]
    cases hl : s.live[i]? with
    | none => simp
    | some c =>
      have hi : i < s.live.length := by
        rcases Nat.lt_or_ge i s.live.length with h | h
        · exact h
        · rw [List.getElem?_eq_none h] at hl; cases hl
      have hd := (handler_spec fixed c s.counters).2.2.1
      simp only [hd, List.length_eraseIdx, hi, if_true]
      by_cases hf : (fixed || answered c) = true
      · simp [hf]; omega
      · simp [hf]; omega

theorem svcRun_cons (fixed : Bool) (s : Svc κ) (e : SvcEv κ) (r : List (SvcEv κ)) :
    svcRun fixed s (e :: r) = svcRun fixed (svcStep fixed s e) r := rfl

theorem mem_takeWhile_pos {α : Type} (p : α → Bool) : ∀ (l : List α) (x : α), x ∈ l.takeWhile p → p x = true := by
  intro l
  induction l with
  | nil => intro x h; simp at h
  | cons a l ih =>
    intro x h
    by_cases ha : p a = true
    · simp only [List.takeWhile_cons, ha, if_true, List.mem_cons] at h
      rcases h with h | h
      · rw [h]; exact ha
      · exact ih x h
    · simp [ha] at h

theorem svcRun_gap_fixed (s : Svc κ) (evs : List (SvcEv κ)) :
    (svcRun true s evs).count - ((svcRun true s evs).live.length : Int) = s.count - (s.live.length : Int) := by
  induction evs generalizing s with
  | nil => rfl
  | cons e r ih =>
    rw [svcRun_cons, ih, svcStep_gap, leak_fixed]
    simp

theorem finish_all (fixed : Bool) : ∀ (n : Nat) (s : Svc κ),
    (svcRun fixed s (List.replicate n (.finish 0))).live = s.live.drop n := by
  intro n
  induction n with
  | zero => intro s; rfl
  | succ n ih =>
    intro s
    show (svcRun fixed (svcStep fixed s (.finish 0)) (List.replicate n (.finish 0))).live = _
    rw [ih]
    cases hl : s.live with
    | nil => simp [svcStep, hl]
    | cons c r => simp [svcStep, hl]

end Handler2

/-! ### socket path -/

theorem strcpyInto_fits (cap : Nat) (src : List Nat) (h : src.length < cap) :
    strcpyInto cap src = (src ++ [0], []) := by
  unfold strcpyInto
  have hl : (src ++ [0]).length ≤ cap := by simp; omega
  rw [List.take_of_length_le hl, List.drop_eq_nil_of_le hl]

theorem strcpyInto_overflows (cap : Nat) (src : List Nat) (h : cap ≤ src.length) :
    (strcpyInto cap src).2.length = src.length + 1 - cap ∧ (strcpyInto cap src).2 ≠ [] := by
  unfold strcpyInto
  constructor
  · simp
  · intro e
    have := congrArg List.length e
    simp at this
    omega

end OomdModel.StatsSvc

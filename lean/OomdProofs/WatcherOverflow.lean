import OomdProofs.Watcher

/-!
# Queue overflow: the re-scan restores what the lost events broke

Lemmas for `C14.overflow_resync_restores_faithfulness`.
-/

namespace OomdModel.Watcher

variable {α : Type}

theorem lastObs_eq_map_lastObsOf (f : String) (obs : List (Obs α)) : lastObs f obs = (lastObsOf f obs).map Obs.load := rfl

/-- an observation list ending in one whose name is `f` -/
theorem lastObsOf_append_hit (f : String) (a b : List (Obs α)) (o : Obs α) (ho : o ∈ b) (hn : o.name = f)
    (huniq : ∀ o' ∈ b, o'.name = f → o' = o) : lastObsOf f (a ++ b) = some o := by
  unfold lastObsOf
  rw [List.reverse_append, List.find?_append]
  have : List.find? (fun o => o.name == f) b.reverse = some o := by
    have hmem : o ∈ b.reverse := List.mem_reverse.2 ho
    cases hfind : List.find? (fun o => o.name == f) b.reverse with
    | none =>
      have := List.find?_eq_none.1 hfind o hmem
      simp [hn] at this
    | some o' =>
      have h1 := List.find?_some hfind
      have h2 := List.mem_of_find?_eq_some hfind
      have : o' = o := huniq o' (List.mem_reverse.1 h2) (by simpa using h1)
      rw [this]
  rw [this]
  rfl

theorem lastObsOf_append_miss (f : String) (a b : List (Obs α)) (hb : ∀ o ∈ b, o.name ≠ f) :
    lastObsOf f (a ++ b) = lastObsOf f a := by
  unfold lastObsOf
  rw [List.reverse_append, List.find?_append]
  have : List.find? (fun o => o.name == f) b.reverse = none := by
    apply List.find?_eq_none.2
    intro o ho
    have := hb o (List.mem_reverse.1 ho)
    simpa using this
  rw [this]
  rfl

theorem mem_obsOfFiles (files : List (String × Load α)) (o : Obs α) :
    o ∈ obsOfFiles files ↔ ∃ p ∈ files, o = Obs.add p.1 p.2 := by
  unfold obsOfFiles
  simp only [List.mem_map]
  constructor
  · rintro ⟨p, hp, rfl⟩
    exact ⟨p, (sortFiles_perm files).mem_iff.1 hp, rfl⟩
  · rintro ⟨p, hp, rfl⟩
    exact ⟨p, (sortFiles_perm files).mem_iff.2 hp, rfl⟩

end OomdModel.Watcher

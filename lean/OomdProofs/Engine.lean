import OomdModel.Engine

/-! Helper definitions and lemmas about the engine model. -/

namespace OomdModel.Engine

/-! ### projections of an event list -/

def detInsts : List Ev → List Nat
  | [] => []
  | Ev.det i _ :: es => i :: detInsts es
  | _ :: es => detInsts es

def actInsts : List Ev → List Nat
  | [] => []
  | Ev.act i _ _ _ :: es => i :: actInsts es
  | _ :: es => actInsts es

def isAct : Ev → Bool
  | Ev.act _ _ _ _ => true
  | _ => false

def isDet : Ev → Bool
  | Ev.det _ _ => true
  | _ => false

@[simp] theorem detInsts_append (a b : List Ev) : detInsts (a ++ b) = detInsts a ++ detInsts b := by
  induction a with
  | nil => rfl
  | cons e es ih => cases e <;> simp [detInsts, ih]

@[simp] theorem actInsts_append (a b : List Ev) : actInsts (a ++ b) = actInsts a ++ actInsts b := by
  induction a with
  | nil => rfl
  | cons e es ih => cases e <;> simp [actInsts, ih]

/-- the actions a chain runs: up to and including the first that does not return CONTINUE -/
def takeThrough (sc : Script) : List Nat → List Nat
  | [] => []
  | a :: as => if (sc a).ret = .cont then a :: takeThrough sc as else [a]

/-! ### DetectorGroup::check -/

theorem checkGroup_dets (sc : Script) (ds : List Nat) (now : Nat) :
    detInsts (checkGroup sc ds now).2.1 = ds ∧ actInsts (checkGroup sc ds now).2.1 = [] := by
  induction ds generalizing now with
  | nil => simp [checkGroup, detInsts, actInsts]
  | cons d ds ih => simp [checkGroup, detInsts, actInsts, ih]

theorem checkGroup_fires (sc : Script) (ds : List Nat) (now : Nat) :
    (checkGroup sc ds now).1 = true ↔ ∀ d ∈ ds, (sc d).ret ≠ .stop := by
  induction ds generalizing now with
  | nil => simp [checkGroup]
  | cons d ds ih => simp [checkGroup, ih]

theorem checkGroup_clock (sc : Script) (ds : List Nat) (now : Nat) :
    now ≤ (checkGroup sc ds now).2.2 := by
  induction ds generalizing now with
  | nil => simp [checkGroup]
  | cons d ds ih =>
    simp only [checkGroup]
    exact Nat.le_trans (Nat.le_add_right _ _) (ih _)

theorem checkGroup_all_det (sc : Script) (ds : List Nat) (now : Nat) :
    ∀ e ∈ (checkGroup sc ds now).2.1, isDet e = true := by
  induction ds generalizing now with
  | nil => simp [checkGroup]
  | cons d ds ih =>
    intro e he
    simp only [checkGroup, List.mem_cons] at he
    rcases he with rfl | he
    · rfl
    · exact ih _ e he

/-! ### detector phase -/

theorem detPhase_dets (cfg : RsCfg) (sc : Script) (gs : List Group) (now ctr : Nat) (f : Option Ctx) :
    detInsts (detPhase cfg sc gs now ctr f).2.1 = gs.flatMap (·.dets) ∧
    actInsts (detPhase cfg sc gs now ctr f).2.1 = [] := by
  induction gs generalizing now ctr f with
  | nil => simp [detPhase, detInsts, actInsts]
  | cons g gs ih =>
    simp only [detPhase, detInsts_append, actInsts_append, List.flatMap_cons]
    rw [(checkGroup_dets sc g.dets now).1, (checkGroup_dets sc g.dets now).2]
    rw [(ih _ _ _).1, (ih _ _ _).2]
    simp

theorem detPhase_clock (cfg : RsCfg) (sc : Script) (gs : List Group) (now ctr : Nat) (f : Option Ctx) :
    now ≤ (detPhase cfg sc gs now ctr f).2.2.1 := by
  induction gs generalizing now ctr f with
  | nil => simp [detPhase]
  | cons g gs ih =>
    simp only [detPhase]
    exact Nat.le_trans (checkGroup_clock sc g.dets now) (ih _ _ _)

theorem detPhase_all_det (cfg : RsCfg) (sc : Script) (gs : List Group) (now ctr : Nat) (f : Option Ctx) :
    ∀ e ∈ (detPhase cfg sc gs now ctr f).2.1, isDet e = true := by
  induction gs generalizing now ctr f with
  | nil => simp [detPhase]
  | cons g gs ih =>
    intro e he
    simp only [detPhase, List.mem_append] at he
    rcases he with he | he
    · exact checkGroup_all_det _ _ _ e he
    · exact ih _ _ _ e he

/-- a group fires on this tick's script -/
def fires (sc : Script) (g : Group) : Bool := g.dets.all fun d => (sc d).ret != .stop

theorem checkGroup_fires' (sc : Script) (g : Group) (now : Nat) :
    (checkGroup sc g.dets now).1 = fires sc g := by
  have := checkGroup_fires sc g.dets now
  unfold fires
  cases h : (checkGroup sc g.dets now).1
  · symm
    rw [Bool.eq_false_iff]
    intro h2
    rw [List.all_eq_true] at h2
    have : (checkGroup sc g.dets now).1 = true := this.2 (fun d hd => by simpa using h2 d hd)
    simp [h] at this
  · symm
    rw [List.all_eq_true]
    intro d hd
    simpa using (this.1 h) d hd

/-- once a context is fixed, later groups do not change it -/
theorem detPhase_some (cfg : RsCfg) (sc : Script) (gs : List Group) (now ctr : Nat) (c : Ctx) :
    (detPhase cfg sc gs now ctr (some c)).1 = some c ∧ (detPhase cfg sc gs now ctr (some c)).2.2.2 = ctr := by
  induction gs generalizing now with
  | nil => simp [detPhase]
  | cons g gs ih => simp [detPhase, ih]

/-- the context fixed by the detector phase names this ruleset and the **first** group that fired;
no group fired iff there is none -/
theorem detPhase_first (cfg : RsCfg) (sc : Script) (gs : List Group) (now ctr : Nat) :
    match (detPhase cfg sc gs now ctr none).1 with
    | some c => c.ruleset = cfg.rid ∧ (gs.find? (fires sc)).map (·.gid) = some c.group ∧ c.uuid = ctr
               ∧ (detPhase cfg sc gs now ctr none).2.2.2 = ctr + 1
    | none => gs.find? (fires sc) = none ∧ (detPhase cfg sc gs now ctr none).2.2.2 = ctr := by
  induction gs generalizing now with
  | nil => simp [detPhase]
  | cons g gs ih =>
    simp only [detPhase, Option.isNone_none, Bool.and_true, List.find?_cons]
    rw [checkGroup_fires']
    cases hf : fires sc g
    · simpa using ih _
    · simp only [if_true]
      have := detPhase_some cfg sc gs (checkGroup sc g.dets now).2.2 (ctr + 1)
        { ruleset := cfg.rid, group := g.gid, uuid := ctr, deadline := (checkGroup sc g.dets now).2.2 + cfg.hookTimeout }
      rw [this.1]
      simp [this.2]

/-! ### action chain -/

theorem chain_acts (cfg : RsCfg) (sc : Script) (inv : Bool) (ctx : Ctx) (as : List Nat) (i now : Nat) (st : RsState) :
    actInsts (chain cfg sc inv ctx as i now st).2.1 = takeThrough sc as ∧
    detInsts (chain cfg sc inv ctx as i now st).2.1 = [] := by
  induction as generalizing i now st with
  | nil => simp [chain, actInsts, detInsts, takeThrough]
  | cons a as ih =>
    simp only [chain, takeThrough]
    cases h : (sc a).ret <;> simp [actInsts, detInsts, ih]

/-- every event of a chain is an action event carrying the chain's context and a reading ≥ the
reading at which the chain started -/
theorem chain_events (cfg : RsCfg) (sc : Script) (inv : Bool) (ctx : Ctx) (as : List Nat) (i now : Nat) (st : RsState) :
    ∀ e ∈ (chain cfg sc inv ctx as i now st).2.1, ∃ a t, e = Ev.act a t ctx inv ∧ now ≤ t := by
  induction as generalizing i now st with
  | nil => simp [chain]
  | cons a as ih =>
    intro e he
    simp only [chain] at he
    cases h : (sc a).ret <;> simp only [h, List.mem_cons, List.mem_singleton] at he
    · rcases he with rfl | he
      · exact ⟨a, now, rfl, Nat.le_refl _⟩
      · obtain ⟨a', t, rfl, ht⟩ := ih _ _ _ e he
        exact ⟨a', t, rfl, by omega⟩
    · rcases he with rfl | he
      · exact ⟨a, now, rfl, Nat.le_refl _⟩
      · cases he
    · rcases he with rfl | he
      · exact ⟨a, now, rfl, Nat.le_refl _⟩
      · cases he

theorem chain_clock (cfg : RsCfg) (sc : Script) (inv : Bool) (ctx : Ctx) (as : List Nat) (i now : Nat) (st : RsState) :
    now ≤ (chain cfg sc inv ctx as i now st).2.2 := by
  induction as generalizing i now st with
  | nil => simp [chain]
  | cons a as ih =>
    simp only [chain]
    cases h : (sc a).ret <;> simp only
    · exact Nat.le_trans (Nat.le_add_right _ _) (ih _ _ _)
    · omega
    · omega

end OomdModel.Engine

import OomdModel.FsRead
import OomdProofs.Path

/-! Helper lemmas about the reader models (C15): decimal rendering / scanning, splitting. -/

namespace OomdModel.FsRead
open OomdModel.Path (Str split)

/-! ## digits -/

theorem digitVal_digitChar (d : Nat) (h : d < 10) : digitVal (digitChar d) = d := by
  match d, h with
  | 0, _ => rfl | 1, _ => rfl | 2, _ => rfl | 3, _ => rfl | 4, _ => rfl
  | 5, _ => rfl | 6, _ => rfl | 7, _ => rfl | 8, _ => rfl | 9, _ => rfl
  | n + 10, h => omega

theorem isDigitC_digitChar (d : Nat) (h : d < 10) : isDigitC (digitChar d) = true := by
  match d, h with
  | 0, _ => rfl | 1, _ => rfl | 2, _ => rfl | 3, _ => rfl | 4, _ => rfl
  | 5, _ => rfl | 6, _ => rfl | 7, _ => rfl | 8, _ => rfl | 9, _ => rfl
  | n + 10, h => omega

theorem natOfDigits_append_single (a : Str) (c : Char) :
    natOfDigits (a ++ [c]) = 10 * natOfDigits a + digitVal c := by
  simp [natOfDigits, List.foldl_append]

/-- the core: scanning the decimal rendering of `n` gives `n` back, for every `n` -/
theorem natOfDigits_renderNat (n : Nat) : natOfDigits (renderNat n) = n := by
  induction n using Nat.strongRecOn with
  | _ n ih =>
    rw [renderNat.eq_def]
    split
    · rename_i h
      simp [natOfDigits, digitVal_digitChar n h]
    · rename_i h
      rw [natOfDigits_append_single, ih (n / 10) (by omega), digitVal_digitChar _ (by omega)]
      omega

theorem renderNat_all_digits (n : Nat) : ∀ c ∈ renderNat n, isDigitC c = true := by
  induction n using Nat.strongRecOn with
  | _ n ih =>
    rw [renderNat.eq_def]
    split
    · rename_i h
      intro c hc
      simp at hc
      subst hc
      exact isDigitC_digitChar n h
    · rename_i h
      intro c hc
      rw [List.mem_append] at hc
      rcases hc with hc | hc
      · exact ih (n / 10) (by omega) c hc
      · simp at hc
        subst hc
        exact isDigitC_digitChar _ (by omega)

theorem renderNat_ne_nil (n : Nat) : renderNat n ≠ [] := by
  rw [renderNat.eq_def]
  split <;> simp

/-- a string that does not continue the number -/
def NonDigitStart : Str → Prop
  | [] => True
  | c :: _ => isDigitC c = false

theorem takeWhile_digits_append (ds rest : Str) (hd : ∀ c ∈ ds, isDigitC c = true) (hr : NonDigitStart rest) :
    (ds ++ rest).takeWhile isDigitC = ds := by
  induction ds with
  | nil =>
    cases rest with
    | nil => rfl
    | cons c r => simp [NonDigitStart] at hr; simp [List.takeWhile, hr]
  | cons d ds ih =>
    have h1 : isDigitC d = true := hd d (by simp)
    simp only [List.cons_append, List.takeWhile, h1]
    rw [ih (fun c hc => hd c (by simp [hc]))]

theorem dropWhile_digits_append (ds rest : Str) (hd : ∀ c ∈ ds, isDigitC c = true) (hr : NonDigitStart rest) :
    (ds ++ rest).dropWhile isDigitC = rest := by
  induction ds with
  | nil =>
    cases rest with
    | nil => rfl
    | cons c r => simp [NonDigitStart] at hr; simp [List.dropWhile, hr]
  | cons d ds ih =>
    have h1 : isDigitC d = true := hd d (by simp)
    simp only [List.cons_append, List.dropWhile, h1]
    exact ih (fun c hc => hd c (by simp [hc]))

theorem digit_not_space (c : Char) (h : isDigitC c = true) : isSpaceC c = false := by
  simp only [isDigitC, Bool.and_eq_true, decide_eq_true_eq] at h
  simp only [isSpaceC, Bool.or_eq_false_iff, decide_eq_false_iff_not]
  have hne : ∀ d : Char, d.toNat < 48 → c ≠ d := by
    intro d hd e
    subst e
    omega
  refine ⟨⟨⟨⟨⟨hne _ (by decide), hne _ (by decide)⟩, hne _ (by decide)⟩, hne _ (by decide)⟩, hne _ (by decide)⟩, hne _ (by decide)⟩

theorem digit_not_sign (c : Char) (h : isDigitC c = true) : c ≠ '-' ∧ c ≠ '+' := by
  simp only [isDigitC, Bool.and_eq_true, decide_eq_true_eq] at h
  constructor <;> (intro e; subst e; revert h; decide)

/-- unsigned decimal text followed by something that is not a digit scans to its value -/
theorem scanInt_digits (ds rest : Str) (hne : ds ≠ []) (hd : ∀ c ∈ ds, isDigitC c = true)
    (hr : NonDigitStart rest) : scanInt (ds ++ rest) = some ((natOfDigits ds : Int), rest) := by
  cases ds with
  | nil => exact absurd rfl hne
  | cons d tl =>
    have h1 : isDigitC d = true := hd d (by simp)
    have hs := digit_not_space d h1
    have hsg := digit_not_sign d h1
    have htk := takeWhile_digits_append (d :: tl) rest hd hr
    have hdr := dropWhile_digits_append (d :: tl) rest hd hr
    simp only [List.cons_append] at htk hdr
    simp only [scanInt, List.cons_append, List.dropWhile, hs, signOf, hsg.1, hsg.2, if_false, htk, hdr]
    simp

theorem scanInt_neg_digits (ds rest : Str) (hne : ds ≠ []) (hd : ∀ c ∈ ds, isDigitC c = true)
    (hr : NonDigitStart rest) : scanInt ('-' :: (ds ++ rest)) = some (-(natOfDigits ds : Int), rest) := by
  have htk := takeWhile_digits_append ds rest hd hr
  have hdr := dropWhile_digits_append ds rest hd hr
  have hsp : isSpaceC '-' = false := by decide
  simp only [scanInt, List.dropWhile, hsp, signOf, if_true, htk, hdr]
  cases ds with
  | nil => exact absurd rfl hne
  | cons d tl => simp

theorem scanInt_renderNat (n : Nat) (rest : Str) (hr : NonDigitStart rest) :
    scanInt (renderNat n ++ rest) = some ((n : Int), rest) := by
  rw [scanInt_digits _ _ (renderNat_ne_nil n) (renderNat_all_digits n) hr, natOfDigits_renderNat]

theorem scanInt_renderInt (v : Int) (rest : Str) (hr : NonDigitStart rest) :
    scanInt (renderInt v ++ rest) = some (v, rest) := by
  unfold renderInt
  split
  · rename_i h
    rw [List.cons_append, scanInt_neg_digits _ _ (renderNat_ne_nil _) (renderNat_all_digits _) hr,
      natOfDigits_renderNat]
    congr 2
    omega
  · rename_i h
    rw [scanInt_renderNat _ _ hr]
    congr 2
    omega

end OomdModel.FsRead

namespace OomdModel.FsRead
open OomdModel.Path (Str split)

/-! ## joining and splitting -/

def joinWith (d : Char) : List Str → Str
  | [] => []
  | [p] => p
  | p :: q :: rest => p ++ d :: joinWith d (q :: rest)

theorem split_joinWith (d : Char) (ps : List Str) (h : ∀ x ∈ ps, x ≠ [] ∧ d ∉ x) :
    split (joinWith d ps) d = ps := by
  induction ps with
  | nil => simp [joinWith, OomdModel.Path.split_nil]
  | cons p rest ih =>
    cases rest with
    | nil =>
      simp only [joinWith]
      exact OomdModel.Path.split_nodelim d p (h p (by simp)).2 (h p (by simp)).1
    | cons q rest =>
      simp only [joinWith]
      rw [OomdModel.Path.split_append_delim,
        OomdModel.Path.split_nodelim d p (h p (by simp)).2 (h p (by simp)).1,
        ih (fun x hx => h x (by simp [hx]))]
      simp

/-! ## `readFileByLine` on newline-terminated lines -/

theorem linesGo_line (l rest cur : Str) (h : '\n' ∉ l) :
    linesGo (l ++ '\n' :: rest) cur = (cur.reverse ++ l) :: linesGo rest [] := by
  induction l generalizing cur with
  | nil => simp [linesGo]
  | cons c l ih =>
    have hc : c ≠ '\n' := by intro e; exact h (by simp [e])
    have hl : '\n' ∉ l := by intro e; exact h (by simp [e])
    simp only [List.cons_append, linesGo, hc, if_false]
    rw [ih _ hl]
    simp

/-- the file content of a list of lines, each terminated by a newline -/
def joinLines (ls : List Str) : Str := ls.flatMap (· ++ ['\n'])

theorem linesOf_joinLines (ls : List Str) (h : ∀ l ∈ ls, '\n' ∉ l) : linesOf (joinLines ls) = ls := by
  unfold linesOf
  induction ls with
  | nil => simp [joinLines, linesGo]
  | cons l ls ih =>
    have : joinLines (l :: ls) = l ++ '\n' :: joinLines ls := by simp [joinLines]
    rw [this, linesGo_line l _ [] (h l (by simp))]
    have ih' := ih (fun x hx => h x (by simp [hx]))
    simp only [List.reverse_nil, List.nil_append]
    rw [ih']

/-- a last line without terminator is still a line (non-empty) -/
theorem linesOf_unterminated (l : Str) (h : '\n' ∉ l) (hne : l ≠ []) : linesOf l = [l] := by
  unfold linesOf
  have key : ∀ cur : Str, linesGo l cur = if (cur.reverse ++ l).isEmpty then [] else [cur.reverse ++ l] := by
    induction l with
    | nil => intro cur; simp [linesGo]
    | cons c l ih =>
      intro cur
      have hc : c ≠ '\n' := by intro e; exact h (by simp [e])
      have hl : '\n' ∉ l := by intro e; exact h (by simp [e])
      simp only [linesGo, hc, if_false]
      by_cases hl0 : l = []
      · subst hl0; simp [linesGo]
      · rw [ih hl hl0]; simp
  rw [key []]
  simp [hne]

/-! ## integers in range -/

theorem nonDigitStart_nil : NonDigitStart [] := trivial

theorem stoll_renderNat (n : Nat) (h : (n : Int) ≤ int64Max) (rest : Str) (hr : NonDigitStart rest) :
    stoll (renderNat n ++ rest) = .ok (n : Int) := by
  unfold stoll
  rw [scanInt_renderNat n rest hr]
  have : int64Min ≤ (n : Int) := by unfold int64Min; omega
  simp [this, h]

theorem stoll_renderInt (v : Int) (h1 : int64Min ≤ v) (h2 : v ≤ int64Max) (rest : Str)
    (hr : NonDigitStart rest) : stoll (renderInt v ++ rest) = .ok v := by
  unfold stoll
  rw [scanInt_renderInt v rest hr]
  simp [h1, h2]

theorem renderNat_not_mem (n : Nat) (c : Char) (hc : isDigitC c = false) : c ∉ renderNat n := by
  intro hm
  have := renderNat_all_digits n c hm
  rw [hc] at this
  exact Bool.false_ne_true this

end OomdModel.FsRead

namespace OomdModel.FsRead
open OomdModel.Path (Str split)

/-! ## the kernel's grammar (renderers) and what the readers make of it -/

namespace Kernel

/-- `"%llu"` or `max` (memory.min/low/high/max, memory.swap.max) -/
def limit : Option Nat → Str
  | none => maxStr
  | some n => renderNat n

/-- `%lu.%02lu` (PSI averages) -/
def dec2 (w f : Nat) : Str := renderNat w ++ '.' :: [digitChar (f / 10), digitChar (f % 10)]

end Kernel

theorem idx_zero {α} (a : α) (l : List α) (what : String) : idx (a :: l) 0 what = .ok a := rfl

/-- memory.current / memory.swap.current / pids.current: every value up to 2^63-1 parses exactly -/
theorem readFirstLineInt_render (n : Nat) (h : (n : Int) ≤ int64Max) (more : List Str) :
    readFirstLineInt (renderNat n :: more) = .ok (n : Int) := by
  unfold readFirstLineInt
  have := stoll_renderNat n h [] nonDigitStart_nil
  simpa using this

theorem renderNat_ne_max (n : Nat) : renderNat n ≠ maxStr := by
  intro e
  have h := renderNat_all_digits n 'm' (by rw [e]; decide)
  revert h; decide

/-- memory.{min,low,high,max}, memory.swap.max: a number parses to itself, `max` to INT64_MAX -/
theorem readMinMaxLowHigh_render (v : Option Nat) (h : ∀ n, v = some n → (n : Int) ≤ int64Max) :
    readMinMaxLowHigh [Kernel.limit v] = .ok (match v with | none => int64Max | some n => (n : Int)) := by
  cases v with
  | none => simp [readMinMaxLowHigh, Kernel.limit]
  | some n =>
    have := stoll_renderNat n (h n rfl) [] nonDigitStart_nil
    simp only [List.append_nil] at this
    simp [readMinMaxLowHigh, Kernel.limit, renderNat_ne_max, this]

theorem readMinMaxLowHigh_lines (lines : List Str) (h : lines.length ≠ 1) :
    readMinMaxLowHigh lines = .unavailable := by
  match lines, h with
  | [], _ => rfl
  | [_], h => simp at h
  | _ :: _ :: _, _ => rfl

theorem space_not_digit : isDigitC ' ' = false := by decide

/-- memory.high.tmp: `<limit> <microseconds>` -/
theorem readMemhightmp_render (v : Option Nat) (dur : Nat) (h : ∀ n, v = some n → (n : Int) ≤ int64Max) :
    readMemhightmp [Kernel.limit v ++ ' ' :: renderNat dur] =
      .ok (match v with | none => int64Max | some n => (n : Int)) := by
  have hsplit : split (Kernel.limit v ++ ' ' :: renderNat dur) ' ' = [Kernel.limit v, renderNat dur] := by
    have := split_joinWith ' ' [Kernel.limit v, renderNat dur] (by
      intro x hx
      simp at hx
      rcases hx with hx | hx
      · subst hx
        cases v with
        | none => simp [Kernel.limit, maxStr, s]
        | some n => exact ⟨renderNat_ne_nil n, renderNat_not_mem n ' ' space_not_digit⟩
      · subst hx
        exact ⟨renderNat_ne_nil dur, renderNat_not_mem dur ' ' space_not_digit⟩)
    simpa [joinWith] using this
  unfold readMemhightmp
  simp only [hsplit]
  cases v with
  | none => simp [Kernel.limit]
  | some n =>
    have := stoll_renderNat n (h n rfl) [] nonDigitStart_nil
    simp only [List.append_nil] at this
    simp [Kernel.limit, renderNat_ne_max, this]

/-- memory.oom.group -/
theorem readOomGroup_render (b : Bool) :
    readOomGroup [if b then s "1" else s "0"] = .ok b := by
  cases b <;> simp [readOomGroup, s] <;> decide

end OomdModel.FsRead

namespace OomdModel.FsRead
open OomdModel.Path (Str split)

/-! ## `key value` lines -/

/-- a token: non-empty, no white space -/
def Word (k : Str) : Prop := k ≠ [] ∧ ∀ c ∈ k, isSpaceC c = false

theorem Word.no_space {k : Str} (h : Word k) : ' ' ∉ k := by
  intro hm
  have := h.2 ' ' hm
  revert this; decide

namespace Kernel
/-- `"%s %llu"` -/
def kvLine (k : Str) (v : Nat) : Str := k ++ ' ' :: renderNat v
end Kernel

theorem renderNat_lt10 (n : Nat) (h : n < 10) : renderNat n = [digitChar n] := by
  rw [renderNat.eq_def]; simp [h]

theorem split_kvLine (k : Str) (v : Nat) (hk : Word k) :
    split (Kernel.kvLine k v) ' ' = [k, renderNat v] := by
  have := split_joinWith ' ' [k, renderNat v] (by
    intro x hx
    simp at hx
    rcases hx with hx | hx
    · subst hx; exact ⟨hk.1, hk.no_space⟩
    · subst hx; exact ⟨renderNat_ne_nil v, renderNat_not_mem v ' ' space_not_digit⟩)
  simpa [joinWith, Kernel.kvLine] using this

/-- cgroup.events: `populated b` is found among any other `key value` lines, in any position -/
theorem readIsPopulated_render (pre : List (Str × Nat)) (post : List Str) (b : Bool)
    (hpre : ∀ kv ∈ pre, Word kv.1 ∧ kv.1 ≠ s "populated") :
    readIsPopulated (pre.map (fun kv => Kernel.kvLine kv.1 kv.2) ++
      Kernel.kvLine (s "populated") (if b then 1 else 0) :: post) = .ok b := by
  induction pre with
  | nil =>
    have hw : Word (s "populated") := by
      constructor
      · decide
      · decide
    simp only [List.map_nil, List.nil_append, readIsPopulated, split_kvLine _ _ hw]
    cases b
    · simp [renderNat_lt10 0 (by omega), digitChar, s]
    · simp [renderNat_lt10 1 (by omega), digitChar, s]
  | cons kv pre ih =>
    have h := hpre kv (by simp)
    simp only [List.map_cons, List.cons_append, readIsPopulated, split_kvLine _ _ h.1, h.2, if_false]
    exact ih (fun x hx => hpre x (by simp [hx]))

theorem dropWhile_head_false {p : Char → Bool} (c : Char) (l : Str) (h : p c = false) :
    (c :: l).dropWhile p = c :: l := by simp [List.dropWhile, h]

theorem takeWhile_append_stop {p : Char → Bool} (k : Str) (c : Char) (rest : Str)
    (hk : ∀ x ∈ k, p x = true) (hc : p c = false) : (k ++ c :: rest).takeWhile p = k := by
  induction k with
  | nil => simp [List.takeWhile, hc]
  | cons d k ih =>
    simp only [List.cons_append, List.takeWhile, hk d (by simp)]
    rw [ih (fun x hx => hk x (by simp [hx]))]

theorem scanInt_space (t : Str) : scanInt (' ' :: t) = scanInt t := by
  have : isSpaceC ' ' = true := by decide
  simp [scanInt, List.dropWhile, this]

theorem wrapU64_nat (v : Nat) (h : v ≤ uint64Max) : wrapU64 (v : Int) = v := by
  unfold wrapU64
  unfold uint64Max at h
  have : (v : Int) % 18446744073709551616 = v := Int.emod_eq_of_lt (by omega) (by omega)
  rw [this]; simp

theorem scanU64_renderNat (v : Nat) (h : v ≤ uint64Max) (rest : Str) (hr : NonDigitStart rest) :
    scanU64 (renderNat v ++ rest) = some (v, rest) := by
  unfold scanU64
  rw [scanInt_renderNat v rest hr]
  simp [h, wrapU64_nat v h]

/-- one `key value` line of memory.stat / cgroup.stat scans to the pair (value stored as `int64_t`) -/
theorem scanKV_kvLine (k : Str) (v : Nat) (hk : Word k) (hlen : k.length ≤ 255) (hv : v ≤ uint64Max) :
    scanKV (Kernel.kvLine k v) = some (k, wrap64 v) := by
  obtain ⟨c, tl, rfl⟩ : ∃ c tl, k = c :: tl := by
    cases k with
    | nil => exact absurd rfl hk.1
    | cons c tl => exact ⟨c, tl, rfl⟩
  have hc : isSpaceC c = false := hk.2 c (by simp)
  have hsp : isSpaceC ' ' = true := by decide
  have htw : ((c :: tl) ++ ' ' :: renderNat v).takeWhile (fun x => !isSpaceC x) = c :: tl :=
    takeWhile_append_stop (c :: tl) ' ' _ (fun x hx => by simp [hk.2 x hx]) (by simp [hsp])
  have htake : (c :: tl).take 255 = c :: tl := List.take_of_length_le hlen
  have hdrop : ((c :: tl) ++ ' ' :: renderNat v).drop (c :: tl).length = ' ' :: renderNat v := by
    simp
  have hscan : scanU64 (' ' :: renderNat v) = some (v, []) := by
    have := scanU64_renderNat v hv [] nonDigitStart_nil
    simp only [List.append_nil] at this
    unfold scanU64 at this ⊢
    rw [scanInt_space]
    exact this
  have hdw : ((c :: tl) ++ ' ' :: renderNat v).dropWhile isSpaceC = (c :: tl) ++ ' ' :: renderNat v := by
    simp [List.dropWhile, hc]
  unfold scanKV Kernel.kvLine
  simp only [hdw, htw, htake, hdrop, hscan]
  simp

theorem kvLookup_kvInsert (m : List (Str × Int)) (k k' : Str) (v : Int) :
    kvLookup (kvInsert m k v) k' = if k = k' then some v else kvLookup m k' := by
  induction m with
  | nil => simp [kvInsert, kvLookup]
  | cons kv m ih =>
    obtain ⟨a, b⟩ := kv
    simp only [kvInsert]
    by_cases h1 : a = k
    · subst h1
      simp only [if_true, kvLookup]
      by_cases h2 : a = k' <;> simp [h2]
    · simp only [h1, if_false, kvLookup]
      by_cases h2 : a = k'
      · subst h2
        have : ¬ k = a := fun e => h1 e.symm
        simp [this]
      · simp only [h2, if_false]; exact ih

/-- last-writer-wins lookup in a list of pairs -/
def lastVal (kvs : List (Str × Nat)) (k : Str) : Option Nat :=
  match kvs with
  | [] => none
  | (k', v) :: rest =>
    match lastVal rest k with
    | some x => some x
    | none => if k' = k then some v else none

def kvStep (m : List (Str × Int)) (line : Str) : List (Str × Int) :=
  match scanKV line with
  | some (k, v) => kvInsert m k v
  | none => m

theorem readKVMap_eq (lines : List Str) : readKVMap lines = lines.foldl kvStep [] := rfl

theorem kvFold_lookup (kvs : List (Str × Nat)) (k : Str)
    (h : ∀ kv ∈ kvs, Word kv.1 ∧ kv.1.length ≤ 255 ∧ kv.2 ≤ uint64Max) :
    ∀ m, kvLookup ((kvs.map fun kv => Kernel.kvLine kv.1 kv.2).foldl kvStep m) k =
      match lastVal kvs k with
      | some v => some (wrap64 v)
      | none => kvLookup m k := by
  induction kvs with
  | nil => intro m; simp [lastVal]
  | cons kv kvs ih =>
    intro m
    obtain ⟨a, b⟩ := kv
    have ha := h (a, b) (by simp)
    simp only [List.map_cons, List.foldl_cons, kvStep, scanKV_kvLine a b ha.1 ha.2.1 ha.2.2]
    rw [ih (fun x hx => h x (by simp [hx]))]
    simp only [lastVal]
    cases hl : lastVal kvs k with
    | some x => rfl
    | none =>
      simp only [kvLookup_kvInsert]
      by_cases e : a = k <;> simp [e]

/-- memory.stat / cgroup.stat: lookup semantics for any key order, any extra keys, repeated keys -/
theorem readKVMap_lookup (kvs : List (Str × Nat)) (k : Str)
    (h : ∀ kv ∈ kvs, Word kv.1 ∧ kv.1.length ≤ 255 ∧ kv.2 ≤ uint64Max) :
    kvLookup (readKVMap (kvs.map fun kv => Kernel.kvLine kv.1 kv.2)) k =
      (lastVal kvs k).map fun v => wrap64 v := by
  rw [readKVMap_eq, kvFold_lookup kvs k h []]
  cases lastVal kvs k <;> simp [kvLookup]

end OomdModel.FsRead

namespace OomdModel.FsRead
open OomdModel.Path (Str split)

/-! ## io.stat -/

theorem scanLit_prefix (l t : Str) : scanLit l (l ++ t) = some t := by
  induction l with
  | nil => cases t <;> rfl
  | cons c l ih => simp [scanLit, ih]

theorem scanI64_renderNat (n : Nat) (h : (n : Int) ≤ int64Max) (rest : Str) (hr : NonDigitStart rest) :
    scanI64 (renderNat n ++ rest) = some ((n : Int), rest) := by
  unfold scanI64
  rw [scanInt_renderNat n rest hr]
  have h1 : ¬ (n : Int) < int64Min := by unfold int64Min; omega
  have h2 : ¬ (n : Int) > int64Max := by omega
  simp [h1, h2]

theorem scanI32_renderNat (n : Nat) (h : n < 2147483648) (rest : Str) (hr : NonDigitStart rest) :
    scanI32 (renderNat n ++ rest) = some ((n : Int), rest) := by
  unfold scanI32
  rw [scanI64_renderNat n (by unfold int64Max; omega) rest hr]
  have : wrap32 (n : Int) = n := by
    unfold wrap32
    have : (n : Int) % 4294967296 = n := Int.emod_eq_of_lt (by omega) (by omega)
    simp only [this]
    have : ¬ (n : Int) > 2147483647 := by omega
    simp [this]
  simp [this]

namespace Kernel
/-- the counters of one device as the kernel prints them -/
structure IoRow where
  major : Nat
  minor : Nat
  rbytes : Nat
  wbytes : Nat
  rios : Nat
  wios : Nat
  dbytes : Nat
  dios : Nat

def IoRow.InRange (r : IoRow) : Prop :=
  r.major < 2147483648 ∧ r.minor < 2147483648 ∧ (r.rbytes : Int) ≤ int64Max ∧ (r.wbytes : Int) ≤ int64Max ∧
  (r.rios : Int) ≤ int64Max ∧ (r.wios : Int) ≤ int64Max ∧ (r.dbytes : Int) ≤ int64Max ∧ (r.dios : Int) ≤ int64Max

def IoRow.toDevStat (r : IoRow) : DevStat :=
  { major := r.major, minor := r.minor, rbytes := r.rbytes, wbytes := r.wbytes, rios := r.rios,
    wios := r.wios, dbytes := r.dbytes, dios := r.dios }

/-- `"%u:%u rbytes=%llu wbytes=%llu rios=%llu wios=%llu dbytes=%llu dios=%llu"` + anything that
does not continue the last number (newer kernels append more keys) -/
def ioLine (r : IoRow) (extra : Str) : Str :=
  renderNat r.major ++ ':' :: (renderNat r.minor ++ ' ' :: (s "rbytes=" ++ (renderNat r.rbytes ++ ' ' ::
  (s "wbytes=" ++ (renderNat r.wbytes ++ ' ' :: (s "rios=" ++ (renderNat r.rios ++ ' ' ::
  (s "wios=" ++ (renderNat r.wios ++ ' ' :: (s "dbytes=" ++ (renderNat r.dbytes ++ ' ' ::
  (s "dios=" ++ (renderNat r.dios ++ extra)))))))))))))
end Kernel

theorem scanLit_colon (t : Str) : scanLit [':'] (':' :: t) = some t := by simp [scanLit]

theorem nonDigitStart_cons (c : Char) (t : Str) (h : isDigitC c = false) : NonDigitStart (c :: t) := h

theorem scanWs_space_lit (l t : Str) (hl : ∃ c r, l = c :: r ∧ isSpaceC c = false) :
    scanWs (' ' :: (l ++ t)) = l ++ t := by
  obtain ⟨c, r, rfl, hc⟩ := hl
  have : isSpaceC ' ' = true := by decide
  simp [scanWs, List.dropWhile, this, hc]

theorem scanIoLine_ioLine (r : Kernel.IoRow) (extra : Str) (hr : r.InRange) (he : NonDigitStart extra) :
    scanIoLine (Kernel.ioLine r extra) = some r.toDevStat := by
  obtain ⟨h1, h2, h3, h4, h5, h6, h7, h8⟩ := hr
  have nd_colon : ∀ t, NonDigitStart (':' :: t) := fun t => nonDigitStart_cons _ t (by decide)
  have nd_space : ∀ t, NonDigitStart (' ' :: t) := fun t => nonDigitStart_cons _ t (by decide)
  unfold scanIoLine Kernel.ioLine
  rw [scanI32_renderNat _ h1 _ (nd_colon _)]
  simp only [Option.bind]
  rw [scanLit_colon]
  simp only []
  rw [scanI32_renderNat _ h2 _ (nd_space _)]
  simp only []
  rw [scanWs_space_lit (s "rbytes=") _ ⟨'r', _, rfl, by decide⟩, scanLit_prefix]
  simp only []
  rw [scanI64_renderNat _ h3 _ (nd_space _)]
  simp only []
  rw [scanWs_space_lit (s "wbytes=") _ ⟨'w', _, rfl, by decide⟩, scanLit_prefix]
  simp only []
  rw [scanI64_renderNat _ h4 _ (nd_space _)]
  simp only []
  rw [scanWs_space_lit (s "rios=") _ ⟨'r', _, rfl, by decide⟩, scanLit_prefix]
  simp only []
  rw [scanI64_renderNat _ h5 _ (nd_space _)]
  simp only []
  rw [scanWs_space_lit (s "wios=") _ ⟨'w', _, rfl, by decide⟩, scanLit_prefix]
  simp only []
  rw [scanI64_renderNat _ h6 _ (nd_space _)]
  simp only []
  rw [scanWs_space_lit (s "dbytes=") _ ⟨'d', _, rfl, by decide⟩, scanLit_prefix]
  simp only []
  rw [scanI64_renderNat _ h7 _ (nd_space _)]
  simp only []
  rw [scanWs_space_lit (s "dios=") _ ⟨'d', _, rfl, by decide⟩, scanLit_prefix]
  simp only []
  rw [scanI64_renderNat _ h8 _ he]
  rfl

/-- io.stat: every list of device lines parses to exactly those counters -/
theorem readIoStat_render (rows : List (Kernel.IoRow × Str))
    (h : ∀ x ∈ rows, x.1.InRange ∧ NonDigitStart x.2) :
    readIoStat (rows.map fun x => Kernel.ioLine x.1 x.2) = .ok (rows.map fun x => x.1.toDevStat) := by
  induction rows with
  | nil => rfl
  | cons x rows ih =>
    have hx := h x (by simp)
    simp only [List.map_cons, readIoStat, scanIoLine_ioLine x.1 x.2 hx.1 hx.2]
    rw [ih (fun y hy => h y (by simp [hy]))]
    rfl

end OomdModel.FsRead

namespace OomdModel.FsRead
open OomdModel.Path (Str split)

/-! ## PSI files -/

theorem natOfDigits_append (a b : Str) :
    natOfDigits (a ++ b) = b.foldl (fun acc c => 10 * acc + digitVal c) (natOfDigits a) := by
  simp [natOfDigits, List.foldl_append]

/-- `digits.digits` followed by something that does not continue the number -/
theorem scanDec_digits (ip fp rest : Str) (hne : ip ≠ []) (hi : ∀ c ∈ ip, isDigitC c = true)
    (hfp : ∀ c ∈ fp, isDigitC c = true) (hr : NonDigitStart rest) :
    scanDec (ip ++ '.' :: (fp ++ rest)) =
      some ({ neg := false, mant := natOfDigits (ip ++ fp), exp := fp.length }, rest) := by
  cases ip with
  | nil => exact absurd rfl hne
  | cons d tl =>
    have h1 : isDigitC d = true := hi d (by simp)
    have hs := digit_not_space d h1
    have hsg := digit_not_sign d h1
    have hdot : NonDigitStart ('.' :: (fp ++ rest)) := by show isDigitC '.' = false; decide
    have htk := takeWhile_digits_append (d :: tl) _ hi hdot
    have hdr := dropWhile_digits_append (d :: tl) _ hi hdot
    have htk2 := takeWhile_digits_append fp rest hfp hr
    have hdr2 := dropWhile_digits_append fp rest hfp hr
    simp only [List.cons_append] at htk hdr
    simp only [scanDec, List.cons_append, List.dropWhile, hs, signOf, hsg.1, hsg.2, if_false, htk, hdr,
      htk2, hdr2]
    simp

theorem dec2_digits (f : Nat) (hf : f < 100) :
    ∀ c ∈ [digitChar (f / 10), digitChar (f % 10)], isDigitC c = true := by
  intro c hc
  simp at hc
  rcases hc with hc | hc <;> subst hc
  · exact isDigitC_digitChar _ (by omega)
  · exact isDigitC_digitChar _ (by omega)

theorem scanDec_dec2 (w f : Nat) (hf : f < 100) (rest : Str) (hr : NonDigitStart rest) :
    scanDec (Kernel.dec2 w f ++ rest) = some ({ neg := false, mant := w * 100 + f, exp := 2 }, rest) := by
  have := scanDec_digits (renderNat w) [digitChar (f / 10), digitChar (f % 10)] rest (renderNat_ne_nil w)
    (renderNat_all_digits w) (dec2_digits f hf) hr
  have hm : natOfDigits (renderNat w ++ [digitChar (f / 10), digitChar (f % 10)]) = w * 100 + f := by
    rw [natOfDigits_append, natOfDigits_renderNat]
    simp only [List.foldl_cons, List.foldl_nil]
    rw [digitVal_digitChar _ (by omega), digitVal_digitChar _ (by omega)]
    omega
  rw [hm] at this
  simpa [Kernel.dec2] using this

theorem stof_dec2 (w f : Nat) (hf : f < 100) :
    stof (Kernel.dec2 w f) = .ok { neg := false, mant := w * 100 + f, exp := 2 } := by
  have := scanDec_dec2 w f hf [] nonDigitStart_nil
  simp only [List.append_nil] at this
  simp [stof, this]

theorem stoull_renderNat (n : Nat) (h : n ≤ uint64Max) : stoull (renderNat n) = .ok n := by
  have := scanInt_renderNat n [] nonDigitStart_nil
  simp only [List.append_nil] at this
  simp [stoull, this, h, wrapU64_nat n h]

/-- characters of a PSI value: digits and the decimal point -/
def PsiChars (val : Str) : Prop := val ≠ [] ∧ ∀ c ∈ val, isDigitC c = true ∨ c = '.'

theorem psiChars_dec2 (w f : Nat) (hf : f < 100) : PsiChars (Kernel.dec2 w f) := by
  constructor
  · simp [Kernel.dec2]
  · intro c hc
    simp only [Kernel.dec2, List.mem_append, List.mem_cons] at hc
    rcases hc with hc | hc | hc
    · exact Or.inl (renderNat_all_digits w c hc)
    · exact Or.inr hc
    · exact Or.inl (dec2_digits f hf c (by simpa using hc))

theorem psiChars_renderNat (n : Nat) : PsiChars (renderNat n) :=
  ⟨renderNat_ne_nil n, fun c hc => Or.inl (renderNat_all_digits n c hc)⟩

theorem PsiChars.not_mem {val : Str} (h : PsiChars val) (c : Char) (hd : isDigitC c = false) (hdot : c ≠ '.') :
    c ∉ val := by
  intro hm
  rcases h.2 c hm with h1 | h1
  · rw [hd] at h1; exact Bool.false_ne_true h1
  · exact hdot h1

namespace Kernel
def psiTok (key : String) (val : Str) : Str := s key ++ '=' :: val

structure PsiRow where
  w10 : Nat
  f10 : Nat
  w60 : Nat
  f60 : Nat
  w300 : Nat
  f300 : Nat
  total : Nat

def PsiRow.InRange (r : PsiRow) : Prop := r.f10 < 100 ∧ r.f60 < 100 ∧ r.f300 < 100 ∧ r.total ≤ uint64Max

/-- `some avg10=0.22 avg60=0.17 avg300=1.11 total=58761459` -/
def psiUpstream (name : Str) (r : PsiRow) : Str :=
  joinWith ' ' [name, psiTok "avg10" (dec2 r.w10 r.f10), psiTok "avg60" (dec2 r.w60 r.f60),
    psiTok "avg300" (dec2 r.w300 r.f300), psiTok "total" (renderNat r.total)]

/-- `some 0.00 0.03 0.05` -/
def psiExperimental (name : Str) (r : PsiRow) : Str :=
  joinWith ' ' [name, dec2 r.w10 r.f10, dec2 r.w60 r.f60, dec2 r.w300 r.f300]

def PsiRow.pressure (r : PsiRow) (withTotal : Bool) : Pressure :=
  { a10 := { neg := false, mant := r.w10 * 100 + r.f10, exp := 2 }
    a60 := { neg := false, mant := r.w60 * 100 + r.f60, exp := 2 }
    a300 := { neg := false, mant := r.w300 * 100 + r.f300, exp := 2 }
    total := if withTotal then some (wrap64 r.total) else none }
end Kernel

/-- the keys used in the PSI format: letters and digits only -/
def PsiKey (key : String) : Prop := key = "avg10" ∨ key = "avg60" ∨ key = "avg300" ∨ key = "total"

theorem psiKey_facts (key : String) (h : PsiKey key) : s key ≠ [] ∧ '=' ∉ s key ∧ ' ' ∉ s key := by
  rcases h with h | h | h | h <;> subst h <;> decide

theorem psiTok_token (key : String) (val : Str) (hk : PsiKey key) (hv : PsiChars val) :
    Kernel.psiTok key val ≠ [] ∧ ' ' ∉ Kernel.psiTok key val := by
  have hf := psiKey_facts key hk
  constructor
  · simp [Kernel.psiTok]
  · intro hm
    simp only [Kernel.psiTok, List.mem_append, List.mem_cons] at hm
    rcases hm with hm | hm | hm
    · exact hf.2.2 hm
    · revert hm; decide
    · exact hv.not_mem ' ' (by decide) (by decide) hm

theorem psiKV_psiTok (key : String) (val : Str) (hk : PsiKey key) (hv : PsiChars val) :
    psiKV (Kernel.psiTok key val) key = .ok val := by
  have hf := psiKey_facts key hk
  have hsplit : split (Kernel.psiTok key val) '=' = [s key, val] := by
    have := split_joinWith '=' [s key, val] (by
      intro x hx
      simp at hx
      rcases hx with hx | hx
      · subst hx; exact ⟨hf.1, hf.2.1⟩
      · subst hx; exact ⟨hv.1, hv.not_mem '=' (by decide) (by decide)⟩)
    simpa [joinWith, Kernel.psiTok] using this
  simp [psiKV, hsplit, idx, Res.bind]

theorem isPrefixOf_append_self (l t : Str) : l.isPrefixOf (l ++ t) = true := by
  induction l with
  | nil => simp [List.isPrefixOf]
  | cons c l ih => simp [List.isPrefixOf, ih]

theorem split_psiUpstream (name : Str) (r : Kernel.PsiRow) (hr : r.InRange)
    (hn : name ≠ [] ∧ ' ' ∉ name) :
    split (Kernel.psiUpstream name r) ' ' =
      [name, Kernel.psiTok "avg10" (Kernel.dec2 r.w10 r.f10), Kernel.psiTok "avg60" (Kernel.dec2 r.w60 r.f60),
       Kernel.psiTok "avg300" (Kernel.dec2 r.w300 r.f300), Kernel.psiTok "total" (renderNat r.total)] := by
  apply split_joinWith
  intro x hx
  simp only [List.mem_cons, List.mem_nil_iff, or_false] at hx
  rcases hx with hx | hx | hx | hx | hx <;> subst hx
  · exact hn
  · exact psiTok_token _ _ (Or.inl rfl) (psiChars_dec2 _ _ hr.1)
  · exact psiTok_token _ _ (Or.inr (Or.inl rfl)) (psiChars_dec2 _ _ hr.2.1)
  · exact psiTok_token _ _ (Or.inr (Or.inr (Or.inl rfl))) (psiChars_dec2 _ _ hr.2.2.1)
  · exact psiTok_token _ _ (Or.inr (Or.inr (Or.inr rfl))) (psiChars_renderNat _)

theorem someStr_token : s "some" ≠ [] ∧ ' ' ∉ s "some" := by decide
theorem fullStr_token : s "full" ≠ [] ∧ ' ' ∉ s "full" := by decide

/-- the parse of one upstream line, given that the line is selected -/
theorem psi_upstream_line (name : Str) (r : Kernel.PsiRow) (hr : r.InRange) (hn : name ≠ [] ∧ ' ' ∉ name) :
    (let toks := split (Kernel.psiUpstream name r) ' '
     (idx toks 0 "toks[0]").bind fun t0 =>
      if t0 ≠ name then Res.unavailable else
      (idx toks 1 "toks[1]").bind fun t1 => (psiKV t1 "avg10").bind fun v10 =>
      (idx toks 2 "toks[2]").bind fun t2 => (psiKV t2 "avg60").bind fun v60 =>
      (idx toks 3 "toks[3]").bind fun t3 => (psiKV t3 "avg300").bind fun v300 =>
      (idx toks 4 "toks[4]").bind fun t4 => (psiKV t4 "total").bind fun vt =>
      (stof v10).bind fun a => (stof v60).bind fun b => (stof v300).bind fun c =>
      (stoull vt).bind fun t =>
      Res.ok ({ a10 := a, a60 := b, a300 := c, total := some (wrap64 t) } : Pressure)) =
    .ok (r.pressure true) := by
  simp only [split_psiUpstream name r hr hn, idx, List.getElem?_cons_zero, List.getElem?_cons_succ, Res.bind,
    ne_eq, not_true_eq_false, if_false,
    psiKV_psiTok "avg10" _ (Or.inl rfl) (psiChars_dec2 _ _ hr.1),
    psiKV_psiTok "avg60" _ (Or.inr (Or.inl rfl)) (psiChars_dec2 _ _ hr.2.1),
    psiKV_psiTok "avg300" _ (Or.inr (Or.inr (Or.inl rfl))) (psiChars_dec2 _ _ hr.2.2.1),
    psiKV_psiTok "total" _ (Or.inr (Or.inr (Or.inr rfl))) (psiChars_renderNat _),
    stof_dec2 _ _ hr.1, stof_dec2 _ _ hr.2.1, stof_dec2 _ _ hr.2.2.1, stoull_renderNat _ hr.2.2.2]
  simp [Kernel.PsiRow.pressure]

theorem psiUpstream_startsWith (r : Kernel.PsiRow) :
    startsWith (s "some") (Kernel.psiUpstream (s "some") r) = true := by
  simp only [startsWith, Kernel.psiUpstream, joinWith]
  exact isPrefixOf_append_self _ _

/-- upstream PSI format: both lines parse exactly, for every value `%lu.%02lu` and every total -/
theorem readPressure_upstream (rs rf : Kernel.PsiRow) (hs : rs.InRange) (hf : rf.InRange) (more : List Str)
    (full : Bool) :
    readPressure (Kernel.psiUpstream (s "some") rs :: Kernel.psiUpstream (s "full") rf :: more) full =
      .ok ((if full then rf else rs).pressure true) := by
  have hfmt : psiFormat (Kernel.psiUpstream (s "some") rs :: Kernel.psiUpstream (s "full") rf :: more) = .upstream := by
    simp [psiFormat, psiUpstream_startsWith]
  unfold readPressure
  simp only [hfmt]
  cases full
  · have := psi_upstream_line (s "some") rs hs someStr_token
    simpa [idx, Res.bind] using this
  · have := psi_upstream_line (s "full") rf hf fullStr_token
    simpa [idx, Res.bind] using this

end OomdModel.FsRead

namespace OomdModel.FsRead
open OomdModel.Path (Str split)

theorem split_psiExperimental (name : Str) (r : Kernel.PsiRow) (hr : r.InRange)
    (hn : name ≠ [] ∧ ' ' ∉ name) :
    split (Kernel.psiExperimental name r) ' ' =
      [name, Kernel.dec2 r.w10 r.f10, Kernel.dec2 r.w60 r.f60, Kernel.dec2 r.w300 r.f300] := by
  apply split_joinWith
  intro x hx
  simp only [List.mem_cons, List.mem_nil_iff, or_false] at hx
  have tok : ∀ w f, f < 100 → Kernel.dec2 w f ≠ [] ∧ ' ' ∉ Kernel.dec2 w f := fun w f hf =>
    ⟨(psiChars_dec2 w f hf).1, (psiChars_dec2 w f hf).not_mem ' ' (by decide) (by decide)⟩
  rcases hx with hx | hx | hx | hx <;> subst hx
  · exact hn
  · exact tok _ _ hr.1
  · exact tok _ _ hr.2.1
  · exact tok _ _ hr.2.2.1

theorem aggr_startsWith (t : Str) : startsWith (s "aggr") (s "aggr" ++ t) = true :=
  isPrefixOf_append_self _ _

theorem aggr_not_some (t : Str) : startsWith (s "some") (s "aggr" ++ t) = false := by
  simp [startsWith, s, List.isPrefixOf]

/-- experimental PSI format (`aggr` / `some` / `full` lines, no totals) -/
theorem readPressure_experimental (aggr : Nat) (rs rf : Kernel.PsiRow) (hs : rs.InRange) (hf : rf.InRange)
    (more : List Str) (full : Bool) :
    readPressure ((s "aggr" ++ ' ' :: renderNat aggr) :: Kernel.psiExperimental (s "some") rs ::
        Kernel.psiExperimental (s "full") rf :: more) full =
      .ok ((if full then rf else rs).pressure false) := by
  have hfmt : psiFormat ((s "aggr" ++ ' ' :: renderNat aggr) :: Kernel.psiExperimental (s "some") rs ::
        Kernel.psiExperimental (s "full") rf :: more) = .experimental := by
    simp [psiFormat, aggr_startsWith, aggr_not_some]
  unfold readPressure
  simp only [hfmt]
  cases full
  · simp only [Bool.false_eq_true, if_false, idx, List.getElem?_cons_zero, List.getElem?_cons_succ, Res.bind,
      split_psiExperimental (s "some") rs hs someStr_token, ne_eq, not_true_eq_false,
      stof_dec2 _ _ hs.1, stof_dec2 _ _ hs.2.1, stof_dec2 _ _ hs.2.2.1]
    simp [Kernel.PsiRow.pressure]
  · simp only [if_true, idx, List.getElem?_cons_zero, List.getElem?_cons_succ, Res.bind,
      split_psiExperimental (s "full") rf hf fullStr_token, ne_eq, not_true_eq_false, if_false,
      stof_dec2 _ _ hf.1, stof_dec2 _ _ hf.2.1, stof_dec2 _ _ hf.2.2.1]
    simp [Kernel.PsiRow.pressure]

/-- an absent or empty pressure file, or an unknown first line, is "unavailable", never a crash -/
theorem readPressure_empty (full : Bool) : readPressure [] full = .unavailable := by
  simp [readPressure, psiFormat]

/-- cgroup.stat: nr_dying_descendants with lookup semantics, 0 when the key is absent -/
theorem readNrDying_render (kvs : List (Str × Nat))
    (h : ∀ kv ∈ kvs, Word kv.1 ∧ kv.1.length ≤ 255 ∧ kv.2 ≤ uint64Max) :
    readNrDying (kvs.map fun kv => Kernel.kvLine kv.1 kv.2) =
      .ok (((lastVal kvs (s "nr_dying_descendants")).map fun v => wrap64 v).getD 0) := by
  simp [readNrDying, readKVMap_lookup kvs _ h]

/-- the xattr priority: system prefer, user prefer, system avoid, user avoid -/
theorem killPreference_spec (sp up sa ua : Bool) :
    killPreference sp up sa ua = (if sp || up then 1 else if sa || ua then -1 else 0) := by
  cases sp <;> cases up <;> cases sa <;> cases ua <;> rfl

/-- `readDirFromDIR(DE_DIR)` (fixed): the directories that are not dot files, with and without d_type -/
theorem readDirDirs_dtype_irrelevant (ents : List (Str × EntKind)) :
    readDirDirs ents false = readDirDirs ents true := rfl

/-- the unfixed code loses every child directory when the filesystem does not report d_type -/
theorem readDirDirsUnfixed_counterexample :
    readDirDirsUnfixed [(s "a", .dir), (s "memory.current", .reg)] false = [] ∧
    readDirDirs [(s "a", .dir), (s "memory.current", .reg)] false = [s "a"] := by decide

end OomdModel.FsRead

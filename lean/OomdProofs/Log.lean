import OomdModel.Log

/-! Helper lemmas and invariants for the logger model (C20). -/

namespace OomdModel.Log

/-! ### list helpers -/

theorem bytes_nil : bytes [] = 0 := rfl

theorem bytes_cons (m : Msg) (l : List Msg) : bytes (m :: l) = m.size + bytes l := by
  simp [bytes]

theorem bytes_append (a b : List Msg) : bytes (a ++ b) = bytes a + bytes b := by
  simp [bytes, List.map_append, List.sum_append]

theorem sinkLines_append (a b : List Out) : sinkLines (a ++ b) = sinkLines a ++ sinkLines b := by
  induction a with
  | nil => rfl
  | cons x xs ih => cases x <;> simp [sinkLines, ih]

theorem reported_append (a b : List Out) : reported (a ++ b) = reported a + reported b := by
  induction a with
  | nil => simp [reported]
  | cons x xs ih => cases x <;> simp [reported, ih] <;> omega

theorem prefix_append_right {α} {a l : List α} (x : List α) (h : a <+: l) : a <+: l ++ x := by
  obtain ⟨t, rfl⟩ := h
  exact ⟨t ++ x, by simp⟩

/-! ### the flag list -/

theorem contains_setFlag (d : List Nat) (t u : Nat) (b : Bool) :
    (setFlag d t b).contains u = if u = t then !b else d.contains u := by
  unfold setFlag
  by_cases hut : u = t
  · subst hut
    cases b <;> simp [List.mem_filter]
  · cases b <;> simp [hut, List.mem_filter] <;>
      by_cases hm : u ∈ d <;> simp [hm, hut]

theorem mem_setFlag (d : List Nat) (t u : Nat) (b : Bool) :
    u ∈ setFlag d t b ↔ (if u = t then b = false else u ∈ d) := by
  have := contains_setFlag d t u b
  by_cases hut : u = t
  · subst hut
    cases b <;> simp_all
  · simp only [hut, if_false] at this ⊢
    rw [← List.contains_iff_mem, this, List.contains_iff_mem]

/-! ### invariant A: holds for every variant of the code -/

structure InvA (s : St) : Prop where
  acc : s.accepted = sinkLines s.sink ++ s.otherQ ++ s.curQ
  other : s.pc ≠ .writing → s.otherQ = []
  drops : s.droppedL.length = reported s.sink + s.ioDiscarded + s.numDiscarded
  ioD : s.pc ≠ .writing → s.ioDiscarded = 0
  idleRun : s.pc = .idle → s.lastRunning = true
  exitedRun : s.pc = .exited → s.lastRunning = false
  stopA : s.running = true ↔ s.atStop = none
  stopPre : ∀ a, s.atStop = some a → a <+: s.accepted
  lastStop : s.lastRunning = false → ∃ a, s.atStop = some a ∧ a <+: sinkLines s.sink ++ s.otherQ
  accSub : s.accepted.Sublist s.offered
  count : s.offered.length = s.accepted.length + s.droppedL.length

theorem invA_init : InvA St.init := by
  constructor <;> simp [St.init, sinkLines, reported]

theorem invA_enq (v : Variant) (s : St) (m : Msg) (h : InvA s) : InvA (enq v s m) := by
  unfold enq
  split
  · exact
      { acc := h.acc
        other := h.other
        drops := by simp; have := h.drops; omega
        ioD := h.ioD
        idleRun := h.idleRun
        exitedRun := h.exitedRun
        stopA := h.stopA
        stopPre := h.stopPre
        lastStop := h.lastStop
        accSub := by
          simpa using h.accSub.trans (List.sublist_append_left s.offered [m])
        count := by simp; have := h.count; omega }
  · exact
      { acc := by simp [h.acc, List.append_assoc]
        other := h.other
        drops := h.drops
        ioD := h.ioD
        idleRun := h.idleRun
        exitedRun := h.exitedRun
        stopA := h.stopA
        stopPre := fun a ha => prefix_append_right [m] (h.stopPre a ha)
        lastStop := h.lastStop
        accSub := by
          simpa using List.Sublist.append h.accSub (List.Sublist.refl [m])
        count := by simp; have := h.count; omega }

theorem invA_flag (s : St) (d : List Nat) (h : InvA s) : InvA { s with disabled := d } := by
  exact
    { acc := h.acc, other := h.other, drops := h.drops, ioD := h.ioD, idleRun := h.idleRun,
      exitedRun := h.exitedRun, stopA := h.stopA, stopPre := h.stopPre, lastStop := h.lastStop,
      accSub := h.accSub, count := h.count }

theorem invA_step (v : Variant) (s s' : St) (e : Step) (h : InvA s) (hs : step v s e = some s') :
    InvA s' := by
  cases e with
  | debugLog m =>
    simp only [step, Option.some.injEq] at hs
    subst hs
    exact invA_enq v s m h
  | stmt tid seq toks =>
    simp only [step] at hs
    split at hs
    · simp only [Option.some.injEq] at hs
      subst hs
      exact invA_flag s _ h
    · simp only [Option.some.injEq] at hs
      subst hs
      exact invA_enq v _ _ (invA_flag s _ h)
  | kmsgWrite m =>
    simp only [step, Option.some.injEq] at hs
    subst hs
    exact
      { acc := h.acc, other := h.other, drops := h.drops, ioD := h.ioD, idleRun := h.idleRun,
        exitedRun := h.exitedRun, stopA := h.stopA, stopPre := h.stopPre, lastStop := h.lastStop,
        accSub := h.accSub, count := h.count }
  | swap =>
    simp only [step] at hs
    split at hs
    · cases hs
    · rename_i hpc
      have hidle : s.pc = .idle := by simpa using hpc
      have ho : s.otherQ = [] := h.other (by simp [hidle])
      have hio : s.ioDiscarded = 0 := h.ioD (by simp [hidle])
      split at hs
      · cases hs
      · simp only [Option.some.injEq] at hs
        subst hs
        exact
          { acc := by simp [h.acc, ho]
            other := by simp
            drops := by simp; have := h.drops; omega
            ioD := by simp
            idleRun := by simp
            exitedRun := by simp
            stopA := h.stopA
            stopPre := h.stopPre
            lastStop := by
              intro hr
              simp only at hr
              have hn : s.atStop ≠ none := fun c => by
                have := h.stopA.2 c
                simp [hr] at this
              obtain ⟨a, ha⟩ := Option.ne_none_iff_exists'.1 hn
              refine ⟨a, ha, ?_⟩
              have := h.stopPre a ha
              simpa [h.acc, ho] using this
            accSub := h.accSub
            count := h.count }
  | write1 =>
    simp only [step] at hs
    split at hs
    · rename_i m rest hpc hq
      simp only [Option.some.injEq] at hs
      subst hs
      exact
        { acc := by simp [h.acc, hq, sinkLines_append, sinkLines]
          other := by simp [hpc]
          drops := by simp [reported_append, reported]; have := h.drops; omega
          ioD := by simp [hpc]
          idleRun := by simp [hpc]
          exitedRun := by simp [hpc]
          stopA := h.stopA
          stopPre := h.stopPre
          lastStop := by
            intro hr
            obtain ⟨a, ha, hp⟩ := h.lastStop hr
            exact ⟨a, ha, by simpa [hq, sinkLines_append, sinkLines] using hp⟩
          accSub := h.accSub
          count := h.count }
    · cases hs
  | report =>
    simp only [step] at hs
    split at hs
    · rename_i hc
      simp only [Bool.and_eq_true, beq_iff_eq, List.isEmpty_iff] at hc
      obtain ⟨hpc, hq⟩ := hc
      simp only [Option.some.injEq] at hs
      subst hs
      have hsl : sinkLines (if s.ioDiscarded = 0 then s.sink else s.sink ++ [Out.report s.ioDiscarded])
          = sinkLines s.sink := by
        split <;> simp [sinkLines_append, sinkLines]
      have hrep : reported (if s.ioDiscarded = 0 then s.sink else s.sink ++ [Out.report s.ioDiscarded])
          = reported s.sink + s.ioDiscarded := by
        split
        · rename_i h0; simp [h0]
        · simp [reported_append, reported]
      exact
        { acc := by simp only [hsl]; exact h.acc
          other := fun _ => hq
          drops := by simp only [hrep]; have := h.drops; omega
          ioD := fun _ => rfl
          idleRun := by
            intro hp
            simp only at hp
            cases hv : v.releaseAtSwap <;> cases hl : s.lastRunning <;> simp_all
          exitedRun := by
            intro hp
            simp only at hp
            cases hv : v.releaseAtSwap <;> cases hl : s.lastRunning <;> simp_all
          stopA := h.stopA
          stopPre := h.stopPre
          lastStop := by
            intro hr
            obtain ⟨a, ha, hp⟩ := h.lastStop hr
            exact ⟨a, ha, by simp only [hsl]; exact hp⟩
          accSub := h.accSub
          count := h.count }
    · cases hs
  | release =>
    simp only [step] at hs
    split at hs
    · rename_i hc
      have hpc : s.pc = .releasing := by simpa using hc
      simp only [Option.some.injEq] at hs
      subst hs
      exact
        { acc := h.acc
          other := fun _ => h.other (by simp [hpc])
          drops := h.drops
          ioD := fun _ => h.ioD (by simp [hpc])
          idleRun := by
            intro hp
            simp only at hp
            cases hl : s.lastRunning <;> simp_all
          exitedRun := by
            intro hp
            simp only at hp
            cases hl : s.lastRunning <;> simp_all
          stopA := h.stopA
          stopPre := h.stopPre
          lastStop := h.lastStop
          accSub := h.accSub
          count := h.count }
    · cases hs
  | stop =>
    simp only [step, Option.some.injEq] at hs
    subst hs
    exact
      { acc := h.acc
        other := h.other
        drops := h.drops
        ioD := h.ioD
        idleRun := h.idleRun
        exitedRun := h.exitedRun
        stopA := by
          simp only
          cases hst : s.atStop <;> simp
        stopPre := by
          intro a ha
          simp only at ha
          cases hst : s.atStop with
          | none =>
            simp only [hst, Option.some.injEq] at ha
            subst ha
            exact List.prefix_refl _
          | some b =>
            simp only [hst, Option.some.injEq] at ha
            subst ha
            exact h.stopPre _ hst
        lastStop := by
          intro hr
          obtain ⟨a, ha, hp⟩ := h.lastStop hr
          exact ⟨a, by simp [ha], hp⟩
        accSub := h.accSub
        count := h.count }

theorem invA_reachable {v : Variant} {s : St} (h : Reachable v s) : InvA s := by
  induction h with
  | init => exact invA_init
  | step e _ hs ih => exact invA_step v _ _ e ih hs

/-! ### `run` and `Reachable` describe the same states -/

theorem reachable_run (v : Variant) (sched : List Step) (s : St) (h : Reachable v s) :
    Reachable v (run v s sched) := by
  induction sched generalizing s with
  | nil => exact h
  | cons x xs ih =>
    simp only [run]
    cases hx : step v s x with
    | none => exact ih s h
    | some s' => exact ih s' (Reachable.step x h hx)

theorem run_append (v : Variant) (s : St) (a b : List Step) :
    run v s (a ++ b) = run v (run v s a) b := by
  induction a generalizing s with
  | nil => rfl
  | cons x xs ih => simp only [List.cons_append, run, ih]

theorem reachable_exists_run {v : Variant} {s : St} (h : Reachable v s) :
    ∃ sched, run v St.init sched = s := by
  induction h with
  | init => exact ⟨[], rfl⟩
  | step e _ hs ih =>
    obtain ⟨sched, hr⟩ := ih
    refine ⟨sched ++ [e], ?_⟩
    rw [run_append, hr]
    simp [run, hs]

/-! ### invariant B: the accounting, for the variants that take the size before the move -/

structure InvB (v : Variant) (s : St) : Prop where
  size : s.curSize = bytes s.curQ + (if v.releaseAtSwap then 0 else inflight s)
  cap : s.curSize ≤ maxSize
  batch : bytes s.otherQ ≤ (if v.releaseAtSwap then maxSize else inflight s)
  noRel : v.releaseAtSwap = true → s.pc ≠ .releasing

theorem invB_init (v : Variant) : InvB v St.init := by
  constructor <;> simp [St.init, bytes, inflight]

theorem invB_enq (v : Variant) (hv : v.sizeAfterMove = false) (s : St) (m : Msg) (h : InvB v s) :
    InvB v (enq v s m) := by
  unfold enq
  split
  · exact { size := h.size, cap := h.cap, batch := h.batch, noRel := h.noRel }
  · rename_i hc
    exact
      { size := by
          have := h.size
          simp only [hv, inflight] at this ⊢
          simp only [bytes_append, bytes_cons, bytes_nil]
          simp
          omega
        cap := by simp only [hv]; simp; omega
        batch := h.batch
        noRel := h.noRel }

theorem invB_flag (v : Variant) (s : St) (d : List Nat) (h : InvB v s) :
    InvB v { s with disabled := d } :=
  { size := h.size, cap := h.cap, batch := h.batch, noRel := h.noRel }

theorem invB_step (v : Variant) (hv : v.sizeAfterMove = false) (s s' : St) (e : Step)
    (ha : InvA s) (h : InvB v s) (hs : step v s e = some s') : InvB v s' := by
  cases e with
  | debugLog m =>
    simp only [step, Option.some.injEq] at hs
    subst hs
    exact invB_enq v hv s m h
  | stmt tid seq toks =>
    simp only [step] at hs
    split at hs
    · simp only [Option.some.injEq] at hs
      subst hs
      exact invB_flag v s _ h
    · simp only [Option.some.injEq] at hs
      subst hs
      exact invB_enq v hv _ _ (invB_flag v s _ h)
  | kmsgWrite m =>
    simp only [step, Option.some.injEq] at hs
    subst hs
    exact { size := h.size, cap := h.cap, batch := h.batch, noRel := h.noRel }
  | swap =>
    simp only [step] at hs
    split at hs
    · cases hs
    · rename_i hpc
      have hidle : s.pc = .idle := by simpa using hpc
      have ho : s.otherQ = [] := ha.other (by simp [hidle])
      have hsz := h.size
      have hcap := h.cap
      simp only [inflight, hidle] at hsz
      split at hs
      · cases hs
      · simp only [Option.some.injEq] at hs
        subst hs
        cases hr : v.releaseAtSwap
        · exact
            { size := by simp [hr, inflight, ho, bytes_nil]
              cap := by simpa [hr] using hcap
              batch := by simp [hr, inflight]; simp [hr] at hsz; omega
              noRel := by simp [hr] }
        · exact
            { size := by simp [hr, ho, bytes_nil]
              cap := by simp
              batch := by simp [hr]; simp [hr] at hsz; omega
              noRel := by simp }
  | write1 =>
    simp only [step] at hs
    split at hs
    · rename_i m rest hpc hq
      simp only [Option.some.injEq] at hs
      subst hs
      have hb := h.batch
      simp only [hq, bytes_cons] at hb
      exact
        { size := by simpa [inflight, hpc] using h.size
          cap := h.cap
          batch := by
            simp only [inflight, hpc] at hb ⊢
            cases hr : v.releaseAtSwap <;> simp [hr] at hb ⊢ <;> omega
          noRel := by simp [hpc] }
    · cases hs
  | report =>
    simp only [step] at hs
    split at hs
    · rename_i hc
      simp only [Bool.and_eq_true, beq_iff_eq, List.isEmpty_iff] at hc
      obtain ⟨hpc, hq⟩ := hc
      simp only [Option.some.injEq] at hs
      subst hs
      have hsz := h.size
      simp only [inflight, hpc] at hsz
      cases hr : v.releaseAtSwap
      · exact
          { size := by simpa [hr, inflight] using hsz
            cap := h.cap
            batch := by simp [hq, bytes_nil]
            noRel := by simp [hr] }
      · exact
          { size := by simpa [hr] using hsz
            cap := h.cap
            batch := by simp [hq, bytes_nil]
            noRel := by
              intro _
              cases hl : s.lastRunning <;> simp }
    · cases hs
  | release =>
    simp only [step] at hs
    split at hs
    · rename_i hc
      have hpc : s.pc = .releasing := by simpa using hc
      have hr : v.releaseAtSwap = false := by
        cases hr : v.releaseAtSwap
        · rfl
        · exact absurd hpc (h.noRel hr)
      have ho : s.otherQ = [] := ha.other (by simp [hpc])
      simp only [Option.some.injEq] at hs
      subst hs
      have hsz := h.size
      have hcap := h.cap
      simp only [inflight, hpc, hr] at hsz
      exact
        { size := by
            cases hl : s.lastRunning <;> simp [hr, inflight] <;> simp at hsz <;> omega
          cap := by simp; omega
          batch := by simp [ho, bytes_nil]
          noRel := by simp [hr] }
    · cases hs
  | stop =>
    simp only [step, Option.some.injEq] at hs
    subst hs
    exact { size := h.size, cap := h.cap, batch := h.batch, noRel := h.noRel }

theorem invB_reachable {v : Variant} (hv : v.sizeAfterMove = false) {s : St} (h : Reachable v s) :
    InvB v s := by
  induction h with
  | init => exact invB_init v
  | step e hr hs ih => exact invB_step v hv _ _ e (invA_reachable hr) ih hs

/-! ### thread-local view -/

theorem enq_disabled (v : Variant) (s : St) (m : Msg) : (enq v s m).disabled = s.disabled := by
  unfold enq; split <;> rfl

theorem enq_kmsg (v : Variant) (s : St) (m : Msg) : (enq v s m).kmsg = s.kmsg := by
  unfold enq; split <;> rfl

theorem enq_offered (v : Variant) (s : St) (m : Msg) : (enq v s m).offered = s.offered ++ [m] := by
  unfold enq; split <;> rfl

/-- every step leaves the flag of every thread other than the one executing a statement alone -/
theorem step_flag_frame (v : Variant) (s s' : St) (e : Step) (hs : step v s e = some s') (u : Nat)
    (hu : ∀ q toks, e ≠ .stmt u q toks) : enabledOf s' u = enabledOf s u := by
  cases e with
  | debugLog m =>
    simp only [step, Option.some.injEq] at hs; subst hs; simp [enabledOf, enq_disabled]
  | stmt tid seq toks =>
    have hne : u ≠ tid := fun c => hu seq toks (by rw [c])
    simp only [step] at hs
    split at hs <;> simp only [Option.some.injEq] at hs <;> subst hs <;>
      simp [enabledOf, enq_disabled, mem_setFlag, hne]
  | kmsgWrite m => simp only [step, Option.some.injEq] at hs; subst hs; rfl
  | swap =>
    simp only [step] at hs
    split at hs
    · cases hs
    · split at hs
      · cases hs
      · simp only [Option.some.injEq] at hs; subst hs; rfl
  | write1 =>
    simp only [step] at hs
    split at hs
    · simp only [Option.some.injEq] at hs; subst hs; rfl
    · cases hs
  | report =>
    simp only [step] at hs
    split at hs
    · simp only [Option.some.injEq] at hs; subst hs; rfl
    · cases hs
  | release =>
    simp only [step] at hs
    split at hs
    · simp only [Option.some.injEq] at hs; subst hs; rfl
    · cases hs
  | stop => simp only [step, Option.some.injEq] at hs; subst hs; rfl

/-- one step, seen from thread `u`: its flag and what it offered depend on `u`'s own part of the step only -/
theorem step_thread_view (v : Variant) (s s' : St) (e : Step) (hs : step v s e = some s') (u : Nat) :
    enabledOf s' u = flag1 u (enabledOf s u) e ∧
    s'.offered.filter (·.tid = u) = s.offered.filter (·.tid = u) ++ offer1 u (enabledOf s u) e := by
  cases e with
  | debugLog m =>
    simp only [step, Option.some.injEq] at hs
    subst hs
    refine ⟨by simp [enabledOf, enq_disabled, flag1], ?_⟩
    simp only [enq_offered, List.filter_append, offer1]
    by_cases hm : m.tid = u <;> simp [hm]
  | stmt tid seq toks =>
    simp only [step] at hs
    by_cases ht : tid = u
    · subst ht
      split at hs <;> rename_i hr <;> simp only [Option.some.injEq] at hs <;> subst hs
      · refine ⟨by simp [enabledOf, mem_setFlag, flag1], ?_⟩
        simp [offer1, hr]
      · refine ⟨by simp [enabledOf, enq_disabled, mem_setFlag, flag1], ?_⟩
        simp [enq_offered, List.filter_append, offer1, hr]
    · have hne : u ≠ tid := fun c => ht c.symm
      split at hs <;> simp only [Option.some.injEq] at hs <;> subst hs
      · refine ⟨by simp [enabledOf, mem_setFlag, flag1, ht, hne], ?_⟩
        simp [offer1, ht]
      · refine ⟨by simp [enabledOf, enq_disabled, mem_setFlag, flag1, ht, hne], ?_⟩
        simp [enq_offered, List.filter_append, offer1, ht]
  | kmsgWrite m =>
    simp only [step, Option.some.injEq] at hs; subst hs
    exact ⟨by simp [enabledOf, flag1], by simp [offer1]⟩
  | swap =>
    simp only [step] at hs
    split at hs
    · cases hs
    · split at hs
      · cases hs
      · simp only [Option.some.injEq] at hs; subst hs
        exact ⟨by simp [enabledOf, flag1], by simp [offer1]⟩
  | write1 =>
    simp only [step] at hs
    split at hs
    · simp only [Option.some.injEq] at hs; subst hs
      exact ⟨by simp [enabledOf, flag1], by simp [offer1]⟩
    · cases hs
  | report =>
    simp only [step] at hs
    split at hs
    · simp only [Option.some.injEq] at hs; subst hs
      exact ⟨by simp [enabledOf, flag1], by simp [offer1]⟩
    · cases hs
  | release =>
    simp only [step] at hs
    split at hs
    · simp only [Option.some.injEq] at hs; subst hs
      exact ⟨by simp [enabledOf, flag1], by simp [offer1]⟩
    · cases hs
  | stop =>
    simp only [step, Option.some.injEq] at hs; subst hs
    exact ⟨by simp [enabledOf, flag1], by simp [offer1]⟩

/-- a step that is not enabled is a flusher step: it belongs to no producer thread -/
theorem step_none_view (v : Variant) (s : St) (e : Step) (hs : step v s e = none) (u : Nat) (en : Bool) :
    flag1 u en e = en ∧ offer1 u en e = [] := by
  cases e with
  | debugLog m => simp [step] at hs
  | stmt tid seq toks =>
    simp only [step] at hs
    split at hs <;> cases hs
  | kmsgWrite m => simp [step] at hs
  | stop => simp [step] at hs
  | swap => exact ⟨rfl, rfl⟩
  | write1 => exact ⟨rfl, rfl⟩
  | report => exact ⟨rfl, rfl⟩
  | release => exact ⟨rfl, rfl⟩

theorem run_thread_view (v : Variant) (sched : List Step) (s : St) (u : Nat) :
    enabledOf (run v s sched) u = threadFlag u (enabledOf s u) sched ∧
    (run v s sched).offered.filter (·.tid = u)
      = s.offered.filter (·.tid = u) ++ threadOffers u (enabledOf s u) sched := by
  induction sched generalizing s with
  | nil => simp [run, threadFlag, threadOffers]
  | cons e r ih =>
    simp only [run, threadFlag, threadOffers]
    cases hs : step v s e with
    | none =>
      obtain ⟨h1, h2⟩ := step_none_view v s e hs u (enabledOf s u)
      simp only [h1, h2, List.nil_append]
      exact ih s
    | some s' =>
      obtain ⟨h1, h2⟩ := step_thread_view v s s' e hs u
      obtain ⟨i1, i2⟩ := ih s'
      simp only
      rw [i1, i2, h1, h2, List.append_assoc]
      exact ⟨rfl, rfl⟩

theorem step_kmsg (v : Variant) (s s' : St) (e : Step) (hs : step v s e = some s') :
    s'.kmsg = s.kmsg ++ kmsgAsked [e] := by
  cases e with
  | debugLog m =>
    simp only [step, Option.some.injEq] at hs; subst hs; simp [enq_kmsg, kmsgAsked]
  | stmt tid seq toks =>
    simp only [step] at hs
    split at hs <;> simp only [Option.some.injEq] at hs <;> subst hs <;> simp [enq_kmsg, kmsgAsked]
  | kmsgWrite m => simp only [step, Option.some.injEq] at hs; subst hs; simp [kmsgAsked]
  | swap =>
    simp only [step] at hs
    split at hs
    · cases hs
    · split at hs
      · cases hs
      · simp only [Option.some.injEq] at hs; subst hs; simp [kmsgAsked]
  | write1 =>
    simp only [step] at hs
    split at hs
    · simp only [Option.some.injEq] at hs; subst hs; simp [kmsgAsked]
    · cases hs
  | report =>
    simp only [step] at hs
    split at hs
    · simp only [Option.some.injEq] at hs; subst hs; simp [kmsgAsked]
    · cases hs
  | release =>
    simp only [step] at hs
    split at hs
    · simp only [Option.some.injEq] at hs; subst hs; simp [kmsgAsked]
    · cases hs
  | stop => simp only [step, Option.some.injEq] at hs; subst hs; simp [kmsgAsked]

theorem kmsgAsked_cons (e : Step) (r : List Step) : kmsgAsked (e :: r) = kmsgAsked [e] ++ kmsgAsked r := by
  cases e <;> simp [kmsgAsked]

theorem run_kmsg (v : Variant) (sched : List Step) (s : St) :
    (run v s sched).kmsg = s.kmsg ++ kmsgAsked sched := by
  induction sched generalizing s with
  | nil => simp [run, kmsgAsked]
  | cons e r ih =>
    simp only [run]
    rw [kmsgAsked_cons]
    cases hs : step v s e with
    | none =>
      have : kmsgAsked [e] = [] := by
        cases e <;> simp [step] at hs <;> simp [kmsgAsked]
      simp only [this, List.nil_append]
      exact ih s
    | some s' =>
      simp only
      rw [ih s', step_kmsg v s s' e hs, List.append_assoc]

/-! ### progress of the flusher once the stop flag is set -/

theorem run_write1_all (v : Variant) (q : List Msg) (s : St) (hq : s.otherQ = q) (h : s.pc = .writing) :
    run v s (List.replicate q.length .write1)
      = { s with sink := s.sink ++ q.map Out.line, otherQ := [] } := by
  induction q generalizing s with
  | nil =>
    cases s
    simp_all [run]
  | cons m rest ih =>
    have hs : step v s .write1 = some { s with sink := s.sink ++ [.line m], otherQ := rest } := by
      simp [step, h, hq]
    simp only [List.length_cons, List.replicate_succ, run, hs]
    have := ih { s with sink := s.sink ++ [.line m], otherQ := rest } rfl h
    rw [this]
    simp [List.append_assoc]

theorem run_write1_idle (v : Variant) (n : Nat) (s : St) (h : s.pc ≠ .writing) :
    run v s (List.replicate n .write1) = s := by
  induction n with
  | zero => rfl
  | succ k ih =>
    have hs : step v s .write1 = none := by
      simp only [step]
      split
      · rename_i hp _; exact absurd hp h
      · rfl
    simp only [List.replicate_succ, run, hs]
    exact ih

/-- from `writing`, the flusher alone finishes the batch -/
theorem run_finish_batch (v : Variant) (s : St) (h : s.pc = .writing) :
    let s' := run v s (List.replicate s.otherQ.length .write1 ++ [.report, .release])
    s'.pc = (if s.lastRunning then .idle else .exited) ∧ s'.running = s.running ∧ s'.curQ = s.curQ := by
  simp only [run_append, run_write1_all v s.otherQ s rfl h]
  cases hr : v.releaseAtSwap <;> cases hl : s.lastRunning <;> simp [run, step, h, hr]

/-- once the stop flag is set, the flusher can always run to completion on its own -/
theorem flusher_completes (v : Variant) (s : St) (hstop : s.running = false) :
    ∃ sched : List Step, sched.all isIoStep = true ∧ (run v s sched).pc = .exited := by
  -- from `idle`: swap (enabled because the flag is down), then finish that batch
  have fromIdle : ∀ s : St, s.running = false → s.pc = .idle →
      ∃ sched : List Step, sched.all isIoStep = true ∧ (run v s sched).pc = .exited := by
    intro s hr hp
    have hs : ∃ s1, step v s .swap = some s1 ∧ s1.pc = .writing ∧ s1.lastRunning = false := by
      simp [step, hp, hr]
    obtain ⟨s1, h1, hp1, hl1⟩ := hs
    refine ⟨.swap :: (List.replicate s1.otherQ.length .write1 ++ [.report, .release]), ?_, ?_⟩
    · simp [isIoStep, List.all_append, List.all_replicate]
    · simp only [run, h1]
      have := (run_finish_batch v s1 hp1).1
      simpa [hl1] using this
  cases hp : s.pc with
  | exited => exact ⟨[], rfl, hp⟩
  | idle => exact fromIdle s hstop hp
  | writing =>
    obtain ⟨h1, h2, _⟩ := run_finish_batch v s hp
    cases hl : s.lastRunning with
    | false =>
      exact ⟨List.replicate s.otherQ.length .write1 ++ [.report, .release],
        by simp [isIoStep, List.all_append, List.all_replicate], by simpa [hl] using h1⟩
    | true =>
      obtain ⟨sched2, ha, hx⟩ := fromIdle _ (h2.trans hstop) (by simpa [hl] using h1)
      refine ⟨(List.replicate s.otherQ.length .write1 ++ [.report, .release]) ++ sched2, ?_, ?_⟩
      · simp [isIoStep, List.all_append, List.all_replicate, ha]
      · rw [run_append]; exact hx
  | releasing =>
    have hs : ∃ s1, step v s .release = some s1 ∧ s1.pc = (if s.lastRunning then .idle else .exited)
        ∧ s1.running = s.running := by
      simp [step, hp]
    obtain ⟨s1, h1, hp1, hr1⟩ := hs
    cases hl : s.lastRunning with
    | false => exact ⟨[.release], rfl, by simpa [run, h1, hl] using hp1⟩
    | true =>
      obtain ⟨sched2, ha, hx⟩ := fromIdle s1 (hr1.trans hstop) (by simpa [hl] using hp1)
      exact ⟨.release :: sched2, by simp [isIoStep, ha], by simpa [run, h1] using hx⟩

theorem enq_atStop (v : Variant) (s : St) (m : Msg) : (enq v s m).atStop = s.atStop := by
  unfold enq; split <;> rfl

/-- the snapshot taken at the first `stop` never changes afterwards -/
theorem step_atStop (v : Variant) (s s' : St) (e : Step) (a : List Msg) (ha : s.atStop = some a)
    (hs : step v s e = some s') : s'.atStop = some a := by
  cases e with
  | debugLog m => simp only [step, Option.some.injEq] at hs; subst hs; simpa [enq_atStop] using ha
  | stmt tid seq toks =>
    simp only [step] at hs
    split at hs <;> simp only [Option.some.injEq] at hs <;> subst hs <;> simpa [enq_atStop] using ha
  | kmsgWrite m => simp only [step, Option.some.injEq] at hs; subst hs; exact ha
  | swap =>
    simp only [step] at hs
    split at hs
    · cases hs
    · split at hs
      · cases hs
      · simp only [Option.some.injEq] at hs; subst hs; exact ha
  | write1 =>
    simp only [step] at hs
    split at hs
    · simp only [Option.some.injEq] at hs; subst hs; exact ha
    · cases hs
  | report =>
    simp only [step] at hs
    split at hs
    · simp only [Option.some.injEq] at hs; subst hs; exact ha
    · cases hs
  | release =>
    simp only [step] at hs
    split at hs
    · simp only [Option.some.injEq] at hs; subst hs; exact ha
    · cases hs
  | stop => simp only [step, Option.some.injEq] at hs; subst hs; simp [ha]

theorem run_atStop (v : Variant) (sched : List Step) (s : St) (a : List Msg) (ha : s.atStop = some a) :
    (run v s sched).atStop = some a := by
  induction sched generalizing s with
  | nil => exact ha
  | cons e r ih =>
    simp only [run]
    cases hs : step v s e with
    | none => exact ih s ha
    | some s' => exact ih s' (step_atStop v s s' e a ha hs)

end OomdModel.Log

import OomdModel.Path

/-! Helper lemmas about `Util::split`, `joinSlash`, `fnm` and the glob walk. -/

namespace OomdModel.Path

theorem splitGo_append_delim (d : Char) (a b : Str) :
    ∀ cur, splitGo d (a ++ d :: b) cur = splitGo d a cur ++ splitGo d b [] := by
  induction a with
  | nil =>
    intro cur
    simp only [List.nil_append, splitGo, if_true]
    cases cur <;> simp
  | cons c a ih =>
    intro cur
    simp only [List.cons_append, splitGo]
    by_cases h : c = d
    · simp only [h, if_true]
      rw [ih]
      cases cur <;> simp
    · simp only [h, if_false]
      exact ih _

theorem split_append_delim (d : Char) (a b : Str) :
    split (a ++ d :: b) d = split a d ++ split b d := splitGo_append_delim d a b []

theorem splitGo_nodelim (d : Char) (a : Str) (h : d ∉ a) :
    ∀ cur, splitGo d a cur = if (a.reverse ++ cur).isEmpty then [] else [(a.reverse ++ cur).reverse] := by
  induction a with
  | nil => intro cur; simp [splitGo]
  | cons c a ih =>
    intro cur
    have hc : c ≠ d := by intro e; exact h (by simp [e])
    have ha : d ∉ a := by intro e; exact h (by simp [e])
    simp only [splitGo, hc, if_false]
    rw [ih ha]
    simp

theorem split_nil (d : Char) : split [] d = [] := by simp [split, splitGo]

theorem split_nodelim (d : Char) (a : Str) (h : d ∉ a) (hne : a ≠ []) : split a d = [a] := by
  unfold split
  rw [splitGo_nodelim d a h]
  simp [hne]

/-- every piece produced by `split` is non-empty and contains no delimiter -/
theorem splitGo_pieces (d : Char) (s : Str) :
    ∀ cur, d ∉ cur → ∀ x ∈ splitGo d s cur, x ≠ [] ∧ d ∉ x := by
  induction s with
  | nil =>
    intro cur hcur x hx
    simp only [splitGo] at hx
    split at hx
    · simp at hx
    · rename_i hne
      simp at hx
      subst hx
      constructor
      · intro e; simp at e; simp [e] at hne
      · simpa using hcur
  | cons c s ih =>
    intro cur hcur x hx
    simp only [splitGo] at hx
    by_cases h : c = d
    · simp only [h, if_true] at hx
      split at hx
      · exact ih [] (by simp) x hx
      · rename_i hne
        simp only [List.mem_cons] at hx
        rcases hx with hx | hx
        · subst hx
          constructor
          · intro e; simp at e; simp [e] at hne
          · simpa using hcur
        · exact ih [] (by simp) x hx
    · simp only [h, if_false] at hx
      refine ih (c :: cur) ?_ x hx
      intro hm
      simp only [List.mem_cons] at hm
      rcases hm with hm | hm
      · exact h hm.symm
      · exact hcur hm

theorem split_pieces (d : Char) (s : Str) : ∀ x ∈ split s d, x ≠ [] ∧ d ∉ x :=
  splitGo_pieces d s [] (by simp)

/-- well-formed component list: what `split` produces -/
def WFParts (ps : List Str) : Prop := ∀ x ∈ ps, x ≠ [] ∧ '/' ∉ x

theorem wfParts_split (s : Str) : WFParts (split s '/') := split_pieces '/' s

theorem split_joinSlash (ps : List Str) (h : WFParts ps) : split (joinSlash ps) '/' = ps := by
  induction ps with
  | nil => simp [joinSlash, split_nil]
  | cons p rest ih =>
    cases rest with
    | nil =>
      simp only [joinSlash]
      exact split_nodelim '/' p (h p (by simp)).2 (h p (by simp)).1
    | cons q rest =>
      simp only [joinSlash]
      rw [split_append_delim, split_nodelim '/' p (h p (by simp)).2 (h p (by simp)).1]
      rw [ih (fun x hx => h x (by simp [hx]))]
      simp

theorem joinSlash_eq_nil (ps : List Str) (h : WFParts ps) : joinSlash ps = [] ↔ ps = [] := by
  constructor
  · intro e
    have := split_joinSlash ps h
    rw [e, split_nil] at this
    exact this.symm
  · intro e; subst e; rfl

theorem joinSlash_inj (ps qs : List Str) (hp : WFParts ps) (hq : WFParts qs)
    (h : joinSlash ps = joinSlash qs) : ps = qs := by
  rw [← split_joinSlash ps hp, ← split_joinSlash qs hq, h]

/-! ### fnmatch on meta-free patterns is equality -/

theorem fnm_cons_plain (p : Char) (ps : Str) (c : Char) (cs : Str)
    (hs : p ≠ '*') (hb : p ≠ '[') (he : p ≠ '\\') :
    fnm (p :: ps) (c :: cs) = ((p == '?' || p == c) && fnm ps cs) := by
  rw [fnm.eq_def]
  split <;> simp_all

theorem fnm_cons_nil (p : Char) (ps : Str) (hs : p ≠ '*') : fnm (p :: ps) [] = false := by
  rw [fnm.eq_def]
  split <;> simp_all

theorem fnm_cons_escape (p : Char) (ps : Str) (c : Char) (cs : Str) :
    fnm ('\\' :: p :: ps) (c :: cs) = (p == c && fnm ps cs) := by
  rw [fnm.eq_def]
  split
  case h_8 =>
    rename_i hx heq1 heq2
    simp only [List.cons.injEq] at heq1
    exact absurd heq1.2.symm (hx p ps heq1.1.symm)
  all_goals simp_all

theorem fnm_escape_nil (p : Char) (ps : Str) : fnm ('\\' :: p :: ps) [] = false := by
  rw [fnm.eq_def]
  split <;> simp_all

/-- **An escaped name matches itself and nothing else.** -/
theorem fnm_globEscape (s : Str) : ∀ t, fnm (globEscape s) t = true ↔ t = s := by
  induction s with
  | nil => intro t; cases t <;> simp [globEscape, fnm]
  | cons c cs ih =>
    intro t
    have hcons : globEscape (c :: cs) = escChar c ++ globEscape cs := by simp [globEscape]
    rw [hcons]
    unfold escChar
    split
    · -- special character: written as backslash + character
      cases t with
      | nil => simp [fnm_escape_nil]
      | cons d ds =>
        simp only [List.cons_append, List.nil_append, fnm_cons_escape, Bool.and_eq_true, beq_iff_eq, ih ds]
        constructor
        · rintro ⟨rfl, rfl⟩; rfl
        · intro h; injection h with h1 h2; exact ⟨h1.symm, h2⟩
    · rename_i hsp
      simp only [Bool.or_eq_true, beq_iff_eq, not_or] at hsp
      obtain ⟨⟨⟨⟨h1, h2⟩, h3⟩, h4⟩, _⟩ := hsp
      cases t with
      | nil => simp [fnm_cons_nil c _ h2]
      | cons d ds =>
        simp only [List.cons_append, List.nil_append]
        rw [fnm_cons_plain c _ d ds h2 h4 h1]
        simp only [Bool.and_eq_true, Bool.or_eq_true, beq_iff_eq, ih ds]
        constructor
        · rintro ⟨h | h, rfl⟩
          · exact absurd h h3
          · rw [h]
        · intro h; injection h with h1' h2'; exact ⟨Or.inr h1'.symm, h2'⟩

/-- the same with the leading-period rule of `fnmatch(…, FNM_PERIOD)`: an escaped name still matches exactly itself -/
theorem fnmatch_globEscape (s t : Str) : fnmatch (globEscape s) t = true ↔ t = s := by
  have key := fnm_globEscape s t
  unfold fnmatch
  split
  · exact key
  · exact key
  · -- the name starts with a period, the pattern neither with `.` nor with `\.`: then `s` does not start with a period
    rename_i c cs hno1 hno2
    constructor
    · intro h; cases h
    · intro h
      exfalso
      subst h
      exact hno1 (globEscape cs) (by simp [globEscape, escChar])
  · exact key

theorem fnm_literal (pat : Str) (h : hasMeta pat = false) : ∀ s, fnm pat s = true ↔ s = pat := by
  induction pat with
  | nil => intro s; cases s <;> simp [fnm]
  | cons p ps ih =>
    intro s
    simp only [hasMeta, List.any_cons, Bool.or_eq_false_iff] at h
    obtain ⟨⟨⟨⟨h1, h2⟩, h4⟩, h5⟩, h3⟩ := h
    have hs : p ≠ '*' := by simpa using h1
    have hq : p ≠ '?' := by simpa using h2
    have hb : p ≠ '[' := by simpa using h4
    have he : p ≠ '\\' := by simpa using h5
    cases s with
    | nil =>
      rw [fnm_cons_nil p ps hs]
      simp
    | cons c cs =>
      have := ih (by simpa [hasMeta] using h3) cs
      rw [fnm_cons_plain p ps c cs hs hb he]
      simp only [Bool.and_eq_true, Bool.or_eq_true, beq_iff_eq, this, List.cons.injEq]
      constructor
      · rintro ⟨h | h, rfl⟩
        · exact absurd h hq
        · exact ⟨h.symm, rfl⟩
      · rintro ⟨rfl, rfl⟩; exact ⟨Or.inr rfl, rfl⟩

theorem fnmatch_literal (pat : Str) (h : hasMeta pat = false) (s : Str) :
    fnmatch pat s = true ↔ s = pat := by
  unfold fnmatch
  split
  · exact fnm_literal _ h _
  · exact fnm_literal _ h _
  · rename_i c cs hno _
    constructor
    · intro e; simp at e
    · intro e
      subst e
      exact (hno _ rfl).elim
  · exact fnm_literal _ h _

end OomdModel.Path

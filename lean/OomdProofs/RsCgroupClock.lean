import OomdProofs.RsCgroup
import OomdModel.EngineSpec

/-!
# The per-cgroup loop and the clock: an instance's history is a history of the plain ruleset model

Lemmas for `C05.percg_no_action_during_pause`.  `OomdProofs.RsCgroup` shows that the instance of one path is run by `rsRun` on its
own state at *some* clock reading; here the readings are related to each other: the loop's clock never goes back, so the
reading at which an instance is reached on a later tick is not below the reading at which its previous run ended.  With that the
`runOnceImpl` events of an instance over any history in which its path keeps matching are exactly `rsHistory` of the plain
ruleset model from the instance's own state - the object C05's theorems speak about.
-/

namespace OomdModel.RsCgroup
open OomdModel.Engine

theorem visit_now_le (F : Fixes) (cfg : Cfg) (sc : Path → Script) (L : Loop) (m : MatchIn) :
    L.now ≤ (visit F cfg sc L m).1.now := by
  unfold visit
  split
  · exact Nat.le_refl _
  · split
    · exact Nat.le_refl _
    · exact instVisit_clock F cfg m.path _ _ _ _ _

theorem loop_now_le (F : Fixes) (cfg : Cfg) (sc : Path → Script) (ms : List MatchIn) (L : Loop) :
    L.now ≤ (loop F cfg sc ms L).1.now := by
  induction ms generalizing L with
  | nil => exact Nat.le_refl _
  | cons m ms ih =>
    simp only [loop]
    exact Nat.le_trans (visit_now_le F cfg sc L m) (ih _)

theorem visit_self_now (F : Fixes) (cfg : Cfg) (sc : Path → Script) (L : Loop) (m : MatchIn)
    (he : eligible cfg.filter m = true) (hv : m.path ∉ L.visited) :
    (visit F cfg sc L m).1.now = (instVisit F cfg m.path (find m.path L.insts) (sc m.path) L.now L.ctr L.nextGen).now := by
  unfold visit
  simp [he, hv]

/-- `loop_present` with the clock after the loop: the run of `p`'s instance ends at a reading not above the loop's final one -/
theorem loop_present_clock (F : Fixes) (hs : F.skipVisited = true) (cfg : Cfg) (sc : Path → Script) (p : Path)
    (ms : List MatchIn) (L : Loop)
    (hv : p ∉ L.visited) (hp : present cfg.filter ms p = true) :
    ∃ now ctr g, L.now ≤ now ∧ L.nextGen ≤ g ∧
      find p (loop F cfg sc ms L).1.insts = some (instVisit F cfg p (find p L.insts) (sc p) now ctr g).inst ∧
      evsOf p (loop F cfg sc ms L).2 = (instVisit F cfg p (find p L.insts) (sc p) now ctr g).evs ∧
      (instVisit F cfg p (find p L.insts) (sc p) now ctr g).now ≤ (loop F cfg sc ms L).1.now := by
  induction ms generalizing L with
  | nil => simp [present] at hp
  | cons m ms ih =>
    simp only [loop]
    by_cases hm : m.path = p ∧ eligible cfg.filter m = true
    · obtain ⟨hm, he⟩ := hm
      subst hm
      obtain ⟨s1, s2, s3⟩ := visit_self F cfg sc L m he hv
      obtain ⟨u1, _, u3⟩ := loop_untouched F hs cfg sc m.path ms (visit F cfg sc L m).1 (Or.inl s2)
      refine ⟨L.now, L.ctr, L.nextGen, Nat.le_refl _, Nat.le_refl _, u1.trans s1, ?_, ?_⟩
      · rw [evsOf_append, u3, s3, List.append_nil]
        exact evsOf_all _ _ (instVisit_path F cfg m.path _ _ _ _ _)
      · rw [← visit_self_now F cfg sc L m he hv]
        exact loop_now_le F cfg sc ms _
    · have hp' : present cfg.filter ms p = true := by
        simp only [present, List.any_cons, Bool.or_eq_true] at hp
        rcases hp with hp | hp
        · exfalso
          simp only [Bool.and_eq_true, decide_eq_true_eq] at hp
          exact hm ⟨hp.2, hp.1⟩
        · exact hp
      have hstep : find p (visit F cfg sc L m).1.insts = find p L.insts ∧
          p ∉ (visit F cfg sc L m).1.visited ∧ evsOf p (visit F cfg sc L m).2 = [] ∧
          L.now ≤ (visit F cfg sc L m).1.now ∧ L.nextGen ≤ (visit F cfg sc L m).1.nextGen := by
        by_cases hmp : m.path = p
        · have he : eligible cfg.filter m = false := by
            cases h : eligible cfg.filter m
            · rfl
            · exact absurd ⟨hmp, h⟩ hm
          rw [visit_skip F cfg sc L m (Or.inl he)]
          exact ⟨rfl, hv, rfl, Nat.le_refl _, Nat.le_refl _⟩
        · obtain ⟨h1, h2, h3, h4, h5⟩ := visit_other F cfg sc L m p hmp
          exact ⟨h1, fun c => hv (h2.1 c), h3, h4, h5⟩
      obtain ⟨h1, h2, h3, h4, h5⟩ := hstep
      obtain ⟨now, ctr, g, hn, hg, r1, r2, r3⟩ := ih _ h2 hp'
      refine ⟨now, ctr, g, Nat.le_trans h4 hn, Nat.le_trans h5 hg, ?_⟩
      rw [h1] at r1 r2 r3
      refine ⟨r1, ?_, r3⟩
      rw [evsOf_append, h3, r2]
      rfl

/-- one tick of a present path that already has an instance, with the clock: the instance is run by `rsRun` from its own state
at a reading `now ≥ w.now + gap`, and that run ends at a reading not above the world's clock after the tick -/
theorem state_persists_clock (F : Fixes) (hs : F.skipVisited = true) (cfg : Cfg) (w : CgWorld)
    (ti : CgTickIn) (p : Path) (i : Inst) (hw : WF w)
    (hi : find p w.insts = some i) (hp : present cfg.filter ti.ms p = true) :
    ∃ now ctr, w.now + ti.gap ≤ now ∧
      find p (cgTick F cfg w ti).w.insts =
        some { gen := i.gen, st := (rsRun F.invOnResume cfg.rs (ti.sc p) i.st now ctr).1 } ∧
      runsOf p (cgTick F cfg w ti).evs = (rsRun F.invOnResume cfg.rs (ti.sc p) i.st now ctr).2.1.map (CEv.run p i.gen) ∧
      (rsRun F.invOnResume cfg.rs (ti.sc p) i.st now ctr).2.2.1 ≤ (cgTick F cfg w ti).w.now := by
  obtain ⟨now, ctr, g, hn, _, r1, r2, r3⟩ := loop_present_clock F hs cfg ti.sc p ti.ms
    { insts := w.insts, visited := [], now := w.now + ti.gap, ctr := w.ctr, nextGen := w.nextGen } (by simp) hp
  simp only at hn r1 r2 r3
  rw [hi] at r1 r2 r3
  have hvis : p ∈ (loop F cfg ti.sc ti.ms
      { insts := w.insts, visited := [], now := w.now + ti.gap, ctr := w.ctr, nextGen := w.nextGen }).1.visited := by
    obtain ⟨_, _, _, _, _, q⟩ := loop_present F hs cfg ti.sc p ti.ms
      { insts := w.insts, visited := [], now := w.now + ti.gap, ctr := w.ctr, nextGen := w.nextGen } (by simp) hp
    exact q.2.1
  refine ⟨now, ctr, hn, ?_, ?_, ?_⟩
  · simp only [cgTick, runPhase]
    rw [find_filter (fun q => (loop F cfg ti.sc ti.ms
      { insts := w.insts, visited := [], now := w.now + ti.gap, ctr := w.ctr, nextGen := w.nextGen }).1.visited.contains q)]
    simp only [List.contains_eq_mem, hvis, decide_true, if_true]
    rw [r1]
    simp [instVisit]
  · simp only [cgTick, runPhase]
    rw [← runsOf_evsOf, evsOf_append, prerunPhase_of F cfg p w.insts hw.nodup, r2, hi, runsOf_append]
    rw [runsOf_nonrun p (prePhaseOf F cfg p (some i))]
    · simp only [instVisit, List.nil_append]
      exact runsOf_map_run p i.gen _
    · intro e he
      have := prePhaseOf_isPre F cfg p _ e he
      cases e <;> simp_all [isPre, isRun]
  · simpa [cgTick, runPhase, instVisit] using r3

/-- the `Ev` of a `runOnceImpl` event of an instance -/
def evOfRun : CEv → Option Ev
  | .run _ _ e => some e
  | _ => none

theorem filterMap_evOfRun_map (p : Path) (g : Nat) (l : List Ev) : (l.map (CEv.run p g)).filterMap evOfRun = l := by
  induction l with
  | nil => rfl
  | cons e l ih => simp [evOfRun, ih]

/-- what C05 observes of the instance for `p` over a history: its `runOnceImpl` events tick by tick, each read with that
tick's script (`obs`: when an action ran, and the deadline a STOP set) -/
def instObs (cfg : Cfg) (p : Path) : List CgTickIn → List (List CEv) → List Obs
  | t :: ts, evs :: rest => ((runsOf p evs).filterMap evOfRun).map (obs cfg.rs (t.sc p)) ++ instObs cfg p ts rest
  | _, _ => []

/-- **An instance's history is a history of the plain ruleset.**  Over any sequence of ticks in all of which `p` keeps
matching, what C05 observes of `p`'s instance is `rsHistory` of the plain ruleset model from the instance's own state, for
some list of invocations whose scripts are `p`'s scripts of those ticks. -/
theorem instObs_eq_rsHistory (F : Fixes) (hs : F.skipVisited = true) (cfg : Cfg) (p : Path) (ts : List CgTickIn)
    (w : CgWorld) (hw : WF w) (i : Inst) (hi : find p w.insts = some i) (last : Nat) (hl : last ≤ w.now)
    (hp : ∀ t ∈ ts, present cfg.filter t.ms p = true) :
    ∃ invs : List Invocation, (∀ j ∈ invs, ∃ t ∈ ts, j.sc = t.sc p) ∧
      instObs cfg p ts (runEvs F cfg w ts) = rsHistory F.invOnResume cfg.rs i.st last invs := by
  induction ts generalizing w i last with
  | nil => exact ⟨[], by simp, by simp [instObs, runEvs, rsHistory]⟩
  | cons t ts ih =>
    obtain ⟨now, ctr, hn, h1, h2, h3⟩ := state_persists_clock F hs cfg w t p i hw hi (hp t (List.mem_cons_self ..))
    obtain ⟨invs, hsc, hEq⟩ := ih (cgTick F cfg w t).w (tick_WF F cfg w hw t).1 _ h1
      (rsRun F.invOnResume cfg.rs (t.sc p) i.st now ctr).2.2.1 h3
      (fun t' ht' => hp t' (List.mem_cons_of_mem _ ht'))
    refine ⟨{ now := now, ctr := ctr, sc := t.sc p } :: invs, ?_, ?_⟩
    · intro j hj
      rcases List.mem_cons.1 hj with rfl | hj
      · exact ⟨t, List.mem_cons_self .., rfl⟩
      · obtain ⟨t', ht', e⟩ := hsc j hj
        exact ⟨t', List.mem_cons_of_mem _ ht', e⟩
    · have hmax : max now last = now := by omega
      simp only [runEvs, instObs, rsHistory, hmax]
      rw [h2, filterMap_evOfRun_map, hEq]

end OomdModel.RsCgroup

import OomdModel.Hook
import OomdProofs.Kill

/-! Helper definitions and lemmas about the prekill-hook model (`OomdModel.Hook`):

* `Mon` / `step` / `mrun`: a small trace automaton that states the clauses of C07 on a sequence of `HEv`
  (at most one invocation outstanding, fire only after a reading inside the window and only the selected hook, an attempt only
  after its own hook is done and destroyed or when no hook applies);
* `runHistory_accepted`: every history of the model is accepted by it (induction over the loop, the resume path, the ticks);
* model-free consequences of acceptance in "for every decomposition of the trace" form, used by `OomdProps.C07`;
* `hloop_no_hooks`: without hooks the loop is `OomdModel.Kill.loop`.
-/

namespace OomdModel.Hook
open OomdModel.Kill

/-! ## the event/answer monad -/

@[simp] theorem pure_apply {α} (a : α) (env : HEnv) : (pure a : HM α) env = ⟨[], env, a⟩ := rfl

@[simp] theorem bind_apply {α β} (m : HM α) (f : α → HM β) (env : HEnv) :
    (m >>= f) env = ⟨(m env).evs ++ (f (m env).val (m env).env).evs,
                     (f (m env).val (m env).env).env, (f (m env).val (m env).env).val⟩ := rfl

@[simp] theorem emit_apply (e : HEv) (env : HEnv) : emit e env = ⟨[e], env, ()⟩ := rfl

theorem ite_apply {α} (c : Prop) [Decidable c] (a b : HM α) (env : HEnv) :
    (if c then a else b) env = if c then a env else b env := by
  split <;> rfl

@[simp] theorem nextClock_evs (env : HEnv) : (nextClock env).evs = [] := by
  unfold nextClock; split <;> rfl
@[simp] theorem nextPoll_evs (env : HEnv) : (nextPoll env).evs = [] := by
  unfold nextPoll; split <;> rfl
@[simp] theorem freshInv_evs (env : HEnv) : (freshInv env).evs = [] := rfl
@[simp] theorem freshInv_val (env : HEnv) : (freshInv env).val = env.nextInv := rfl

@[simp] theorem attempt_evs (cfg : KillCfg) (v : View) (k : Nat) (env : HEnv) :
    (attempt cfg v k env).evs =
      [.attempt v.id v.info.path (tryToLogAndKill cfg v k env.kenv).evs (tryToLogAndKill cfg v k env.kenv).val] := rfl
@[simp] theorem attempt_val (cfg : KillCfg) (v : View) (k : Nat) (env : HEnv) :
    (attempt cfg v k env).val = (tryToLogAndKill cfg v k env.kenv).val := rfl

/-! ## explicit event shapes of the small pieces -/

theorem pastTimeout_evs (dl : Option Nat) (env : HEnv) :
    (pastTimeout dl env).evs = [.now (nextClock env).val (past dl (nextClock env).val)] ∧
    (pastTimeout dl env).val = past dl (nextClock env).val := by
  simp [pastTimeout]

theorem fireSelected_shape (v : View) (h : Nat) (env : HEnv) :
    ((fireSelected v h env).val = .proceed ∧
      (fireSelected v h env).evs = [.fire h v.id v.info.path env.nextInv, .poll env.nextInv true, .destroy env.nextInv]) ∨
    ((fireSelected v h env).val = .defer env.nextInv ∧
      (fireSelected v h env).evs = [.fire h v.id v.info.path env.nextInv, .poll env.nextInv false]) := by
  simp only [fireSelected, bind_apply, freshInv_val, emit_apply, freshInv_evs, nextPoll_evs, List.nil_append]
  cases hf : (nextPoll (freshInv env).env).val <;> simp [hf]

/-- the four ways through the gate in front of an attempt on `v` -/
theorem gate_shape (cfg : HCfg) (dl : Option Nat) (v : View) (env : HEnv) :
    (∃ t, (gate cfg dl v env).val = .proceed ∧ (gate cfg dl v env).evs = [.now t true] ∧ past dl t = true) ∨
    (∃ t, (gate cfg dl v env).val = .proceed ∧ (gate cfg dl v env).evs = [.now t false] ∧ past dl t = false ∧
      selectHook cfg.prio cfg.pats (vp v.info.path) = none) ∨
    (∃ t h i, (gate cfg dl v env).val = .proceed ∧ past dl t = false ∧
      selectHook cfg.prio cfg.pats (vp v.info.path) = some h ∧
      (gate cfg dl v env).evs = [.now t false, .fire h v.id v.info.path i, .poll i true, .destroy i]) ∨
    (∃ t h i, (gate cfg dl v env).val = .defer i ∧ past dl t = false ∧
      selectHook cfg.prio cfg.pats (vp v.info.path) = some h ∧
      (gate cfg dl v env).evs = [.now t false, .fire h v.id v.info.path i, .poll i false]) := by
  have hp := pastTimeout_evs dl env
  simp only [gate, bind_apply, hp.1, hp.2]
  cases hpast : past dl (nextClock env).val with
  | true => left; exact ⟨_, by simp, by simp, hpast⟩
  | false =>
    right
    simp only [Bool.false_eq_true, if_false, fireHook]
    cases hs : selectHook cfg.prio cfg.pats (vp v.info.path) with
    | none => left; exact ⟨_, by simp, by simp, hpast, rfl⟩
    | some h =>
      right
      rcases fireSelected_shape v h (pastTimeout dl env).env with ⟨hv, he⟩ | ⟨hv, he⟩
      · left; exact ⟨_, h, (pastTimeout dl env).env.nextInv, by simp [hv], hpast, rfl, by simp [he]⟩
      · right; exact ⟨_, h, (pastTimeout dl env).env.nextInv, by simp [hv], hpast, rfl, by simp [he]⟩

/-! ## the trace automaton -/

structure Mon where
  live : Option (Nat × Nat)     -- the outstanding invocation and the cgroup it was fired for
  done : Bool                   -- since that fire: a poll answered finished, or a reading was past the deadline
  ready : Option Nat            -- cgroup whose hook was fired, is done and has been destroyed: its kill attempt may follow
                                --   (an invocation is only destroyed when done)
  lastNow : Option Bool         -- the previous event was a clock reading with this verdict
deriving DecidableEq, Repr

def Mon.init : Mon := { live := none, done := false, ready := none, lastNow := none }

/-- nothing outstanding, no attempt due -/
def Mon.idle (m : Mon) : Prop := m.live = none ∧ m.ready = none

def step (prio : List Nat) (pats : Nat → List Path.CgPath) (m : Mon) : HEv → Option Mon
  | .now _ b => some { m with lastNow := some b, done := m.done || (m.live.isSome && b) }
  | .fire h cg path inv =>
    if m.live.isNone && m.ready.isNone && m.lastNow == some false && selectHook prio pats (vp path) == some h then
      some { live := some (inv, cg), done := false, ready := none, lastNow := none }
    else none
  | .poll inv fin =>
    match m.live with
    | some (i, _) => if i = inv then some { m with done := m.done || fin, lastNow := none } else none
    | none => none
  | .destroy inv =>
    match m.live with
    | some (i, cg) =>
      if i = inv && m.done then some { live := none, done := false, ready := some cg, lastNow := none } else none
    | none => none
  | .attempt cg path _ _ =>
    if m.live.isNone &&
        (m.ready == some cg ||
          (m.ready.isNone && (m.lastNow == some true || (m.lastNow == some false && selectHook prio pats (vp path) == none)))) then
      some { live := none, done := false, ready := none, lastNow := none }
    else none
  | .k (.pause _) => some { m with lastNow := none }    -- outside attempt blocks the only kill-model event is `pause_actions`
  | .k _ => none
  | .ret r =>
    if r = .async then (if m.live.isSome then some { m with lastNow := none } else none)
    else if m.live.isNone then some { m with ready := none, lastNow := none } else none

def mrun (prio : List Nat) (pats : Nat → List Path.CgPath) : Mon → List HEv → Option Mon
  | m, [] => some m
  | m, e :: es =>
    match step prio pats m e with
    | some m' => mrun prio pats m' es
    | none => none

theorem mrun_append (prio pats) (m : Mon) (a b : List HEv) :
    mrun prio pats m (a ++ b) = (mrun prio pats m a).bind fun m' => mrun prio pats m' b := by
  induction a generalizing m with
  | nil => rfl
  | cons e es ih =>
    simp only [List.cons_append, mrun]
    cases step prio pats m e with
    | none => rfl
    | some m' => exact ih m'

theorem mrun_append_of {prio pats} {m m1 m2 : Mon} {a b : List HEv}
    (ha : mrun prio pats m a = some m1) (hb : mrun prio pats m1 b = some m2) :
    mrun prio pats m (a ++ b) = some m2 := by
  rw [mrun_append, ha]; exact hb

end OomdModel.Hook

namespace OomdModel.Hook
open OomdModel.Kill

/-! ## every run of the model is accepted -/

theorem deser_id {top : List View} {r : SRef} {v : View} (h : deser top r = some v) : v.id = r.id := by
  unfold deser at h
  split at h
  · split at h
    · cases h; assumption
    · cases h
  · cases h

/-- the attempt step always ends in the initial state -/
theorem step_attempt_some {prio pats} {m m' : Mon} {cg path evs ok}
    (h : step prio pats m (.attempt cg path evs ok) = some m') : m' = Mon.init := by
  simp only [step] at h
  split at h
  · cases h; rfl
  · cases h

/-- through the gate: either the attempt on `v` is now admissible, or the invocation is outstanding -/
theorem gate_accepted (cfg : HCfg) (dl : Option Nat) (v : View) (env : HEnv) (m : Mon) (hm : m.idle) :
    ((gate cfg dl v env).val = .proceed →
      ∃ m1, mrun cfg.prio cfg.pats m (gate cfg dl v env).evs = some m1 ∧
        ∀ evs ok, step cfg.prio cfg.pats m1 (.attempt v.id v.info.path evs ok) = some Mon.init) ∧
    (∀ i, (gate cfg dl v env).val = .defer i →
      ∃ m1, mrun cfg.prio cfg.pats m (gate cfg dl v env).evs = some m1 ∧ m1.live = some (i, v.id) ∧ m1.ready = none) := by
  obtain ⟨live, done, ready, lastNow⟩ := m
  obtain ⟨h1, h2⟩ := hm
  simp only at h1 h2
  subst h1 h2
  rcases gate_shape cfg dl v env with ⟨t, hv, he, _⟩ | ⟨t, hv, he, _, hs⟩ | ⟨t, h, i, hv, _, hs, he⟩ | ⟨t, h, i, hv, _, hs, he⟩
  · refine ⟨fun _ => ?_, fun i hi => by rw [hv] at hi; cases hi⟩
    rw [he]
    exact ⟨_, rfl, fun _ _ => by simp [step, Mon.init]⟩
  · refine ⟨fun _ => ?_, fun i hi => by rw [hv] at hi; cases hi⟩
    rw [he]
    exact ⟨_, rfl, fun _ _ => by simp [step, Mon.init, hs]⟩
  · refine ⟨fun _ => ?_, fun i hi => by rw [hv] at hi; cases hi⟩
    rw [he]
    refine ⟨{ live := none, done := false, ready := some v.id, lastNow := none }, ?_, fun _ _ => by simp [step, Mon.init]⟩
    simp [mrun, step, hs]
  · refine ⟨fun hp => (by rw [hv] at hp; cases hp), fun j hj => ?_⟩
    rw [hv] at hj
    cases hj
    rw [he]
    refine ⟨{ live := some (i, v.id), done := false, ready := none, lastNow := none }, ?_, rfl, rfl⟩
    simp [mrun, step, hs]

/-- what the automaton knows after the loop / the resume path -/
def Post (m : Mon) : LoopRes → Prop
  | .defer p => m.live = some (p.inv, p.victim.id) ∧ m.ready = none
  | _ => m.live = none

theorem init_idle : Mon.init.idle := ⟨rfl, rfl⟩

theorem hloop_accepted (cfg : HCfg) (rank : List View → List View) (dl : Option Nat) :
    ∀ (n : Nat) (stack : List View) (k : Nat) (env : HEnv) (m : Mon), m.idle →
      ∃ m', mrun cfg.prio cfg.pats m (hloop cfg rank dl n stack k env).evs = some m' ∧
        Post m' (hloop cfg rank dl n stack k env).val := by
  intro n
  induction n with
  | zero => intro stack k env m hm; exact ⟨m, rfl, hm.1⟩
  | succ n ih =>
    intro stack k env m hm
    cases stack with
    | nil => exact ⟨m, rfl, hm.1⟩
    | cons v st =>
      simp only [hloop]
      split
      · exact ih _ _ _ _ hm
      · split
        · exact ih _ _ _ _ hm
        · obtain ⟨hpro, hdef⟩ := gate_accepted cfg dl v env m hm
          simp only [bind_apply]
          cases hg : (gate cfg dl v env).val with
          | defer i =>
            obtain ⟨m1, hr, hl, hrd⟩ := hdef i hg
            refine ⟨m1, ?_, ?_⟩
            · simp [afterGate, hr]
            · simp [afterGate, Post, ser, hl, hrd]
          | proceed =>
            obtain ⟨m1, hr, hat⟩ := hpro hg
            simp only [afterGate, bind_apply, attempt_evs]
            cases hok : (attempt cfg.kill v k (gate cfg dl v env).env).val
            case true =>
              refine ⟨Mon.init, ?_, ?_⟩
              · simp only [if_true, pure_apply, List.append_nil]
                exact mrun_append_of hr (by simp [mrun, hat])
              · simp [Post, Mon.init]
            case false =>
              simp only [Bool.false_eq_true, if_false]
              obtain ⟨m', hr', hp'⟩ := ih st (k + 1) (attempt cfg.kill v k (gate cfg dl v env).env).env Mon.init init_idle
              refine ⟨m', ?_, hp'⟩
              rw [← List.append_assoc]
              refine mrun_append_of (mrun_append_of hr ?_) hr'
              simp [mrun, hat]

/-- monitor state that corresponds to the plugin's hook state between two `run()` calls -/
def InvSt (m : Mon) : Option Pending → Prop
  | none => m.idle ∧ m.lastNow = none
  | some p => (m.live = some (p.inv, p.victim.id) ∧ m.ready = none) ∧ m.lastNow = none

theorem hookDone_accepted (prio pats) (dl : Option Nat) (p : Pending) (env : HEnv) (m : Mon)
    (hm : m.live = some (p.inv, p.victim.id) ∧ m.ready = none) :
    ∃ m1, mrun prio pats m (hookDone dl p env).evs = some m1 ∧ m1.live = some (p.inv, p.victim.id) ∧ m1.ready = none ∧
      ((hookDone dl p env).val = true → m1.done = true) := by
  obtain ⟨live, done, ready, lastNow⟩ := m
  obtain ⟨h1, h2⟩ := hm
  simp only at h1 h2
  subst h1 h2
  simp only [hookDone, bind_apply, emit_apply, nextPoll_evs, List.nil_append]
  cases hf : (nextPoll env).val with
  | true =>
    refine ⟨{ live := some (p.inv, p.victim.id), done := true, ready := none, lastNow := none }, ?_, rfl, rfl, fun _ => rfl⟩
    simp [mrun, step]
  | false =>
    have hp := pastTimeout_evs dl (nextPoll env).env
    simp only [Bool.false_eq_true, if_false, hp.1, hp.2]
    refine ⟨{ live := some (p.inv, p.victim.id), done := done || past dl (nextClock (nextPoll env).env).val, ready := none,
              lastNow := some (past dl (nextClock (nextPoll env).env).val) }, ?_, rfl, rfl, ?_⟩
    · simp [mrun, step]
    · intro h; simp [h]

theorem resume_accepted (cfg : HCfg) (rank : List View → List View) (dl : Option Nat) (top : List View) (p : Pending)
    (env : HEnv) (m : Mon) (hm : m.live = some (p.inv, p.victim.id) ∧ m.ready = none) :
    ∃ m', mrun cfg.prio cfg.pats m (resume cfg rank dl top p env).evs = some m' ∧
      Post m' (resume cfg rank dl top p env).val := by
  obtain ⟨m1, hr1, hl1, hrd1, hd1⟩ := hookDone_accepted cfg.prio cfg.pats dl p env m hm
  simp only [resume, bind_apply]
  cases hd : (hookDone dl p env).val with
  | false =>
    refine ⟨m1, ?_, ?_⟩
    · simp [hr1]
    · simp [Post, hl1, hrd1]
  | true =>
    have hdone := hd1 hd
    simp only [if_true, afterHook, bind_apply, emit_apply]
    -- after the destroy
    have hdes : mrun cfg.prio cfg.pats m1 [HEv.destroy p.inv] =
        some { live := none, done := false, ready := some p.victim.id, lastNow := none } := by
      obtain ⟨l, d, r, ln⟩ := m1
      simp only at hl1 hrd1 hdone
      subst hl1 hrd1 hdone
      simp [mrun, step]
    simp only [killIntended]
    cases hde : deser top p.victim with
    | none =>
      refine ⟨{ live := none, done := false, ready := some p.victim.id, lastNow := none }, ?_, ?_⟩
      · simp only [pure_apply, List.append_nil]
        exact mrun_append_of hr1 hdes
      · simp [Post]
    | some v =>
      have hid := deser_id hde
      simp only [bind_apply, attempt_evs]
      have hatt : ∀ evs ok, mrun cfg.prio cfg.pats { live := none, done := false, ready := some p.victim.id, lastNow := none }
          [HEv.attempt v.id v.info.path evs ok] = some Mon.init := by
        intro evs ok
        simp [mrun, step, hid, Mon.init]
      cases hok : (attempt cfg.kill v 0 (hookDone dl p env).env).val
      case true =>
        refine ⟨Mon.init, ?_, by simp [Post, Mon.init]⟩
        simp only [if_true, pure_apply, List.append_nil]
        exact mrun_append_of hr1 (mrun_append_of hdes (hatt _ _))
      case false =>
        simp only [Bool.false_eq_true, if_false, fallback]
        obtain ⟨m', hr', hp'⟩ := hloop_accepted cfg rank dl (fsize (deserStack top p.stack) + 1) (deserStack top p.stack) 1
          (attempt cfg.kill v 0 (hookDone dl p env).env).env Mon.init init_idle
        refine ⟨m', ?_, hp'⟩
        refine mrun_append_of hr1 (mrun_append_of hdes ?_)
        exact mrun_append_of (hatt _ _) hr'

theorem finish_accepted (prio pats) (cfg : KillCfg) (res : LoopRes) (env : HEnv) (m : Mon) (hp : Post m res) :
    ∃ m', mrun prio pats m (finish cfg res env).evs = some m' ∧ InvSt m' (finish cfg res env).val.1 ∧
      ((finish cfg res env).val.2 = .async ↔ (finish cfg res env).val.1.isSome) := by
  obtain ⟨live, done, ready, lastNow⟩ := m
  cases res with
  | defer p =>
    obtain ⟨h1, h2⟩ := hp
    simp only at h1 h2
    subst h1 h2
    refine ⟨{ live := some (p.inv, p.victim.id), done := done, ready := none, lastNow := none }, ?_, ?_, ?_⟩
    · simp [finish, retWith, mrun, step]
    · simp [finish, retWith, InvSt]
    · simp [finish, retWith]
  | failed =>
    simp only [Post] at hp
    subst hp
    refine ⟨{ live := none, done := done, ready := none, lastNow := none }, ?_, ?_, ?_⟩
    · simp [finish, retWith, mrun, step]
    · simp [finish, retWith, InvSt, Mon.idle]
    · simp [finish, retWith]
  | success =>
    simp only [Post] at hp
    subst hp
    refine ⟨{ live := none, done := done, ready := none, lastNow := none }, ?_, ?_, ?_⟩
    · simp only [finish]
      split
      · simp [retWith, mrun, step]
      · simp only [pauseEv]
        split <;> simp [retWith, mrun, step]
    · simp only [finish]
      split
      · simp [retWith, InvSt, Mon.idle]
      · simp only [pauseEv]
        split <;> simp [retWith, InvSt, Mon.idle]
    · simp only [finish]
      split
      · simp [retWith]
      · simp only [pauseEv]
        split <;> simp [retWith]

theorem runTick_accepted (cfg : HCfg) (rank : List View → List View) (dl : Option Nat) (top roots : List View)
    (st : Option Pending) (env : HEnv) (m : Mon) (hm : InvSt m st) :
    ∃ m', mrun cfg.prio cfg.pats m (runTick cfg rank dl top roots st env).evs = some m' ∧
      InvSt m' (runTick cfg rank dl top roots st env).val.1 ∧
      ((runTick cfg rank dl top roots st env).val.2 = .async ↔ (runTick cfg rank dl top roots st env).val.1.isSome) := by
  simp only [runTick, bind_apply]
  cases st with
  | none =>
    obtain ⟨m1, hr1, hp1⟩ := hloop_accepted cfg rank dl (fsize (rank roots) + 1) (rank roots) 0 env m hm.1
    obtain ⟨m2, hr2, hi2, ha2⟩ := finish_accepted cfg.prio cfg.pats cfg.kill _ (fresh cfg rank dl roots env).env m1 hp1
    exact ⟨m2, mrun_append_of hr1 hr2, hi2, ha2⟩
  | some p =>
    obtain ⟨m1, hr1, hp1⟩ := resume_accepted cfg rank dl top p env m hm.1
    obtain ⟨m2, hr2, hi2, ha2⟩ := finish_accepted cfg.prio cfg.pats cfg.kill _ (resume cfg rank dl top p env).env m1 hp1
    exact ⟨m2, mrun_append_of hr1 hr2, hi2, ha2⟩

/-- **Every history of the model is accepted by the automaton**, from any state that matches the plugin's hook state. -/
theorem runHistory_accepted (cfg : HCfg) :
    ∀ (ticks : List TickIn) (st : Option Pending) (saved : Option (Option Nat)) (env : HEnv) (m : Mon), InvSt m st →
      ∃ m', mrun cfg.prio cfg.pats m (flat (runHistory cfg st saved ticks env)) = some m' := by
  intro ticks
  induction ticks with
  | nil => intro st saved env m _; exact ⟨m, rfl⟩
  | cons ti rest ih =>
    intro st saved env m hm
    simp only [runHistory, flat, List.flatMap_cons]
    obtain ⟨m1, hr1, hi1, _⟩ := runTick_accepted cfg ti.rank
      (curDl saved ti) ti.top ti.roots st env m hm
    obtain ⟨m2, hr2⟩ := ih _ _ _ m1 hi1
    exact ⟨m2, mrun_append_of hr1 hr2⟩

end OomdModel.Hook

namespace OomdModel.Hook
open OomdModel.Kill

/-! ## the automaton's steps, one characterisation per event -/

variable {prio : List Nat} {pats : Nat → List Path.CgPath}

theorem step_fire_some {m m1 : Mon} {h cg path inv} :
    step prio pats m (.fire h cg path inv) = some m1 ↔
      m.live = none ∧ m.ready = none ∧ m.lastNow = some false ∧ selectHook prio pats (vp path) = some h ∧
      m1 = { live := some (inv, cg), done := false, ready := none, lastNow := none } := by
  simp only [step]
  constructor
  · intro hh
    split at hh
    · rename_i hc
      simp only [Bool.and_eq_true, Option.isNone_iff_eq_none, beq_iff_eq] at hc
      cases hh
      exact ⟨hc.1.1.1, hc.1.1.2, hc.1.2, hc.2, rfl⟩
    · cases hh
  · rintro ⟨a, b, c, d, rfl⟩
    simp [a, b, c, d]

theorem step_poll_some {m m1 : Mon} {inv fin} :
    step prio pats m (.poll inv fin) = some m1 ↔
      ∃ cg, m.live = some (inv, cg) ∧ m1 = { m with done := m.done || fin, lastNow := none } := by
  simp only [step]
  constructor
  · intro hh
    split at hh
    · rename_i i cg hl
      split at hh
      · rename_i hi; subst hi; cases hh; exact ⟨cg, hl, rfl⟩
      · cases hh
    · cases hh
  · rintro ⟨cg, hl, rfl⟩
    simp [hl]

theorem step_destroy_some {m m1 : Mon} {inv} :
    step prio pats m (.destroy inv) = some m1 ↔
      ∃ cg, m.live = some (inv, cg) ∧ m.done = true ∧ m1 = { live := none, done := false, ready := some cg, lastNow := none } := by
  simp only [step]
  constructor
  · intro hh
    split at hh
    · rename_i i cg hl
      split at hh
      · rename_i hi
        simp only [Bool.and_eq_true, decide_eq_true_eq] at hi
        obtain ⟨hi, hd⟩ := hi
        subst hi; cases hh; exact ⟨cg, hl, hd, rfl⟩
      · cases hh
    · cases hh
  · rintro ⟨cg, hl, hd, rfl⟩
    simp [hl, hd]

theorem step_attempt_iff {m m1 : Mon} {cg path evs ok} :
    step prio pats m (.attempt cg path evs ok) = some m1 ↔
      m.live = none ∧
      (m.ready = some cg ∨ (m.ready = none ∧ (m.lastNow = some true ∨
        (m.lastNow = some false ∧ selectHook prio pats (vp path) = none)))) ∧ m1 = Mon.init := by
  simp only [step]
  constructor
  · intro hh
    split at hh
    · rename_i hc
      simp only [Bool.and_eq_true, Bool.or_eq_true, Option.isNone_iff_eq_none, beq_iff_eq] at hc
      cases hh
      exact ⟨hc.1, hc.2, rfl⟩
    · cases hh
  · rintro ⟨a, b, rfl⟩
    have : (m.live.isNone && (m.ready == some cg || m.ready.isNone && (m.lastNow == some true ||
        m.lastNow == some false && selectHook prio pats (vp path) == none))) = true := by
      simp only [Bool.and_eq_true, Bool.or_eq_true, Option.isNone_iff_eq_none, beq_iff_eq]
      exact ⟨a, b⟩
    rw [if_pos this]; rfl

theorem step_k_some {m m1 : Mon} {e : Ev} :
    step prio pats m (.k e) = some m1 ↔ (∃ d, e = .pause d) ∧ m1 = { m with lastNow := none } := by
  cases e <;> simp [step, eq_comm]

theorem step_ret_some {m m1 : Mon} {r : Ret} :
    step prio pats m (.ret r) = some m1 ↔
      (r = .async ∧ m.live.isSome = true ∧ m1 = { m with lastNow := none }) ∨
      (r ≠ .async ∧ m.live = none ∧ m1 = { m with ready := none, lastNow := none }) := by
  simp only [step]
  constructor
  · intro hh
    split at hh
    · rename_i hr
      split at hh
      · rename_i hl; cases hh; exact Or.inl ⟨hr, hl, rfl⟩
      · cases hh
    · rename_i hr
      split at hh
      · rename_i hl
        cases hh
        exact Or.inr ⟨hr, by simpa using hl, rfl⟩
      · cases hh
  · rintro (⟨a, b, rfl⟩ | ⟨a, b, rfl⟩)
    · simp [a, b]
    · simp [a, b]

end OomdModel.Hook

namespace OomdModel.Hook
open OomdModel.Kill

variable {prio : List Nat} {pats : Nat → List Path.CgPath}

/-! ## model-free consequences of acceptance -/

/-- events that neither start nor end a kill attempt's gate: everything but fire, attempt and a final return -/
def quiet : HEv → Bool
  | .fire _ _ _ _ => false
  | .attempt _ _ _ _ => false
  | .ret r => decide (r = .async)
  | _ => true

theorem mrun_append_some {m m' : Mon} {a b : List HEv} (h : mrun prio pats m (a ++ b) = some m') :
    ∃ m1, mrun prio pats m a = some m1 ∧ mrun prio pats m1 b = some m' := by
  rw [mrun_append] at h
  cases ha : mrun prio pats m a with
  | none => rw [ha] at h; cases h
  | some m1 => rw [ha] at h; exact ⟨m1, rfl, h⟩

theorem mrun_cons_some {m m' : Mon} {e : HEv} {es : List HEv} (h : mrun prio pats m (e :: es) = some m') :
    ∃ m1, step prio pats m e = some m1 ∧ mrun prio pats m1 es = some m' := by
  simp only [mrun] at h
  cases hs : step prio pats m e with
  | none => rw [hs] at h; cases h
  | some m1 => rw [hs] at h; exact ⟨m1, rfl, h⟩

theorem mrun_single_some {m m' : Mon} {e : HEv} (h : mrun prio pats m [e] = some m') : step prio pats m e = some m' := by
  obtain ⟨m1, hs, hr⟩ := mrun_cons_some h
  simp only [mrun] at hr
  cases hr; exact hs

/-- only a clock reading leaves `lastNow` set -/
theorem step_lastNow {m m1 : Mon} {e : HEv} {b : Bool} (h : step prio pats m e = some m1) (hb : m1.lastNow = some b) :
    ∃ t, e = .now t b := by
  cases e with
  | now t b' =>
    simp only [step] at h; cases h
    simp only [Option.some.injEq] at hb
    exact ⟨t, by rw [hb]⟩
  | fire h' cg path inv => obtain ⟨_, _, _, _, rfl⟩ := step_fire_some.1 h; cases hb
  | poll inv fin => obtain ⟨_, _, rfl⟩ := step_poll_some.1 h; cases hb
  | destroy inv => obtain ⟨_, _, _, rfl⟩ := step_destroy_some.1 h; cases hb
  | attempt cg path evs ok => obtain ⟨_, _, rfl⟩ := step_attempt_iff.1 h; cases hb
  | k e => obtain ⟨_, rfl⟩ := step_k_some.1 h; cases hb
  | ret r => rcases step_ret_some.1 h with ⟨_, _, rfl⟩ | ⟨_, _, rfl⟩ <;> cases hb

theorem mrun_lastNow : ∀ (pre : List HEv) (m m2 : Mon) (b : Bool), mrun prio pats m pre = some m2 → m2.lastNow = some b →
    (pre = [] ∧ m.lastNow = some b) ∨ ∃ pre1 t, pre = pre1 ++ [.now t b] := by
  intro pre
  induction pre with
  | nil => intro m m2 b h hb; simp only [mrun] at h; cases h; exact Or.inl ⟨rfl, hb⟩
  | cons e es ih =>
    intro m m2 b h hb
    obtain ⟨m1, hs, hr⟩ := mrun_cons_some h
    rcases ih m1 m2 b hr hb with ⟨rfl, hl⟩ | ⟨pre1, t, rfl⟩
    · obtain ⟨t, rfl⟩ := step_lastNow hs hl
      exact Or.inr ⟨[], t, rfl⟩
    · exact Or.inr ⟨e :: pre1, t, rfl⟩

/-- **a fire is directly preceded by a reading that was not past the deadline, finds nothing outstanding, and names the selected hook** -/
theorem accepted_fire {m m' : Mon} {pre post : List HEv} {h cg path inv}
    (hacc : mrun prio pats m (pre ++ .fire h cg path inv :: post) = some m') (hm : m.lastNow = none) :
    (∃ pre1 t, pre = pre1 ++ [.now t false]) ∧ selectHook prio pats (vp path) = some h ∧
    ∃ mp, mrun prio pats m pre = some mp ∧ mp.live = none := by
  obtain ⟨mp, hpre, hrest⟩ := mrun_append_some hacc
  obtain ⟨m1, hs, _⟩ := mrun_cons_some hrest
  obtain ⟨hl, _, hln, hsel, _⟩ := step_fire_some.1 hs
  refine ⟨?_, hsel, mp, hpre, hl⟩
  rcases mrun_lastNow pre m mp false hpre hln with ⟨_, hc⟩ | hx
  · rw [hm] at hc; cases hc
  · exact hx


end OomdModel.Hook

namespace OomdModel.Hook
open OomdModel.Kill

variable {prio : List Nat} {pats : Nat → List Path.CgPath}

/-! ### at most one invocation outstanding -/

def nFire : List HEv → Nat
  | [] => 0
  | .fire _ _ _ _ :: es => nFire es + 1
  | _ :: es => nFire es

def nDestroy : List HEv → Nat
  | [] => 0
  | .destroy _ :: es => nDestroy es + 1
  | _ :: es => nDestroy es

def liveCount (m : Mon) : Nat := if m.live.isSome then 1 else 0

theorem step_count {m m1 : Mon} {e : HEv} (h : step prio pats m e = some m1) :
    nFire [e] + liveCount m = nDestroy [e] + liveCount m1 := by
  cases e with
  | now t b => simp only [step] at h; cases h; simp [nFire, nDestroy, liveCount]
  | fire h' cg path inv =>
    obtain ⟨hl, _, _, _, rfl⟩ := step_fire_some.1 h
    simp [nFire, nDestroy, liveCount, hl]
  | poll inv fin => obtain ⟨_, _, rfl⟩ := step_poll_some.1 h; simp [nFire, nDestroy, liveCount]
  | destroy inv =>
    obtain ⟨_, hl, _, rfl⟩ := step_destroy_some.1 h
    simp [nFire, nDestroy, liveCount, hl]
  | attempt cg path evs ok =>
    obtain ⟨hl, _, rfl⟩ := step_attempt_iff.1 h
    simp [nFire, nDestroy, liveCount, hl, Mon.init]
  | k e => obtain ⟨_, rfl⟩ := step_k_some.1 h; simp [nFire, nDestroy, liveCount]
  | ret r => rcases step_ret_some.1 h with ⟨_, _, rfl⟩ | ⟨_, _, rfl⟩ <;> simp [nFire, nDestroy, liveCount]

theorem nFire_cons (e : HEv) (es : List HEv) : nFire (e :: es) = nFire [e] + nFire es := by
  cases e <;> simp [nFire] <;> omega
theorem nDestroy_cons (e : HEv) (es : List HEv) : nDestroy (e :: es) = nDestroy [e] + nDestroy es := by
  cases e <;> simp [nDestroy] <;> omega

theorem mrun_count : ∀ (es : List HEv) (m m' : Mon), mrun prio pats m es = some m' →
    nFire es + liveCount m = nDestroy es + liveCount m' := by
  intro es
  induction es with
  | nil => intro m m' h; simp only [mrun] at h; cases h; simp [nFire, nDestroy]
  | cons e es ih =>
    intro m m' h
    obtain ⟨m1, hs, hr⟩ := mrun_cons_some h
    have h1 := step_count hs
    have h2 := ih m1 m' hr
    rw [nFire_cons, nDestroy_cons]
    omega

/-- **in every prefix of an accepted trace the fires exceed the destroys by at most one** (and never fall behind) -/
theorem accepted_outstanding {m' : Mon} {pre suf : List HEv} (hacc : mrun prio pats Mon.init (pre ++ suf) = some m') :
    nDestroy pre ≤ nFire pre ∧ nFire pre ≤ nDestroy pre + 1 := by
  obtain ⟨mp, hpre, _⟩ := mrun_append_some hacc
  have := mrun_count pre Mon.init mp hpre
  have h0 : liveCount Mon.init = 0 := rfl
  have h1 : liveCount mp ≤ 1 := by unfold liveCount; split <;> omega
  omega

/-! ### between a fire and the next attempt -/

/-- evidence that the hook is done: a poll of it answered finished, or a reading was past the deadline -/
def DoneIn (inv : Nat) (mid : List HEv) : Prop := .poll inv true ∈ mid ∨ ∃ t, .now t true ∈ mid

theorem DoneIn.cons {inv : Nat} {e : HEv} {mid : List HEv} (h : DoneIn inv mid) : DoneIn inv (e :: mid) := by
  rcases h with h | ⟨t, h⟩
  · exact Or.inl (List.mem_cons_of_mem _ h)
  · exact Or.inr ⟨t, List.mem_cons_of_mem _ h⟩

/-- after the destroy: nothing but readings and `pause_actions` until the attempt -/
theorem quiet_after_destroy : ∀ (mid : List HEv) (m m2 : Mon) (cg : Nat), (∀ e ∈ mid, quiet e = true) →
    m.live = none → m.ready = some cg → mrun prio pats m mid = some m2 → m2.live = none ∧ m2.ready = some cg := by
  intro mid
  induction mid with
  | nil => intro m m2 cg _ hl hr h; simp only [mrun] at h; cases h; exact ⟨hl, hr⟩
  | cons e es ih =>
    intro m m2 cg hq hl hr h
    obtain ⟨m1, hs, hrest⟩ := mrun_cons_some h
    have hqe := hq e (List.mem_cons_self ..)
    have hq' : ∀ x ∈ es, quiet x = true := fun x hx => hq x (List.mem_cons_of_mem _ hx)
    cases e with
    | now t b => simp only [step] at hs; cases hs; (refine ih _ _ cg hq' ?_ ?_ hrest <;> assumption)
    | fire h' cg' path inv => simp [quiet] at hqe
    | poll inv fin => obtain ⟨_, hl', _⟩ := step_poll_some.1 hs; rw [hl] at hl'; cases hl'
    | destroy inv => obtain ⟨_, hl', _⟩ := step_destroy_some.1 hs; rw [hl] at hl'; cases hl'
    | attempt cg' path evs ok => simp [quiet] at hqe
    | k e => obtain ⟨_, rfl⟩ := step_k_some.1 hs; (refine ih _ _ cg hq' ?_ ?_ hrest <;> assumption)
    | ret r =>
      rcases step_ret_some.1 hs with ⟨_, hl', _⟩ | ⟨hr', _, _⟩
      · rw [hl] at hl'; cases hl'
      · simp [quiet, hr'] at hqe

/-- from the fire to the attempt: either the invocation is still outstanding, or it has been destroyed after it was done -/
theorem quiet_after_fire : ∀ (mid : List HEv) (m m2 : Mon) (inv cg : Nat), (∀ e ∈ mid, quiet e = true) →
    m.live = some (inv, cg) → m.ready = none → mrun prio pats m mid = some m2 →
    (m2.live = some (inv, cg) ∧ m2.ready = none ∧ (m2.done = true → m.done = true ∨ DoneIn inv mid)) ∨
    (m2.live = none ∧ m2.ready = some cg ∧ .destroy inv ∈ mid ∧ (m.done = true ∨ DoneIn inv mid)) := by
  intro mid
  induction mid with
  | nil =>
    intro m m2 inv cg _ hl hr h
    simp only [mrun] at h; cases h
    exact Or.inl ⟨hl, hr, fun hd => Or.inl hd⟩
  | cons e es ih =>
    intro m m2 inv cg hq hl hr h
    obtain ⟨m1, hs, hrest⟩ := mrun_cons_some h
    have hqe := hq e (List.mem_cons_self ..)
    have hq' : ∀ x ∈ es, quiet x = true := fun x hx => hq x (List.mem_cons_of_mem _ hx)
    -- lifting the induction hypothesis over an event that keeps the invocation outstanding
    have lift : ∀ (m1 : Mon), m1.live = some (inv, cg) → m1.ready = none → mrun prio pats m1 es = some m2 →
        (m1.done = true → m.done = true ∨ DoneIn inv (e :: es)) →
        (m2.live = some (inv, cg) ∧ m2.ready = none ∧ (m2.done = true → m.done = true ∨ DoneIn inv (e :: es))) ∨
        (m2.live = none ∧ m2.ready = some cg ∧ .destroy inv ∈ e :: es ∧ (m.done = true ∨ DoneIn inv (e :: es))) := by
      intro m1 hl1 hr1 hrest1 hd1
      rcases ih m1 m2 inv cg hq' hl1 hr1 hrest1 with ⟨a, b, c⟩ | ⟨a, b, c, d⟩
      · refine Or.inl ⟨a, b, fun hd => ?_⟩
        rcases c hd with c | c
        · exact hd1 c
        · exact Or.inr c.cons
      · refine Or.inr ⟨a, b, List.mem_cons_of_mem _ c, ?_⟩
        rcases d with d | d
        · exact hd1 d
        · exact Or.inr d.cons
    cases e with
    | now t b =>
      simp only [step] at hs; cases hs
      refine lift _ ?_ ?_ hrest ?_
      · exact hl
      · exact hr
      intro hd
      simp only [hl, Option.isSome_some, Bool.true_and, Bool.or_eq_true] at hd
      rcases hd with hd | hd
      · exact Or.inl hd
      · subst hd; exact Or.inr (Or.inr ⟨t, List.mem_cons_self ..⟩)
    | fire h' cg' path inv' => simp [quiet] at hqe
    | poll inv' fin =>
      obtain ⟨cg', hl', rfl⟩ := step_poll_some.1 hs
      rw [hl] at hl'; cases hl'
      refine lift _ ?_ ?_ hrest ?_
      · exact hl
      · exact hr
      intro hd
      simp only [Bool.or_eq_true] at hd
      rcases hd with hd | hd
      · exact Or.inl hd
      · subst hd; exact Or.inr (Or.inl (List.mem_cons_self ..))
    | destroy inv' =>
      obtain ⟨cg', hl', hd, rfl⟩ := step_destroy_some.1 hs
      rw [hl] at hl'; cases hl'
      obtain ⟨a, b⟩ := quiet_after_destroy es _ m2 cg hq' rfl rfl hrest
      exact Or.inr ⟨a, b, List.mem_cons_self .., Or.inl hd⟩
    | attempt cg' path evs ok => simp [quiet] at hqe
    | k e =>
      obtain ⟨_, rfl⟩ := step_k_some.1 hs
      refine lift _ ?_ ?_ hrest (fun hd => Or.inl hd)
      · exact hl
      · exact hr
    | ret r =>
      rcases step_ret_some.1 hs with ⟨_, _, rfl⟩ | ⟨_, hl', _⟩
      · refine lift _ ?_ ?_ hrest (fun hd => Or.inl hd)
        · exact hl
        · exact hr
      · rw [hl] at hl'; cases hl'

/-- **between a fire and the next attempt (nothing but quiet events in between): the attempt is on the cgroup the hook was fired
    for, the invocation has been destroyed, and it was done - a poll answered finished or a reading was past the deadline** -/
theorem accepted_fire_then_attempt {m m' : Mon} {pre mid post : List HEv} {h cg path inv cg' path' evs ok}
    (hacc : mrun prio pats m (pre ++ [.fire h cg path inv] ++ mid ++ [.attempt cg' path' evs ok] ++ post) = some m')
    (hq : ∀ e ∈ mid, quiet e = true) :
    cg' = cg ∧ .destroy inv ∈ mid ∧ DoneIn inv mid := by
  obtain ⟨m4, h4, _⟩ := mrun_append_some hacc
  obtain ⟨m3, h3, hatt⟩ := mrun_append_some h4
  obtain ⟨m2, h2, hmid⟩ := mrun_append_some h3
  obtain ⟨m1, _, hfire⟩ := mrun_append_some h2
  obtain ⟨_, _, _, _, rfl⟩ := step_fire_some.1 (mrun_single_some hfire)
  obtain ⟨hl, hrdy, _⟩ := step_attempt_iff.1 (mrun_single_some hatt)
  rcases quiet_after_fire mid _ m3 inv cg hq rfl rfl hmid with ⟨a, _, _⟩ | ⟨_, b, c, d⟩
  · rw [hl] at a; cases a
  · rw [b] at hrdy
    rcases hrdy with hrdy | ⟨hrdy, _⟩
    · cases hrdy
      refine ⟨rfl, c, ?_⟩
      rcases d with d | d
      · cases d
      · exact d
    · cases hrdy


end OomdModel.Hook

namespace OomdModel.Hook
open OomdModel.Kill

variable {prio : List Nat} {pats : Nat → List Path.CgPath}

/-! ### where an outstanding invocation / a due attempt comes from -/

/-- `acc` ends with the fire of invocation `inv` for `cg` followed by quiet events only -/
def FiredFor (acc : List HEv) (inv cg : Nat) (needDestroy : Bool) : Prop :=
  ∃ pre1 h path mid, acc = pre1 ++ [.fire h cg path inv] ++ mid ∧ (∀ e ∈ mid, quiet e = true) ∧
    (needDestroy = true → .destroy inv ∈ mid)

def Traced (acc : List HEv) (m : Mon) : Prop :=
  (∀ i cg, m.live = some (i, cg) → FiredFor acc i cg false) ∧
  (∀ cg, m.ready = some cg → ∃ i, FiredFor acc i cg true)

theorem FiredFor.snoc {acc : List HEv} {inv cg : Nat} {b : Bool} {e : HEv} (h : FiredFor acc inv cg b) (he : quiet e = true) :
    FiredFor (acc ++ [e]) inv cg b := by
  obtain ⟨pre1, h', path, mid, rfl, hq, hd⟩ := h
  refine ⟨pre1, h', path, mid ++ [e], by simp, ?_, ?_⟩
  · intro x hx
    rcases List.mem_append.1 hx with hx | hx
    · exact hq x hx
    · simp only [List.mem_singleton] at hx; subst hx; exact he
  · intro hb; exact List.mem_append_left _ (hd hb)

theorem Traced.step {acc : List HEv} {m m1 : Mon} {e : HEv} (ht : Traced acc m) (hs : step prio pats m e = some m1) :
    Traced (acc ++ [e]) m1 := by
  obtain ⟨hlive, hready⟩ := ht
  cases e with
  | now t b =>
    simp only [OomdModel.Hook.step] at hs; cases hs
    exact ⟨fun i cg h => (hlive i cg h).snoc rfl, fun cg h => let ⟨i, hi⟩ := hready cg h; ⟨i, hi.snoc rfl⟩⟩
  | fire h' cg path inv =>
    obtain ⟨_, _, _, _, rfl⟩ := step_fire_some.1 hs
    refine ⟨fun i cg' h => ?_, fun cg' h => by cases h⟩
    simp only [Option.some.injEq, Prod.mk.injEq] at h
    obtain ⟨rfl, rfl⟩ := h
    exact ⟨acc, h', path, [], by simp, by simp, by simp⟩
  | poll inv fin =>
    obtain ⟨_, _, rfl⟩ := step_poll_some.1 hs
    exact ⟨fun i cg h => (hlive i cg h).snoc rfl, fun cg h => let ⟨i, hi⟩ := hready cg h; ⟨i, hi.snoc rfl⟩⟩
  | destroy inv =>
    obtain ⟨cg, hl, _, rfl⟩ := step_destroy_some.1 hs
    refine ⟨fun i cg' h => (by cases h), fun cg' h => ?_⟩
    simp only [Option.some.injEq] at h
    subst h
    obtain ⟨pre1, h', path, mid, rfl, hq, _⟩ := hlive inv cg hl
    refine ⟨inv, pre1, h', path, mid ++ [.destroy inv], by simp, ?_, fun _ => by simp⟩
    intro x hx
    rcases List.mem_append.1 hx with hx | hx
    · exact hq x hx
    · simp only [List.mem_singleton] at hx; subst hx; rfl
  | attempt cg path evs ok =>
    obtain ⟨_, _, rfl⟩ := step_attempt_iff.1 hs
    exact ⟨fun i cg' h => (by cases h), fun cg' h => by cases h⟩
  | k e' =>
    obtain ⟨_, rfl⟩ := step_k_some.1 hs
    exact ⟨fun i cg h => (hlive i cg h).snoc rfl, fun cg h => let ⟨i, hi⟩ := hready cg h; ⟨i, hi.snoc rfl⟩⟩
  | ret r =>
    rcases step_ret_some.1 hs with ⟨hr, _, rfl⟩ | ⟨_, hl, rfl⟩
    · have hq : quiet (.ret r) = true := by simp [quiet, hr]
      exact ⟨fun i cg h => (hlive i cg h).snoc hq, fun cg h => let ⟨i, hi⟩ := hready cg h; ⟨i, hi.snoc hq⟩⟩
    · refine ⟨fun i cg h => ?_, fun cg h => by cases h⟩
      simp only at h
      rw [hl] at h; cases h

theorem Traced.mrun : ∀ (es acc : List HEv) (m m' : Mon), Traced acc m → mrun prio pats m es = some m' → Traced (acc ++ es) m' := by
  intro es
  induction es with
  | nil => intro acc m m' ht h; simp only [OomdModel.Hook.mrun] at h; cases h; simpa using ht
  | cons e es ih =>
    intro acc m m' ht h
    obtain ⟨m1, hs, hr⟩ := mrun_cons_some h
    have := ih (acc ++ [e]) m1 m' (ht.step hs) hr
    simpa using this

theorem traced_init : Traced [] Mon.init := ⟨fun _ _ h => (by cases h), fun _ h => (by cases h)⟩

/-- **every attempt is gated**: it follows the fire (and destroy) of a hook for the same cgroup, or a reading past the
    deadline, or a reading inside the window when no hook matches the victim -/
theorem accepted_attempt {m' : Mon} {pre post : List HEv} {cg path evs ok}
    (hacc : mrun prio pats Mon.init (pre ++ .attempt cg path evs ok :: post) = some m') :
    (∃ inv, FiredFor pre inv cg true) ∨ (∃ pre1 t, pre = pre1 ++ [.now t true]) ∨
    ((∃ pre1 t, pre = pre1 ++ [.now t false]) ∧ selectHook prio pats (vp path) = none) := by
  obtain ⟨mp, hpre, hrest⟩ := mrun_append_some hacc
  obtain ⟨m1, hs, _⟩ := mrun_cons_some hrest
  obtain ⟨_, hgate, _⟩ := step_attempt_iff.1 hs
  have ht : Traced pre mp := by simpa using traced_init.mrun pre [] Mon.init mp hpre
  rcases hgate with hr | ⟨_, hn | ⟨hn, hsel⟩⟩
  · exact Or.inl (ht.2 cg hr)
  · rcases mrun_lastNow pre _ mp true hpre hn with ⟨_, hc⟩ | hx
    · cases hc
    · exact Or.inr (Or.inl hx)
  · rcases mrun_lastNow pre _ mp false hpre hn with ⟨_, hc⟩ | hx
    · cases hc
    · exact Or.inr (Or.inr ⟨hx, hsel⟩)

/-- **a poll or a destroy always names the invocation fired last** (no event of another invocation in between) -/
theorem accepted_poll {m' : Mon} {pre post : List HEv} {inv fin}
    (hacc : mrun prio pats Mon.init (pre ++ .poll inv fin :: post) = some m') : ∃ cg, FiredFor pre inv cg false := by
  obtain ⟨mp, hpre, hrest⟩ := mrun_append_some hacc
  obtain ⟨m1, hs, _⟩ := mrun_cons_some hrest
  obtain ⟨cg, hl, _⟩ := step_poll_some.1 hs
  have ht : Traced pre mp := by simpa using traced_init.mrun pre [] Mon.init mp hpre
  exact ⟨cg, ht.1 inv cg hl⟩

theorem accepted_destroy {m' : Mon} {pre post : List HEv} {inv}
    (hacc : mrun prio pats Mon.init (pre ++ .destroy inv :: post) = some m') : ∃ cg, FiredFor pre inv cg false := by
  obtain ⟨mp, hpre, hrest⟩ := mrun_append_some hacc
  obtain ⟨m1, hs, _⟩ := mrun_cons_some hrest
  obtain ⟨cg, hl, _⟩ := step_destroy_some.1 hs
  have ht : Traced pre mp := by simpa using traced_init.mrun pre [] Mon.init mp hpre
  exact ⟨cg, ht.1 inv cg hl⟩


end OomdModel.Hook

namespace OomdModel.Hook
open OomdModel.Kill

/-! ## facts proved directly on the model -/

/-- the verdict attached to a reading is the comparison with the deadline `dl` -/
def NowOK (dl : Option Nat) (e : HEv) : Prop := ∀ t b, e = .now t b → b = past dl t

theorem gate_nowOK (cfg : HCfg) (dl : Option Nat) (v : View) (env : HEnv) : ∀ e ∈ (gate cfg dl v env).evs, NowOK dl e := by
  intro e he t b hb
  subst hb
  rcases gate_shape cfg dl v env with ⟨t', _, hev, hp⟩ | ⟨t', _, hev, hp, _⟩ | ⟨t', h, i, _, hp, _, hev⟩ | ⟨t', h, i, _, hp, _, hev⟩ <;>
    (rw [hev] at he; simp at he; obtain ⟨rfl, rfl⟩ := he; exact hp.symm)

theorem hloop_nowOK (cfg : HCfg) (rank : List View → List View) (dl : Option Nat) :
    ∀ (n : Nat) (stack : List View) (k : Nat) (env : HEnv), ∀ e ∈ (hloop cfg rank dl n stack k env).evs, NowOK dl e := by
  intro n
  induction n with
  | zero => intro stack k env e he; simp [hloop] at he
  | succ n ih =>
    intro stack k env e he
    cases stack with
    | nil => simp [hloop] at he
    | cons v st =>
      simp only [hloop] at he
      split at he
      · exact ih _ _ _ e he
      · split at he
        · exact ih _ _ _ e he
        · simp only [bind_apply, List.mem_append] at he
          rcases he with he | he
          · exact gate_nowOK cfg dl v env e he
          · cases hg : (gate cfg dl v env).val with
            | defer i => rw [hg] at he; simp [afterGate] at he
            | proceed =>
              rw [hg] at he
              simp only [afterGate, bind_apply, attempt_evs, List.mem_append, List.mem_singleton] at he
              rcases he with he | he
              · intro t b hb; rw [he] at hb; cases hb
              · cases hok : (attempt cfg.kill v k (gate cfg dl v env).env).val
                · rw [hok] at he
                  simp only [Bool.false_eq_true, if_false] at he
                  exact ih _ _ _ e he
                · rw [hok] at he
                  simp at he

theorem hookDone_nowOK (dl : Option Nat) (p : Pending) (env : HEnv) : ∀ e ∈ (hookDone dl p env).evs, NowOK dl e := by
  intro e he t b hb
  subst hb
  simp only [hookDone, bind_apply, emit_apply, nextPoll_evs, List.nil_append, List.mem_append, List.mem_singleton] at he
  rcases he with he | he
  · cases he
  · cases hf : (nextPoll env).val
    · rw [hf] at he
      simp only [Bool.false_eq_true, if_false, (pastTimeout_evs dl _).1, List.mem_singleton] at he
      cases he; rfl
    · rw [hf] at he; simp at he

theorem resume_nowOK (cfg : HCfg) (rank : List View → List View) (dl : Option Nat) (top : List View) (p : Pending) (env : HEnv) :
    ∀ e ∈ (resume cfg rank dl top p env).evs, NowOK dl e := by
  intro e he
  simp only [resume, bind_apply, List.mem_append] at he
  rcases he with he | he
  · exact hookDone_nowOK dl p env e he
  · cases hd : (hookDone dl p env).val
    · rw [hd] at he; simp at he
    · rw [hd] at he
      simp only [if_true, afterHook, bind_apply, emit_apply, List.mem_append, List.mem_singleton, killIntended] at he
      rcases he with he | he
      · intro t b hb; rw [he] at hb; cases hb
      · cases hde : deser top p.victim with
        | none => rw [hde] at he; simp at he
        | some v =>
          rw [hde] at he
          simp only [bind_apply, attempt_evs, List.mem_append, List.mem_singleton] at he
          rcases he with he | he
          · intro t b hb; rw [he] at hb; cases hb
          · cases hok : (attempt cfg.kill v 0 (hookDone dl p env).env).val
            · rw [hok] at he
              simp only [Bool.false_eq_true, if_false, fallback] at he
              exact hloop_nowOK cfg rank dl _ _ _ _ e he
            · rw [hok] at he; simp at he

theorem finish_evs_notnow (cfg : KillCfg) (res : LoopRes) (env : HEnv) : ∀ e ∈ (finish cfg res env).evs, ∀ t b, e ≠ .now t b := by
  intro e he t b hb
  subst hb
  cases res with
  | defer p => simp [finish, retWith] at he
  | failed => simp [finish, retWith] at he
  | success =>
    simp only [finish] at he
    split at he
    · simp [retWith] at he
    · simp only [pauseEv] at he
      split at he <;> simp [retWith] at he

/-- **every reading of a `run()` is judged against the deadline of the ActionContext that `run()` was given** -/
theorem runTick_nowOK (cfg : HCfg) (rank : List View → List View) (dl : Option Nat) (top roots : List View)
    (st : Option Pending) (env : HEnv) : ∀ e ∈ (runTick cfg rank dl top roots st env).evs, NowOK dl e := by
  intro e he
  simp only [runTick, bind_apply, List.mem_append] at he
  rcases he with he | he
  · cases st with
    | none => exact hloop_nowOK cfg rank dl _ _ _ _ e he
    | some p => exact resume_nowOK cfg rank dl top p env e he
  · intro t b hb; exact absurd hb (finish_evs_notnow cfg.kill _ _ e he t b)


end OomdModel.Hook

namespace OomdModel.Hook
open OomdModel.Kill

/-! ### a victim that was removed or re-created -/

theorem deser_none_iff (top : List View) (r : SRef) :
    deser top r = none ↔ ∀ v, findF r.path top = some v → v.id ≠ r.id := by
  unfold deser
  cases h : findF r.path top with
  | none => simp
  | some v =>
    simp only [Option.some.injEq, forall_eq']
    split <;> simp_all

/-- the resume tick when the serialised victim cannot be found again: no attempt at all (the fallback stack is not touched
    either); the tick either still waits (ASYNC_PAUSED, state unchanged) or destroys the invocation and returns CONTINUE -/
theorem runTick_victim_gone (cfg : HCfg) (rank : List View → List View) (dl : Option Nat) (top roots : List View)
    (p : Pending) (env : HEnv) (hgone : deser top p.victim = none) :
    let r := runTick cfg rank dl top roots (some p) env
    (∀ e ∈ r.evs, ∀ cg path evs ok, e ≠ .attempt cg path evs ok) ∧
    ((r.val = (some p, .async) ∧ (hookDone dl p env).val = false) ∨
     (r.val = (none, .cont) ∧ (hookDone dl p env).val = true ∧ .destroy p.inv ∈ r.evs)) := by
  have hde : ∀ e ∈ (hookDone dl p env).evs, ∀ cg path evs ok, e ≠ .attempt cg path evs ok := by
    intro e he cg path evs ok hb
    subst hb
    simp only [hookDone, bind_apply, emit_apply, nextPoll_evs, List.nil_append, List.mem_append, List.mem_singleton] at he
    rcases he with he | he
    · cases he
    · cases hf : (nextPoll env).val
      · rw [hf] at he
        simp only [Bool.false_eq_true, if_false, (pastTimeout_evs dl _).1, List.mem_singleton] at he
        cases he
      · rw [hf] at he; simp at he
  simp only [runTick, resume, bind_apply]
  cases hd : (hookDone dl p env).val
  · simp only [Bool.false_eq_true, if_false, pure_apply, finish, retWith, bind_apply, emit_apply, List.append_nil]
    refine ⟨?_, by simp⟩
    intro e he cg path evs ok hb
    simp only [List.mem_append, List.mem_singleton] at he
    rcases he with he | he
    · exact hde e he cg path evs ok hb
    · rw [he] at hb; cases hb
  · simp only [if_true, afterHook, killIntended, hgone, bind_apply, emit_apply, pure_apply, finish, retWith, List.append_nil]
    refine ⟨?_, by simp⟩
    intro e he cg path evs ok hb
    simp only [List.mem_append, List.mem_singleton, List.mem_cons, List.not_mem_nil, or_false] at he
    rcases he with (he | he) | he
    · exact hde e he cg path evs ok hb
    · rw [he] at hb; cases hb
    · rw [he] at hb; cases hb

/-- and when it can be found (same path, same id) and the hook is done: destroy, then the kill attempt on exactly that cgroup -/
theorem runTick_victim_there (cfg : HCfg) (rank : List View → List View) (dl : Option Nat) (top roots : List View)
    (p : Pending) (env : HEnv) (v : View) (hthere : deser top p.victim = some v) (hdone : (hookDone dl p env).val = true) :
    ∃ rest, (runTick cfg rank dl top roots (some p) env).evs =
      (hookDone dl p env).evs ++ ([.destroy p.inv] ++ ((attempt cfg.kill v 0 (hookDone dl p env).env).evs ++ rest)) := by
  simp only [runTick, resume, bind_apply, hdone, if_true, afterHook, killIntended, hthere, emit_apply, List.append_assoc]
  exact ⟨_, rfl⟩


end OomdModel.Hook

namespace OomdModel.Hook
open OomdModel.Kill

/-! ### histories -/

theorem invSt_init : InvSt Mon.init none := ⟨⟨rfl, rfl⟩, rfl⟩

/-- a statement about single `run()` calls from matching states holds for every tick of every history -/
theorem runHistory_forall (cfg : HCfg) (Q : TickOut → Prop)
    (hQ : ∀ rank dl top roots st env m, InvSt m st →
      Q { dl := dl, evs := (runTick cfg rank dl top roots st env).evs, ret := (runTick cfg rank dl top roots st env).val.2,
          st := (runTick cfg rank dl top roots st env).val.1 }) :
    ∀ (ticks : List TickIn) (st : Option Pending) (saved : Option (Option Nat)) (env : HEnv) (m : Mon), InvSt m st →
      ∀ out ∈ runHistory cfg st saved ticks env, Q out := by
  intro ticks
  induction ticks with
  | nil => intro st saved env m _ out ho; simp [runHistory] at ho
  | cons ti rest ih =>
    intro st saved env m hm out ho
    simp only [runHistory, List.mem_cons] at ho
    rcases ho with rfl | ho
    · exact hQ _ _ _ _ _ _ m hm
    · obtain ⟨m1, _, hi1, _⟩ := runTick_accepted cfg ti.rank
        (curDl saved ti) ti.top ti.roots st env m hm
      exact ih _ _ _ m1 hi1 out ho

theorem runHistory_length (cfg : HCfg) :
    ∀ (ticks : List TickIn) (st : Option Pending) (saved : Option (Option Nat)) (env : HEnv),
      (runHistory cfg st saved ticks env).length = ticks.length := by
  intro ticks
  induction ticks with
  | nil => intro st saved env; rfl
  | cons ti rest ih => intro st saved env; simp [runHistory, ih]

/-- the deadline a `run()` sees: that of the previous `run()` if that one returned ASYNC_PAUSED, else the one of a chain fired now -/
theorem runHistory_dl_next (cfg : HCfg) :
    ∀ (ticks : List TickIn) (st : Option Pending) (saved : Option (Option Nat)) (env : HEnv) (i : Nat) (o1 o2 : TickOut) (ti : TickIn),
      (runHistory cfg st saved ticks env)[i]? = some o1 → (runHistory cfg st saved ticks env)[i + 1]? = some o2 →
      ticks[i + 1]? = some ti → o2.dl = if o1.ret = .async then o1.dl else ti.freshDl := by
  intro ticks
  induction ticks with
  | nil => intro st saved env i o1 o2 ti h1; simp [runHistory] at h1
  | cons t0 rest ih =>
    intro st saved env i o1 o2 ti h1 h2 hti
    cases i with
    | zero =>
      simp only [runHistory, List.getElem?_cons_zero, Option.some.injEq] at h1
      simp only [runHistory, Nat.zero_add, List.getElem?_cons_succ] at h2 hti
      cases rest with
      | nil => simp at hti
      | cons t1 rest' =>
        simp only [List.getElem?_cons_zero, Option.some.injEq] at hti
        subst hti
        simp only [runHistory, List.getElem?_cons_zero, Option.some.injEq] at h2
        subst h1 h2
        simp only
        by_cases hr : (runTick cfg t0.rank (curDl saved t0) t0.top t0.roots st env).val.2 = Ret.async
        · rw [if_pos hr, if_pos hr]; rfl
        · rw [if_neg hr, if_neg hr]; rfl
    | succ j =>
      simp only [runHistory, List.getElem?_cons_succ] at h1 h2 hti
      exact ih _ _ _ j o1 o2 ti h1 h2 hti

theorem runHistory_dl_first (cfg : HCfg) (ti : TickIn) (rest : List TickIn)
    (st : Option Pending) (env : HEnv) (o : TickOut)
    (h : (runHistory cfg st none (ti :: rest) env)[0]? = some o) : o.dl = ti.freshDl := by
  simp only [runHistory, List.getElem?_cons_zero, Option.some.injEq] at h
  subst h; rfl


end OomdModel.Hook

namespace OomdModel.Hook
open OomdModel.Kill

/-! ### the hook gate does not change what the kill model does -/

/-- the boundary events of the kill model inside a hook-level trace -/
def flatK : List HEv → List Ev
  | [] => []
  | .attempt _ _ evs _ :: es => evs ++ flatK es
  | .k e :: es => e :: flatK es
  | _ :: es => flatK es

theorem flatK_append (a b : List HEv) : flatK (a ++ b) = flatK a ++ flatK b := by
  induction a with
  | nil => rfl
  | cons e es ih => cases e <;> simp [flatK, ih]

theorem nextClock_kenv (env : HEnv) : (nextClock env).env.kenv = env.kenv := by
  unfold nextClock; split <;> rfl
theorem nextPoll_kenv (env : HEnv) : (nextPoll env).env.kenv = env.kenv := by
  unfold nextPoll; split <;> rfl

theorem pastTimeout_kenv (dl : Option Nat) (env : HEnv) : (pastTimeout dl env).env.kenv = env.kenv := by
  simp [pastTimeout, nextClock_kenv]

theorem fireSelected_kenv (v : View) (h : Nat) (env : HEnv) : (fireSelected v h env).env.kenv = env.kenv := by
  simp only [fireSelected, bind_apply, emit_apply]
  cases (nextPoll (freshInv env).env).val <;> simp [nextPoll_kenv, freshInv]

theorem gate_kenv (cfg : HCfg) (dl : Option Nat) (v : View) (env : HEnv) : (gate cfg dl v env).env.kenv = env.kenv := by
  simp only [gate, bind_apply]
  cases (pastTimeout dl env).val
  · simp only [Bool.false_eq_true, if_false, fireHook]
    cases selectHook cfg.prio cfg.pats (vp v.info.path) with
    | none => simp [pastTimeout_kenv]
    | some h => simp [fireSelected_kenv, pastTimeout_kenv]
  · simp [pastTimeout_kenv]

theorem gate_flatK (cfg : HCfg) (dl : Option Nat) (v : View) (env : HEnv) : flatK (gate cfg dl v env).evs = [] := by
  rcases gate_shape cfg dl v env with ⟨_, _, hev, _⟩ | ⟨_, _, hev, _, _⟩ | ⟨_, _, _, _, _, _, hev⟩ | ⟨_, _, _, _, _, _, hev⟩ <;>
    rw [hev] <;> rfl

/-- **In a `run()` that does not end up waiting for a hook, the loop with hooks performs exactly the kill model's loop**: same
    boundary events in the same order, same answers consumed, same result.  (Hooks only add their own events.) -/
theorem hloop_refines_loop (cfg : HCfg) (rank : List View → List View) (dl : Option Nat) :
    ∀ (n : Nat) (stack : List View) (k : Nat) (env : HEnv), (∀ p, (hloop cfg rank dl n stack k env).val ≠ .defer p) →
      flatK (hloop cfg rank dl n stack k env).evs = (loop cfg.kill rank n stack k env.kenv).evs ∧
      (hloop cfg rank dl n stack k env).env.kenv = (loop cfg.kill rank n stack k env.kenv).env ∧
      ((hloop cfg rank dl n stack k env).val = .success ↔ (loop cfg.kill rank n stack k env.kenv).val = true) := by
  intro n
  induction n with
  | zero => intro stack k env _; simp [hloop, loop, flatK]
  | succ n ih =>
    intro stack k env hnd
    cases stack with
    | nil => simp [hloop, loop, flatK]
    | cons v st =>
      simp only [hloop, loop] at hnd ⊢
      split
      · rename_i hd
        rw [if_pos hd] at hnd
        exact ih _ _ _ hnd
      · rename_i hd
        rw [if_neg hd] at hnd
        split
        · rename_i hp
          rw [if_pos hp] at hnd
          exact ih _ _ _ hnd
        · rename_i hp
          rw [if_neg hp] at hnd
          simp only [bind_apply] at hnd ⊢
          have hk := gate_kenv cfg dl v env
          have hf := gate_flatK cfg dl v env
          cases hg : (gate cfg dl v env).val with
          | defer i => rw [hg] at hnd; exact absurd rfl (hnd _)
          | proceed =>
            rw [hg] at hnd
            simp only [afterGate, bind_apply, Kill.bind_apply] at hnd ⊢
            have hav : (attempt cfg.kill v k (gate cfg dl v env).env).val = (tryToLogAndKill cfg.kill v k env.kenv).val := by
              rw [attempt_val, hk]
            have hae : (attempt cfg.kill v k (gate cfg dl v env).env).env.kenv = (tryToLogAndKill cfg.kill v k env.kenv).env := by
              simp [attempt, hk]
            cases hok : (tryToLogAndKill cfg.kill v k env.kenv).val
            · rw [hav, hok] at hnd ⊢
              simp only [Bool.false_eq_true, if_false] at hnd ⊢
              obtain ⟨h1, h2, h3⟩ := ih st (k + 1) _ hnd
              rw [hae] at h1 h2 h3
              refine ⟨?_, h2, h3⟩
              rw [flatK_append, flatK_append, hf, h1, attempt_evs, hk]
              simp [flatK]
            · rw [hav, hok]
              simp only [if_true, pure_apply, Kill.pure_apply, List.append_nil]
              refine ⟨?_, hae, by simp⟩
              rw [flatK_append, hf, attempt_evs, hk]
              simp [flatK]

/-- without any hook the loop never waits -/
theorem gate_no_hooks (cfg : HCfg) (dl : Option Nat) (v : View) (env : HEnv) (hp : cfg.prio = []) :
    (gate cfg dl v env).val = .proceed := by
  rcases gate_shape cfg dl v env with ⟨_, hv, _⟩ | ⟨_, hv, _⟩ | ⟨_, _, _, hv, _⟩ | ⟨_, _, _, _, _, hs, _⟩
  · exact hv
  · exact hv
  · exact hv
  · simp [selectHook, hp] at hs

theorem hloop_no_hooks_nodefer (cfg : HCfg) (rank : List View → List View) (dl : Option Nat) (hp : cfg.prio = []) :
    ∀ (n : Nat) (stack : List View) (k : Nat) (env : HEnv) (p : Pending), (hloop cfg rank dl n stack k env).val ≠ .defer p := by
  intro n
  induction n with
  | zero => intro stack k env p; simp [hloop]
  | succ n ih =>
    intro stack k env p
    cases stack with
    | nil => simp [hloop]
    | cons v st =>
      simp only [hloop]
      split
      · exact ih _ _ _ p
      · split
        · exact ih _ _ _ p
        · simp only [bind_apply, gate_no_hooks cfg dl v env hp, afterGate]
          cases hok : (attempt cfg.kill v k (gate cfg dl v env).env).val
          · simp only [Bool.false_eq_true, if_false]; exact ih _ _ _ p
          · simp


end OomdModel.Hook

namespace OomdModel.Hook
open OomdModel.Kill

variable {prio : List Nat} {pats : Nat → List Path.CgPath}

/-- outside attempt blocks, the only event of the kill model in an accepted trace is `pause_actions` -/
theorem accepted_k {m m' : Mon} {pre post : List HEv} {e : Ev}
    (hacc : mrun prio pats m (pre ++ .k e :: post) = some m') : ∃ d, e = .pause d := by
  obtain ⟨mp, _, hrest⟩ := mrun_append_some hacc
  obtain ⟨m1, hs, _⟩ := mrun_cons_some hrest
  exact (step_k_some.1 hs).1

end OomdModel.Hook

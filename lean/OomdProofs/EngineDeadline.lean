import OomdProofs.Engine
import OomdProofs.RsCgroup

/-!
# The deadline a chain carries: group fire + the ruleset's `prekill_hook_timeout`

Lemmas for `C07.percg_fresh_chain_deadline` (and its plain-ruleset form).
-/

namespace OomdModel.Engine

/-- the clock reading right after the check of the first group that fires (`steady_clock::now()` in the `setActionContext` call of
`Ruleset::runOnceImpl`); `none` if no group fires -/
def fireTime (sc : Script) : List Group → Nat → Option Nat
  | [], _ => none
  | g :: gs, now =>
    let r := checkGroup sc g.dets now
    if r.1 then some r.2.2 else fireTime sc gs r.2.2

theorem detPhase_deadline (cfg : RsCfg) (sc : Script) (gs : List Group) (now ctr : Nat) :
    (detPhase cfg sc gs now ctr none).1.map (·.deadline) = (fireTime sc gs now).map (· + cfg.hookTimeout) := by
  induction gs generalizing now ctr with
  | nil => simp [detPhase, fireTime]
  | cons g gs ih =>
    simp only [detPhase, fireTime, Option.isNone_none, Bool.and_true]
    cases hf : (checkGroup sc g.dets now).1
    · simp only [Bool.false_eq_true, if_false]
      exact ih _ _
    · simp only [if_true]
      rw [(detPhase_some cfg sc gs _ _ _).1]
      rfl

theorem mem_actInsts_of_act (l : List Ev) (a t : Nat) (c : Ctx) (iv : Bool) (h : Ev.act a t c iv ∈ l) : a ∈ actInsts l := by
  induction l with
  | nil => cases h
  | cons e es ih =>
    rcases List.mem_cons.1 h with rfl | h'
    · simp [actInsts]
    · cases e <;> simp [actInsts, ih h']

/-- every action event of a run that starts a fresh chain (nothing suspended, not paused) carries the deadline
"fire + `cfg.hookTimeout`" -/
theorem rsRun_fresh_deadline (inv : Bool) (cfg : RsCfg) (sc : Script) (st : RsState) (now ctr : Nat)
    (hact : st.active = none)
    (a t : Nat) (c : Ctx) (iv : Bool) (he : Ev.act a t c iv ∈ (rsRun inv cfg sc st now ctr).2.1) :
    some c.deadline = (fireTime sc cfg.groups now).map (· + cfg.hookTimeout) := by
  have hd := detPhase_deadline cfg sc cfg.groups now ctr
  have hdets := (detPhase_dets cfg sc cfg.groups now ctr none).2
  unfold rsRun at he
  simp only [hact] at he
  split at he
  · -- paused: only detector events
    exfalso
    have : actInsts (detPhase cfg sc cfg.groups now ctr none).2.1 = [] := hdets
    have hm := mem_actInsts_of_act _ a t c iv he
    rw [this] at hm
    cases hm
  · simp only [List.mem_append] at he
    rcases he with he | he
    · exfalso
      have : actInsts (detPhase cfg sc cfg.groups now ctr none).2.1 = [] := hdets
      have hm := mem_actInsts_of_act _ a t c iv he
      rw [this] at hm
      cases hm
    · unfold startFresh at he
      cases hf : (detPhase cfg sc cfg.groups now ctr none).1 with
      | none => simp [hf] at he
      | some ctx =>
        simp only [hf] at he
        obtain ⟨a', t', hev, _⟩ := chain_events cfg sc true ctx cfg.actions 0 _ st _ he
        injection hev with _ _ hc _
        subst hc
        rw [hf] at hd
        simpa using hd

end OomdModel.Engine

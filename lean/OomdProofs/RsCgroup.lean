import OomdModel.RsCgroup
import OomdProofs.Engine

/-! Helper lemmas about the ruleset-cgroup model (`OomdModel.RsCgroup`). -/

namespace OomdModel.RsCgroup
open OomdModel.Engine

/-! ### the association list `runnable_rulesets_` -/

def keys (l : List (Path × Inst)) : List Path := l.map (·.1)

theorem find_upsert_self (p : Path) (i : Inst) (l : List (Path × Inst)) : find p (upsert p i l) = some i := by
  induction l with
  | nil => simp [upsert, find]
  | cons x rest ih =>
    obtain ⟨q, j⟩ := x
    by_cases h : q = p
    · simp [upsert, find, h]
    · simp [upsert, find, h, ih]

theorem find_upsert_other (p q : Path) (i : Inst) (l : List (Path × Inst)) (h : p ≠ q) :
    find q (upsert p i l) = find q l := by
  induction l with
  | nil => simp [upsert, find, h]
  | cons x rest ih =>
    obtain ⟨r, j⟩ := x
    by_cases hr : r = p
    · subst hr
      simp [upsert, find, h]
    · by_cases hq : r = q
      · subst hq
        simp [upsert, find, hr]
      · simp [upsert, find, hr, hq, ih]

theorem find_none_iff (p : Path) (l : List (Path × Inst)) : find p l = none ↔ p ∉ keys l := by
  induction l with
  | nil => simp [find, keys]
  | cons x rest ih =>
    obtain ⟨q, j⟩ := x
    by_cases h : q = p
    · simp [find, keys, h]
    · have h' : ¬ p = q := fun e => h e.symm
      simp only [keys] at ih
      simp [find, keys, h, h', ih]

theorem find_some_mem (p : Path) (i : Inst) (l : List (Path × Inst)) (h : find p l = some i) : (p, i) ∈ l := by
  induction l with
  | nil => simp [find] at h
  | cons x rest ih =>
    obtain ⟨q, j⟩ := x
    by_cases hq : q = p
    · simp [find, hq] at h
      simp [hq, h]
    · simp [find, hq] at h
      exact List.mem_cons_of_mem _ (ih h)

theorem keys_upsert (p : Path) (i : Inst) (l : List (Path × Inst)) :
    keys (upsert p i l) = if p ∈ keys l then keys l else keys l ++ [p] := by
  induction l with
  | nil => simp [upsert, keys]
  | cons x rest ih =>
    obtain ⟨q, j⟩ := x
    by_cases h : q = p
    · simp [upsert, keys, h]
    · have h' : ¬ p = q := fun e => h e.symm
      simp only [keys] at ih
      simp only [upsert, h, if_false, keys, List.map_cons, ih, List.mem_cons, h', false_or]
      split <;> simp [*]

theorem nodup_upsert (p : Path) (i : Inst) (l : List (Path × Inst)) (h : (keys l).Nodup) :
    (keys (upsert p i l)).Nodup := by
  rw [keys_upsert]
  split
  · exact h
  · rename_i hp
    rw [List.nodup_append]
    refine ⟨h, by simp, ?_⟩
    intro a ha b hb
    simp only [List.mem_singleton] at hb
    subst hb
    intro e
    exact hp (e ▸ ha)

theorem find_filter (f : Path → Bool) (p : Path) (l : List (Path × Inst)) :
    find p (l.filter (fun pi => f pi.1)) = if f p = true then find p l else none := by
  induction l with
  | nil => simp [find]
  | cons x rest ih =>
    obtain ⟨q, j⟩ := x
    by_cases hq : q = p
    · subst hq
      cases hf : f q <;> simp [List.filter, hf, find, ih]
    · cases hf : f q <;> simp [List.filter, hf, find, hq, ih]

theorem nodup_filter (f : Path → Bool) (l : List (Path × Inst)) (h : (keys l).Nodup) :
    (keys (l.filter (fun pi => f pi.1))).Nodup := by
  have : keys (l.filter (fun pi => f pi.1)) = (keys l).filter f := by
    induction l with
    | nil => rfl
    | cons x rest ih =>
      have ih' := ih (List.nodup_cons.1 h).2
      simp only [keys] at ih' ⊢
      cases hf : f x.1 <;> simp [List.filter, hf, ih']
  rw [this]
  exact h.filter _

/-! ### events by path -/

theorem evsOf_append (p : Path) (a b : List CEv) : evsOf p (a ++ b) = evsOf p a ++ evsOf p b := by
  simp [evsOf]

theorem evsOf_all (p : Path) (l : List CEv) (h : ∀ e ∈ l, pathOf e = some p) : evsOf p l = l := by
  unfold evsOf
  rw [List.filter_eq_self]
  intro e he
  simp [h e he]

theorem evsOf_none (p : Path) (l : List CEv) (h : ∀ e ∈ l, pathOf e ≠ some p) : evsOf p l = [] := by
  unfold evsOf
  rw [List.filter_eq_nil_iff]
  intro e he
  simp [h e he]

theorem instPreruns_path (cfg : Cfg) (p : Path) (g : Nat) : ∀ e ∈ instPreruns cfg p g, pathOf e = some p := by
  intro e he
  simp only [instPreruns, List.mem_map] at he
  obtain ⟨x, _, rfl⟩ := he
  rfl

theorem createEvs_path (cfg : Cfg) (p : Path) (g : Nat) : ∀ e ∈ createEvs cfg p g, pathOf e = some p := by
  intro e he
  simp only [createEvs, List.mem_append, List.mem_map] at he
  rcases he with (⟨x, _, rfl⟩ | ⟨x, _, rfl⟩) | he
  · rfl
  · rfl
  · exact instPreruns_path cfg p g e he

theorem instVisit_path (F : Fixes) (cfg : Cfg) (p : Path) (oi : Option Inst) (sc : Script) (now ctr g : Nat) :
    ∀ e ∈ (instVisit F cfg p oi sc now ctr g).evs, pathOf e = some p := by
  intro e he
  simp only [instVisit, List.mem_append, List.mem_map] at he
  rcases he with he | ⟨x, _, rfl⟩
  · cases oi with
    | none => exact createEvs_path cfg p g e he
    | some i => simp at he
  · rfl

/-! ### clock -/

theorem rsRun_clock (inv : Bool) (cfg : RsCfg) (sc : Script) (st : RsState) (now ctr : Nat) :
    now ≤ (rsRun inv cfg sc st now ctr).2.2.1 := by
  have hd := detPhase_clock cfg sc cfg.groups now ctr none
  have hsf : ∀ f n s, n ≤ (startFresh cfg sc f n s).2.2 := by
    intro f n s
    unfold startFresh
    split
    · exact chain_clock ..
    · exact Nat.le_refl _
  unfold rsRun
  simp only
  split
  · exact hd
  · split
    · split
      · exact Nat.le_trans hd (chain_clock ..)
      · exact Nat.le_trans hd (hsf ..)
    · exact Nat.le_trans hd (hsf ..)

theorem instVisit_clock (F : Fixes) (cfg : Cfg) (p : Path) (oi : Option Inst) (sc : Script) (now ctr g : Nat) :
    now ≤ (instVisit F cfg p oi sc now ctr g).now := by
  simp only [instVisit]
  exact rsRun_clock ..

/-! ### one iteration of the per-cgroup loop -/

/-- an iteration for another path leaves `p`'s instance, visited mark and events alone -/
theorem visit_other (F : Fixes) (cfg : Cfg) (sc : Path → Script) (L : Loop) (m : MatchIn) (p : Path)
    (h : m.path ≠ p) :
    find p (visit F cfg sc L m).1.insts = find p L.insts ∧
    (p ∈ (visit F cfg sc L m).1.visited ↔ p ∈ L.visited) ∧
    evsOf p (visit F cfg sc L m).2 = [] ∧
    L.now ≤ (visit F cfg sc L m).1.now ∧ L.nextGen ≤ (visit F cfg sc L m).1.nextGen := by
  unfold visit
  split
  · simp [evsOf]
  · split
    · simp [evsOf]
    · refine ⟨find_upsert_other _ _ _ _ h, ?_, ?_, instVisit_clock F cfg m.path _ _ _ _ _, ?_⟩
      · have h' : ¬ p = m.path := fun e => h e.symm
        simp [h']
      · apply evsOf_none
        intro e he hc
        have := instVisit_path F cfg m.path _ _ _ _ _ e he
        rw [this] at hc
        exact h (Option.some.inj hc)
      · simp only
        split <;> omega

/-- an iteration that is skipped changes nothing -/
theorem visit_skip (F : Fixes) (cfg : Cfg) (sc : Path → Script) (L : Loop) (m : MatchIn)
    (h : eligible cfg.filter m = false ∨ (F.skipVisited = true ∧ m.path ∈ L.visited)) :
    visit F cfg sc L m = (L, []) := by
  unfold visit
  rcases h with h | ⟨h1, h2⟩
  · simp [h]
  · split
    · rfl
    · simp [h1, h2]

/-- the iteration that evaluates `p` -/
theorem visit_self (F : Fixes) (cfg : Cfg) (sc : Path → Script) (L : Loop) (m : MatchIn)
    (he : eligible cfg.filter m = true) (hv : m.path ∉ L.visited) :
    let o := instVisit F cfg m.path (find m.path L.insts) (sc m.path) L.now L.ctr L.nextGen
    find m.path (visit F cfg sc L m).1.insts = some o.inst ∧
    m.path ∈ (visit F cfg sc L m).1.visited ∧
    (visit F cfg sc L m).2 = o.evs := by
  unfold visit
  simp [he, hv, find_upsert_self]

/-! ### the whole loop, seen from one path -/

/-- if `p` has already been visited, or no eligible element names it, the loop leaves it alone -/
theorem loop_untouched (F : Fixes) (hs : F.skipVisited = true) (cfg : Cfg) (sc : Path → Script) (p : Path)
    (ms : List MatchIn) (L : Loop)
    (h : p ∈ L.visited ∨ present cfg.filter ms p = false) :
    find p (loop F cfg sc ms L).1.insts = find p L.insts ∧
    (p ∈ (loop F cfg sc ms L).1.visited ↔ p ∈ L.visited) ∧
    evsOf p (loop F cfg sc ms L).2 = [] := by
  induction ms generalizing L with
  | nil => simp [loop, evsOf]
  | cons m ms ih =>
    simp only [loop]
    by_cases hm : m.path = p
    · -- this element is skipped
      have hskip : visit F cfg sc L m = (L, []) := by
        apply visit_skip
        rcases h with h | h
        · exact Or.inr ⟨hs, hm ▸ h⟩
        · left
          simp only [present, List.any_cons, Bool.or_eq_false_iff] at h
          simpa [hm] using h.1
      rw [hskip]
      have h' : p ∈ L.visited ∨ present cfg.filter ms p = false := by
        rcases h with h | h
        · exact Or.inl h
        · right
          simp only [present, List.any_cons, Bool.or_eq_false_iff] at h
          exact h.2
      simpa [evsOf_append, evsOf] using ih L h'
    · obtain ⟨h1, h2, h3, _, _⟩ := visit_other F cfg sc L m p hm
      have h' : p ∈ (visit F cfg sc L m).1.visited ∨ present cfg.filter ms p = false := by
        rcases h with h | h
        · exact Or.inl (h2.2 h)
        · right
          simp only [present, List.any_cons, Bool.or_eq_false_iff] at h
          exact h.2
      obtain ⟨i1, i2, i3⟩ := ih _ h'
      refine ⟨i1.trans h1, i2.trans h2, ?_⟩
      rw [evsOf_append, h3, i3]
      rfl

/-- if `p` has not been visited yet and an eligible element names it, the loop evaluates it exactly
once: at some clock reading / uuid counter / generation counter not below the current ones -/
theorem loop_present (F : Fixes) (hs : F.skipVisited = true) (cfg : Cfg) (sc : Path → Script) (p : Path)
    (ms : List MatchIn) (L : Loop)
    (hv : p ∉ L.visited) (hp : present cfg.filter ms p = true) :
    ∃ now ctr g, L.now ≤ now ∧ L.nextGen ≤ g ∧
      let o := instVisit F cfg p (find p L.insts) (sc p) now ctr g
      find p (loop F cfg sc ms L).1.insts = some o.inst ∧
      p ∈ (loop F cfg sc ms L).1.visited ∧
      evsOf p (loop F cfg sc ms L).2 = o.evs := by
  induction ms generalizing L with
  | nil => simp [present] at hp
  | cons m ms ih =>
    simp only [loop]
    by_cases hm : m.path = p ∧ eligible cfg.filter m = true
    · obtain ⟨hm, he⟩ := hm
      subst hm
      obtain ⟨s1, s2, s3⟩ := visit_self F cfg sc L m he hv
      obtain ⟨u1, u2, u3⟩ := loop_untouched F hs cfg sc m.path ms (visit F cfg sc L m).1 (Or.inl s2)
      refine ⟨L.now, L.ctr, L.nextGen, Nat.le_refl _, Nat.le_refl _, ?_⟩
      refine ⟨u1.trans s1, u2.2 s2, ?_⟩
      rw [evsOf_append, u3, s3, List.append_nil]
      exact evsOf_all _ _ (instVisit_path F cfg m.path _ _ _ _ _)
    · -- this element does not evaluate p
      have hp' : present cfg.filter ms p = true := by
        simp only [present, List.any_cons, Bool.or_eq_true] at hp
        rcases hp with hp | hp
        · exfalso
          simp only [Bool.and_eq_true, decide_eq_true_eq] at hp
          exact hm ⟨hp.2, hp.1⟩
        · exact hp
      have hstep : find p (visit F cfg sc L m).1.insts = find p L.insts ∧
          p ∉ (visit F cfg sc L m).1.visited ∧ evsOf p (visit F cfg sc L m).2 = [] ∧
          L.now ≤ (visit F cfg sc L m).1.now ∧ L.nextGen ≤ (visit F cfg sc L m).1.nextGen := by
        by_cases hmp : m.path = p
        · have he : eligible cfg.filter m = false := by
            cases h : eligible cfg.filter m
            · rfl
            · exact absurd ⟨hmp, h⟩ hm
          rw [visit_skip F cfg sc L m (Or.inl he)]
          exact ⟨rfl, hv, rfl, Nat.le_refl _, Nat.le_refl _⟩
        · obtain ⟨h1, h2, h3, h4, h5⟩ := visit_other F cfg sc L m p hmp
          exact ⟨h1, fun c => hv (h2.1 c), h3, h4, h5⟩
      obtain ⟨h1, h2, h3, h4, h5⟩ := hstep
      obtain ⟨now, ctr, g, hn, hg, hr⟩ := ih _ h2 hp'
      refine ⟨now, ctr, g, Nat.le_trans h4 hn, Nat.le_trans h5 hg, ?_⟩
      rw [h1] at hr
      obtain ⟨r1, r2, r3⟩ := hr
      refine ⟨r1, r2, ?_⟩
      rw [evsOf_append, h3, r3]
      rfl


theorem loop_append (F : Fixes) (cfg : Cfg) (sc : Path → Script) (a b : List MatchIn) (L : Loop) :
    loop F cfg sc (a ++ b) L =
      ((loop F cfg sc b (loop F cfg sc a L).1).1, (loop F cfg sc a L).2 ++ (loop F cfg sc b (loop F cfg sc a L).1).2) := by
  induction a generalizing L with
  | nil => simp [loop]
  | cons m ms ih => simp [loop, ih, List.append_assoc]

/-- the loop with the position of `p`'s first eligible occurrence made explicit: `p` is evaluated at
exactly the counters the loop has reached after the elements before it, on `p`'s own instance -/
theorem loop_at (F : Fixes) (hs : F.skipVisited = true) (cfg : Cfg) (sc : Path → Script)
    (pre post : List MatchIn) (m : MatchIn) (L : Loop)
    (he : eligible cfg.filter m = true) (hpre : present cfg.filter pre m.path = false) (hv : m.path ∉ L.visited) :
    let A := (loop F cfg sc pre L).1
    let o := instVisit F cfg m.path (find m.path L.insts) (sc m.path) A.now A.ctr A.nextGen
    find m.path (loop F cfg sc (pre ++ m :: post) L).1.insts = some o.inst ∧
    evsOf m.path (loop F cfg sc (pre ++ m :: post) L).2 = o.evs := by
  obtain ⟨a1, a2, a3⟩ := loop_untouched F hs cfg sc m.path pre L (Or.inr hpre)
  have hvA : m.path ∉ (loop F cfg sc pre L).1.visited := fun c => hv (a2.1 c)
  obtain ⟨s1, s2, s3⟩ := visit_self F cfg sc (loop F cfg sc pre L).1 m he hvA
  obtain ⟨u1, _, u3⟩ := loop_untouched F hs cfg sc m.path post (visit F cfg sc (loop F cfg sc pre L).1 m).1 (Or.inl s2)
  rw [loop_append]
  simp only [loop]
  rw [a1] at s1 s3
  refine ⟨u1.trans s1, ?_⟩
  rw [evsOf_append, evsOf_append, a3, u3, s3, List.nil_append, List.append_nil]
  exact evsOf_all _ _ (instVisit_path F cfg m.path _ _ _ _ _)

/-! ### invariants of the instance map -/

/-- keys are unique (it is a map) and every generation number in use is below the counter -/
structure LoopOK (L : Loop) : Prop where
  nodup : (keys L.insts).Nodup
  gens : ∀ q i, find q L.insts = some i → i.gen < L.nextGen

theorem instVisit_gen (F : Fixes) (cfg : Cfg) (p : Path) (oi : Option Inst) (sc : Script) (now ctr g : Nat) :
    (instVisit F cfg p oi sc now ctr g).inst.gen = (match oi with | some i => i.gen | none => g) ∧
    (instVisit F cfg p oi sc now ctr g).created = oi.isNone := by
  cases oi <;> simp [instVisit]

theorem visit_nextGen (F : Fixes) (cfg : Cfg) (sc : Path → Script) (L : Loop) (m : MatchIn) :
    L.nextGen ≤ (visit F cfg sc L m).1.nextGen := by
  unfold visit
  split
  · exact Nat.le_refl _
  · split
    · exact Nat.le_refl _
    · simp only
      split <;> omega

theorem visit_ok (F : Fixes) (cfg : Cfg) (sc : Path → Script) (L : Loop) (m : MatchIn) (h : LoopOK L) :
    LoopOK (visit F cfg sc L m).1 := by
  unfold visit
  split
  · exact h
  · split
    · exact h
    · refine ⟨nodup_upsert _ _ _ h.nodup, ?_⟩
      intro q i hq
      simp only at hq ⊢
      obtain ⟨hg, hc⟩ := instVisit_gen F cfg m.path (find m.path L.insts) (sc m.path) L.now L.ctr L.nextGen
      by_cases hqm : m.path = q
      · subst hqm
        rw [find_upsert_self] at hq
        have hi := Option.some.inj hq
        subst hi
        rw [hg, hc]
        cases hf : find m.path L.insts with
        | none => simp
        | some j =>
          have := h.gens _ _ hf
          simp
          omega
      · rw [find_upsert_other _ _ _ _ hqm] at hq
        have := h.gens _ _ hq
        split <;> omega

theorem loop_ok (F : Fixes) (cfg : Cfg) (sc : Path → Script) (ms : List MatchIn) (L : Loop) (h : LoopOK L) :
    LoopOK (loop F cfg sc ms L).1 ∧ L.nextGen ≤ (loop F cfg sc ms L).1.nextGen := by
  induction ms generalizing L with
  | nil => exact ⟨h, Nat.le_refl _⟩
  | cons m ms ih =>
    simp only [loop]
    obtain ⟨a, b⟩ := ih _ (visit_ok F cfg sc L m h)
    exact ⟨a, Nat.le_trans (visit_nextGen F cfg sc L m) b⟩

/-- well-formed world between ticks -/
structure WF (w : CgWorld) : Prop where
  nodup : (keys w.insts).Nodup
  gens : ∀ q i, find q w.insts = some i → i.gen < w.nextGen

theorem WF_init (now ctr g : Nat) : WF { insts := [], now := now, ctr := ctr, nextGen := g } :=
  ⟨by simp [keys], by simp [find]⟩

/-! ### the prerun phase seen from one path -/

theorem prerun_insts_of (cfg : Cfg) (p : Path) (l : List (Path × Inst)) (h : (keys l).Nodup) :
    evsOf p (l.flatMap (fun pi => instPreruns cfg pi.1 pi.2.gen)) =
      (match find p l with
       | some i => instPreruns cfg p i.gen
       | none => []) := by
  induction l with
  | nil => simp [find, evsOf]
  | cons x rest ih =>
    obtain ⟨q, j⟩ := x
    have h' : (q :: keys rest).Nodup := h
    have hn := List.nodup_cons.1 h'
    have ih' := ih hn.2
    rw [List.flatMap_cons, evsOf_append, ih']
    by_cases hq : q = p
    · subst hq
      have : find q rest = none := (find_none_iff q rest).2 hn.1
      simp [find, this, evsOf_all _ _ (instPreruns_path cfg q j.gen)]
    · have : evsOf p (instPreruns cfg q j.gen) = [] := by
        apply evsOf_none
        intro e he hc
        rw [instPreruns_path cfg q j.gen e he] at hc
        exact hq (Option.some.inj hc)
      simp [find, hq, this]

theorem prerunPhase_of (F : Fixes) (cfg : Cfg) (p : Path) (l : List (Path × Inst)) (h : (keys l).Nodup) :
    evsOf p (prerunPhase F cfg l) = prePhaseOf F cfg p (find p l) := by
  unfold prerunPhase
  rw [evsOf_append]
  have h1 : evsOf p ((plugins cfg).map CEv.tpre) = [] := by
    apply evsOf_none
    intro e he
    simp only [List.mem_map] at he
    obtain ⟨x, _, rfl⟩ := he
    simp [pathOf]
  rw [h1, List.nil_append]
  cases hF : F.prerunInsts
  · cases find p l <;> simp [evsOf, prePhaseOf, hF]
  · simp only [if_true]
    rw [prerun_insts_of cfg p l h]
    cases find p l <;> simp [prePhaseOf, hF]

/-! ### one tick seen from one path -/

/-- **Projection.**  What a tick does to the instance of `p` and the events that concern `p` are those
of the one-path specification `instTick`, applied to `p`'s own previous instance, `p`'s presence in
the resolve list, `p`'s own script and the shared counters (clock, uuid counter, generation counter)
at the moment `p` is reached.  Nothing else about the other cgroups enters. -/
theorem tick_projection (F : Fixes) (hs : F.skipVisited = true) (cfg : Cfg) (w : CgWorld) (hw : WF w)
    (ti : CgTickIn) (p : Path) :
    ∃ now ctr g, w.now + ti.gap ≤ now ∧ w.nextGen ≤ g ∧
      (find p (cgTick F cfg w ti).w.insts, evsOf p (cgTick F cfg w ti).evs) =
        instTick F cfg p (find p w.insts) (present cfg.filter ti.ms p) (ti.sc p) now ctr g := by
  simp only [cgTick, runPhase]
  rw [evsOf_append, prerunPhase_of F cfg p w.insts hw.nodup]
  rw [find_filter (fun q => (loop F cfg ti.sc ti.ms
    { insts := w.insts, visited := [], now := w.now + ti.gap, ctr := w.ctr, nextGen := w.nextGen }).1.visited.contains q)]
  cases hp : present cfg.filter ti.ms p
  · obtain ⟨u1, u2, u3⟩ := loop_untouched F hs cfg ti.sc p ti.ms
      { insts := w.insts, visited := [], now := w.now + ti.gap, ctr := w.ctr, nextGen := w.nextGen } (Or.inr hp)
    refine ⟨w.now + ti.gap, w.ctr, w.nextGen, Nat.le_refl _, Nat.le_refl _, ?_⟩
    have hv : ¬ p ∈ (loop F cfg ti.sc ti.ms
      { insts := w.insts, visited := [], now := w.now + ti.gap, ctr := w.ctr, nextGen := w.nextGen }).1.visited := by
      intro c
      simpa using u2.1 c
    simp [instTick, u3, hv]
  · obtain ⟨now, ctr, g, hn, hg, r1, r2, r3⟩ := loop_present F hs cfg ti.sc p ti.ms
      { insts := w.insts, visited := [], now := w.now + ti.gap, ctr := w.ctr, nextGen := w.nextGen } (by simp) hp
    refine ⟨now, ctr, g, hn, hg, ?_⟩
    simp only at r1 r3
    simp [instTick, r1, r2, r3]

/-- `tick_projection` as two equations -/
theorem tick_proj (F : Fixes) (hs : F.skipVisited = true) (cfg : Cfg) (w : CgWorld) (hw : WF w)
    (ti : CgTickIn) (p : Path) :
    ∃ now ctr g, w.now + ti.gap ≤ now ∧ w.nextGen ≤ g ∧
      find p (cgTick F cfg w ti).w.insts =
        (instTick F cfg p (find p w.insts) (present cfg.filter ti.ms p) (ti.sc p) now ctr g).1 ∧
      evsOf p (cgTick F cfg w ti).evs =
        (instTick F cfg p (find p w.insts) (present cfg.filter ti.ms p) (ti.sc p) now ctr g).2 := by
  obtain ⟨now, ctr, g, h1, h2, h⟩ := tick_projection F hs cfg w hw ti p
  exact ⟨now, ctr, g, h1, h2, congrArg Prod.fst h, congrArg Prod.snd h⟩

theorem tick_WF (F : Fixes) (cfg : Cfg) (w : CgWorld) (hw : WF w) (ti : CgTickIn) :
    WF (cgTick F cfg w ti).w ∧ w.nextGen ≤ (cgTick F cfg w ti).w.nextGen := by
  simp only [cgTick, runPhase]
  obtain ⟨ok, mono⟩ := loop_ok F cfg ti.sc ti.ms
    { insts := w.insts, visited := [], now := w.now + ti.gap, ctr := w.ctr, nextGen := w.nextGen } ⟨hw.nodup, hw.gens⟩
  refine ⟨⟨nodup_filter _ _ ok.nodup, ?_⟩, mono⟩
  intro q i hq
  simp only at hq
  rw [find_filter (fun q => (loop F cfg ti.sc ti.ms
    { insts := w.insts, visited := [], now := w.now + ti.gap, ctr := w.ctr, nextGen := w.nextGen }).1.visited.contains q)] at hq
  split at hq
  · exact ok.gens _ _ hq
  · cases hq

theorem runTicks_WF (F : Fixes) (cfg : Cfg) (w : CgWorld) (hw : WF w) (ts : List CgTickIn) :
    WF (runTicks F cfg w ts) ∧ w.nextGen ≤ (runTicks F cfg w ts).nextGen := by
  induction ts generalizing w with
  | nil => exact ⟨hw, Nat.le_refl _⟩
  | cons t ts ih =>
    simp only [runTicks]
    obtain ⟨a, b⟩ := tick_WF F cfg w hw t
    obtain ⟨c, d⟩ := ih _ a
    exact ⟨c, Nat.le_trans b d⟩


/-! ### projections of an event list used by the property statements -/

def isInit : CEv → Bool
  | .init _ _ _ _ => true
  | _ => false

def isPre : CEv → Bool
  | .pre _ _ _ => true
  | _ => false

def isRun : CEv → Bool
  | .run _ _ _ => true
  | _ => false

/-- the detectors run for `p`, in order -/
def runDets (p : Path) : List CEv → List Nat
  | [] => []
  | CEv.run q _ (Ev.det d _) :: es => if q = p then d :: runDets p es else runDets p es
  | _ :: es => runDets p es

/-- the `runOnceImpl` events of `p` -/
def runsOf (p : Path) (evs : List CEv) : List CEv := evs.filter fun e => isRun e && decide (pathOf e = some p)

theorem runDets_append (p : Path) (a b : List CEv) : runDets p (a ++ b) = runDets p a ++ runDets p b := by
  induction a with
  | nil => rfl
  | cons e es ih =>
    cases e with
    | run q g x =>
      cases x with
      | det d n => by_cases h : q = p <;> simp [runDets, h, ih]
      | prerun i => simp [runDets, ih]
      | act a n c inv => simp [runDets, ih]
    | tpre x => simp [runDets, ih]
    | init q g x arg => simp [runDets, ih]
    | pre q g x => simp [runDets, ih]

theorem runDets_evsOf (p : Path) (l : List CEv) : runDets p (evsOf p l) = runDets p l := by
  induction l with
  | nil => rfl
  | cons e es ih =>
    cases e with
    | run q g x =>
      by_cases h : q = p
      · have : evsOf p (CEv.run q g x :: es) = CEv.run q g x :: evsOf p es := by simp [evsOf, pathOf, h]
        rw [this]
        cases x <;> simp [runDets, h, ih]
      · have : evsOf p (CEv.run q g x :: es) = evsOf p es := by simp [evsOf, pathOf, h]
        rw [this, ih]
        cases x <;> simp [runDets, h]
    | tpre x =>
      have : evsOf p (CEv.tpre x :: es) = evsOf p es := by simp [evsOf, pathOf]
      rw [this, ih]; simp [runDets]
    | init q g x arg =>
      by_cases h : q = p
      · have : evsOf p (CEv.init q g x arg :: es) = CEv.init q g x arg :: evsOf p es := by simp [evsOf, pathOf, h]
        rw [this]; simp [runDets, ih]
      · have : evsOf p (CEv.init q g x arg :: es) = evsOf p es := by simp [evsOf, pathOf, h]
        rw [this, ih]; simp [runDets]
    | pre q g x =>
      by_cases h : q = p
      · have : evsOf p (CEv.pre q g x :: es) = CEv.pre q g x :: evsOf p es := by simp [evsOf, pathOf, h]
        rw [this]; simp [runDets, ih]
      · have : evsOf p (CEv.pre q g x :: es) = evsOf p es := by simp [evsOf, pathOf, h]
        rw [this, ih]; simp [runDets]

theorem runDets_nonrun (p : Path) (l : List CEv) (h : ∀ e ∈ l, isRun e = false) : runDets p l = [] := by
  induction l with
  | nil => rfl
  | cons e es ih =>
    have he := h e (List.mem_cons_self ..)
    have ih' := ih (fun x hx => h x (List.mem_cons_of_mem _ hx))
    cases e <;> simp_all [runDets, isRun]

theorem runDets_map_run (p : Path) (g : Nat) (l : List Ev) : runDets p (l.map (CEv.run p g)) = detInsts l := by
  induction l with
  | nil => rfl
  | cons e es ih => cases e <;> simp [runDets, detInsts, ih]

theorem instPreruns_isPre (cfg : Cfg) (p : Path) (g : Nat) : ∀ e ∈ instPreruns cfg p g, isPre e = true := by
  intro e he
  simp only [instPreruns, List.mem_map] at he
  obtain ⟨x, _, rfl⟩ := he
  rfl

theorem prePhaseOf_isPre (F : Fixes) (cfg : Cfg) (p : Path) (oi : Option Inst) :
    ∀ e ∈ prePhaseOf F cfg p oi, isPre e = true := by
  intro e he
  cases oi with
  | none => simp [prePhaseOf] at he
  | some i =>
    simp only [prePhaseOf] at he
    split at he
    · exact instPreruns_isPre cfg p i.gen e he
    · simp at he

theorem createEvs_nonrun (cfg : Cfg) (p : Path) (g : Nat) : ∀ e ∈ createEvs cfg p g, isRun e = false := by
  intro e he
  simp only [createEvs, List.mem_append, List.mem_map] at he
  rcases he with (⟨x, _, rfl⟩ | ⟨x, _, rfl⟩) | he
  · rfl
  · rfl
  · have := instPreruns_isPre cfg p g e he
    cases e <;> simp_all [isPre, isRun]

/-- the plain ruleset model (`OomdModel.Engine.rsRun`) run over a list of invocations
(script, clock reading, uuid counter) -/
def instRun (inv : Bool) (rs : RsCfg) : RsState → List (Script × Nat × Nat) → RsState × List (List Ev)
  | st, [] => (st, [])
  | st, (sc, now, ctr) :: rest =>
    let r := rsRun inv rs sc st now ctr
    let r2 := instRun inv rs r.1 rest
    (r2.1, r.2.1 :: r2.2)

theorem runsOf_evsOf (p : Path) (l : List CEv) : runsOf p (evsOf p l) = runsOf p l := by
  simp only [runsOf, evsOf, List.filter_filter]
  congr 1
  funext e
  cases h : decide (pathOf e = some p) <;> simp [h]

theorem runsOf_append (p : Path) (a b : List CEv) : runsOf p (a ++ b) = runsOf p a ++ runsOf p b := by
  simp [runsOf]

theorem runsOf_nonrun (p : Path) (l : List CEv) (h : ∀ e ∈ l, isRun e = false) : runsOf p l = [] := by
  unfold runsOf
  rw [List.filter_eq_nil_iff]
  intro e he
  simp [h e he]

theorem runsOf_map_run (p : Path) (g : Nat) (l : List Ev) : runsOf p (l.map (CEv.run p g)) = l.map (CEv.run p g) := by
  unfold runsOf
  rw [List.filter_eq_self]
  intro e he
  simp only [List.mem_map] at he
  obtain ⟨x, _, rfl⟩ := he
  simp [isRun, pathOf]

/-- every `init` event of the per-cgroup loop comes from the creation of an instance -/
theorem loop_init_shape (F : Fixes) (cfg : Cfg) (sc : Path → Script) (ms : List MatchIn) (L : Loop) :
    ∀ e ∈ (loop F cfg sc ms L).2, isInit e = true → ∃ q g, e ∈ createEvs cfg q g := by
  induction ms generalizing L with
  | nil => simp [loop]
  | cons m ms ih =>
    intro e he hi
    simp only [loop, List.mem_append] at he
    rcases he with he | he
    · unfold visit at he
      split at he
      · simp at he
      · split at he
        · simp at he
        · simp only [instVisit, List.mem_append, List.mem_map] at he
          rcases he with he | ⟨x, _, rfl⟩
          · cases hf : find m.path L.insts with
            | none =>
              rw [hf] at he
              exact ⟨m.path, L.nextGen, he⟩
            | some j =>
              rw [hf] at he
              simp at he
          · simp [isInit] at hi
    · exact ih _ e he hi

end OomdModel.RsCgroup

import OomdModel.DropIn

/-!
# Drop-in operations never touch the run state of a base ruleset

Lemmas for `C06.base_state_only_changes_by_its_own_run`: adding / removing drop-ins changes a base ruleset's enablement, its
target count and its deque of drop-ins - never its `RsState` (pause deadline, override flag, suspended chain) nor its
configuration; a tick changes the state of an *enabled* base by `rsRun` and leaves a disabled one alone.
-/

namespace OomdModel.DropIn
open OomdModel.Engine

/-- the run state (and configuration) of every base ruleset, in order -/
def baseStates (e : Eng) : List (RsCfg × RsState) := e.rulesets.map fun b => (b.rs.cfg, b.rs.st)

theorem markTargeted_st (r : Rs) : ((markTargeted r).cfg, (markTargeted r).st) = (r.cfg, r.st) := rfl
theorem markUntargeted_st (r : Rs) : ((markUntargeted r).cfg, (markUntargeted r).st) = (r.cfg, r.st) := rfl

theorem untargetN_st (n : Nat) (r : Rs) : ((untargetN n r).cfg, (untargetN n r).st) = (r.cfg, r.st) := by
  induction n generalizing r with
  | zero => rfl
  | succ n ih => simp only [untargetN]; rw [ih]; rfl

theorem addToFirst_states (tag : Tag) (r : Rs) (bs bs' : List BaseRs) (h : addToFirst tag r bs = some bs') :
    bs'.map (fun b => (b.rs.cfg, b.rs.st)) = bs.map (fun b => (b.rs.cfg, b.rs.st)) := by
  induction bs generalizing bs' with
  | nil => simp [addToFirst] at h
  | cons b bs ih =>
    simp only [addToFirst] at h
    split at h
    · cases h; simp [markTargeted]
    · cases h2 : addToFirst tag r bs with
      | none => simp [h2] at h
      | some t =>
        simp [h2] at h
        subst h
        simp [ih t h2]

theorem addDropInRuleset_states (tag : Tag) (r : Rs) (e e' : Eng) (h : addDropInRuleset tag r e = some e') :
    baseStates e' = baseStates e := by
  unfold addDropInRuleset at h
  cases h2 : addToFirst tag r e.rulesets with
  | none => simp [h2] at h
  | some bs =>
    simp [h2] at h
    subst h
    exact addToFirst_states tag r _ _ h2

theorem removeFromBase_st (tag : Tag) (b : BaseRs) :
    ((removeFromBase tag b).rs.cfg, (removeFromBase tag b).rs.st) = (b.rs.cfg, b.rs.st) := by
  unfold removeFromBase
  simp only
  split
  · rfl
  · exact untargetN_st _ _

theorem removeDropInConfig_states (tag : Tag) (e : Eng) : baseStates (removeDropInConfig tag e) = baseStates e := by
  simp only [baseStates, removeDropInConfig, List.map_map]
  apply List.map_congr_left
  intro b _
  exact removeFromBase_st tag b

theorem addRulesets_states (tag : Tag) (rs : List Rs) (e : Eng) : baseStates (addRulesets tag rs e).2 = baseStates e := by
  induction rs generalizing e with
  | nil => rfl
  | cons r rs ih =>
    simp only [addRulesets]
    cases h : addDropInRuleset tag r e with
    | none => rfl
    | some e' => simp only; rw [ih, addDropInRuleset_states tag r e e' h]

theorem addDropInConfig_states (tag : Tag) (u : DUnit) (e : Eng) : baseStates (addDropInConfig tag u e).2 = baseStates e := by
  unfold addDropInConfig
  simp only
  split
  · exact addRulesets_states tag u.rulesets e
  · rw [removeDropInConfig_states]; exact addRulesets_states tag u.rulesets e

/-- **Adding, re-adding or removing a drop-in leaves the run state of every base ruleset as it is.** -/
theorem updateDropIn_states (tag : Tag) (u : Option DUnit) (e : Eng) : baseStates (updateDropIn tag u e).2 = baseStates e := by
  unfold updateDropIn
  cases u with
  | none => exact removeDropInConfig_states tag e
  | some u => simp only; rw [addDropInConfig_states, removeDropInConfig_states]

theorem runRs_disabled (inv : Bool) (sc : Script) (r : Rs) (now ctr : Nat) (h : r.enabled = false) :
    runRs inv sc r now ctr = (r, [], now, ctr) := by
  simp [runRs, h]

theorem runRs_cfg (inv : Bool) (sc : Script) (r : Rs) (now ctr : Nat) : (runRs inv sc r now ctr).1.cfg = r.cfg := by
  unfold runRs; split <;> rfl

/-- what a tick does to the state of the base ruleset at position `k`: nothing if it is disabled, `rsRun` on its own state (at
some clock reading and uuid counter) if it is enabled -/
theorem runBases_state (inv : Bool) (sc : Script) (bs : List BaseRs) (now ctr : Nat) (k : Nat) (b : BaseRs)
    (hk : bs[k]? = some b) :
    ∃ b', (runBases inv sc bs now ctr).1[k]? = some b' ∧ b'.rs.cfg = b.rs.cfg ∧
      ((b.rs.enabled = false ∧ b'.rs.st = b.rs.st) ∨
       (b.rs.enabled = true ∧ ∃ now' ctr', b'.rs.st = (rsRun inv b.rs.cfg sc b.rs.st now' ctr').1)) := by
  induction bs generalizing now ctr k with
  | nil => simp at hk
  | cons b0 bs ih =>
    cases k with
    | zero =>
      simp only [List.getElem?_cons_zero, Option.some.injEq] at hk
      subst hk
      simp only [runBases, List.getElem?_cons_zero]
      refine ⟨_, rfl, runRs_cfg .., ?_⟩
      cases he : b0.rs.enabled
      · left; simp [runRs, he]
      · right
        refine ⟨rfl, (runDropins inv sc b0.dropins now ctr).2.2.1, (runDropins inv sc b0.dropins now ctr).2.2.2, ?_⟩
        simp [runRs, he]
    | succ k =>
      simp only [List.getElem?_cons_succ] at hk
      simp only [runBases, List.getElem?_cons_succ]
      exact ih _ _ k hk

end OomdModel.DropIn

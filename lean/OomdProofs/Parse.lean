import OomdModel.Parse

namespace OomdProofs.Parse
end OomdProofs.Parse

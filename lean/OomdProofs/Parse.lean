import OomdModel.Parse

/-!
Helper lemmas for C12: the scanners of `OomdModel.Parse` (prefix language + rest) against the
whole-string grammar of `OomdModel.Parse.Spec`.
-/

namespace OomdProofs.Parse
open OomdModel.Parse OomdModel.Parse.Spec

/-! ## lists -/

theorem tw_dw (p : Char → Bool) (l : Str) : l.takeWhile p ++ l.dropWhile p = l :=
  List.takeWhile_append_dropWhile

theorem dropWhile_nil {p : Char → Bool} {l : Str} (h : l.dropWhile p = []) :
    l.takeWhile p = l ∧ l.all p = true := by
  have h1 := tw_dw p l
  rw [h, List.append_nil] at h1
  refine ⟨h1, ?_⟩
  rw [← h1]; exact List.all_takeWhile

theorem all_takeWhile_self {p : Char → Bool} {l : Str} (h : l.all p = true) :
    l.takeWhile p = l ∧ l.dropWhile p = [] := by
  have hp : ∀ a ∈ l, p a = true := by simpa [List.all_eq_true] using h
  have h1 := List.takeWhile_append_of_pos (p := p) (l₁ := l) (l₂ := []) hp
  have h2 := List.dropWhile_append_of_pos (p := p) (l₁ := l) (l₂ := []) hp
  simp at h1 h2
  exact ⟨h1, h2⟩

theorem isEmpty_eq_false {α : Type} {l : List α} : l.isEmpty = false ↔ l ≠ [] := by
  cases l <;> simp

theorem isEmpty_eq_true {α : Type} {l : List α} : l.isEmpty = true ↔ l = [] := by
  cases l <;> simp

/-! ## integers: scanner ⇔ whole-string numeral -/

theorem scanInt_whole {s : Str} {r : IntScan} (h : scanInt s = some r) (hr : r.rest = []) :
    intNumeral? s = some r.val := by
  unfold scanInt at h
  simp only at h
  by_cases hd : ((takeSign (s.dropWhile isSpace)).2.takeWhile Char.isDigit).isEmpty = true
  · simp [hd] at h
  · simp only [hd] at h
    simp only [Bool.false_eq_true, if_false, Option.some.injEq] at h
    subst h
    simp only at hr
    obtain ⟨h1, h2⟩ := dropWhile_nil hr
    rw [h1] at hd
    unfold intNumeral? signedDigits? digits? IntScan.val
    simp only [h1]
    simp [h2, hd]

theorem intNumeral_scan {s : Str} {v : Int} (h : intNumeral? s = some v) :
    ∃ r, scanInt s = some r ∧ r.rest = [] ∧ v = r.val := by
  unfold intNumeral? signedDigits? digits? at h
  simp only at h
  by_cases hc : (!(takeSign (s.dropWhile isSpace)).2.isEmpty && (takeSign (s.dropWhile isSpace)).2.all Char.isDigit) = true
  · simp only [hc, if_true, Option.some.injEq] at h
    simp only [Bool.and_eq_true, Bool.not_eq_true'] at hc
    obtain ⟨h1, h2⟩ := all_takeWhile_self hc.2
    refine ⟨⟨(takeSign (s.dropWhile isSpace)).1, natOfDigits (takeSign (s.dropWhile isSpace)).2, []⟩, ?_, rfl, ?_⟩
    · unfold scanInt
      simp [h1, h2, hc.1]
    · simp only [IntScan.val, ← h]
  · simp [hc] at h

theorem stoSigned_ok {bits : Nat} {s : Str} {v : Int} {rest : Str} :
    stoSigned bits s = .ok (v, rest) ↔
      ∃ r, scanInt s = some r ∧ v = r.val ∧ rest = r.rest ∧
        -((2 : Int) ^ (bits - 1)) ≤ v ∧ v < (2 : Int) ^ (bits - 1) := by
  unfold stoSigned
  cases hs : scanInt s with
  | none => simp
  | some r =>
    simp only
    by_cases hr : r.val < -((2 : Int) ^ (bits - 1)) ∨ r.val ≥ (2 : Int) ^ (bits - 1)
    · simp only [hr, if_true]
      constructor
      · intro h; exact absurd h (by simp)
      · rintro ⟨r', h1, h2, _, h4, h5⟩
        simp only [Option.some.injEq] at h1
        subst h1
        omega
    · simp only [hr, if_false, Except.ok.injEq, Prod.mk.injEq]
      constructor
      · rintro ⟨h1, h2⟩
        exact ⟨r, rfl, h1.symm, h2.symm, by omega, by omega⟩
      · rintro ⟨r', h1, h2, h3, _, _⟩
        simp only [Option.some.injEq] at h1
        subst h1
        exact ⟨h2.symm, h3.symm⟩

theorem whole_ok {α : Type} {r : Except StoErr (α × Str)} {v : α} :
    whole r = .ok v ↔ r = .ok (v, []) := by
  unfold whole
  cases r with
  | error e => simp
  | ok p =>
    obtain ⟨a, rest⟩ := p
    cases rest with
    | nil => simp
    | cons c cs => simp

theorem whole_stoSigned (bits : Nat) (s : Str) (v : Int) :
    whole (stoSigned bits s) = .ok v ↔
      inRange (-((2 : Int) ^ (bits - 1))) ((2 : Int) ^ (bits - 1)) (intNumeral? s) = some v := by
  rw [whole_ok, stoSigned_ok]
  constructor
  · rintro ⟨r, h1, h2, h3, h4, h5⟩
    rw [scanInt_whole h1 h3.symm, ← h2]
    simp [inRange, h4, h5]
  · intro h
    unfold inRange at h
    cases hn : intNumeral? s with
    | none => simp [hn] at h
    | some x =>
      simp only [hn] at h
      by_cases hx : -((2 : Int) ^ (bits - 1)) ≤ x ∧ x < (2 : Int) ^ (bits - 1)
      · simp only [hx, and_self, if_true, Option.some.injEq] at h
        subst h
        obtain ⟨r, h1, h2, h3⟩ := intNumeral_scan hn
        exact ⟨r, h1, h3, h2.symm, hx.1, hx.2⟩
      · simp [hx] at h


/-! ## floating literals: scanner ⇒ whole-string grammar -/

theorem cutAt_append {p : Char → Bool} {a : Str} (ha : ∀ c ∈ a, p c = false) {m : Char} (hm : p m = true)
    (t : Str) : cutAt p (a ++ m :: t) = (a, some t) := by
  have hq : ∀ c ∈ a, (fun c => !p c) c = true := by intro c hc; simp [ha c hc]
  unfold cutAt
  rw [List.takeWhile_append_of_pos hq, List.dropWhile_append_of_pos hq]
  simp [hm]

theorem cutAt_none {p : Char → Bool} {a : Str} (ha : ∀ c ∈ a, p c = false) : cutAt p a = (a, none) := by
  have hq : (a.all fun c => !p c) = true := by
    simp only [List.all_eq_true]; intro c hc; simp [ha c hc]
  obtain ⟨h1, h2⟩ := all_takeWhile_self hq
  unfold cutAt
  rw [h1, h2]

theorem all_mem {p : Char → Bool} {l : Str} (h : l.all p = true) : ∀ c ∈ l, p c = true := by
  simpa [List.all_eq_true] using h

/-- what a successful mantissa scan says about the string -/
theorem scanMant_spec {isD : Char → Bool} {s ip fp r : Str} (h : scanMant isD s = some (ip, fp, r)) :
    ip.all isD = true ∧ fp.all isD = true ∧ (ip ≠ [] ∨ fp ≠ []) ∧
      ((s = ip ++ r ∧ fp = []) ∨ s = ip ++ '.' :: (fp ++ r)) := by
  unfold scanMant at h
  simp only at h
  have hs := tw_dw isD s
  cases hd : s.dropWhile isD with
  | nil =>
    rw [hd] at h hs
    simp only at h
    by_cases he : (s.takeWhile isD).isEmpty = true
    · simp [he] at h
    · simp only [he, Bool.false_eq_true, if_false, Option.some.injEq, Prod.mk.injEq] at h
      obtain ⟨h1, h2, h3⟩ := h
      subst h1 h2 h3
      refine ⟨List.all_takeWhile, by simp, Or.inl ?_, Or.inl ⟨by simpa using hs.symm, rfl⟩⟩
      intro hc; simp [hc] at he
  | cons c cs =>
    rw [hd] at h hs
    split at h
    · rename_i r2 heq
      simp only [List.cons.injEq] at heq
      obtain ⟨hc, hcs⟩ := heq
      subst hc hcs
      by_cases he : ((s.takeWhile isD).isEmpty && (cs.takeWhile isD).isEmpty) = true
      · simp [he] at h
      · simp only [he, Bool.false_eq_true, if_false, Option.some.injEq, Prod.mk.injEq] at h
        obtain ⟨h1, h2, h3⟩ := h
        subst h1 h2 h3
        refine ⟨List.all_takeWhile, List.all_takeWhile, ?_, Or.inr ?_⟩
        · simp only [Bool.and_eq_true, List.isEmpty_iff] at he
          by_cases h1 : s.takeWhile isD = []
          · right; intro h2; exact he ⟨h1, h2⟩
          · left; exact h1
        · rw [tw_dw isD cs]; exact hs.symm
    · by_cases he : (s.takeWhile isD).isEmpty = true
      · simp [he] at h
      · simp only [he, Bool.false_eq_true, if_false, Option.some.injEq, Prod.mk.injEq] at h
        obtain ⟨h1, h2, h3⟩ := h
        subst h1 h2 h3
        refine ⟨List.all_takeWhile, by simp, Or.inl ?_, Or.inl ⟨hs.symm, rfl⟩⟩
        intro hc'; simp [hc'] at he

theorem pointNumeral_nodot {isD : Char → Bool} (hdot : isD '.' = false) {ip : Str}
    (h1 : ip.all isD = true) (hne : ip ≠ []) : pointNumeral? isD ip = some (ip, 0) := by
  have hm := all_mem h1
  have hnd : ∀ c ∈ ip, (c == '.') = false := by
    intro c hc
    by_cases h : c = '.'
    · subst h; rw [hm _ hc] at hdot; exact absurd hdot (by simp)
    · simp [h]
  have hall : (ip.all fun c => isD c || c == '.') = true := by
    simp only [List.all_eq_true]; intro c hc; simp [hm c hc]
  have hcount : ip.count '.' = 0 := by
    rw [List.count_eq_zero]; intro hc; have := hnd _ hc; simp at this
  have hany : ip.any isD = true := by
    cases ip with
    | nil => exact absurd rfl hne
    | cons c cs => simp [hm c (by simp)]
  have hfilter : ip.filter isD = ip := List.filter_eq_self.2 hm
  have hcut : cutAt (fun c => c == '.') ip = (ip, none) := cutAt_none hnd
  unfold pointNumeral?
  simp [hall, hcount, hany, hfilter, hcut]

theorem pointNumeral_dot {isD : Char → Bool} (hdot : isD '.' = false) {ip fp : Str}
    (h1 : ip.all isD = true) (h2 : fp.all isD = true) (hne : ip ≠ [] ∨ fp ≠ []) :
    pointNumeral? isD (ip ++ '.' :: fp) = some (ip ++ fp, fp.length) := by
  have hm1 := all_mem h1
  have hm2 := all_mem h2
  have hnd : ∀ (l : Str), (∀ c ∈ l, isD c = true) → ∀ c ∈ l, (c == '.') = false := by
    intro l hl c hc
    by_cases h : c = '.'
    · subst h; rw [hl _ hc] at hdot; exact absurd hdot (by simp)
    · simp [h]
  have hall : ((ip ++ '.' :: fp).all fun c => isD c || c == '.') = true := by
    simp only [List.all_eq_true, List.mem_append, List.mem_cons]
    rintro c (hc | hc | hc)
    · simp [hm1 c hc]
    · simp [hc]
    · simp [hm2 c hc]
  have hc0 : ∀ (l : Str), (∀ c ∈ l, isD c = true) → l.count '.' = 0 := by
    intro l hl; rw [List.count_eq_zero]; intro hc; have := hnd l hl _ hc; simp at this
  have hcount : (ip ++ '.' :: fp).count '.' = 1 := by
    rw [List.count_append, List.count_cons_self, hc0 ip hm1, hc0 fp hm2]
  have hany : (ip ++ '.' :: fp).any isD = true := by
    rcases hne with h | h
    · cases ip with
      | nil => exact absurd rfl h
      | cons c cs => simp [hm1 c (by simp)]
    · cases fp with
      | nil => exact absurd rfl h
      | cons c cs => simp [hm2 c (by simp)]
  have hfilter : (ip ++ '.' :: fp).filter isD = ip ++ fp := by
    rw [List.filter_append, List.filter_cons, hdot, List.filter_eq_self.2 hm1, List.filter_eq_self.2 hm2]
    simp
  have hcut : cutAt (fun c => c == '.') (ip ++ '.' :: fp) = (ip, some fp) :=
    cutAt_append (hnd ip hm1) (by simp) fp
  unfold pointNumeral?
  simp [hall, hcount, hany, hfilter, hcut]

theorem scanExp_whole {lo up : Char} {r : Str} {e : Int} (h : scanExp lo up r = (e, [])) :
    (r = [] ∧ e = 0) ∨ ∃ m t, r = m :: t ∧ (m = lo ∨ m = up) ∧ signedDigits? t = some e := by
  cases r with
  | nil =>
    left
    simp only [scanExp, Prod.mk.injEq] at h
    exact ⟨rfl, h.1.symm⟩
  | cons m t =>
    right
    simp only [scanExp] at h
    by_cases hm : (m == lo || m == up) = true
    · simp only [hm, if_true] at h
      by_cases hd : ((takeSign t).2.takeWhile Char.isDigit).isEmpty = true
      · simp [hd] at h
      · simp only [hd, Bool.false_eq_true, if_false, Prod.mk.injEq] at h
        obtain ⟨h1, h2⟩ := dropWhile_nil h.2
        rw [h1] at hd h
        refine ⟨m, t, rfl, by simpa using hm, ?_⟩
        unfold signedDigits? digits?
        simp only [h2, Bool.and_true]
        simp only [hd, Bool.not_false, if_true]
        simp only [← h.1]
    · simp only [hm, Bool.false_eq_true, if_false, Prod.mk.injEq] at h
      exact absurd h.2 (by simp)

theorem genLiteral_of_scan {isD : Char → Bool} {lo up : Char}
    (hd : ∀ c, isD c = true → c ≠ lo ∧ c ≠ up) (hdot : isD '.' = false) (hlo : lo ≠ '.') (hup : up ≠ '.')
    {b ip fp r : Str} {e : Int} (hm : scanMant isD b = some (ip, fp, r)) (he : scanExp lo up r = (e, [])) :
    genLiteral? isD lo up b = some (ip ++ fp, fp.length, e) := by
  obtain ⟨h1, h2, hne, hshape⟩ := scanMant_spec hm
  have hm1 := all_mem h1
  have hm2 := all_mem h2
  -- the mantissa part `M` and the fact that it contains no exponent marker
  have key : ∃ M : Str, b = M ++ r ∧ pointNumeral? isD M = some (ip ++ fp, fp.length) ∧
      ∀ c ∈ M, (c == lo || c == up) = false := by
    rcases hshape with ⟨hb, hf⟩ | hb
    · subst hf
      have hip : ip ≠ [] := by rcases hne with h | h; exact h; exact absurd rfl h
      refine ⟨ip, hb, by simpa using pointNumeral_nodot hdot h1 hip, ?_⟩
      intro c hc
      have := hd c (hm1 c hc)
      simp [this.1, this.2]
    · refine ⟨ip ++ '.' :: fp, by simpa using hb, pointNumeral_dot hdot h1 h2 hne, ?_⟩
      intro c hc
      simp only [List.mem_append, List.mem_cons] at hc
      rcases hc with hc | hc | hc
      · have := hd c (hm1 c hc); simp [this.1, this.2]
      · subst hc; simp [Ne.symm hlo, Ne.symm hup]
      · have := hd c (hm2 c hc); simp [this.1, this.2]
  obtain ⟨M, hb, hp, hM⟩ := key
  rcases scanExp_whole he with ⟨hr, he0⟩ | ⟨m, t, hr, hmk, hsd⟩
  · subst hr he0
    simp only [List.append_nil] at hb
    subst hb
    unfold genLiteral?
    simp only [cutAt_none hM, hp]
  · subst hr
    have hmark : (fun ch => ch == lo || ch == up) m = true := by
      rcases hmk with h | h <;> simp [h]
    unfold genLiteral?
    rw [hb]
    simp only [cutAt_append hM hmark t, hp, hsd]

theorem isDigit_ne {c d : Char} (hc : c.isDigit = true) (hd : d.isDigit = false) : c ≠ d := by
  intro h; subst h; rw [hc] at hd; exact absurd hd (by simp)

theorem isHexDigit_ne {c d : Char} (hc : isHexDigit c = true) (hd : isHexDigit d = false) : c ≠ d := by
  intro h; subst h; rw [hc] at hd; exact absurd hd (by simp)

theorem decLiteral_of_scan {b ip fp r : Str} {e : Int}
    (hm : scanMant Char.isDigit b = some (ip, fp, r)) (he : scanExp 'e' 'E' r = (e, [])) :
    decLiteral? b = some (natOfDigits (ip ++ fp), e - (fp.length : Int)) := by
  have := genLiteral_of_scan (isD := Char.isDigit) (lo := 'e') (up := 'E')
    (fun c hc => ⟨isDigit_ne hc (by decide), isDigit_ne hc (by decide)⟩) (by decide) (by decide) (by decide) hm he
  simp [decLiteral?, this]

theorem hexLiteral_of_scan {b ip fp r : Str} {e : Int}
    (hm : scanMant isHexDigit b = some (ip, fp, r)) (he : scanExp 'p' 'P' r = (e, [])) :
    hexLiteral? b = some (natOfHex (ip ++ fp), e - 4 * (fp.length : Int)) := by
  have := genLiteral_of_scan (isD := isHexDigit) (lo := 'p') (up := 'P')
    (fun c hc => ⟨isHexDigit_ne hc (by decide), isHexDigit_ne hc (by decide)⟩) (by decide) (by decide) (by decide) hm he
  simp [hexLiteral?, this]


/-! ### the words inf / infinity / nan -/

theorem ciPrefix_whole {pat b : Str} (h : ciPrefix pat b = true) (hd : b.drop pat.length = []) :
    b.map Char.toLower = pat := by
  unfold ciPrefix at h
  have hl : b.length ≤ pat.length := List.drop_eq_nil_iff.1 hd
  rw [List.take_of_length_le hl] at h
  simpa using h

theorem ciPrefix_of_lower {pat pat' b : Str} (h : b.map Char.toLower = pat')
    (hp : pat'.take pat.length = pat) : ciPrefix pat b = true := by
  unfold ciPrefix
  rw [List.map_take, h, hp]
  simp

theorem nanWord_of_scan {b : Str} (h1 : ciPrefix "nan".toList b = true)
    (h2 : scanNanTail (b.drop 3) = []) : isNanWord b = true := by
  unfold ciPrefix at h1
  have hlen3 : "nan".toList.length = 3 := by decide
  rw [hlen3] at h1
  have hb := List.take_append_drop 3 b
  have htl : (b.take 3).length = 3 := by
    have := congrArg List.length (eq_of_beq h1)
    simpa using this
  unfold isNanWord
  simp only [h1, Bool.true_and]
  cases hr : b.drop 3 with
  | nil =>
    have : b.length = 3 := by
      have hl : b.length ≤ 3 := List.drop_eq_nil_iff.1 hr
      have : (b.take 3).length ≤ b.length := by simp [List.length_take]; omega
      omega
    simp [this]
  | cons c t =>
    rw [hr] at h2
    unfold scanNanTail at h2
    split at h2
    · rename_i t' heq
      simp only [List.cons.injEq] at heq
      obtain ⟨hc, ht⟩ := heq
      subst hc ht
      split at h2
      · rename_i u hu
        subst h2
        have ht := tw_dw isAlnumU t
        rw [hu] at ht
        generalize htw : t.takeWhile isAlnumU = tw at ht
        have hall : tw.all isAlnumU = true := by rw [← htw]; exact List.all_takeWhile
        have hb' : b = (b.take 3 ++ '(' :: tw) ++ [')'] := by
          have h0 : b.take 3 ++ '(' :: t = b := by rw [← hr]; exact hb
          calc b = b.take 3 ++ '(' :: t := h0.symm
            _ = (b.take 3 ++ '(' :: tw) ++ [')'] := by rw [← ht]; simp
        have hd4 : b.drop 4 = t := by
          have : b.drop 4 = (b.drop 3).drop 1 := by rw [List.drop_drop]
          rw [this, hr]; rfl
        have hlast : b.getLast? = some ')' := by
          rw [hb']; exact List.getLast?_concat
        have hlen : b.length ≥ 5 := by
          have := congrArg List.length hb'
          simp at this; omega
        have hdl : t.dropLast = tw := by rw [← ht]; simp
        have hhead : (b.drop 3).head? = some '(' := by rw [hr]; rfl
        simp only [hlast, hd4, hdl, hall, beq_self_eq_true, Bool.and_true]
        simp [hlen]
      · exact absurd h2 (by simp)
    · exact absurd h2 (by simp)

theorem dec_after_0x_not_whole {x : Char} {t ip fp r : Str} {e : Int}
    (hx : (x == 'x' || x == 'X') = true)
    (hm : scanMant Char.isDigit ('0' :: x :: t) = some (ip, fp, r))
    (he : scanExp 'e' 'E' r = (e, [])) : False := by
  have hx' : x = 'x' ∨ x = 'X' := by simpa using hx
  have h0 : Char.isDigit '0' = true := by decide
  rcases hx' with rfl | rfl
  · have hnd : Char.isDigit 'x' = false := by decide
    unfold scanMant at hm
    simp only [List.takeWhile_cons, List.dropWhile_cons, h0, hnd, if_true, Bool.false_eq_true, if_false] at hm
    split at hm
    · rename_i heq; simp at heq
    · simp only [List.isEmpty_cons, Bool.false_eq_true, if_false, Option.some.injEq, Prod.mk.injEq] at hm
      obtain ⟨_, _, h3⟩ := hm
      subst h3
      simp [scanExp] at he
  · have hnd : Char.isDigit 'X' = false := by decide
    unfold scanMant at hm
    simp only [List.takeWhile_cons, List.dropWhile_cons, h0, hnd, if_true, Bool.false_eq_true, if_false] at hm
    split at hm
    · rename_i heq; simp at heq
    · simp only [List.isEmpty_cons, Bool.false_eq_true, if_false, Option.some.injEq, Prod.mk.injEq] at hm
      obtain ⟨_, _, h3⟩ := hm
      subst h3
      simp [scanExp] at he

theorem hexBody_some {b t : Str} (h : hexBody? b = some t) :
    ∃ x, b = '0' :: x :: t ∧ (x == 'x' || x == 'X') = true := by
  unfold hexBody? at h
  split at h
  · rename_i c x t'
    by_cases hc : (c == '0' && (x == 'x' || x == 'X')) = true
    · simp only [hc, if_true, Option.some.injEq] at h
      subst h
      simp only [Bool.and_eq_true, beq_iff_eq] at hc
      exact ⟨x, by rw [hc.1], by simpa using hc.2⟩
    · simp [hc] at h
  · exact absurd h (by simp)

/-- the scanner consumed the whole string ⇒ the string is a floating numeral with that value -/
theorem scanFloat_whole {s : Str} {v : FVal} (h : scanFloat s = some (v, [])) :
    floatNumeral? s = some v := by
  unfold scanFloat at h
  unfold floatNumeral?
  simp only at h ⊢
  generalize takeSign (s.dropWhile isSpace) = st at h ⊢
  obtain ⟨neg, b⟩ := st
  simp only at h ⊢
  have l8 : "infinity".toList.length = 8 := by decide
  have l3 : "inf".toList.length = 3 := by decide
  by_cases h1 : ciPrefix "infinity".toList b = true
  · simp only [h1, if_true, Option.some.injEq, Prod.mk.injEq] at h
    have := ciPrefix_whole h1 (by rw [l8]; exact h.2)
    simp [this, ← h.1]
  · simp only [h1, Bool.false_eq_true, if_false] at h
    by_cases h2 : ciPrefix "inf".toList b = true
    · simp only [h2, if_true, Option.some.injEq, Prod.mk.injEq] at h
      have := ciPrefix_whole h2 (by rw [l3]; exact h.2)
      simp [this, ← h.1]
    · simp only [h2, Bool.false_eq_true, if_false] at h
      have hninf : (b.map Char.toLower == "inf".toList || b.map Char.toLower == "infinity".toList) = false := by
        apply Bool.eq_false_iff.2
        intro hc
        simp only [Bool.or_eq_true, beq_iff_eq] at hc
        rcases hc with hc | hc
        · exact h2 (ciPrefix_of_lower hc (by decide))
        · exact h2 (ciPrefix_of_lower hc (by decide))
      simp only [hninf, Bool.false_eq_true, if_false]
      by_cases h3 : ciPrefix "nan".toList b = true
      · simp only [h3, if_true, Option.some.injEq, Prod.mk.injEq] at h
        simp [nanWord_of_scan h3 h.2, ← h.1]
      · simp only [h3, Bool.false_eq_true, if_false] at h
        have hnn : isNanWord b = false := by
          unfold isNanWord
          unfold ciPrefix at h3
          have hlen3 : "nan".toList.length = 3 := by decide
          rw [hlen3] at h3
          rw [Bool.eq_false_iff.2 h3]
          rfl
        simp only [hnn, Bool.false_eq_true, if_false]
        cases hb : hexBody? b with
        | none =>
          simp only [hb] at h ⊢
          cases hm : scanMant Char.isDigit b with
          | none => simp [hm] at h
          | some tr =>
            obtain ⟨ip, fp, r⟩ := tr
            simp only [hm, Option.some.injEq, Prod.mk.injEq] at h
            have he : scanExp 'e' 'E' r = ((scanExp 'e' 'E' r).1, []) := by
              rw [← h.2]
            rw [decLiteral_of_scan hm he]
            simp [← h.1]
        | some t =>
          simp only [hb] at h ⊢
          obtain ⟨x, hbx, hx⟩ := hexBody_some hb
          cases hmh : scanMant isHexDigit t with
          | some tr =>
            obtain ⟨ip, fp, r⟩ := tr
            simp only [hmh, Option.some.injEq, Prod.mk.injEq] at h
            have he : scanExp 'p' 'P' r = ((scanExp 'p' 'P' r).1, []) := by
              rw [← h.2]
            rw [hexLiteral_of_scan hmh he]
            simp [← h.1]
          | none =>
            simp only [hmh] at h
            cases hm : scanMant Char.isDigit b with
            | none => simp [hm] at h
            | some tr =>
              obtain ⟨ip, fp, r⟩ := tr
              simp only [hm, Option.some.injEq, Prod.mk.injEq] at h
              have he : scanExp 'e' 'E' r = ((scanExp 'e' 'E' r).1, []) := by
                rw [← h.2]
              rw [hbx] at hm
              exact (dec_after_0x_not_whole hx hm he).elim

theorem whole_stoFloat {f : Fmt} {s : Str} {v : FVal} (h : whole (stoFloat f s) = .ok v) :
    floatIn f s = some v := by
  rw [whole_ok] at h
  unfold stoFloat at h
  cases hs : scanFloat s with
  | none => simp [hs] at h
  | some p =>
    obtain ⟨w, rest⟩ := p
    simp only [hs] at h
    unfold floatIn
    cases w with
    | fin neg m b e =>
      simp only at h
      cases hc : classify f m b e with
      | ok =>
        simp only [hc, Except.ok.injEq, Prod.mk.injEq] at h
        obtain ⟨h1, h2⟩ := h
        subst h2
        rw [scanFloat_whole hs]
        simp [hc, ← h1]
      | overflow => simp [hc] at h
      | underflow => simp [hc] at h
    | inf neg =>
      simp only [Except.ok.injEq, Prod.mk.injEq] at h
      obtain ⟨h1, h2⟩ := h
      subst h2
      rw [scanFloat_whole hs]
      simp [← h1]
    | nan =>
      simp only [Except.ok.injEq, Prod.mk.injEq] at h
      obtain ⟨h1, h2⟩ := h
      subst h2
      rw [scanFloat_whole hs]
      simp [← h1]


/-! ## exact arithmetic -/

theorem pow_gt_of_log2 {base n k : Nat} (hb : 2 ≤ base) (hk : k > Nat.log2 n + 1) : n < base ^ k := by
  have h1 : n < 2 ^ (Nat.log2 n + 1) := Nat.lt_log2_self
  have h2 : 2 ^ (Nat.log2 n + 1) ≤ 2 ^ k := Nat.pow_le_pow_right (by omega) (by omega)
  have h3 : 2 ^ k ≤ base ^ k := Nat.pow_le_pow_left hb k
  omega

/-- `floorBelow` is `exactFloor` cut at `cap` -/
theorem floorBelow_eq {cap m base : Nat} {e : Int} {u : Nat} (hb : 2 ≤ base) :
    floorBelow cap m base e u =
      if exactFloor m base e u < cap then some (exactFloor m base e u) else none := by
  unfold floorBelow exactFloor
  by_cases h0 : m * u = 0
  · simp only [h0, if_true, Nat.zero_mul, Nat.zero_div]
    by_cases he : e ≥ 0 <;> simp [he]
  · simp only [h0, if_false]
    have hpos : 1 ≤ m * u := Nat.one_le_iff_ne_zero.2 h0
    by_cases he : e ≥ 0
    · simp only [he, if_true]
      by_cases hk : e.toNat > Nat.log2 cap + 1
      · simp only [hk, if_true]
        have h1 : cap < base ^ e.toNat := pow_gt_of_log2 hb hk
        have h2 : base ^ e.toNat ≤ m * u * base ^ e.toNat := Nat.le_mul_of_pos_left _ hpos
        have : ¬ (m * u * base ^ e.toNat < cap) := by omega
        simp [this]
      · simp only [hk, if_false]
    · simp only [he, if_false]
      by_cases hk : (-e).toNat > Nat.log2 (m * u) + 1
      · simp only [hk, if_true]
        have h1 : m * u < base ^ (-e).toNat := pow_gt_of_log2 hb hk
        rw [Nat.div_eq_of_lt h1]
      · simp only [hk, if_false]

theorem floorBelow_mono {cap cap' m base : Nat} {e : Int} {u f : Nat} (hb : 2 ≤ base)
    (h : floorBelow cap m base e u = some f) (hc : cap ≤ cap') :
    floorBelow cap' m base e u = some f ∧ f < cap := by
  rw [floorBelow_eq hb] at h ⊢
  by_cases hlt : exactFloor m base e u < cap
  · simp only [hlt, if_true, Option.some.injEq] at h
    subst h
    have : exactFloor m base e u < cap' := by omega
    simp [this, hlt]
  · simp [hlt] at h

/-! ## sizes -/

theorem scanFloat_base {s : Str} {neg : Bool} {m b : Nat} {e : Int} {r : Str}
    (h : scanFloat s = some (.fin neg m b e, r)) : b = 10 ∨ b = 2 := by
  unfold scanFloat at h
  simp only at h
  split at h
  · simp at h
  · split at h
    · simp at h
    · split at h
      · simp at h
      · split at h
        · split at h
          · simp only [Option.some.injEq, Prod.mk.injEq, FVal.fin.injEq] at h
            exact Or.inr h.1.2.2.1.symm
          · split at h
            · simp at h
            · simp only [Option.some.injEq, Prod.mk.injEq, FVal.fin.injEq] at h
              exact Or.inl h.1.2.2.1.symm
        · split at h
          · simp at h
          · simp only [Option.some.injEq, Prod.mk.injEq, FVal.fin.injEq] at h
            exact Or.inl h.1.2.2.1.symm

/-- `stold` accepted the whole of `num` with a finite value -/
theorem stold_whole {num : Str} {neg : Bool} {m b : Nat} {e : Int}
    (h : stold num = .ok (.fin neg m b e, [])) :
    floatNumeral? num = some (.fin neg m b e) ∧ 2 ≤ b := by
  unfold stold stoFloat at h
  cases hs : scanFloat num with
  | none => simp [hs] at h
  | some p =>
    obtain ⟨w, rest⟩ := p
    simp only [hs] at h
    cases w with
    | fin neg' m' b' e' =>
      simp only at h
      cases hc : classify x87ext m' b' e' with
      | ok =>
        simp only [hc, Except.ok.injEq, Prod.mk.injEq] at h
        obtain ⟨h1, h2⟩ := h
        subst h2
        rw [h1] at hs
        refine ⟨scanFloat_whole hs, ?_⟩
        rcases scanFloat_base hs with hb | hb <;> omega
      | overflow => simp [hc] at h
      | underflow => simp [hc] at h
    | inf n => simp at h
    | nan => simp at h

theorem splitAfter_step (p : Char → Bool) : ∀ (s : Str), s ≠ [] →
    splitAfter p s =
      match s.dropWhile (fun c => !p c) with
      | [] => [s]
      | u :: t => (s.takeWhile (fun c => !p c) ++ [u]) :: splitAfter p t := by
  intro s
  induction s with
  | nil => intro h; exact absurd rfl h
  | cons c cs ih =>
    intro _
    by_cases hp : p c = true
    · simp [splitAfter, hp]
    · have hp' : p c = false := by simpa using hp
      simp only [splitAfter, hp', Bool.false_eq_true, if_false, Bool.not_false,
        List.dropWhile_cons_of_pos, List.takeWhile_cons_of_pos]
      cases hcs : cs with
      | nil => simp [splitAfter]
      | cons d ds =>
        have := ih (by rw [hcs]; simp)
        rw [hcs] at this
        rw [this]
        cases hd : (d :: ds).dropWhile (fun c => !p c) with
        | nil => simp
        | cons u t => simp

theorem splitAfter_ne_nil (p : Char → Bool) {s : Str} (h : s ≠ []) : splitAfter p s ≠ [] := by
  rw [splitAfter_step p s h]
  cases s.dropWhile (fun c => !p c) <;> simp

/-- bytes of a term from the reading of its number and the unit's multiplier -/
def termOf (o : Option FVal) (mult : Nat) : Option Nat :=
  match o with
  | some (.fin neg m b e) => if neg && m != 0 then none else floorBelow (2 ^ 63) m b e mult
  | _ => none

theorem termBytes_unit {num : Str} {u : Char} (hu : isUnitCh u = true) :
    termBytes (num ++ [u]) = termOf (floatNumeral? num) (unitMult u) := by
  unfold termBytes termOf
  simp only [List.getLast?_concat, hu, if_true, List.dropLast_concat]
  cases floatNumeral? num with
  | none => rfl
  | some v => cases v <;> rfl

theorem termBytes_nounit {num : Str} (hn : ∀ c ∈ num, isUnitCh c = false) :
    termBytes num = termOf (floatNumeral? num) 1 := by
  unfold termBytes termOf
  cases hl : num.getLast? with
  | none =>
    simp only
    cases floatNumeral? num with
    | none => rfl
    | some v => cases v <;> rfl
  | some c =>
    have hc : c ∈ num := List.mem_of_getLast? hl
    simp only [hn c hc, Bool.false_eq_true, if_false]
    cases floatNumeral? num with
    | none => rfl
    | some v => cases v <;> rfl

theorem sizeLoop_sound : ∀ (fuel : Nat) (s : Str) (size sz : Nat), size < 2 ^ 63 →
    sizeLoop fuel s size = some sz →
    ∃ total, sumTerms (splitAfter isUnitCh s) = some total ∧ sz = size + total ∧ sz < 2 ^ 63 := by
  intro fuel
  induction fuel with
  | zero => intro s size sz _ h; simp [sizeLoop] at h
  | succ n ih =>
    intro s size sz hsize h
    unfold sizeLoop at h
    by_cases hs : s.isEmpty = true
    · simp only [hs, if_true, Option.some.injEq] at h
      rw [isEmpty_eq_true.1 hs]
      exact ⟨0, by simp [splitAfter, sumTerms], by omega, by omega⟩
    · simp only [hs, Bool.false_eq_true, if_false] at h
      have hsne : s ≠ [] := fun hc => hs (by simp [hc])
      by_cases hnum : (s.takeWhile (fun c => !isUnitCh c)).isEmpty = true
      · simp [hnum] at h
      · simp only [hnum, Bool.false_eq_true, if_false] at h
        have hnumne : s.takeWhile (fun c => !isUnitCh c) ≠ [] := fun hc => hnum (by simp [hc])
        cases hst : stold (s.takeWhile (fun c => !isUnitCh c)) with
        | error err => simp [hst] at h
        | ok pr =>
          obtain ⟨v, rest⟩ := pr
          cases v with
          | inf ng => simp [hst] at h
          | nan => simp [hst] at h
          | fin neg m b e =>
            simp only [hst] at h
            by_cases hrest : (!rest.isEmpty) = true
            · simp [hrest] at h
            · simp only [hrest, Bool.false_eq_true, if_false] at h
              have hr : rest = [] := by
                cases rest with
                | nil => rfl
                | cons c cs => simp at hrest
              subst hr
              by_cases hneg : (neg && m != 0) = true
              · simp [hneg] at h
              · simp only [hneg, Bool.false_eq_true, if_false] at h
                obtain ⟨hnumeral, hb⟩ := stold_whole hst
                have hsplit := splitAfter_step isUnitCh s hsne
                cases htail : s.dropWhile (fun c => !isUnitCh c) with
                | nil =>
                  rw [htail] at h hsplit
                  simp only [List.drop_nil] at h
                  cases hf : floorBelow (2 ^ 63 - size) m b e 1 with
                  | none => simp [hf] at h
                  | some f =>
                    simp only [hf] at h
                    obtain ⟨hf63, hflt⟩ := floorBelow_mono hb hf (Nat.sub_le _ _)
                    obtain ⟨total, ht1, ht2, ht3⟩ := ih [] (size + f) sz (by omega) h
                    simp only [splitAfter, sumTerms, Option.some.injEq] at ht1
                    have hall := (dropWhile_nil htail).1
                    have hn : ∀ c ∈ s, isUnitCh c = false := by
                      intro c hc
                      have := all_mem (dropWhile_nil htail).2 c hc
                      simpa using this
                    rw [hall] at hnumeral
                    refine ⟨f, ?_, by omega, by omega⟩
                    rw [hsplit]
                    simp only [sumTerms, termBytes_nounit hn, hnumeral, termOf, hneg, Bool.false_eq_true, if_false, hf63]
                    simp
                | cons u t =>
                  rw [htail] at h hsplit
                  simp only [List.drop_succ_cons, List.drop_zero] at h
                  have hu : isUnitCh u = true := by
                    have := List.head?_dropWhile_not (fun c => !isUnitCh c) s
                    rw [htail] at this
                    simpa using this
                  cases hf : floorBelow (2 ^ 63 - size) m b e (unitMult u) with
                  | none => simp [hf] at h
                  | some f =>
                    simp only [hf] at h
                    obtain ⟨hf63, hflt⟩ := floorBelow_mono hb hf (Nat.sub_le _ _)
                    obtain ⟨total, ht1, ht2, ht3⟩ := ih t (size + f) sz (by omega) h
                    refine ⟨f + total, ?_, by omega, ht3⟩
                    rw [hsplit]
                    simp only [sumTerms, termBytes_unit hu, hnumeral, termOf, hneg, Bool.false_eq_true, if_false, hf63, ht1]

/-- `Util::parseSize` (fixed): whatever it accepts is a valid size with exactly that value -/
theorem parseSize_sound {s : Str} {v : Int} (h : parseSize s = some v) : validSize s = some v := by
  unfold parseSize at h
  unfold validSize
  simp only at h ⊢
  generalize takeSign (List.filter (fun c => !isSpace c) (List.map Char.toLower s)) = st at h ⊢
  by_cases hb : st.2.isEmpty = true
  · simp [hb] at h
  · simp only [hb, Bool.false_eq_true, if_false] at h
    have hne : st.2 ≠ [] := fun hc => hb (by simp [hc])
    cases hl : sizeLoop (st.2.length + 1) st.2 0 with
    | none => simp [hl] at h
    | some sz =>
      simp only [hl, Option.some.injEq] at h
      obtain ⟨total, h1, h2, h3⟩ := sizeLoop_sound _ _ 0 sz (by decide) hl
      have hpne : (splitAfter isUnitCh st.2).isEmpty = false := by
        rw [isEmpty_eq_false]; exact splitAfter_ne_nil _ hne
      have htot : total = sz := by omega
      subst htot
      simp [hpne, h1, h3, h]


/-! ## size-or-percent -/

theorem wrap64_id {v : Int} (h0 : 0 ≤ v) (h1 : v < 2 ^ 63) : wrap64 v = v := by
  unfold wrap64
  rw [Int.emod_eq_of_lt (by omega) (by omega)]
  omega

/-- the total a percentage refers to: non-negative and small enough for `total * 100` in int64 -/
def TotalOk (total : Int) : Prop := 0 ≤ total ∧ total * 100 < 2 ^ 63

theorem parseSizeOrPercent_sound {s : Str} {total v : Int} (ht : TotalOk total)
    (h : parseSizeOrPercent s total = some v) : validSizeOrPercent s total = some v := by
  unfold parseSizeOrPercent at h
  unfold validSizeOrPercent
  by_cases hp : s.getLast? = some '%'
  · simp only [hp, if_true] at h ⊢
    cases hst : stoi s.dropLast with
    | error e => simp [hst] at h
    | ok pr =>
      obtain ⟨pct, rest⟩ := pr
      simp only [hst] at h
      by_cases hc : (!rest.isEmpty) = true ∨ pct < 0 ∨ pct > 100
      · rw [if_pos hc] at h; exact absurd h (by simp)
      · rw [if_neg hc] at h
        simp only [Option.some.injEq] at h
        have hrest : rest = [] := by
          cases rest with
          | nil => rfl
          | cons c cs => exact absurd (Or.inl rfl) hc
        subst hrest
        have h0 : 0 ≤ pct := by omega
        have h100 : pct ≤ 100 := by omega
        obtain ⟨r, h1, h2, h3, _, _⟩ := (stoSigned_ok (bits := 32)).1 hst
        rw [scanInt_whole h1 h3.symm, ← h2]
        have hir : inRange 0 101 (some pct) = some pct := by
          unfold inRange
          have : 0 ≤ pct ∧ pct < 101 := ⟨h0, by omega⟩
          simp [this]
        rw [hir]
        simp only [Option.some.injEq]
        have hprod0 : 0 ≤ total * pct := Int.mul_nonneg ht.1 h0
        have hprod1 : total * pct < 2 ^ 63 := by
          have : total * pct ≤ total * 100 := Int.mul_le_mul_of_nonneg_left h100 ht.1
          have := ht.2
          omega
        rw [wrap64_id hprod0 hprod1, Int.tdiv_eq_ediv_of_nonneg hprod0] at h
        exact h
  · simp only [hp, if_false] at h ⊢
    cases hst : stoll s with
    | error e => simp [hst] at h
    | ok pr =>
      obtain ⟨mb, rest⟩ := pr
      simp only [hst] at h
      obtain ⟨r, h1, h2, h3, _, _⟩ := (stoSigned_ok (bits := 64)).1 hst
      by_cases hr : rest.isEmpty = true
      · simp only [hr, if_true] at h
        have hrest : rest = [] := isEmpty_eq_true.1 hr
        subst hrest
        rw [scanInt_whole h1 h3.symm, ← h2]
        by_cases hc : mb > 2 ^ 43 - 1 ∨ mb < -(2 ^ 43)
        · rw [if_pos hc] at h; exact absurd h (by simp)
        · rw [if_neg hc] at h
          simp only [Option.some.injEq] at h
          subst h
          simp only [inRange]
          have : -(2 : Int) ^ 63 ≤ mb * 2 ^ 20 ∧ mb * 2 ^ 20 < 2 ^ 63 := by omega
          rw [if_pos this]
      · simp only [hr, Bool.false_eq_true, if_false] at h
        have hnone : intNumeral? s = none := by
          cases hn : intNumeral? s with
          | none => rfl
          | some x =>
            obtain ⟨r', h1', h2', _⟩ := intNumeral_scan hn
            rw [h1] at h1'
            simp only [Option.some.injEq] at h1'
            subst h1'
            rw [h2'] at h3
            exact absurd (by simp [h3]) hr
        simp only [hnone]
        exact parseSize_sound h

/-! ## every argument kind: what the parser accepts is a valid reading with that value -/

theorem inRange_some {lo hi : Int} {o : Option Int} {v : Int} (h : inRange lo hi o = some v) :
    o = some v ∧ lo ≤ v ∧ v < hi := by
  unfold inRange at h
  cases o with
  | none => simp at h
  | some x =>
    simp only at h
    by_cases hx : lo ≤ x ∧ x < hi
    · rw [if_pos hx] at h
      simp only [Option.some.injEq] at h
      subst h
      exact ⟨rfl, hx⟩
    · rw [if_neg hx] at h; exact absurd h (by simp)

theorem except_map_ok {α β : Type} {f : α → β} {r : Except StoErr α} {v : β}
    (h : r.map f = .ok v) : ∃ a, r = .ok a ∧ v = f a := by
  cases r with
  | error e => simp [Except.map] at h
  | ok a => simp only [Except.map, Except.ok.injEq] at h; exact ⟨a, rfl, h.symm⟩

theorem parseArg_sound {k : OomdModel.Generated.ArgKind} {fs : Str} {total : Int} {s : Str} {v : Val}
    (ht : TotalOk total) (h : parseArg k fs total s = .ok v) : validReading k fs total s = some v := by
  cases k with
  | int =>
    simp only [parseArg] at h
    obtain ⟨a, h1, h2⟩ := except_map_ok h
    have := (whole_stoSigned 32 s a).1 h1
    simp only [validReading]
    simp only [show (32 - 1 : Nat) = 31 from rfl] at this
    rw [this, h2]; rfl
  | int64 =>
    simp only [parseArg] at h
    obtain ⟨a, h1, h2⟩ := except_map_ok h
    have := (whole_stoSigned 64 s a).1 h1
    simp only [validReading]
    simp only [show (64 - 1 : Nat) = 63 from rfl] at this
    rw [this, h2]; rfl
  | ms =>
    simp only [parseArg] at h
    obtain ⟨a, h1, h2⟩ := except_map_ok h
    have := (whole_stoSigned 64 s a).1 h1
    simp only [validReading]
    simp only [show (64 - 1 : Nat) = 63 from rfl] at this
    rw [this, h2]; rfl
  | double =>
    simp only [parseArg] at h
    obtain ⟨a, h1, h2⟩ := except_map_ok h
    simp only [validReading, whole_stoFloat h1, h2]; rfl
  | float =>
    simp only [parseArg] at h
    obtain ⟨a, h1, h2⟩ := except_map_ok h
    simp only [validReading, whole_stoFloat h1, h2]; rfl
  | bool =>
    simp only [parseArg] at h
    simp only [validReading]
    by_cases h1 : (s == "true".toList || s == "True".toList || s == "1".toList) = true
    · rw [if_pos h1] at h ⊢
      simp only [Except.ok.injEq] at h
      rw [h]
    · rw [if_neg h1] at h ⊢
      by_cases h2 : (s == "false".toList || s == "False".toList || s == "0".toList) = true
      · rw [if_pos h2] at h ⊢
        simp only [Except.ok.injEq] at h
        rw [h]
      · rw [if_neg h2] at h; exact absurd h (by simp)
  | string =>
    simp only [parseArg, Except.ok.injEq] at h
    simp [validReading, h]
  | resource =>
    simp only [parseArg] at h
    simp only [validReading]
    by_cases h1 : (s == "io".toList) = true
    · rw [if_pos h1] at h ⊢
      simp only [Except.ok.injEq] at h
      rw [h]
    · rw [if_neg h1] at h ⊢
      by_cases h2 : (s == "memory".toList) = true
      · rw [if_pos h2] at h ⊢
        simp only [Except.ok.injEq] at h
        rw [h]
      · rw [if_neg h2] at h; exact absurd h (by simp)
  | cgroup =>
    simp only [parseArg, Except.ok.injEq] at h
    simp [validReading, parseCgroup, ← h]
  | uint =>
    simp only [parseArg] at h
    obtain ⟨a, h1, h2⟩ := except_map_ok h
    unfold parseUnsignedInt at h1
    cases hw : whole (stoi s) with
    | error e => simp [hw] at h1
    | ok x =>
      simp only [hw] at h1
      by_cases hx : x < 0
      · rw [if_pos hx] at h1; exact absurd h1 (by simp)
      · rw [if_neg hx] at h1
        simp only [Except.ok.injEq] at h1
        subst h1
        have := (whole_stoSigned 32 s x).1 hw
        simp only [show (32 - 1 : Nat) = 31 from rfl] at this
        obtain ⟨hn, hy⟩ := inRange_some this
        simp only [validReading, hn, inRange]
        have : (0 : Int) ≤ x ∧ x < 2 ^ 31 := ⟨by omega, hy.2⟩
        rw [if_pos this, h2]; rfl
  | sizepct =>
    simp only [parseArg] at h
    cases hp : parseSizeOrPercent s total with
    | none => simp [hp] at h
    | some x =>
      simp only [hp, Except.ok.injEq] at h
      simp [validReading, parseSizeOrPercent_sound ht hp, h]
  | pct100 =>
    simp only [parseArg] at h
    cases hw : whole (stoi s) with
    | error e => simp [hw] at h
    | ok x =>
      simp only [hw] at h
      by_cases hx : x < 0 ∨ x ≥ 100
      · rw [if_pos hx] at h; exact absurd h (by simp)
      · rw [if_neg hx] at h
        simp only [Except.ok.injEq] at h
        have := (whole_stoSigned 32 s x).1 hw
        simp only [show (32 - 1 : Nat) = 31 from rfl] at this
        obtain ⟨hn, hy⟩ := inRange_some this
        simp only [validReading, hn, inRange]
        have : (0 : Int) ≤ x ∧ x < 100 := by omega
        rw [if_pos this, ← h]; rfl
  | nonempty =>
    simp only [parseArg] at h
    simp only [validReading]
    by_cases he : s.isEmpty = true
    · rw [if_pos he] at h; exact absurd h (by simp)
    · rw [if_neg he] at h ⊢
      simp only [Except.ok.injEq] at h
      rw [h]
  | unknown => simp [parseArg] at h

end OomdProofs.Parse

import OomdModel.Kill

/-! Helper definitions and lemmas about the shared kill model (`OomdModel.Kill`):
the recursive specification of victim order (`attempts`, `plan`, `tryEach`), the refinement of the
explicit-stack loop to it, and invariants of the per-attempt event sequences. -/

namespace OomdModel.Kill

/-! ## the event/answer monad -/

@[simp] theorem pure_apply {α} (a : α) (env : Env) : (pure a : M α) env = ⟨[], env, a⟩ := rfl

@[simp] theorem bind_apply {α β} (m : M α) (f : α → M β) (env : Env) :
    (m >>= f) env = ⟨(m env).evs ++ (f (m env).val (m env).env).evs,
                     (f (m env).val (m env).env).env, (f (m env).val (m env).env).val⟩ := rfl

@[simp] theorem emit_apply (e : Ev) (env : Env) : emit e env = ⟨[e], env, ()⟩ := rfl

@[simp] theorem nextProcs_evs (env : Env) : (nextProcs env).evs = [] := by
  unfold nextProcs; split <;> rfl
@[simp] theorem nextKillRc_evs (env : Env) : (nextKillRc env).evs = [] := by
  unfold nextKillRc; split <;> rfl
@[simp] theorem nextXattr_evs (env : Env) : (nextXattr env).evs = [] := by
  unfold nextXattr; split <;> rfl
@[simp] theorem nextWrite_evs (env : Env) : (nextWrite env).evs = [] := by
  unfold nextWrite; split <;> rfl
@[simp] theorem nextPidfd_evs (env : Env) : (nextPidfd env).evs = [] := by
  unfold nextPidfd; split <;> rfl
@[simp] theorem nextMrelease_evs (env : Env) : (nextMrelease env).evs = [] := by
  unfold nextMrelease; split <;> rfl
@[simp] theorem nextEvents_evs (s : Option Bool) (env : Env) : (nextEvents s env).evs = [] := by
  unfold nextEvents; split <;> rfl

/-! ## sizes -/

theorem vsize_pos (v : View) : 0 < vsize v := by
  cases v; simp only [vsize]; omega

theorem vsize_eq (v : View) : vsize v = 1 + fsize v.children := by
  cases v; simp [vsize, View.children]

theorem fsize_append (a b : List View) : fsize (a ++ b) = fsize a + fsize b := by
  induction a with
  | nil => simp [fsize]
  | cons x xs ih => simp [fsize, ih]; omega

theorem fsize_mem {l : List View} {x : View} (h : x ∈ l) : vsize x ≤ fsize l := by
  induction l with
  | nil => cases h
  | cons y ys ih =>
    simp only [fsize]
    cases h with
    | head => omega
    | tail _ h' => have := ih h'; omega

theorem vsize_child {v c : View} (h : c ∈ v.children) : vsize c < vsize v := by
  have := fsize_mem h
  rw [vsize_eq v]; omega

theorem fsize_perm {a b : List View} (h : a.Perm b) : fsize a = fsize b := by
  induction h with
  | nil => rfl
  | cons x _ ih => simp [fsize, ih]
  | swap x y l => simp [fsize]; omega
  | trans _ _ ih1 ih2 => omega

theorem fsize_sublist {a b : List View} (h : a.Sublist b) : fsize a ≤ fsize b := by
  induction h with
  | slnil => simp
  | cons x _ ih => simp [fsize]; omega
  | cons_cons x _ ih => simp [fsize]; omega

/-! ## ranking -/

/-- the sort key of `sortDescWithKillPrefs`: (kill preference, plugin key), compared lexicographically -/
def rkLe (a b : View) : Prop :=
  a.pref.toInt < b.pref.toInt ∨ (a.pref.toInt = b.pref.toInt ∧ a.info.key ≤ b.info.key)

/-- What `rankForKilling` guarantees (C09 discharges it for the five plugins): the result is a
    rearrangement of some of the inputs (`Util::filter` then `std::sort`), in non-increasing (preference, key)
    order.  Nothing is said about ties: `std::sort` is unstable and the roots come out of an `unordered_set`. -/
def RankOK (rank : List View → List View) : Prop :=
  ∀ l, (∃ l', l'.Sublist l ∧ (rank l).Perm l') ∧ (rank l).Pairwise (fun a b => rkLe b a)

theorem RankOK.sub {rank} (h : RankOK rank) : ∀ l x, x ∈ rank l → x ∈ l := by
  intro l x hx
  obtain ⟨⟨l', hs, hp⟩, _⟩ := h l
  exact hs.subset (hp.subset hx)

theorem RankOK.size {rank} (h : RankOK rank) : ∀ l, fsize (rank l) ≤ fsize l := by
  intro l
  obtain ⟨⟨l', hs, hp⟩, _⟩ := h l
  rw [fsize_perm hp]; exact fsize_sublist hs

/-! ## recursive specification of the victim order -/

/-- the kill attempts below candidate `v`, in order, if every attempt fails -/
def attempts (cfg : KillCfg) (rank : List View → List View) (hsub : ∀ l x, x ∈ rank l → x ∈ l) (v : View) : List View :=
  if descends cfg v then
    (rank v.children).attach.flatMap (fun x => attempts cfg rank hsub x.1)
  else if v.info.populated.getD true then [v] else []
termination_by vsize v
decreasing_by exact vsize_child (hsub _ _ x.2)

theorem attempts_unfold (cfg : KillCfg) (rank : List View → List View) (hsub : ∀ l x, x ∈ rank l → x ∈ l) (v : View) :
    attempts cfg rank hsub v =
      if descends cfg v then (rank v.children).flatMap (attempts cfg rank hsub)
      else if v.info.populated.getD true then [v] else [] := by
  rw [attempts]
  split
  · rw [List.flatMap_subtype (g := attempts cfg rank hsub) (fun _ _ => rfl), List.unattach_attach]
  · rfl

/-- all attempts of one invocation if every attempt fails -/
def plan (cfg : KillCfg) (rank : List View → List View) (hsub : ∀ l x, x ∈ rank l → x ∈ l)
    (roots : List View) : List View :=
  (rank roots).flatMap (attempts cfg rank hsub)

/-- try the candidates in order, stop at the first success; `k` numbers the attempts -/
def tryEach (f : View → Nat → M Bool) : List View → Nat → M Bool
  | [], _ => pure false
  | v :: vs, k => do
    let ok ← f v k
    if ok then pure true else tryEach f vs (k + 1)

/-- The explicit-stack loop of `resumeTryingToKillSomething` is, as a computation (same events, same answers
    consumed, same result), "try the recursive plan in order until the first success". -/
theorem loop_eq_tryEach (cfg : KillCfg) (rank : List View → List View)
    (hsub : ∀ l x, x ∈ rank l → x ∈ l) (hsize : ∀ l, fsize (rank l) ≤ fsize l) :
    ∀ (n : Nat) (stack : List View) (k : Nat), fsize stack < n →
      loop cfg rank n stack k = tryEach (tryToLogAndKill cfg) (stack.flatMap (attempts cfg rank hsub)) k := by
  intro n
  induction n with
  | zero => intro stack k h; omega
  | succ n ih =>
    intro stack k h
    cases stack with
    | nil => simp [loop, tryEach]
    | cons v st =>
      simp only [loop, List.flatMap_cons]
      rw [attempts_unfold]
      have hv := vsize_eq v
      simp only [fsize] at h
      by_cases hd : descends cfg v
      · simp only [hd, if_true]
        have : fsize (rank v.children ++ st) < n := by
          rw [fsize_append]; have := hsize v.children; omega
        rw [ih _ k this, List.flatMap_append]
      · simp only [hd, if_false, Bool.false_eq_true]
        have hst : fsize st < n := by omega
        cases hp : v.info.populated.getD true with
        | false => simp [ih _ k hst]
        | true =>
          simp only [Bool.not_true, Bool.false_eq_true, if_false, if_true, List.cons_append, List.nil_append, tryEach]
          rw [ih _ (k + 1) hst]

/-! ## the attempts of one invocation as segments of the event sequence -/

/-- the attempts actually made (victim, what the attempt emitted / consumed / returned), in order -/
def segments (f : View → Nat → M Bool) : List View → Nat → Env → List (View × R Bool)
  | [], _, _ => []
  | v :: vs, k, env =>
    let r := f v k env
    (v, r) :: (if r.val then [] else segments f vs (k + 1) r.env)

theorem tryEach_evs (f : View → Nat → M Bool) : ∀ (l : List View) (k : Nat) (env : Env),
    (tryEach f l k env).evs = (segments f l k env).flatMap (fun s => s.2.evs) := by
  intro l
  induction l with
  | nil => intro k env; simp [tryEach, segments]
  | cons v vs ih =>
    intro k env
    simp only [tryEach, segments, bind_apply, List.flatMap_cons]
    cases h : (f v k env).val with
    | true => simp
    | false => simp [ih]

theorem tryEach_val (f : View → Nat → M Bool) : ∀ (l : List View) (k : Nat) (env : Env),
    (tryEach f l k env).val = (segments f l k env).any (fun s => s.2.val) := by
  intro l
  induction l with
  | nil => intro k env; simp [tryEach, segments]
  | cons v vs ih =>
    intro k env
    simp only [tryEach, segments, bind_apply, List.any_cons]
    cases h : (f v k env).val with
    | true => simp
    | false => simp [ih]

theorem segments_prefix (f : View → Nat → M Bool) : ∀ (l : List View) (k : Nat) (env : Env),
    (segments f l k env).map (·.1) <+: l := by
  intro l
  induction l with
  | nil => intro k env; simp [segments]
  | cons v vs ih =>
    intro k env
    simp only [segments, List.map_cons]
    split
    · simp [List.prefix_iff_eq_append]
    · exact (List.prefix_cons_inj v).2 (ih _ _)

/-- every attempt but the last one failed -/
theorem segments_init_fail (f : View → Nat → M Bool) : ∀ (l : List View) (k : Nat) (env : Env),
    ∀ s ∈ (segments f l k env).dropLast, s.2.val = false := by
  intro l
  induction l with
  | nil => intro k env s hs; simp [segments] at hs
  | cons v vs ih =>
    intro k env s hs
    simp only [segments] at hs
    cases h : (f v k env).val with
    | true => simp [h] at hs
    | false =>
      simp only [h, Bool.false_eq_true, if_false] at hs
      cases hseg : segments f vs (k + 1) (f v k env).env with
      | nil => simp [hseg] at hs
      | cons a as =>
        rw [hseg, List.dropLast_cons_of_ne_nil (by simp)] at hs
        cases hs with
        | head => exact h
        | tail _ h' => exact ih (k + 1) _ s (by rw [hseg]; exact h')

/-- if no attempt succeeded, every candidate was attempted -/
theorem segments_exhaust (f : View → Nat → M Bool) : ∀ (l : List View) (k : Nat) (env : Env),
    (tryEach f l k env).val = false → (segments f l k env).map (·.1) = l := by
  intro l
  induction l with
  | nil => intro k env _; simp [segments]
  | cons v vs ih =>
    intro k env h
    simp only [tryEach, bind_apply] at h
    simp only [segments, List.map_cons]
    cases hv : (f v k env).val with
    | true => simp [hv] at h
    | false =>
      simp only [hv, Bool.false_eq_true, if_false] at h ⊢
      rw [ih _ _ h]

/-- the k-th segment is the k-th call (attempt numbers are consecutive) -/
theorem segments_numbered (f : View → Nat → M Bool) : ∀ (l : List View) (k : Nat) (env : Env) (i : Nat)
    (s : View × R Bool), (segments f l k env)[i]? = some s → ∃ env', s.2 = f s.1 (k + i) env' := by
  intro l
  induction l with
  | nil => intro k env i s h; simp [segments] at h
  | cons v vs ih =>
    intro k env i s h
    simp only [segments] at h
    cases i with
    | zero =>
      simp at h; subst h; exact ⟨env, rfl⟩
    | succ i =>
      simp only [List.getElem?_cons_succ] at h
      split at h
      · simp at h
      · obtain ⟨env', he⟩ := ih (k + 1) _ i s h
        exact ⟨env', by rw [he]; congr 1; omega⟩

/-! ## where the loop can arrive -/

/-- `Descent cfg a p x`: from candidate `a` the loop arrives at candidate `x` by descending, one level at a
    time, through the cgroups `p` (outermost first); each of them is descended into, i.e. `recursive` is set,
    its memory.oom.group is not 1 and it has children. -/
inductive Descent (cfg : KillCfg) : View → List View → View → Prop
  | here (a : View) : Descent cfg a [] a
  | down {a c : View} {p : List View} {x : View} :
      descends cfg a = true → c ∈ a.children → Descent cfg c p x → Descent cfg a (a :: p) x

theorem attempts_descent (cfg : KillCfg) (rank : List View → List View) (hsub : ∀ l x, x ∈ rank l → x ∈ l) :
    ∀ (n : Nat) (v : View), vsize v ≤ n → ∀ x ∈ attempts cfg rank hsub v,
      (∃ p, Descent cfg v p x) ∧ descends cfg x = false ∧ x.info.populated.getD true = true := by
  intro n
  induction n with
  | zero => intro v h; have := vsize_pos v; omega
  | succ n ih =>
    intro v hv x hx
    rw [attempts_unfold] at hx
    by_cases hd : descends cfg v
    · simp only [hd, if_true, List.mem_flatMap] at hx
      obtain ⟨c, hc, hxc⟩ := hx
      have hcc := hsub _ _ hc
      have := vsize_child hcc
      obtain ⟨⟨p, hp⟩, h2, h3⟩ := ih c (by omega) x hxc
      exact ⟨⟨v :: p, Descent.down hd hcc hp⟩, h2, h3⟩
    · simp only [hd, if_false, Bool.false_eq_true] at hx
      split at hx
      · rename_i hpop
        simp at hx; subst hx
        exact ⟨⟨[], Descent.here _⟩, by simpa using hd, hpop⟩
      · simp at hx

theorem descent_path_descends {cfg : KillCfg} {a x : View} {p : List View} (h : Descent cfg a p x) :
    ∀ b ∈ p, descends cfg b = true := by
  induction h with
  | here => intro b hb; cases hb
  | down hd _ _ ih =>
    intro b hb
    cases hb with
    | head => exact hd
    | tail _ h' => exact ih b h'

/-! ## a concrete ranking that satisfies `RankOK` (insertion sort after a filter) -/

instance (a b : View) : Decidable (rkLe a b) := by unfold rkLe; exact inferInstance

theorem rkLe_total (a b : View) : rkLe a b ∨ rkLe b a := by
  unfold rkLe; omega

theorem rkLe_trans {a b c : View} (h1 : rkLe a b) (h2 : rkLe b c) : rkLe a c := by
  unfold rkLe at *; omega

/-- insert keeping non-increasing order -/
def insertDesc (x : View) : List View → List View
  | [] => [x]
  | y :: ys => if rkLe y x then x :: y :: ys else y :: insertDesc x ys

def sortDesc : List View → List View
  | [] => []
  | x :: xs => insertDesc x (sortDesc xs)

theorem insertDesc_perm (x : View) (l : List View) : (insertDesc x l).Perm (x :: l) := by
  induction l with
  | nil => simp [insertDesc]
  | cons y ys ih =>
    simp only [insertDesc]
    split
    · exact List.Perm.refl _
    · exact (List.Perm.cons y ih).trans (List.Perm.swap x y ys)

theorem sortDesc_perm (l : List View) : (sortDesc l).Perm l := by
  induction l with
  | nil => simp [sortDesc]
  | cons x xs ih => exact (insertDesc_perm x _).trans (List.Perm.cons x ih)

theorem insertDesc_sorted (x : View) (l : List View) (h : l.Pairwise (fun a b => rkLe b a)) :
    (insertDesc x l).Pairwise (fun a b => rkLe b a) := by
  induction l with
  | nil => simp [insertDesc]
  | cons y ys ih =>
    simp only [insertDesc]
    rw [List.pairwise_cons] at h
    split
    · rename_i hyx
      refine List.Pairwise.cons ?_ (List.Pairwise.cons h.1 h.2)
      intro z hz
      cases hz with
      | head => exact hyx
      | tail _ hz' => exact rkLe_trans (h.1 z hz') hyx
    · rename_i hyx
      have hxy : rkLe x y := (rkLe_total y x).resolve_left hyx
      refine List.Pairwise.cons ?_ (ih h.2)
      intro z hz
      have := (insertDesc_perm x ys).subset hz
      cases this with
      | head => exact hxy
      | tail _ hz' => exact h.1 z hz'

theorem sortDesc_sorted (l : List View) : (sortDesc l).Pairwise (fun a b => rkLe b a) := by
  induction l with
  | nil => simp [sortDesc]
  | cons x xs ih => exact insertDesc_sorted x _ ih

/-- `Util::filter` + `sortDescWithKillPrefs` with any filter satisfies `RankOK` -/
theorem rankOK_filter_sort (p : View → Bool) : RankOK (fun l => sortDesc (l.filter p)) := by
  intro l
  exact ⟨⟨l.filter p, List.filter_sublist, sortDesc_perm _⟩, sortDesc_sorted _⟩

/-! ## what one attempt puts on the boundary -/

/-- events an attempt on the victim with id `vid` and subtree ids `ids` may emit -/
def EvOK (vid : Nat) (ids : List Nat) : Ev → Prop
  | .setxattr cg _ _ _ _ => cg = vid
  | .write cg _ _ => cg = vid
  | .procs cg _ => cg ∈ ids
  | .kmsg cg _ => cg = vid
  | .kill p _ => 0 < p
  | .pidfdOpen _ _ => True
  | .mrelease _ _ => True
  | .statKills => True
  | .pause _ => False
  | .dbus _ _ => False
  | .kmsgRestart _ => False
  | .statRestarts => False

/-- every SIGKILL goes to a pid of the most recent cgroup.procs read (`cur`) -/
def KillsListed : Option (List Int) → List Ev → Prop
  | _, [] => True
  | cur, e :: r =>
    match e with
    | .procs _ a => KillsListed a r
    | .kill p _ => (∃ ps, cur = some ps ∧ p ∈ ps) ∧ KillsListed cur r
    | _ => KillsListed cur r

/-- an event sequence in which every SIGKILL is preceded, inside the sequence, by the read that lists its pid -/
def Fresh (evs : List Ev) : Prop := ∀ cur, KillsListed cur evs

def isKill : Ev → Bool
  | .kill _ _ => true
  | _ => false

def isProcs : Ev → Bool
  | .procs _ _ => true
  | _ => false

theorem killsListed_of_quiet : ∀ (evs : List Ev) (cur : Option (List Int)),
    (∀ e ∈ evs, isKill e = false ∧ isProcs e = false) → KillsListed cur evs := by
  intro evs
  induction evs with
  | nil => intro cur _; simp [KillsListed]
  | cons e r ih =>
    intro cur h
    have he := h e (by simp)
    have hr := ih cur (fun x hx => h x (by simp [hx]))
    cases e <;> simp_all [KillsListed, isKill, isProcs]

theorem fresh_of_quiet (evs : List Ev) (h : ∀ e ∈ evs, isKill e = false ∧ isProcs e = false) : Fresh evs :=
  fun cur => killsListed_of_quiet evs cur h

theorem killsListed_append : ∀ (a b : List Ev) (cur : Option (List Int)),
    KillsListed cur a → Fresh b → KillsListed cur (a ++ b) := by
  intro a
  induction a with
  | nil => intro b cur _ hb; simpa using hb cur
  | cons e r ih =>
    intro b cur ha hb
    cases e <;> simp_all [KillsListed]

theorem fresh_append {a b : List Ev} (ha : Fresh a) (hb : Fresh b) : Fresh (a ++ b) :=
  fun cur => killsListed_append a b cur (ha cur) hb

theorem fresh_nil : Fresh [] := fun _ => by simp [KillsListed]

theorem fresh_procs_cons (cg : Nat) (a : Option (List Int)) (r : List Ev) (h : KillsListed a r) :
    Fresh (.procs cg a :: r) := fun _ => by simpa [KillsListed] using h

/-- the logical reading of `KillsListed` -/
theorem killsListed_spec : ∀ (pre : List Ev) (cur : Option (List Int)) (p : Int) (rc : Nat) (post : List Ev),
    KillsListed cur (pre ++ .kill p rc :: post) →
      (∃ cg ps, Ev.procs cg (some ps) ∈ pre ∧ p ∈ ps) ∨ (∃ ps, cur = some ps ∧ p ∈ ps) := by
  intro pre
  induction pre with
  | nil =>
    intro cur p rc post h
    simp only [List.nil_append, KillsListed] at h
    exact Or.inr h.1
  | cons e r ih =>
    intro cur p rc post h
    cases e with
    | procs cg a =>
      simp only [List.cons_append, KillsListed] at h
      cases ih a p rc post h with
      | inl h1 =>
        obtain ⟨cg', ps, hm, hp⟩ := h1
        exact Or.inl ⟨cg', ps, by simp [hm], hp⟩
      | inr h2 =>
        obtain ⟨ps, ha, hp⟩ := h2
        exact Or.inl ⟨cg, ps, by simp [ha], hp⟩
    | kill q rq =>
      simp only [List.cons_append, KillsListed] at h
      cases ih cur p rc post h.2 with
      | inl h1 =>
        obtain ⟨cg', ps, hm, hp⟩ := h1
        exact Or.inl ⟨cg', ps, by simp [hm], hp⟩
      | inr h2 => exact Or.inr h2
    | _ =>
      simp only [List.cons_append, KillsListed] at h
      cases ih cur p rc post h with
      | inl h1 =>
        obtain ⟨cg', ps, hm, hp⟩ := h1
        exact Or.inl ⟨cg', ps, by simp [hm], hp⟩
      | inr h2 => exact Or.inr h2

/-! ### `tryToKillPids` -/

def isKillOk : Ev → Bool
  | .kill _ rc => rc == 0
  | _ => false

theorem tryToKillPids_spec : ∀ (pids ps : List Int) (env : Env), (∀ p ∈ pids, p ∈ ps) →
    (∀ e ∈ (tryToKillPids pids env).evs, ∃ p rc, e = .kill p rc ∧ 0 < p ∧ p ∈ pids) ∧
    KillsListed (some ps) (tryToKillPids pids env).evs ∧
    (tryToKillPids pids env).val = ((tryToKillPids pids env).evs.filter isKillOk).length := by
  intro pids
  induction pids with
  | nil => intro ps env _; simp [tryToKillPids, KillsListed]
  | cons p rest ih =>
    intro ps env hsub
    have hrest : ∀ q ∈ rest, q ∈ ps := fun q hq => hsub q (by simp [hq])
    simp only [tryToKillPids]
    by_cases hp : p ≤ 0
    · simp only [hp, if_true]
      obtain ⟨h1, h2, h3⟩ := ih ps env hrest
      refine ⟨?_, h2, h3⟩
      intro e he
      obtain ⟨q, rc, rfl, hq, hm⟩ := h1 e he
      exact ⟨q, rc, rfl, hq, by simp [hm]⟩
    · simp only [hp, if_false, bind_apply, emit_apply, nextKillRc_evs, List.nil_append, List.cons_append,
        List.append_nil]
      obtain ⟨h1, h2, h3⟩ := ih ps (nextKillRc env).env hrest
      refine ⟨?_, ?_, ?_⟩
      · intro e he
        simp only [pure_apply, List.append_nil, List.mem_cons] at he
        cases he with
        | inl h => exact ⟨p, _, h, by omega, by simp⟩
        | inr h =>
          obtain ⟨q, rc, rfl, hq, hm⟩ := h1 e h
          exact ⟨q, rc, rfl, hq, by simp [hm]⟩
      · simp only [pure_apply, List.append_nil, KillsListed]
        exact ⟨⟨ps, rfl, hsub p (by simp)⟩, h2⟩
      · simp only [pure_apply, List.append_nil, List.filter_cons, isKillOk]
        rw [h3]
        cases hrc : (nextKillRc env).val with
        | zero => simp; omega
        | succ n => simp

/-! ### `getAndTryToKillPids` (one round over the victim's subtree) -/

/-- events of the signalling phase: reads of cgroup.procs inside the subtree, SIGKILLs to positive pids -/
def KillPhaseEv (ids : List Nat) : Ev → Prop
  | .procs cg _ => cg ∈ ids
  | .kill p _ => 0 < p
  | _ => False

theorem KillPhaseEv.mono {ids ids' : List Nat} (h : ∀ x ∈ ids, x ∈ ids') {e : Ev} (he : KillPhaseEv ids e) :
    KillPhaseEv ids' e := by
  cases e <;> simp_all [KillPhaseEv]

structure TreeSpec (ids : List Nat) (r : R Nat) : Prop where
  evs : ∀ e ∈ r.evs, KillPhaseEv ids e
  fresh : Fresh r.evs
  count : r.val = (r.evs.filter isKillOk).length

mutual
theorem killTree_spec : ∀ (v : View) (env : Env), TreeSpec (subtreeIds v) (killTree v env)
  | .mk i cs, env => by
    simp only [killTree, bind_apply, emit_apply, nextProcs_evs, List.nil_append, List.cons_append, subtreeIds]
    cases ha : (nextProcs env).val with
    | none =>
      simp only [pure_apply, List.append_nil]
      exact ⟨by intro e he; simp at he; subst he; simp [KillPhaseEv],
             fresh_procs_cons _ _ _ (by simp [KillsListed]), by simp [isKillOk]⟩
    | some pids =>
      simp only [bind_apply, pure_apply, List.append_nil]
      obtain ⟨k1, k2, k3⟩ := tryToKillPids_spec pids pids (nextProcs env).env (fun _ h => h)
      have hf := killForest_spec cs (tryToKillPids pids (nextProcs env).env).env
      refine ⟨?_, ?_, ?_⟩
      · intro e he
        simp only [List.mem_cons, List.mem_append] at he
        rcases he with h | h | h
        · subst h; simp [KillPhaseEv]
        · obtain ⟨p, rc, rfl, hp, _⟩ := k1 e h; simpa [KillPhaseEv] using hp
        · exact KillPhaseEv.mono (fun x hx => by simp [hx]) (hf.evs e h)
      · exact fresh_procs_cons _ _ _ (killsListed_append _ _ _ k2 hf.fresh)
      · simp only [List.filter_cons, isKillOk, List.filter_append, List.length_append]
        rw [k3, hf.count]; simp
theorem killForest_spec : ∀ (cs : List View) (env : Env), TreeSpec (forestIds cs) (killForest cs env)
  | [], env => by
    simp only [killForest, pure_apply]
    exact ⟨by simp, fresh_nil, by simp⟩
  | c :: cs, env => by
    simp only [killForest, bind_apply, pure_apply, List.append_nil, forestIds]
    have h1 := killTree_spec c env
    have h2 := killForest_spec cs (killTree c env).env
    refine ⟨?_, fresh_append h1.fresh h2.fresh, ?_⟩
    · intro e he
      simp only [List.mem_append] at he
      cases he with
      | inl h => exact KillPhaseEv.mono (fun x hx => by simp [hx]) (h1.evs e h)
      | inr h => exact KillPhaseEv.mono (fun x hx => by simp [hx]) (h2.evs e h)
    · simp only [List.filter_append, List.length_append]
      rw [h1.count, h2.count]
end

/-- the retry loop: all rounds together -/
theorem killRounds_spec (v : View) : ∀ (t nr last : Nat) (env : Env),
    (∀ e ∈ (killRounds v t nr last env).evs, KillPhaseEv (subtreeIds v) e) ∧
    Fresh (killRounds v t nr last env).evs ∧
    (killRounds v t nr last env).val = nr + ((killRounds v t nr last env).evs.filter isKillOk).length := by
  intro t
  induction t with
  | zero => intro nr last env; simp [killRounds, fresh_nil]
  | succ t ih =>
    intro nr last env
    simp only [killRounds, bind_apply]
    have h1 := killTree_spec v env
    by_cases hb : nr + (killTree v env).val = last
    · simp only [hb, if_true, pure_apply, List.append_nil]
      refine ⟨h1.evs, h1.fresh, ?_⟩
      rw [← hb, h1.count]
    · simp only [hb, if_false]
      obtain ⟨i1, i2, i3⟩ := ih (nr + (killTree v env).val) (nr + (killTree v env).val) (killTree v env).env
      refine ⟨?_, fresh_append h1.fresh i2, ?_⟩
      · intro e he
        simp only [List.mem_append] at he
        cases he with
        | inl h => exact h1.evs e h
        | inr h => exact i1 e h
      · rw [i3, List.filter_append, List.length_append, h1.count]; omega

/-! ### reaping -/

/-- events of the reap phase: reads of cgroup.procs inside the subtree, pidfd_open, process_mrelease -/
def ReapPhaseEv (ids : List Nat) : Ev → Prop
  | .procs cg _ => cg ∈ ids
  | .pidfdOpen _ _ => True
  | .mrelease _ _ => True
  | _ => False

theorem ReapPhaseEv.mono {ids ids' : List Nat} (h : ∀ x ∈ ids, x ∈ ids') {e : Ev} (he : ReapPhaseEv ids e) :
    ReapPhaseEv ids' e := by
  cases e <;> simp_all [ReapPhaseEv]

theorem reapPids_spec : ∀ (pids : List Int) (env : Env) (ids : List Nat),
    ∀ e ∈ (reapPids pids env).evs, ReapPhaseEv ids e := by
  intro pids
  induction pids with
  | nil => intro env ids e he; simp [reapPids] at he
  | cons p rest ih =>
    intro env ids e he
    simp only [reapPids, bind_apply, emit_apply, nextPidfd_evs, List.nil_append, List.cons_append] at he
    by_cases hrc : (nextPidfd env).val ≠ 0
    · simp only [hrc, ne_eq, not_false_eq_true, if_true, List.mem_cons] at he
      cases he with
      | inl h => subst h; simp [ReapPhaseEv]
      | inr h => exact ih _ ids e h
    · simp only [hrc, if_false, bind_apply, emit_apply, nextMrelease_evs, List.nil_append, List.cons_append,
        pure_apply, List.append_nil, List.mem_cons] at he
      rcases he with h | h | h
      · subst h; simp [ReapPhaseEv]
      · subst h; simp [ReapPhaseEv]
      · exact ih _ ids e h

mutual
theorem reapTree_spec : ∀ (v : View) (env : Env), ∀ e ∈ (reapTree v env).evs, ReapPhaseEv (subtreeIds v) e
  | .mk i cs, env => by
    intro e he
    simp only [reapTree, bind_apply, emit_apply, nextProcs_evs, List.nil_append, List.cons_append, subtreeIds] at he ⊢
    have hf := reapForest_spec cs env
    cases ha : (nextProcs (reapForest cs env).env).val with
    | none =>
      simp only [ha, pure_apply, List.append_nil, List.mem_append, List.mem_cons, List.not_mem_nil, or_false] at he
      cases he with
      | inl h => exact ReapPhaseEv.mono (fun x hx => by simp [hx]) (hf e h)
      | inr h => subst h; simp [ReapPhaseEv]
    | some pids =>
      simp only [ha, bind_apply, pure_apply, List.append_nil, List.mem_append, List.mem_cons] at he
      rcases he with h | h | h
      · exact ReapPhaseEv.mono (fun x hx => by simp [hx]) (hf e h)
      · subst h; simp [ReapPhaseEv]
      · exact reapPids_spec pids _ _ e h
theorem reapForest_spec : ∀ (cs : List View) (env : Env), ∀ e ∈ (reapForest cs env).evs, ReapPhaseEv (forestIds cs) e
  | [], env => by intro e he; simp [reapForest] at he
  | c :: cs, env => by
    intro e he
    simp only [reapForest, bind_apply, pure_apply, List.append_nil, List.mem_append, forestIds] at he ⊢
    cases he with
    | inl h => exact ReapPhaseEv.mono (fun x hx => by simp [hx]) (reapTree_spec c env e h)
    | inr h => exact ReapPhaseEv.mono (fun x hx => by simp [hx]) (reapForest_spec cs _ e h)
end

theorem killsListed_of_nokill : ∀ (evs : List Ev) (cur : Option (List Int)),
    (∀ e ∈ evs, isKill e = false) → KillsListed cur evs := by
  intro evs
  induction evs with
  | nil => intro cur _; simp [KillsListed]
  | cons e r ih =>
    intro cur h
    have he := h e (by simp)
    have hr := fun c => ih c (fun x hx => h x (by simp [hx]))
    cases e <;> simp_all [KillsListed, isKill]

theorem fresh_of_nokill (evs : List Ev) (h : ∀ e ∈ evs, isKill e = false) : Fresh evs :=
  fun cur => killsListed_of_nokill evs cur h

theorem ReapPhaseEv.nokill {ids : List Nat} {e : Ev} (h : ReapPhaseEv ids e) : isKill e = false := by
  cases e <;> simp_all [ReapPhaseEv, isKill]

/-! ### xattr accounting -/

@[simp] theorem setX_apply (cg : Nat) (n : XName) (mk : Option String → XVal) (env : Env) :
    setX cg n mk env = ⟨[.setxattr cg n (mk (nextXattr env).val.1) (nextXattr env).val.1 (nextXattr env).val.2],
                        (nextXattr env).env, ()⟩ := by
  simp [setX, nextXattr_evs]

theorem reportUuid_evs (cg k : Nat) (env : Env) : ∃ o1 c1 o2 c2,
    (reportUuid cg k env).evs = [.setxattr cg .uuidT (.uuid k) o1 c1, .setxattr cg .uuidU (.uuid k) o2 c2] :=
  ⟨(nextXattr env).val.1, (nextXattr env).val.2, (nextXattr (nextXattr env).env).val.1,
   (nextXattr (nextXattr env).env).val.2, by simp [reportUuid]⟩

theorem reportOoms_evs (cg : Nat) (env : Env) : ∃ o1 c1 o2 c2,
    (reportOoms cg env).evs = [.setxattr cg .oomsT (.num (parseCount o1 + 1)) o1 c1,
                               .setxattr cg .oomsU (.num (parseCount o2 + 1)) o2 c2] :=
  ⟨(nextXattr env).val.1, (nextXattr env).val.2, (nextXattr (nextXattr env).env).val.1,
   (nextXattr (nextXattr env).env).val.2, by simp [reportOoms]⟩

theorem reportKills_evs (cg nr : Nat) (env : Env) : ∃ o1 c1 o2 c2,
    (reportKills cg nr env).evs = [.setxattr cg .killT (.num (parseCount o1 + nr)) o1 c1,
                                   .setxattr cg .killU (.num (parseCount o2 + nr)) o2 c2] :=
  ⟨(nextXattr env).val.1, (nextXattr env).val.2, (nextXattr (nextXattr env).env).val.1,
   (nextXattr (nextXattr env).env).val.2, by simp [reportKills]⟩

/-! ### the branches of `tryToKillCgroup` -/

theorem maybeReap_spec (cfg : KillCfg) (v : View) (nr : Nat) (env : Env) :
    (∀ e ∈ (maybeReap cfg v nr env).evs, ReapPhaseEv (subtreeIds v) e) ∧
    ((maybeReap cfg v nr env).evs ≠ [] → cfg.reapMemory = true ∧ 0 < nr) := by
  unfold maybeReap
  by_cases h : (cfg.reapMemory && decide (nr > 0)) = true
  · simp only [h, if_true, bind_apply, pure_apply, List.append_nil]
    refine ⟨reapTree_spec v env, fun _ => ?_⟩
    simpa using h
  · simp [h]

/-- reap events (possibly none), then the two completion xattrs; the value is `some nr` -/
theorem finishKill_spec (cfg : KillCfg) (v : View) (nr : Nat) (env : Env) : ∃ Rp o1 c1 o2 c2,
    (finishKill cfg v nr env).evs = Rp ++ [.setxattr v.id .killT (.num (parseCount o1 + nr)) o1 c1,
                                           .setxattr v.id .killU (.num (parseCount o2 + nr)) o2 c2] ∧
    (∀ e ∈ Rp, ReapPhaseEv (subtreeIds v) e) ∧ (Rp ≠ [] → cfg.reapMemory = true ∧ 0 < nr) ∧
    (finishKill cfg v nr env).val = some nr := by
  obtain ⟨h1, h2⟩ := maybeReap_spec cfg v nr env
  obtain ⟨o1, c1, o2, c2, hk⟩ := reportKills_evs v.id nr (maybeReap cfg v nr env).env
  refine ⟨(maybeReap cfg v nr env).evs, o1, c1, o2, c2, ?_, h1, h2, ?_⟩
  · simp only [finishKill, bind_apply, pure_apply, List.append_nil, hk]
  · simp [finishKill]

/-- signalling rounds, then reap, then the completion xattrs; the value is the number of delivered SIGKILLs -/
theorem signalBranch_spec (cfg : KillCfg) (v : View) (env : Env) : ∃ K Rp o1 c1 o2 c2,
    (signalBranch cfg v env).evs =
      K ++ Rp ++ [.setxattr v.id .killT (.num (parseCount o1 + ((K.filter isKillOk).length : Nat))) o1 c1,
                  .setxattr v.id .killU (.num (parseCount o2 + ((K.filter isKillOk).length : Nat))) o2 c2] ∧
    (∀ e ∈ K, KillPhaseEv (subtreeIds v) e) ∧ Fresh K ∧
    (∀ e ∈ Rp, ReapPhaseEv (subtreeIds v) e) ∧ (Rp ≠ [] → cfg.reapMemory = true ∧ 0 < (K.filter isKillOk).length) ∧
    (signalBranch cfg v env).val = some (K.filter isKillOk).length := by
  obtain ⟨k1, k2, k3⟩ := killRounds_spec v Generated.killRetries 0 0 env
  simp only [Nat.zero_add] at k3
  obtain ⟨Rp, o1, c1, o2, c2, hf, hr1, hr2, hv⟩ :=
    finishKill_spec cfg v (killRounds v Generated.killRetries 0 0 env).val (killRounds v Generated.killRetries 0 0 env).env
  refine ⟨(killRounds v Generated.killRetries 0 0 env).evs, Rp, o1, c1, o2, c2, ?_, k1, k2, hr1, ?_, ?_⟩
  · simp only [signalBranch, bind_apply, List.append_assoc]
    rw [← k3, hf]
  · rw [← k3]; exact hr2
  · simp only [signalBranch, bind_apply]
    rw [← k3, hv]

theorem kernelCount_pos (v : View) : 0 < kernelCount v := by
  unfold kernelCount
  split
  · split <;> omega
  · omega

/-- the kernelkill branch: freeze write, then nothing more (cgroup.events, read afresh, is unreadable or says `populated 0`),
    or the cgroup.kill write failed, or it succeeded and reap + completion xattrs follow -/
theorem kernelBranch_spec (cfg : KillCfg) (v : View) (env : Env) : ∃ f W,
    (kernelBranch cfg v env).evs = .write v.id .freeze f :: W ∧
    ((W = [] ∧ (kernelBranch cfg v env).val.getD 0 = 0 ∧
        (nextEvents v.info.populated (nextWrite env).env).val ≠ some true) ∨
     (∃ k, k < 0 ∧ W = [.write v.id .kill k] ∧ (kernelBranch cfg v env).val = none ∧
        (nextEvents v.info.populated (nextWrite env).env).val = some true) ∨
     (∃ k Rp o1 c1 o2 c2, 0 ≤ k ∧
        W = .write v.id .kill k :: (Rp ++ [.setxattr v.id .killT (.num (parseCount o1 + kernelCount v)) o1 c1,
                                           .setxattr v.id .killU (.num (parseCount o2 + kernelCount v)) o2 c2]) ∧
        (∀ e ∈ Rp, ReapPhaseEv (subtreeIds v) e) ∧ (Rp ≠ [] → cfg.reapMemory = true) ∧
        (kernelBranch cfg v env).val = some (kernelCount v) ∧
        (nextEvents v.info.populated (nextWrite env).env).val = some true)) := by
  refine ⟨(nextWrite env).val, ((kernelBranch cfg v env).evs.drop 1), ?_, ?_⟩
  · simp [kernelBranch]
  · cases hp : (nextEvents v.info.populated (nextWrite env).env).val with
    | none => left; simp [kernelBranch, hp]
    | some b =>
      cases b with
      | false => left; simp [kernelBranch, hp]
      | true =>
        right
        by_cases hk : (nextWrite (nextEvents v.info.populated (nextWrite env).env).env).val < 0
        · left
          exact ⟨_, hk, by simp [kernelBranch, hp, hk], by simp [kernelBranch, hp, hk], rfl⟩
        · right
          obtain ⟨Rp, o1, c1, o2, c2, hf, hr1, hr2, hv⟩ :=
            finishKill_spec cfg v (kernelCount v) (nextWrite (nextEvents v.info.populated (nextWrite env).env).env).env
          refine ⟨(nextWrite (nextEvents v.info.populated (nextWrite env).env).env).val, Rp, o1, c1, o2, c2, by omega, ?_, hr1,
            fun h => (hr2 h).1, ?_, rfl⟩
          · simp [kernelBranch, hp, hk, hf]
          · simp [kernelBranch, hp, hk, hv]

/-! ### one attempt -/

theorem attempt_dry (cfg : KillCfg) (v : View) (k : Nat) (env : Env) (hd : cfg.dry = true) :
    tryToLogAndKill cfg v k env = ⟨[.kmsg v.id true], env, true⟩ := by
  simp [tryToLogAndKill, tryToKillCgroup, logKill, hd]

/-- `if nrKilled > 0 then { stat; kmsg }` -/
def logEvs (v : View) (n : Nat) : List Ev := if 0 < n then [.statKills, .kmsg v.id false] else []

/-- A wet attempt without kernelkill: uuid xattrs, ooms xattrs, signalling rounds `K`, reap `Rp`, completion
    xattrs carrying the number `n` of delivered SIGKILLs, then stat + kmsg record iff `n > 0`; returns `n > 0`. -/
theorem attempt_signal (cfg : KillCfg) (v : View) (k : Nat) (env : Env)
    (hd : cfg.dry = false) (hk : cfg.kernelKill = false) : ∃ o1 c1 o2 c2 o3 c3 o4 c4 K Rp o5 c5 o6 c6,
    (tryToLogAndKill cfg v k env).evs =
      [.setxattr v.id .uuidT (.uuid k) o1 c1, .setxattr v.id .uuidU (.uuid k) o2 c2,
       .setxattr v.id .oomsT (.num (parseCount o3 + 1)) o3 c3, .setxattr v.id .oomsU (.num (parseCount o4 + 1)) o4 c4]
      ++ K ++ Rp ++
      [.setxattr v.id .killT (.num (parseCount o5 + ((K.filter isKillOk).length : Nat))) o5 c5,
       .setxattr v.id .killU (.num (parseCount o6 + ((K.filter isKillOk).length : Nat))) o6 c6]
      ++ logEvs v (K.filter isKillOk).length ∧
    (∀ e ∈ K, KillPhaseEv (subtreeIds v) e) ∧ Fresh K ∧
    (∀ e ∈ Rp, ReapPhaseEv (subtreeIds v) e) ∧ (Rp ≠ [] → cfg.reapMemory = true ∧ 0 < (K.filter isKillOk).length) ∧
    (tryToLogAndKill cfg v k env).val = decide (0 < (K.filter isKillOk).length) := by
  obtain ⟨o1, c1, o2, c2, hu⟩ := reportUuid_evs v.id k env
  obtain ⟨o3, c3, o4, c4, ho⟩ := reportOoms_evs v.id (reportUuid v.id k env).env
  obtain ⟨K, Rp, o5, c5, o6, c6, hs, hK, hF, hR, hR2, hv⟩ :=
    signalBranch_spec cfg v (reportOoms v.id (reportUuid v.id k env).env).env
  refine ⟨o1, c1, o2, c2, o3, c3, o4, c4, K, Rp, o5, c5, o6, c6, ?_, hK, hF, hR, hR2, ?_⟩
  · simp only [tryToLogAndKill, tryToKillCgroup, hd, hk, Bool.false_eq_true, if_false, bind_apply, hu, ho, hs, hv,
      Option.getD_some, logEvs]
    by_cases hn : 0 < (K.filter isKillOk).length
    · simp [hn, logKill, hd]
    · simp [hn]
  · simp only [tryToLogAndKill, tryToKillCgroup, hd, hk, Bool.false_eq_true, if_false, bind_apply, hv,
      Option.getD_some]
    by_cases hn : 0 < (K.filter isKillOk).length
    · simp [hn]
    · simp [hn]

/-- A wet attempt with kernelkill. -/
theorem attempt_kernel (cfg : KillCfg) (v : View) (k : Nat) (env : Env)
    (hd : cfg.dry = false) (hk : cfg.kernelKill = true) : ∃ o1 c1 o2 c2 o3 c3 o4 c4 f,
    (((tryToLogAndKill cfg v k env).evs =
        [.setxattr v.id .uuidT (.uuid k) o1 c1, .setxattr v.id .uuidU (.uuid k) o2 c2,
         .setxattr v.id .oomsT (.num (parseCount o3 + 1)) o3 c3, .setxattr v.id .oomsU (.num (parseCount o4 + 1)) o4 c4,
         .write v.id .freeze f] ∧ (tryToLogAndKill cfg v k env).val = false) ∨
     (∃ wk, wk < 0 ∧ (tryToLogAndKill cfg v k env).evs =
        [.setxattr v.id .uuidT (.uuid k) o1 c1, .setxattr v.id .uuidU (.uuid k) o2 c2,
         .setxattr v.id .oomsT (.num (parseCount o3 + 1)) o3 c3, .setxattr v.id .oomsU (.num (parseCount o4 + 1)) o4 c4,
         .write v.id .freeze f, .write v.id .kill wk] ∧ (tryToLogAndKill cfg v k env).val = false) ∨
     (∃ wk Rp o5 c5 o6 c6, 0 ≤ wk ∧ (tryToLogAndKill cfg v k env).evs =
        [.setxattr v.id .uuidT (.uuid k) o1 c1, .setxattr v.id .uuidU (.uuid k) o2 c2,
         .setxattr v.id .oomsT (.num (parseCount o3 + 1)) o3 c3, .setxattr v.id .oomsU (.num (parseCount o4 + 1)) o4 c4,
         .write v.id .freeze f, .write v.id .kill wk] ++ Rp ++
        [.setxattr v.id .killT (.num (parseCount o5 + kernelCount v)) o5 c5,
         .setxattr v.id .killU (.num (parseCount o6 + kernelCount v)) o6 c6, .statKills, .kmsg v.id false] ∧
        (∀ e ∈ Rp, ReapPhaseEv (subtreeIds v) e) ∧ (tryToLogAndKill cfg v k env).val = true)) := by
  obtain ⟨o1, c1, o2, c2, hu⟩ := reportUuid_evs v.id k env
  obtain ⟨o3, c3, o4, c4, ho⟩ := reportOoms_evs v.id (reportUuid v.id k env).env
  obtain ⟨f, W, hw, hcases⟩ := kernelBranch_spec cfg v (reportOoms v.id (reportUuid v.id k env).env).env
  refine ⟨o1, c1, o2, c2, o3, c3, o4, c4, f, ?_⟩
  rcases hcases with ⟨hW, hv, _⟩ | ⟨wk, hneg, hW, hv, _⟩ | ⟨wk, Rp, o5, c5, o6, c6, hpos, hW, hR, _, hv, _⟩
  · left
    have hv' : ¬ (0 < (kernelBranch cfg v (reportOoms v.id (reportUuid v.id k env).env).env).val.getD 0) := by omega
    constructor
    · simp [tryToLogAndKill, tryToKillCgroup, hd, hk, hu, ho, hw, hW, hv']
    · simp [tryToLogAndKill, tryToKillCgroup, hd, hk, hv']
  · right; left
    refine ⟨wk, hneg, ?_, ?_⟩
    · simp [tryToLogAndKill, tryToKillCgroup, hd, hk, hu, ho, hw, hW, hv]
    · simp [tryToLogAndKill, tryToKillCgroup, hd, hk, hv]
  · right; right
    have hp := kernelCount_pos v
    refine ⟨wk, Rp, o5, c5, o6, c6, hpos, ?_, hR, ?_⟩
    · simp [tryToLogAndKill, tryToKillCgroup, hd, hk, hu, ho, hw, hW, hv, hp, logKill]
    · simp [tryToLogAndKill, tryToKillCgroup, hd, hk, hv, hp]

/-! ### the kernelkill branch reads cgroup.events afresh -/

theorem nextXattr_events (env : Env) : (nextXattr env).env.events = env.events := by
  unfold nextXattr; split <;> rfl
theorem nextWrite_events (env : Env) : (nextWrite env).env.events = env.events := by
  unfold nextWrite; split <;> rfl

theorem reportUuid_events (cg k : Nat) (env : Env) : (reportUuid cg k env).env.events = env.events := by
  simp [reportUuid, nextXattr_events]
theorem reportOoms_events (cg : Nat) (env : Env) : (reportOoms cg env).env.events = env.events := by
  simp [reportOoms, nextXattr_events]

theorem nextEvents_head (s a : Option Bool) (rest : List (Option Bool)) (env : Env) (h : env.events = a :: rest) :
    (nextEvents s env).val = a := by
  unfold nextEvents; rw [h]

/-- A wet kernelkill attempt whose own read of cgroup.events does not say `populated 1` - whatever the tick's sample said -
    writes nothing to cgroup.kill, signals nobody and is no success: the kill-accounting xattrs of the start of the attempt and
    the freeze write are all it leaves. -/
theorem attempt_kernel_not_populated (cfg : KillCfg) (v : View) (k : Nat) (env : Env)
    (hd : cfg.dry = false) (hk : cfg.kernelKill = true) (a : Option Bool) (rest : List (Option Bool))
    (he : env.events = a :: rest) (ha : a ≠ some true) : ∃ o1 c1 o2 c2 o3 c3 o4 c4 f,
    (tryToLogAndKill cfg v k env).evs =
        [.setxattr v.id .uuidT (.uuid k) o1 c1, .setxattr v.id .uuidU (.uuid k) o2 c2,
         .setxattr v.id .oomsT (.num (parseCount o3 + 1)) o3 c3, .setxattr v.id .oomsU (.num (parseCount o4 + 1)) o4 c4,
         .write v.id .freeze f] ∧ (tryToLogAndKill cfg v k env).val = false := by
  obtain ⟨o1, c1, o2, c2, hu⟩ := reportUuid_evs v.id k env
  obtain ⟨o3, c3, o4, c4, ho⟩ := reportOoms_evs v.id (reportUuid v.id k env).env
  obtain ⟨f, W, hw, hcases⟩ := kernelBranch_spec cfg v (reportOoms v.id (reportUuid v.id k env).env).env
  have hfresh : (nextEvents v.info.populated (nextWrite (reportOoms v.id (reportUuid v.id k env).env).env).env).val = a := by
    apply nextEvents_head _ a rest
    rw [nextWrite_events, reportOoms_events, reportUuid_events, he]
  refine ⟨o1, c1, o2, c2, o3, c3, o4, c4, f, ?_⟩
  rcases hcases with ⟨hW, hv, _⟩ | ⟨wk, _, _, _, h2⟩ | ⟨wk, Rp, o5, c5, o6, c6, _, _, _, _, _, h3⟩
  · have hv' : ¬ (0 < (kernelBranch cfg v (reportOoms v.id (reportUuid v.id k env).env).env).val.getD 0) := by omega
    constructor
    · simp [tryToLogAndKill, tryToKillCgroup, hd, hk, hu, ho, hw, hW, hv']
    · simp [tryToLogAndKill, tryToKillCgroup, hd, hk, hv']
  · exact absurd (hfresh ▸ h2) ha
  · exact absurd (hfresh ▸ h3) ha

theorem KillPhaseEv.ok {vid : Nat} {ids : List Nat} {e : Ev} (h : KillPhaseEv ids e) : EvOK vid ids e := by
  cases e <;> simp_all [KillPhaseEv, EvOK]

theorem ReapPhaseEv.ok {vid : Nat} {ids : List Nat} {e : Ev} (h : ReapPhaseEv ids e) : EvOK vid ids e := by
  cases e <;> simp_all [ReapPhaseEv, EvOK]

/-- a delivered signal: a successful kill(2), or a successful write to cgroup.kill -/
def isSignal : Ev → Bool
  | .kill _ rc => rc == 0
  | .write _ .kill rc => decide (0 ≤ rc)
  | _ => false

theorem KillPhaseEv.signal_iff {ids : List Nat} {e : Ev} (h : KillPhaseEv ids e) : isSignal e = isKillOk e := by
  cases e <;> simp_all [KillPhaseEv, isSignal, isKillOk]

theorem ReapPhaseEv.nosignal {ids : List Nat} {e : Ev} (h : ReapPhaseEv ids e) : isSignal e = false := by
  cases e <;> simp_all [ReapPhaseEv, isSignal]

theorem logEvs_ok (v : View) (n : Nat) : ∀ e ∈ logEvs v n, EvOK v.id (subtreeIds v) e ∧ isKill e = false ∧ isSignal e = false := by
  unfold logEvs; split <;> simp [EvOK, isKill, isSignal]

/-- Invariant of every attempt, whatever the mode and the environment: xattrs, control files and the kmsg record
    name the victim; cgroup.procs is only read inside the victim's subtree; SIGKILL only goes to positive pids,
    each listed by the cgroup.procs read that precedes it. -/
theorem attempt_ok (cfg : KillCfg) (v : View) (k : Nat) (env : Env) :
    (∀ e ∈ (tryToLogAndKill cfg v k env).evs, EvOK v.id (subtreeIds v) e) ∧
    Fresh (tryToLogAndKill cfg v k env).evs := by
  cases hd : cfg.dry with
  | true =>
    rw [attempt_dry cfg v k env hd]
    exact ⟨by simp [EvOK], fresh_of_nokill _ (by simp [isKill])⟩
  | false =>
    cases hk : cfg.kernelKill with
    | false =>
      obtain ⟨o1, c1, o2, c2, o3, c3, o4, c4, K, Rp, o5, c5, o6, c6, he, hK, hF, hR, _, _⟩ :=
        attempt_signal cfg v k env hd hk
      rw [he]
      constructor
      · simp only [List.forall_mem_append]
        exact ⟨⟨⟨⟨by simp [EvOK], fun e h => (hK e h).ok⟩, fun e h => (hR e h).ok⟩, by simp [EvOK]⟩,
               fun e h => (logEvs_ok v _ e h).1⟩
      · refine fresh_append (fresh_append (fresh_append (fresh_append ?_ hF) ?_) ?_) ?_
        · exact fresh_of_nokill _ (by simp [isKill])
        · exact fresh_of_nokill _ (fun e h => (hR e h).nokill)
        · exact fresh_of_nokill _ (by simp [isKill])
        · exact fresh_of_nokill _ (fun e h => (logEvs_ok v _ e h).2.1)
    | true =>
      obtain ⟨o1, c1, o2, c2, o3, c3, o4, c4, f, hc⟩ := attempt_kernel cfg v k env hd hk
      rcases hc with ⟨he, _⟩ | ⟨wk, _, he, _⟩ | ⟨wk, Rp, o5, c5, o6, c6, _, he, hR, _⟩
      · rw [he]; exact ⟨by simp [EvOK], fresh_of_nokill _ (by simp [isKill])⟩
      · rw [he]; exact ⟨by simp [EvOK], fresh_of_nokill _ (by simp [isKill])⟩
      · rw [he]
        constructor
        · simp only [List.forall_mem_append]
          exact ⟨⟨by simp [EvOK], fun e h => (hR e h).ok⟩, by simp [EvOK]⟩
        · refine fresh_append (fresh_append ?_ ?_) ?_
          · exact fresh_of_nokill _ (by simp [isKill])
          · exact fresh_of_nokill _ (fun e h => (hR e h).nokill)
          · exact fresh_of_nokill _ (by simp [isKill])

/-- an attempt that reports failure delivered no signal -/
theorem attempt_fail_nosignal (cfg : KillCfg) (v : View) (k : Nat) (env : Env)
    (hf : (tryToLogAndKill cfg v k env).val = false) :
    ∀ e ∈ (tryToLogAndKill cfg v k env).evs, isSignal e = false := by
  cases hd : cfg.dry with
  | true => rw [attempt_dry cfg v k env hd] at hf; simp at hf
  | false =>
    cases hk : cfg.kernelKill with
    | false =>
      obtain ⟨o1, c1, o2, c2, o3, c3, o4, c4, K, Rp, o5, c5, o6, c6, he, hK, hF, hR, _, hv⟩ :=
        attempt_signal cfg v k env hd hk
      rw [hv] at hf
      have hn : (K.filter isKillOk).length = 0 := by simpa using hf
      rw [he]
      simp only [List.forall_mem_append]
      refine ⟨⟨⟨⟨by simp [isSignal], ?_⟩, fun e h => (hR e h).nosignal⟩, by simp [isSignal]⟩,
              fun e h => (logEvs_ok v _ e h).2.2⟩
      intro e h
      rw [(hK e h).signal_iff]
      have : e ∉ K.filter isKillOk := by
        rw [List.length_eq_zero_iff.1 hn]; simp
      simpa [List.mem_filter, h] using this
    | true =>
      obtain ⟨o1, c1, o2, c2, o3, c3, o4, c4, f, hc⟩ := attempt_kernel cfg v k env hd hk
      rcases hc with ⟨he, _⟩ | ⟨wk, hneg, he, _⟩ | ⟨wk, Rp, o5, c5, o6, c6, _, _, _, hv⟩
      · rw [he]; simp [isSignal]
      · rw [he]; simp [isSignal]; omega
      · rw [hv] at hf; simp at hf

/-- a wet attempt that reports success delivered a signal -/
theorem attempt_success_signal (cfg : KillCfg) (v : View) (k : Nat) (env : Env) (hd : cfg.dry = false)
    (hs : (tryToLogAndKill cfg v k env).val = true) :
    ∃ e ∈ (tryToLogAndKill cfg v k env).evs, isSignal e = true := by
  cases hk : cfg.kernelKill with
  | false =>
    obtain ⟨o1, c1, o2, c2, o3, c3, o4, c4, K, Rp, o5, c5, o6, c6, he, hK, hF, hR, _, hv⟩ :=
      attempt_signal cfg v k env hd hk
    rw [hv] at hs
    have hn : 0 < (K.filter isKillOk).length := by simpa using hs
    obtain ⟨e, hme⟩ := List.exists_mem_of_length_pos hn
    rw [List.mem_filter] at hme
    refine ⟨e, ?_, ?_⟩
    · rw [he]; simp [hme.1]
    · rw [(hK e hme.1).signal_iff]; exact hme.2
  | true =>
    obtain ⟨o1, c1, o2, c2, o3, c3, o4, c4, f, hc⟩ := attempt_kernel cfg v k env hd hk
    rcases hc with ⟨_, hv⟩ | ⟨wk, _, _, hv⟩ | ⟨wk, Rp, o5, c5, o6, c6, hpos, he, _, _⟩
    · rw [hv] at hs; simp at hs
    · rw [hv] at hs; simp at hs
    · exact ⟨.write v.id .kill wk, by rw [he]; simp, by simp [isSignal, hpos]⟩

/-! ## the whole invocation -/

/-- `pause_actions(d)` is called exactly when the plugin is about to return STOP, has a `post_action_delay`
    and can reach its ruleset -/
def pauseEvs (cfg : KillCfg) (ok : Bool) : List Ev :=
  if !ok || cfg.alwaysContinue then []
  else match cfg.hasRuleset, cfg.postActionDelay with
    | true, some d => [.pause d]
    | _, _ => []

def retOf (cfg : KillCfg) (ok : Bool) : Ret := if !ok || cfg.alwaysContinue then .cont else .stop

theorem runKill_apply (cfg : KillCfg) (rank : List View → List View) (h : RankOK rank) (roots : List View) (env : Env) :
    (runKill cfg rank roots env).evs =
        (tryEach (tryToLogAndKill cfg) (plan cfg rank h.sub roots) 0 env).evs
          ++ pauseEvs cfg (tryEach (tryToLogAndKill cfg) (plan cfg rank h.sub roots) 0 env).val ∧
    (runKill cfg rank roots env).val = retOf cfg (tryEach (tryToLogAndKill cfg) (plan cfg rank h.sub roots) 0 env).val := by
  have hl := loop_eq_tryEach cfg rank h.sub h.size (fsize (rank roots) + 1) (rank roots) 0 (by omega)
  unfold plan
  simp only [runKill, bind_apply, hl, pauseEvs, retOf]
  by_cases hc : (!(tryEach (tryToLogAndKill cfg) (List.flatMap (attempts cfg rank h.sub) (rank roots)) 0 env).val
      || cfg.alwaysContinue) = true
  · simp only [hc, if_true, pure_apply]
    simp
  · simp only [hc, if_false, Bool.false_eq_true]
    cases cfg.hasRuleset <;> cases cfg.postActionDelay <;> simp

theorem segments_mem (f : View → Nat → M Bool) : ∀ (l : List View) (k : Nat) (env : Env) (s : View × R Bool),
    s ∈ segments f l k env → s.1 ∈ l ∧ ∃ k' env', s.2 = f s.1 k' env' := by
  intro l
  induction l with
  | nil => intro k env s h; simp [segments] at h
  | cons v vs ih =>
    intro k env s h
    simp only [segments, List.mem_cons] at h
    cases h with
    | inl h => subst h; exact ⟨by simp, k, env, rfl⟩
    | inr h =>
      split at h
      · simp at h
      · obtain ⟨h1, h2⟩ := ih _ _ s h
        exact ⟨by simp [h1], h2⟩

theorem mem_subtreeIds (v : View) (x : Nat) :
    x ∈ subtreeIds v ↔ x = v.id ∨ x ∈ forestIds v.children := by
  cases v; simp [subtreeIds, View.id, View.info, View.children]

theorem mem_forestIds (cs : List View) (x : Nat) : x ∈ forestIds cs ↔ ∃ c ∈ cs, x ∈ subtreeIds c := by
  induction cs with
  | nil => simp [forestIds]
  | cons c cs ih => simp [forestIds, ih]

/-! ## selecting events by kind -/

def isX (n : XName) : Ev → Bool
  | .setxattr _ m _ _ _ => m == n
  | _ => false

def isStat : Ev → Bool
  | .statKills => true
  | _ => false

def isKmsg : Ev → Bool
  | .kmsg _ _ => true
  | _ => false

/-- anything that changes the world or a counter: signal, xattr, control file, reap syscalls, stats, D-Bus -/
def isEffect : Ev → Bool
  | .kill _ _ | .setxattr _ _ _ _ _ | .write _ _ _ | .pidfdOpen _ _ | .mrelease _ _ | .statKills
  | .dbus _ _ | .statRestarts => true
  | _ => false

theorem flatMap_congr' {α β} {f g : α → List β} : ∀ (l : List α), (∀ x ∈ l, f x = g x) → l.flatMap f = l.flatMap g := by
  intro l
  induction l with
  | nil => intro _; rfl
  | cons a as ih =>
    intro h
    simp only [List.flatMap_cons]
    rw [h a (by simp), ih (fun x hx => h x (by simp [hx]))]

theorem filter_nil_of_forall {p : Ev → Bool} {l : List Ev} (h : ∀ e ∈ l, p e = false) : l.filter p = [] := by
  rw [List.filter_eq_nil_iff]; intro e he; simp [h e he]

theorem KillPhaseEv.notX {ids : List Nat} {e : Ev} (h : KillPhaseEv ids e) (n : XName) :
    isX n e = false ∧ isStat e = false ∧ isKmsg e = false := by
  cases e <;> simp_all [KillPhaseEv, isX, isStat, isKmsg]

theorem ReapPhaseEv.notX {ids : List Nat} {e : Ev} (h : ReapPhaseEv ids e) (n : XName) :
    isX n e = false ∧ isStat e = false ∧ isKmsg e = false ∧ isKillOk e = false := by
  cases e <;> simp_all [ReapPhaseEv, isX, isStat, isKmsg, isKillOk]

theorem logEvs_notX (v : View) (m : Nat) (n : XName) : (logEvs v m).filter (isX n) = [] ∧ (logEvs v m).filter isKillOk = [] := by
  unfold logEvs; split <;> simp [isX, isKillOk]

/-- the plan does not depend on anything but `recursive` -/
theorem attempts_congr (cfg cfg' : KillCfg) (rank : List View → List View) (hsub : ∀ l x, x ∈ rank l → x ∈ l)
    (hrec : cfg.recursive = cfg'.recursive) :
    ∀ (n : Nat) (v : View), vsize v ≤ n → attempts cfg rank hsub v = attempts cfg' rank hsub v := by
  intro n
  induction n with
  | zero => intro v h; have := vsize_pos v; omega
  | succ n ih =>
    intro v hv
    rw [attempts_unfold, attempts_unfold]
    have hd : descends cfg v = descends cfg' v := by simp [descends, mayRecurse, hrec]
    rw [hd]
    split
    · apply flatMap_congr'
      intro c hc
      have := vsize_child (hsub _ _ hc)
      exact ih c (by omega)
    · rfl

theorem plan_congr (cfg cfg' : KillCfg) (rank : List View → List View) (hsub : ∀ l x, x ∈ rank l → x ∈ l)
    (hrec : cfg.recursive = cfg'.recursive) (roots : List View) :
    plan cfg rank hsub roots = plan cfg' rank hsub roots := by
  unfold plan
  apply flatMap_congr'
  intro r _
  exact attempts_congr cfg cfg' rank hsub hrec (vsize r) r (Nat.le_refl _)

end OomdModel.Kill

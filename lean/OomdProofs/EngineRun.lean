import OomdProofs.EngineC05

/-! Lifting the single-ruleset theorems to every ruleset of a whole engine run: the events of the
ruleset at position `j` of `OomdModel.Engine.run` are an `rsHistory` whose invocations are supplied
by the rest of the engine. -/

namespace OomdModel.Engine

theorem engineRun_clock (inv : Bool) (sc : Script) (rs : List (RsCfg × RsState)) (now ctr : Nat) :
    now ≤ (engineRun inv sc rs now ctr).2.2.1 := by
  induction rs generalizing now ctr with
  | nil => simp [engineRun]
  | cons p rest ih =>
    obtain ⟨cfg, st⟩ := p
    simp only [engineRun]
    refine Nat.le_trans ?_ (ih _ _)
    -- one rsRun only moves the clock forward
    unfold rsRun
    have hd := detPhase_clock cfg sc cfg.groups now ctr none
    simp only
    split
    · exact hd
    · split
      · split
        · exact Nat.le_trans hd (chain_clock ..)
        · unfold startFresh; split
          · exact Nat.le_trans hd (chain_clock ..)
          · exact hd
      · unfold startFresh; split
        · exact Nat.le_trans hd (chain_clock ..)
        · exact hd

theorem engineRun_append (inv : Bool) (sc : Script) (pre post : List (RsCfg × RsState)) (cfg : RsCfg) (st : RsState)
    (now ctr : Nat) :
    engineRun inv sc (pre ++ (cfg, st) :: post) now ctr =
      ((engineRun inv sc pre now ctr).1 ++
          (cfg, (rsRun inv cfg sc st (engineRun inv sc pre now ctr).2.2.1 (engineRun inv sc pre now ctr).2.2.2).1) ::
          (engineRun inv sc post
            (rsRun inv cfg sc st (engineRun inv sc pre now ctr).2.2.1 (engineRun inv sc pre now ctr).2.2.2).2.2.1
            (rsRun inv cfg sc st (engineRun inv sc pre now ctr).2.2.1 (engineRun inv sc pre now ctr).2.2.2).2.2.2).1,
        (engineRun inv sc pre now ctr).2.1 ++
          (rsRun inv cfg sc st (engineRun inv sc pre now ctr).2.2.1 (engineRun inv sc pre now ctr).2.2.2).2.1 ++
          (engineRun inv sc post
            (rsRun inv cfg sc st (engineRun inv sc pre now ctr).2.2.1 (engineRun inv sc pre now ctr).2.2.2).2.2.1
            (rsRun inv cfg sc st (engineRun inv sc pre now ctr).2.2.1 (engineRun inv sc pre now ctr).2.2.2).2.2.2).2.1,
        (engineRun inv sc post
            (rsRun inv cfg sc st (engineRun inv sc pre now ctr).2.2.1 (engineRun inv sc pre now ctr).2.2.2).2.2.1
            (rsRun inv cfg sc st (engineRun inv sc pre now ctr).2.2.1 (engineRun inv sc pre now ctr).2.2.2).2.2.2).2.2.1,
        (engineRun inv sc post
            (rsRun inv cfg sc st (engineRun inv sc pre now ctr).2.2.1 (engineRun inv sc pre now ctr).2.2.2).2.2.1
            (rsRun inv cfg sc st (engineRun inv sc pre now ctr).2.2.1 (engineRun inv sc pre now ctr).2.2.2).2.2.2).2.2.2) := by
  induction pre generalizing now ctr with
  | nil => simp [engineRun]
  | cons p pre ih =>
    obtain ⟨c, s⟩ := p
    simp only [List.cons_append, engineRun]
    rw [ih]
    simp [List.append_assoc]

theorem engineRun_length (inv : Bool) (sc : Script) (rs : List (RsCfg × RsState)) (now ctr : Nat) :
    (engineRun inv sc rs now ctr).1.length = rs.length := by
  induction rs generalizing now ctr with
  | nil => rfl
  | cons p rest ih => obtain ⟨c, s⟩ := p; simp [engineRun, ih]

/-- clock reading and uuid counter at which the ruleset at position `j` is reached in a tick -/
def entryOf (inv : Bool) (sc : Script) (rs : List (RsCfg × RsState)) (j now ctr : Nat) : Nat × Nat :=
  ((engineRun inv sc (rs.take j) now ctr).2.2.1, (engineRun inv sc (rs.take j) now ctr).2.2.2)

/-- the invocations the engine makes of its `j`-th ruleset over a history of ticks -/
def invsOf (inv : Bool) (j : Nat) : World → List TickIn → List Invocation
  | _, [] => []
  | w, ti :: rest =>
    let e := entryOf inv ti.sc w.rs j (w.now + ti.gap) w.ctr
    { now := e.1, ctr := e.2, sc := ti.sc } :: invsOf inv j (tick inv w ti).1 rest

/-- the observed events of the `j`-th ruleset over a history of ticks of the whole engine -/
def trackJ (inv : Bool) (j : Nat) : World → List TickIn → List Obs
  | _, [] => []
  | w, ti :: rest =>
    match w.rs[j]? with
    | none => trackJ inv j (tick inv w ti).1 rest
    | some (cfg, st) =>
      let e := entryOf inv ti.sc w.rs j (w.now + ti.gap) w.ctr
      (rsRun inv cfg ti.sc st e.1 e.2).2.1.map (obs cfg ti.sc) ++ trackJ inv j (tick inv w ti).1 rest

/-- after a tick the `j`-th ruleset holds the state `rsRun` left, and the world's clock is not
earlier than the reading at which that `rsRun` ended -/
theorem tick_at (inv : Bool) (w : World) (ti : TickIn) (j : Nat) (cfg : RsCfg) (st : RsState)
    (h : w.rs[j]? = some (cfg, st)) :
    let e := entryOf inv ti.sc w.rs j (w.now + ti.gap) w.ctr
    (tick inv w ti).1.rs[j]? = some (cfg, (rsRun inv cfg ti.sc st e.1 e.2).1) ∧
    (rsRun inv cfg ti.sc st e.1 e.2).2.2.1 ≤ (tick inv w ti).1.now ∧
    w.now ≤ e.1 := by
  have hj : j < w.rs.length := by
    rcases Nat.lt_or_ge j w.rs.length with h' | h'
    · exact h'
    · rw [List.getElem?_eq_none h'] at h; cases h
  have hsplit : w.rs = w.rs.take j ++ (cfg, st) :: w.rs.drop (j + 1) := by
    have h2 : w.rs[j] = (cfg, st) := by
      have := List.getElem?_eq_getElem hj
      rw [this] at h; exact Option.some.inj h
    rw [← h2]
    simp
  have hlen : (w.rs.take j).length = j := by simp [Nat.min_eq_left (Nat.le_of_lt hj)]
  simp only [tick, entryOf]
  generalize hpre : w.rs.take j = pre at *
  generalize hpost : w.rs.drop (j + 1) = post at *
  rw [hsplit, engineRun_append]
  refine ⟨?_, ?_, ?_⟩
  · have hl : (engineRun inv ti.sc pre (w.now + ti.gap) w.ctr).1.length = j := by
      rw [engineRun_length, hlen]
    simp only
    rw [List.getElem?_append_right (by omega)]
    simp [hl]
  · exact engineRun_clock ..
  · exact Nat.le_trans (Nat.le_add_right _ _) (engineRun_clock ..)

/-- **The engine only ever invokes a ruleset as `rsHistory` assumes**: the events of the ruleset at
position `j` of a whole engine run are the `rsHistory` of that ruleset for the invocations
`invsOf`, for every start reading `last` not later than the world's clock. -/
theorem trackJ_eq_rsHistory (inv : Bool) (j : Nat) :
    ∀ (ticks : List TickIn) (w : World) (cfg : RsCfg) (st : RsState) (last : Nat),
      w.rs[j]? = some (cfg, st) → last ≤ w.now →
      trackJ inv j w ticks = rsHistory inv cfg st last (invsOf inv j w ticks) := by
  intro ticks
  induction ticks with
  | nil => intro w cfg st last _ _; rfl
  | cons ti rest ih =>
    intro w cfg st last h hl
    obtain ⟨h1, h2, h3⟩ := tick_at inv w ti j cfg st h
    simp only [trackJ, h, invsOf, rsHistory]
    have hmax : max (entryOf inv ti.sc w.rs j (w.now + ti.gap) w.ctr).1 last
        = (entryOf inv ti.sc w.rs j (w.now + ti.gap) w.ctr).1 := by
      apply Nat.max_eq_left; omega
    rw [hmax]
    congr 1
    exact ih _ _ _ _ h1 h2

theorem invsOf_sc (inv : Bool) (j : Nat) :
    ∀ (ticks : List TickIn) (w : World) (i : Invocation), i ∈ invsOf inv j w ticks → ∃ ti ∈ ticks, i.sc = ti.sc := by
  intro ticks
  induction ticks with
  | nil => intro w i h; simp [invsOf] at h
  | cons ti rest ih =>
    intro w i h
    simp only [invsOf, List.mem_cons] at h
    rcases h with rfl | h
    · exact ⟨ti, by simp, rfl⟩
    · obtain ⟨t, ht, hs⟩ := ih _ i h
      exact ⟨t, by simp [ht], hs⟩

end OomdModel.Engine

import OomdModel.DropIn
import OomdProofs.Engine

/-!
# Helper definitions and lemmas for C13 (drop-in configs)

* `eraseEng` forgets the run-time state (`RsState`) of every ruleset: what is left is exactly what
  C13 speaks about (which rulesets exist, in which order, with which parts, enablement,
  `numTargeted_`, the hook list, the `oomd.dropin.added` counter).
* `Spec` is the tiny specification state: the list of active drop-ins `(tag, unit)`, newest first;
  `specStep` is what an operation does to it (remove = filter, add = filter then cons).
* `build B H S` is the engine *determined by* the base rulesets `B`, base hooks `H` and the spec state.
* The refinement theorem `refines` : for every history the erased engine is `build` of the spec state.
-/

namespace OomdModel.DropIn
open OomdModel.Engine

/-! ### small list facts -/

theorem filter_length_partition {α} (p : α → Bool) (l : List α) :
    (l.filter p).length + (l.filter fun x => !p x).length = l.length := by
  induction l with
  | nil => rfl
  | cons x xs ih =>
    by_cases h : p x <;> simp [h] <;> omega

theorem filter_not_eq_self {α} (p : α → Bool) (l : List α) (h : (l.filter p).length = 0) :
    l.filter (fun x => !p x) = l := by
  induction l with
  | nil => rfl
  | cons x xs ih =>
    by_cases hx : p x
    · simp [hx] at h
    · simp only [List.filter_cons, hx] at h ⊢
      simp [ih h]

theorem sumNat_append (a b : List Nat) : sumNat (a ++ b) = sumNat a + sumNat b := by
  induction a with
  | nil => simp [sumNat]
  | cons x xs ih => simp [sumNat, ih]; omega

/-! ### erasing run-time state -/

def eraseRs (r : Rs) : Rs := { r with st := {} }
def eraseD (d : DropInRs) : DropInRs := { d with rs := eraseRs d.rs }
def eraseB (b : BaseRs) : BaseRs := { rs := eraseRs b.rs, dropins := b.dropins.map eraseD }
def eraseEng (e : Eng) : Eng := { e with rulesets := e.rulesets.map eraseB }
def eraseU (u : DUnit) : DUnit := { u with rulesets := u.rulesets.map eraseRs }

@[simp] theorem eraseRs_idem (r : Rs) : eraseRs (eraseRs r) = eraseRs r := rfl
@[simp] theorem eraseD_tag (d : DropInRs) : (eraseD d).tag = d.tag := rfl

theorem markTargeted_erase (r : Rs) : markTargeted (eraseRs r) = eraseRs (markTargeted r) := rfl
theorem markUntargeted_erase (r : Rs) : markUntargeted (eraseRs r) = eraseRs (markUntargeted r) := rfl

theorem untargetN_erase (n : Nat) (r : Rs) : untargetN n (eraseRs r) = eraseRs (untargetN n r) := by
  induction n generalizing r with
  | zero => rfl
  | succ n ih => simp only [untargetN, markUntargeted_erase, ih]

theorem countTag_erase (t : Tag) (b : BaseRs) : countTag t (eraseB b) = countTag t b := by
  simp only [countTag, eraseB, List.filter_map, List.length_map]
  rfl

theorem removeFromBase_erase (t : Tag) (b : BaseRs) :
    removeFromBase t (eraseB b) = eraseB (removeFromBase t b) := by
  simp only [removeFromBase, countTag_erase]
  split
  · rfl
  · simp only [eraseB, untargetN_erase, List.filter_map]
    rfl

theorem removeDropInConfig_erase (t : Tag) (e : Eng) :
    removeDropInConfig t (eraseEng e) = eraseEng (removeDropInConfig t e) := by
  simp only [removeDropInConfig, eraseEng, List.map_map]
  congr 1
  · apply List.map_congr_left
    intro b _
    exact removeFromBase_erase t b
  · congr 2
    congr 1
    apply List.map_congr_left
    intro b _
    exact countTag_erase t b

theorem addToFirst_erase (t : Tag) (r : Rs) (bs : List BaseRs) :
    addToFirst t (eraseRs r) (bs.map eraseB) = (addToFirst t r bs).map (·.map eraseB) := by
  induction bs with
  | nil => rfl
  | cons b bs ih =>
    simp only [List.map_cons, addToFirst]
    by_cases h : b.rs.cfg.rid == r.cfg.rid
    · have : ((eraseB b).rs.cfg.rid == (eraseRs r).cfg.rid) = true := h
      simp only [this, h, if_true, Option.map_some, List.map_cons]
      rfl
    · have : ((eraseB b).rs.cfg.rid == (eraseRs r).cfg.rid) = false := by
        show (b.rs.cfg.rid == r.cfg.rid) = false
        simpa using h
      simp only [this, h, ih]
      cases addToFirst t r bs <;> simp

theorem addDropInRuleset_erase (t : Tag) (r : Rs) (e : Eng) :
    addDropInRuleset t (eraseRs r) (eraseEng e) = (addDropInRuleset t r e).map eraseEng := by
  simp only [addDropInRuleset, eraseEng, addToFirst_erase]
  cases addToFirst t r e.rulesets <;> rfl

theorem addRulesets_erase (t : Tag) (rs : List Rs) (e : Eng) :
    addRulesets t (rs.map eraseRs) (eraseEng e) = ((addRulesets t rs e).1, eraseEng (addRulesets t rs e).2) := by
  induction rs generalizing e with
  | nil => rfl
  | cons r rs ih =>
    simp only [List.map_cons, addRulesets, addDropInRuleset_erase]
    cases h : addDropInRuleset t r e with
    | none => simp
    | some e' => simp [ih]

theorem addDropInConfig_erase (t : Tag) (u : DUnit) (e : Eng) :
    addDropInConfig t (eraseU u) (eraseEng e) = ((addDropInConfig t u e).1, eraseEng (addDropInConfig t u e).2) := by
  simp only [addDropInConfig, eraseU, addRulesets_erase]
  cases h : (addRulesets t u.rulesets e).1
  · simp [removeDropInConfig_erase]
  · simp [eraseEng]

/-- a tick changes nothing but run-time state -/
theorem runRs_erase (inv : Bool) (sc : Script) (r : Rs) (now ctr : Nat) :
    eraseRs (runRs inv sc r now ctr).1 = eraseRs r := by
  unfold runRs
  split <;> rfl

theorem runDropins_erase (inv : Bool) (sc : Script) (ds : List DropInRs) (now ctr : Nat) :
    (runDropins inv sc ds now ctr).1.map eraseD = ds.map eraseD := by
  induction ds generalizing now ctr with
  | nil => rfl
  | cons d ds ih =>
    simp only [runDropins, List.map_cons, ih]
    congr 1
    simp only [eraseD, runRs_erase]

theorem runBases_erase (inv : Bool) (sc : Script) (bs : List BaseRs) (now ctr : Nat) :
    (runBases inv sc bs now ctr).1.map eraseB = bs.map eraseB := by
  induction bs generalizing now ctr with
  | nil => rfl
  | cons b bs ih =>
    simp only [runBases, List.map_cons, ih]
    congr 1
    simp only [eraseB, runRs_erase, runDropins_erase]

/-! ### the specification state and the engine it determines -/

/-- active drop-ins, newest first -/
abbrev Spec := List (Tag × DUnit)

/-- the drop-in rulesets of the active units, newest first (inside one unit the ruleset added last
is the newest) -/
def flat (S : Spec) : List DropInRs :=
  S.flatMap fun p => p.2.rulesets.reverse.map fun r => { tag := p.1, rs := eraseRs r }

/-- hook priority contributed by the active units -/
def specHooks (S : Spec) : List TaggedHook :=
  S.flatMap fun p => p.2.hooks.map fun h => { tag := some p.1, hid := h }

/-- distribute drop-in rulesets (newest first) over the base rulesets: the first base with the name
takes all of them -/
def buildBases : List Rs → List DropInRs → List BaseRs
  | [], _ => []
  | b :: bs, act =>
    let mine := act.filter fun d => d.rs.cfg.rid == b.cfg.rid
    { rs := { eraseRs b with numTargeted := Int.ofNat mine.length, enabled := !(b.perm.disable && !mine.isEmpty) }
      dropins := mine } ::
      buildBases bs (act.filter fun d => !(d.rs.cfg.rid == b.cfg.rid))

def totalDropins (bs : List BaseRs) : Nat := sumNat (bs.map (·.dropins.length))

def buildA (B : List Rs) (hooksRev : List TaggedHook) (act : List DropInRs) : Eng :=
  { rulesets := buildBases B act
    hooksRev := hooksRev
    added := Int.ofNat (totalDropins (buildBases B act)) }

def baseHooksRev (H : List Nat) : List TaggedHook := H.reverse.map fun h => { tag := none, hid := h }

def build (B : List Rs) (H : List Nat) (S : Spec) : Eng :=
  buildA B (baseHooksRev H ++ (specHooks S).reverse) (flat S)

def known (B : List Rs) (rid : Nat) : Bool := B.any fun b => b.cfg.rid == rid

/-- every ruleset of the unit names a ruleset the engine has -/
def knows (B : List Rs) (u : DUnit) : Bool := u.rulesets.all fun r => known B r.cfg.rid

def dropTag (T : Tag) (S : Spec) : Spec := S.filter fun p => !(p.1 == T)

/-- what an operation does to the specification state -/
def specStep (env : Env) (B : List Rs) (S : Spec) : Op → Spec
  | .add T d =>
    match compileDropIn env.reg env.root d with
    | none => S
    | some u => if knows B u then (T, u) :: dropTag T S else dropTag T S
  | .remove T => dropTag T S
  | .tick _ => S

def specRun (env : Env) (B : List Rs) : Spec → List Op → Spec
  | S, [] => S
  | S, op :: ops => specRun env B (specStep env B S op) ops

/-! ### `removeDropInConfig` on a built engine -/

theorem untargetN_succ (n : Nat) (r : Rs) :
    untargetN (n + 1) r =
      { r with numTargeted := r.numTargeted - (Int.ofNat n + 1)
               enabled := decide (r.numTargeted - (Int.ofNat n + 1) ≤ 0) || r.enabled } := by
  induction n generalizing r with
  | zero => simp [untargetN, markUntargeted]
  | succ n ih =>
    rw [untargetN, ih]
    simp only [markUntargeted]
    have e1 : r.numTargeted - 1 - (Int.ofNat n + 1) = r.numTargeted - (Int.ofNat (n + 1) + 1) := by
      simp only [Int.ofNat_eq_natCast, Int.natCast_add, Int.cast_ofNat_Int]; omega
    simp only [e1]
    congr 1
    have hBA : decide (r.numTargeted - 1 ≤ 0) = true → decide (r.numTargeted - (Int.ofNat (n + 1) + 1) ≤ 0) = true := by
      simp only [decide_eq_true_eq, Int.ofNat_eq_natCast, Int.natCast_add, Int.cast_ofNat_Int]; omega
    revert hBA
    cases decide (r.numTargeted - 1 ≤ 0) <;> cases decide (r.numTargeted - (Int.ofNat (n + 1) + 1) ≤ 0) <;> simp

theorem filter_filter_comm {α} (p q : α → Bool) (l : List α) :
    (l.filter p).filter q = (l.filter q).filter p := by
  simp only [List.filter_filter]
  congr 1
  funext x
  exact Bool.and_comm _ _

theorem removeFromBase_built (T : Tag) (b : Rs) (mine : List DropInRs) :
    removeFromBase T
      { rs := { eraseRs b with numTargeted := Int.ofNat mine.length, enabled := !(b.perm.disable && !mine.isEmpty) }
        dropins := mine } =
    { rs := { eraseRs b with numTargeted := Int.ofNat (mine.filter fun d => !(d.tag == T)).length
                             enabled := !(b.perm.disable && !(mine.filter fun d => !(d.tag == T)).isEmpty) }
      dropins := mine.filter fun d => !(d.tag == T) } := by
  have hp := filter_length_partition (fun d : DropInRs => d.tag == T) mine
  simp only [removeFromBase, countTag]
  by_cases hz : (mine.filter fun d => d.tag == T).length = 0
  · have := filter_not_eq_self (fun d : DropInRs => d.tag == T) mine hz
    simp [hz, this]
  · obtain ⟨n, hn⟩ := Nat.exists_eq_succ_of_ne_zero hz
    simp only [hn, Nat.succ_eq_add_one, Nat.succ_ne_zero, beq_iff_eq, if_false, untargetN_succ]
    rw [hn] at hp
    have hl : (mine.filter fun d => !(d.tag == T)).length = mine.length - (n + 1) := by omega
    have hge : n + 1 ≤ mine.length := by omega
    have e1 : Int.ofNat mine.length - (Int.ofNat n + 1) = Int.ofNat (mine.filter fun d => !(d.tag == T)).length := by
      rw [hl]; simp only [Int.ofNat_eq_natCast]; omega
    simp only [e1]
    congr 2
    by_cases h0 : (mine.filter fun d => !(d.tag == T)).length = 0
    · have : (mine.filter fun d => !(d.tag == T)) = [] := List.eq_nil_of_length_eq_zero h0
      simp [this]
    · have h1 : ¬ (Int.ofNat (mine.filter fun d => !(d.tag == T)).length ≤ 0) := by
        simp only [Int.ofNat_eq_natCast]; omega
      have h2 : (mine.filter fun d => !(d.tag == T)).isEmpty = false := by
        cases hq : (mine.filter fun d => !(d.tag == T)) with
        | nil => simp [hq] at h0
        | cons _ _ => rfl
      have h3 : mine.isEmpty = false := by
        cases hq : mine with
        | nil => simp [hq] at hge
        | cons _ _ => rfl
      rw [h2, h3, decide_eq_false h1]
      simp

theorem buildBases_remove (T : Tag) (B : List Rs) (act : List DropInRs) :
    (buildBases B act).map (removeFromBase T) = buildBases B (act.filter fun d => !(d.tag == T)) := by
  induction B generalizing act with
  | nil => rfl
  | cons b B ih =>
    simp only [buildBases, List.map_cons, removeFromBase_built, ih]
    congr 1
    · rw [filter_filter_comm]
    · rw [filter_filter_comm]

theorem totalDropins_remove (T : Tag) (B : List Rs) (act : List DropInRs) :
    totalDropins (buildBases B act) =
      totalDropins (buildBases B (act.filter fun d => !(d.tag == T))) + sumNat ((buildBases B act).map (countTag T)) := by
  induction B generalizing act with
  | nil => rfl
  | cons b B ih =>
    simp only [buildBases, totalDropins, List.map_cons, sumNat, countTag] at ih ⊢
    rw [ih (act.filter fun d => !(d.rs.cfg.rid == b.cfg.rid))]
    have hp := filter_length_partition (fun d : DropInRs => d.tag == T) (act.filter fun d => d.rs.cfg.rid == b.cfg.rid)
    have c1 : (act.filter fun d => !(d.tag == T)).filter (fun d => d.rs.cfg.rid == b.cfg.rid) =
        (act.filter fun d => d.rs.cfg.rid == b.cfg.rid).filter (fun d => !(d.tag == T)) := filter_filter_comm _ _ _
    have c2 : (act.filter fun d => !(d.tag == T)).filter (fun d => !(d.rs.cfg.rid == b.cfg.rid)) =
        (act.filter fun d => !(d.rs.cfg.rid == b.cfg.rid)).filter (fun d => !(d.tag == T)) := filter_filter_comm _ _ _
    rw [c1, c2]
    omega

theorem removeDropInConfig_buildA (T : Tag) (B : List Rs) (hr : List TaggedHook) (act : List DropInRs) :
    removeDropInConfig T (buildA B hr act) =
      buildA B (hr.filter fun h => !(h.tag == some T)) (act.filter fun d => !(d.tag == T)) := by
  simp only [removeDropInConfig, buildA, buildBases_remove]
  congr 1
  have := totalDropins_remove T B act
  simp only [Int.ofNat_eq_natCast]
  omega

theorem flat_dropTag (T : Tag) (S : Spec) : flat (dropTag T S) = (flat S).filter fun d => !(d.tag == T) := by
  induction S with
  | nil => rfl
  | cons p S ih =>
    simp only [flat, List.flatMap_cons, List.filter_append] at ih ⊢
    by_cases h : p.1 == T
    · have : dropTag T (p :: S) = dropTag T S := by simp [dropTag, h]
      rw [this]
      simp only [dropTag] at ih ⊢
      rw [ih]
      have h' : p.1 = T := by simpa using h
      have : (List.map (fun r => ({ tag := p.1, rs := eraseRs r } : DropInRs)) p.2.rulesets.reverse).filter (fun d => !(d.tag == T)) = [] := by
        simp [List.filter_eq_nil_iff, h']
      rw [this]
      rfl
    · have : dropTag T (p :: S) = p :: dropTag T S := by simp [dropTag, h]
      rw [this]
      simp only [dropTag, List.flatMap_cons] at ih ⊢
      rw [ih]
      congr 1
      symm
      have h' : ¬ p.1 = T := by simpa using h
      simp [List.filter_eq_self, h']

theorem specHooks_dropTag (T : Tag) (S : Spec) :
    specHooks (dropTag T S) = (specHooks S).filter fun h => !(h.tag == some T) := by
  induction S with
  | nil => rfl
  | cons p S ih =>
    simp only [specHooks, List.flatMap_cons, List.filter_append] at ih ⊢
    by_cases h : p.1 == T
    · have : dropTag T (p :: S) = dropTag T S := by simp [dropTag, h]
      rw [this]
      simp only [dropTag] at ih ⊢
      rw [ih]
      have h' : p.1 = T := by simpa using h
      have : (List.map (fun x => ({ tag := some p.1, hid := x } : TaggedHook)) p.2.hooks).filter (fun h => !(h.tag == some T)) = [] := by
        simp [List.filter_eq_nil_iff, h']
      simp [this]
    · have : dropTag T (p :: S) = p :: dropTag T S := by simp [dropTag, h]
      rw [this]
      simp only [dropTag, List.flatMap_cons] at ih ⊢
      rw [ih]
      congr 1
      symm
      have h' : ¬ p.1 = T := by simpa using h
      simp [List.filter_eq_self, h']

theorem baseHooksRev_filter (T : Tag) (H : List Nat) :
    (baseHooksRev H).filter (fun h => !(h.tag == some T)) = baseHooksRev H := by
  simp [baseHooksRev, List.filter_eq_self]

theorem removeDropInConfig_build (T : Tag) (B : List Rs) (H : List Nat) (S : Spec) :
    removeDropInConfig T (build B H S) = build B H (dropTag T S) := by
  simp only [build, removeDropInConfig_buildA, flat_dropTag, specHooks_dropTag, List.filter_append,
    baseHooksRev_filter, List.filter_reverse]

/-! ### `addDropInConfig` on a built engine -/

theorem addToFirst_buildBases (T : Tag) (r : Rs) (B : List Rs) (act : List DropInRs) :
    addToFirst T r (buildBases B act) =
      if known B r.cfg.rid then some (buildBases B ({ tag := T, rs := r } :: act)) else none := by
  induction B generalizing act with
  | nil => rfl
  | cons b B ih =>
    simp only [buildBases, addToFirst, known, List.any_cons]
    by_cases h : b.cfg.rid == r.cfg.rid
    · have h' : (r.cfg.rid == b.cfg.rid) = true := by
        simp only [beq_iff_eq] at h ⊢
        exact h.symm
      have e0 : ((eraseRs b).cfg.rid == r.cfg.rid) = true := h
      simp only [e0, h, if_true, Bool.true_or, List.filter_cons, h', Bool.not_true, Bool.false_eq_true, if_false]
      congr 3
      simp only [markTargeted, eraseRs, List.length_cons, List.isEmpty_cons]
      congr 1
      · cases b.perm.disable <;> simp
        omega
    · have h' : (r.cfg.rid == b.cfg.rid) = false := by
        simp only [beq_iff_eq] at h
        simp only [beq_eq_false_iff_ne, ne_eq]
        exact fun e => h e.symm
      have e0 : ((eraseRs b).cfg.rid == r.cfg.rid) = false := by
        show (b.cfg.rid == r.cfg.rid) = false
        simpa using h
      have hk : known B r.cfg.rid = B.any fun b => b.cfg.rid == r.cfg.rid := rfl
      simp only [e0, Bool.false_eq_true, if_false, ih, h, Bool.false_or, List.filter_cons, h', Bool.not_false, if_true, ← hk]
      split <;> simp

theorem totalDropins_cons (d : DropInRs) (B : List Rs) (act : List DropInRs) (hk : known B d.rs.cfg.rid = true) :
    totalDropins (buildBases B (d :: act)) = totalDropins (buildBases B act) + 1 := by
  induction B generalizing act with
  | nil => simp [known] at hk
  | cons b B ih =>
    simp only [buildBases, totalDropins, List.map_cons, sumNat, List.filter_cons] at ih ⊢
    by_cases h : d.rs.cfg.rid == b.cfg.rid
    · simp only [h, if_true, Bool.not_true, Bool.false_eq_true, if_false, List.length_cons]
      omega
    · have hk' : known B d.rs.cfg.rid = true := by
        simp only [known, List.any_cons, Bool.or_eq_true] at hk
        rcases hk with hk | hk
        · simp only [beq_iff_eq] at hk h
          exact absurd hk.symm h
        · exact hk
      simp only [h, Bool.false_eq_true, if_false, Bool.not_false, if_true]
      rw [ih _ hk']
      omega

theorem addDropInRuleset_buildA (T : Tag) (r : Rs) (B : List Rs) (hr : List TaggedHook) (act : List DropInRs) :
    addDropInRuleset T r (buildA B hr act) =
      if known B r.cfg.rid then some (buildA B hr ({ tag := T, rs := r } :: act)) else none := by
  simp only [addDropInRuleset, buildA, addToFirst_buildBases]
  by_cases hk : known B r.cfg.rid
  · simp only [hk, if_true, Option.map_some]
    have := totalDropins_cons { tag := T, rs := r } B act hk
    rw [this]
    simp only [Int.ofNat_eq_natCast, Int.natCast_add, Int.cast_ofNat_Int]
  · simp [hk]

theorem addRulesets_buildA (T : Tag) (rs : List Rs) (B : List Rs) (hr : List TaggedHook) (act : List DropInRs) :
    (rs.all (fun r => known B r.cfg.rid) = true →
      addRulesets T rs (buildA B hr act) =
        (true, buildA B hr ((rs.reverse.map fun r => { tag := T, rs := r }) ++ act))) ∧
    (rs.all (fun r => known B r.cfg.rid) = false →
      ∃ part : List DropInRs, (∀ d ∈ part, d.tag = T) ∧
        addRulesets T rs (buildA B hr act) = (false, buildA B hr (part ++ act))) := by
  induction rs generalizing act with
  | nil => exact ⟨fun _ => rfl, fun h => by simp at h⟩
  | cons r rs ih =>
    simp only [addRulesets, addDropInRuleset_buildA, List.all_cons]
    by_cases hk : known B r.cfg.rid
    · simp only [hk, if_true, Bool.true_and]
      obtain ⟨ih1, ih2⟩ := ih ({ tag := T, rs := r } :: act)
      constructor
      · intro h
        rw [ih1 h]
        simp [List.append_assoc]
      · intro h
        obtain ⟨part, hp, he⟩ := ih2 h
        refine ⟨part ++ [{ tag := T, rs := r }], ?_, ?_⟩
        · intro d hd
          simp only [List.mem_append, List.mem_singleton] at hd
          rcases hd with hd | rfl
          · exact hp d hd
          · rfl
        · rw [he]; simp [List.append_assoc]
    · simp only [hk, Bool.false_eq_true, if_false, Bool.false_and]
      exact ⟨fun h => by simp at h, fun _ => ⟨[], by simp, rfl⟩⟩

theorem knows_erase (B : List Rs) (u : DUnit) :
    (u.rulesets.map eraseRs).all (fun r => known B r.cfg.rid) = knows B u := by
  simp only [knows, List.all_map]
  rfl

theorem dropTag_idem (T : Tag) (S : Spec) : dropTag T (dropTag T S) = dropTag T S := by
  simp [dropTag, List.filter_filter]

theorem addDropInConfig_build (T : Tag) (u : DUnit) (B : List Rs) (H : List Nat) (S : Spec) :
    addDropInConfig T (eraseU u) (build B H S) =
      if knows B u then (true, build B H ((T, u) :: S)) else (false, build B H (dropTag T S)) := by
  have hA := addRulesets_buildA T (u.rulesets.map eraseRs) B (baseHooksRev H ++ (specHooks S).reverse) (flat S)
  rw [knows_erase] at hA
  simp only [addDropInConfig, build, eraseU]
  by_cases hk : knows B u
  · simp only [hA.1 hk]
    have hflat : (List.map (fun r => ({ tag := T, rs := r } : DropInRs)) (List.map eraseRs u.rulesets).reverse ++ flat S) =
        flat ((T, u) :: S) := by
      simp only [flat, List.flatMap_cons, List.map_reverse, List.map_map]
      rfl
    rw [hflat]
    simp only [hk, if_true, buildA]
    congr 2
    simp [specHooks, List.map_reverse, List.append_assoc]
  · simp only [Bool.not_eq_true] at hk
    obtain ⟨part, hp, he⟩ := hA.2 hk
    simp only [he]
    simp only [hk, Bool.false_eq_true, if_false, removeDropInConfig_buildA]
    have : (part ++ flat S).filter (fun d => !(d.tag == T)) = flat (dropTag T S) := by
      rw [List.filter_append, flat_dropTag]
      have : part.filter (fun d => !(d.tag == T)) = [] := by
        simp only [List.filter_eq_nil_iff]
        intro d hd
        simp [hp d hd]
      simp [this]
    rw [this]
    simp only [List.filter_append, baseHooksRev_filter, List.filter_reverse, specHooks_dropTag]

theorem updateDropIn_build (T : Tag) (u : DUnit) (B : List Rs) (H : List Nat) (S : Spec) :
    updateDropIn T (some (eraseU u)) (build B H S) =
      if knows B u then (true, build B H ((T, u) :: dropTag T S)) else (false, build B H (dropTag T S)) := by
  simp only [updateDropIn, removeDropInConfig_build, addDropInConfig_build, dropTag_idem]

/-! ### refinement -/

/-- the base rulesets as the compiler hands them to the engine -/
def Pristine (r : Rs) : Prop := r.enabled = true ∧ r.numTargeted = 0

instance : DecidablePred Pristine := fun r => inferInstanceAs (Decidable (r.enabled = true ∧ r.numTargeted = 0))

theorem buildBases_nil (B : List Rs) (hB : ∀ b ∈ B, Pristine b) :
    buildBases B [] = B.map fun b => eraseB { rs := b, dropins := [] } := by
  induction B with
  | nil => rfl
  | cons b B ih =>
    simp only [buildBases, List.filter_nil, List.map_cons, ih fun x hx => hB x (List.mem_cons_of_mem _ hx)]
    congr 1
    obtain ⟨h1, h2⟩ := hB b List.mem_cons_self
    simp only [eraseB, eraseRs, List.length_nil, List.isEmpty_nil, Bool.not_true, Bool.and_false, Bool.not_false, List.map_nil]
    rw [h1, h2]
    rfl

theorem totalDropins_nil (B : List Rs) : totalDropins (buildBases B []) = 0 := by
  induction B with
  | nil => rfl
  | cons b B ih =>
    simp only [buildBases, totalDropins, List.filter_nil, List.map_cons, sumNat, List.length_nil] at ih ⊢
    omega

theorem mkEngine_build (B : List Rs) (H : List Nat) (hB : ∀ b ∈ B, Pristine b) :
    eraseEng (mkEngine B H) = build B H [] := by
  simp only [eraseEng, mkEngine, build, buildA, flat, specHooks, List.flatMap_nil, List.reverse_nil,
    List.append_nil, totalDropins_nil, baseHooksRev]
  simp only [buildBases_nil B hB, List.map_map]
  rfl

theorem step_refines (env : Env) (B : List Rs) (H : List Nat) (S : Spec) (w : World) (op : Op)
    (h : eraseEng w.eng = build B H S) :
    eraseEng (step env w op).1.eng = build B H (specStep env B S op) := by
  cases op with
  | add T d =>
    simp only [step, specStep]
    cases hc : compileDropIn env.reg env.root d with
    | none => exact h
    | some u =>
      simp only
      have e1 : eraseEng (updateDropIn T (some u) w.eng).2 = (updateDropIn T (some (eraseU u)) (eraseEng w.eng)).2 := by
        simp only [updateDropIn, removeDropInConfig_erase, addDropInConfig_erase]
      rw [e1, h, updateDropIn_build]
      split <;> rfl
  | remove T =>
    simp only [step, specStep, updateDropIn]
    rw [← removeDropInConfig_erase, h, removeDropInConfig_build]
  | tick ti =>
    simp only [step, specStep]
    rw [← h]
    simp only [eraseEng, runBases_erase]

/-- **Refinement**: after every history the engine, run-time state erased, is the engine determined
by the specification state. -/
theorem refines (env : Env) (B : List Rs) (H : List Nat) (S : Spec) (w : World) (ops : List Op)
    (h : eraseEng w.eng = build B H S) :
    eraseEng (apply env w ops).eng = build B H (specRun env B S ops) := by
  induction ops generalizing w S with
  | nil => exact h
  | cons op ops ih => exact ih _ _ (step_refines env B H S w op h)

/-! ### a tick of the drop-in engine is a tick of the plain engine on the evaluation order -/

/-- the rulesets that run on a tick for one base ruleset: its drop-ins from the front of the deque,
then the base ruleset, each only if enabled -/
def activeRs (b : BaseRs) : List Rs := (b.dropins.map (·.rs) ++ [b.rs]).filter (·.enabled)

/-- the evaluation order of a tick -/
def evalOrder (bs : List BaseRs) : List (RsCfg × RsState) :=
  bs.flatMap fun b => (activeRs b).map fun r => (r.cfg, r.st)

theorem engineRun_append (inv : Bool) (sc : Script) (a b : List (RsCfg × RsState)) (now ctr : Nat) :
    engineRun inv sc (a ++ b) now ctr =
      ((engineRun inv sc a now ctr).1 ++ (engineRun inv sc b (engineRun inv sc a now ctr).2.2.1 (engineRun inv sc a now ctr).2.2.2).1,
       (engineRun inv sc a now ctr).2.1 ++ (engineRun inv sc b (engineRun inv sc a now ctr).2.2.1 (engineRun inv sc a now ctr).2.2.2).2.1,
       (engineRun inv sc b (engineRun inv sc a now ctr).2.2.1 (engineRun inv sc a now ctr).2.2.2).2.2) := by
  induction a generalizing now ctr with
  | nil => simp [engineRun]
  | cons p a ih =>
    obtain ⟨c, s⟩ := p
    simp only [List.cons_append, engineRun, ih, List.append_assoc]

def one (r : Rs) : List (RsCfg × RsState) := if r.enabled then [(r.cfg, r.st)] else []

theorem runRs_sim (inv : Bool) (sc : Script) (r : Rs) (now ctr : Nat) :
    one (runRs inv sc r now ctr).1 = (engineRun inv sc (one r) now ctr).1 ∧
    (runRs inv sc r now ctr).2 = (engineRun inv sc (one r) now ctr).2 := by
  unfold runRs one
  cases h : r.enabled <;> simp [engineRun, h]

theorem runDropins_sim (inv : Bool) (sc : Script) (ds : List DropInRs) (now ctr : Nat) :
    (runDropins inv sc ds now ctr).1.flatMap (fun d => one d.rs) =
      (engineRun inv sc (ds.flatMap fun d => one d.rs) now ctr).1 ∧
    (runDropins inv sc ds now ctr).2 = (engineRun inv sc (ds.flatMap fun d => one d.rs) now ctr).2 := by
  induction ds generalizing now ctr with
  | nil => simp [runDropins, engineRun]
  | cons d ds ih =>
    have h1 := runRs_sim inv sc d.rs now ctr
    simp only [runDropins, List.flatMap_cons, engineRun_append]
    rw [← h1.2]
    have h2 := ih (runRs inv sc d.rs now ctr).2.2.1 (runRs inv sc d.rs now ctr).2.2.2
    rw [← h2.2, ← h2.1, ← h1.1]
    exact ⟨rfl, rfl⟩

theorem activeRs_eq (b : BaseRs) :
    (activeRs b).map (fun r => (r.cfg, r.st)) = (b.dropins.flatMap fun d => one d.rs) ++ one b.rs := by
  simp only [activeRs, List.filter_append, List.map_append]
  congr 1
  · induction b.dropins with
    | nil => rfl
    | cons d ds ih =>
      simp only [one] at ih
      simp only [List.map_cons, List.filter_cons, List.flatMap_cons, one]
      cases d.rs.enabled <;> simp [ih]
  · simp only [List.filter_cons, one]
    cases b.rs.enabled <;> simp

/-- **Simulation**: running the drop-in engine over the base rulesets produces the events, clock and
uuid counter of `OomdModel.Engine.engineRun` on the evaluation order, and leaves the rulesets in the
states `engineRun` computes. -/
theorem runBases_sim (inv : Bool) (sc : Script) (bs : List BaseRs) (now ctr : Nat) :
    evalOrder (runBases inv sc bs now ctr).1 = (engineRun inv sc (evalOrder bs) now ctr).1 ∧
    (runBases inv sc bs now ctr).2 = (engineRun inv sc (evalOrder bs) now ctr).2 := by
  induction bs generalizing now ctr with
  | nil => simp [runBases, evalOrder, engineRun]
  | cons b bs ih =>
    have hd := runDropins_sim inv sc b.dropins now ctr
    have hb := runRs_sim inv sc b.rs (runDropins inv sc b.dropins now ctr).2.2.1 (runDropins inv sc b.dropins now ctr).2.2.2
    have hr := ih (runRs inv sc b.rs (runDropins inv sc b.dropins now ctr).2.2.1 (runDropins inv sc b.dropins now ctr).2.2.2).2.2.1
      (runRs inv sc b.rs (runDropins inv sc b.dropins now ctr).2.2.1 (runDropins inv sc b.dropins now ctr).2.2.2).2.2.2
    simp only [evalOrder, activeRs_eq] at hr ⊢
    simp only [runBases, List.flatMap_cons, engineRun_append, List.append_assoc]
    rw [← hd.2, ← hd.1, ← hb.2, ← hb.1, ← hr.2, ← hr.1]
    exact ⟨rfl, rfl⟩

theorem enginePrerun_eq (e : Eng) :
    enginePrerun e = (evalOrder e.rulesets).flatMap fun p => preruns p.1 := by
  simp only [enginePrerun, evalOrder, activeRs_eq]
  induction e.rulesets with
  | nil => rfl
  | cons b bs ih =>
    simp only [List.flatMap_cons, List.flatMap_append, ih]
    congr 1
    congr 1
    · induction b.dropins with
      | nil => rfl
      | cons d ds ih2 =>
        simp only [List.flatMap_cons, List.flatMap_append, ih2]
        congr 1
        simp only [prerunRs, one]
        cases d.rs.enabled <;> simp
    · simp only [prerunRs, one]
      cases b.rs.enabled <;> simp

/-! ### the compiler -/

/-- `compileRuleset` succeeds -/
def compOk (reg : Reg) (ir : RsIR) (dropin : Bool) : Bool :=
  !ir.malformed && (dropin || (!ir.groups.isEmpty && !ir.actions.isEmpty)) &&
  !ir.groups.any (·.dets.isEmpty) && !(ir.groups.flatMap (·.dets) ++ ir.actions).any reg.badPlugin

/-- a freshly constructed `Ruleset` object for an IR ruleset -/
def freshRs (ir : RsIR) : Rs :=
  { cfg := { rid := ir.rid, groups := ir.groups, actions := ir.actions, delay := ir.delay, hookTimeout := ir.hookTimeout }
    perm := ir.perm
    st := {}
    enabled := true
    numTargeted := 0 }

theorem compileRuleset_eq (reg : Reg) (ir : RsIR) (dropin : Bool) :
    compileRuleset reg ir dropin = if compOk reg ir dropin then some (freshRs ir) else none := by
  unfold compileRuleset compOk freshRs
  cases ir.malformed <;> cases dropin <;> cases ir.groups.isEmpty <;> cases ir.actions.isEmpty <;>
    cases ir.groups.any (·.dets.isEmpty) <;> cases (ir.groups.flatMap (·.dets) ++ ir.actions).any reg.badPlugin <;> simp

/-- what the drop-in ruleset `d` becomes when it is accepted against the base IR ruleset `b`: the
base with exactly the supplied parts replaced -/
def mergedRs (b d : RsIR) : Rs :=
  { cfg :=
      { rid := b.rid
        groups := if d.groups.isEmpty then b.groups else d.groups
        actions := if d.actions.isEmpty then b.actions else d.actions
        delay := b.delay
        hookTimeout := b.hookTimeout }
    perm := b.perm
    st := {}
    enabled := true
    numTargeted := 0 }

/-- the drop-in ruleset `d` is acceptable against its target `b` -/
def acceptable (reg : Reg) (b d : RsIR) : Bool :=
  compOk reg b false && compOk reg d true && (d.groups.isEmpty || b.perm.dg) && (d.actions.isEmpty || b.perm.act)

theorem compileDropRs_eq (reg : Reg) (root : List RsIR) (d : RsIR) :
    compileDropRs reg root d =
      match root.find? (fun b => b.rid == d.rid) with
      | none => none
      | some b => if acceptable reg b d then some (mergedRs b d) else none := by
  unfold compileDropRs
  cases hf : root.find? (fun b => b.rid == d.rid) with
  | none => rfl
  | some b =>
    simp only [compileRuleset_eq, acceptable]
    by_cases h1 : compOk reg b false = true
    · by_cases h2 : compOk reg d true = true
      · simp only [h1, h2, if_true, Bool.true_and, mergeWithDropIn, freshRs, mergedRs]
        cases hg : d.groups.isEmpty <;> cases ha : d.actions.isEmpty <;> cases hdg : b.perm.dg <;>
          cases hact : b.perm.act <;> simp
      · simp [h1, h2]
    · simp [h1]

theorem compileDropRss_some (reg : Reg) (root : List RsIR) (ds : List RsIR) (rs : List Rs) :
    compileDropRss reg root ds = some rs ↔ ds.map (compileDropRs reg root) = rs.map some := by
  induction ds generalizing rs with
  | nil => cases rs <;> simp [compileDropRss]
  | cons d ds ih =>
    simp only [compileDropRss, List.map_cons]
    cases h1 : compileDropRs reg root d with
    | none => cases rs <;> simp
    | some r =>
      cases h2 : compileDropRss reg root ds with
      | none =>
        cases rs with
        | nil => simp
        | cons r' rs' =>
          simp only [List.map_cons, List.cons.injEq, Option.some.injEq, false_iff, not_and, reduceCtorEq]
          intro _ h
          have := (ih rs').2 h
          simp [h2] at this
      | some rs0 =>
        cases rs with
        | nil => simp
        | cons r' rs' =>
          simp only [Option.some.injEq, List.cons.injEq, List.map_cons]
          constructor
          · rintro ⟨rfl, rfl⟩
            exact ⟨rfl, (ih rs0).1 h2⟩
          · rintro ⟨rfl, h⟩
            have := (ih rs').2 h
            rw [h2] at this
            exact ⟨rfl, Option.some.inj this⟩

theorem compileHooks_eq (reg : Reg) (hs : List Nat) :
    compileHooks reg hs = if hs.any reg.badHook then none else some hs := by
  induction hs with
  | nil => rfl
  | cons h hs ih =>
    simp only [compileHooks, List.any_cons, ih]
    by_cases h1 : reg.badHook h = true <;> by_cases h2 : hs.any reg.badHook = true <;> simp [h1, h2]

theorem compileDropRs_pristine (reg : Reg) (root : List RsIR) (d : RsIR) (r : Rs)
    (h : compileDropRs reg root d = some r) : r.st = {} ∧ Pristine r := by
  rw [compileDropRs_eq] at h
  split at h
  · simp at h
  · split at h
    · cases h; exact ⟨rfl, rfl, rfl⟩
    · simp at h

theorem compileDropIn_pristine (reg : Reg) (root d : Root) (u : DUnit) (h : compileDropIn reg root d = some u) :
    ∀ r ∈ u.rulesets, r.st = {} ∧ Pristine r := by
  unfold compileDropIn at h
  cases h1 : compileDropRss reg root.rulesets d.rulesets with
  | none => simp [h1] at h
  | some rs =>
    cases h2 : compileHooks reg d.hooks with
    | none => simp [h1, h2] at h
    | some hs =>
      simp only [h1, h2, Option.some.injEq] at h
      subst h
      intro r hr
      have hm := (compileDropRss_some reg root.rulesets d.rulesets rs).1 h1
      have : some r ∈ d.rulesets.map (compileDropRs reg root.rulesets) := by
        rw [hm]; exact List.mem_map_of_mem hr
      obtain ⟨dr, _, hdr⟩ := List.mem_map.1 this
      exact compileDropRs_pristine reg root.rulesets dr r hdr

theorem compileRss_pristine (reg : Reg) (irs : List RsIR) (rs : List Rs) (h : compileRss reg irs = some rs) :
    rs = irs.map freshRs := by
  induction irs generalizing rs with
  | nil =>
    simp only [compileRss, Option.some.injEq] at h
    subst h
    rfl
  | cons ir irs ih =>
    simp only [compileRss, compileRuleset_eq] at h
    by_cases hc : compOk reg ir false = true
    · simp only [hc, if_true] at h
      cases h2 : compileRss reg irs with
      | none => simp [h2] at h
      | some rs' =>
        simp only [h2, Option.map_some, Option.some.injEq] at h
        subst h
        simp [ih rs' h2]
    · simp [hc] at h

/-! ### the specification state: reversibility -/

theorem specRun_append (env : Env) (B : List Rs) (S : Spec) (a b : List Op) :
    specRun env B S (a ++ b) = specRun env B (specRun env B S a) b := by
  induction a generalizing S with
  | nil => rfl
  | cons op a ih => exact ih _

theorem dropTag_comm (T T' : Tag) (S : Spec) : dropTag T (dropTag T' S) = dropTag T' (dropTag T S) :=
  filter_filter_comm _ _ _

theorem specStep_same (env : Env) (B : List Rs) (S : Spec) (op : Op) (T : Tag) (h : op.tag? = some T) :
    dropTag T (specStep env B S op) = dropTag T S := by
  cases op with
  | add T' d =>
    simp only [Op.tag?, Option.some.injEq] at h
    subst h
    simp only [specStep]
    split
    · rfl
    · split
      · simp [dropTag, List.filter_filter]
      · exact dropTag_idem _ _
  | remove T' =>
    simp only [Op.tag?, Option.some.injEq] at h
    subst h
    exact dropTag_idem _ _
  | tick _ => simp [Op.tag?] at h

theorem specStep_other (env : Env) (B : List Rs) (S : Spec) (op : Op) (T : Tag) (h : op.tag? ≠ some T) :
    specStep env B (dropTag T S) op = dropTag T (specStep env B S op) := by
  cases op with
  | add T' d =>
    simp only [Op.tag?, ne_eq, Option.some.injEq] at h
    simp only [specStep]
    split
    · rfl
    · split
      · have : (!(T' == T)) = true := by simpa using h
        simp only [dropTag, List.filter_cons, this, if_true]
        congr 1
        exact filter_filter_comm _ _ _
      · exact dropTag_comm _ _ _
  | remove T' => exact dropTag_comm _ _ _
  | tick _ => rfl

/-- removing a tag at the end of a history gives the specification state of the history without any
operation on that tag -/
theorem specRun_filter (env : Env) (B : List Rs) (S : Spec) (ops : List Op) (T : Tag) :
    specRun env B (dropTag T S) (ops.filter fun o => decide (o.tag? ≠ some T)) = dropTag T (specRun env B S ops) := by
  induction ops generalizing S with
  | nil => rfl
  | cons op ops ih =>
    by_cases h : op.tag? = some T
    · simp only [List.filter_cons, h, ne_eq, not_true_eq_false, decide_false, Bool.false_eq_true, if_false, specRun]
      rw [← ih, specStep_same env B S op T h]
    · simp only [List.filter_cons, ne_eq, h, not_false_eq_true, decide_true, if_true, specRun]
      rw [specStep_other env B S op T h, ih]

/-! ### facts about the engine determined by a specification state -/

def dropinView (b : BaseRs) : List (Tag × RsCfg) := b.dropins.map fun d => (d.tag, d.rs.cfg)

/-- hook priority: the order in which `firePrekillHook` tries the hooks -/
def hookPriority (e : Eng) : List TaggedHook := e.hooksRev.reverse

theorem dropinView_erase (b : BaseRs) : dropinView (eraseB b) = dropinView b := by
  simp only [dropinView, eraseB, List.map_map]
  rfl

theorem buildBases_wf (B : List Rs) (act : List DropInRs) :
    ∀ b ∈ buildBases B act, b.rs.numTargeted = Int.ofNat b.dropins.length ∧
      b.rs.enabled = !(b.rs.perm.disable && !b.dropins.isEmpty) := by
  induction B generalizing act with
  | nil => intro b hb; simp [buildBases] at hb
  | cons b0 B ih =>
    intro b hb
    simp only [buildBases, List.mem_cons] at hb
    rcases hb with rfl | hb
    · exact ⟨rfl, rfl⟩
    · exact ih _ b hb

theorem buildBases_dropins_mem (B : List Rs) (act : List DropInRs) :
    ∀ b ∈ buildBases B act, ∀ d ∈ b.dropins, d ∈ act := by
  induction B generalizing act with
  | nil => intro b hb; simp [buildBases] at hb
  | cons b0 B ih =>
    intro b hb d hd
    simp only [buildBases, List.mem_cons] at hb
    rcases hb with rfl | hb
    · exact (List.mem_filter.1 hd).1
    · exact (List.mem_filter.1 (ih _ b hb d hd)).1

theorem buildBases_cfgs (B : List Rs) (act : List DropInRs) :
    (buildBases B act).map (fun b => (b.rs.cfg, b.rs.perm)) = B.map fun b => (b.cfg, b.perm) := by
  induction B generalizing act with
  | nil => rfl
  | cons b0 B ih => simp only [buildBases, List.map_cons, ih]; rfl

theorem buildBases_entry (pre rest : List Rs) (act : List DropInRs) :
    buildBases (pre ++ rest) act =
      buildBases pre act ++ buildBases rest (act.filter fun d => !known pre d.rs.cfg.rid) := by
  induction pre generalizing act with
  | nil =>
    have : act.filter (fun _ => true) = act := List.filter_eq_self.2 (fun _ _ => rfl)
    simp [known, buildBases, this]
  | cons p pre ih =>
    simp only [List.cons_append, buildBases, ih, List.filter_filter]
    congr 3
    apply List.filter_congr
    intro d _
    have hk : known (p :: pre) d.rs.cfg.rid = ((p.cfg.rid == d.rs.cfg.rid) || known pre d.rs.cfg.rid) := rfl
    rw [hk]
    by_cases h2 : d.rs.cfg.rid = p.cfg.rid
    · simp [h2]
    · have : (p.cfg.rid == d.rs.cfg.rid) = false := by
        simp only [beq_eq_false_iff_ne, ne_eq]
        exact fun e => h2 e.symm
      simp [h2, this]

/-- the first base ruleset with the name takes all drop-ins of that name, later ones none -/
theorem buildBases_first_match (pre post : List Rs) (b : Rs) (act : List DropInRs) :
    ((buildBases (pre ++ b :: post) act).map (·.dropins))[pre.length]? =
      some (if known pre b.cfg.rid then [] else act.filter fun d => d.rs.cfg.rid == b.cfg.rid) := by
  rw [buildBases_entry]
  have hl : (buildBases pre act).length = pre.length := by
    have := congrArg List.length (buildBases_cfgs pre act)
    simpa using this
  simp only [List.map_append, buildBases, List.map_cons]
  rw [List.getElem?_append_right (by simp [hl])]
  simp only [List.length_map, hl, Nat.sub_self, List.getElem?_cons_zero, List.filter_filter, Option.some.injEq]
  by_cases hk : known pre b.cfg.rid
  · simp only [hk, if_true, List.filter_eq_nil_iff, Bool.and_eq_true, Bool.not_eq_true', beq_iff_eq, not_and]
    intro d _ hd
    rw [hd] at *
    simp [hk]
  · simp only [hk, Bool.false_eq_true, if_false]
    apply List.filter_congr
    intro d _
    by_cases hd : d.rs.cfg.rid == b.cfg.rid
    · have : d.rs.cfg.rid = b.cfg.rid := by simpa using hd
      simp [this, hk]
    · simp [hd]

theorem removeFromBase_dropins (T : Tag) (b : BaseRs) :
    (removeFromBase T b).dropins = b.dropins.filter fun d => !(d.tag == T) := by
  unfold removeFromBase countTag
  by_cases hz : (b.dropins.filter fun d => d.tag == T).length = 0
  · simp only [hz, beq_self_eq_true, if_true]
    exact (filter_not_eq_self (fun d : DropInRs => d.tag == T) b.dropins hz).symm
  · simp [hz]

theorem buildBases_append_dropins (B : List Rs) (a c : List DropInRs) :
    (buildBases B (a ++ c)).map (·.dropins) =
      List.zipWith (· ++ ·) ((buildBases B a).map (·.dropins)) ((buildBases B c).map (·.dropins)) := by
  induction B generalizing a c with
  | nil => rfl
  | cons b B ih => simp only [buildBases, List.filter_append, List.map_cons, List.zipWith_cons_cons, ih]

theorem build_hookPriority (B : List Rs) (H : List Nat) (S : Spec) :
    hookPriority (build B H S) = specHooks S ++ H.map fun h => { tag := none, hid := h } := by
  simp [hookPriority, build, buildA, baseHooksRev, List.map_reverse]

/-- units in the specification state all come from the compiler -/
theorem specRun_units (env : Env) (B : List Rs) (P : DUnit → Prop)
    (hP : ∀ d u, compileDropIn env.reg env.root d = some u → P u) (S : Spec) (ops : List Op)
    (hS : ∀ p ∈ S, P p.2) : ∀ p ∈ specRun env B S ops, P p.2 := by
  induction ops generalizing S with
  | nil => exact hS
  | cons op ops ih =>
    apply ih
    intro p hp
    cases op with
    | add T d =>
      simp only [specStep] at hp
      split at hp
      · exact hS p hp
      · rename_i u hu
        split at hp
        · rcases List.mem_cons.1 hp with rfl | hp
          · exact hP d u hu
          · exact hS p (List.mem_filter.1 hp).1
        · exact hS p (List.mem_filter.1 hp).1
    | remove T => exact hS p (List.mem_filter.1 hp).1
    | tick _ => exact hS p hp

theorem flat_mem (S : Spec) (d : DropInRs) (h : d ∈ flat S) :
    ∃ p ∈ S, ∃ r ∈ p.2.rulesets, d = { tag := p.1, rs := eraseRs r } := by
  simp only [flat, List.mem_flatMap, List.mem_map, List.mem_reverse] at h
  obtain ⟨p, hp, r, hr, rfl⟩ := h
  exact ⟨p, hp, r, hr, rfl⟩

/-- closed form of `compileDropIn` -/
def targetOf (root : List RsIR) (d : RsIR) : Option RsIR := root.find? fun b => b.rid == d.rid

def accepted (reg : Reg) (root : List RsIR) (d : RsIR) : Bool :=
  match targetOf root d with
  | none => false
  | some b => acceptable reg b d

theorem compileDropRs_eq' (reg : Reg) (root : List RsIR) (d : RsIR) :
    compileDropRs reg root d =
      if accepted reg root d then (targetOf root d).map fun b => mergedRs b d else none := by
  rw [compileDropRs_eq]
  unfold accepted targetOf
  cases root.find? (fun b => b.rid == d.rid) with
  | none => rfl
  | some b => by_cases h : acceptable reg b d = true <;> simp [h]

theorem accepted_target (reg : Reg) (root : List RsIR) (d : RsIR) (h : accepted reg root d = true) :
    ∃ b, targetOf root d = some b ∧ acceptable reg b d = true := by
  unfold accepted at h
  cases ht : targetOf root d with
  | none => simp [ht] at h
  | some b => exact ⟨b, rfl, by simpa [ht] using h⟩

theorem compileDropRss_eq (reg : Reg) (root : List RsIR) (ds : List RsIR) :
    compileDropRss reg root ds =
      if ds.all (accepted reg root) then
        some (ds.filterMap fun d => (targetOf root d).map fun b => mergedRs b d)
      else none := by
  induction ds with
  | nil => rfl
  | cons d ds ih =>
    simp only [compileDropRss, compileDropRs_eq', ih, List.all_cons, List.filterMap_cons]
    by_cases ha : accepted reg root d = true
    · obtain ⟨b, hb, _⟩ := accepted_target reg root d ha
      by_cases hr : ds.all (accepted reg root) = true
      · simp [ha, hb, hr]
      · simp [ha, hb, hr]
    · simp [ha]

theorem compileDropIn_eq (reg : Reg) (root d : Root) :
    compileDropIn reg root d =
      if d.rulesets.all (accepted reg root.rulesets) && !d.hooks.any reg.badHook then
        some { rulesets := d.rulesets.filterMap fun dr => (targetOf root.rulesets dr).map fun b => mergedRs b dr
               hooks := d.hooks }
      else none := by
  simp only [compileDropIn, compileDropRss_eq, compileHooks_eq]
  by_cases h1 : d.rulesets.all (accepted reg root.rulesets) = true
  · by_cases h2 : d.hooks.any reg.badHook = true
    · simp [h1, h2]
    · simp [h1, h2]
  · simp [h1]

/-- if the adaptor's IR is the configuration the engine was compiled from, a drop-in that compiles
names only rulesets the engine has: `addDropInConfig` cannot fail -/
theorem knows_of_consistent (reg : Reg) (root d : Root) (u : DUnit)
    (h : compileDropIn reg root d = some u) : knows (root.rulesets.map freshRs) u = true := by
  rw [compileDropIn_eq] at h
  split at h
  · simp only [Option.some.injEq] at h
    subst h
    simp only [knows, List.all_eq_true, List.mem_filterMap, Option.map_eq_some_iff]
    rintro r ⟨dr, _, b, hb, rfl⟩
    simp only [known, List.any_map, List.any_eq_true]
    refine ⟨b, List.mem_of_find?_eq_some hb, ?_⟩
    simp [freshRs, mergedRs]
  · simp at h

/-! ### the specification state, declaratively: the last effective operation on a tag decides -/

/-- effect of one operation on the set of active drop-ins: `none` = no effect; `(T, none)` = tag `T`
is absent afterwards; `(T, some u)` = tag `T` is present with content `u`, as the newest -/
def effect (env : Env) (B : List Rs) : Op → Option (Tag × Option DUnit)
  | .add T d =>
    match compileDropIn env.reg env.root d with
    | none => none
    | some u => some (T, if knows B u then some u else none)
  | .remove T => some (T, none)
  | .tick _ => none

/-- scan a history from its end (`ops` = the history reversed; `seen` = tags already decided by a
later operation) -/
def lastWins (env : Env) (B : List Rs) : List Op → List Tag → Spec
  | [], _ => []
  | op :: earlier, seen =>
    match effect env B op with
    | none => lastWins env B earlier seen
    | some (T, c) =>
      if seen.contains T then lastWins env B earlier seen
      else match c with
        | none => lastWins env B earlier (T :: seen)
        | some u => (T, u) :: lastWins env B earlier (T :: seen)

def seenAfter (env : Env) (B : List Rs) : List Op → List Tag → List Tag
  | [], seen => seen
  | op :: earlier, seen =>
    match effect env B op with
    | none => seenAfter env B earlier seen
    | some (T, _) => if seen.contains T then seenAfter env B earlier seen else seenAfter env B earlier (T :: seen)

def dropTags (seen : List Tag) (S : Spec) : Spec := S.filter fun p => !seen.contains p.1

theorem specStep_effect (env : Env) (B : List Rs) (X : Spec) (op : Op) :
    specStep env B X op =
      match effect env B op with
      | none => X
      | some (T, none) => dropTag T X
      | some (T, some u) => (T, u) :: dropTag T X := by
  cases op with
  | add T d =>
    simp only [specStep, effect]
    cases compileDropIn env.reg env.root d with
    | none => rfl
    | some u => by_cases hk : knows B u = true <;> simp [hk]
  | remove T => rfl
  | tick _ => rfl

theorem dropTags_dropTag (seen : List Tag) (T : Tag) (X : Spec) :
    dropTags seen (dropTag T X) = dropTags (T :: seen) X := by
  simp only [dropTags, dropTag, List.filter_filter]
  apply List.filter_congr
  intro p _
  simp only [List.contains_cons, Bool.not_or]
  rw [Bool.and_comm, Bool.beq_comm]

theorem dropTags_cons_seen (seen : List Tag) (T : Tag) (X : Spec) (h : seen.contains T = true) :
    dropTags (T :: seen) X = dropTags seen X := by
  simp only [dropTags]
  apply List.filter_congr
  intro p _
  simp only [List.contains_cons]
  by_cases hp : p.1 = T
  · rw [hp, h]; simp
  · have : (p.1 == T) = false := by simpa using hp
    simp [this]

theorem specRun_snoc (env : Env) (B : List Rs) (S : Spec) (ops : List Op) (op : Op) :
    specRun env B S (ops ++ [op]) = specStep env B (specRun env B S ops) op := by
  rw [specRun_append]; rfl

theorem lastWins_general (env : Env) (B : List Rs) (l : List Op) :
    ∀ (seen : List Tag) (S : Spec),
      dropTags seen (specRun env B S l.reverse) =
        lastWins env B l seen ++ dropTags (seenAfter env B l seen) S := by
  induction l with
  | nil => intro seen S; rfl
  | cons op earlier ih =>
    intro seen S
    rw [List.reverse_cons, specRun_snoc, specStep_effect]
    simp only [lastWins, seenAfter]
    cases he : effect env B op with
    | none => exact ih seen S
    | some tc =>
      obtain ⟨T, c⟩ := tc
      by_cases hs : seen.contains T = true
      · have hm : T ∈ seen := by simpa using hs
        simp only [hs, if_true]
        rw [← ih seen S]
        cases c with
        | none =>
          simp only
          rw [dropTags_dropTag, dropTags_cons_seen _ _ _ hs]
        | some u =>
          simp only
          have : dropTags seen ((T, u) :: dropTag T (specRun env B S earlier.reverse)) =
              dropTags seen (dropTag T (specRun env B S earlier.reverse)) := by
            simp [dropTags, hm]
          rw [this, dropTags_dropTag, dropTags_cons_seen _ _ _ hs]
      · have hm : ¬ T ∈ seen := by simpa using hs
        simp only [hs, Bool.false_eq_true, if_false]
        cases c with
        | none =>
          simp only
          rw [dropTags_dropTag, ih (T :: seen) S]
        | some u =>
          simp only
          have : dropTags seen ((T, u) :: dropTag T (specRun env B S earlier.reverse)) =
              (T, u) :: dropTags seen (dropTag T (specRun env B S earlier.reverse)) := by
            simp [dropTags, hm]
          rw [this, dropTags_dropTag, ih (T :: seen) S]
          rfl

/-- **The specification state is the declarative one**: scanning the history from its end, a tag is
active iff the last effective operation on it is an accepted add, its content is that add's unit,
and the active tags are ordered by the position of that operation, latest first. -/
theorem specRun_eq_lastWins (env : Env) (B : List Rs) (ops : List Op) :
    specRun env B [] ops = lastWins env B ops.reverse [] := by
  have := lastWins_general env B ops.reverse [] []
  simp only [List.reverse_reverse, dropTags, List.filter_nil, List.append_nil] at this
  rw [← this]
  exact (List.filter_eq_self.2 (fun _ _ => rfl)).symm

/-! ### the evaluation order as the property speaks of it -/

/-- for every ruleset that runs on a tick: which drop-in (tag) or base (`none`) it is, and its parts -/
def orderView (e : Eng) : List (Option Tag × RsCfg) :=
  e.rulesets.flatMap fun b =>
    ((b.dropins.filter (·.rs.enabled)).map fun d => (some d.tag, d.rs.cfg)) ++
      if b.rs.enabled then [(none, b.rs.cfg)] else []

theorem orderView_erase (e : Eng) : orderView (eraseEng e) = orderView e := by
  simp only [orderView, eraseEng, List.flatMap_map]
  congr 1
  funext b
  simp only [eraseB, eraseRs, List.filter_map, List.map_map]
  rfl

/-- `orderView` is `evalOrder` without the run-time states -/
theorem orderView_evalOrder (e : Eng) : (orderView e).map (·.2) = (evalOrder e.rulesets).map (·.1) := by
  simp only [orderView, evalOrder, activeRs, List.map_flatMap, List.filter_append, List.map_append, List.map_map]
  congr 1
  funext b
  congr 1
  · induction b.dropins with
    | nil => rfl
    | cons d ds ih =>
      simp only [List.filter_cons, List.map_cons]
      cases d.rs.enabled <;> simp [ih]
  · cases h : b.rs.enabled <;> simp [h]

/-! ### a drop-in ruleset in the engine is the very object the compiler produced -/

theorem addToFirst_mem (T : Tag) (r : Rs) (bs bs' : List BaseRs) (h : addToFirst T r bs = some bs') :
    ∀ b' ∈ bs', ∀ x ∈ b'.dropins, x = { tag := T, rs := r } ∨ ∃ b ∈ bs, x ∈ b.dropins := by
  induction bs generalizing bs' with
  | nil => simp [addToFirst] at h
  | cons b bs ih =>
    simp only [addToFirst] at h
    split at h
    · simp only [Option.some.injEq] at h
      subst h
      intro b' hb' x hx
      rcases List.mem_cons.1 hb' with rfl | hb'
      · rcases List.mem_cons.1 hx with rfl | hx
        · exact Or.inl rfl
        · exact Or.inr ⟨b, List.mem_cons_self, hx⟩
      · exact Or.inr ⟨b', List.mem_cons_of_mem _ hb', hx⟩
    · cases h2 : addToFirst T r bs with
      | none => simp [h2] at h
      | some bs2 =>
        simp only [h2, Option.map_some, Option.some.injEq] at h
        subst h
        intro b' hb' x hx
        rcases List.mem_cons.1 hb' with rfl | hb'
        · exact Or.inr ⟨b', List.mem_cons_self, hx⟩
        · rcases ih bs2 h2 b' hb' x hx with h | ⟨b0, hb0, hx0⟩
          · exact Or.inl h
          · exact Or.inr ⟨b0, List.mem_cons_of_mem _ hb0, hx0⟩

theorem addRulesets_mem (T : Tag) (rs : List Rs) (e : Eng) :
    ∀ b' ∈ (addRulesets T rs e).2.rulesets, ∀ x ∈ b'.dropins,
      (x.tag = T ∧ x.rs ∈ rs) ∨ ∃ b ∈ e.rulesets, x ∈ b.dropins := by
  induction rs generalizing e with
  | nil => intro b' hb' x hx; exact Or.inr ⟨b', hb', hx⟩
  | cons r rs ih =>
    intro b' hb' x hx
    simp only [addRulesets, addDropInRuleset] at hb'
    cases h : addToFirst T r e.rulesets with
    | none =>
      simp only [h, Option.map_none] at hb'
      exact Or.inr ⟨b', hb', hx⟩
    | some bs =>
      simp only [h, Option.map_some] at hb'
      rcases ih _ b' hb' x hx with ⟨h1, h2⟩ | ⟨b0, hb0, hx0⟩
      · exact Or.inl ⟨h1, List.mem_cons_of_mem _ h2⟩
      · rcases addToFirst_mem T r e.rulesets bs h b0 hb0 x hx0 with rfl | h3
        · exact Or.inl ⟨rfl, List.mem_cons_self⟩
        · exact Or.inr h3

theorem removeDropInConfig_no_tag (T : Tag) (e : Eng) :
    ∀ b ∈ (removeDropInConfig T e).rulesets, ∀ x ∈ b.dropins, x.tag ≠ T := by
  intro b hb x hx
  simp only [removeDropInConfig, List.mem_map] at hb
  obtain ⟨b0, _, rfl⟩ := hb
  rw [removeFromBase_dropins] at hx
  have := (List.mem_filter.1 hx).2
  simpa using this

/-- after an accepted `updateDropIn`, every drop-in ruleset carrying the tag is one of the unit's
rulesets (the object the compiler produced) -/
theorem updateDropIn_tagged (T : Tag) (u : DUnit) (e : Eng) (hok : (updateDropIn T (some u) e).1 = true) :
    ∀ b ∈ (updateDropIn T (some u) e).2.rulesets, ∀ x ∈ b.dropins, x.tag = T → x.rs ∈ u.rulesets := by
  intro b hb x hx ht
  simp only [updateDropIn, addDropInConfig] at hok hb
  cases h : (addRulesets T u.rulesets (removeDropInConfig T e)).1
  · simp [h] at hok
  · simp only [h, if_true] at hb
    rcases addRulesets_mem T u.rulesets (removeDropInConfig T e) b hb x hx with ⟨_, h2⟩ | ⟨b0, hb0, hx0⟩
    · exact h2
    · exact absurd ht (removeDropInConfig_no_tag T e b0 hb0 x hx0)

end OomdModel.DropIn

import OomdModel.Config
import OomdProofs.Parse

/-!
Helper lemmas for C12: `OomdModel.Config` (argument parser, plugin init, compiler) against
`OomdModel.Config.Spec`.
-/

namespace OomdProofs.Config
open OomdModel.Parse OomdModel.Parse.Spec OomdModel.Config OomdModel.Config.Spec OomdModel.Generated OomdProofs.Parse

/-- what `init()` reads from the machine is within the range the property assumes: totals are
    non-negative, `total * 100` fits int64, SwapTotal fits the `int` KillSwapUsage keeps it in -/
structure EnvOk (env : Env) : Prop where
  mem : ∀ loc t, env.memAt loc = some t → TotalOk t
  swap : ∀ loc t, env.swapAt loc = some t → TotalOk t

theorem totalOk_zero : TotalOk 0 := ⟨by decide, by decide⟩

theorem wrap32_id {v : Int} (h0 : 0 ≤ v) (h1 : v < 2 ^ 31) : wrap32 v = v := by
  unfold wrap32
  rw [Int.emod_eq_of_lt (by omega) (by omega)]
  omega

/-! ## the table -/

/-- the schemas regenerated from /repo are the pinned ones -/
theorem schemas_eq : typedSchemas = declaredSchemas := by decide

theorem all_check : ∀ sch ∈ declaredSchemas, sch.checksArgs = true := by decide

/-! ## argument lists -/

theorem hasArg_filter {args : List (Str × Str)} {q : Str × Str → Bool} {k : String}
    (h : hasArg (args.filter q) k = true) : hasArg args k = true := by
  unfold hasArg at h ⊢
  simp only [List.any_eq_true, List.mem_filter] at h ⊢
  obtain ⟨x, ⟨hx, _⟩, hk⟩ := h
  exact ⟨x, hx, hk⟩

theorem hasArg_erase_ne {args : List (Str × Str)} {k k' : String} (hne : k.toList ≠ k'.toList) :
    hasArg (eraseArg args k) k' = hasArg args k' := by
  unfold hasArg eraseArg
  rw [List.any_filter]
  congr 1
  funext kv
  by_cases h : kv.1 = k'.toList
  · have : kv.1 ≠ k.toList := fun hc => hne (hc.symm.trans h)
    simp [h, Ne.symm hne]
  · simp [h]

/-- what `fillArgs` stores, per given argument: the valid reading under the declared kind -/
def readingIn (schema : List TypedArg) (fs : Str) (total : Int) (kv : Str × Str) : Option Val :=
  match schema.find? (fun a => a.name.toList == kv.1) with
  | none => none
  | some a => validReading a.kind fs total kv.2

theorem fillArgs_sound {schema : List TypedArg} {fs : Str} {total : Int} (ht : TotalOk total) :
    ∀ {args : List (Str × Str)} {vals : List (Str × Val)}, fillArgs schema fs total args = some vals →
      vals.map (fun kv => (kv.1, some kv.2)) = args.map (fun kv => (kv.1, readingIn schema fs total kv)) := by
  intro args
  induction args with
  | nil => intro vals h; simp only [fillArgs, Option.some.injEq] at h; subst h; rfl
  | cons kv rest ih =>
    intro vals h
    obtain ⟨k, v⟩ := kv
    simp only [fillArgs] at h
    cases hf : schema.find? (fun a => a.name.toList == k) with
    | none => simp [hf] at h
    | some a =>
      simp only [hf] at h
      cases hp : parseArg a.kind fs total v with
      | error e => simp [hp] at h
      | ok x =>
        cases hr : fillArgs schema fs total rest with
        | none => simp [hp, hr] at h
        | some r =>
          simp only [hp, hr, Option.some.injEq] at h
          subst h
          have := ih hr
          have hrd : readingIn schema fs total (k, v) = some x := by
            unfold readingIn; simp only [hf]; exact parseArg_sound ht hp
          simp only [List.map_cons, this, hrd]

theorem readings_some {vals : List (Str × Val)} {args : List (Str × Str)} {f : Str × Str → Option Val}
    (h : vals.map (fun kv => (kv.1, some kv.2)) = args.map (fun kv => (kv.1, f kv))) :
    ∀ kv ∈ args, (f kv).isSome = true := by
  induction args generalizing vals with
  | nil => intro kv hkv; simp at hkv
  | cons a rest ih =>
    cases vals with
    | nil => simp at h
    | cons w ws =>
      simp only [List.map_cons, List.cons.injEq, Prod.mk.injEq] at h
      intro kv hkv
      simp only [List.mem_cons] at hkv
      rcases hkv with rfl | hkv
      · rw [← h.1.2]; rfl
      · exact ih h.2 kv hkv

theorem argParse_sound {schema : List TypedArg} {fs : Str} {total : Int} (ht : TotalOk total)
    {args : List (Str × Str)} {vals : List (Str × Val)} (h : argParse schema fs total args = some vals) :
    schema.all (fun a => !a.required || hasArg args a.name) = true ∧
      vals.map (fun kv => (kv.1, some kv.2)) = args.map (fun kv => (kv.1, readingIn schema fs total kv)) := by
  unfold argParse at h
  by_cases hr : schema.any (fun a => a.required && !hasArg args a.name) = true
  · rw [if_pos hr] at h; exact absurd h (by simp)
  · rw [if_neg hr] at h
    refine ⟨?_, fillArgs_sound ht h⟩
    simp only [List.all_eq_true]
    intro a ha
    simp only [List.any_eq_true, not_exists, not_and] at hr
    have := hr a ha
    cases hreq : a.required <;> cases hh : hasArg args a.name <;> simp_all

/-! ## plugin init -/

theorem bne_flip (a b : Str) : (a != b) = !(b == a) := by
  rw [Bool.beq_comm]; rfl

theorem isExtern_erase (args : List (Str × Str)) (k : String) :
    eraseArg args k = args.filter (fun kv => !([k].any (fun n => n.toList == kv.1))) := by
  unfold eraseArg
  congr 1
  funext kv
  simp only [List.any_cons, List.any_nil, Bool.or_false]
  exact bne_flip _ _

theorem erase_erase (args : List (Str × Str)) (k k' : String) :
    eraseArg (eraseArg args k) k' = args.filter (fun kv => !([k, k'].any (fun n => n.toList == kv.1))) := by
  unfold eraseArg
  rw [List.filter_filter]
  congr 1
  funext kv
  simp only [List.any_cons, List.any_nil, Bool.or_false, Bool.not_or]
  rw [bne_flip, bne_flip, Bool.and_comm]

/-- validity and honouring of one plugin's arguments, in the shape `pluginValid` / `expectedVals` use -/
def ArgsOk (env : Env) (sch : TypedSchema) (args : List (Str × Str)) (vals : List (Str × Val)) : Prop :=
  let d := declaredFor sch args
  d.args.all (fun a => !a.required || hasArg args a.name) = true ∧
  args.all (fun kv => isExtern d kv.1 || (argReading env sch d args kv).isSome) = true ∧
  vals.map (fun kv => (kv.1, some kv.2)) =
    (args.filter (fun kv => !isExtern d kv.1)).map (fun kv => (kv.1, argReading env sch d args kv))

/-- generic step: the parser ran on `args` minus the externally consumed ones -/
theorem argsOk_of_parse {env : Env} {sch : TypedSchema} {args : List (Str × Str)} {vals : List (Str × Val)}
    {d : Declared} (hd : declaredFor sch args = d) {total : Int} (ht : TotalOk total)
    (htot : totalFor env sch args = total)
    (h : argParse d.args env.fs total (args.filter (fun kv => !isExtern d kv.1)) = some vals) :
    ArgsOk env sch args vals := by
  unfold ArgsOk
  rw [hd]
  obtain ⟨h1, h2⟩ := argParse_sound ht h
  have hread : ∀ kv, readingIn d.args env.fs total kv = argReading env sch d args kv := by
    intro kv; unfold readingIn argReading; rw [htot]
    cases List.find? (fun a => a.name.toList == kv.1) d.args <;> rfl
  refine ⟨?_, ?_, ?_⟩
  · simp only [List.all_eq_true] at h1 ⊢
    intro a ha
    have := h1 a ha
    cases hreq : a.required
    · simp
    · simp only [hreq, Bool.not_true, Bool.false_or] at this ⊢
      exact hasArg_filter this
  · simp only [List.all_eq_true]
    intro kv hkv
    by_cases he : isExtern d kv.1 = true
    · simp [he]
    · have hmem : kv ∈ args.filter (fun kv => !isExtern d kv.1) := by
        simp only [List.mem_filter]; exact ⟨hkv, by simpa using he⟩
      have := readings_some h2 kv hmem
      rw [hread] at this
      simp [this]
  · rw [h2]
    apply List.map_congr_left
    intro kv _
    rw [hread]

theorem pluginInit_sound {env : Env} (he : EnvOk env) {sch : TypedSchema} (hc : sch.checksArgs = true)
    {args : List (Str × Str)} {vals : List (Str × Val)} (h : pluginInit env sch args = some vals) :
    ArgsOk env sch args vals := by
  unfold pluginInit at h
  simp only [hc, Bool.not_true, Bool.false_eq_true, if_false] at h
  by_cases hm : (sch.plugin == "memory_above") = true
  · rw [if_pos hm] at h
    cases hmem : env.memAt (lookupArg args "meminfo_location") with
    | none => simp [hmem] at h
    | some mt =>
      simp only [hmem] at h
      have hanon : hasArg (eraseArg args "meminfo_location") "threshold_anon" = hasArg args "threshold_anon" :=
        hasArg_erase_ne (by decide)
      rw [hanon] at h
      have htot : totalFor env sch args = mt := by
        unfold totalFor; rw [if_pos hm, hmem]; rfl
      by_cases ha : hasArg args "threshold_anon" = true
      · rw [if_pos ha, if_pos ha] at h
        have hd : declaredFor sch args =
            ⟨sch.args.map (renameArg "threshold" "threshold_anon"), ["meminfo_location", "threshold"]⟩ := by
          unfold declaredFor; rw [if_pos hm, if_pos ha]
        rw [erase_erase] at h
        exact argsOk_of_parse hd (he.mem _ _ hmem) htot (by
          simp only [isExtern]
          have hmap : (sch.args.map fun a => if a.name == "threshold" then { a with name := "threshold_anon" } else a) =
              sch.args.map (renameArg "threshold" "threshold_anon") := rfl
          rw [hmap] at h
          exact h)
      · rw [if_neg ha, if_neg ha] at h
        have hd : declaredFor sch args = ⟨sch.args, ["meminfo_location"]⟩ := by
          unfold declaredFor; rw [if_pos hm, if_neg ha]
        rw [isExtern_erase] at h
        exact argsOk_of_parse hd (he.mem _ _ hmem) htot (by simpa only [isExtern] using h)
  · rw [if_neg hm] at h
    by_cases hs : (sch.plugin == "kill_by_swap_usage") = true
    · rw [if_pos hs] at h
      have hd : declaredFor sch args = ⟨sch.args, ["meminfo_location"]⟩ := by
        unfold declaredFor; rw [if_neg hm, if_pos hs]
      have htot : totalFor env sch args = (env.swapAt (lookupArg args "meminfo_location")).getD 0 := by
        unfold totalFor; rw [if_neg hm, if_pos hs]
      have htok : TotalOk ((env.swapAt (lookupArg args "meminfo_location")).getD 0) := by
        cases hsw : env.swapAt (lookupArg args "meminfo_location") with
        | none => simp only [Option.getD_none]; exact totalOk_zero
        | some t => simp only [Option.getD_some]; exact he.swap _ _ hsw
      rw [isExtern_erase] at h
      exact argsOk_of_parse hd htok htot (by simpa only [isExtern] using h)
    · rw [if_neg hs] at h
      have hd : declaredFor sch args = ⟨sch.args, []⟩ := by
        unfold declaredFor; rw [if_neg hm, if_neg hs]
      have htot : totalFor env sch args = 0 := by
        unfold totalFor; rw [if_neg hm, if_neg hs]
      have hfil : args.filter (fun kv => !isExtern ⟨sch.args, []⟩ kv.1) = args := by
        apply List.filter_eq_self.2
        intro kv _
        simp [isExtern]
      have hparse : argParse sch.args env.fs 0 args = some vals := by
        cases hp : argParse sch.args env.fs 0 args with
        | none => simp [hp] at h
        | some w =>
          simp only [hp] at h
          by_cases hr : postParseRejects sch w = true
          · rw [if_pos hr] at h; exact absurd h (by simp)
          · rw [if_neg hr] at h; exact h
      exact argsOk_of_parse hd totalOk_zero htot (by rw [hfil]; exact hparse)

/-- `compilePluginGeneric`: an instantiated plugin is valid and holds exactly what it was given -/
theorem compilePlugin_sound {env : Env} (he : EnvOk env) {hook : Bool} {p : IRPlugin} {i : PluginInst}
    (h : compilePlugin env hook p = some i) : pluginValid env hook p = true ∧ instHonours env hook p i := by
  unfold compilePlugin at h
  by_cases hn : p.name.isEmpty = true
  · rw [if_pos hn] at h; exact absurd h (by simp)
  · rw [if_neg hn] at h
    rw [schemas_eq] at h
    cases hs : schemaOf declaredSchemas hook p.name with
    | none => simp [hs] at h
    | some sch =>
      simp only [hs] at h
      cases hi : pluginInit env sch p.args with
      | none => simp [hi] at h
      | some vals =>
        simp only [hi, Option.some.injEq] at h
        subst h
        have hmem : sch ∈ declaredSchemas := by
          unfold schemaOf at hs
          exact List.mem_of_find?_eq_some hs
        obtain ⟨h1, h2, h3⟩ := pluginInit_sound he (all_check sch hmem) hi
        constructor
        · unfold pluginValid
          simp only [hs]
          have : (!p.name.isEmpty) = true := by simpa using hn
          simp only [this, Bool.true_and, Bool.and_eq_true]
          exact ⟨h1, h2⟩
        · refine ⟨rfl, rfl, ?_⟩
          unfold expectedVals
          simp only [hs]
          exact h3

theorem compilePlugins_sound {env : Env} (he : EnvOk env) {hook : Bool} :
    ∀ {ps : List IRPlugin} {is : List PluginInst}, compilePlugins env hook ps = some is →
      ps.all (pluginValid env hook) = true ∧ Forall2 (instHonours env hook) ps is := by
  intro ps
  induction ps with
  | nil => intro is h; simp only [compilePlugins, Option.some.injEq] at h; subst h; simp [Forall2]
  | cons p rest ih =>
    intro is h
    simp only [compilePlugins] at h
    cases hp : compilePlugin env hook p with
    | none => simp [hp] at h
    | some i =>
      simp only [hp] at h
      cases hr : compilePlugins env hook rest with
      | none => simp [hr] at h
      | some is' =>
        simp only [hr, Option.some.injEq] at h
        subst h
        obtain ⟨h1, h2⟩ := compilePlugin_sound he hp
        obtain ⟨h3, h4⟩ := ih hr
        exact ⟨by simp [h1, h3], ⟨h2, h4⟩⟩

theorem compileDetectorGroup_sound {env : Env} (he : EnvOk env) {g : IRDetectorGroup} {c : DetectorGroupC}
    (h : compileDetectorGroup env g = some c) :
    (!g.name.isEmpty && g.detectors.all (pluginValid env false)) = true ∧ groupHonours env g c := by
  unfold compileDetectorGroup at h
  by_cases hn : g.name.isEmpty = true
  · rw [if_pos hn] at h; exact absurd h (by simp)
  · rw [if_neg hn] at h
    by_cases hd : g.detectors.isEmpty = true
    · rw [if_pos hd] at h; exact absurd h (by simp)
    · rw [if_neg hd] at h
      cases hp : compilePlugins env false g.detectors with
      | none => simp [hp] at h
      | some ds =>
        simp only [hp, Option.map_some, Option.some.injEq] at h
        subst h
        obtain ⟨h1, h2⟩ := compilePlugins_sound he hp
        have : (!g.name.isEmpty) = true := by simpa using hn
        exact ⟨by simp [this, h1], ⟨rfl, h2⟩⟩

theorem compileDetectorGroups_sound {env : Env} (he : EnvOk env) :
    ∀ {gs : List IRDetectorGroup} {cs : List DetectorGroupC}, compileDetectorGroups env gs = some cs →
      gs.all (fun g => !g.name.isEmpty && g.detectors.all (pluginValid env false)) = true ∧
        Forall2 (groupHonours env) gs cs := by
  intro gs
  induction gs with
  | nil => intro cs h; simp only [compileDetectorGroups, Option.some.injEq] at h; subst h; simp [Forall2]
  | cons g rest ih =>
    intro cs h
    simp only [compileDetectorGroups] at h
    cases hg : compileDetectorGroup env g with
    | none => simp [hg] at h
    | some c =>
      simp only [hg] at h
      cases hr : compileDetectorGroups env rest with
      | none => simp [hr] at h
      | some cs' =>
        simp only [hr, Option.some.injEq] at h
        subst h
        obtain ⟨h1, h2⟩ := compileDetectorGroup_sound he hg
        obtain ⟨h3, h4⟩ := ih hr
        refine ⟨?_, ⟨h2, h4⟩⟩
        simp only [List.all_cons, h3, Bool.and_true]
        exact h1

/-! ## outcomes: nothing escapes -/

theorem bind_ok {α β : Type} {r : Res α} {f : α → Res β} {b : β} (h : r.bind f = .ok b) :
    ∃ a, r = .ok a ∧ f a = .ok b := by
  cases r with
  | ok a => exact ⟨a, rfl, h⟩
  | rejected => simp [Res.bind] at h
  | throws e => simp [Res.bind] at h

def NoThrow {α : Type} (r : Res α) : Prop := ∀ e, r ≠ .throws e

theorem noThrow_bind {α β : Type} {r : Res α} {f : α → Res β} (hr : NoThrow r) (hf : ∀ a, NoThrow (f a)) :
    NoThrow (r.bind f) := by
  cases r with
  | ok a => exact hf a
  | rejected => intro e h; simp [Res.bind] at h
  | throws e => exact absurd rfl (hr e)

theorem noThrow_catchAll {α : Type} (r : Res α) : NoThrow r.catchAll := by
  cases r <;> intro e h <;> simp [Res.catchAll] at h

theorem noThrow_ofOption {α : Type} (o : Option α) : NoThrow (ofOption o) := by
  cases o <;> intro e h <;> simp [ofOption] at h

theorem noThrow_ok {α : Type} (a : α) : NoThrow (Res.ok a) := by intro e h; simp at h
theorem noThrow_rejected {α : Type} : NoThrow (Res.rejected : Res α) := by intro e h; simp at h

theorem noThrow_parseDelay (s : Str) : NoThrow (parseDelay s) := noThrow_catchAll _

theorem noThrow_ite {α : Type} {c : Prop} [Decidable c] {a b : Res α} (ha : NoThrow a) (hb : NoThrow b) :
    NoThrow (if c then a else b) := by
  by_cases h : c
  · rw [if_pos h]; exact ha
  · rw [if_neg h]; exact hb

theorem noThrow_compileRuleset (env : Env) (dropin : Bool) (r : IRRuleset) :
    NoThrow (compileRuleset env dropin r) := by
  unfold compileRuleset
  apply noThrow_ite noThrow_rejected
  apply noThrow_bind (noThrow_ofOption _)
  intro mask
  apply noThrow_ite noThrow_rejected
  apply noThrow_bind (noThrow_ite (noThrow_ok _) (noThrow_parseDelay _))
  intro pad
  apply noThrow_bind (noThrow_ite (noThrow_ok _) (noThrow_parseDelay _))
  intro pht
  apply noThrow_bind (noThrow_ofOption _)
  intro dgs
  apply noThrow_bind (noThrow_ofOption _)
  intro acts
  exact noThrow_ok _

theorem noThrow_compileRulesets (env : Env) : ∀ rs, NoThrow (compileRulesets env rs) := by
  intro rs
  induction rs with
  | nil => exact noThrow_ok _
  | cons r rest ih =>
    unfold compileRulesets
    apply noThrow_bind (noThrow_compileRuleset env false r)
    intro c
    apply noThrow_bind ih
    intro cs
    exact noThrow_ok _

theorem noThrow_compile (env : Env) (root : IRRoot) : NoThrow (compile env root) := by
  unfold compile
  apply noThrow_bind (noThrow_compileRulesets env _)
  intro rs
  apply noThrow_bind (noThrow_ofOption _)
  intro hs
  exact noThrow_ok _

theorem noThrow_compileDropInRulesets (env : Env) (base : List IRRuleset) :
    ∀ ds, NoThrow (compileDropInRulesets env base ds) := by
  intro ds
  induction ds with
  | nil => exact noThrow_ok _
  | cons d rest ih =>
    unfold compileDropInRulesets
    cases base.find? (fun rs => rs.name == d.name) with
    | none => exact noThrow_rejected
    | some rs =>
      simp only
      apply noThrow_bind (noThrow_compileRuleset env false rs)
      intro t
      apply noThrow_bind (noThrow_compileRuleset env true d)
      intro dr
      apply noThrow_bind (noThrow_ofOption _)
      intro m
      apply noThrow_bind ih
      intro rest'
      exact noThrow_ok _

theorem noThrow_compileDropIn (env : Env) (root dropin : IRRoot) : NoThrow (compileDropIn env root dropin) := by
  unfold compileDropIn
  apply noThrow_bind (noThrow_compileDropInRulesets env _ _)
  intro rs
  apply noThrow_bind (noThrow_ofOption _)
  intro hs
  exact noThrow_ok _

/-! ## rulesets -/

theorem parseDelay_ok {s : Str} {v : Int} (h : parseDelay s = .ok v) :
    inRange 0 (2 ^ 31) (intNumeral? s) = some v := by
  unfold parseDelay at h
  simp only at h
  cases hst : stoi s with
  | error e => cases e <;> simp [hst, Res.catchAll] at h
  | ok pr =>
    obtain ⟨x, rest⟩ := pr
    simp only [hst] at h
    by_cases hr : (!rest.isEmpty) = true
    · rw [if_pos hr] at h; simp [Res.catchAll] at h
    · rw [if_neg hr] at h
      by_cases hx : x < 0
      · rw [if_pos hx] at h; simp [Res.catchAll] at h
      · rw [if_neg hx] at h
        simp only [Res.catchAll, Res.ok.injEq] at h
        subst h
        have hrest : rest = [] := by
          cases rest with
          | nil => rfl
          | cons c cs => simp at hr
        subst hrest
        obtain ⟨r, h1, h2, h3, _, h5⟩ := (stoSigned_ok (bits := 32)).1 hst
        rw [scanInt_whole h1 h3.symm, ← h2]
        simp only [inRange]
        have : (0 : Int) ≤ x ∧ x < 2 ^ 31 := ⟨by omega, h5⟩
        rw [if_pos this]

theorem delayField_ok {dflt : Nat} {s : Str} {v : Int}
    (h : (if s.isEmpty then Res.ok (dflt : Int) else parseDelay s) = .ok v) :
    delayReading dflt s = some v ∧ delayValid s = true := by
  unfold delayReading delayValid
  by_cases he : s.isEmpty = true
  · rw [if_pos he] at h ⊢
    simp only [Res.ok.injEq] at h
    simp [h, he]
  · rw [if_neg he] at h ⊢
    have := parseDelay_ok h
    refine ⟨this, ?_⟩
    rw [this]; simp

theorem compileRuleset_sound {env : Env} (he : EnvOk env) {dropin : Bool} {r : IRRuleset} {c : RulesetC}
    (h : compileRuleset env dropin r = .ok c) : rulesetValid env r = true ∧ rulesetHonours env r c := by
  unfold compileRuleset at h
  by_cases hn : r.name.isEmpty = true
  · rw [if_pos hn] at h; exact absurd h (by simp)
  · rw [if_neg hn] at h
    obtain ⟨mask, _, h⟩ := bind_ok h
    by_cases hb : (!dropin && (r.dgs.isEmpty || r.acts.isEmpty)) = true
    · rw [if_pos hb] at h; exact absurd h (by simp)
    · rw [if_neg hb] at h
      obtain ⟨pad, hpad, h⟩ := bind_ok h
      obtain ⟨pht, hpht, h⟩ := bind_ok h
      obtain ⟨dgs, hdgs, h⟩ := bind_ok h
      obtain ⟨acts, hacts, h⟩ := bind_ok h
      simp only [Res.ok.injEq] at h
      subst h
      have hdgs' : compileDetectorGroups env r.dgs = some dgs := by
        cases hx : compileDetectorGroups env r.dgs with
        | none => simp [hx, ofOption] at hdgs
        | some y => simp only [hx, ofOption, Res.ok.injEq] at hdgs; rw [hdgs]
      have hacts' : compilePlugins env false r.acts = some acts := by
        cases hx : compilePlugins env false r.acts with
        | none => simp [hx, ofOption] at hacts
        | some y => simp only [hx, ofOption, Res.ok.injEq] at hacts; rw [hacts]
      obtain ⟨g1, g2⟩ := compileDetectorGroups_sound he hdgs'
      obtain ⟨a1, a2⟩ := compilePlugins_sound he hacts'
      obtain ⟨d1, d2⟩ := delayField_ok hpad
      obtain ⟨d3, d4⟩ := delayField_ok hpht
      constructor
      · unfold rulesetValid
        have : (!r.name.isEmpty) = true := by simpa using hn
        simp [this, d2, d4, g1, a1]
      · exact ⟨rfl, g2, a2, d1, d3, rfl, rfl, rfl, rfl, rfl⟩

theorem compileRulesets_sound {env : Env} (he : EnvOk env) :
    ∀ {rs : List IRRuleset} {cs : List RulesetC}, compileRulesets env rs = .ok cs →
      rs.all (rulesetValid env) = true ∧ Forall2 (rulesetHonours env) rs cs := by
  intro rs
  induction rs with
  | nil => intro cs h; simp only [compileRulesets, Res.ok.injEq] at h; subst h; simp [Forall2]
  | cons r rest ih =>
    intro cs h
    unfold compileRulesets at h
    obtain ⟨c, hc, h⟩ := bind_ok h
    obtain ⟨cs', hcs, h⟩ := bind_ok h
    simp only [Res.ok.injEq] at h
    subst h
    obtain ⟨h1, h2⟩ := compileRuleset_sound he hc
    obtain ⟨h3, h4⟩ := ih hcs
    exact ⟨by simp [h1, h3], ⟨h2, h4⟩⟩

theorem ofOption_ok {α : Type} {o : Option α} {a : α} (h : ofOption o = .ok a) : o = some a := by
  cases o with
  | none => simp [ofOption] at h
  | some x => simp only [ofOption, Res.ok.injEq] at h; rw [h]

theorem compile_sound {env : Env} (he : EnvOk env) {root : IRRoot} {e : EngineC}
    (h : compile env root = .ok e) : irValid env root = true ∧ engineHonours env root e := by
  unfold compile at h
  obtain ⟨rs, hrs, h⟩ := bind_ok h
  obtain ⟨hs, hhs, h⟩ := bind_ok h
  simp only [Res.ok.injEq] at h
  subst h
  obtain ⟨h1, h2⟩ := compileRulesets_sound he hrs
  obtain ⟨h3, h4⟩ := compilePlugins_sound he (ofOption_ok hhs)
  exact ⟨by simp [irValid, h1, h3], ⟨h2, h4⟩⟩

theorem compileDropInRulesets_sound {env : Env} (he : EnvOk env) (base : List IRRuleset) :
    ∀ {ds : List IRRuleset} {ms : List RulesetC}, compileDropInRulesets env base ds = .ok ms →
      ds.all (fun d => rulesetValid env d && base.any (fun b => b.name == d.name)) = true := by
  intro ds
  induction ds with
  | nil => intro ms _; rfl
  | cons d rest ih =>
    intro ms h
    unfold compileDropInRulesets at h
    cases hf : base.find? (fun rs => rs.name == d.name) with
    | none => simp [hf] at h
    | some rs =>
      simp only [hf] at h
      obtain ⟨t, _, h⟩ := bind_ok h
      obtain ⟨dr, hdr, h⟩ := bind_ok h
      obtain ⟨m, _, h⟩ := bind_ok h
      obtain ⟨rest', hrest, h⟩ := bind_ok h
      have h1 := (compileRuleset_sound he hdr).1
      have h2 : base.any (fun b => b.name == d.name) = true := by
        simp only [List.any_eq_true]
        exact ⟨rs, List.mem_of_find?_eq_some hf, List.find?_some (p := fun (rs : IRRuleset) => rs.name == d.name) hf⟩
      simp only [List.all_cons, h1, h2, Bool.and_self, Bool.true_and]
      exact ih hrest

theorem compileDropIn_sound {env : Env} (he : EnvOk env) {root dropin : IRRoot} {u : DropInUnitC}
    (h : compileDropIn env root dropin = .ok u) : dropInValid env root dropin = true := by
  unfold compileDropIn at h
  obtain ⟨rs, hrs, h⟩ := bind_ok h
  obtain ⟨hs, hhs, h⟩ := bind_ok h
  have h1 := compileDropInRulesets_sound he root.rulesets hrs
  have h2 := (compilePlugins_sound he (ofOption_ok hhs)).1
  simp [dropInValid, h1, h2]

end OomdProofs.Config

import OomdModel.Config
import OomdProofs.Parse

namespace OomdProofs.Config
end OomdProofs.Config

import OomdProofs.Engine
import OomdModel.EngineSpec

/-! Lemmas for C05 (post-action delay): shape of the events of one chain / one `rsRun`. -/

namespace OomdModel.Engine

/-- deadline set by a chain, if it ends with STOP -/
def chainStop (cfg : RsCfg) (sc : Script) : List Nat → Nat → Option Nat
  | [], _ => none
  | a :: as, now =>
    match (sc a).ret with
    | .cont => chainStop cfg sc as (now + (sc a).adv)
    | .stop => some (now + (sc a).adv + ((sc a).pause.getD cfg.delay))
    | .async => none

theorem chainStop_ge (cfg : RsCfg) (sc : Script) (as : List Nat) (now dl : Nat)
    (h : chainStop cfg sc as now = some dl) : now ≤ dl := by
  induction as generalizing now with
  | nil => simp [chainStop] at h
  | cons a as ih =>
    simp only [chainStop] at h
    cases hr : (sc a).ret <;> simp only [hr] at h
    · have := ih _ h; omega
    · cases h; omega
    · cases h

theorem applyPause_none (inv : Bool) (c : Call) (n : Nat) (st : RsState) (h : c.pause = none) :
    applyPause inv c n st = st := by
  unfold applyPause
  split
  · rename_i d hd; rw [h] at hd; cases hd
  · rfl

theorem chain_state (cfg : RsCfg) (sc : Script) (ctx : Ctx) (as : List Nat) (i now : Nat) (st : RsState)
    (hp : Protocol sc) (hg : st.overrode = false) :
    (chain cfg sc true ctx as i now st).1.overrode = false ∧
    (chain cfg sc true ctx as i now st).1.pauseUntil = (chainStop cfg sc as now).getD st.pauseUntil := by
  induction as generalizing i now st with
  | nil => simp [chain, chainStop, hg]
  | cons a as ih =>
    simp only [chain, chainStop]
    cases hr : (sc a).ret
    · have hn : (sc a).pause = none := by
        cases hq : (sc a).pause with
        | none => rfl
        | some d => have := hp a (by simp [hq]); rw [hr] at this; cases this
      simp only [applyPause_none _ _ _ _ hn]
      exact ih _ _ _ hg
    · cases hq : (sc a).pause with
      | none => simp [applyPause, hq, onStop, hg]
      | some d => simp [applyPause, hq, onStop]
    · have hn : (sc a).pause = none := by
        cases hq : (sc a).pause with
        | none => rfl
        | some d => have := hp a (by simp [hq]); rw [hr] at this; cases this
      simp [applyPause_none _ _ _ _ hn, hg]

theorem chain_holds (cfg : RsCfg) (sc : Script) (inv : Bool) (ctx : Ctx) (as : List Nat) (i now : Nat) (st : RsState)
    (rest : List Obs) :
    holdsC05 ((chain cfg sc inv ctx as i now st).2.1.map (obs cfg sc) ++ rest) =
      ((match chainStop cfg sc as now with
        | some dl => rest.all (okAfter dl)
        | none => true) && holdsC05 rest) := by
  induction as generalizing i now st with
  | nil => simp [chain, chainStop]
  | cons a as ih =>
    simp only [chain, chainStop]
    cases hr : (sc a).ret
    · simp only [List.map_cons, List.cons_append, holdsC05, obs, hr]
      simpa using ih _ _ _
    · simp [holdsC05, obs, hr]
    · simp [holdsC05, obs, hr]

theorem okAfter_mono {b b' : Nat} (h : b ≤ b') (o : Obs) (ho : okAfter b' o = true) : okAfter b o = true := by
  unfold okAfter at *
  cases hq : o.actAt with
  | none => rfl
  | some t =>
    rw [hq] at ho
    have : b' ≤ t := by simpa using ho
    simp only [decide_eq_true_eq]
    omega

theorem all_okAfter_mono {b b' : Nat} (h : b ≤ b') (l : List Obs) (hl : l.all (okAfter b') = true) :
    l.all (okAfter b) = true := by
  rw [List.all_eq_true] at *
  exact fun o ho => okAfter_mono h o (hl o ho)

theorem chain_okAfter (cfg : RsCfg) (sc : Script) (inv : Bool) (ctx : Ctx) (as : List Nat) (i now : Nat) (st : RsState)
    (b : Nat) (hb : b ≤ now) :
    ((chain cfg sc inv ctx as i now st).2.1.map (obs cfg sc)).all (okAfter b) = true := by
  rw [List.all_eq_true]
  intro o ho
  rw [List.mem_map] at ho
  obtain ⟨e, he, rfl⟩ := ho
  obtain ⟨a, t, rfl, ht⟩ := chain_events cfg sc inv ctx as i now st e he
  simp [obs, okAfter]; omega

/-- detector events carry no C05 obligation -/
theorem dets_holds (cfg : RsCfg) (sc : Script) (l : List Ev) (hl : ∀ e ∈ l, isDet e = true) (rest : List Obs) :
    holdsC05 (l.map (obs cfg sc) ++ rest) = holdsC05 rest := by
  induction l with
  | nil => rfl
  | cons e es ih =>
    have he := hl e (by simp)
    cases e <;> simp [isDet] at he
    simp only [List.map_cons, List.cons_append, holdsC05, obs]
    simpa using ih (fun e h => hl e (by simp [h]))

theorem dets_okAfter (cfg : RsCfg) (sc : Script) (l : List Ev) (hl : ∀ e ∈ l, isDet e = true) (b : Nat) :
    (l.map (obs cfg sc)).all (okAfter b) = true := by
  rw [List.all_eq_true]
  intro o ho
  rw [List.mem_map] at ho
  obtain ⟨e, he, rfl⟩ := ho
  have := hl e he
  cases e <;> simp [isDet] at this
  simp [obs, okAfter]

/-- Summary of one `rsRun` of the repaired engine under the plugin protocol. `o` is the deadline
set in this run, if a chain ended with STOP. -/
theorem rsRun_spec (cfg : RsCfg) (sc : Script) (st : RsState) (now ctr : Nat)
    (hp : Protocol sc) (hg : st.overrode = false) :
    ∃ o : Option Nat,
      (rsRun true cfg sc st now ctr).1.overrode = false ∧
      (rsRun true cfg sc st now ctr).1.pauseUntil = o.getD st.pauseUntil ∧
      (∀ rest, holdsC05 ((rsRun true cfg sc st now ctr).2.1.map (obs cfg sc) ++ rest) =
        ((match o with
          | some dl => rest.all (okAfter dl)
          | none => true) && holdsC05 rest)) ∧
      ((rsRun true cfg sc st now ctr).2.1.map (obs cfg sc)).all (okAfter st.pauseUntil) = true ∧
      (∀ dl, o = some dl → st.pauseUntil ≤ dl) ∧
      now ≤ (rsRun true cfg sc st now ctr).2.2.1 := by
  have hdet := detPhase_all_det cfg sc cfg.groups now ctr none
  have hclk := detPhase_clock cfg sc cfg.groups now ctr none
  -- a chain started at the post-detector reading `n1` with `st.pauseUntil ≤ n1`
  have key : ∀ (ctx : Ctx) (as : List Nat) (i : Nat) (s0 : RsState),
      s0.overrode = false → s0.pauseUntil = st.pauseUntil →
      st.pauseUntil ≤ (detPhase cfg sc cfg.groups now ctr none).2.2.1 →
      let r := chain cfg sc true ctx as i (detPhase cfg sc cfg.groups now ctr none).2.2.1 s0
      let evs := (detPhase cfg sc cfg.groups now ctr none).2.1 ++ r.2.1
      ∃ o : Option Nat, r.1.overrode = false ∧ r.1.pauseUntil = o.getD st.pauseUntil ∧
        (∀ rest, holdsC05 (evs.map (obs cfg sc) ++ rest) =
          ((match o with | some dl => rest.all (okAfter dl) | none => true) && holdsC05 rest)) ∧
        (evs.map (obs cfg sc)).all (okAfter st.pauseUntil) = true ∧
        (∀ dl, o = some dl → st.pauseUntil ≤ dl) ∧ now ≤ r.2.2 := by
    intro ctx as i s0 h0 hpu hle
    have hs := chain_state cfg sc ctx as i (detPhase cfg sc cfg.groups now ctr none).2.2.1 s0 hp h0
    refine ⟨chainStop cfg sc as (detPhase cfg sc cfg.groups now ctr none).2.2.1, hs.1, by rw [hs.2, hpu], ?_, ?_, ?_, ?_⟩
    · intro rest
      rw [List.map_append, List.append_assoc, dets_holds cfg sc _ hdet, chain_holds]
    · rw [List.map_append, List.all_append, dets_okAfter cfg sc _ hdet, chain_okAfter _ _ _ _ _ _ _ _ _ hle]
      rfl
    · intro dl hdl
      have := chainStop_ge _ _ _ _ _ hdl
      omega
    · exact Nat.le_trans hclk (chain_clock ..)
  -- no chain ran
  have nochain : ∀ (s0 : RsState), s0.overrode = false → s0.pauseUntil = st.pauseUntil →
      ∃ o : Option Nat, s0.overrode = false ∧ s0.pauseUntil = o.getD st.pauseUntil ∧
        (∀ rest, holdsC05 (((detPhase cfg sc cfg.groups now ctr none).2.1 ++ []).map (obs cfg sc) ++ rest) =
          ((match o with | some dl => rest.all (okAfter dl) | none => true) && holdsC05 rest)) ∧
        (((detPhase cfg sc cfg.groups now ctr none).2.1 ++ []).map (obs cfg sc)).all (okAfter st.pauseUntil) = true ∧
        (∀ dl, o = some dl → st.pauseUntil ≤ dl) ∧ now ≤ (detPhase cfg sc cfg.groups now ctr none).2.2.1 := by
    intro s0 h0 hpu
    refine ⟨none, h0, by simp [hpu], ?_, ?_, by simp, hclk⟩
    · intro rest; simp [dets_holds cfg sc _ hdet]
    · simp [dets_okAfter cfg sc _ hdet]
  unfold rsRun
  simp only
  split
  · simpa using nochain st hg rfl
  · rename_i hnp
    have hle : st.pauseUntil ≤ (detPhase cfg sc cfg.groups now ctr none).2.2.1 := by omega
    split
    · rename_i i actx hact
      split
      · simpa using key actx (cfg.actions.drop i) i { st with active := none } hg rfl hle
      · unfold startFresh
        split
        · simpa using key _ cfg.actions 0 { st with active := none } hg rfl hle
        · simpa using nochain { st with active := none } hg rfl
    · unfold startFresh
      split
      · simpa using key _ cfg.actions 0 st hg rfl hle
      · simpa using nochain st hg rfl

end OomdModel.Engine

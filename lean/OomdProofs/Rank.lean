import OomdModel.Rank

/-!
# Helper lemmas for C09 (ranking): the sort specification, independent of the number instance
-/

namespace OomdModel.Rank

variable {K : Type}

/-! ## `sortedDesc` / `Admissible` -/

theorem gtPK_false_iff (ltK : K → K → Bool) (x c : Entry K) :
    gtPK ltK x c = false ↔ x.pref ≤ c.pref ∧ (x.pref = c.pref → ltK c.key x.key = false) := by
  unfold gtPK
  cases h : ltK c.key x.key <;> simp <;> omega

theorem gtPK_irrefl (ltK : K → K → Bool) (hirr : ∀ k, ltK k k = false) (c : Entry K) : gtPK ltK c c = false := by
  rw [gtPK_false_iff]; exact ⟨Int.le_refl _, fun _ => hirr _⟩

theorem sortedDesc_iff (ltK : K → K → Bool) (l : List (Entry K)) :
    sortedDesc ltK l = true ↔ l.Pairwise (fun a b => gtPK ltK b a = false) := by
  induction l with
  | nil => simp [sortedDesc]
  | cons a rest ih =>
    simp only [sortedDesc, Bool.and_eq_true, ih, List.pairwise_cons, headOK, List.all_eq_true,
      Bool.not_eq_eq_eq_not, Bool.not_true]

/-- The first element of an admissible output is in the input and nothing in the input compares greater. -/
theorem admissible_head (ltK : K → K → Bool) (hirr : ∀ k, ltK k k = false) {inp rest : List (Entry K)} {c : Entry K}
    (h : Admissible ltK inp (c :: rest)) : c ∈ inp ∧ ∀ x ∈ inp, gtPK ltK x c = false := by
  obtain ⟨hp, hs⟩ := h
  rw [sortedDesc_iff, List.pairwise_cons] at hs
  refine ⟨hp.mem_iff.1 (List.mem_cons_self ..), fun x hx => ?_⟩
  rcases List.mem_cons.1 (hp.mem_iff.2 hx) with rfl | hr
  · exact gtPK_irrefl ltK hirr _
  · exact hs.1 x hr

theorem admissible_mem_iff (ltK : K → K → Bool) {inp out : List (Entry K)} (h : Admissible ltK inp out) (x : Entry K) :
    x ∈ out ↔ x ∈ inp := h.1.mem_iff

theorem admissible_nil (ltK : K → K → Bool) {inp : List (Entry K)} (h : Admissible ltK inp []) : inp = [] :=
  List.Perm.eq_nil (List.Perm.symm h.1)

/-! ## the executable acceptor `admitsIds` is sound for `Admissible` -/

theorem lookup_some {inp : List (Entry K)} {i : Nat} {e : Entry K} (h : lookup inp i = some e) : e ∈ inp ∧ e.id = i := by
  unfold lookup at h
  exact ⟨List.mem_of_find?_eq_some h, by simpa using List.find?_some h⟩

theorem mapM_lookup {inp : List (Entry K)} : ∀ {ids : List Nat} {out : List (Entry K)},
    ids.mapM (lookup inp) = some out → out.map (·.id) = ids ∧ ∀ e ∈ out, e ∈ inp := by
  intro ids
  induction ids with
  | nil => intro out h; simp at h; subst h; simp
  | cons i is ih =>
    intro out h
    rw [List.mapM_cons] at h
    cases h1 : lookup inp i with
    | none => simp [h1] at h
    | some e =>
      cases h2 : is.mapM (lookup inp) with
      | none => simp [h1, h2] at h
      | some tl =>
        simp [h1, h2] at h
        subst h
        obtain ⟨hm, hin⟩ := ih h2
        obtain ⟨he, hid⟩ := lookup_some h1
        refine ⟨by simp [hm, hid], ?_⟩
        intro x hx
        rcases List.mem_cons.1 hx with rfl | hx
        · exact he
        · exact hin x hx

/-- entries of `inp` are determined by their ids when ids are distinct -/
theorem eq_of_id_eq {inp : List (Entry K)} (hnd : (inp.map (·.id)).Nodup) {a b : Entry K}
    (ha : a ∈ inp) (hb : b ∈ inp) (h : a.id = b.id) : a = b := by
  induction inp with
  | nil => cases ha
  | cons x xs ih =>
    simp only [List.map_cons, List.nodup_cons, List.mem_map, not_exists, not_and] at hnd
    rcases List.mem_cons.1 ha with rfl | ha' <;> rcases List.mem_cons.1 hb with rfl | hb'
    · rfl
    · exact absurd h.symm (hnd.1 b hb')
    · exact absurd h (hnd.1 a ha')
    · exact ih hnd.2 ha' hb'

/-- a list of members of `inp` whose ids are a permutation of the (distinct) ids of `inp` is a permutation of `inp` -/
theorem perm_of_ids_perm : ∀ {inp out : List (Entry K)}, (inp.map (·.id)).Nodup → (∀ e ∈ out, e ∈ inp) →
    (out.map (·.id)).Perm (inp.map (·.id)) → out.Perm inp := by
  intro inp
  induction inp with
  | nil =>
    intro out _ _ hp
    have := hp.length_eq
    simp at this
    subst this
    exact List.Perm.refl _
  | cons x xs ih =>
    intro out hnd hin hp
    have hx : x.id ∈ out.map (·.id) := hp.mem_iff.2 (by simp)
    obtain ⟨o, ho, hoid⟩ := List.mem_map.1 hx
    have hox : o = x := eq_of_id_eq hnd (hin o ho) (List.mem_cons_self ..) hoid
    subst hox
    obtain ⟨s, t, rfl⟩ := List.append_of_mem ho
    have hmid : (s ++ o :: t).Perm (o :: (s ++ t)) := List.perm_middle
    have hp' : ((s ++ t).map (·.id)).Perm (xs.map (·.id)) := by
      have h1 : ((o :: (s ++ t)).map (·.id)).Perm ((o :: xs).map (·.id)) := (hmid.map _).symm.trans hp
      simp only [List.map_cons, List.map_append] at h1
      simpa using List.Perm.cons_inv h1
    have hnd' : (xs.map (·.id)).Nodup := (List.nodup_cons.1 (by simpa using hnd)).2
    have hnotin : o.id ∉ xs.map (·.id) := (List.nodup_cons.1 (by simpa using hnd)).1
    have hin' : ∀ e ∈ s ++ t, e ∈ xs := by
      intro e he
      have hmem : e ∈ s ++ o :: t := by
        rcases List.mem_append.1 he with h | h
        · exact List.mem_append_left _ h
        · exact List.mem_append_right _ (List.mem_cons_of_mem _ h)
      rcases List.mem_cons.1 (hin e hmem) with rfl | h
      · exact absurd (hp'.mem_iff.1 (List.mem_map.2 ⟨e, he, rfl⟩)) hnotin
      · exact h
    exact hmid.trans (List.Perm.cons _ (ih hnd' hin' hp'))

theorem admitsIds_sound (ltK : K → K → Bool) {inp : List (Entry K)} (hnd : (inp.map (·.id)).Nodup) {ids : List Nat}
    (h : admitsIds ltK inp ids = true) : ∃ out, out.map (·.id) = ids ∧ Admissible ltK inp out := by
  unfold admitsIds at h
  cases hm : ids.mapM (lookup inp) with
  | none => simp [hm] at h
  | some out =>
    simp only [hm, Bool.and_eq_true] at h
    obtain ⟨hmap, hin⟩ := mapM_lookup hm
    refine ⟨out, hmap, perm_of_ids_perm hnd hin ?_, h.2⟩
    rw [hmap]
    exact List.isPerm_iff.1 h.1

/-! ## what the kill loop (C03) needs from a ranking -/

/-- `l` is a permutation of a sublist of `m` -/
def SubPerm {α : Type} (l m : List α) : Prop := ∃ sub, sub.Sublist m ∧ l.Perm sub

/-- sorted non-increasingly by `(preference, key)` -/
def SortedByPrefKey (ltK : K → K → Bool) (out : List (Entry K)) : Prop :=
  out.Pairwise fun a b => b.pref ≤ a.pref ∧ (b.pref = a.pref → ltK a.key b.key = false)

theorem admissible_sortedByPrefKey (ltK : K → K → Bool) {inp out : List (Entry K)} (h : Admissible ltK inp out) :
    SortedByPrefKey ltK out := by
  have := (sortedDesc_iff ltK out).1 h.2
  exact this.imp (fun {a b} hab => (gtPK_false_iff ltK b a).1 hab)

/-- entries computed from (a filtered part of) the siblings: ids of any admissible output are a sub-permutation
    of the siblings' ids -/
theorem admissible_subperm {S : Type} (ltK : K → K → Bool) (sid : S → Nat) (f : S → Bool) (g : S → Entry K)
    (hg : ∀ s, (g s).id = sid s) (sibs : List S) {out : List (Entry K)}
    (h : Admissible ltK ((sibs.filter f).map g) out) : SubPerm (out.map (·.id)) (sibs.map sid) := by
  refine ⟨(sibs.filter f).map sid, (List.filter_sublist (l := sibs)).map sid, ?_⟩
  have := h.1.map (·.id)
  simpa [List.map_map, Function.comp_def, hg] using this

/-- the same without a filter -/
theorem admissible_subperm_map {S : Type} (ltK : K → K → Bool) (sid : S → Nat) (g : S → Entry K)
    (hg : ∀ s, (g s).id = sid s) (sibs : List S) {out : List (Entry K)}
    (h : Admissible ltK (sibs.map g) out) : SubPerm (out.map (·.id)) (sibs.map sid) := by
  refine ⟨sibs.map sid, List.Sublist.refl _, ?_⟩
  have := h.1.map (·.id)
  simpa [List.map_map, Function.comp_def, hg] using this

/-! ## exact (`Rat`) instance -/

theorem rat_lt_false_iff (a b : Rat) : Num.lt a b = false ↔ b ≤ a := by
  simp [Num.lt, Rat.not_lt]

theorem rat_ge_iff (a b : Rat) : Num.ge a b = true ↔ b ≤ a := by
  simp [Num.ge, Num.lt, Rat.not_lt]

/-- `a ≥ b` in the lexicographic order of the growth tuple -/
theorem ltGrowthKey_false_iff (a b : Int × Rat × Int) : ltGrowthKey a b = false ↔
    b.1 < a.1 ∨ (b.1 = a.1 ∧ (b.2.1 < a.2.1 ∨ (b.2.1 = a.2.1 ∧ b.2.2 ≤ a.2.2))) := by
  unfold ltGrowthKey
  simp only [Bool.or_eq_false_iff, Bool.and_eq_false_imp, decide_eq_false_iff_not, Bool.not_eq_true',
    Int.not_lt, Num.lt]
  constructor
  · rintro ⟨h1, h2⟩
    rcases Int.lt_or_eq_of_le h1 with h | h
    · exact Or.inl h
    · refine Or.inr ⟨h, ?_⟩
      obtain ⟨h3, h4⟩ := h2 (by omega)
      have h3' : b.2.1 ≤ a.2.1 := Rat.not_lt.1 h3
      by_cases h5 : b.2.1 = a.2.1
      · exact Or.inr ⟨h5, h4 (by rw [h5]; exact Rat.lt_irrefl)⟩
      · exact Or.inl (Rat.lt_of_le_of_ne h3' h5)
  · rintro (h | ⟨h, h' | ⟨h', h''⟩⟩)
    · exact ⟨by omega, fun hc => by omega⟩
    · exact ⟨by omega, fun _ => ⟨Rat.not_lt.2 (Rat.le_of_lt h'), fun hc => absurd h' hc⟩⟩
    · exact ⟨by omega, fun _ => ⟨by rw [h']; exact Rat.lt_irrefl, fun _ => h''⟩⟩

theorem ltGrowthKey_irrefl (a : Int × Rat × Int) : ltGrowthKey a a = false := by
  rw [ltGrowthKey_false_iff]; exact Or.inr ⟨rfl, Or.inr ⟨rfl, Int.le_refl _⟩⟩

/-- truncation of a non-negative rational is its floor -/
theorem ratTrunc_of_nonneg {a : Rat} (h : 0 ≤ a) : ratTrunc a = a.floor := by simp [ratTrunc, h]

theorem ratTrunc_le_iff {a : Rat} (h : 0 ≤ a) (n : Int) : ratTrunc a ≤ n ↔ a < ((n + 1 : Int) : Rat) := by
  rw [ratTrunc_of_nonneg h, ← Rat.floor_lt_iff]; omega

/-! ## growth plugin, exact instance -/

theorem growthRatio_nonneg (s : Stat Rat Rat) (hc : 0 ≤ s.cur) (ha : 0 ≤ s.avg) : (0 : Rat) ≤ growthRatio s := by
  simp only [growthRatio, memoryGrowth, Narrow.narrow, id, Num.zero, Num.div, Num.ofInt]
  split
  · exact Rat.le_refl
  · rename_i hne
    have hpos : (0 : Rat) < (s.avg : Rat) := by exact_mod_cast (show 0 < s.avg by omega)
    rw [← Rat.not_lt, Rat.div_lt_iff hpos, Rat.not_lt, Rat.zero_mul]
    exact_mod_cast hc


/-- first tuple component is 0 for every equally preferred sibling when no size-eligible one has positive effective usage -/
theorem key1_zero (p : GrowthParams Rat) (sibs : List (Stat Rat Rat)) (hwf : ∀ s ∈ sibs, 0 ≤ s.cur ∧ 0 ≤ s.avg ∧ s.prot ≤ s.cur) (pref : Int)
    (hno : ∀ s ∈ sibs, s.pref = pref → sizeEligible (growthCtx Rat p sibs) s = true → s.eff ≤ 0)
    (s : Stat Rat Rat) (hs : s ∈ sibs) (hp : s.pref = pref) : (growthKey p (growthCtx Rat p sibs) s).1 = 0 := by
  simp only [growthKey]
  split
  · rename_i he
    have h1 := hno s hs hp he
    have h2 := (hwf s hs).2.2
    simp only [Stat.eff, effectiveUsage] at h1 ⊢
    omega
  · rfl


/-! ## the percentile cut (`std::nth_element`) -/

theorem insertDesc_perm (x : Int) (l : List Int) : (insertDesc x l).Perm (x :: l) := by
  induction l with
  | nil => exact List.Perm.refl _
  | cons y ys ih =>
    simp only [insertDesc]
    split
    · exact List.Perm.refl _
    · exact (List.Perm.cons y ih).trans (List.Perm.swap x y ys)

theorem sortDescInt_perm (l : List Int) : (sortDescInt l).Perm l := by
  induction l with
  | nil => exact List.Perm.refl _
  | cons x xs ih =>
    show (insertDesc x (sortDescInt xs)).Perm (x :: xs)
    exact (insertDesc_perm x _).trans (List.Perm.cons x ih)

theorem insertDesc_sorted (x : Int) (l : List Int) (h : l.Pairwise (fun a b => b ≤ a)) :
    (insertDesc x l).Pairwise (fun a b => b ≤ a) := by
  induction l with
  | nil => simp [insertDesc]
  | cons y ys ih =>
    rw [List.pairwise_cons] at h
    simp only [insertDesc]
    split
    · rename_i hlt
      rw [List.pairwise_cons]
      refine ⟨?_, List.pairwise_cons.2 h⟩
      intro a ha
      rcases List.mem_cons.1 ha with rfl | ha
      · omega
      · have := h.1 a ha; omega
    · rename_i hnlt
      rw [List.pairwise_cons]
      refine ⟨?_, ih h.2⟩
      intro a ha
      rcases List.mem_cons.1 ((insertDesc_perm x ys).mem_iff.1 ha) with rfl | ha
      · omega
      · exact h.1 a ha

theorem sortDescInt_sorted (l : List Int) : (sortDescInt l).Pairwise (fun a b => b ≤ a) := by
  induction l with
  | nil => simp [sortDescInt]
  | cons x xs ih => exact insertDesc_sorted x _ ih

/-- in a list sorted in descending order, fewer than `i+1` elements exceed the `i`-th and at least `i+1` reach it -/
theorem sorted_index_counts : ∀ (s : List Int), s.Pairwise (fun a b => b ≤ a) → ∀ (i : Nat) (hi : i < s.length),
    (s.filter fun x => decide (s[i] < x)).length ≤ i ∧ i + 1 ≤ (s.filter fun x => decide (s[i] ≤ x)).length := by
  intro s
  induction s with
  | nil => intro _ i hi; simp at hi
  | cons a t ih =>
    intro hs i hi
    rw [List.pairwise_cons] at hs
    cases i with
    | zero =>
      simp only [List.getElem_cons_zero]
      constructor
      · have : (List.filter (fun x => decide (a < x)) (a :: t)) = [] := by
          rw [List.filter_eq_nil_iff]
          intro x hx
          rcases List.mem_cons.1 hx with rfl | hx
          · simp
          · have := hs.1 x hx; simp; omega
        simp [this]
      · simp
    | succ j =>
      have hj : j < t.length := by simpa using hi
      obtain ⟨h1, h2⟩ := ih hs.2 j hj
      simp only [List.getElem_cons_succ]
      have ham : t[j] ≤ a := hs.1 _ (List.getElem_mem hj)
      constructor
      · rw [List.filter_cons]
        split
        · simp; omega
        · omega
      · rw [List.filter_cons]
        have : decide (t[j] ≤ a) = true := by simpa using ham
        simp only [this, if_true, List.length_cons]
        omega

theorem nthIndex_lt (n : Nat) (P : Int) (hn : 0 < n) (hP : 0 < P) (hP100 : P < 100) : nthIndex n P < n := by
  unfold nthIndex
  have h1 : (n : Int) * (100 - P) ≤ (n : Int) * 99 := Int.mul_le_mul_of_nonneg_left (by omega) (by omega)
  have h2 : (n : Int) * 1 ≤ (n : Int) * (100 - P) := Int.mul_le_mul_of_nonneg_left (by omega) (by omega)
  generalize (n : Int) * (100 - P) = q at *
  omega

/-- `nthIndex + 1 = ⌈n (100 − P) / 100⌉` -/
theorem nthIndex_ceil (n : Nat) (P : Int) (hn : 0 < n) (hP : 0 < P) (hP100 : P < 100) :
    (n : Int) * (100 - P) ≤ ((nthIndex n P + 1 : Nat) : Int) * 100 ∧ ((nthIndex n P : Nat) : Int) * 100 < (n : Int) * (100 - P) := by
  unfold nthIndex
  have h2 : (n : Int) * 1 ≤ (n : Int) * (100 - P) := Int.mul_le_mul_of_nonneg_left (by omega) (by omega)
  generalize (n : Int) * (100 - P) = q at *
  omega

theorem growthMinEff_cut (P : Int) (effs : List Int) (hn : 0 < effs.length) (hP : 0 < P) (hP100 : P < 100) :
    growthMinEff P effs ∈ effs ∧
    (effs.filter fun x => decide (growthMinEff P effs < x)).length ≤ nthIndex effs.length P ∧
    nthIndex effs.length P + 1 ≤ (effs.filter fun x => decide (growthMinEff P effs ≤ x)).length := by
  have hlt := nthIndex_lt effs.length P hn hP hP100
  have hperm := sortDescInt_perm effs
  have hlen : (sortDescInt effs).length = effs.length := hperm.length_eq
  have hi : nthIndex effs.length P < (sortDescInt effs).length := by omega
  have hm : growthMinEff P effs = (sortDescInt effs)[nthIndex effs.length P] := by
    simp only [growthMinEff, hn, hP, and_self, if_true]
    simp [List.getD, hi]
  obtain ⟨h1, h2⟩ := sorted_index_counts _ (sortDescInt_sorted effs) _ hi
  rw [hm]
  refine ⟨hperm.mem_iff.1 (List.getElem_mem hi), ?_, ?_⟩
  · rw [← (hperm.filter _).length_eq]; exact h1
  · rw [← (hperm.filter _).length_eq]; exact h2


end OomdModel.Rank

import OomdModel.Rank

/-!
# Helper lemmas for C09 (ranking): the sort specification, independent of the number instance
-/

namespace OomdModel.Rank

variable {K : Type}

/-! ## `sortedDesc` / `Admissible` -/

theorem gtPK_false_iff (ltK : K → K → Bool) (x c : Entry K) :
    gtPK ltK x c = false ↔ x.pref ≤ c.pref ∧ (x.pref = c.pref → ltK c.key x.key = false) := by
  unfold gtPK
  cases h : ltK c.key x.key <;> simp <;> omega

theorem gtPK_irrefl (ltK : K → K → Bool) (hirr : ∀ k, ltK k k = false) (c : Entry K) : gtPK ltK c c = false := by
  rw [gtPK_false_iff]; exact ⟨Int.le_refl _, fun _ => hirr _⟩

theorem sortedDesc_iff (ltK : K → K → Bool) (l : List (Entry K)) :
    sortedDesc ltK l = true ↔ l.Pairwise (fun a b => gtPK ltK b a = false) := by
  induction l with
  | nil => simp [sortedDesc]
  | cons a rest ih =>
    simp only [sortedDesc, Bool.and_eq_true, ih, List.pairwise_cons, headOK, List.all_eq_true,
      Bool.not_eq_eq_eq_not, Bool.not_true]

/-- The first element of an admissible output is in the input and nothing in the input compares greater. -/
theorem admissible_head (ltK : K → K → Bool) (hirr : ∀ k, ltK k k = false) {inp rest : List (Entry K)} {c : Entry K}
    (h : Admissible ltK inp (c :: rest)) : c ∈ inp ∧ ∀ x ∈ inp, gtPK ltK x c = false := by
  obtain ⟨hp, hs⟩ := h
  rw [sortedDesc_iff, List.pairwise_cons] at hs
  refine ⟨hp.mem_iff.1 (List.mem_cons_self ..), fun x hx => ?_⟩
  rcases List.mem_cons.1 (hp.mem_iff.2 hx) with rfl | hr
  · exact gtPK_irrefl ltK hirr _
  · exact hs.1 x hr

theorem admissible_mem_iff (ltK : K → K → Bool) {inp out : List (Entry K)} (h : Admissible ltK inp out) (x : Entry K) :
    x ∈ out ↔ x ∈ inp := h.1.mem_iff

theorem admissible_nil (ltK : K → K → Bool) {inp : List (Entry K)} (h : Admissible ltK inp []) : inp = [] :=
  List.Perm.eq_nil (List.Perm.symm h.1)

/-! ## the executable acceptor `admitsIds` is sound for `Admissible` -/

theorem lookup_some {inp : List (Entry K)} {i : Nat} {e : Entry K} (h : lookup inp i = some e) : e ∈ inp ∧ e.id = i := by
  unfold lookup at h
  exact ⟨List.mem_of_find?_eq_some h, by simpa using List.find?_some h⟩

theorem mapM_lookup {inp : List (Entry K)} : ∀ {ids : List Nat} {out : List (Entry K)},
    ids.mapM (lookup inp) = some out → out.map (·.id) = ids ∧ ∀ e ∈ out, e ∈ inp := by
  intro ids
  induction ids with
  | nil => intro out h; simp at h; subst h; simp
  | cons i is ih =>
    intro out h
    rw [List.mapM_cons] at h
    cases h1 : lookup inp i with
    | none => simp [h1] at h
    | some e =>
      cases h2 : is.mapM (lookup inp) with
      | none => simp [h1, h2] at h
      | some tl =>
        simp [h1, h2] at h
        subst h
        obtain ⟨hm, hin⟩ := ih h2
        obtain ⟨he, hid⟩ := lookup_some h1
        refine ⟨by simp [hm, hid], ?_⟩
        intro x hx
        rcases List.mem_cons.1 hx with rfl | hx
        · exact he
        · exact hin x hx

/-- entries of `inp` are determined by their ids when ids are distinct -/
theorem eq_of_id_eq {inp : List (Entry K)} (hnd : (inp.map (·.id)).Nodup) {a b : Entry K}
    (ha : a ∈ inp) (hb : b ∈ inp) (h : a.id = b.id) : a = b := by
  induction inp with
  | nil => cases ha
  | cons x xs ih =>
    simp only [List.map_cons, List.nodup_cons, List.mem_map, not_exists, not_and] at hnd
    rcases List.mem_cons.1 ha with rfl | ha' <;> rcases List.mem_cons.1 hb with rfl | hb'
    · rfl
    · exact absurd h.symm (hnd.1 b hb')
    · exact absurd h (hnd.1 a ha')
    · exact ih hnd.2 ha' hb'

/-- a list of members of `inp` whose ids are a permutation of the (distinct) ids of `inp` is a permutation of `inp` -/
theorem perm_of_ids_perm : ∀ {inp out : List (Entry K)}, (inp.map (·.id)).Nodup → (∀ e ∈ out, e ∈ inp) →
    (out.map (·.id)).Perm (inp.map (·.id)) → out.Perm inp := by
  intro inp
  induction inp with
  | nil =>
    intro out _ _ hp
    have := hp.length_eq
    simp at this
    subst this
    exact List.Perm.refl _
  | cons x xs ih =>
    intro out hnd hin hp
    have hx : x.id ∈ out.map (·.id) := hp.mem_iff.2 (by simp)
    obtain ⟨o, ho, hoid⟩ := List.mem_map.1 hx
    have hox : o = x := eq_of_id_eq hnd (hin o ho) (List.mem_cons_self ..) hoid
    subst hox
    obtain ⟨s, t, rfl⟩ := List.append_of_mem ho
    have hmid : (s ++ o :: t).Perm (o :: (s ++ t)) := List.perm_middle
    have hp' : ((s ++ t).map (·.id)).Perm (xs.map (·.id)) := by
      have h1 : ((o :: (s ++ t)).map (·.id)).Perm ((o :: xs).map (·.id)) := (hmid.map _).symm.trans hp
      simp only [List.map_cons, List.map_append] at h1
      simpa using List.Perm.cons_inv h1
    have hnd' : (xs.map (·.id)).Nodup := (List.nodup_cons.1 (by simpa using hnd)).2
    have hnotin : o.id ∉ xs.map (·.id) := (List.nodup_cons.1 (by simpa using hnd)).1
    have hin' : ∀ e ∈ s ++ t, e ∈ xs := by
      intro e he
      have hmem : e ∈ s ++ o :: t := by
        rcases List.mem_append.1 he with h | h
        · exact List.mem_append_left _ h
        · exact List.mem_append_right _ (List.mem_cons_of_mem _ h)
      rcases List.mem_cons.1 (hin e hmem) with rfl | h
      · exact absurd (hp'.mem_iff.1 (List.mem_map.2 ⟨e, he, rfl⟩)) hnotin
      · exact h
    exact hmid.trans (List.Perm.cons _ (ih hnd' hin' hp'))

theorem admitsIds_sound (ltK : K → K → Bool) {inp : List (Entry K)} (hnd : (inp.map (·.id)).Nodup) {ids : List Nat}
    (h : admitsIds ltK inp ids = true) : ∃ out, out.map (·.id) = ids ∧ Admissible ltK inp out := by
  unfold admitsIds at h
  cases hm : ids.mapM (lookup inp) with
  | none => simp [hm] at h
  | some out =>
    simp only [hm, Bool.and_eq_true] at h
    obtain ⟨hmap, hin⟩ := mapM_lookup hm
    refine ⟨out, hmap, perm_of_ids_perm hnd hin ?_, h.2⟩
    rw [hmap]
    exact List.isPerm_iff.1 h.1

/-! ## what the kill loop (C03) needs from a ranking -/

/-- `l` is a permutation of a sublist of `m` -/
def SubPerm {α : Type} (l m : List α) : Prop := ∃ sub, sub.Sublist m ∧ l.Perm sub

/-- sorted non-increasingly by `(preference, key)` -/
def SortedByPrefKey (ltK : K → K → Bool) (out : List (Entry K)) : Prop :=
  out.Pairwise fun a b => b.pref ≤ a.pref ∧ (b.pref = a.pref → ltK a.key b.key = false)

theorem admissible_sortedByPrefKey (ltK : K → K → Bool) {inp out : List (Entry K)} (h : Admissible ltK inp out) :
    SortedByPrefKey ltK out := by
  have := (sortedDesc_iff ltK out).1 h.2
  exact this.imp (fun {a b} hab => (gtPK_false_iff ltK b a).1 hab)

/-- entries computed from (a filtered part of) the siblings: ids of any admissible output are a sub-permutation
    of the siblings' ids -/
theorem admissible_subperm {S : Type} (ltK : K → K → Bool) (sid : S → Nat) (f : S → Bool) (g : S → Entry K)
    (hg : ∀ s, (g s).id = sid s) (sibs : List S) {out : List (Entry K)}
    (h : Admissible ltK ((sibs.filter f).map g) out) : SubPerm (out.map (·.id)) (sibs.map sid) := by
  refine ⟨(sibs.filter f).map sid, (List.filter_sublist (l := sibs)).map sid, ?_⟩
  have := h.1.map (·.id)
  simpa [List.map_map, Function.comp_def, hg] using this

/-- the same without a filter -/
theorem admissible_subperm_map {S : Type} (ltK : K → K → Bool) (sid : S → Nat) (g : S → Entry K)
    (hg : ∀ s, (g s).id = sid s) (sibs : List S) {out : List (Entry K)}
    (h : Admissible ltK (sibs.map g) out) : SubPerm (out.map (·.id)) (sibs.map sid) := by
  refine ⟨sibs.map sid, List.Sublist.refl _, ?_⟩
  have := h.1.map (·.id)
  simpa [List.map_map, Function.comp_def, hg] using this

/-! ## exact (`Rat`) instance -/

theorem rat_lt_false_iff (a b : Rat) : Num.lt a b = false ↔ b ≤ a := by
  simp [Num.lt, Rat.not_lt]

theorem rat_ge_iff (a b : Rat) : Num.ge a b = true ↔ b ≤ a := by
  simp [Num.ge, Num.lt, Rat.not_lt]

/-- `a ≥ b` in the lexicographic order of the growth tuple -/
theorem ltGrowthKey_false_iff (a b : Int × Rat × Int) : ltGrowthKey a b = false ↔
    b.1 < a.1 ∨ (b.1 = a.1 ∧ (b.2.1 < a.2.1 ∨ (b.2.1 = a.2.1 ∧ b.2.2 ≤ a.2.2))) := by
  unfold ltGrowthKey
  simp only [Bool.or_eq_false_iff, Bool.and_eq_false_imp, decide_eq_false_iff_not, Bool.not_eq_true',
    Int.not_lt, Num.lt]
  constructor
  · rintro ⟨h1, h2⟩
    rcases Int.lt_or_eq_of_le h1 with h | h
    · exact Or.inl h
    · refine Or.inr ⟨h, ?_⟩
      obtain ⟨h3, h4⟩ := h2 (by omega)
      have h3' : b.2.1 ≤ a.2.1 := Rat.not_lt.1 h3
      by_cases h5 : b.2.1 = a.2.1
      · exact Or.inr ⟨h5, h4 (by rw [h5]; exact Rat.lt_irrefl)⟩
      · exact Or.inl (Rat.lt_of_le_of_ne h3' h5)
  · rintro (h | ⟨h, h' | ⟨h', h''⟩⟩)
    · exact ⟨by omega, fun hc => by omega⟩
    · exact ⟨by omega, fun _ => ⟨Rat.not_lt.2 (Rat.le_of_lt h'), fun hc => absurd h' hc⟩⟩
    · exact ⟨by omega, fun _ => ⟨by rw [h']; exact Rat.lt_irrefl, fun _ => h''⟩⟩

theorem ltGrowthKey_irrefl (a : Int × Rat × Int) : ltGrowthKey a a = false := by
  rw [ltGrowthKey_false_iff]; exact Or.inr ⟨rfl, Or.inr ⟨rfl, Int.le_refl _⟩⟩

/-- truncation of a non-negative rational is its floor -/
theorem ratTrunc_of_nonneg {a : Rat} (h : 0 ≤ a) : ratTrunc a = a.floor := by simp [ratTrunc, h]

theorem ratTrunc_le_iff {a : Rat} (h : 0 ≤ a) (n : Int) : ratTrunc a ≤ n ↔ a < ((n + 1 : Int) : Rat) := by
  rw [ratTrunc_of_nonneg h, ← Rat.floor_lt_iff]; omega

end OomdModel.Rank

import OomdModel.CtxFault

/-! Lemmas about the accessor-layer crash-point model (`OomdModel.CtxFault`), used by `OomdProps.C10`. -/

namespace OomdModel.CtxFault
open OomdModel.Fault OomdModel.Path

theorem bnd_safe {α β} (r : Res α) (f : α → Res β) (hr : r.safe = true) (hf : ∀ a, (f a).safe = true) :
    (bnd r f).safe = true := by
  cases r with
  | ok a => exact hf a
  | unavailable => rfl
  | throws => cases hr
  | ub => cases hr

theorem bnd_unavailable {α β} (f : α → Res β) : bnd (.unavailable : Res α) f = .unavailable := rfl

theorem unit_safe {α} (r : Res α) : (unit r).safe = r.safe := by cases r <;> rfl

theorem unit_eq_unavailable {α} (r : Res α) : unit r = .unavailable ↔ r = .unavailable := by
  cases r <;> simp [unit]

theorem ok_safe {α} (a : α) : (Res.ok a).safe = true := rfl

theorem valueOr_safe (r : Res Int) (d : Int) (h : r.safe = true) : (valueOr r d).safe = true := by
  cases r <;> simp_all [valueOr, Res.safe]

/-- splitting `Readings.safe` into its fields -/
theorem Readings.safe_iff (r : Readings) :
    r.safe = true ↔
      r.current.safe = true ∧ r.swapUsage.safe = true ∧ r.swapMax.safe = true ∧ r.memLow.safe = true ∧
      r.memMin.safe = true ∧ r.memHigh.safe = true ∧ r.memHighTmp.safe = true ∧ r.memMax.safe = true ∧
      r.memStat.safe = true ∧ r.nrDying.safe = true ∧ r.populated.safe = true ∧ r.oomGroup.safe = true ∧
      r.memPressureFull.safe = true ∧ r.memPressureSome.safe = true ∧ r.ioPressureFull.safe = true ∧
      r.ioPressureSome.safe = true ∧ r.ioStat.safe = true := by
  simp only [Readings.safe, Bool.and_eq_true]
  constructor
  · rintro ⟨⟨⟨⟨⟨⟨⟨⟨⟨⟨⟨⟨⟨⟨⟨⟨a, b⟩, c⟩, d⟩, e⟩, f⟩, g⟩, h⟩, i⟩, j⟩, k⟩, l⟩, m⟩, n⟩, o⟩, p⟩, q⟩
    exact ⟨a, b, c, d, e, f, g, h, i, j, k, l, m, n, o, p, q⟩
  · rintro ⟨a, b, c, d, e, f, g, h, i, j, k, l, m, n, o, p, q⟩
    exact ⟨⟨⟨⟨⟨⟨⟨⟨⟨⟨⟨⟨⟨⟨⟨⟨a, b⟩, c⟩, d⟩, e⟩, f⟩, g⟩, h⟩, i⟩, j⟩, k⟩, l⟩, m⟩, n⟩, o⟩, p⟩, q⟩

/-! ### one cgroup -/

theorem lookupStat_safe (r : Readings) (key : String) (h : r.memStat.safe = true) : (lookupStat r key).safe = true := by
  unfold lookupStat
  apply bnd_safe _ _ h
  intro m
  split <;> rfl

theorem pgScan_safe (m : Res (List (Str × Int))) (h : m.safe = true) : (pgScan m).safe = true := by
  unfold pgScan
  cases m with
  | ok m => simp only; split <;> rfl
  | unavailable => rfl
  | throws => cases h
  | ub => cases h

theorem rawProtection_safe (r : Readings) (h : r.safe = true) : (rawProtection r).safe = true := by
  have hh := (Readings.safe_iff r).1 h
  unfold rawProtection
  refine bnd_safe _ _ hh.1 fun c => bnd_safe _ _ hh.2.2.2.2.1 fun mn => bnd_safe _ _ hh.2.2.2.1 fun lw => rfl

theorem averageUsage_safe (A : Arith) (prev : Int) (r : Readings) (h : r.current.safe = true) :
    (averageUsage A prev r).safe = true :=
  bnd_safe _ _ h fun _ => rfl

theorem memoryGrowth_safe (A : Arith) (prev : Int) (r : Readings) (h : r.current.safe = true) :
    (memoryGrowth A prev r).safe = true := by
  unfold memoryGrowth
  refine bnd_safe _ _ h fun c => bnd_safe _ _ (averageUsage_safe A prev r h) fun a => ?_
  split <;> rfl

theorem ioCostCumulative_safe (A : Arith) (r : Readings) (h : r.ioStat.safe = true) : (ioCostCumulative A r).safe = true :=
  bnd_safe _ _ h fun _ => rfl

theorem ioCostRate_safe (A : Arith) (prev : Option Int) (r : Readings) (h : r.ioStat.safe = true) :
    (ioCostRate A prev r).safe = true := by
  unfold ioCostRate
  refine bnd_safe _ _ (ioCostCumulative_safe A r h) fun c => ?_
  cases prev <;> rfl

theorem pgScanRate_safe (prev : Option Int) (r : Readings) (h : r.memStat.safe = true) : (pgScanRate prev r).safe = true := by
  unfold pgScanRate pgScanCumulative
  refine bnd_safe _ _ (pgScan_safe _ h) fun c => ?_
  cases prev <;> rfl

/-! ### the hierarchy -/

theorem protectionSum_safe (sibs : List Readings) (h : sibs.all Readings.safe = true) : (protectionSum sibs).safe = true := by
  induction sibs with
  | nil => rfl
  | cons s rest ih =>
    simp only [List.all_cons, Bool.and_eq_true] at h
    unfold protectionSum
    exact bnd_safe _ _ (valueOr_safe _ _ (rawProtection_safe s h.1)) fun a => bnd_safe _ _ (ih h.2) fun b => rfl

theorem memoryProtection_safe (A : Arith) (S : Sys) (hS : S.rootUsage.safe = true) :
    ∀ chain, chainSafe chain = true → (memoryProtection A S chain).safe = true
  | [], _ => hS
  | [l], h => by
    simp only [chainSafe, Bool.and_eq_true] at h
    exact rawProtection_safe l.r h.1.1
  | l :: p :: rest, h => by
    have h' : (l.r.safe = true ∧ l.sibs.all Readings.safe = true) ∧ chainSafe (p :: rest) = true := by
      simpa only [chainSafe, Bool.and_eq_true] using h
    unfold memoryProtection
    split
    · rfl
    · refine bnd_safe _ _ (protectionSum_safe _ h'.1.2) fun sum => ?_
      split
      · rfl
      · exact bnd_safe _ _ (rawProtection_safe l.r h'.1.1) fun raw =>
          bnd_safe _ _ (memoryProtection_safe A S hS (p :: rest) h'.2) fun pp => rfl

theorem effectiveUsage_safe (A : Arith) (S : Sys) (hS : S.rootUsage.safe = true) (chain : List Level)
    (h : chainSafe chain = true) : (effectiveUsage A S chain).safe = true := by
  unfold effectiveUsage
  cases chain with
  | nil => exact bnd_safe _ _ hS fun c => bnd_safe _ _ (memoryProtection_safe A S hS [] rfl) fun p => rfl
  | cons l rest =>
    have h' : (l.r.safe = true ∧ l.sibs.all Readings.safe = true) ∧ chainSafe rest = true := by
      simpa only [chainSafe, Bool.and_eq_true] using h
    exact bnd_safe _ _ ((Readings.safe_iff l.r).1 h'.1.1).1 fun c =>
      bnd_safe _ _ (memoryProtection_safe A S hS (l :: rest) h) fun p => rfl

theorem effectiveSwapMax_safe (S : Sys) : ∀ chain, chainSafe chain = true → (effectiveSwapMax S chain).safe = true
  | [], _ => rfl
  | l :: rest, h => by
    have h' : (l.r.safe = true ∧ l.sibs.all Readings.safe = true) ∧ chainSafe rest = true := by
      simpa only [chainSafe, Bool.and_eq_true] using h
    unfold effectiveSwapMax
    split
    · rfl
    · exact bnd_safe _ _ (effectiveSwapMax_safe S rest h'.2) fun pm =>
        bnd_safe _ _ ((Readings.safe_iff l.r).1 h'.1.1).2.2.1 fun sm => rfl

theorem effectiveSwapFree_safe (S : Sys) : ∀ chain, chainSafe chain = true → (effectiveSwapFree S chain).safe = true
  | [], _ => rfl
  | l :: rest, h => by
    have h' : (l.r.safe = true ∧ l.sibs.all Readings.safe = true) ∧ chainSafe rest = true := by
      simpa only [chainSafe, Bool.and_eq_true] using h
    have hr := (Readings.safe_iff l.r).1 h'.1.1
    unfold effectiveSwapFree
    refine bnd_safe _ _ hr.2.2.1 fun sm => bnd_safe _ _ hr.2.1 fun su => ?_
    split
    · rfl
    · exact bnd_safe _ _ (effectiveSwapFree_safe S rest h'.2) fun pf => rfl

theorem effectiveSwapUtil_safe (A : Arith) (S : Sys) :
    ∀ chain, chainSafe chain = true → (effectiveSwapUtil A S chain).safe = true
  | [], _ => by unfold effectiveSwapUtil; split <;> rfl
  | l :: rest, h => by
    have h' : (l.r.safe = true ∧ l.sibs.all Readings.safe = true) ∧ chainSafe rest = true := by
      simpa only [chainSafe, Bool.and_eq_true] using h
    have hr := (Readings.safe_iff l.r).1 h'.1.1
    unfold effectiveSwapUtil
    refine bnd_safe _ _ hr.2.2.1 fun sm => ?_
    split
    · rfl
    · refine bnd_safe _ _ hr.2.1 fun su => ?_
      split
      · rfl
      · exact bnd_safe _ _ (effectiveSwapUtil_safe A S rest h'.2) fun pu => rfl

/-- **No crash point in the accessor layer**: when every reader result an accessor can reach is `ok` or `unavailable`
(the cgroup's own files, its ancestors', the siblings' at every level) so is the accessor - for every accessor of the table,
every depth, every arithmetic, every tick history. -/
theorem evalAcc_safe (A : Arith) (S : Sys) (ar : Archive) (l : Level) (up : List Level) (hS : S.rootUsage.safe = true)
    (h : chainSafe (l :: up) = true) (a : Acc) : (evalAcc A S ar l up a).safe = true := by
  have h' : (l.r.safe = true ∧ l.sibs.all Readings.safe = true) ∧ chainSafe up = true := by
    simpa only [chainSafe, Bool.and_eq_true] using h
  obtain ⟨h1, h2, h3, h4, h5, h6, h7, h8, h9, h10, h11, h12, h13, h14, h15, h16, h17⟩ := (Readings.safe_iff l.r).1 h'.1.1
  cases a <;> simp only [evalAcc, unit_safe]
  case currentUsage => exact h1
  case swapUsage => exact h2
  case swapMax => exact h3
  case memoryLow => exact h4
  case memoryMin => exact h5
  case memoryHigh => exact h6
  case memoryHighTmp => exact h7
  case memoryMax => exact h8
  case nrDying => exact h10
  case isPopulated => exact h11
  case oomGroup => exact h12
  case memPressure => exact h13
  case memPressureSome => exact h14
  case ioPressure => exact h15
  case ioPressureSome => exact h16
  case memoryStat => exact h9
  case ioStat => exact h17
  case anonUsage => exact lookupStat_safe _ _ h9
  case fileUsage => exact lookupStat_safe _ _ h9
  case shmemUsage => exact lookupStat_safe _ _ h9
  case pgScanCumulative => exact pgScan_safe _ h9
  case pgScanRate => exact pgScanRate_safe _ _ h9
  case ioCostCumulative => exact ioCostCumulative_safe _ _ h17
  case ioCostRate => exact ioCostRate_safe _ _ _ h17
  case averageUsage => exact averageUsage_safe _ _ _ h1
  case memoryGrowth => exact memoryGrowth_safe _ _ _ h1
  case rawProtection => exact rawProtection_safe _ h'.1.1
  case memoryProtection => exact memoryProtection_safe A S hS _ h
  case effectiveUsage => exact effectiveUsage_safe A S hS _ h
  case effectiveSwapMax => exact effectiveSwapMax_safe S _ h
  case effectiveSwapFree => exact effectiveSwapFree_safe S _ h
  case effectiveSwapUtil => exact effectiveSwapUtil_safe A S _ h

/-! ### files to readings -/

/-- the fault domain of C10 for one control file -/
def FaultyFile (f : FileSt) : Prop := f = .absent ∨ f = .denied ∨ f = .unreadable ∨ f = .lines []

theorem ioStat_faulty (scanIo : Str → Option IoLine) (f : FileSt) (h : FaultyFile f) :
    ioStat scanIo f = .unavailable ∨ ioStat scanIo f = .ok [] := by
  rcases h with rfl | rfl | rfl | rfl <;> simp [ioStat, readLines, ioStatFromLines]

theorem ioStatFromLines_safe (scanIo : Str → Option IoLine) (ls : List Str) : (ioStatFromLines scanIo ls).safe = true := by
  induction ls with
  | nil => rfl
  | cons l rest ih =>
    unfold ioStatFromLines
    split
    · rfl
    · split
      · rfl
      · rename_i r hne
        cases hr : ioStatFromLines scanIo rest with
        | ok xs => exact absurd hr (by intro h; exact hne xs h)
        | unavailable => rfl
        | throws => rw [hr] at ih; cases ih
        | ub => rw [hr] at ih; cases ih

/-- `io.stat` and `cgroup.stat` / `memory.stat` never make their reader throw, whatever they contain -/
theorem kv_and_iostat_always_safe (P : Parsers) (f : CgFiles) :
    (kvFile P.scan f.memStat).safe = true ∧ (nrDying P.scan f.cgStat).safe = true ∧ (ioStat P.scanIo f.ioStat).safe = true := by
  refine ⟨?_, ?_, ?_⟩
  · unfold kvFile; split <;> rfl
  · have hk : (kvFile P.scan f.cgStat).safe = true := by unfold kvFile; split <;> rfl
    unfold nrDying
    cases h : kvFile P.scan f.cgStat with
    | ok m => rfl
    | unavailable => rfl
    | throws => rw [h] at hk; cases hk
    | ub => rw [h] at hk; cases hk
  · unfold ioStat; split
    · rfl
    · exact ioStatFromLines_safe _ _

end OomdModel.CtxFault

import OomdModel.CgStats
import OomdProofs.FsRead

/-! Helper lemmas for C15: the formulas over `Rat`, and the cache machine. -/

namespace OomdModel.CgStats
open OomdModel.Path (Str)
open OomdModel.FsRead
open Num

/-! ## the `Rat` instance -/

section RatFacts

theorem rat_ofInt (i : Int) : (Num.ofInt i : Rat) = (i : Rat) := rfl
theorem rat_one : (Num.one : Rat) = 1 := rfl
theorem rat_zero : (Num.zero : Rat) = 0 := rfl
theorem rat_mul (a b : Rat) : Num.mul a b = a * b := rfl
theorem rat_div (a b : Rat) : Num.div a b = a / b := rfl
theorem rat_add (a b : Rat) : Num.add a b = a + b := rfl
theorem rat_sub (a b : Rat) : Num.sub a b = a - b := rfl
theorem rat_lt (a b : Rat) : Num.lt a b = decide (a < b) := rfl

theorem rat_nmin (a b : Rat) : nmin a b = if b < a then b else a := by
  simp [nmin, rat_lt]

theorem rat_nmax (a b : Rat) : nmax a b = if a < b then b else a := by
  simp [nmax, rat_lt]

theorem rat_trunc_nonneg (q : Rat) (h : 0 ≤ q) : (Num.trunc q : Int) = q.floor := by
  show (if 0 ≤ q then q.floor else -((-q).floor)) = q.floor
  simp [h]

theorem rat_div_nonneg {a b : Rat} (ha : 0 ≤ a) (hb : 0 < b) : 0 ≤ a / b := by
  rw [Rat.div_def]
  exact Rat.mul_nonneg ha (Rat.le_of_lt (Rat.inv_pos.2 hb))

theorem rat_floor_nonneg {q : Rat} (h : 0 ≤ q) : 0 ≤ q.floor := by
  have : ((0 : Int) : Rat) ≤ q := by simpa using h
  exact Rat.le_floor_iff.2 this

theorem rat_floor_le_int {q : Rat} {z : Int} (h : q ≤ (z : Rat)) : q.floor ≤ z := by
  have h1 : (q.floor : Rat) ≤ (z : Rat) := Rat.le_trans (Rat.floor_le q) h
  exact Rat.intCast_le_intCast.1 h1

end RatFacts

/-! ## memory protection laws (exact arithmetic) -/

section Protection

/-- the scaling factor `min(1, parent / sum)` -/
def protFactor (parent sum : Int) : Rat := nmin (1 : Rat) (((1 : Rat) * (parent : Rat)) / (sum : Rat))

theorem normProtection_rat (raw parent sum : Int) (hs : sum ≠ 0) :
    normProtection (α := Rat) raw parent sum = Num.trunc ((raw : Rat) * protFactor parent sum) := by
  simp [normProtection, hs, protFactor, rat_ofInt, rat_one, rat_mul, rat_div]

theorem protFactor_bounds (parent sum : Int) (hp : 0 ≤ parent) (hs : 0 < sum) :
    0 ≤ protFactor parent sum ∧ protFactor parent sum ≤ 1 := by
  have hs' : (0 : Rat) < (sum : Rat) := Rat.intCast_pos.2 hs
  have hp' : (0 : Rat) ≤ (parent : Rat) := Rat.intCast_nonneg.2 hp
  have hx : 0 ≤ ((1 : Rat) * (parent : Rat)) / (sum : Rat) := by
    rw [Rat.one_mul]; exact rat_div_nonneg hp' hs'
  unfold protFactor
  rw [rat_nmin]
  split
  · rename_i h; exact ⟨hx, Rat.le_of_lt h⟩
  · exact ⟨by decide, Rat.le_refl⟩

theorem protFactor_no_overcommit (parent sum : Int) (hs : 0 < sum) (h : sum ≤ parent) :
    protFactor parent sum = 1 := by
  have hs' : (0 : Rat) < (sum : Rat) := Rat.intCast_pos.2 hs
  unfold protFactor
  rw [rat_nmin, Rat.one_mul]
  have : ¬ ((parent : Rat) / (sum : Rat) < 1) := by
    rw [Rat.div_lt_iff hs', Rat.one_mul]
    intro hlt
    have := Rat.intCast_lt_intCast.1 hlt
    omega
  rw [if_neg this]

theorem protFactor_overcommit (parent sum : Int) (hs : 0 < sum) (h : parent < sum) :
    protFactor parent sum = (parent : Rat) / (sum : Rat) := by
  have hs' : (0 : Rat) < (sum : Rat) := Rat.intCast_pos.2 hs
  unfold protFactor
  rw [rat_nmin, Rat.one_mul]
  have : ((parent : Rat) / (sum : Rat) < 1) := by
    rw [Rat.div_lt_iff hs', Rat.one_mul]
    exact Rat.intCast_lt_intCast.2 h
  rw [if_pos this]

/-- 0 ≤ P ≤ R -/
theorem normProtection_bounds (raw parent sum : Int) (hr : 0 ≤ raw) (hp : 0 ≤ parent) (hs : 0 ≤ sum) :
    0 ≤ normProtection (α := Rat) raw parent sum ∧ normProtection (α := Rat) raw parent sum ≤ raw := by
  by_cases h0 : sum = 0
  · simp [normProtection, h0, hr]
  · have hs' : 0 < sum := by omega
    obtain ⟨hf0, hf1⟩ := protFactor_bounds parent sum hp hs'
    have hr' : (0 : Rat) ≤ (raw : Rat) := Rat.intCast_nonneg.2 hr
    have hq0 : 0 ≤ (raw : Rat) * protFactor parent sum := Rat.mul_nonneg hr' hf0
    have hq1 : (raw : Rat) * protFactor parent sum ≤ (raw : Rat) := by
      have := Rat.mul_le_mul_of_nonneg_left hf1 hr'
      rwa [Rat.mul_one] at this
    rw [normProtection_rat raw parent sum h0, rat_trunc_nonneg _ hq0]
    exact ⟨rat_floor_nonneg hq0, rat_floor_le_int hq1⟩

/-- no over-commit (Σ R ≤ P(parent)) ⇒ P = R -/
theorem normProtection_no_overcommit (raw parent sum : Int) (hr : 0 ≤ raw) (hs : 0 < sum) (h : sum ≤ parent) :
    normProtection (α := Rat) raw parent sum = raw := by
  have h0 : sum ≠ 0 := by omega
  rw [normProtection_rat raw parent sum h0, protFactor_no_overcommit parent sum hs h, Rat.mul_one,
    rat_trunc_nonneg _ (Rat.intCast_nonneg.2 hr), Rat.floor_intCast]

def sumInt : List Int → Int
  | [] => 0
  | x :: xs => x + sumInt xs

theorem sum_floor_le (raws : List Int) (x : Rat) (hx : 0 ≤ x) (hr : ∀ r ∈ raws, 0 ≤ r) :
    ((sumInt (raws.map fun (r : Int) => ((r : Rat) * x).floor) : Int) : Rat) ≤ ((sumInt raws : Int) : Rat) * x := by
  induction raws with
  | nil => simp [sumInt]
  | cons r rs ih =>
    have ih' := ih (fun y hy => hr y (by simp [hy]))
    simp only [List.map_cons, sumInt, Rat.intCast_add, Rat.add_mul]
    have h1 : (((r : Rat) * x).floor : Rat) ≤ (r : Rat) * x := Rat.floor_le _
    exact Rat.le_trans (Rat.add_le_add_right.2 h1) (Rat.add_le_add_left.2 ih')

/-- over-commit (P(parent) < Σ R): the children's protections add up to at most the parent's -/
theorem normProtection_sum_le_parent (raws : List Int) (parent : Int) (hr : ∀ r ∈ raws, 0 ≤ r)
    (hp : 0 ≤ parent) (hover : parent < sumInt raws) :
    sumInt (raws.map fun r => normProtection (α := Rat) r parent (sumInt raws)) ≤ parent := by
  have hs : 0 < sumInt raws := by omega
  have h0 : sumInt raws ≠ 0 := by omega
  have hs' : (0 : Rat) < ((sumInt raws : Int) : Rat) := Rat.intCast_pos.2 hs
  have hx : 0 ≤ (parent : Rat) / ((sumInt raws : Int) : Rat) := rat_div_nonneg (Rat.intCast_nonneg.2 hp) hs'
  have hmap : (raws.map fun r => normProtection (α := Rat) r parent (sumInt raws)) =
      raws.map fun (r : Int) => ((r : Rat) * ((parent : Rat) / ((sumInt raws : Int) : Rat))).floor := by
    apply List.map_congr_left
    intro r hrm
    rw [normProtection_rat r parent _ h0, protFactor_overcommit parent _ hs hover,
      rat_trunc_nonneg _ (Rat.mul_nonneg (Rat.intCast_nonneg.2 (hr r hrm)) hx)]
  rw [hmap]
  have := sum_floor_le raws _ hx hr
  have hcancel : ((sumInt raws : Int) : Rat) * ((parent : Rat) / ((sumInt raws : Int) : Rat)) = (parent : Rat) := by
    rw [Rat.mul_comm]
    exact Rat.div_mul_cancel (Rat.ne_of_gt hs')
  rw [hcancel] at this
  exact Rat.intCast_le_intCast.1 this

/-- R ≤ usage and R ≥ 0 for non-negative files -/
theorem rawProtection_bounds (cur mn lo : Int) (hc : 0 ≤ cur) (hm : 0 ≤ mn) :
    0 ≤ rawProtection cur mn lo ∧ rawProtection cur mn lo ≤ cur := by
  unfold rawProtection
  omega

end Protection

/-! ## moving averages: closed form of `a' = r * a + c * u` -/

section Ewma

/-- the recurrence, newest sample first -/
def linRec (r c : Rat) : List Rat → Rat
  | [] => 0
  | u :: older => r * linRec r c older + c * u

/-- Σ_j c · u_j · r^(k+j), j = age of the sample -/
def weighted (r c : Rat) (k : Nat) : List Rat → Rat
  | [] => 0
  | u :: older => c * u * r ^ k + weighted r c (k + 1) older

theorem weighted_succ (r c : Rat) (us : List Rat) : ∀ k, weighted r c (k + 1) us = r * weighted r c k us := by
  induction us with
  | nil => intro k; simp [weighted]
  | cons u us ih =>
    intro k
    simp only [weighted]
    rw [ih (k + 1), Rat.pow_succ]
    grind

theorem linRec_closed (r c : Rat) (us : List Rat) : linRec r c us = weighted r c 0 us := by
  induction us with
  | nil => rfl
  | cons u us ih =>
    simp only [linRec, weighted]
    rw [ih, weighted_succ, Rat.pow_zero]
    grind

/-- `getAverageUsage` without the conversion to `int64_t` -/
def avgExact (d : Rat) : List Int → Rat
  | [] => 0
  | u :: older => avgExact d older * ((d - 1) / d) + (u : Rat) / d

theorem avgExact_eq_linRec (d : Rat) (us : List Int) :
    avgExact d us = linRec ((d - 1) / d) (1 / d) (us.map fun (u : Int) => (u : Rat)) := by
  induction us with
  | nil => rfl
  | cons u us ih =>
    simp only [avgExact, List.map_cons, linRec]
    rw [ih, Rat.div_def (u : Rat) d, Rat.div_def 1 d]
    grind

/-- what the code computes: the same step, truncated each tick -/
def avgTrunc (d : Rat) : List Int → Int
  | [] => 0
  | u :: older => avgStep d (avgTrunc d older) u

theorem avgStep_rat (d : Rat) (prev cur : Int) :
    avgStep d prev cur = Num.trunc ((prev : Rat) * ((d - 1) / d) + (cur : Rat) / d) := rfl

/-- truncating every tick loses less than `decay` in total: 0 ≤ exact − truncated < d (non-negative usage, d ≥ 1) -/
theorem avgTrunc_bounds (d : Rat) (hd : 1 ≤ d) (us : List Int) (hu : ∀ u ∈ us, 0 ≤ u) :
    0 ≤ avgTrunc d us ∧ ((avgTrunc d us : Int) : Rat) ≤ avgExact d us ∧
      avgExact d us < ((avgTrunc d us : Int) : Rat) + d := by
  have hd0 : (0 : Rat) < d := by grind
  have hr0 : 0 ≤ (d - 1) / d := rat_div_nonneg ((Rat.le_iff_sub_nonneg 1 d).1 hd) hd0
  have hdr : d * ((d - 1) / d) = d - 1 := by
    rw [Rat.mul_comm]; exact Rat.div_mul_cancel (Rat.ne_of_gt hd0)
  induction us with
  | nil =>
    refine ⟨Int.le_refl 0, ?_, ?_⟩
    · simp [avgTrunc, avgExact]
    · simp only [avgTrunc, avgExact]; grind
  | cons u us ih =>
    obtain ⟨ht0, hte, het⟩ := ih (fun x hx => hu x (by simp [hx]))
    have hu0 : (0 : Rat) ≤ (u : Rat) := Rat.intCast_nonneg.2 (hu u (by simp))
    have hud : 0 ≤ (u : Rat) / d := rat_div_nonneg hu0 hd0
    have ht0' : (0 : Rat) ≤ ((avgTrunc d us : Int) : Rat) := Rat.intCast_nonneg.2 ht0
    have hq0 : 0 ≤ ((avgTrunc d us : Int) : Rat) * ((d - 1) / d) + (u : Rat) / d :=
      Rat.add_nonneg (Rat.mul_nonneg ht0' hr0) hud
    have h1 : ((avgTrunc d us : Int) : Rat) * ((d - 1) / d) ≤ avgExact d us * ((d - 1) / d) :=
      Rat.mul_le_mul_of_nonneg_right hte hr0
    have h2 : avgExact d us * ((d - 1) / d) ≤ (((avgTrunc d us : Int) : Rat) + d) * ((d - 1) / d) :=
      Rat.mul_le_mul_of_nonneg_right (Rat.le_of_lt het) hr0
    rw [Rat.add_mul, hdr] at h2
    have hfl := Rat.floor_le (((avgTrunc d us : Int) : Rat) * ((d - 1) / d) + (u : Rat) / d)
    have hfl2 := Rat.lt_floor_add_one (((avgTrunc d us : Int) : Rat) * ((d - 1) / d) + (u : Rat) / d)
    rw [Rat.intCast_add] at hfl2
    simp only [avgTrunc, avgExact, avgStep_rat, rat_trunc_nonneg _ hq0]
    refine ⟨rat_floor_nonneg hq0, ?_, ?_⟩
    · grind
    · grind

/-- the swap-out average of `Oomd::updateContext` is the same kind of recurrence -/
theorem ewmaStep_rat (f prev x : Rat) : ewmaStep f prev x = f * prev + (1 - f) * x := by
  show x + f * (prev - x) = f * prev + (1 - f) * x
  grind

end Ewma

/-! ## io cost -/

section IoCost

def sumRat : List Rat → Rat
  | [] => 0
  | x :: xs => x + sumRat xs

/-- what one io.stat line contributes: nothing unless its device is configured -/
def ioContrib (cfg : Params Rat) (d : DevStat) : Option Rat :=
  (devLookup cfg.devs d.devId).map fun hdd => devCost (if hdd then cfg.hdd else cfg.ssd) d

theorem devCost_rat (c : Coeffs Rat) (d : DevStat) :
    devCost c d = (d.rios : Rat) * c.readIops + (d.rbytes : Rat) * c.readBw + (d.wios : Rat) * c.writeIops +
      (d.wbytes : Rat) * c.writeBw + (d.dios : Rat) * c.trimIops + (d.dbytes : Rat) * c.trimBw := rfl

theorem ioCost_fold (cfg : Params Rat) (stats : List DevStat) (acc : Rat) :
    stats.foldl (ioStep cfg) acc = acc + sumRat (stats.filterMap (ioContrib cfg)) := by
  induction stats generalizing acc with
  | nil => simp [sumRat, Rat.add_zero]
  | cons d ds ih =>
    simp only [List.foldl_cons]
    rw [ih]
    unfold ioContrib ioStep
    cases h : devLookup cfg.devs d.devId with
    | none => simp [List.filterMap_cons, h]
    | some hdd =>
      simp only [List.filterMap_cons, h, Option.map_some, sumRat, rat_add]
      rw [Rat.add_assoc]

theorem ioCost_eq_sum (cfg : Params Rat) (stats : List DevStat) :
    ioCost cfg stats = sumRat (stats.filterMap (ioContrib cfg)) := by
  unfold ioCost
  rw [ioCost_fold, rat_zero, Rat.zero_add]

end IoCost

/-! ## `Res` plumbing -/

theorem Res.bind_eq_ok {β γ : Type} {r : Res β} {f : β → Res γ} {v : γ} :
    r.bind f = .ok v ↔ ∃ a, r = .ok a ∧ f a = .ok v := by
  cases r <;> simp [Res.bind]

theorem Res.map_eq_ok {β γ : Type} {r : Res β} {f : β → γ} {v : γ} :
    r.map f = .ok v ↔ ∃ a, r = .ok a ∧ f a = v := by
  cases r <;> simp [Res.map, Res.bind]

/-! ## effective swap: minimum / maximum over the ancestor chain (on the reference) -/

section Swap
variable {α : Type} [Num α]

/-- `q` is `p` or one of its ancestors, the root excluded -/
def OnChain (q p : RPath) : Prop := q <:+ p ∧ q ≠ []

theorem refEffSwapMax_cons (e : RefEnv α) (n : Str) (ps : RPath) (v : Int)
    (h : refEffSwapMax e (n :: ps) = .ok v) :
    ∃ pm sm, refEffSwapMax e ps = .ok pm ∧ refInt e (n :: ps) .swapMax = .ok sm ∧ v = min pm sm := by
  simp only [refEffSwapMax] at h
  obtain ⟨_, _, h⟩ := Res.bind_eq_ok.1 h
  obtain ⟨pm, hpm, h⟩ := Res.bind_eq_ok.1 h
  obtain ⟨sm, hsm, h⟩ := Res.bind_eq_ok.1 h
  exact ⟨pm, sm, hpm, hsm, by injection h with h; exact h.symm⟩

/-- effective_swap_max ≤ SwapTotal and ≤ memory.swap.max of every level of the chain -/
theorem refEffSwapMax_le (e : RefEnv α) : ∀ (p : RPath) (v : Int), refEffSwapMax e p = .ok v →
    v ≤ wrap64 e.sys.swaptotal ∧ ∀ q, OnChain q p → ∀ m, refInt e q .swapMax = .ok m → v ≤ m := by
  intro p
  induction p with
  | nil =>
    intro v h
    simp only [refEffSwapMax] at h
    injection h with h
    subst h
    refine ⟨Int.le_refl _, ?_⟩
    intro q hq
    exact absurd (List.suffix_nil.1 hq.1) hq.2
  | cons n ps ih =>
    intro v h
    obtain ⟨pm, sm, hpm, hsm, rfl⟩ := refEffSwapMax_cons e n ps v h
    obtain ⟨h1, h2⟩ := ih pm hpm
    refine ⟨by omega, ?_⟩
    intro q hq m hm
    rcases List.suffix_cons_iff.1 hq.1 with heq | hsuf
    · subst heq
      rw [hsm] at hm
      injection hm with hm
      omega
    · have := h2 q ⟨hsuf, hq.2⟩ m hm
      omega

/-- ... and it is one of those values: the minimum -/
theorem refEffSwapMax_attained (e : RefEnv α) : ∀ (p : RPath) (v : Int), refEffSwapMax e p = .ok v →
    v = wrap64 e.sys.swaptotal ∨ ∃ q, OnChain q p ∧ refInt e q .swapMax = .ok v := by
  intro p
  induction p with
  | nil =>
    intro v h
    simp only [refEffSwapMax] at h
    injection h with h
    exact Or.inl h.symm
  | cons n ps ih =>
    intro v h
    obtain ⟨pm, sm, hpm, hsm, rfl⟩ := refEffSwapMax_cons e n ps v h
    by_cases hle : pm ≤ sm
    · have : min pm sm = pm := by omega
      rw [this]
      rcases ih pm hpm with h1 | ⟨q, hq, hqv⟩
      · exact Or.inl h1
      · exact Or.inr ⟨q, ⟨List.IsSuffix.trans hq.1 (List.suffix_cons n ps), hq.2⟩, hqv⟩
    · have : min pm sm = sm := by omega
      rw [this]
      exact Or.inr ⟨n :: ps, ⟨List.suffix_refl _, by simp⟩, hsm⟩

theorem refEffSwapFree_cons (e : RefEnv α) (n : Str) (ps : RPath) (v : Int)
    (h : refEffSwapFree e (n :: ps) = .ok v) :
    ∃ sm su pf, refInt e (n :: ps) .swapMax = .ok sm ∧ refInt e (n :: ps) .swapUsage = .ok su ∧
      refEffSwapFree e ps = .ok pf ∧ v = min pf (sm - su) := by
  simp only [refEffSwapFree] at h
  obtain ⟨sm, hsm, h⟩ := Res.bind_eq_ok.1 h
  obtain ⟨su, hsu, h⟩ := Res.bind_eq_ok.1 h
  obtain ⟨_, _, h⟩ := Res.bind_eq_ok.1 h
  obtain ⟨pf, hpf, h⟩ := Res.bind_eq_ok.1 h
  exact ⟨sm, su, pf, hsm, hsu, hpf, by injection h with h; exact h.symm⟩

/-- effective_swap_free ≤ (SwapTotal − SwapUsed) and ≤ (max − usage) of every level of the chain -/
theorem refEffSwapFree_le (e : RefEnv α) : ∀ (p : RPath) (v : Int), refEffSwapFree e p = .ok v →
    v ≤ wrap64 ((e.sys.swaptotal : Int) - e.sys.swapused) ∧
    ∀ q, OnChain q p → ∀ m u, refInt e q .swapMax = .ok m → refInt e q .swapUsage = .ok u → v ≤ m - u := by
  intro p
  induction p with
  | nil =>
    intro v h
    simp only [refEffSwapFree] at h
    injection h with h
    subst h
    refine ⟨Int.le_refl _, ?_⟩
    intro q hq
    exact absurd (List.suffix_nil.1 hq.1) hq.2
  | cons n ps ih =>
    intro v h
    obtain ⟨sm, su, pf, hsm, hsu, hpf, rfl⟩ := refEffSwapFree_cons e n ps v h
    obtain ⟨h1, h2⟩ := ih pf hpf
    refine ⟨by omega, ?_⟩
    intro q hq m u hm hu
    rcases List.suffix_cons_iff.1 hq.1 with heq | hsuf
    · subst heq
      rw [hsm] at hm
      rw [hsu] at hu
      injection hm with hm
      injection hu with hu
      omega
    · have := h2 q ⟨hsuf, hq.2⟩ m u hm hu
      omega

theorem refEffSwapFree_attained (e : RefEnv α) : ∀ (p : RPath) (v : Int), refEffSwapFree e p = .ok v →
    v = wrap64 ((e.sys.swaptotal : Int) - e.sys.swapused) ∨
    ∃ q m u, OnChain q p ∧ refInt e q .swapMax = .ok m ∧ refInt e q .swapUsage = .ok u ∧ v = m - u := by
  intro p
  induction p with
  | nil =>
    intro v h
    simp only [refEffSwapFree] at h
    injection h with h
    exact Or.inl h.symm
  | cons n ps ih =>
    intro v h
    obtain ⟨sm, su, pf, hsm, hsu, hpf, rfl⟩ := refEffSwapFree_cons e n ps v h
    by_cases hle : pf ≤ sm - su
    · have : min pf (sm - su) = pf := by omega
      rw [this]
      rcases ih pf hpf with h1 | ⟨q, m, u, hq, hm, hu, hv⟩
      · exact Or.inl h1
      · exact Or.inr ⟨q, m, u, ⟨List.IsSuffix.trans hq.1 (List.suffix_cons n ps), hq.2⟩, hm, hu, hv⟩
    · have : min pf (sm - su) = sm - su := by omega
      rw [this]
      exact Or.inr ⟨n :: ps, sm, su, ⟨List.suffix_refl _, by simp⟩, hsm, hsu, rfl⟩

/-- the utilisation recurrence: 0 when this level's `memory.swap.max` is 0 (whatever the ancestors say),
otherwise the larger of the local ratio and the parent's value -/
theorem refEffSwapUtil_cons (e : RefEnv α) (n : Str) (ps : RPath) (sm : Int)
    (hsm : refInt e (n :: ps) .swapMax = .ok sm) :
    refEffSwapUtil e (n :: ps) =
      if sm = 0 then .ok zero else
        (refInt e (n :: ps) .swapUsage).bind fun su => (refOpen e ps).bind fun _ =>
          (refEffSwapUtil e ps).bind fun pu => .ok (nmax pu (localUtil su sm)) := by
  simp only [refEffSwapUtil, hsm, Res.bind]

theorem refEffSwapUtil_root (e : RefEnv α) :
    refEffSwapUtil e [] = if e.sys.swaptotal = 0 then .ok zero
      else .ok (div (ofNat e.sys.swapused) (ofNat e.sys.swaptotal)) := rfl

end Swap

/-! ## the per-tick cache: values only ever appear, never change (until `refresh`) -/

section Cache
variable {α : Type} [Num α]

/-- `st'` extends `st`: same system context; every context of `st` is still there with the same held
directory and archive, and every value it had cached is still cached with the same value -/
def Le (st st' : OSt α) : Prop :=
  st'.sys = st.sys ∧
  ∀ p c, st.ctxs p = some c → ∃ c', st'.ctxs p = some c' ∧ c'.dir = c.dir ∧ c'.arch = c.arch ∧
    ∀ f v, c.data f = some v → c'.data f = some v

theorem Le.refl (st : OSt α) : Le st st := ⟨rfl, fun _ c h => ⟨c, h, rfl, rfl, fun _ _ h => h⟩⟩

theorem Le.trans {a b c : OSt α} (h1 : Le a b) (h2 : Le b c) : Le a c := by
  refine ⟨h2.1.trans h1.1, ?_⟩
  intro p ca hca
  obtain ⟨cb, hcb, hd1, ha1, hv1⟩ := h1.2 p ca hca
  obtain ⟨cc, hcc, hd2, ha2, hv2⟩ := h2.2 p cb hcb
  exact ⟨cc, hcc, hd2.trans hd1, ha2.trans ha1, fun f v h => hv2 f v (hv1 f v h)⟩

theorem cached_of_le {st st' : OSt α} (h : Le st st') {p : RPath} {f : Field} {v : Val α}
    (hc : cached st p f = some v) : cached st' p f = some v := by
  unfold cached at hc ⊢
  cases hp : st.ctxs p with
  | none => simp [hp] at hc
  | some c =>
    simp only [hp, Option.bind_some] at hc
    obtain ⟨c', hc', _, _, hv⟩ := h.2 p c hp
    simp [hc', hv f v hc]

/-- an action that only ever extends the cache -/
def Infl {β : Type} (a : Act α β) : Prop := ∀ st, Le st (a st).2

theorem infl_pure {β : Type} (r : Res β) : Infl (Act.pure r : Act α β) := fun st => Le.refl st
theorem infl_read {β : Type} (f : OSt α → Res β) : Infl (Act.read f) := fun st => Le.refl st

theorem infl_bind {β γ : Type} {a : Act α β} {k : β → Act α γ} (ha : Infl a) (hk : ∀ b, Infl (k b)) :
    Infl (a.bind k) := by
  intro st
  unfold Act.bind
  have h1 := ha st
  cases hr : a st with
  | mk r st1 =>
    rw [hr] at h1
    cases r with
    | ok b => exact Le.trans h1 (hk b st1)
    | unavailable => exact h1
    | crash c => exact h1

theorem infl_getD {β : Type} {a : Act α β} (d : β) (ha : Infl a) : Infl (a.getD d) := by
  intro st
  unfold Act.getD
  have h1 := ha st
  cases hr : a st with
  | mk r st1 =>
    rw [hr] at h1
    cases r <;> exact h1

theorem infl_bindInt {γ : Type} {a : Act α (Val α)} {k : Int → Act α γ} (ha : Infl a) (hk : ∀ b, Infl (k b)) :
    Infl (a.bindInt k) :=
  infl_bind ha fun _ => infl_bind (infl_pure _) hk

theorem infl_bindNum {γ : Type} {a : Act α (Val α)} {k : α → Act α γ} (ha : Infl a) (hk : ∀ b, Infl (k b)) :
    Infl (a.bindNum k) :=
  infl_bind ha fun _ => infl_bind (infl_pure _) hk

theorem le_setField (st st' : OSt α) (p : RPath) (f : Field) (v : Val α) (h : Le st st')
    (hnone : cached st p f = none) : Le st (setField st' p f v) := by
  refine ⟨h.1, ?_⟩
  intro q c hq
  obtain ⟨c', hc', hd, ha, hv⟩ := h.2 q c hq
  by_cases e : q = p
  · subst e
    refine ⟨{ c' with data := fun g => if g = f then some v else c'.data g }, ?_, hd, ha, ?_⟩
    · simp [setField, hc']
    · intro g x hg
      by_cases eg : g = f
      · subst eg
        simp [cached, hq, hg] at hnone
      · simp [eg, hv g x hg]
  · exact ⟨c', by simp [setField, e, hc'], hd, ha, hv⟩

/-- the `PROXY` macro keeps every value obtained before -/
theorem infl_memo (p : RPath) (f : Field) {compute : Act α (Val α)} (hc : Infl compute) :
    Infl (memo p f compute) := by
  intro st
  unfold memo
  cases hcache : cached st p f with
  | some v => exact Le.refl st
  | none =>
    have h1 := hc st
    cases hr : compute st with
    | mk r st1 =>
      rw [hr] at h1
      cases r with
      | ok v => exact le_setField st st1 p f v h1 hcache
      | unavailable => exact h1
      | crash c => exact h1

theorem infl_addToCache (w : World) (p : RPath) : Infl (addToCache (α := α) w p) := by
  intro st
  unfold addToCache
  cases hp : st.ctxs p with
  | some c => exact Le.refl st
  | none =>
    cases w.openDir p with
    | none => exact Le.refl st
    | some inc =>
      refine ⟨rfl, ?_⟩
      intro q c hq
      have : q ≠ p := by intro e; subst e; rw [hp] at hq; cases hq
      exact ⟨c, by simp [this, hq], rfl, rfl, fun _ _ h => h⟩

theorem infl_getPrim (w : World) (p : RPath) (f : Field) : Infl (getPrim (α := α) w p f) :=
  infl_memo p f (infl_read _)

theorem infl_getRaw (w : World) (p : RPath) : Infl (getRaw (α := α) w p) :=
  infl_bindInt (infl_getPrim w p _) fun _ => infl_bindInt (infl_getPrim w p _) fun _ =>
    infl_bindInt (infl_getPrim w p _) fun _ => infl_pure _

theorem infl_sumRaw (w : World) (pp : RPath) (names : List Str) : Infl (sumRaw (α := α) w pp names) := by
  induction names with
  | nil => exact infl_pure _
  | cons nm rest ih =>
    unfold sumRaw
    refine infl_bind (infl_getD 0 ?_) fun _ => infl_bind ih fun _ => infl_pure _
    cases w.openDir (nm :: pp) with
    | none => exact infl_pure _
    | some _ =>
      exact infl_bind (infl_addToCache w _) fun _ => infl_bindInt (infl_getRaw w _) fun _ => infl_pure _

theorem infl_getEffSwapMax (w : World) (p : RPath) : Infl (getEffSwapMax (α := α) w p) := by
  induction p with
  | nil => exact infl_memo _ _ (infl_read _)
  | cons n ps ih =>
    unfold getEffSwapMax
    exact infl_memo _ _ (infl_bind (infl_addToCache w ps) fun _ => infl_bindInt ih fun _ =>
      infl_bindInt (infl_getPrim w _ _) fun _ => infl_pure _)

theorem infl_getEffSwapFree (w : World) (p : RPath) : Infl (getEffSwapFree (α := α) w p) := by
  induction p with
  | nil => exact infl_memo _ _ (infl_read _)
  | cons n ps ih =>
    unfold getEffSwapFree
    exact infl_memo _ _ (infl_bindInt (infl_getPrim w _ _) fun _ => infl_bindInt (infl_getPrim w _ _) fun _ =>
      infl_bind (infl_addToCache w ps) fun _ => infl_bindInt ih fun _ => infl_pure _)

theorem infl_getEffSwapUtil (w : World) (p : RPath) : Infl (getEffSwapUtil (α := α) w p) := by
  induction p with
  | nil => exact infl_memo _ _ (infl_read _)
  | cons n ps ih =>
    unfold getEffSwapUtil
    refine infl_memo _ _ (infl_bindInt (infl_getPrim w _ _) fun sm => ?_)
    by_cases h : sm = 0
    · simp only [h, if_true]; exact infl_pure _
    · simp only [h, if_false]
      exact infl_bindInt (infl_getPrim w _ _) fun _ => infl_bind (infl_addToCache w ps) fun _ =>
        infl_bindNum ih fun _ => infl_pure _

theorem infl_getMemProt (w : World) : ∀ p : RPath, Infl (getMemProt (α := α) w p)
  | [] => by unfold getMemProt; exact infl_memo _ _ (infl_getPrim w _ _)
  | [n] => by unfold getMemProt; exact infl_memo _ _ (infl_getRaw w _)
  | n :: m :: ps => by
    have ih := infl_getMemProt w (m :: ps)
    unfold getMemProt
    refine infl_memo _ _ (infl_bind (infl_addToCache w _) fun _ => infl_bind (infl_getPrim w _ _) fun _ =>
      infl_bind (infl_pure _) fun names => infl_bind (infl_sumRaw w _ names) fun sum => ?_)
    by_cases h : sum = 0
    · simp only [h, if_true]; exact infl_pure _
    · simp only [h, if_false]
      exact infl_bindInt (infl_getRaw w _) fun _ => infl_bindInt ih fun _ => infl_pure _

variable (cfg : Params α)

theorem infl_getIoCostCum (w : World) (p : RPath) : Infl (getIoCostCum cfg w p) :=
  infl_memo _ _ (infl_bind (infl_getPrim w _ _) fun _ => infl_bind (infl_pure _) fun _ => infl_pure _)

theorem infl_getPgScanCum (w : World) (p : RPath) : Infl (getPgScanCum (α := α) w p) := by
  refine infl_memo _ _ (infl_bind (infl_getPrim w _ _) fun _ => infl_bind (infl_pure _) fun m => ?_)
  cases kvLookup m pgscanKey <;> exact infl_pure _

theorem infl_getAverageUsage (w : World) (p : RPath) : Infl (getAverageUsage cfg w p) :=
  infl_memo _ _ (infl_bindInt (infl_getPrim w _ _) fun _ => infl_read _)

theorem infl_getIoCostRate (w : World) (p : RPath) : Infl (getIoCostRate cfg w p) :=
  infl_memo _ _ (infl_bindNum (infl_getIoCostCum cfg w p) fun _ => infl_read _)

theorem infl_getPgScanRate (w : World) (p : RPath) : Infl (getPgScanRate (α := α) w p) :=
  infl_memo _ _ (infl_bindInt (infl_getPgScanCum w p) fun _ => infl_read _)

theorem infl_getField (w : World) (p : RPath) (f : Field) : Infl (getField cfg w p f) := by
  cases f <;> first
    | exact infl_getPrim w p _
    | exact infl_getEffSwapMax w p
    | exact infl_getEffSwapFree w p
    | exact infl_getEffSwapUtil w p
    | exact infl_getMemProt w p
    | exact infl_getIoCostCum cfg w p
    | exact infl_getPgScanCum w p
    | exact infl_getAverageUsage cfg w p
    | exact infl_getIoCostRate cfg w p
    | exact infl_getPgScanRate w p

theorem infl_statKey (w : World) (p : RPath) (key : String) : Infl (statKey (α := α) w p key) := by
  refine infl_bind (infl_getPrim w _ _) fun _ => infl_bind (infl_pure _) fun m => ?_
  cases kvLookup m (s key) <;> exact infl_pure _

/-- every public accessor only extends the cache, whatever the world looks like when it is called -/
theorem infl_getAcc (w : World) (p : RPath) (a : Acc) : Infl (getAcc cfg w p a) := by
  cases a with
  | field f => exact infl_getField cfg w p f
  | anon => exact infl_statKey w p _
  | file => exact infl_statKey w p _
  | shmem => exact infl_statKey w p _
  | effUsage scale adj =>
    exact infl_bindInt (infl_getPrim w _ _) fun _ => infl_bindInt (infl_getMemProt w p) fun _ => infl_pure _
  | growth =>
    refine infl_bindInt (infl_getPrim w _ _) fun _ => infl_bindInt (infl_getAverageUsage cfg w p) fun avg => ?_
    by_cases h : avg = 0
    · simp only [h, if_true]; exact infl_pure _
    · simp only [h, if_false]; exact infl_pure _

theorem memo_cached (p : RPath) (f : Field) (compute : Act α (Val α)) (st : OSt α) (v : Val α)
    (h : cached st p f = some v) : memo p f compute st = (.ok v, st) := by
  simp [memo, h]

/-- a cached field is returned as it is, without looking at the world -/
theorem getField_cached (w : World) (p : RPath) (f : Field) (st : OSt α) (v : Val α)
    (h : cached st p f = some v) : getField cfg w p f st = (.ok v, st) := by
  cases f
  case effSwapMax => cases p <;> (unfold getField getEffSwapMax; exact memo_cached _ _ _ st v h)
  case effSwapFree => cases p <;> (unfold getField getEffSwapFree; exact memo_cached _ _ _ st v h)
  case effSwapUtil => cases p <;> (unfold getField getEffSwapUtil; exact memo_cached _ _ _ st v h)
  case memoryProtection =>
    rcases p with _ | ⟨n, _ | ⟨m, ps⟩⟩ <;> (unfold getField getMemProt; exact memo_cached _ _ _ st v h)
  all_goals exact memo_cached _ _ _ st v h

end Cache

end OomdModel.CgStats

import OomdModel.CgStats
import OomdProofs.FsRead

/-! Helper lemmas for C15: the formulas over `Rat`, and the cache machine. -/

namespace OomdModel.CgStats
open OomdModel.Path (Str)
open OomdModel.FsRead
open Num

/-! ## the `Rat` instance -/

section RatFacts

theorem rat_ofInt (i : Int) : (Num.ofInt i : Rat) = (i : Rat) := rfl
theorem rat_one : (Num.one : Rat) = 1 := rfl
theorem rat_zero : (Num.zero : Rat) = 0 := rfl
theorem rat_mul (a b : Rat) : Num.mul a b = a * b := rfl
theorem rat_div (a b : Rat) : Num.div a b = a / b := rfl
theorem rat_add (a b : Rat) : Num.add a b = a + b := rfl
theorem rat_sub (a b : Rat) : Num.sub a b = a - b := rfl
theorem rat_lt (a b : Rat) : Num.lt a b = decide (a < b) := rfl

theorem rat_nmin (a b : Rat) : nmin a b = if b < a then b else a := by
  simp [nmin, rat_lt]

theorem rat_nmax (a b : Rat) : nmax a b = if a < b then b else a := by
  simp [nmax, rat_lt]

theorem rat_trunc_nonneg (q : Rat) (h : 0 ≤ q) : (Num.trunc q : Int) = q.floor := by
  show (if 0 ≤ q then q.floor else -((-q).floor)) = q.floor
  simp [h]

theorem rat_div_nonneg {a b : Rat} (ha : 0 ≤ a) (hb : 0 < b) : 0 ≤ a / b := by
  rw [Rat.div_def]
  exact Rat.mul_nonneg ha (Rat.le_of_lt (Rat.inv_pos.2 hb))

theorem rat_floor_nonneg {q : Rat} (h : 0 ≤ q) : 0 ≤ q.floor := by
  have : ((0 : Int) : Rat) ≤ q := by simpa using h
  exact Rat.le_floor_iff.2 this

theorem rat_floor_le_int {q : Rat} {z : Int} (h : q ≤ (z : Rat)) : q.floor ≤ z := by
  have h1 : (q.floor : Rat) ≤ (z : Rat) := Rat.le_trans (Rat.floor_le q) h
  exact Rat.intCast_le_intCast.1 h1

end RatFacts

/-! ## memory protection laws (exact arithmetic) -/

section Protection

/-- the scaling factor `min(1, parent / sum)` -/
def protFactor (parent sum : Int) : Rat := nmin (1 : Rat) (((1 : Rat) * (parent : Rat)) / (sum : Rat))

theorem normProtection_rat (raw parent sum : Int) (hs : sum ≠ 0) :
    normProtection (α := Rat) raw parent sum = Num.trunc ((raw : Rat) * protFactor parent sum) := by
  simp [normProtection, hs, protFactor, rat_ofInt, rat_one, rat_mul, rat_div]

theorem protFactor_bounds (parent sum : Int) (hp : 0 ≤ parent) (hs : 0 < sum) :
    0 ≤ protFactor parent sum ∧ protFactor parent sum ≤ 1 := by
  have hs' : (0 : Rat) < (sum : Rat) := Rat.intCast_pos.2 hs
  have hp' : (0 : Rat) ≤ (parent : Rat) := Rat.intCast_nonneg.2 hp
  have hx : 0 ≤ ((1 : Rat) * (parent : Rat)) / (sum : Rat) := by
    rw [Rat.one_mul]; exact rat_div_nonneg hp' hs'
  unfold protFactor
  rw [rat_nmin]
  split
  · rename_i h; exact ⟨hx, Rat.le_of_lt h⟩
  · exact ⟨by decide, Rat.le_refl⟩

theorem protFactor_no_overcommit (parent sum : Int) (hs : 0 < sum) (h : sum ≤ parent) :
    protFactor parent sum = 1 := by
  have hs' : (0 : Rat) < (sum : Rat) := Rat.intCast_pos.2 hs
  unfold protFactor
  rw [rat_nmin, Rat.one_mul]
  have : ¬ ((parent : Rat) / (sum : Rat) < 1) := by
    rw [Rat.div_lt_iff hs', Rat.one_mul]
    intro hlt
    have := Rat.intCast_lt_intCast.1 hlt
    omega
  rw [if_neg this]

theorem protFactor_overcommit (parent sum : Int) (hs : 0 < sum) (h : parent < sum) :
    protFactor parent sum = (parent : Rat) / (sum : Rat) := by
  have hs' : (0 : Rat) < (sum : Rat) := Rat.intCast_pos.2 hs
  unfold protFactor
  rw [rat_nmin, Rat.one_mul]
  have : ((parent : Rat) / (sum : Rat) < 1) := by
    rw [Rat.div_lt_iff hs', Rat.one_mul]
    exact Rat.intCast_lt_intCast.2 h
  rw [if_pos this]

/-- 0 ≤ P ≤ R -/
theorem normProtection_bounds (raw parent sum : Int) (hr : 0 ≤ raw) (hp : 0 ≤ parent) (hs : 0 ≤ sum) :
    0 ≤ normProtection (α := Rat) raw parent sum ∧ normProtection (α := Rat) raw parent sum ≤ raw := by
  by_cases h0 : sum = 0
  · simp [normProtection, h0, hr]
  · have hs' : 0 < sum := by omega
    obtain ⟨hf0, hf1⟩ := protFactor_bounds parent sum hp hs'
    have hr' : (0 : Rat) ≤ (raw : Rat) := Rat.intCast_nonneg.2 hr
    have hq0 : 0 ≤ (raw : Rat) * protFactor parent sum := Rat.mul_nonneg hr' hf0
    have hq1 : (raw : Rat) * protFactor parent sum ≤ (raw : Rat) := by
      have := Rat.mul_le_mul_of_nonneg_left hf1 hr'
      rwa [Rat.mul_one] at this
    rw [normProtection_rat raw parent sum h0, rat_trunc_nonneg _ hq0]
    exact ⟨rat_floor_nonneg hq0, rat_floor_le_int hq1⟩

/-- no over-commit (Σ R ≤ P(parent)) ⇒ P = R -/
theorem normProtection_no_overcommit (raw parent sum : Int) (hr : 0 ≤ raw) (hs : 0 < sum) (h : sum ≤ parent) :
    normProtection (α := Rat) raw parent sum = raw := by
  have h0 : sum ≠ 0 := by omega
  rw [normProtection_rat raw parent sum h0, protFactor_no_overcommit parent sum hs h, Rat.mul_one,
    rat_trunc_nonneg _ (Rat.intCast_nonneg.2 hr), Rat.floor_intCast]

def sumInt : List Int → Int
  | [] => 0
  | x :: xs => x + sumInt xs

theorem sum_floor_le (raws : List Int) (x : Rat) (hx : 0 ≤ x) (hr : ∀ r ∈ raws, 0 ≤ r) :
    ((sumInt (raws.map fun (r : Int) => ((r : Rat) * x).floor) : Int) : Rat) ≤ ((sumInt raws : Int) : Rat) * x := by
  induction raws with
  | nil => simp [sumInt]
  | cons r rs ih =>
    have ih' := ih (fun y hy => hr y (by simp [hy]))
    simp only [List.map_cons, sumInt, Rat.intCast_add, Rat.add_mul]
    have h1 : (((r : Rat) * x).floor : Rat) ≤ (r : Rat) * x := Rat.floor_le _
    exact Rat.le_trans (Rat.add_le_add_right.2 h1) (Rat.add_le_add_left.2 ih')

/-- over-commit (P(parent) < Σ R): the children's protections add up to at most the parent's -/
theorem normProtection_sum_le_parent (raws : List Int) (parent : Int) (hr : ∀ r ∈ raws, 0 ≤ r)
    (hp : 0 ≤ parent) (hover : parent < sumInt raws) :
    sumInt (raws.map fun r => normProtection (α := Rat) r parent (sumInt raws)) ≤ parent := by
  have hs : 0 < sumInt raws := by omega
  have h0 : sumInt raws ≠ 0 := by omega
  have hs' : (0 : Rat) < ((sumInt raws : Int) : Rat) := Rat.intCast_pos.2 hs
  have hx : 0 ≤ (parent : Rat) / ((sumInt raws : Int) : Rat) := rat_div_nonneg (Rat.intCast_nonneg.2 hp) hs'
  have hmap : (raws.map fun r => normProtection (α := Rat) r parent (sumInt raws)) =
      raws.map fun (r : Int) => ((r : Rat) * ((parent : Rat) / ((sumInt raws : Int) : Rat))).floor := by
    apply List.map_congr_left
    intro r hrm
    rw [normProtection_rat r parent _ h0, protFactor_overcommit parent _ hs hover,
      rat_trunc_nonneg _ (Rat.mul_nonneg (Rat.intCast_nonneg.2 (hr r hrm)) hx)]
  rw [hmap]
  have := sum_floor_le raws _ hx hr
  have hcancel : ((sumInt raws : Int) : Rat) * ((parent : Rat) / ((sumInt raws : Int) : Rat)) = (parent : Rat) := by
    rw [Rat.mul_comm]
    exact Rat.div_mul_cancel (Rat.ne_of_gt hs')
  rw [hcancel] at this
  exact Rat.intCast_le_intCast.1 this

/-- R ≤ usage and R ≥ 0 for non-negative files -/
theorem rawProtection_bounds (cur mn lo : Int) (hc : 0 ≤ cur) (hm : 0 ≤ mn) :
    0 ≤ rawProtection cur mn lo ∧ rawProtection cur mn lo ≤ cur := by
  unfold rawProtection
  omega

end Protection

/-! ## moving averages: closed form of `a' = r * a + c * u` -/

section Ewma

/-- the recurrence, newest sample first -/
def linRec (r c : Rat) : List Rat → Rat
  | [] => 0
  | u :: older => r * linRec r c older + c * u

/-- Σ_j c · u_j · r^(k+j), j = age of the sample -/
def weighted (r c : Rat) (k : Nat) : List Rat → Rat
  | [] => 0
  | u :: older => c * u * r ^ k + weighted r c (k + 1) older

theorem weighted_succ (r c : Rat) (us : List Rat) : ∀ k, weighted r c (k + 1) us = r * weighted r c k us := by
  induction us with
  | nil => intro k; simp [weighted]
  | cons u us ih =>
    intro k
    simp only [weighted]
    rw [ih (k + 1), Rat.pow_succ]
    grind

theorem linRec_closed (r c : Rat) (us : List Rat) : linRec r c us = weighted r c 0 us := by
  induction us with
  | nil => rfl
  | cons u us ih =>
    simp only [linRec, weighted]
    rw [ih, weighted_succ, Rat.pow_zero]
    grind

/-- `getAverageUsage` without the conversion to `int64_t` -/
def avgExact (d : Rat) : List Int → Rat
  | [] => 0
  | u :: older => avgExact d older * ((d - 1) / d) + (u : Rat) / d

theorem avgExact_eq_linRec (d : Rat) (us : List Int) :
    avgExact d us = linRec ((d - 1) / d) (1 / d) (us.map fun (u : Int) => (u : Rat)) := by
  induction us with
  | nil => rfl
  | cons u us ih =>
    simp only [avgExact, List.map_cons, linRec]
    rw [ih, Rat.div_def (u : Rat) d, Rat.div_def 1 d]
    grind

/-- what the code computes: the same step, truncated each tick -/
def avgTrunc (d : Rat) : List Int → Int
  | [] => 0
  | u :: older => avgStep d (avgTrunc d older) u

theorem avgStep_rat (d : Rat) (prev cur : Int) :
    avgStep d prev cur = Num.trunc ((prev : Rat) * ((d - 1) / d) + (cur : Rat) / d) := rfl

/-- truncating every tick loses less than `decay` in total: 0 ≤ exact − truncated < d (non-negative usage, d ≥ 1) -/
theorem avgTrunc_bounds (d : Rat) (hd : 1 ≤ d) (us : List Int) (hu : ∀ u ∈ us, 0 ≤ u) :
    0 ≤ avgTrunc d us ∧ ((avgTrunc d us : Int) : Rat) ≤ avgExact d us ∧
      avgExact d us < ((avgTrunc d us : Int) : Rat) + d := by
  have hd0 : (0 : Rat) < d := by grind
  have hr0 : 0 ≤ (d - 1) / d := rat_div_nonneg ((Rat.le_iff_sub_nonneg 1 d).1 hd) hd0
  have hdr : d * ((d - 1) / d) = d - 1 := by
    rw [Rat.mul_comm]; exact Rat.div_mul_cancel (Rat.ne_of_gt hd0)
  induction us with
  | nil =>
    refine ⟨Int.le_refl 0, ?_, ?_⟩
    · simp [avgTrunc, avgExact]
    · simp only [avgTrunc, avgExact]; grind
  | cons u us ih =>
    obtain ⟨ht0, hte, het⟩ := ih (fun x hx => hu x (by simp [hx]))
    have hu0 : (0 : Rat) ≤ (u : Rat) := Rat.intCast_nonneg.2 (hu u (by simp))
    have hud : 0 ≤ (u : Rat) / d := rat_div_nonneg hu0 hd0
    have ht0' : (0 : Rat) ≤ ((avgTrunc d us : Int) : Rat) := Rat.intCast_nonneg.2 ht0
    have hq0 : 0 ≤ ((avgTrunc d us : Int) : Rat) * ((d - 1) / d) + (u : Rat) / d :=
      Rat.add_nonneg (Rat.mul_nonneg ht0' hr0) hud
    have h1 : ((avgTrunc d us : Int) : Rat) * ((d - 1) / d) ≤ avgExact d us * ((d - 1) / d) :=
      Rat.mul_le_mul_of_nonneg_right hte hr0
    have h2 : avgExact d us * ((d - 1) / d) ≤ (((avgTrunc d us : Int) : Rat) + d) * ((d - 1) / d) :=
      Rat.mul_le_mul_of_nonneg_right (Rat.le_of_lt het) hr0
    rw [Rat.add_mul, hdr] at h2
    have hfl := Rat.floor_le (((avgTrunc d us : Int) : Rat) * ((d - 1) / d) + (u : Rat) / d)
    have hfl2 := Rat.lt_floor_add_one (((avgTrunc d us : Int) : Rat) * ((d - 1) / d) + (u : Rat) / d)
    rw [Rat.intCast_add] at hfl2
    simp only [avgTrunc, avgExact, avgStep_rat, rat_trunc_nonneg _ hq0]
    refine ⟨rat_floor_nonneg hq0, ?_, ?_⟩
    · grind
    · grind

/-- the swap-out average of `Oomd::updateContext` is the same kind of recurrence -/
theorem ewmaStep_rat (f prev x : Rat) : ewmaStep f prev x = f * prev + (1 - f) * x := by
  show x + f * (prev - x) = f * prev + (1 - f) * x
  grind

end Ewma

/-! ## io cost -/

section IoCost

def sumRat : List Rat → Rat
  | [] => 0
  | x :: xs => x + sumRat xs

/-- what one io.stat line contributes: nothing unless its device is configured -/
def ioContrib (cfg : Params Rat) (d : DevStat) : Option Rat :=
  (devLookup cfg.devs d.devId).map fun hdd => devCost (if hdd then cfg.hdd else cfg.ssd) d

theorem devCost_rat (c : Coeffs Rat) (d : DevStat) :
    devCost c d = (d.rios : Rat) * c.readIops + (d.rbytes : Rat) * c.readBw + (d.wios : Rat) * c.writeIops +
      (d.wbytes : Rat) * c.writeBw + (d.dios : Rat) * c.trimIops + (d.dbytes : Rat) * c.trimBw := rfl

theorem ioCost_fold (cfg : Params Rat) (stats : List DevStat) (acc : Rat) :
    stats.foldl (ioStep cfg) acc = acc + sumRat (stats.filterMap (ioContrib cfg)) := by
  induction stats generalizing acc with
  | nil => simp [sumRat, Rat.add_zero]
  | cons d ds ih =>
    simp only [List.foldl_cons]
    rw [ih]
    unfold ioContrib ioStep
    cases h : devLookup cfg.devs d.devId with
    | none => simp [List.filterMap_cons, h]
    | some hdd =>
      simp only [List.filterMap_cons, h, Option.map_some, sumRat, rat_add]
      rw [Rat.add_assoc]

theorem ioCost_eq_sum (cfg : Params Rat) (stats : List DevStat) :
    ioCost cfg stats = sumRat (stats.filterMap (ioContrib cfg)) := by
  unfold ioCost
  rw [ioCost_fold, rat_zero, Rat.zero_add]

end IoCost

/-! ## `Res` plumbing -/

theorem Res.bind_eq_ok {β γ : Type} {r : Res β} {f : β → Res γ} {v : γ} :
    r.bind f = .ok v ↔ ∃ a, r = .ok a ∧ f a = .ok v := by
  cases r <;> simp [Res.bind]

theorem Res.map_eq_ok {β γ : Type} {r : Res β} {f : β → γ} {v : γ} :
    r.map f = .ok v ↔ ∃ a, r = .ok a ∧ f a = v := by
  cases r <;> simp [Res.map, Res.bind]

/-! ## effective swap: minimum / maximum over the ancestor chain (on the reference) -/

section Swap
variable {α : Type} [Num α]

/-- `q` is `p` or one of its ancestors, the root excluded -/
def OnChain (q p : RPath) : Prop := q <:+ p ∧ q ≠ []

theorem refEffSwapMax_cons (e : RefEnv α) (n : Str) (ps : RPath) (v : Int)
    (h : refEffSwapMax e (n :: ps) = .ok v) :
    ∃ pm sm, refEffSwapMax e ps = .ok pm ∧ refInt e (n :: ps) .swapMax = .ok sm ∧ v = min pm sm := by
  simp only [refEffSwapMax] at h
  obtain ⟨_, _, h⟩ := Res.bind_eq_ok.1 h
  obtain ⟨pm, hpm, h⟩ := Res.bind_eq_ok.1 h
  obtain ⟨sm, hsm, h⟩ := Res.bind_eq_ok.1 h
  exact ⟨pm, sm, hpm, hsm, by injection h with h; exact h.symm⟩

/-- effective_swap_max ≤ SwapTotal and ≤ memory.swap.max of every level of the chain -/
theorem refEffSwapMax_le (e : RefEnv α) : ∀ (p : RPath) (v : Int), refEffSwapMax e p = .ok v →
    v ≤ wrap64 e.sys.swaptotal ∧ ∀ q, OnChain q p → ∀ m, refInt e q .swapMax = .ok m → v ≤ m := by
  intro p
  induction p with
  | nil =>
    intro v h
    simp only [refEffSwapMax] at h
    injection h with h
    subst h
    refine ⟨Int.le_refl _, ?_⟩
    intro q hq
    exact absurd (List.suffix_nil.1 hq.1) hq.2
  | cons n ps ih =>
    intro v h
    obtain ⟨pm, sm, hpm, hsm, rfl⟩ := refEffSwapMax_cons e n ps v h
    obtain ⟨h1, h2⟩ := ih pm hpm
    refine ⟨by omega, ?_⟩
    intro q hq m hm
    rcases List.suffix_cons_iff.1 hq.1 with heq | hsuf
    · subst heq
      rw [hsm] at hm
      injection hm with hm
      omega
    · have := h2 q ⟨hsuf, hq.2⟩ m hm
      omega

/-- ... and it is one of those values: the minimum -/
theorem refEffSwapMax_attained (e : RefEnv α) : ∀ (p : RPath) (v : Int), refEffSwapMax e p = .ok v →
    v = wrap64 e.sys.swaptotal ∨ ∃ q, OnChain q p ∧ refInt e q .swapMax = .ok v := by
  intro p
  induction p with
  | nil =>
    intro v h
    simp only [refEffSwapMax] at h
    injection h with h
    exact Or.inl h.symm
  | cons n ps ih =>
    intro v h
    obtain ⟨pm, sm, hpm, hsm, rfl⟩ := refEffSwapMax_cons e n ps v h
    by_cases hle : pm ≤ sm
    · have : min pm sm = pm := by omega
      rw [this]
      rcases ih pm hpm with h1 | ⟨q, hq, hqv⟩
      · exact Or.inl h1
      · exact Or.inr ⟨q, ⟨List.IsSuffix.trans hq.1 (List.suffix_cons n ps), hq.2⟩, hqv⟩
    · have : min pm sm = sm := by omega
      rw [this]
      exact Or.inr ⟨n :: ps, ⟨List.suffix_refl _, by simp⟩, hsm⟩

theorem refEffSwapFree_cons (e : RefEnv α) (n : Str) (ps : RPath) (v : Int)
    (h : refEffSwapFree e (n :: ps) = .ok v) :
    ∃ sm su pf, refInt e (n :: ps) .swapMax = .ok sm ∧ refInt e (n :: ps) .swapUsage = .ok su ∧
      refEffSwapFree e ps = .ok pf ∧ v = min pf (sm - su) := by
  simp only [refEffSwapFree] at h
  obtain ⟨sm, hsm, h⟩ := Res.bind_eq_ok.1 h
  obtain ⟨su, hsu, h⟩ := Res.bind_eq_ok.1 h
  obtain ⟨_, _, h⟩ := Res.bind_eq_ok.1 h
  obtain ⟨pf, hpf, h⟩ := Res.bind_eq_ok.1 h
  exact ⟨sm, su, pf, hsm, hsu, hpf, by injection h with h; exact h.symm⟩

/-- effective_swap_free ≤ (SwapTotal − SwapUsed) and ≤ (max − usage) of every level of the chain -/
theorem refEffSwapFree_le (e : RefEnv α) : ∀ (p : RPath) (v : Int), refEffSwapFree e p = .ok v →
    v ≤ wrap64 ((e.sys.swaptotal : Int) - e.sys.swapused) ∧
    ∀ q, OnChain q p → ∀ m u, refInt e q .swapMax = .ok m → refInt e q .swapUsage = .ok u → v ≤ m - u := by
  intro p
  induction p with
  | nil =>
    intro v h
    simp only [refEffSwapFree] at h
    injection h with h
    subst h
    refine ⟨Int.le_refl _, ?_⟩
    intro q hq
    exact absurd (List.suffix_nil.1 hq.1) hq.2
  | cons n ps ih =>
    intro v h
    obtain ⟨sm, su, pf, hsm, hsu, hpf, rfl⟩ := refEffSwapFree_cons e n ps v h
    obtain ⟨h1, h2⟩ := ih pf hpf
    refine ⟨by omega, ?_⟩
    intro q hq m u hm hu
    rcases List.suffix_cons_iff.1 hq.1 with heq | hsuf
    · subst heq
      rw [hsm] at hm
      rw [hsu] at hu
      injection hm with hm
      injection hu with hu
      omega
    · have := h2 q ⟨hsuf, hq.2⟩ m u hm hu
      omega

theorem refEffSwapFree_attained (e : RefEnv α) : ∀ (p : RPath) (v : Int), refEffSwapFree e p = .ok v →
    v = wrap64 ((e.sys.swaptotal : Int) - e.sys.swapused) ∨
    ∃ q m u, OnChain q p ∧ refInt e q .swapMax = .ok m ∧ refInt e q .swapUsage = .ok u ∧ v = m - u := by
  intro p
  induction p with
  | nil =>
    intro v h
    simp only [refEffSwapFree] at h
    injection h with h
    exact Or.inl h.symm
  | cons n ps ih =>
    intro v h
    obtain ⟨sm, su, pf, hsm, hsu, hpf, rfl⟩ := refEffSwapFree_cons e n ps v h
    by_cases hle : pf ≤ sm - su
    · have : min pf (sm - su) = pf := by omega
      rw [this]
      rcases ih pf hpf with h1 | ⟨q, m, u, hq, hm, hu, hv⟩
      · exact Or.inl h1
      · exact Or.inr ⟨q, m, u, ⟨List.IsSuffix.trans hq.1 (List.suffix_cons n ps), hq.2⟩, hm, hu, hv⟩
    · have : min pf (sm - su) = sm - su := by omega
      rw [this]
      exact Or.inr ⟨n :: ps, sm, su, ⟨List.suffix_refl _, by simp⟩, hsm, hsu, rfl⟩

/-- the utilisation recurrence: 0 when this level's `memory.swap.max` is 0 (whatever the ancestors say),
otherwise the larger of the local ratio and the parent's value -/
theorem refEffSwapUtil_cons (e : RefEnv α) (n : Str) (ps : RPath) (sm : Int)
    (hsm : refInt e (n :: ps) .swapMax = .ok sm) :
    refEffSwapUtil e (n :: ps) =
      if sm = 0 then .ok zero else
        (refInt e (n :: ps) .swapUsage).bind fun su => (refOpen e ps).bind fun _ =>
          (refEffSwapUtil e ps).bind fun pu => .ok (nmax pu (localUtil su sm)) := by
  simp only [refEffSwapUtil, hsm, Res.bind]

theorem refEffSwapUtil_root (e : RefEnv α) :
    refEffSwapUtil e [] = if e.sys.swaptotal = 0 then .ok zero
      else .ok (div (ofNat e.sys.swapused) (ofNat e.sys.swaptotal)) := rfl

end Swap

/-! ## the whole protection formula on the reference -/

section ProtRef
/-- every integer the readers deliver is non-negative (what the kernel prints) -/
def NonNegWorld (e : RefEnv Rat) : Prop := ∀ q f i, refInt e q f = .ok i → 0 ≤ i

theorem refRaw_bounds (e : RefEnv Rat) (h : NonNegWorld e) (q : RPath) (r : Int) (hr : refRaw e q = .ok r) :
    0 ≤ r ∧ ∃ cur, refInt e q .currentUsage = .ok cur ∧ r ≤ cur := by
  simp only [refRaw] at hr
  obtain ⟨cur, hcur, hr⟩ := Res.bind_eq_ok.1 hr
  obtain ⟨mn, hmn, hr⟩ := Res.bind_eq_ok.1 hr
  obtain ⟨lo, hlo, hr⟩ := Res.bind_eq_ok.1 hr
  injection hr with hr
  subst hr
  have := rawProtection_bounds cur mn lo (h q _ cur hcur) (h q _ mn hmn)
  exact ⟨this.1, cur, hcur, this.2⟩

theorem refSumRaw_nonneg (e : RefEnv Rat) (h : NonNegWorld e) (pp : RPath) :
    ∀ (names : List Str) (sum : Int), refSumRaw e pp names = .ok sum → 0 ≤ sum := by
  intro names
  induction names with
  | nil => intro sum hs; simp [refSumRaw] at hs; omega
  | cons nm rest ih =>
    intro sum hs
    simp only [refSumRaw] at hs
    obtain ⟨r, hr, hs⟩ := Res.bind_eq_ok.1 hs
    obtain ⟨s2, hs2, hs⟩ := Res.bind_eq_ok.1 hs
    injection hs with hs
    have h2 := ih s2 hs2
    have h1 : 0 ≤ r := by
      cases hraw : refRaw e (nm :: pp) with
      | ok x =>
        rw [hraw] at hr
        simp [Res.getD'] at hr
        subst hr
        exact (refRaw_bounds e h _ x hraw).1
      | unavailable =>
        rw [hraw] at hr
        simp [Res.getD'] at hr
        omega
      | crash c =>
        rw [hraw] at hr
        simp [Res.getD'] at hr
    omega

/-- 0 ≤ P(c) and P(c) ≤ usage(c), for the whole hierarchical formula -/
theorem refMemProt_bounds (e : RefEnv Rat) (h : NonNegWorld e) : ∀ (p : RPath) (v : Int),
    refMemProt e p = .ok v → 0 ≤ v ∧ ∀ cur, refInt e p .currentUsage = .ok cur → v ≤ cur
  | [], v, hv => by
    simp only [refMemProt] at hv
    exact ⟨h [] _ v hv, fun cur hc => by rw [hv] at hc; injection hc with hc; omega⟩
  | [n], v, hv => by
    simp only [refMemProt] at hv
    obtain ⟨h0, cur, hc, hle⟩ := refRaw_bounds e h [n] v hv
    exact ⟨h0, fun cur' hc' => by rw [hc] at hc'; injection hc' with hc'; omega⟩
  | n :: m :: ps, v, hv => by
    simp only [refMemProt] at hv
    obtain ⟨_, _, hv⟩ := Res.bind_eq_ok.1 hv
    obtain ⟨names, _, hv⟩ := Res.bind_eq_ok.1 hv
    obtain ⟨sum, hsum, hv⟩ := Res.bind_eq_ok.1 hv
    have hs0 := refSumRaw_nonneg e h (m :: ps) names sum hsum
    by_cases h0 : sum = 0
    · simp only [h0, if_true] at hv
      injection hv with hv
      subst hv
      exact ⟨Int.le_refl 0, fun cur hc => h _ _ cur hc⟩
    · simp only [h0, if_false] at hv
      obtain ⟨raw, hraw, hv⟩ := Res.bind_eq_ok.1 hv
      obtain ⟨pp, hpp, hv⟩ := Res.bind_eq_ok.1 hv
      injection hv with hv
      subst hv
      have hpp0 := (refMemProt_bounds e h (m :: ps) pp hpp).1
      obtain ⟨hr0, cur, hc, hle⟩ := refRaw_bounds e h _ raw hraw
      have := normProtection_bounds raw pp sum hr0 hpp0 hs0
      exact ⟨this.1, fun cur' hc' => by rw [hc] at hc'; injection hc' with hc'; omega⟩

end ProtRef

/-! ## the per-tick cache: values only ever appear, never change (until `refresh`) -/

section Cache
variable {α : Type} [Num α]

/-- `st'` extends `st`: same system context; every context of `st` is still there with the same held
directory and archive, and every value it had cached is still cached with the same value -/
def Le (st st' : OSt α) : Prop :=
  st'.sys = st.sys ∧
  ∀ p c, st.ctxs p = some c → ∃ c', st'.ctxs p = some c' ∧ c'.dir = c.dir ∧ c'.arch = c.arch ∧
    ∀ f v, c.data f = some v → c'.data f = some v

theorem Le.refl (st : OSt α) : Le st st := ⟨rfl, fun _ c h => ⟨c, h, rfl, rfl, fun _ _ h => h⟩⟩

theorem Le.trans {a b c : OSt α} (h1 : Le a b) (h2 : Le b c) : Le a c := by
  refine ⟨h2.1.trans h1.1, ?_⟩
  intro p ca hca
  obtain ⟨cb, hcb, hd1, ha1, hv1⟩ := h1.2 p ca hca
  obtain ⟨cc, hcc, hd2, ha2, hv2⟩ := h2.2 p cb hcb
  exact ⟨cc, hcc, hd2.trans hd1, ha2.trans ha1, fun f v h => hv2 f v (hv1 f v h)⟩

theorem cached_of_le {st st' : OSt α} (h : Le st st') {p : RPath} {f : Field} {v : Val α}
    (hc : cached st p f = some v) : cached st' p f = some v := by
  unfold cached at hc ⊢
  cases hp : st.ctxs p with
  | none => simp [hp] at hc
  | some c =>
    simp only [hp, Option.bind_some] at hc
    obtain ⟨c', hc', _, _, hv⟩ := h.2 p c hp
    simp [hc', hv f v hc]

/-- an action that only ever extends the cache -/
def Infl {β : Type} (a : Act α β) : Prop := ∀ st, Le st (a st).2

theorem infl_pure {β : Type} (r : Res β) : Infl (Act.pure r : Act α β) := fun st => Le.refl st
theorem infl_read {β : Type} (f : OSt α → Res β) : Infl (Act.read f) := fun st => Le.refl st

theorem infl_bind {β γ : Type} {a : Act α β} {k : β → Act α γ} (ha : Infl a) (hk : ∀ b, Infl (k b)) :
    Infl (a.bind k) := by
  intro st
  unfold Act.bind
  have h1 := ha st
  cases hr : a st with
  | mk r st1 =>
    rw [hr] at h1
    cases r with
    | ok b => exact Le.trans h1 (hk b st1)
    | unavailable => exact h1
    | crash c => exact h1

theorem infl_getD {β : Type} {a : Act α β} (d : β) (ha : Infl a) : Infl (a.getD d) := by
  intro st
  unfold Act.getD
  have h1 := ha st
  cases hr : a st with
  | mk r st1 =>
    rw [hr] at h1
    cases r <;> exact h1

theorem infl_bindInt {γ : Type} {a : Act α (Val α)} {k : Int → Act α γ} (ha : Infl a) (hk : ∀ b, Infl (k b)) :
    Infl (a.bindInt k) :=
  infl_bind ha fun _ => infl_bind (infl_pure _) hk

theorem infl_bindNum {γ : Type} {a : Act α (Val α)} {k : α → Act α γ} (ha : Infl a) (hk : ∀ b, Infl (k b)) :
    Infl (a.bindNum k) :=
  infl_bind ha fun _ => infl_bind (infl_pure _) hk

theorem le_setField (st st' : OSt α) (p : RPath) (f : Field) (v : Val α) (h : Le st st')
    (hnone : cached st p f = none) : Le st (setField st' p f v) := by
  refine ⟨h.1, ?_⟩
  intro q c hq
  obtain ⟨c', hc', hd, ha, hv⟩ := h.2 q c hq
  by_cases e : q = p
  · subst e
    refine ⟨{ c' with data := fun g => if g = f then some v else c'.data g }, ?_, hd, ha, ?_⟩
    · simp [setField, hc']
    · intro g x hg
      by_cases eg : g = f
      · subst eg
        simp [cached, hq, hg] at hnone
      · simp [eg, hv g x hg]
  · exact ⟨c', by simp [setField, e, hc'], hd, ha, hv⟩

/-- the `PROXY` macro keeps every value obtained before -/
theorem infl_memo (p : RPath) (f : Field) {compute : Act α (Val α)} (hc : Infl compute) :
    Infl (memo p f compute) := by
  intro st
  unfold memo
  cases hcache : cached st p f with
  | some v => exact Le.refl st
  | none =>
    have h1 := hc st
    cases hr : compute st with
    | mk r st1 =>
      rw [hr] at h1
      cases r with
      | ok v => exact le_setField st st1 p f v h1 hcache
      | unavailable => exact h1
      | crash c => exact h1

theorem infl_addToCache (w : World) (p : RPath) : Infl (addToCache (α := α) w p) := by
  intro st
  unfold addToCache
  cases hp : st.ctxs p with
  | some c => exact Le.refl st
  | none =>
    cases w.openDir p with
    | none => exact Le.refl st
    | some inc =>
      refine ⟨rfl, ?_⟩
      intro q c hq
      have : q ≠ p := by intro e; subst e; rw [hp] at hq; cases hq
      exact ⟨c, by simp [this, hq], rfl, rfl, fun _ _ h => h⟩

theorem infl_getPrim (w : World) (p : RPath) (f : Field) : Infl (getPrim (α := α) w p f) :=
  infl_memo p f (infl_read _)

theorem infl_getRaw (w : World) (p : RPath) : Infl (getRaw (α := α) w p) :=
  infl_bindInt (infl_getPrim w p _) fun _ => infl_bindInt (infl_getPrim w p _) fun _ =>
    infl_bindInt (infl_getPrim w p _) fun _ => infl_pure _

theorem infl_sumRaw (w : World) (pp : RPath) (names : List Str) : Infl (sumRaw (α := α) w pp names) := by
  induction names with
  | nil => exact infl_pure _
  | cons nm rest ih =>
    unfold sumRaw
    refine infl_bind (infl_getD 0 ?_) fun _ => infl_bind ih fun _ => infl_pure _
    exact infl_bind (infl_addToCache w _) fun _ => infl_bindInt (infl_getRaw w _) fun _ => infl_pure _

theorem infl_getEffSwapMax (w : World) (p : RPath) : Infl (getEffSwapMax (α := α) w p) := by
  induction p with
  | nil => exact infl_memo _ _ (infl_read _)
  | cons n ps ih =>
    unfold getEffSwapMax
    exact infl_memo _ _ (infl_bind (infl_addToCache w ps) fun _ => infl_bindInt ih fun _ =>
      infl_bindInt (infl_getPrim w _ _) fun _ => infl_pure _)

theorem infl_getEffSwapFree (w : World) (p : RPath) : Infl (getEffSwapFree (α := α) w p) := by
  induction p with
  | nil => exact infl_memo _ _ (infl_read _)
  | cons n ps ih =>
    unfold getEffSwapFree
    exact infl_memo _ _ (infl_bindInt (infl_getPrim w _ _) fun _ => infl_bindInt (infl_getPrim w _ _) fun _ =>
      infl_bind (infl_addToCache w ps) fun _ => infl_bindInt ih fun _ => infl_pure _)

theorem infl_getEffSwapUtil (w : World) (p : RPath) : Infl (getEffSwapUtil (α := α) w p) := by
  induction p with
  | nil => exact infl_memo _ _ (infl_read _)
  | cons n ps ih =>
    unfold getEffSwapUtil
    refine infl_memo _ _ (infl_bindInt (infl_getPrim w _ _) fun sm => ?_)
    by_cases h : sm = 0
    · simp only [h, if_true]; exact infl_pure _
    · simp only [h, if_false]
      exact infl_bindInt (infl_getPrim w _ _) fun _ => infl_bind (infl_addToCache w ps) fun _ =>
        infl_bindNum ih fun _ => infl_pure _

theorem infl_getMemProt (w : World) : ∀ p : RPath, Infl (getMemProt (α := α) w p)
  | [] => by unfold getMemProt; exact infl_memo _ _ (infl_getPrim w _ _)
  | [n] => by unfold getMemProt; exact infl_memo _ _ (infl_getRaw w _)
  | n :: m :: ps => by
    have ih := infl_getMemProt w (m :: ps)
    unfold getMemProt
    refine infl_memo _ _ (infl_bind (infl_addToCache w _) fun _ => infl_bind (infl_getPrim w _ _) fun _ =>
      infl_bind (infl_pure _) fun names => infl_bind (infl_sumRaw w _ names) fun sum => ?_)
    by_cases h : sum = 0
    · simp only [h, if_true]; exact infl_pure _
    · simp only [h, if_false]
      exact infl_bindInt (infl_getRaw w _) fun _ => infl_bindInt ih fun _ => infl_pure _

variable (cfg : Params α)

theorem infl_getIoCostCum (w : World) (p : RPath) : Infl (getIoCostCum cfg w p) :=
  infl_memo _ _ (infl_bind (infl_getPrim w _ _) fun _ => infl_bind (infl_pure _) fun _ => infl_pure _)

theorem infl_getPgScanCum (w : World) (p : RPath) : Infl (getPgScanCum (α := α) w p) :=
  infl_memo _ _ (infl_bind (infl_getPrim w _ _) fun _ => infl_bind (infl_pure _) fun _ => infl_pure _)

theorem infl_getAverageUsage (w : World) (p : RPath) : Infl (getAverageUsage cfg w p) :=
  infl_memo _ _ (infl_bindInt (infl_getPrim w _ _) fun _ => infl_read _)

theorem infl_getIoCostRate (w : World) (p : RPath) : Infl (getIoCostRate cfg w p) :=
  infl_memo _ _ (infl_bindNum (infl_getIoCostCum cfg w p) fun _ => infl_read _)

theorem infl_getPgScanRate (w : World) (p : RPath) : Infl (getPgScanRate (α := α) w p) :=
  infl_memo _ _ (infl_bindInt (infl_getPgScanCum w p) fun _ => infl_read _)

theorem infl_getField (w : World) (p : RPath) (f : Field) : Infl (getField cfg w p f) := by
  cases f <;> first
    | exact infl_getPrim w p _
    | exact infl_getEffSwapMax w p
    | exact infl_getEffSwapFree w p
    | exact infl_getEffSwapUtil w p
    | exact infl_getMemProt w p
    | exact infl_getIoCostCum cfg w p
    | exact infl_getPgScanCum w p
    | exact infl_getAverageUsage cfg w p
    | exact infl_getIoCostRate cfg w p
    | exact infl_getPgScanRate w p

theorem infl_statKey (w : World) (p : RPath) (key : String) : Infl (statKey (α := α) w p key) :=
  infl_bind (infl_getPrim w _ _) fun _ => infl_bind (infl_pure _) fun _ => infl_pure _

/-- every public accessor only extends the cache, whatever the world looks like when it is called -/
theorem infl_getAcc (w : World) (p : RPath) (a : Acc) : Infl (getAcc cfg w p a) := by
  cases a with
  | field f => exact infl_getField cfg w p f
  | anon => exact infl_statKey w p _
  | file => exact infl_statKey w p _
  | shmem => exact infl_statKey w p _
  | effUsage scale adj =>
    exact infl_bindInt (infl_getPrim w _ _) fun _ => infl_bindInt (infl_getMemProt w p) fun _ => infl_pure _
  | growth =>
    refine infl_bindInt (infl_getPrim w _ _) fun _ => infl_bindInt (infl_getAverageUsage cfg w p) fun avg => ?_
    by_cases h : avg = 0
    · simp only [h, if_true]; exact infl_pure _
    · simp only [h, if_false]; exact infl_pure _

theorem memo_cached (p : RPath) (f : Field) (compute : Act α (Val α)) (st : OSt α) (v : Val α)
    (h : cached st p f = some v) : memo p f compute st = (.ok v, st) := by
  simp [memo, h]

/-- a cached field is returned as it is, without looking at the world -/
theorem getField_cached (w : World) (p : RPath) (f : Field) (st : OSt α) (v : Val α)
    (h : cached st p f = some v) : getField cfg w p f st = (.ok v, st) := by
  cases f
  case effSwapMax => cases p <;> (unfold getField getEffSwapMax; exact memo_cached _ _ _ st v h)
  case effSwapFree => cases p <;> (unfold getField getEffSwapFree; exact memo_cached _ _ _ st v h)
  case effSwapUtil => cases p <;> (unfold getField getEffSwapUtil; exact memo_cached _ _ _ st v h)
  case memoryProtection =>
    rcases p with _ | ⟨n, _ | ⟨m, ps⟩⟩ <;> (unfold getField getMemProt; exact memo_cached _ _ _ st v h)
  all_goals exact memo_cached _ _ _ st v h

end Cache

/-! ## the cache machine computes the reference

`Coh e st` : everything the state has cached is what the stateless reference says about the world
`e.w` (with the system context `e.sys` and the archives `e.arch`).  The state right after
`refresh` is coherent with whatever the world has become; every getter keeps coherence and returns
the reference value. -/

section Sound
variable {α : Type} [Num α]

structure Coh (e : RefEnv α) (st : OSt α) : Prop where
  sys : st.sys = e.sys
  ctx : ∀ p c, st.ctxs p = some c →
    e.w.openDir p = some c.dir ∧ c.arch = e.arch p ∧ ∀ f v, c.data f = some v → refField e p f = .ok v
  fresh : ∀ p, st.ctxs p = none → e.arch p = Arch.empty

def Has (st : OSt α) (p : RPath) : Prop := ∃ c, st.ctxs p = some c

theorem has_of_le {st st' : OSt α} (h : Le st st') {p : RPath} (hp : Has st p) : Has st' p := by
  obtain ⟨c, hc⟩ := hp
  obtain ⟨c', hc', _⟩ := h.2 p c hc
  exact ⟨c', hc'⟩

/-- under coherence and given the contexts `need`, the action returns `r`, keeps coherence, only extends
the state, and (when it succeeds) the contexts `gives` exist afterwards -/
def Triple {β : Type} (e : RefEnv α) (need : List RPath) (a : Act α β) (r : Res β) (gives : List RPath) : Prop :=
  ∀ st, Coh e st → (∀ q ∈ need, Has st q) →
    (a st).1 = r ∧ Coh e (a st).2 ∧ Le st (a st).2 ∧ (∀ b, r = .ok b → ∀ q ∈ gives, Has (a st).2 q)

theorem Triple.pure {β : Type} (e : RefEnv α) (need : List RPath) (r : Res β) :
    Triple e need (Act.pure r) r [] :=
  fun st hc _ => ⟨rfl, hc, Le.refl st, fun _ _ q hq => by simp at hq⟩

theorem Triple.read {β : Type} (e : RefEnv α) (need : List RPath) (f : OSt α → Res β) (r : Res β)
    (h : ∀ st, Coh e st → (∀ q ∈ need, Has st q) → f st = r) : Triple e need (Act.read f) r [] :=
  fun st hc hn => ⟨h st hc hn, hc, Le.refl st, fun _ _ q hq => by simp at hq⟩

theorem Triple.bind {β γ : Type} {e : RefEnv α} {need gives gives' : List RPath} {a : Act α β}
    {k : β → Act α γ} {ra : Res β} {rk : β → Res γ}
    (ha : Triple e need a ra gives)
    (hk : ∀ b, ra = .ok b → Triple e (gives ++ need) (k b) (rk b) gives') :
    Triple e need (a.bind k) (ra.bind rk) gives' := by
  intro st hc hn
  obtain ⟨h1, h2, h3, h4⟩ := ha st hc hn
  unfold Act.bind
  cases hr : a st with
  | mk r st1 =>
    rw [hr] at h1 h2 h3 h4
    simp only at h1 h2 h3 h4
    subst h1
    cases r with
    | ok b =>
      have hn1 : ∀ q ∈ gives ++ need, Has st1 q := by
        intro q hq
        rcases List.mem_append.1 hq with hq | hq
        · exact h4 b rfl q hq
        · exact has_of_le h3 (hn q hq)
      obtain ⟨k1, k2, k3, k4⟩ := hk b rfl st1 h2 hn1
      exact ⟨by simpa [Res.bind] using k1, k2, Le.trans h3 k3, by simpa [Res.bind] using k4⟩
    | unavailable => exact ⟨rfl, h2, h3, fun b hb => by simp [Res.bind] at hb⟩
    | crash c => exact ⟨rfl, h2, h3, fun b hb => by simp [Res.bind] at hb⟩

theorem Triple.weaken {β : Type} {e : RefEnv α} {need need' gives : List RPath} {a : Act α β} {r : Res β}
    (h : Triple e need a r gives) (hsub : ∀ q ∈ need, q ∈ need') : Triple e need' a r [] :=
  fun st hc hn =>
    let ⟨h1, h2, h3, _⟩ := h st hc (fun q hq => hn q (hsub q hq))
    ⟨h1, h2, h3, fun _ _ q hq => by simp at hq⟩

theorem Triple.congr {β : Type} {e : RefEnv α} {need gives : List RPath} {a : Act α β} {r r' : Res β}
    (h : Triple e need a r gives) (hr : r = r') : Triple e need a r' gives := hr ▸ h

theorem Triple.getD {β : Type} {e : RefEnv α} {need gives : List RPath} {a : Act α β} {r : Res β} (d : β)
    (h : Triple e need a r gives) : Triple e need (a.getD d) (Res.getD' r d) [] := by
  intro st hc hn
  obtain ⟨h1, h2, h3, _⟩ := h st hc hn
  unfold Act.getD
  cases hr : a st with
  | mk r1 st1 =>
    rw [hr] at h1 h2 h3
    simp only at h1 h2 h3
    subst h1
    cases r1 <;> exact ⟨rfl, h2, h3, fun _ _ q hq => by simp at hq⟩

theorem coh_setField {e : RefEnv α} {st : OSt α} (hc : Coh e st) (p : RPath) (f : Field) (v : Val α)
    (hv : refField e p f = .ok v) : Coh e (setField st p f v) := by
  refine ⟨hc.sys, ?_, ?_⟩
  · intro q c hq
    by_cases e1 : q = p
    · subst e1
      simp only [setField, if_true] at hq
      cases hctx : st.ctxs q with
      | none => simp [hctx] at hq
      | some c0 =>
        simp only [hctx, Option.map_some] at hq
        injection hq with hq
        subst hq
        obtain ⟨h1, h2, h3⟩ := hc.ctx q c0 hctx
        refine ⟨h1, h2, ?_⟩
        intro g x hg
        by_cases eg : g = f
        · subst eg
          simp only [if_true] at hg
          injection hg with hg
          subst hg
          exact hv
        · simp only [eg, if_false] at hg
          exact h3 g x hg
    · simp only [setField, e1, if_false] at hq
      exact hc.ctx q c hq
  · intro q hq
    by_cases e1 : q = p
    · subst e1
      simp only [setField, if_true] at hq
      cases hctx : st.ctxs q with
      | none => exact hc.fresh q hctx
      | some c0 => simp [hctx] at hq
    · simp only [setField, e1, if_false] at hq
      exact hc.fresh q hq

/-- the `PROXY` macro around a computation of the reference value is the reference value -/
theorem Triple.memo {e : RefEnv α} {need gives : List RPath} {compute : Act α (Val α)} {r : Res (Val α)}
    (p : RPath) (f : Field) (h : Triple e need compute r gives) (hr : refField e p f = r) :
    Triple e need (memo p f compute) r [] := by
  intro st hc hn
  unfold OomdModel.CgStats.memo
  cases hcache : cached st p f with
  | some v =>
    have : r = .ok v := by
      unfold cached at hcache
      cases hp : st.ctxs p with
      | none => simp [hp] at hcache
      | some c =>
        simp only [hp, Option.bind_some] at hcache
        rw [← hr]; exact (hc.ctx p c hp).2.2 f v hcache
    exact ⟨this.symm, hc, Le.refl st, fun _ _ q hq => by simp at hq⟩
  | none =>
    obtain ⟨h1, h2, h3, _⟩ := h st hc hn
    cases hres : compute st with
    | mk r1 st1 =>
      rw [hres] at h1 h2 h3
      simp only at h1 h2 h3
      subst h1
      cases r1 with
      | ok v =>
        exact ⟨rfl, coh_setField h2 p f v hr, le_setField st st1 p f v h3 hcache, fun _ _ q hq => by simp at hq⟩
      | unavailable => exact ⟨rfl, h2, h3, fun _ _ q hq => by simp at hq⟩
      | crash c => exact ⟨rfl, h2, h3, fun _ _ q hq => by simp at hq⟩

/-- `addToCacheAndGet`: succeeds exactly when the directory can be opened; the context exists afterwards -/
theorem Triple.addToCache (e : RefEnv α) (p : RPath) :
    Triple e [] (addToCache (α := α) e.w p) (refOpen e p) [p] := by
  intro st hc _
  unfold OomdModel.CgStats.addToCache refOpen
  cases hp : st.ctxs p with
  | some c =>
    have ho := (hc.ctx p c hp).1
    refine ⟨by simp [ho], hc, Le.refl st, ?_⟩
    intro _ _ q hq
    simp at hq
    subst hq
    exact ⟨c, hp⟩
  | none =>
    cases ho : e.w.openDir p with
    | none => exact ⟨rfl, hc, Le.refl st, fun b hb => by simp at hb⟩
    | some inc =>
      refine ⟨rfl, ⟨hc.sys, ?_, ?_⟩, ?_, ?_⟩
      · intro q c hq
        by_cases e1 : q = p
        · subst e1
          simp only [if_true] at hq
          injection hq with hq
          subst hq
          exact ⟨ho, (hc.fresh q hp).symm, fun f v hv => by simp at hv⟩
        · simp only [e1, if_false] at hq
          exact hc.ctx q c hq
      · intro q hq
        by_cases e1 : q = p
        · subst e1; simp at hq
        · simp only [e1, if_false] at hq
          exact hc.fresh q hq
      · have := infl_addToCache (α := α) e.w p st
        simpa [OomdModel.CgStats.addToCache, hp, ho] using this
      · intro _ _ q hq
        simp at hq
        subst hq
        exact ⟨{ dir := inc, data := fun _ => none, arch := Arch.empty }, by simp⟩

theorem Res.bind_assoc {β γ δ : Type} (r : Res β) (f : β → Res γ) (g : γ → Res δ) :
    (r.bind f).bind g = r.bind fun a => (f a).bind g := by
  cases r <;> rfl

theorem Res.map_def {β γ : Type} (r : Res β) (f : β → γ) : r.map f = r.bind fun a => .ok (f a) := rfl

@[simp] theorem Res.bind_ok' {β γ : Type} (a : β) (f : β → Res γ) : (Res.ok a).bind f = f a := rfl
@[simp] theorem Res.bind_unavailable' {β γ : Type} (f : β → Res γ) :
    (Res.unavailable : Res β).bind f = .unavailable := rfl
@[simp] theorem Res.bind_crash' {β γ : Type} (c : String) (f : β → Res γ) :
    (Res.crash c : Res β).bind f = .crash c := rfl

theorem Triple.bindInt {γ : Type} {e : RefEnv α} {need gives gives' : List RPath} {a : Act α (Val α)}
    {k : Int → Act α γ} {rv : Res (Val α)} {rk : Int → Res γ}
    (ha : Triple e need a rv gives)
    (hk : ∀ i, rv.bind Val.int? = .ok i → Triple e (gives ++ need) (k i) (rk i) gives') :
    Triple e need (a.bindInt k) ((rv.bind Val.int?).bind rk) gives' := by
  have := Triple.bind (rk := fun v => (Val.int? v).bind rk) ha (fun v hv =>
    Triple.bind (Triple.pure e (gives ++ need) v.int?) (fun i hi => hk i (by rw [hv]; exact hi)))
  exact Triple.congr this (Res.bind_assoc _ _ _).symm

theorem Triple.bindNum {γ : Type} {e : RefEnv α} {need gives gives' : List RPath} {a : Act α (Val α)}
    {k : α → Act α γ} {rv : Res (Val α)} {rk : α → Res γ}
    (ha : Triple e need a rv gives)
    (hk : ∀ i, rv.bind Val.num? = .ok i → Triple e (gives ++ need) (k i) (rk i) gives') :
    Triple e need (a.bindNum k) ((rv.bind Val.num?).bind rk) gives' := by
  have := Triple.bind (rk := fun v => (Val.num? v).bind rk) ha (fun v hv =>
    Triple.bind (Triple.pure e (gives ++ need) v.num?) (fun i hi => hk i (by rw [hv]; exact hi)))
  exact Triple.congr this (Res.bind_assoc _ _ _).symm

theorem refField_prim (e : RefEnv α) (p : RPath) (f : Field) (hf : f.rank = 0) :
    refField e p f = refPrim e p f := by
  cases f <;> first | rfl | (simp [Field.rank] at hf)

theorem Triple.getPrim (e : RefEnv α) (p : RPath) (f : Field) (hf : f.rank = 0) (need : List RPath)
    (hp : p ∈ need) : Triple e need (getPrim (α := α) e.w p f) (refPrim e p f) [] := by
  unfold OomdModel.CgStats.getPrim
  refine Triple.memo p f (Triple.read e need _ _ ?_) (refField_prim e p f hf)
  intro st hc hn
  obtain ⟨c, hcx⟩ := hn p hp
  simp [hcx, refPrim, (hc.ctx p c hcx).1]

theorem int_map_bind (r : Res Int) : (r.map (Val.int (α := α))).bind Val.int? = r := by
  cases r <;> rfl

theorem num_map_bind (r : Res α) : (r.map (Val.num (α := α))).bind Val.num? = r := by
  cases r <;> rfl

theorem Triple.getRaw (e : RefEnv α) (p : RPath) (need : List RPath) (hp : p ∈ need) :
    Triple e need (getRaw (α := α) e.w p) ((refRaw e p).map .int) [] := by
  unfold OomdModel.CgStats.getRaw
  have h := Triple.bindInt (Triple.getPrim e p .currentUsage rfl need hp) (fun cur _ =>
    Triple.bindInt (Triple.getPrim e p .memoryMin rfl ([] ++ need) (by simpa using hp)) (fun mn _ =>
      Triple.bindInt (Triple.getPrim e p .memoryLow rfl ([] ++ ([] ++ need)) (by simpa using hp)) (fun lo _ =>
        Triple.pure e _ (Res.ok (Val.int (α := α) (rawProtection cur mn lo))))))
  exact Triple.congr h (by simp only [refRaw, refInt, Res.map_def, Res.bind_assoc, Res.bind_ok'])

theorem Triple.weaken' {β : Type} {e : RefEnv α} {need need' gives : List RPath} {a : Act α β} {r : Res β}
    (h : Triple e need a r gives) (hsub : ∀ q ∈ need, q ∈ need') : Triple e need' a r gives :=
  fun st hc hn => h st hc (fun q hq => hn q (hsub q hq))

theorem Res.bind_ok_right {β : Type} (r : Res β) : (r.bind fun a => Res.ok a) = r := by
  cases r <;> rfl

theorem refRaw_unavailable (e : RefEnv α) (q : RPath) (h : e.w.openDir q = none) :
    refRaw e q = .unavailable := by
  simp [refRaw, refInt, refPrim, h]

theorem Triple.sumRaw (e : RefEnv α) (pp : RPath) (names : List Str) (need : List RPath) :
    Triple e need (sumRaw (α := α) e.w pp names) (refSumRaw e pp names) [] := by
  induction names with
  | nil => exact Triple.pure e need _
  | cons nm rest ih =>
    unfold OomdModel.CgStats.sumRaw refSumRaw
    refine Triple.bind (gives := []) ?_ (fun r _ => Triple.bind (gives := []) ih (fun sum _ => Triple.pure e _ _))
    have h := Triple.getD 0 (Triple.bind ((Triple.addToCache e (nm :: pp)).weaken' (need' := need) (by simp))
      (fun _ _ => Triple.bindInt (Triple.getRaw e (nm :: pp) ([nm :: pp] ++ need) (by simp))
        (fun r _ => Triple.pure e _ (Res.ok r))))
    refine Triple.congr h ?_
    cases ho : e.w.openDir (nm :: pp) with
    | none => simp [refOpen, ho, refRaw_unavailable e _ ho, Res.bind]
    | some inc => simp only [refOpen, ho, Res.bind_ok', int_map_bind, Res.bind_ok_right]

theorem Triple.getEffSwapMax (e : RefEnv α) (p : RPath) : ∀ (need : List RPath), p ∈ need →
    Triple e need (getEffSwapMax (α := α) e.w p) ((refEffSwapMax e p).map .int) [] := by
  induction p with
  | nil =>
    intro need _
    unfold OomdModel.CgStats.getEffSwapMax
    refine Triple.memo [] .effSwapMax (Triple.read e need _ _ ?_) rfl
    intro st hc _
    simp [refEffSwapMax, hc.sys, Res.map, Res.bind]
  | cons n ps ih =>
    intro need hp
    unfold OomdModel.CgStats.getEffSwapMax
    refine Triple.memo (gives := []) (n :: ps) .effSwapMax ?_ rfl
    have h := Triple.bind ((Triple.addToCache e ps).weaken' (need' := need) (by simp))
      (fun _ _ => Triple.bindInt (ih ([ps] ++ need) (by simp))
        (fun pm _ => Triple.bindInt (Triple.getPrim e (n :: ps) .swapMax rfl ([] ++ ([ps] ++ need)) (by simp [hp]))
          (fun sm _ => Triple.pure e _ (Res.ok (Val.int (α := α) (min pm sm))))))
    refine Triple.congr h ?_
    rw [int_map_bind]
    simp only [refEffSwapMax, refInt, Res.map_def, Res.bind_assoc, Res.bind_ok']

theorem Triple.getEffSwapFree (e : RefEnv α) (p : RPath) : ∀ (need : List RPath), p ∈ need →
    Triple e need (getEffSwapFree (α := α) e.w p) ((refEffSwapFree e p).map .int) [] := by
  induction p with
  | nil =>
    intro need _
    unfold OomdModel.CgStats.getEffSwapFree
    refine Triple.memo [] .effSwapFree (Triple.read e need _ _ ?_) rfl
    intro st hc _
    simp [refEffSwapFree, hc.sys, Res.map, Res.bind]
  | cons n ps ih =>
    intro need hp
    unfold OomdModel.CgStats.getEffSwapFree
    refine Triple.memo (gives := []) (n :: ps) .effSwapFree ?_ rfl
    have h := Triple.bindInt (Triple.getPrim e (n :: ps) .swapMax rfl need hp)
      (fun sm _ => Triple.bindInt (Triple.getPrim e (n :: ps) .swapUsage rfl ([] ++ need) (by simpa using hp))
        (fun su _ => Triple.bind ((Triple.addToCache e ps).weaken' (need' := [] ++ ([] ++ need)) (by simp))
          (fun _ _ => Triple.bindInt (ih ([ps] ++ ([] ++ ([] ++ need))) (by simp))
            (fun pf _ => Triple.pure e _ (Res.ok (Val.int (α := α) (min pf (sm - su))))))))
    refine Triple.congr h ?_
    simp only [int_map_bind]
    simp only [refEffSwapFree, refInt, Res.map_def, Res.bind_assoc, Res.bind_ok']

theorem Triple.getEffSwapUtil (e : RefEnv α) (p : RPath) : ∀ (need : List RPath), p ∈ need →
    Triple e need (getEffSwapUtil (α := α) e.w p) ((refEffSwapUtil e p).map .num) [] := by
  induction p with
  | nil =>
    intro need _
    unfold OomdModel.CgStats.getEffSwapUtil
    refine Triple.memo [] .effSwapUtil (Triple.read e need _ _ ?_) rfl
    intro st hc _
    simp only [refEffSwapUtil, hc.sys]
    split <;> rfl
  | cons n ps ih =>
    intro need hp
    unfold OomdModel.CgStats.getEffSwapUtil
    refine Triple.memo (gives := []) (n :: ps) .effSwapUtil ?_ rfl
    refine Triple.congr (r := ((refPrim e (n :: ps) .swapMax).bind Val.int?).bind fun sm =>
        if sm = 0 then Res.ok (Val.num (zero : α)) else
        ((refPrim e (n :: ps) .swapUsage).bind Val.int?).bind fun su => (refOpen e ps).bind fun _ =>
          (((refEffSwapUtil e ps).map Val.num).bind Val.num?).bind fun pu =>
            Res.ok (Val.num (nmax pu (localUtil su sm)))) ?_ ?_
    · refine Triple.bindInt (Triple.getPrim e (n :: ps) .swapMax rfl need hp) (fun sm _ => ?_)
      by_cases h0 : sm = 0
      · simp only [h0, if_true]; exact Triple.pure e _ _
      · simp only [h0, if_false]
        exact Triple.bindInt (Triple.getPrim e (n :: ps) .swapUsage rfl ([] ++ need) (by simpa using hp))
          (fun su _ => Triple.bind ((Triple.addToCache e ps).weaken' (need' := [] ++ ([] ++ need)) (by simp))
            (fun _ _ => Triple.bindNum (ih ([ps] ++ ([] ++ ([] ++ need))) (by simp))
              (fun pu _ => Triple.pure e _ (Res.ok (Val.num (nmax pu (localUtil su sm)))))))
    · simp only [num_map_bind]
      simp only [refEffSwapUtil, refInt, Res.map_def, Res.bind_assoc]
      congr 1
      funext v
      congr 1
      funext sm
      by_cases h0 : sm = 0
      · simp [h0]
      · simp only [h0, if_false, Res.bind_assoc, Res.bind_ok']

theorem refPrim_currentUsage_int (e : RefEnv α) (p : RPath) :
    ((refPrim e p .currentUsage).bind Val.int?).map Val.int = refPrim e p .currentUsage := by
  unfold refPrim
  cases e.w.openDir p with
  | none => rfl
  | some inc =>
    simp only [readPrim]
    generalize (if p.isEmpty = true then procRes e.w "meminfo" readRootMemcurrent
      else fileRes e.w inc fMemCurrent readFirstLineInt) = r
    cases r <;> rfl

theorem Triple.getMemProt (e : RefEnv α) : ∀ (p : RPath) (need : List RPath), p ∈ need →
    Triple e need (getMemProt (α := α) e.w p) ((refMemProt e p).map .int) []
  | [], need, hp => by
    unfold OomdModel.CgStats.getMemProt
    refine Triple.memo (gives := []) [] .memoryProtection
      (Triple.congr (Triple.getPrim e [] .currentUsage rfl need hp) ?_) rfl
    simp only [refMemProt, refInt]
    exact (refPrim_currentUsage_int e []).symm
  | [n], need, hp => by
    unfold OomdModel.CgStats.getMemProt
    exact Triple.memo (gives := []) [n] .memoryProtection (Triple.getRaw e [n] need hp) rfl
  | n :: m :: ps, need, hp => by
    have ih := Triple.getMemProt e (m :: ps)
    unfold OomdModel.CgStats.getMemProt
    refine Triple.memo (gives := []) (n :: m :: ps) .memoryProtection ?_ rfl
    refine Triple.congr (r := (refOpen e (m :: ps)).bind fun _ =>
        (refPrim e (m :: ps) .children).bind fun cv => (Val.strs? cv).bind fun names =>
        (refSumRaw e (m :: ps) names).bind fun sum =>
        if sum = 0 then Res.ok (Val.int (α := α) 0) else
        (((refRaw e (n :: m :: ps)).map (Val.int (α := α))).bind Val.int?).bind fun raw =>
        (((refMemProt e (m :: ps)).map (Val.int (α := α))).bind Val.int?).bind fun pp =>
          Res.ok (Val.int (normProtection (α := α) raw pp sum))) ?_ ?_
    · refine Triple.bind ((Triple.addToCache e (m :: ps)).weaken' (need' := need) (by simp)) (fun _ _ => ?_)
      refine Triple.bind (gives := []) (Triple.getPrim e (m :: ps) .children rfl _ (by simp)) (fun cv _ => ?_)
      refine Triple.bind (gives := []) (Triple.pure e _ cv.strs?) (fun names _ => ?_)
      refine Triple.bind (gives := []) (Triple.sumRaw e (m :: ps) names _) (fun sum _ => ?_)
      by_cases h0 : sum = 0
      · simp only [h0, if_true]; exact Triple.pure e _ _
      · simp only [h0, if_false]
        exact Triple.bindInt (Triple.getRaw e (n :: m :: ps) _ (by simp [hp]))
          (fun raw _ => Triple.bindInt (ih _ (by simp))
            (fun pp _ => Triple.pure e _ (Res.ok (Val.int (normProtection (α := α) raw pp sum)))))
    · simp only [int_map_bind]
      simp only [refMemProt, refChildren, Res.map_def, Res.bind_assoc]
      congr 1
      funext _
      congr 1
      funext cv
      congr 1
      funext names
      congr 1
      funext sum
      by_cases h0 : sum = 0
      · simp [h0]
      · simp only [h0, if_false, Res.bind_assoc, Res.bind_ok']

theorem Triple.getIoCostCum (e : RefEnv α) (p : RPath) (need : List RPath) (hp : p ∈ need) :
    Triple e need (getIoCostCum e.cfg e.w p) ((refIoCostCum e p).map .num) [] := by
  unfold OomdModel.CgStats.getIoCostCum
  refine Triple.memo (gives := []) p .ioCostCum ?_ rfl
  have h := Triple.bind (gives := []) (Triple.getPrim e p .ioStat rfl need hp) (fun v _ =>
    Triple.bind (gives := []) (Triple.pure e _ v.io?) (fun stats _ =>
      Triple.pure e _ (Res.ok (Val.num (ioCost e.cfg stats)))))
  exact Triple.congr h (by simp only [refIoCostCum, Res.map_def, Res.bind_assoc, Res.bind_ok'])

theorem Triple.getPgScanCum (e : RefEnv α) (p : RPath) (need : List RPath) (hp : p ∈ need) :
    Triple e need (getPgScanCum (α := α) e.w p) ((refPgScanCum e p).map .int) [] := by
  unfold OomdModel.CgStats.getPgScanCum
  refine Triple.memo (gives := []) p .pgScanCum ?_ rfl
  have h := Triple.bind (gives := []) (Triple.getPrim e p .memoryStat rfl need hp) (fun v _ =>
    Triple.bind (gives := []) (Triple.pure e _ v.kv?) (fun m _ =>
      Triple.pure e _ ((pgscanOf m).map (Val.int (α := α)))))
  exact Triple.congr h (by simp only [refPgScanCum, Res.map_def, Res.bind_assoc])

theorem archOf_coh {e : RefEnv α} {st : OSt α} (hc : Coh e st) (p : RPath) : archOf st p = e.arch p := by
  unfold archOf
  cases hp : st.ctxs p with
  | none => exact (hc.fresh p hp).symm
  | some c => exact (hc.ctx p c hp).2.1

theorem Triple.getAverageUsage (e : RefEnv α) (p : RPath) (need : List RPath) (hp : p ∈ need) :
    Triple e need (getAverageUsage e.cfg e.w p) ((refAverageUsage e p).map .int) [] := by
  unfold OomdModel.CgStats.getAverageUsage
  refine Triple.memo (gives := []) p .averageUsage ?_ rfl
  have h := Triple.bindInt (Triple.getPrim e p .currentUsage rfl need hp) (fun cur _ =>
    Triple.read e _ (fun st => Res.ok (Val.int (α := α) (avgStep e.cfg.decay ((archOf st p).avg.getD 0) cur)))
      (Res.ok (Val.int (α := α) (avgStep e.cfg.decay ((e.arch p).avg.getD 0) cur)))
      (fun st hc _ => by simp only [archOf_coh hc p]))
  exact Triple.congr h (by simp only [refAverageUsage, refInt, Res.map_def, Res.bind_assoc, Res.bind_ok'])

theorem Triple.getIoCostRate (e : RefEnv α) (p : RPath) (need : List RPath) (hp : p ∈ need) :
    Triple e need (getIoCostRate e.cfg e.w p) ((refIoCostRate e p).map .num) [] := by
  unfold OomdModel.CgStats.getIoCostRate
  refine Triple.memo (gives := []) p .ioCostRate ?_ rfl
  have h := Triple.bindNum (Triple.getIoCostCum e p need hp) (fun c _ =>
    Triple.read e _ (fun st => Res.ok (Val.num (ioRateOf c (archOf st p).io)))
      (Res.ok (Val.num (ioRateOf c (e.arch p).io)))
      (fun st hc _ => by simp only [archOf_coh hc p]))
  refine Triple.congr h ?_
  rw [num_map_bind]
  simp only [refIoCostRate, Res.map_def, Res.bind_assoc, Res.bind_ok']

theorem Triple.getPgScanRate (e : RefEnv α) (p : RPath) (need : List RPath) (hp : p ∈ need) :
    Triple e need (getPgScanRate (α := α) e.w p) ((refPgScanRate e p).map .int) [] := by
  unfold OomdModel.CgStats.getPgScanRate
  refine Triple.memo (gives := []) p .pgScanRate ?_ rfl
  have h := Triple.bindInt (Triple.getPgScanCum e p need hp) (fun c _ =>
    Triple.read e _ (fun st => (pgRateOf c (archOf st p).pg).map (Val.int (α := α)))
      ((pgRateOf c (e.arch p).pg).map (Val.int (α := α)))
      (fun st hc _ => by simp only [archOf_coh hc p]))
  refine Triple.congr h ?_
  rw [int_map_bind]
  simp only [refPgScanRate, Res.map_def, Res.bind_assoc]

/-- every cached accessor returns the reference value on a coherent state -/
theorem Triple.getField (e : RefEnv α) (p : RPath) (f : Field) (need : List RPath) (hp : p ∈ need) :
    Triple e need (getField e.cfg e.w p f) (refField e p f) [] := by
  cases f
  case effSwapMax => exact Triple.getEffSwapMax e p need hp
  case effSwapFree => exact Triple.getEffSwapFree e p need hp
  case effSwapUtil => exact Triple.getEffSwapUtil e p need hp
  case memoryProtection => exact Triple.getMemProt e p need hp
  case ioCostCum => exact Triple.getIoCostCum e p need hp
  case pgScanCum => exact Triple.getPgScanCum e p need hp
  case averageUsage => exact Triple.getAverageUsage e p need hp
  case ioCostRate => exact Triple.getIoCostRate e p need hp
  case pgScanRate => exact Triple.getPgScanRate e p need hp
  all_goals exact Triple.getPrim e p _ rfl need hp

theorem Triple.statKey (e : RefEnv α) (p : RPath) (key : String) (need : List RPath) (hp : p ∈ need) :
    Triple e need (statKey (α := α) e.w p key) (refStatKey e p key) [] := by
  unfold OomdModel.CgStats.statKey
  have h := Triple.bind (gives := []) (Triple.getPrim e p .memoryStat rfl need hp) (fun v _ =>
    Triple.bind (gives := []) (Triple.pure e _ v.kv?) (fun m _ =>
      Triple.pure e _ ((statOf m key).map (Val.int (α := α)))))
  exact Triple.congr h (by simp only [refStatKey, Res.map_def, Res.bind_assoc])

/-- every public accessor returns the reference value on a coherent state -/
theorem Triple.getAcc (e : RefEnv α) (p : RPath) (a : Acc) (need : List RPath) (hp : p ∈ need) :
    Triple e need (getAcc e.cfg e.w p a) (refAcc e p a) [] := by
  cases a with
  | field f => exact Triple.getField e p f need hp
  | anon => exact Triple.statKey e p _ need hp
  | file => exact Triple.statKey e p _ need hp
  | shmem => exact Triple.statKey e p _ need hp
  | effUsage scale adj =>
    have h := Triple.bindInt (Triple.getPrim e p .currentUsage rfl need hp) (fun cur _ =>
      Triple.bindInt (Triple.getMemProt e p ([] ++ need) (by simpa using hp)) (fun prot _ =>
        Triple.pure e _ (Res.ok (Val.int (α := α) (cur * scale - prot + adj)))))
    refine Triple.congr h ?_
    simp only [int_map_bind]
    simp only [refAcc, refInt]
  | growth =>
    refine Triple.congr (r := ((refPrim e p .currentUsage).bind Val.int?).bind fun cur =>
      (((refAverageUsage e p).map (Val.int (α := α))).bind Val.int?).bind fun avg =>
        if avg = 0 then Res.ok (Val.num (zero : α)) else Res.ok (Val.num (div (ofInt cur) (ofInt avg)))) ?_ ?_
    · refine Triple.bindInt (Triple.getPrim e p .currentUsage rfl need hp) (fun cur _ => ?_)
      refine Triple.bindInt (Triple.getAverageUsage e p ([] ++ need) (by simpa using hp)) (fun avg _ => ?_)
      by_cases h0 : avg = 0
      · simp only [h0, if_true]; exact Triple.pure e _ _
      · simp only [h0, if_false]; exact Triple.pure e _ _
    · simp only [int_map_bind]
      simp only [refAcc, refInt]

end Sound

/-! ## ticks: `refresh`, obtained values, re-created cgroups -/

section Ticks
variable {α : Type} [Num α]

/-- after `refresh` nothing is cached -/
theorem cached_refresh (w : World) (st : OSt α) (p : RPath) (f : Field) : cached (refresh w st) p f = none := by
  unfold cached refresh
  simp only
  cases hp : st.ctxs p with
  | none => simp
  | some c =>
    simp only [Option.bind_some]
    unfold refreshCtx
    split <;> simp

/-- a context whose held directory is no longer a valid cgroup is dropped -/
theorem refresh_drops (w : World) (st : OSt α) (p : RPath) (c : Ctx α) (hc : st.ctxs p = some c)
    (hgone : w.file c.dir fControllers = none) : (refresh w st).ctxs p = none := by
  simp [refresh, hc, refreshCtx, hgone]

/-- a context whose directory is still valid survives, keeps its directory, and archives exactly what
was obtained during the tick that ends -/
theorem refresh_keeps (w : World) (st : OSt α) (p : RPath) (c : Ctx α) (hc : st.ctxs p = some c)
    (hvalid : (w.file c.dir fControllers).isSome) :
    ∃ c', (refresh w st).ctxs p = some c' ∧ c'.dir = c.dir ∧
      c'.arch.avg = ((cached st p .averageUsage).bind fun v => v.int?.toOption) ∧
      c'.arch.io = ((cached st p .ioCostCum).bind fun v => v.num?.toOption) ∧
      c'.arch.pg = ((cached st p .pgScanCum).bind fun v => v.int?.toOption) := by
  refine ⟨{ dir := c.dir, data := fun _ => none,
            arch := { avg := (c.data .averageUsage).bind fun v => v.int?.toOption
                      io := (c.data .ioCostCum).bind fun v => v.num?.toOption
                      pg := (c.data .pgScanCum).bind fun v => v.int?.toOption } }, ?_, rfl, ?_, ?_, ?_⟩
  · simp [refresh, hc, refreshCtx, hvalid]
  · simp [cached, hc]
  · simp [cached, hc]
  · simp [cached, hc]

/-- the initial state (no context) is coherent with every world, as long as the reference is asked
with empty archives -/
theorem coh_init (e : RefEnv α) (hs : e.sys = SysCtx.init) (ha : ∀ p, e.arch p = Arch.empty) :
    Coh e (OSt.init : OSt α) :=
  ⟨hs.symm, fun p c h => by simp [OSt.init] at h, fun p _ => ha p⟩

/-- the state right after `refresh` is coherent with the world as it is now, when the reference is
asked with the archives `refresh` has just taken and when a still-valid held directory is the
directory at its path (a property of the kernel: a live cgroup directory has one path) -/
theorem coh_refresh (w : World) (st : OSt α) (cfg : Params α)
    (hw : ∀ p c, st.ctxs p = some c → (w.file c.dir fControllers).isSome → w.openDir p = some c.dir) :
    Coh { w := w, sys := st.sys, cfg := cfg, arch := archOf (refresh w st) } (refresh w st) := by
  refine ⟨rfl, ?_, ?_⟩
  · intro p c' hc'
    have hcached : ∀ f, c'.data f = none := by
      intro f
      have := cached_refresh w st p f
      simpa [cached, hc'] using this
    refine ⟨?_, by simp [archOf, hc'], fun f v hv => by rw [hcached f] at hv; cases hv⟩
    cases hp : st.ctxs p with
    | none => simp [refresh, hp] at hc'
    | some c =>
      by_cases hv : (w.file c.dir fControllers).isSome
      · obtain ⟨c'', h1, h2, _⟩ := refresh_keeps w st p c hp hv
        rw [hc'] at h1
        injection h1 with h1
        subst h1
        rw [h2]
        exact hw p c hp hv
      · have : w.file c.dir fControllers = none := by
          cases h : w.file c.dir fControllers with
          | none => rfl
          | some x => simp [h] at hv
        rw [refresh_drops w st p c hp this] at hc'
        cases hc'
  · intro p hp
    simp [archOf, hp]

theorem le_addChildStep (w : World) (dir : Nat) (p : RPath) (acc : List Str × OSt α) (nm : Str) :
    Le acc.2 (addChildStep w dir p acc nm).2 := by
  unfold addChildStep
  cases w.openChild dir nm with
  | none => exact Le.refl _
  | some inc =>
    simp only
    cases hq : acc.2.ctxs (nm :: p) with
    | some _ => exact Le.refl _
    | none =>
      refine ⟨rfl, ?_⟩
      intro q cq hcq
      have : q ≠ nm :: p := by intro e; subst e; rw [hq] at hcq; cases hcq
      exact ⟨cq, by simp [this, hcq], rfl, rfl, fun _ _ h => h⟩

theorem le_addChildFold (w : World) (dir : Nat) (p : RPath) (names : List Str) :
    ∀ acc : List Str × OSt α, Le acc.2 (names.foldl (addChildStep w dir p) acc).2 := by
  induction names with
  | nil => intro acc; exact Le.refl _
  | cons nm rest ih =>
    intro acc
    simp only [List.foldl_cons]
    exact Le.trans (le_addChildStep w dir p acc nm) (ih _)

theorem infl_addChildren (w : World) (p : RPath) : Infl (addChildren (α := α) w p) := by
  unfold addChildren
  refine infl_bind (infl_getPrim w p _) fun cv => infl_bind (infl_pure _) fun names => ?_
  intro st
  cases hp : st.ctxs p with
  | none => simp only [hp]; exact Le.refl st
  | some c => simp only [hp]; exact le_addChildFold w c.dir p names ([], st)

/-- when an accessor of an existing context returns a value, that value is cached -/
theorem memo_ok_cached (p : RPath) (f : Field) {compute : Act α (Val α)} (hc : Infl compute) (st : OSt α)
    (hp : Has st p) (v : Val α) (h : (memo p f compute st).1 = .ok v) : cached (memo p f compute st).2 p f = some v := by
  unfold memo at h ⊢
  cases hcache : cached st p f with
  | some x =>
    simp only [hcache] at h ⊢
    injection h with h
    subst h
    rfl
  | none =>
    simp only [hcache] at h ⊢
    have hle := hc st
    cases hr : compute st with
    | mk r st1 =>
      rw [hr] at hle
      simp only [hr] at h ⊢
      cases r with
      | ok x =>
        simp only at h ⊢
        injection h with h
        subst h
        obtain ⟨c1, hc1⟩ := has_of_le hle hp
        have hc1' : st1.ctxs p = some c1 := hc1
        simp [cached, setField, hc1']
      | unavailable => simp at h
      | crash c => simp at h

/-- every cached accessor is an instance of the `PROXY` macro -/
theorem getField_is_memo (cfg : Params α) (w : World) (p : RPath) (f : Field) :
    ∃ compute, getField cfg w p f = memo p f compute := by
  cases f
  case effSwapMax => cases p <;> exact ⟨_, by unfold getField getEffSwapMax; rfl⟩
  case effSwapFree => cases p <;> exact ⟨_, by unfold getField getEffSwapFree; rfl⟩
  case effSwapUtil => cases p <;> exact ⟨_, by unfold getField getEffSwapUtil; rfl⟩
  case memoryProtection =>
    rcases p with _ | ⟨n, _ | ⟨m, ps⟩⟩ <;> exact ⟨_, by unfold getField getMemProt; rfl⟩
  all_goals exact ⟨_, rfl⟩

theorem setField_has (st : OSt α) (p q : RPath) (f : Field) (v : Val α) : Has (setField st p f v) q ↔ Has st q := by
  unfold Has setField
  by_cases e : q = p
  · subst e
    cases h : st.ctxs q <;> simp [h]
  · simp [e]

/-- a value returned by an accessor of an existing context is in the cache afterwards -/
theorem getField_ok_cached (cfg : Params α) (w : World) (p : RPath) (f : Field) (st : OSt α) (v : Val α)
    (hp : Has st p) (h : (getField cfg w p f st).1 = .ok v) : cached (getField cfg w p f st).2 p f = some v := by
  have hp' : Has (getField cfg w p f st).2 p := has_of_le (infl_getField cfg w p f st) hp
  obtain ⟨compute, hm⟩ := getField_is_memo cfg w p f
  rw [hm] at h hp' ⊢
  unfold memo at h hp' ⊢
  cases hcache : cached st p f with
  | some x =>
    simp only [hcache] at h ⊢
    injection h with h
    subst h
    rfl
  | none =>
    simp only [hcache] at h hp' ⊢
    cases hr : compute st with
    | mk r st1 =>
      simp only [hr] at h hp' ⊢
      cases r with
      | ok x =>
        simp only at h hp' ⊢
        injection h with h
        subst h
        obtain ⟨c1, hc1⟩ := (setField_has st1 p p f x).1 hp'
        simp [cached, setField, hc1]
      | unavailable => simp at h
      | crash c => simp at h

end Ticks

end OomdModel.CgStats

import OomdModel.CgStats
import OomdProofs.FsRead

/-! Helper lemmas for C15: the formulas over `Rat`, and the cache machine. -/

namespace OomdModel.CgStats
open OomdModel.Path (Str)
open OomdModel.FsRead
open Num

/-! ## the `Rat` instance -/

section RatFacts

theorem rat_ofInt (i : Int) : (Num.ofInt i : Rat) = (i : Rat) := rfl
theorem rat_one : (Num.one : Rat) = 1 := rfl
theorem rat_zero : (Num.zero : Rat) = 0 := rfl
theorem rat_mul (a b : Rat) : Num.mul a b = a * b := rfl
theorem rat_div (a b : Rat) : Num.div a b = a / b := rfl
theorem rat_add (a b : Rat) : Num.add a b = a + b := rfl
theorem rat_sub (a b : Rat) : Num.sub a b = a - b := rfl
theorem rat_lt (a b : Rat) : Num.lt a b = decide (a < b) := rfl

theorem rat_nmin (a b : Rat) : nmin a b = if b < a then b else a := by
  simp [nmin, rat_lt]

theorem rat_nmax (a b : Rat) : nmax a b = if a < b then b else a := by
  simp [nmax, rat_lt]

theorem rat_trunc_nonneg (q : Rat) (h : 0 ≤ q) : (Num.trunc q : Int) = q.floor := by
  show (if 0 ≤ q then q.floor else -((-q).floor)) = q.floor
  simp [h]

theorem rat_div_nonneg {a b : Rat} (ha : 0 ≤ a) (hb : 0 < b) : 0 ≤ a / b := by
  rw [Rat.div_def]
  exact Rat.mul_nonneg ha (Rat.le_of_lt (Rat.inv_pos.2 hb))

theorem rat_floor_nonneg {q : Rat} (h : 0 ≤ q) : 0 ≤ q.floor := by
  have : ((0 : Int) : Rat) ≤ q := by simpa using h
  exact Rat.le_floor_iff.2 this

theorem rat_floor_le_int {q : Rat} {z : Int} (h : q ≤ (z : Rat)) : q.floor ≤ z := by
  have h1 : (q.floor : Rat) ≤ (z : Rat) := Rat.le_trans (Rat.floor_le q) h
  exact Rat.intCast_le_intCast.1 h1

end RatFacts

/-! ## memory protection laws (exact arithmetic) -/

section Protection

/-- the scaling factor `min(1, parent / sum)` -/
def protFactor (parent sum : Int) : Rat := nmin (1 : Rat) (((1 : Rat) * (parent : Rat)) / (sum : Rat))

theorem normProtection_rat (raw parent sum : Int) (hs : sum ≠ 0) :
    normProtection (α := Rat) raw parent sum = Num.trunc ((raw : Rat) * protFactor parent sum) := by
  simp [normProtection, hs, protFactor, rat_ofInt, rat_one, rat_mul, rat_div]

theorem protFactor_bounds (parent sum : Int) (hp : 0 ≤ parent) (hs : 0 < sum) :
    0 ≤ protFactor parent sum ∧ protFactor parent sum ≤ 1 := by
  have hs' : (0 : Rat) < (sum : Rat) := Rat.intCast_pos.2 hs
  have hp' : (0 : Rat) ≤ (parent : Rat) := Rat.intCast_nonneg.2 hp
  have hx : 0 ≤ ((1 : Rat) * (parent : Rat)) / (sum : Rat) := by
    rw [Rat.one_mul]; exact rat_div_nonneg hp' hs'
  unfold protFactor
  rw [rat_nmin]
  split
  · rename_i h; exact ⟨hx, Rat.le_of_lt h⟩
  · exact ⟨by decide, Rat.le_refl⟩

theorem protFactor_no_overcommit (parent sum : Int) (hs : 0 < sum) (h : sum ≤ parent) :
    protFactor parent sum = 1 := by
  have hs' : (0 : Rat) < (sum : Rat) := Rat.intCast_pos.2 hs
  unfold protFactor
  rw [rat_nmin, Rat.one_mul]
  have : ¬ ((parent : Rat) / (sum : Rat) < 1) := by
    rw [Rat.div_lt_iff hs', Rat.one_mul]
    intro hlt
    have := Rat.intCast_lt_intCast.1 hlt
    omega
  rw [if_neg this]

theorem protFactor_overcommit (parent sum : Int) (hs : 0 < sum) (h : parent < sum) :
    protFactor parent sum = (parent : Rat) / (sum : Rat) := by
  have hs' : (0 : Rat) < (sum : Rat) := Rat.intCast_pos.2 hs
  unfold protFactor
  rw [rat_nmin, Rat.one_mul]
  have : ((parent : Rat) / (sum : Rat) < 1) := by
    rw [Rat.div_lt_iff hs', Rat.one_mul]
    exact Rat.intCast_lt_intCast.2 h
  rw [if_pos this]

/-- 0 ≤ P ≤ R -/
theorem normProtection_bounds (raw parent sum : Int) (hr : 0 ≤ raw) (hp : 0 ≤ parent) (hs : 0 ≤ sum) :
    0 ≤ normProtection (α := Rat) raw parent sum ∧ normProtection (α := Rat) raw parent sum ≤ raw := by
  by_cases h0 : sum = 0
  · simp [normProtection, h0, hr]
  · have hs' : 0 < sum := by omega
    obtain ⟨hf0, hf1⟩ := protFactor_bounds parent sum hp hs'
    have hr' : (0 : Rat) ≤ (raw : Rat) := Rat.intCast_nonneg.2 hr
    have hq0 : 0 ≤ (raw : Rat) * protFactor parent sum := Rat.mul_nonneg hr' hf0
    have hq1 : (raw : Rat) * protFactor parent sum ≤ (raw : Rat) := by
      have := Rat.mul_le_mul_of_nonneg_left hf1 hr'
      rwa [Rat.mul_one] at this
    rw [normProtection_rat raw parent sum h0, rat_trunc_nonneg _ hq0]
    exact ⟨rat_floor_nonneg hq0, rat_floor_le_int hq1⟩

/-- no over-commit (Σ R ≤ P(parent)) ⇒ P = R -/
theorem normProtection_no_overcommit (raw parent sum : Int) (hr : 0 ≤ raw) (hs : 0 < sum) (h : sum ≤ parent) :
    normProtection (α := Rat) raw parent sum = raw := by
  have h0 : sum ≠ 0 := by omega
  rw [normProtection_rat raw parent sum h0, protFactor_no_overcommit parent sum hs h, Rat.mul_one,
    rat_trunc_nonneg _ (Rat.intCast_nonneg.2 hr), Rat.floor_intCast]

def sumInt : List Int → Int
  | [] => 0
  | x :: xs => x + sumInt xs

theorem sum_floor_le (raws : List Int) (x : Rat) (hx : 0 ≤ x) (hr : ∀ r ∈ raws, 0 ≤ r) :
    ((sumInt (raws.map fun (r : Int) => ((r : Rat) * x).floor) : Int) : Rat) ≤ ((sumInt raws : Int) : Rat) * x := by
  induction raws with
  | nil => simp [sumInt]
  | cons r rs ih =>
    have ih' := ih (fun y hy => hr y (by simp [hy]))
    simp only [List.map_cons, sumInt, Rat.intCast_add, Rat.add_mul]
    have h1 : (((r : Rat) * x).floor : Rat) ≤ (r : Rat) * x := Rat.floor_le _
    exact Rat.le_trans (Rat.add_le_add_right.2 h1) (Rat.add_le_add_left.2 ih')

/-- over-commit (P(parent) < Σ R): the children's protections add up to at most the parent's -/
theorem normProtection_sum_le_parent (raws : List Int) (parent : Int) (hr : ∀ r ∈ raws, 0 ≤ r)
    (hp : 0 ≤ parent) (hover : parent < sumInt raws) :
    sumInt (raws.map fun r => normProtection (α := Rat) r parent (sumInt raws)) ≤ parent := by
  have hs : 0 < sumInt raws := by omega
  have h0 : sumInt raws ≠ 0 := by omega
  have hs' : (0 : Rat) < ((sumInt raws : Int) : Rat) := Rat.intCast_pos.2 hs
  have hx : 0 ≤ (parent : Rat) / ((sumInt raws : Int) : Rat) := rat_div_nonneg (Rat.intCast_nonneg.2 hp) hs'
  have hmap : (raws.map fun r => normProtection (α := Rat) r parent (sumInt raws)) =
      raws.map fun (r : Int) => ((r : Rat) * ((parent : Rat) / ((sumInt raws : Int) : Rat))).floor := by
    apply List.map_congr_left
    intro r hrm
    rw [normProtection_rat r parent _ h0, protFactor_overcommit parent _ hs hover,
      rat_trunc_nonneg _ (Rat.mul_nonneg (Rat.intCast_nonneg.2 (hr r hrm)) hx)]
  rw [hmap]
  have := sum_floor_le raws _ hx hr
  have hcancel : ((sumInt raws : Int) : Rat) * ((parent : Rat) / ((sumInt raws : Int) : Rat)) = (parent : Rat) := by
    rw [Rat.mul_comm]
    exact Rat.div_mul_cancel (Rat.ne_of_gt hs')
  rw [hcancel] at this
  exact Rat.intCast_le_intCast.1 this

/-- R ≤ usage and R ≥ 0 for non-negative files -/
theorem rawProtection_bounds (cur mn lo : Int) (hc : 0 ≤ cur) (hm : 0 ≤ mn) :
    0 ≤ rawProtection cur mn lo ∧ rawProtection cur mn lo ≤ cur := by
  unfold rawProtection
  omega

end Protection

/-! ## moving averages: closed form of `a' = r * a + c * u` -/

section Ewma

/-- the recurrence, newest sample first -/
def linRec (r c : Rat) : List Rat → Rat
  | [] => 0
  | u :: older => r * linRec r c older + c * u

/-- Σ_j c · u_j · r^(k+j), j = age of the sample -/
def weighted (r c : Rat) (k : Nat) : List Rat → Rat
  | [] => 0
  | u :: older => c * u * r ^ k + weighted r c (k + 1) older

theorem weighted_succ (r c : Rat) (us : List Rat) : ∀ k, weighted r c (k + 1) us = r * weighted r c k us := by
  induction us with
  | nil => intro k; simp [weighted]
  | cons u us ih =>
    intro k
    simp only [weighted]
    rw [ih (k + 1), Rat.pow_succ]
    grind

theorem linRec_closed (r c : Rat) (us : List Rat) : linRec r c us = weighted r c 0 us := by
  induction us with
  | nil => rfl
  | cons u us ih =>
    simp only [linRec, weighted]
    rw [ih, weighted_succ, Rat.pow_zero]
    grind

/-- `getAverageUsage` without the conversion to `int64_t` -/
def avgExact (d : Rat) : List Int → Rat
  | [] => 0
  | u :: older => avgExact d older * ((d - 1) / d) + (u : Rat) / d

theorem avgExact_eq_linRec (d : Rat) (us : List Int) :
    avgExact d us = linRec ((d - 1) / d) (1 / d) (us.map fun (u : Int) => (u : Rat)) := by
  induction us with
  | nil => rfl
  | cons u us ih =>
    simp only [avgExact, List.map_cons, linRec]
    rw [ih, Rat.div_def (u : Rat) d, Rat.div_def 1 d]
    grind

/-- what the code computes: the same step, truncated each tick -/
def avgTrunc (d : Rat) : List Int → Int
  | [] => 0
  | u :: older => avgStep d (avgTrunc d older) u

theorem avgStep_rat (d : Rat) (prev cur : Int) :
    avgStep d prev cur = Num.trunc ((prev : Rat) * ((d - 1) / d) + (cur : Rat) / d) := rfl

/-- truncating every tick loses less than `decay` in total: 0 ≤ exact − truncated < d (non-negative usage, d ≥ 1) -/
theorem avgTrunc_bounds (d : Rat) (hd : 1 ≤ d) (us : List Int) (hu : ∀ u ∈ us, 0 ≤ u) :
    0 ≤ avgTrunc d us ∧ ((avgTrunc d us : Int) : Rat) ≤ avgExact d us ∧
      avgExact d us < ((avgTrunc d us : Int) : Rat) + d := by
  have hd0 : (0 : Rat) < d := Rat.lt_of_lt_of_le (by decide) hd
  have hr0 : 0 ≤ (d - 1) / d := rat_div_nonneg ((Rat.le_iff_sub_nonneg 1 d).1 hd) hd0
  have hdr : d * ((d - 1) / d) = d - 1 := by
    rw [Rat.mul_comm]; exact Rat.div_mul_cancel (Rat.ne_of_gt hd0)
  induction us with
  | nil =>
    refine ⟨Int.le_refl 0, ?_, ?_⟩
    · simp [avgTrunc, avgExact]
    · simpa [avgTrunc, avgExact] using hd0
  | cons u us ih =>
    obtain ⟨ht0, hte, het⟩ := ih (fun x hx => hu x (by simp [hx]))
    have hu0 : (0 : Rat) ≤ (u : Rat) := Rat.intCast_nonneg.2 (hu u (by simp))
    have hud : 0 ≤ (u : Rat) / d := rat_div_nonneg hu0 hd0
    have ht0' : (0 : Rat) ≤ ((avgTrunc d us : Int) : Rat) := Rat.intCast_nonneg.2 ht0
    have hq0 : 0 ≤ ((avgTrunc d us : Int) : Rat) * ((d - 1) / d) + (u : Rat) / d :=
      Rat.add_nonneg (Rat.mul_nonneg ht0' hr0) hud
    have h1 : ((avgTrunc d us : Int) : Rat) * ((d - 1) / d) ≤ avgExact d us * ((d - 1) / d) :=
      Rat.mul_le_mul_of_nonneg_right hte hr0
    have h2 : avgExact d us * ((d - 1) / d) ≤ (((avgTrunc d us : Int) : Rat) + d) * ((d - 1) / d) :=
      Rat.mul_le_mul_of_nonneg_right (Rat.le_of_lt het) hr0
    rw [Rat.add_mul, hdr] at h2
    have hfl := Rat.floor_le (((avgTrunc d us : Int) : Rat) * ((d - 1) / d) + (u : Rat) / d)
    have hfl2 := Rat.lt_floor_add_one (((avgTrunc d us : Int) : Rat) * ((d - 1) / d) + (u : Rat) / d)
    rw [Rat.intCast_add] at hfl2
    simp only [avgTrunc, avgExact, avgStep_rat, rat_trunc_nonneg _ hq0]
    refine ⟨rat_floor_nonneg hq0, ?_, ?_⟩
    · grind
    · grind

/-- the swap-out average of `Oomd::updateContext` is the same kind of recurrence -/
theorem ewmaStep_rat (f prev x : Rat) : ewmaStep f prev x = f * prev + (1 - f) * x := by
  show x + f * (prev - x) = f * prev + (1 - f) * x
  grind

end Ewma

/-! ## io cost -/

section IoCost

def sumRat : List Rat → Rat
  | [] => 0
  | x :: xs => x + sumRat xs

/-- what one io.stat line contributes: nothing unless its device is configured -/
def ioContrib (cfg : Params Rat) (d : DevStat) : Option Rat :=
  (devLookup cfg.devs d.devId).map fun hdd => devCost (if hdd then cfg.hdd else cfg.ssd) d

theorem devCost_rat (c : Coeffs Rat) (d : DevStat) :
    devCost c d = (d.rios : Rat) * c.readIops + (d.rbytes : Rat) * c.readBw + (d.wios : Rat) * c.writeIops +
      (d.wbytes : Rat) * c.writeBw + (d.dios : Rat) * c.trimIops + (d.dbytes : Rat) * c.trimBw := rfl

theorem ioCost_fold (cfg : Params Rat) (stats : List DevStat) (acc : Rat) :
    stats.foldl (ioStep cfg) acc = acc + sumRat (stats.filterMap (ioContrib cfg)) := by
  induction stats generalizing acc with
  | nil => simp [sumRat, Rat.add_zero]
  | cons d ds ih =>
    simp only [List.foldl_cons]
    rw [ih]
    unfold ioContrib ioStep
    cases h : devLookup cfg.devs d.devId with
    | none => simp [List.filterMap_cons, h]
    | some hdd =>
      simp only [List.filterMap_cons, h, Option.map_some, sumRat, rat_add]
      rw [Rat.add_assoc]

theorem ioCost_eq_sum (cfg : Params Rat) (stats : List DevStat) :
    ioCost cfg stats = sumRat (stats.filterMap (ioContrib cfg)) := by
  unfold ioCost
  rw [ioCost_fold, rat_zero, Rat.zero_add]

end IoCost

end OomdModel.CgStats

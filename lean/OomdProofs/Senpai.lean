import OomdModel.Senpai

/-!
# Vocabulary of property C18 and helper lemmas about `OomdModel.Senpai`

Part 1 defines, in the words of the property, what a write may look like (`EvOK`), what the floor and
the ceiling are, the two guards, and the two small automata that read a tick's writes in order
(`PokeReset`, `SwapRestored`).  Part 2 proves the lemmas the theorems of `OomdProps/C18.lean` are
assembled from.  Nothing here assumes anything about the numeric instance.
-/

namespace OomdModel.Senpai

variable {α : Type}

/-! ## Part 1 – vocabulary -/

/-- floor: unreclaimable usage + limit_min_bytes, at least memory.min -/
def floorOf (cfg : Cfg α) (sys : Sys α) (v : View α) : Option Int :=
  match v.current, getReclaimableBytes sys v, v.memMin with
  | some cur, some recl, some mmin => some (max (cur - recl + cfg.limitMinBytes) mmin)
  | _, _, _ => none

/-- ceiling: the least of MemTotal, usage + limit_max_bytes, memory.max and – when the limit is
written to memory.high.tmp (`tmp`) – memory.high -/
def ceilOf (cfg : Cfg α) (tmp : Bool) (v : View α) : Option Int :=
  match v.current, v.memMax with
  | some cur, some mx =>
    let base := min (min cfg.hostMemTotal (cur + cfg.limitMaxBytes)) mx
    if tmp then v.memHigh.map (fun h => min base h) else some base
  | _, _ => none

/-- an adjusted limit `l` against floor `lo` and ceiling `hi` -/
structure LimitOK (lo hi l : Int) : Prop where
  aligned : l % 4096 = 0
  above : lo - 4096 < l
  below : l ≤ hi ∨ hi < lo

/-- memory and io `some` pressure (the larger of avg10 / avg60) are below their targets -/
def PressureBelow [Num α] (cfg : Cfg α) (v : View α) : Prop :=
  ∃ m io, v.memSome = some m ∧ v.ioSome = some io ∧
    Num.lt (maxC m.avg10 m.avg60) cfg.memPressurePct = true ∧
    Num.lt (maxC io.avg10 io.avg60) cfg.ioPressurePct = true

/-- there is no swap to deplete, or the effective swap utilisation is below swap_threshold -/
def SwapBelow [Num α] (cfg : Cfg α) (sys : Sys α) (v : View α) : Prop :=
  sys.swaptotal = 0 ∨ sys.swappiness = 0 ∨ v.effSwapMax = some 0 ∨
    ∃ u, v.effSwapUtil = some u ∧ Num.lt u cfg.swapThreshold = true

/-- a reclaim of `size` bytes from the cgroup seen as `v` is admissible -/
structure ReclaimOK [Num α] (cfg : Cfg α) (sys : Sys α) (v : View α) (size : Int) : Prop where
  aligned : size % 4096 = 0
  pressure : PressureBelow cfg v
  swap : cfg.swapValidation = true → SwapBelow cfg sys v
  amount : ∃ cur lo, v.current = some cur ∧ floorOf cfg sys v = some lo ∧ lo < cur ∧
    size = alignDown (Num.toInt (Num.mul (Num.ofInt (cur - lo)) cfg.maxProbe))

/-- what a single write may be, relative to the cgroup (as seen this tick) it was made for -/
def EvOK [Num α] (cfg : Cfg α) (sys : Sys α) (v : View α) : Ev → Prop
  | .high cg _ val .start => cg = v.id ∧ cfg.immediateBackoff = false ∧ v.current = some val
  | .high cg tmp val .adjust => cg = v.id ∧ cfg.immediateBackoff = false ∧
      ∃ lo hi, floorOf cfg sys v = some lo ∧ ceilOf cfg tmp v = some hi ∧ LimitOK lo hi val
  | .high cg _ val .poke => cg = v.id ∧ cfg.immediateBackoff = true ∧
      ∃ cur size, v.current = some cur ∧ val = cur - size ∧ ReclaimOK cfg sys v size
  | .high cg _ val .reset => cg = v.id ∧ cfg.immediateBackoff = true ∧ val = int64Max
  | .reclaim cg size => cg = v.id ∧ cfg.immediateBackoff = true ∧ ReclaimOK cfg sys v size
  | .swappiness _ => cfg.immediateBackoff = true ∧ cfg.modulateSwappiness = true

/-- reads a tick's writes in order: `some (cg, tmp)` = a poke of that file is waiting for its reset -/
def pokeStep (s : Option (Nat × Bool)) (e : Ev) : Option (Option (Nat × Bool)) :=
  match s, e with
  | none, .high cg tmp _ .poke => some (some (cg, tmp))
  | none, _ => some none
  | some (cg, tmp), .high cg' tmp' val .reset =>
    if cg = cg' ∧ tmp = tmp' ∧ val = int64Max then some none else none
  | some _, _ => none

/-- every poke is followed immediately by the reset (to max) of the same file of the same cgroup -/
def PokeReset (l : List Ev) : Prop := l.foldlM pokeStep none = some none

/-- `true` = swappiness has been changed and not yet restored -/
def swapStep (orig : Int) (s : Bool) (e : Ev) : Option Bool :=
  match e with
  | .swappiness x => if s then (if x = orig then some false else none) else some true
  | _ => some s

/-- swappiness writes come in pairs (change, restore to `orig`) and the tick ends restored -/
def SwapRestored (orig : Int) (l : List Ev) : Prop := l.foldlM (swapStep orig) false = some false

/-- strictly increasing identities (a `std::map`) -/
def SortedIds (l : List (Nat × CgState)) : Prop := l.Pairwise (fun a b => a.1 < b.1)

def lookup (tr : List (Nat × CgState)) (id : Nat) : Option CgState :=
  (tr.find? (fun p => p.1 == id)).map (·.2)

/-- what happens to one resolved cgroup, given the state recorded under its identity (if any):
initialised when there is none, ticked otherwise -/
def stepById [Num α] (cfg : Cfg α) (sys : Sys α) (fl : Flags) (v : View α) (s : Option CgState) : R :=
  match s with
  | none => initializeCgroup cfg fl v
  | some st => tickAny cfg sys fl v st

/-- `run` stated by identity: each resolved cgroup (in id order) is stepped with the state found under
its own id in the old map; the new map holds exactly the cgroups whose step succeeded -/
def walkById [Num α] (cfg : Cfg α) (sys : Sys α) (old : List (Nat × CgState)) : Flags → List (View α) → WalkOut
  | fl, [] => ⟨fl, [], []⟩
  | fl, v :: rs =>
    let r := stepById cfg sys fl v (lookup old v.id)
    let o := walkById cfg sys old r.fl rs
    ⟨o.fl, keep v.id r.st ++ o.tracked, r.evs ++ o.evs⟩

/-! ## Part 2 – lemmas -/

/-! ### integers -/

theorem alignDown_mod (x : Int) : alignDown x % 4096 = 0 := by
  unfold alignDown; omega

theorem alignDown_le (x : Int) : alignDown x ≤ x := by
  unfold alignDown; omega

theorem alignDown_gt (x : Int) : x - 4096 < alignDown x := by
  unfold alignDown; omega

/-- the clamp-then-align of `adjust`, for every candidate value `x` -/
theorem limitOK_clamp (lo hi x : Int) : LimitOK lo hi (alignDown (max lo (min hi x))) := by
  refine ⟨alignDown_mod _, ?_, ?_⟩
  · have := alignDown_gt (max lo (min hi x)); omega
  · have := alignDown_le (max lo (min hi x)); omega

/-! ### feature detection is sticky -/

theorem hasMemoryHighTmp_some {fl fl' : Flags} {v : View α} {b : Bool}
    (h : hasMemoryHighTmp fl v = (fl', some b)) :
    fl'.highTmp = some b ∧ fl'.reclaim = fl.reclaim ∧ ∀ v' : View α, hasMemoryHighTmp fl' v' = (fl', some b) := by
  unfold hasMemoryHighTmp at h
  split at h
  · rename_i b' hb
    simp only [Prod.mk.injEq, Option.some.injEq] at h
    obtain ⟨rfl, rfl⟩ := h
    exact ⟨hb, rfl, fun v' => by simp [hasMemoryHighTmp, hb]⟩
  · split at h
    · simp only [Prod.mk.injEq, Option.some.injEq] at h
      obtain ⟨rfl, rfl⟩ := h
      exact ⟨rfl, rfl, fun v' => by simp [hasMemoryHighTmp]⟩
    · split at h
      · simp only [Prod.mk.injEq, Option.some.injEq] at h
        obtain ⟨rfl, rfl⟩ := h
        exact ⟨rfl, rfl, fun v' => by simp [hasMemoryHighTmp]⟩
      · simp at h

/-- the three possible outcomes of a limit write -/
theorem writeMemhigh_cases (fl : Flags) (v : View α) (value : Int) (why : Why) :
    ((writeMemhigh fl v value why).ok = false ∧ (writeMemhigh fl v value why).evs = []) ∨
    ∃ tmp, (writeMemhigh fl v value why).ok = true ∧
      (writeMemhigh fl v value why).evs = [Ev.high v.id tmp value why] ∧
      (writeMemhigh fl v value why).fl.highTmp = some tmp ∧
      ∀ value' why', writeMemhigh (writeMemhigh fl v value why).fl v value' why'
        = ⟨(writeMemhigh fl v value why).fl, true, [Ev.high v.id tmp value' why']⟩ := by
  unfold writeMemhigh
  cases h : hasMemoryHighTmp fl v with
  | mk fl' o =>
    cases o with
    | none => left; simp
    | some b =>
      obtain ⟨h1, _, h3⟩ := hasMemoryHighTmp_some h
      cases b with
      | true =>
        simp only
        by_cases hf : v.highTmpFile = true
        · right; refine ⟨true, ?_⟩; simp [hf, h1, h3]
        · left; simp [hf]
      | false =>
        simp only
        by_cases hf : v.highFile = true
        · right; refine ⟨false, ?_⟩; simp [hf, h1, h3]
        · left; simp [hf]

/-! ### the writes made for one cgroup in one tick: a `Block` -/

/-- what `reclaim` writes: nothing, one memory.reclaim, or poke + reset of one limit file -/
inductive Inner [Num α] (cfg : Cfg α) (sys : Sys α) (v : View α) : List Ev → Prop
  | none : Inner cfg sys v []
  | file (size : Int) : ReclaimOK cfg sys v size → Inner cfg sys v [Ev.reclaim v.id size]
  | poke (tmp : Bool) (cur size : Int) : v.current = some cur → ReclaimOK cfg sys v size →
      Inner cfg sys v [Ev.high v.id tmp (cur - size) .poke, Ev.high v.id tmp int64Max .reset]

/-- everything `run` can write while it handles one resolved cgroup -/
inductive Block [Num α] (cfg : Cfg α) (sys : Sys α) (v : View α) : List Ev → Prop
  | none : Block cfg sys v []
  | start (tmp : Bool) (cur : Int) : cfg.immediateBackoff = false → v.current = some cur →
      Block cfg sys v [Ev.high v.id tmp cur .start]
  | adjust (tmp : Bool) (lo hi x : Int) : cfg.immediateBackoff = false →
      floorOf cfg sys v = some lo → ceilOf cfg tmp v = some hi →
      Block cfg sys v [Ev.high v.id tmp (alignDown (max lo (min hi x))) .adjust]
  | inner (l : List Ev) : cfg.immediateBackoff = true → Inner cfg sys v l → Block cfg sys v l
  | swapped (x : Int) (l : List Ev) : cfg.immediateBackoff = true → cfg.modulateSwappiness = true →
      Inner cfg sys v l → Block cfg sys v (Ev.swappiness x :: l ++ [Ev.swappiness sys.swappiness])

/-- a tick's writes: one block per resolved cgroup, in the order of the list -/
inductive Blocks [Num α] (cfg : Cfg α) (sys : Sys α) : List (View α) → List Ev → Prop
  | nil : Blocks cfg sys [] []
  | cons {v : View α} {rs : List (View α)} {b rest : List Ev} :
      Block cfg sys v b → Blocks cfg sys rs rest → Blocks cfg sys (v :: rs) (b ++ rest)

section
set_option linter.unusedSectionVars false
variable [Num α] (cfg : Cfg α) (sys : Sys α)

theorem initializeCgroup_block (fl : Flags) (v : View α) :
    Block cfg sys v (initializeCgroup cfg fl v).evs := by
  unfold initializeCgroup
  by_cases hi : cfg.immediateBackoff = true
  · simp only [hi, if_true]
    split <;> exact Block.none
  · have hi' : cfg.immediateBackoff = false := by simpa using hi
    simp only [hi', Bool.false_eq_true, if_false]
    split
    · exact Block.none
    · rename_i cur hcur
      have hw := writeMemhigh_cases fl v cur .start
      have hb : Block cfg sys v (writeMemhigh fl v cur .start).evs := by
        rcases hw with ⟨_, h2⟩ | ⟨tmp, _, h2, _⟩
        · rw [h2]; exact Block.none
        · rw [h2]; exact Block.start tmp cur hi' hcur
      split
      · exact hb
      · split <;> exact hb

theorem getLimitMinBytes_eq_floorOf (v : View α) : getLimitMinBytes cfg sys v = floorOf cfg sys v := by
  unfold getLimitMinBytes floorOf
  cases v.current <;> simp only
  cases getReclaimableBytes sys v <;> simp only
  cases v.memMin <;> simp only
  congr 2; omega

theorem getLimitMaxBytes_some {fl fl1 : Flags} {v : View α} {hi : Int}
    (h : getLimitMaxBytes cfg fl v = (fl1, some hi)) :
    ∃ tmp, hasMemoryHighTmp fl v = (fl1, some tmp) ∧ ceilOf cfg tmp v = some hi := by
  unfold getLimitMaxBytes at h
  cases hc : v.current with
  | none => simp [hc] at h
  | some cur =>
    simp only [hc] at h
    cases hh : hasMemoryHighTmp fl v with
    | mk fl' o =>
      simp only [hh] at h
      cases o with
      | none => simp at h
      | some tmp =>
        simp only at h
        refine ⟨tmp, ?_⟩
        cases tmp with
        | true =>
          simp only [if_true] at h
          cases hmh : v.memHigh with
          | none => simp [hmh] at h
          | some mh =>
            simp only [hmh] at h
            cases hmx : v.memMax with
            | none => simp [hmx] at h
            | some mx =>
              simp only [hmx, Prod.mk.injEq, Option.some.injEq] at h
              obtain ⟨rfl, rfl⟩ := h
              refine ⟨rfl, ?_⟩
              simp only [ceilOf, hc, hmx, hmh, if_true, Option.map_some, Option.some.injEq]
              omega
        | false =>
          simp only [Bool.false_eq_true, if_false] at h
          cases hmx : v.memMax with
          | none => simp [hmx] at h
          | some mx =>
            simp only [hmx, Prod.mk.injEq, Option.some.injEq] at h
            obtain ⟨rfl, rfl⟩ := h
            refine ⟨rfl, ?_⟩
            simp only [ceilOf, hc, hmx, Bool.false_eq_true, if_false, Option.some.injEq]
            omega

theorem adjust_block (hi' : cfg.immediateBackoff = false) (fl : Flags) (v : View α) (st : CgState) (factor : α) :
    Block cfg sys v (adjust cfg sys fl v st factor).evs := by
  unfold adjust
  rw [getLimitMinBytes_eq_floorOf]
  cases hlo : floorOf cfg sys v with
  | none => exact Block.none
  | some lo =>
    simp only
    cases hmx : getLimitMaxBytes cfg fl v with
    | mk fl1 o =>
      cases o with
      | none => exact Block.none
      | some hi =>
        simp only
        obtain ⟨tmp, htmp, hceil⟩ := getLimitMaxBytes_some cfg hmx
        obtain ⟨h1, _, h3⟩ := hasMemoryHighTmp_some htmp
        rcases writeMemhigh_cases fl1 v (alignDown (max lo (min hi (scaled st.limit factor)))) .adjust with ⟨_, h2⟩ | ⟨tmp', _, h2, h4, _⟩
        · rw [h2]; exact Block.none
        · rw [h2]
          have : tmp' = tmp := by
            have hfl : (writeMemhigh fl1 v (alignDown (max lo (min hi (scaled st.limit factor)))) .adjust).fl = fl1 := by
              unfold writeMemhigh; rw [h3 v]; cases tmp <;> simp only <;> split <;> rfl
            rw [hfl, h1] at h4; exact (Option.some.inj h4).symm
          subst this
          exact Block.adjust tmp' lo hi _ hi' hlo hceil

theorem tick_block (hi' : cfg.immediateBackoff = false) (fl : Flags) (v : View α) (st : CgState) :
    Block cfg sys v (tick cfg sys fl v st).evs := by
  unfold tick
  cases hr : readMemhigh fl v with
  | mk fl1 o =>
    cases o with
    | none => exact Block.none
    | some limit =>
      simp only
      split
      · exact initializeCgroup_block cfg sys fl1 v
      · split
        · exact Block.none
        · skip
          split
          · exact adjust_block cfg sys hi' _ _ _ _
          · split
            · exact Block.none
            · exact adjust_block cfg sys hi' _ _ _ _

theorem reclaim_inner (fl : Flags) (v : View α) (size : Int) (hok : ReclaimOK cfg sys v size) :
    Inner cfg sys v (reclaim fl v size).evs := by
  unfold reclaim
  simp only
  split
  · split
    · exact Inner.file size hok
    · exact Inner.none
  · cases hc : v.current with
    | none => exact Inner.none
    | some cur =>
      simp only
      rcases writeMemhigh_cases (hasMemoryReclaim fl v).1 v (cur - size) .poke with ⟨h1, h2⟩ | ⟨tmp, h1, h2, _, h4⟩
      · simp only [h1, Bool.not_false, if_true]; rw [h2]; exact Inner.none
      · simp only [h1, Bool.not_true, Bool.false_eq_true, if_false, resetMemhigh, h4, h2]
        exact Inner.poke tmp cur size hc hok

theorem validatePressure_true {v : View α} (h : validatePressure cfg v = some true) : PressureBelow cfg v := by
  unfold validatePressure at h
  cases hm : v.memSome with
  | none => simp [hm] at h
  | some m =>
    cases hio : v.ioSome with
    | none => simp [hm, hio] at h
    | some io =>
      simp only [hm, hio, Option.some.injEq, Bool.and_eq_true] at h
      exact ⟨m, io, hm, hio, h.1, h.2⟩

theorem validateSwap_true {v : View α} (h : validateSwap cfg sys v = some true) : SwapBelow cfg sys v := by
  unfold validateSwap at h
  unfold SwapBelow
  by_cases h0 : sys.swaptotal = 0 ∨ sys.swappiness = 0
  · rcases h0 with h0 | h0
    · exact Or.inl h0
    · exact Or.inr (Or.inl h0)
  · simp only [h0, if_false] at h
    cases hm : v.effSwapMax with
    | none => simp [hm] at h
    | some m =>
      simp only [hm] at h
      by_cases hz : m = 0
      · subst hz; exact Or.inr (Or.inr (Or.inl rfl))
      · simp only [hz, if_false] at h
        cases hu : v.effSwapUtil with
        | none => simp [hu] at h
        | some u =>
          simp only [hu, Option.some.injEq] at h
          exact Or.inr (Or.inr (Or.inr ⟨u, rfl, h⟩))

theorem tickImmediate_block (hi' : cfg.immediateBackoff = true) (fl : Flags) (v : View α) (st : CgState) :
    Block cfg sys v (tickImmediate cfg sys fl v st).evs := by
  unfold tickImmediate
  split
  · exact Block.none
  · cases hvp : validatePressure cfg v with
    | none => exact Block.none
    | some vp =>
      simp only
      cases hvs : (if cfg.swapValidation = true then validateSwap cfg sys v else some true) with
      | none => exact Block.none
      | some vsw =>
        simp only
        split
        · exact Block.none
        · rename_i hval
          have hval' : vp = true ∧ vsw = true := by
            cases vp <;> cases vsw <;> simp_all
          obtain ⟨rfl, rfl⟩ := hval'
          rw [getLimitMinBytes_eq_floorOf]
          cases hlo : floorOf cfg sys v with
          | none => exact Block.none
          | some lo =>
            simp only
            cases hc : v.current with
            | none => exact Block.none
            | some cur =>
              simp only
              split
              · exact Block.none
              · rename_i hgt
                have hgt' : lo < cur := by omega
                have hok : ReclaimOK cfg sys v (reclaimSize cfg cur lo) := by
                  refine ⟨alignDown_mod _, validatePressure_true cfg hvp, ?_, ⟨cur, lo, hc, hlo, hgt', rfl⟩⟩
                  intro hsv
                  simp only [hsv, if_true] at hvs
                  exact validateSwap_true cfg sys hvs
                split
                · rename_i hmod
                  split
                  · exact Block.none
                  · exact Block.swapped _ _ hi' hmod (reclaim_inner cfg sys fl v _ hok)
                · exact Block.inner _ hi' (reclaim_inner cfg sys fl v _ hok)

theorem stepById_block (fl : Flags) (v : View α) (s : Option CgState) :
    Block cfg sys v (stepById cfg sys fl v s).evs := by
  cases s with
  | none => exact initializeCgroup_block cfg sys fl v
  | some st =>
    simp only [stepById, tickAny]
    by_cases hi : cfg.immediateBackoff = true
    · simp only [hi, if_true]; exact tickImmediate_block cfg sys hi fl v st
    · have hi' : cfg.immediateBackoff = false := by simpa using hi
      simp only [hi', Bool.false_eq_true, if_false]; exact tick_block cfg sys hi' fl v st

end

/-! ### the merge walk -/

section
set_option linter.unusedSectionVars false
variable [Num α] (cfg : Cfg α) (sys : Sys α)

theorem walk_nil (fl : Flags) (tr : List (Nat × CgState)) : walk cfg sys fl [] tr = ⟨fl, [], []⟩ := by
  unfold walk; rfl

theorem walk_cons_nil (fl : Flags) (v : View α) (rs : List (View α)) :
    walk cfg sys fl (v :: rs) [] =
      ⟨(walk cfg sys (initializeCgroup cfg fl v).fl rs []).fl,
       keep v.id (initializeCgroup cfg fl v).st ++ (walk cfg sys (initializeCgroup cfg fl v).fl rs []).tracked,
       (initializeCgroup cfg fl v).evs ++ (walk cfg sys (initializeCgroup cfg fl v).fl rs []).evs⟩ := by
  rw [walk]

theorem walk_cons_cons (fl : Flags) (v : View α) (rs : List (View α)) (t : Nat × CgState) (tr : List (Nat × CgState)) :
    walk cfg sys fl (v :: rs) (t :: tr) =
      if v.id < t.1 then
        ⟨(walk cfg sys (initializeCgroup cfg fl v).fl rs (t :: tr)).fl,
         keep v.id (initializeCgroup cfg fl v).st ++ (walk cfg sys (initializeCgroup cfg fl v).fl rs (t :: tr)).tracked,
         (initializeCgroup cfg fl v).evs ++ (walk cfg sys (initializeCgroup cfg fl v).fl rs (t :: tr)).evs⟩
      else if v.id > t.1 then walk cfg sys fl (v :: rs) tr
      else
        ⟨(walk cfg sys (tickAny cfg sys fl v t.2).fl rs tr).fl,
         keep v.id (tickAny cfg sys fl v t.2).st ++ (walk cfg sys (tickAny cfg sys fl v t.2).fl rs tr).tracked,
         (tickAny cfg sys fl v t.2).evs ++ (walk cfg sys (tickAny cfg sys fl v t.2).fl rs tr).evs⟩ := by
  rw [walk]

/-- the writes of the walk are one block per resolved cgroup, in order -/
theorem walk_blocks : ∀ (n : Nat) (fl : Flags) (rs : List (View α)) (tr : List (Nat × CgState)),
    rs.length + tr.length ≤ n → Blocks cfg sys rs (walk cfg sys fl rs tr).evs := by
  intro n
  induction n with
  | zero =>
    intro fl rs tr h
    have : rs = [] := by cases rs with | nil => rfl | cons _ _ => simp at h
    subst this; rw [walk_nil]; exact Blocks.nil
  | succ n ih =>
    intro fl rs tr h
    cases rs with
    | nil => rw [walk_nil]; exact Blocks.nil
    | cons v rs =>
      cases tr with
      | nil =>
        rw [walk_cons_nil]
        exact Blocks.cons (initializeCgroup_block cfg sys fl v) (ih _ rs [] (by simp at h ⊢; omega))
      | cons t tr =>
        rw [walk_cons_cons]
        split
        · exact Blocks.cons (initializeCgroup_block cfg sys fl v) (ih _ rs (t :: tr) (by simp at h ⊢; omega))
        · split
          · exact ih fl (v :: rs) tr (by simp at h ⊢; omega)
          · exact Blocks.cons (stepById_block cfg sys fl v (some t.2)) (ih _ rs tr (by simp at h ⊢; omega))

theorem lookup_nil (id : Nat) : lookup [] id = none := rfl

theorem lookup_cons (t : Nat × CgState) (tr : List (Nat × CgState)) (id : Nat) :
    lookup (t :: tr) id = if t.1 = id then some t.2 else lookup tr id := by
  unfold lookup
  by_cases h : t.1 = id
  · simp [h]
  · simp [h]

theorem lookup_none_of_lt {tr : List (Nat × CgState)} {id : Nat} (h : ∀ p ∈ tr, id < p.1) : lookup tr id = none := by
  induction tr with
  | nil => rfl
  | cons t tr ih =>
    rw [lookup_cons]
    have := h t (List.mem_cons_self ..)
    rw [if_neg (by omega)]
    exact ih (fun p hp => h p (List.mem_cons_of_mem _ hp))

/-- `walkById` only looks at the old map through `lookup` on the ids it meets -/
theorem walkById_congr (old old' : List (Nat × CgState)) :
    ∀ (rs : List (View α)) (fl : Flags), (∀ v ∈ rs, lookup old v.id = lookup old' v.id) →
      walkById cfg sys old fl rs = walkById cfg sys old' fl rs := by
  intro rs
  induction rs with
  | nil => intro fl _; rfl
  | cons v rs ih =>
    intro fl h
    simp only [walkById]
    rw [h v (List.mem_cons_self ..)]
    rw [ih _ (fun v' hv' => h v' (List.mem_cons_of_mem _ hv'))]

/-- the merge walk of `Senpai::run` is the walk by identity, for id-sorted inputs -/
theorem walk_eq_walkById : ∀ (n : Nat) (fl : Flags) (rs : List (View α)) (tr : List (Nat × CgState)),
    rs.length + tr.length ≤ n → rs.Pairwise (fun a b => a.id < b.id) → SortedIds tr →
    walk cfg sys fl rs tr = walkById cfg sys tr fl rs := by
  intro n
  induction n with
  | zero =>
    intro fl rs tr h _ _
    have : rs = [] := by cases rs with | nil => rfl | cons _ _ => simp at h
    subst this; rw [walk_nil]; rfl
  | succ n ih =>
    intro fl rs tr h hrs htr
    cases rs with
    | nil => rw [walk_nil]; rfl
    | cons v rs =>
      have hrs' := (List.pairwise_cons.1 hrs)
      cases tr with
      | nil =>
        rw [walk_cons_nil, ih _ rs [] (by simp at h ⊢; omega) hrs'.2 List.Pairwise.nil]
        simp only [walkById, lookup_nil, stepById]
      | cons t tr =>
        have htr' := (List.pairwise_cons.1 htr)
        rw [walk_cons_cons]
        split
        · rename_i hlt
          rw [ih _ rs (t :: tr) (by simp at h ⊢; omega) hrs'.2 htr]
          have hnone : lookup (t :: tr) v.id = none := by
            apply lookup_none_of_lt
            intro p hp
            rcases List.mem_cons.1 hp with rfl | hp
            · exact hlt
            · have := htr'.1 p hp; omega
          simp only [walkById, hnone, stepById]
        · split
          · rename_i hnlt hgt
            rw [ih fl (v :: rs) tr (by simp at h ⊢; omega) hrs htr'.2]
            apply walkById_congr
            intro v' hv'
            have hge : v.id ≤ v'.id := by
              rcases List.mem_cons.1 hv' with rfl | hv'
              · exact Nat.le_refl _
              · exact Nat.le_of_lt (hrs'.1 v' hv')
            rw [lookup_cons, if_neg (by omega)]
          · rename_i hnlt hngt
            have heq : t.1 = v.id := by omega
            rw [ih _ rs tr (by simp at h ⊢; omega) hrs'.2 htr'.2]
            have hsome : lookup (t :: tr) v.id = some t.2 := by rw [lookup_cons, if_pos heq]
            simp only [walkById, hsome, stepById]
            have hc : walkById cfg sys tr (tickAny cfg sys fl v t.2).fl rs =
                walkById cfg sys (t :: tr) (tickAny cfg sys fl v t.2).fl rs := by
              apply walkById_congr
              intro v' hv'
              have := hrs'.1 v' hv'
              rw [lookup_cons, if_neg (by omega)]
            rw [hc]

/-- the new map holds only identities that were resolved this tick, in increasing order -/
theorem walkById_tracked (old : List (Nat × CgState)) :
    ∀ (rs : List (View α)) (fl : Flags), rs.Pairwise (fun a b => a.id < b.id) →
      SortedIds (walkById cfg sys old fl rs).tracked ∧
      ∀ p ∈ (walkById cfg sys old fl rs).tracked, ∃ v ∈ rs, v.id = p.1 := by
  intro rs
  induction rs with
  | nil => intro fl _; exact ⟨List.Pairwise.nil, fun p hp => by simp [walkById] at hp⟩
  | cons v rs ih =>
    intro fl hrs
    have hrs' := List.pairwise_cons.1 hrs
    obtain ⟨ih1, ih2⟩ := ih (stepById cfg sys fl v (lookup old v.id)).fl hrs'.2
    simp only [walkById]
    cases hst : (stepById cfg sys fl v (lookup old v.id)).st with
    | none =>
      simp only [keep, List.nil_append]
      exact ⟨ih1, fun p hp => by
        obtain ⟨v', hv', e⟩ := ih2 p hp
        exact ⟨v', List.mem_cons_of_mem _ hv', e⟩⟩
    | some s =>
      simp only [keep, List.cons_append, List.nil_append]
      refine ⟨List.pairwise_cons.2 ⟨?_, ih1⟩, ?_⟩
      · intro p hp
        obtain ⟨v', hv', e⟩ := ih2 p hp
        have := hrs'.1 v' hv'
        simp only; omega
      · intro p hp
        rcases List.mem_cons.1 hp with rfl | hp
        · exact ⟨v, List.mem_cons_self .., rfl⟩
        · obtain ⟨v', hv', e⟩ := ih2 p hp
          exact ⟨v', List.mem_cons_of_mem _ hv', e⟩

end

/-! ### reading a tick's writes in order -/

section
set_option linter.unusedSectionVars false
variable [Num α] (cfg : Cfg α) (sys : Sys α)

theorem inner_poke {v : View α} {l : List Ev} (h : Inner cfg sys v l) : l.foldlM pokeStep none = some none := by
  cases h with
  | none => rfl
  | file size _ => simp [pokeStep]
  | poke tmp cur size _ _ => simp [pokeStep]

theorem block_poke {v : View α} {l : List Ev} (h : Block cfg sys v l) : l.foldlM pokeStep none = some none := by
  cases h with
  | none => rfl
  | start tmp cur _ _ => simp [pokeStep]
  | adjust tmp lo hi x _ _ _ => simp [pokeStep]
  | inner l _ hin => exact inner_poke cfg sys hin
  | swapped x l _ _ hin =>
    simp only [List.foldlM_cons, List.foldlM_append, pokeStep, Option.bind_eq_bind, Option.bind_some, inner_poke cfg sys hin]
    simp

theorem blocks_poke {rs : List (View α)} {l : List Ev} (h : Blocks cfg sys rs l) : PokeReset l := by
  unfold PokeReset
  induction h with
  | nil => rfl
  | cons hb _ ih => simp [List.foldlM_append, block_poke cfg sys hb, ih]

theorem inner_swap {v : View α} {l : List Ev} (orig : Int) (s : Bool) (h : Inner cfg sys v l) :
    l.foldlM (swapStep orig) s = some s := by
  cases h with
  | none => rfl
  | file size _ => simp [swapStep]
  | poke tmp cur size _ _ => simp [swapStep]

theorem block_swap {v : View α} {l : List Ev} (h : Block cfg sys v l) :
    l.foldlM (swapStep sys.swappiness) false = some false := by
  cases h with
  | none => rfl
  | start tmp cur _ _ => simp [swapStep]
  | adjust tmp lo hi x _ _ _ => simp [swapStep]
  | inner l _ hin => exact inner_swap cfg sys _ _ hin
  | swapped x l _ _ hin =>
    simp only [List.foldlM_cons, List.foldlM_append, swapStep, Option.bind_eq_bind, inner_swap cfg sys _ _ hin]
    simp

theorem blocks_swap {rs : List (View α)} {l : List Ev} (h : Blocks cfg sys rs l) : SwapRestored sys.swappiness l := by
  unfold SwapRestored
  induction h with
  | nil => rfl
  | cons hb _ ih => simp [List.foldlM_append, block_swap cfg sys hb, ih]

theorem inner_evOK (hi : cfg.immediateBackoff = true) {v : View α} {l : List Ev} (h : Inner cfg sys v l) :
    ∀ e ∈ l, EvOK cfg sys v e := by
  cases h with
  | none => intro e he; cases he
  | file size hok =>
    intro e he
    simp only [List.mem_singleton] at he
    subst he; exact ⟨rfl, hi, hok⟩
  | poke tmp cur size hc hok =>
    intro e he
    simp only [List.mem_cons, List.not_mem_nil, or_false] at he
    rcases he with rfl | rfl
    · exact ⟨rfl, hi, cur, size, hc, rfl, hok⟩
    · exact ⟨rfl, hi, rfl⟩

theorem block_evOK {v : View α} {l : List Ev} (h : Block cfg sys v l) : ∀ e ∈ l, EvOK cfg sys v e := by
  cases h with
  | none => intro e he; cases he
  | start tmp cur hi hc =>
    intro e he
    simp only [List.mem_singleton] at he
    subst he; exact ⟨rfl, hi, hc⟩
  | adjust tmp lo hi x him hlo hhi =>
    intro e he
    simp only [List.mem_singleton] at he
    subst he; exact ⟨rfl, him, lo, hi, hlo, hhi, limitOK_clamp lo hi x⟩
  | inner l hi hin => exact inner_evOK cfg sys hi hin
  | swapped x l hi hm hin =>
    intro e he
    simp only [List.mem_cons, List.mem_append, List.not_mem_nil, or_false] at he
    rcases he with (rfl | he) | rfl
    · exact ⟨hi, hm⟩
    · exact inner_evOK cfg sys hi hin e he
    · exact ⟨hi, hm⟩

theorem blocks_evOK {rs : List (View α)} {l : List Ev} (h : Blocks cfg sys rs l) :
    ∀ e ∈ l, ∃ v ∈ rs, EvOK cfg sys v e := by
  induction h with
  | nil => intro e he; cases he
  | cons hb _ ih =>
    rename_i v rs b rest _
    intro e he
    rcases List.mem_append.1 he with he | he
    · exact ⟨v, List.mem_cons_self .., block_evOK cfg sys hb e he⟩
    · obtain ⟨v', hv', hok⟩ := ih e he
      exact ⟨v', List.mem_cons_of_mem _ hv', hok⟩

/-- membership is not changed by `ctx.reverseSort` -/
theorem mem_sortById {l : List (View α)} {v : View α} : v ∈ sortById l ↔ v ∈ l := by
  unfold sortById; exact List.mem_mergeSort

/-- distinct identities are in strictly increasing order after `ctx.reverseSort` -/
theorem sortById_sorted (l : List (View α)) (h : (l.map (·.id)).Nodup) :
    (sortById l).Pairwise (fun a b => a.id < b.id) := by
  have hs : (sortById l).Pairwise (fun a b => decide (a.id ≤ b.id) = true) := by
    unfold sortById
    apply List.pairwise_mergeSort
    · intro a b c hab hbc; simp only [decide_eq_true_eq] at *; omega
    · intro a b; simp only [Bool.or_eq_true, decide_eq_true_eq]; omega
  have hp : (sortById l).Perm l := by unfold sortById; exact List.mergeSort_perm _ _
  have hn : ((sortById l).map (·.id)).Nodup := (hp.map _).nodup_iff.2 h
  have hn' : (sortById l).Pairwise (fun a b => a.id ≠ b.id) := by
    unfold List.Nodup at hn
    exact List.pairwise_map.1 hn
  refine (hs.and hn').imp ?_
  intro a b hab
  simp only [decide_eq_true_eq] at hab
  omega

theorem runTick_blocks (st : PState) (t : TickIn α) :
    Blocks cfg t.sys (sortById t.resolved) (runTick cfg st t).2 := by
  simp only [runTick]
  exact walk_blocks cfg t.sys _ st.fl (sortById t.resolved) st.tracked (Nat.le_refl _)

end

/-! ### exact arithmetic: the size of a reclaim -/

theorem reclaim_amount_rat (maxProbe : Rat) (d : Int) (hd : 0 < d) :
    ((alignDown (Num.toInt (Num.mul (Num.ofInt d) maxProbe : Rat)) : Int) : Rat) ≤ maxProbe * (d : Rat) ∨
    (maxProbe < 0 ∧ alignDown (Num.toInt (Num.mul (Num.ofInt d) maxProbe : Rat)) ≤ 0) := by
  show (((alignDown (if 0 ≤ (d : Rat) * maxProbe then ((d : Rat) * maxProbe).floor else ((d : Rat) * maxProbe).ceil)) : Int) : Rat)
      ≤ maxProbe * (d : Rat) ∨
    (maxProbe < 0 ∧ alignDown (if 0 ≤ (d : Rat) * maxProbe then ((d : Rat) * maxProbe).floor else ((d : Rat) * maxProbe).ceil) ≤ 0)
  have hdq : (0 : Rat) < (d : Rat) := Rat.intCast_pos.2 hd
  by_cases h : 0 ≤ (d : Rat) * maxProbe
  · left
    rw [if_pos h, Rat.mul_comm maxProbe]
    have h1 := alignDown_le ((d : Rat) * maxProbe).floor
    have h2 : ((alignDown ((d : Rat) * maxProbe).floor : Int) : Rat) ≤ ((((d : Rat) * maxProbe).floor : Int) : Rat) :=
      Rat.intCast_le_intCast.2 h1
    exact Rat.le_trans h2 (Rat.floor_le _)
  · right
    rw [if_neg h]
    have hneg : (d : Rat) * maxProbe < 0 := Rat.not_le.1 h
    have hm : maxProbe < 0 := (Rat.mul_neg_iff_of_pos_left hdq).1 hneg
    refine ⟨hm, ?_⟩
    have hc : ((d : Rat) * maxProbe).ceil ≤ 0 := by
      rw [Rat.ceil_le_iff]
      exact Rat.le_of_lt hneg
    have := alignDown_le ((d : Rat) * maxProbe).ceil
    omega

/-! ### int64 range of the integer sums (justifies modelling `int64_t` by `Int`) -/

/-- the byte counts Senpai adds up are below 2^60, limits read from "max" files are at most INT64_MAX -/
structure InRange (cfg : Cfg α) (v : View α) : Prop where
  limitMin : 0 ≤ cfg.limitMinBytes ∧ cfg.limitMinBytes < 2 ^ 60
  limitMax : 0 ≤ cfg.limitMaxBytes ∧ cfg.limitMaxBytes < 2 ^ 60
  memTotal : 0 ≤ cfg.hostMemTotal ∧ cfg.hostMemTotal ≤ int64Max
  current : ∀ c, v.current = some c → 0 ≤ c ∧ c < 2 ^ 60
  stat : ∀ s, v.memStat = some s → (∀ a, s.activeFile = some a → 0 ≤ a ∧ a < 2 ^ 60) ∧
    (∀ a, s.inactiveFile = some a → 0 ≤ a ∧ a < 2 ^ 60) ∧
    (∀ a, s.activeAnon = some a → 0 ≤ a ∧ a < 2 ^ 60) ∧ (∀ a, s.inactiveAnon = some a → 0 ≤ a ∧ a < 2 ^ 60)
  memMin : ∀ m, v.memMin = some m → 0 ≤ m ∧ m ≤ int64Max
  memHigh : ∀ m, v.memHigh = some m → 0 ≤ m ∧ m ≤ int64Max
  memMax : ∀ m, v.memMax = some m → 0 ≤ m ∧ m ≤ int64Max

theorem reclaimable_range {cfg : Cfg α} {sys : Sys α} {v : View α} (h : InRange cfg v) {r : Int}
    (hr : getReclaimableBytes sys v = some r) : 0 ≤ r ∧ r < 2 ^ 62 := by
  unfold getReclaimableBytes at hr
  cases hs : v.memStat with
  | none => simp [hs] at hr
  | some s =>
    obtain ⟨h1, h2, h3, h4⟩ := h.stat s hs
    simp only [hs] at hr
    cases haf : s.activeFile with
    | none => simp [haf] at hr
    | some af =>
      cases hif : s.inactiveFile with
      | none => simp [haf, hif] at hr
      | some inf =>
        have := h1 af haf; have := h2 inf hif
        simp only [haf, hif] at hr
        split at hr
        · cases hf : v.effSwapFree with
          | none => simp [hf] at hr
          | some free =>
            simp only [hf] at hr
            split at hr
            · cases ha : s.activeAnon with
              | none => simp [ha] at hr
              | some a =>
                cases hi : s.inactiveAnon with
                | none => simp [ha, hi] at hr
                | some i =>
                  simp only [ha, hi, Option.some.injEq] at hr
                  have := h3 a ha; have := h4 i hi
                  omega
            · simp only [Option.some.injEq] at hr; omega
        · simp only [Option.some.injEq] at hr; omega

theorem floor_range {cfg : Cfg α} {sys : Sys α} {v : View α} (h : InRange cfg v) {lo : Int}
    (hlo : floorOf cfg sys v = some lo) :
    ∃ cur recl mmin, v.current = some cur ∧ getReclaimableBytes sys v = some recl ∧ v.memMin = some mmin ∧
      (-(2 ^ 62) < cur - recl ∧ cur - recl < 2 ^ 60) ∧
      (-(2 ^ 62) < cur - recl + cfg.limitMinBytes ∧ cur - recl + cfg.limitMinBytes < 2 ^ 61) ∧
      lo = max (cur - recl + cfg.limitMinBytes) mmin ∧ -(2 ^ 62) < lo ∧ lo ≤ int64Max := by
  unfold floorOf at hlo
  cases hc : v.current with
  | none => simp [hc] at hlo
  | some cur =>
    cases hr : getReclaimableBytes sys v with
    | none => simp [hc, hr] at hlo
    | some recl =>
      cases hm : v.memMin with
      | none => simp [hc, hr, hm] at hlo
      | some mmin =>
        simp only [hc, hr, hm, Option.some.injEq] at hlo
        have := h.current cur hc
        have := reclaimable_range h hr
        have := h.memMin mmin hm
        have := h.limitMin
        refine ⟨cur, recl, mmin, rfl, rfl, rfl, ?_, ?_, hlo.symm, ?_, ?_⟩ <;> (unfold int64Max at *; omega)

theorem ceil_range {cfg : Cfg α} {v : View α} (h : InRange cfg v) {tmp : Bool} {hi : Int}
    (hhi : ceilOf cfg tmp v = some hi) :
    ∃ cur, v.current = some cur ∧ (0 ≤ cur + cfg.limitMaxBytes ∧ cur + cfg.limitMaxBytes < 2 ^ 61) ∧ 0 ≤ hi ∧ hi < 2 ^ 61 := by
  unfold ceilOf at hhi
  cases hc : v.current with
  | none => simp [hc] at hhi
  | some cur =>
    cases hm : v.memMax with
    | none => simp [hc, hm] at hhi
    | some mx =>
      simp only [hc, hm] at hhi
      have := h.current cur hc
      have := h.memMax mx hm
      have := h.limitMax
      have := h.memTotal
      refine ⟨cur, rfl, by omega, ?_⟩
      cases tmp with
      | false =>
        simp only [Bool.false_eq_true, if_false, Option.some.injEq] at hhi
        omega
      | true =>
        simp only [if_true] at hhi
        cases hh : v.memHigh with
        | none => simp [hh] at hhi
        | some mh =>
          simp only [hh, Option.map_some, Option.some.injEq] at hhi
          have := h.memHigh mh hh
          omega

theorem lookup_eq_none_iff (tr : List (Nat × CgState)) (id : Nat) :
    lookup tr id = none ↔ id ∉ tr.map (·.1) := by
  induction tr with
  | nil => simp [lookup]
  | cons t tr ih =>
    rw [lookup_cons]
    by_cases h : t.1 = id
    · simp [h]
    · simp only [h, if_false, ih, List.map_cons, List.mem_cons, not_or]
      constructor
      · intro h2; exact ⟨fun e => h e.symm, h2⟩
      · intro h2; exact h2.2

/-! ### histories -/

theorem zip_runHist [Num α] (cfg : Cfg α) :
    ∀ (hist : List (TickIn α)) (st : PState) (p : TickIn α × List Ev), p ∈ List.zip hist (runHist cfg st hist) →
      ∃ st', p.2 = (runTick cfg st' p.1).2 := by
  intro hist
  induction hist with
  | nil => intro st p hp; simp [runHist] at hp
  | cons t rest ih =>
    intro st p hp
    simp only [runHist, List.zip_cons_cons, List.mem_cons] at hp
    rcases hp with rfl | hp
    · exact ⟨st, rfl⟩
    · exact ih _ p hp


end OomdModel.Senpai

import OomdModel.Detect

/-!
# Lemmas about the detector model (C08)

* generic facts about running a step function over a history (`runDet`, `stateAfter`, `lastVerdict`);
* the arm / disarm window: `hit_thres_at_` is the start of the maximal run of exceeding samples
  (`hitR`), hence the verdict is the documented predicate (`window_iff`), first newest-first by
  structural induction, then translated to chronological histories;
* the selection loops (`watchP`, `watchMem`) return a maximum whatever the iteration order, and
  `watchCands` is exactly the set of values some iteration order produces;
* `memory_reclaim`: `last_reclaim_at_` is the time of the most recent growth sample (`reclaim_iff`).
-/

namespace OomdModel.Detect

theorem snocInd {α : Type} {P : List α → Prop} (nil : P []) (snoc : ∀ l x, P l → P (l ++ [x])) :
    ∀ l, P l := by
  intro l
  have h : ∀ r : List α, P r.reverse := by
    intro r
    induction r with
    | nil => exact nil
    | cons x xs ih => rw [List.reverse_cons]; exact snoc _ _ ih
  have := h l.reverse
  rwa [List.reverse_reverse] at this

theorem NS_pos : (0 : Int) < (NS : Int) := by decide

theorem secsBetween_of_le {a b : Nat} (h : a ≤ b) : secsBetween a b = (((b - a) / NS : Nat) : Int) := by
  unfold secsBetween
  have h0 : (0 : Int) ≤ (b : Int) - (a : Int) := by omega
  rw [Int.tdiv_eq_ediv_of_nonneg h0, Int.natCast_ediv]
  congr 1
  omega

theorem le_secsBetween_iff {a b : Nat} (h : a ≤ b) (dur : Int) :
    dur ≤ secsBetween a b ↔ dur * (NS : Int) ≤ (b : Int) - (a : Int) := by
  unfold secsBetween
  have h0 : (0 : Int) ≤ (b : Int) - (a : Int) := by omega
  rw [Int.tdiv_eq_ediv_of_nonneg h0]
  exact Int.le_ediv_iff_mul_le NS_pos

/-! ### generic run lemmas -/
section Run
variable {σ ι : Type} (step : σ → ι → σ × Bool) (init : σ)

theorem stateAfter_snoc (pre : List ι) (x : ι) :
    stateAfter step init (pre ++ [x]) = (step (stateAfter step init pre) x).1 := by
  simp [stateAfter, List.foldl_append]

theorem runDet_append (st : σ) (a b : List ι) :
    runDet step st (a ++ b) = runDet step st a ++ runDet step (stateAfter step st a) b := by
  induction a generalizing st with
  | nil => simp [runDet, stateAfter]
  | cons x xs ih => simp [runDet, stateAfter, ih]

theorem runDet_length (st : σ) (h : List ι) : (runDet step st h).length = h.length := by
  induction h generalizing st with
  | nil => simp [runDet]
  | cons x xs ih => simp [runDet, ih]

/-- the trace is, tick by tick, the verdict of the last tick of each prefix -/
theorem runDet_snoc (pre : List ι) (x : ι) :
    runDet step init (pre ++ [x]) = runDet step init pre ++ [lastVerdict step init pre x] := by
  rw [runDet_append]; simp [runDet, lastVerdict]

end Run

section Window
variable {ι : Type} (tm : ι → Nat) (ex : ι → Bool)

/-- `hit_thres_at_` after a history given newest first -/
def hitR : List ι → Nat
  | [] => 0
  | x :: older => if ex x then (if hitR older = 0 then tm x else hitR older) else 0

theorem winStep_fst (dur : Int) (hit now : Nat) (e : Bool) :
    (winStep dur hit now e).1 = if e then (if hit = 0 then now else hit) else 0 := by
  unfold winStep; cases e <;> simp

theorem winStep_snd (dur : Int) (hit now : Nat) (e : Bool) :
    (winStep dur hit now e).2 = (e && decide (dur ≤ secsBetween (if hit = 0 then now else hit) now)) := by
  unfold winStep; cases e <;> simp

/-- newest-first clocks: positive, non-increasing towards the past -/
def WFR (l : List ι) : Prop := (∀ x ∈ l, 0 < tm x) ∧ l.Pairwise (fun a b => tm b ≤ tm a)

theorem WFR_tail {x : ι} {l : List ι} (h : WFR tm (x :: l)) : WFR tm l :=
  ⟨fun y hy => h.1 y (List.mem_cons_of_mem _ hy), (List.pairwise_cons.1 h.2).2⟩

theorem hitR_eq_zero (l : List ι) (hpos : ∀ x ∈ l, 0 < tm x) :
    hitR tm ex l = 0 ↔ l = [] ∨ ∃ x older, l = x :: older ∧ ex x = false := by
  cases l with
  | nil => simp [hitR]
  | cons x older =>
    have hx := hpos x (List.mem_cons_self)
    simp only [hitR]
    cases hex : ex x
    · simp [hex]
    · simp only [if_true]
      constructor
      · intro h
        split at h
        · omega
        · contradiction
      · rintro (h | ⟨y, o, h, hy⟩)
        · cases h
        · cases h; simp [hex] at hy

theorem hitR_mem (l : List ι) : hitR tm ex l = 0 ∨ ∃ y ∈ l, hitR tm ex l = tm y := by
  induction l with
  | nil => simp [hitR]
  | cons x older ih =>
    simp only [hitR]
    cases ex x
    · simp
    · simp only [if_true]
      split
      · exact Or.inr ⟨x, List.mem_cons_self, rfl⟩
      · rcases ih with h | ⟨y, hy, h⟩
        · contradiction
        · exact Or.inr ⟨y, List.mem_cons_of_mem _ hy, h⟩

variable (dur : Int)

/-- documented predicate, newest first: some exceeding sample `f`, with only exceeding samples after
it, lies at least `dur` seconds before `tn` -/
def DocR (tn : Nat) (l : List ι) : Prop :=
  ∃ r f rest, l = r ++ f :: rest ∧ (∀ x ∈ r, ex x = true) ∧ ex f = true ∧
    dur * (NS : Int) ≤ (tn : Int) - (tm f : Int)

theorem docR_nil (tn : Nat) : ¬ DocR tm ex dur tn [] := by
  rintro ⟨r, f, rest, h, _⟩
  cases r <;> simp at h

theorem docR_cons (tn : Nat) (x : ι) (older : List ι) :
    DocR tm ex dur tn (x :: older) ↔
      ex x = true ∧ (dur * (NS : Int) ≤ (tn : Int) - (tm x : Int) ∨ DocR tm ex dur tn older) := by
  constructor
  · rintro ⟨r, f, rest, h, hr, hf, hd⟩
    cases r with
    | nil =>
      simp only [List.nil_append, List.cons.injEq] at h
      obtain ⟨rfl, rfl⟩ := h
      exact ⟨hf, Or.inl hd⟩
    | cons y r' =>
      simp only [List.cons_append, List.cons.injEq] at h
      obtain ⟨rfl, rfl⟩ := h
      exact ⟨hr _ List.mem_cons_self, Or.inr ⟨r', f, rest, rfl, fun z hz => hr z (List.mem_cons_of_mem _ hz), hf, hd⟩⟩
  · rintro ⟨hx, h | ⟨r, f, rest, h, hr, hf, hd⟩⟩
    · exact ⟨[], x, older, rfl, by simp, hx, h⟩
    · refine ⟨x :: r, f, rest, by simp [h], ?_, hf, hd⟩
      intro z hz
      rcases List.mem_cons.1 hz with rfl | hz
      · exact hx
      · exact hr z hz

theorem docR_head_false (tn : Nat) (x : ι) (older : List ι) (hx : ex x = false) :
    ¬ DocR tm ex dur tn (x :: older) := by
  rw [docR_cons]; simp [hx]

/-- key lemma: the start of the maximal exceeding run decides the documented predicate -/
theorem hitR_doc (tn : Nat) : ∀ (l : List ι), WFR tm l → (∀ x ∈ l, tm x ≤ tn) →
    hitR tm ex l ≠ 0 → (dur * (NS : Int) ≤ (tn : Int) - (hitR tm ex l : Int) ↔ DocR tm ex dur tn l) := by
  intro l
  induction l with
  | nil => intro _ _ h; simp [hitR] at h
  | cons x older ih =>
    intro hwf hle hne
    have hwf' := WFR_tail tm hwf
    have hle' : ∀ y ∈ older, tm y ≤ tn := fun y hy => hle y (List.mem_cons_of_mem _ hy)
    cases hex : ex x
    · simp [hitR, hex] at hne
    · rw [docR_cons]
      simp only [hitR, hex, if_true, true_and]
      by_cases h0 : hitR tm ex older = 0
      · simp only [h0, if_true]
        have : ¬ DocR tm ex dur tn older := by
          rcases (hitR_eq_zero tm ex older hwf'.1).1 h0 with rfl | ⟨y, o, rfl, hy⟩
          · exact docR_nil tm ex dur tn
          · exact docR_head_false tm ex dur tn y o hy
        simp [this]
      · simp only [h0, if_false]
        rw [ih hwf' hle' h0]
        constructor
        · intro h; exact Or.inr h
        · rintro (h | h)
          · -- the head of `older` exceeds and is not younger than x
            cases older with
            | nil => simp [hitR] at h0
            | cons y o =>
              have hy : ex y = true := by
                cases hey : ex y
                · simp [hitR, hey] at h0
                · rfl
              have hyx : tm y ≤ tm x := (List.pairwise_cons.1 hwf.2).1 y List.mem_cons_self
              exact ⟨[], y, o, rfl, by simp, hy, by omega⟩
          · exact h


/-! chronological form -/

/-- chronological clocks: positive and non-decreasing -/
def WFC (h : List ι) : Prop := (∀ x ∈ h, 0 < tm x) ∧ h.Pairwise (fun a b => tm a ≤ tm b)

theorem WFC_reverse {h : List ι} (w : WFC tm h) : WFR tm h.reverse :=
  ⟨fun x hx => w.1 x (List.mem_reverse.1 hx), List.pairwise_reverse.2 w.2⟩

theorem WFC_le_last {pre : List ι} {s : ι} (w : WFC tm (pre ++ [s])) : ∀ x ∈ pre ++ [s], tm x ≤ tm s := by
  intro x hx
  rcases List.mem_append.1 hx with h | h
  · exact (List.pairwise_append.1 w.2).2.2 x h s (by simp)
  · simp at h; subst h; exact Nat.le_refl _

theorem WFC_prefix {a b : List ι} (w : WFC tm (a ++ b)) : WFC tm a :=
  ⟨fun x hx => w.1 x (List.mem_append_left _ hx), (List.pairwise_append.1 w.2).1⟩

/-- documented predicate for the history `pre ++ [s]` (oldest first): the history ends with a block
`f :: r` of exceeding samples whose first sample `f` was taken at least `dur` seconds before `s` -/
def DocWin (pre : List ι) (s : ι) : Prop :=
  ∃ a f r, pre ++ [s] = a ++ f :: r ∧ (∀ x ∈ f :: r, ex x = true) ∧
    dur * (NS : Int) ≤ (tm s : Int) - (tm f : Int)

theorem docWin_iff_docR (pre : List ι) (s : ι) :
    DocWin tm ex dur pre s ↔ DocR tm ex dur (tm s) (s :: pre.reverse) := by
  constructor
  · rintro ⟨a, f, r, h, hall, hd⟩
    refine ⟨r.reverse, f, a.reverse, ?_, ?_, hall f List.mem_cons_self, hd⟩
    · have := congrArg List.reverse h
      simpa using this
    · intro x hx
      exact hall x (List.mem_cons_of_mem _ (List.mem_reverse.1 hx))
  · rintro ⟨r, f, rest, h, hr, hf, hd⟩
    refine ⟨rest.reverse, f, r.reverse, ?_, ?_, hd⟩
    · have := congrArg List.reverse h
      simpa using this
    · intro x hx
      rcases List.mem_cons.1 hx with rfl | hx
      · exact hf
      · exact hr x (List.mem_reverse.1 hx)

/-- the window part of a detector tick, as a step function over ticks -/
def wStep (hit : Nat) (x : ι) : Nat × Bool := winStep dur hit (tm x) (ex x)

theorem stateAfter_wStep (h : List ι) : stateAfter (wStep tm ex dur) 0 h = hitR tm ex h.reverse := by
  induction h using snocInd with
  | nil => simp [stateAfter, hitR]
  | snoc l x ih =>
    rw [stateAfter_snoc, ih]
    simp [wStep, winStep_fst, hitR]

theorem window_iff (pre : List ι) (s : ι) (w : WFC tm (pre ++ [s])) :
    lastVerdict (wStep tm ex dur) 0 pre s = true ↔ DocWin tm ex dur pre s := by
  rw [docWin_iff_docR]
  have wr : WFR tm (s :: pre.reverse) := by
    have := WFC_reverse tm w
    simpa using this
  have hle : ∀ x ∈ s :: pre.reverse, tm x ≤ tm s := by
    intro x hx
    apply WFC_le_last tm w
    rcases List.mem_cons.1 hx with rfl | hx
    · simp
    · exact List.mem_append_left _ (List.mem_reverse.1 hx)
  unfold lastVerdict
  rw [stateAfter_wStep]
  simp only [wStep, winStep_snd]
  cases hex : ex s
  · simp only [Bool.false_and, Bool.false_eq_true, false_iff]
    exact docR_head_false tm ex dur (tm s) s _ hex
  · have hh : hitR tm ex (s :: pre.reverse) = if hitR tm ex pre.reverse = 0 then tm s else hitR tm ex pre.reverse := by
      simp [hitR, hex]
    have hne : hitR tm ex (s :: pre.reverse) ≠ 0 := by
      intro h0
      rcases (hitR_eq_zero tm ex _ wr.1).1 h0 with h | ⟨y, o, h, hy⟩
      · cases h
      · cases h; simp [hex] at hy
    have hle' : hitR tm ex (s :: pre.reverse) ≤ tm s := by
      rcases hitR_mem tm ex (s :: pre.reverse) with h | ⟨y, hy, h⟩
      · omega
      · rw [h]; exact hle y hy
    rw [← hh]
    simp only [Bool.true_and, decide_eq_true_eq]
    rw [le_secsBetween_iff hle']
    exact hitR_doc tm ex dur (tm s) _ wr hle hne

/-- a single non-exceeding sample restarts the duration clock: whatever came before it (and itself)
has no influence on later verdicts -/
theorem window_restart (a : List ι) (x : ι) (r : List ι) (s : ι) (hx : ex x = false) :
    lastVerdict (wStep tm ex dur) 0 (a ++ x :: r) s = lastVerdict (wStep tm ex dur) 0 r s := by
  unfold lastVerdict
  have : stateAfter (wStep tm ex dur) 0 (a ++ x :: r) = stateAfter (wStep tm ex dur) 0 r := by
    simp only [stateAfter, List.foldl_append, List.foldl_cons]
    simp [wStep, winStep, hx]
  rw [this]

end Window

/-! ### selection loops -/

def pickP (cur rp : P3) : P3 := if cur.score < rp.score then rp else cur

theorem watchP_eq (l : List P3) : watchP l = l.foldl pickP P3.zero := rfl

theorem foldl_pickP_spec (l : List P3) : ∀ cur : P3,
    (l.foldl pickP cur = cur ∨ l.foldl pickP cur ∈ l) ∧ cur.score ≤ (l.foldl pickP cur).score ∧
      ∀ x ∈ l, x.score ≤ (l.foldl pickP cur).score := by
  induction l with
  | nil => intro cur; simp
  | cons y ys ih =>
    intro cur
    simp only [List.foldl_cons]
    obtain ⟨h1, h2, h3⟩ := ih (pickP cur y)
    have hp : cur.score ≤ (pickP cur y).score ∧ y.score ≤ (pickP cur y).score ∧ (pickP cur y = cur ∨ pickP cur y = y) := by
      unfold pickP; split
      · exact ⟨by omega, Nat.le_refl _, Or.inr rfl⟩
      · exact ⟨Nat.le_refl _, by omega, Or.inl rfl⟩
    refine ⟨?_, by omega, ?_⟩
    · rcases h1 with h | h
      · rcases hp.2.2 with e | e
        · left; rw [h, e]
        · right; rw [h, e]; exact List.mem_cons_self
      · right; exact List.mem_cons_of_mem _ h
    · intro x hx
      rcases List.mem_cons.1 hx with rfl | hx
      · omega
      · exact h3 x hx

theorem foldl_pickP_stay (l : List P3) (cur : P3) (h : ∀ x ∈ l, x.score ≤ cur.score) :
    l.foldl pickP cur = cur := by
  induction l with
  | nil => rfl
  | cons y ys ih =>
    simp only [List.foldl_cons]
    have : pickP cur y = cur := by
      unfold pickP
      have := h y List.mem_cons_self
      split
      · omega
      · rfl
    rw [this]
    exact ih (fun x hx => h x (List.mem_cons_of_mem _ hx))

theorem maxScore_spec (l : List P3) :
    (∀ x ∈ l, x.score ≤ maxScore l) ∧ (maxScore l = 0 ∨ ∃ x ∈ l, x.score = maxScore l) := by
  have gen : ∀ (l : List P3) (m : Nat),
      m ≤ l.foldl (fun m p => max m p.score) m ∧
      (∀ x ∈ l, x.score ≤ l.foldl (fun m p => max m p.score) m) ∧
      (l.foldl (fun m p => max m p.score) m = m ∨ ∃ x ∈ l, x.score = l.foldl (fun m p => max m p.score) m) := by
    intro l
    induction l with
    | nil => intro m; simp
    | cons y ys ih =>
      intro m
      simp only [List.foldl_cons]
      obtain ⟨h1, h2, h3⟩ := ih (max m y.score)
      refine ⟨by omega, ?_, ?_⟩
      · intro x hx
        rcases List.mem_cons.1 hx with rfl | hx
        · omega
        · exact h2 x hx
      · rcases h3 with h | ⟨x, hx, h⟩
        · by_cases hm : y.score ≤ m
          · left; rw [h]; omega
          · right; exact ⟨y, List.mem_cons_self, by rw [h]; omega⟩
        · right; exact ⟨x, List.mem_cons_of_mem _ hx, h⟩
  obtain ⟨_, h2, h3⟩ := gen l 0
  exact ⟨h2, h3⟩

/-- the maximum is determined by membership alone -/
theorem maxScore_unique (l : List P3) (m : Nat) (h1 : ∀ x ∈ l, x.score ≤ m)
    (h2 : m = 0 ∨ ∃ x ∈ l, x.score = m) : m = maxScore l := by
  obtain ⟨s1, s2⟩ := maxScore_spec l
  rcases h2 with rfl | ⟨x, hx, rfl⟩
  · rcases s2 with h | ⟨y, hy, h⟩
    · omega
    · have := h1 y hy; omega
  · have := s1 x hx
    rcases s2 with h | ⟨y, hy, h⟩
    · omega
    · have := h1 y hy; omega

theorem maxScore_perm {l l' : List P3} (p : l'.Perm l) : maxScore l' = maxScore l := by
  obtain ⟨s1, s2⟩ := maxScore_spec l'
  apply maxScore_unique
  · intro x hx; exact s1 x (p.mem_iff.2 hx)
  · rcases s2 with h | ⟨y, hy, h⟩
    · exact Or.inl h
    · exact Or.inr ⟨y, p.mem_iff.1 hy, h⟩

theorem watchP_score (l : List P3) : (watchP l).score = maxScore l := by
  obtain ⟨h1, _, h3⟩ := foldl_pickP_spec l P3.zero
  rw [← watchP_eq] at h1 h3
  apply maxScore_unique l _ h3
  rcases h1 with h | h
  · left; rw [h]; rfl
  · right; exact ⟨_, h, rfl⟩

theorem watchP_mem_or_zero (l : List P3) : watchP l = P3.zero ∨ watchP l ∈ l :=
  (foldl_pickP_spec l P3.zero).1

theorem watchP_perm_mem_cands {l l' : List P3} (p : l'.Perm l) : watchP l' ∈ watchCands l := by
  unfold watchCands
  have hs := watchP_score l'
  rw [maxScore_perm p] at hs
  by_cases h0 : maxScore l = 0
  · simp only [h0, if_true, List.mem_singleton]
    rw [watchP_eq]
    apply foldl_pickP_stay
    intro x hx
    have := (maxScore_spec l).1 x (p.mem_iff.1 hx)
    omega
  · simp only [h0, if_false, List.mem_filter, beq_iff_eq]
    refine ⟨?_, hs⟩
    rcases watchP_mem_or_zero l' with h | h
    · rw [h] at hs; exact absurd hs.symm h0
    · exact p.mem_iff.1 h

theorem watchCands_complete {l : List P3} {c : P3} (hc : c ∈ watchCands l) :
    ∃ l', l'.Perm l ∧ watchP l' = c := by
  unfold watchCands at hc
  by_cases h0 : maxScore l = 0
  · simp only [h0, if_true, List.mem_singleton] at hc
    subst hc
    refine ⟨l, List.Perm.refl _, ?_⟩
    rw [watchP_eq]
    apply foldl_pickP_stay
    intro x hx
    have := (maxScore_spec l).1 x hx
    omega
  · simp only [h0, if_false, List.mem_filter, beq_iff_eq] at hc
    obtain ⟨hmem, hsc⟩ := hc
    refine ⟨c :: l.erase c, (List.perm_cons_erase hmem).symm, ?_⟩
    rw [watchP_eq]
    simp only [List.foldl_cons]
    have : pickP P3.zero c = c := by
      unfold pickP
      have : P3.zero.score = 0 := rfl
      split
      · rfl
      · omega
    rw [this]
    apply foldl_pickP_stay
    intro x hx
    have := (maxScore_spec l).1 x (List.mem_of_mem_erase hx)
    omega

/-! memory -/

theorem watchMem_spec (l : List Nat) :
    (∀ x ∈ l, x ≤ watchMem l) ∧ (watchMem l = 0 ∨ watchMem l ∈ l) := by
  have gen : ∀ (l : List Nat) (m : Nat),
      m ≤ l.foldl (fun cur u => if cur < u then u else cur) m ∧
      (∀ x ∈ l, x ≤ l.foldl (fun cur u => if cur < u then u else cur) m) ∧
      (l.foldl (fun cur u => if cur < u then u else cur) m = m ∨
        l.foldl (fun cur u => if cur < u then u else cur) m ∈ l) := by
    intro l
    induction l with
    | nil => intro m; simp
    | cons y ys ih =>
      intro m
      simp only [List.foldl_cons]
      obtain ⟨h1, h2, h3⟩ := ih (if m < y then y else m)
      have hm : m ≤ (if m < y then y else m) ∧ y ≤ (if m < y then y else m) := by
        split <;> omega
      refine ⟨by omega, ?_, ?_⟩
      · intro x hx
        rcases List.mem_cons.1 hx with rfl | hx
        · omega
        · exact h2 x hx
      · rcases h3 with h | h
        · by_cases hlt : m < y
          · right; rw [h]; simp [hlt]
          · left; rw [h]; simp [hlt]
        · right; exact List.mem_cons_of_mem _ h
  obtain ⟨_, h2, h3⟩ := gen l 0
  exact ⟨h2, h3⟩

theorem watchMem_unique (l : List Nat) (m : Nat) (h1 : ∀ x ∈ l, x ≤ m) (h2 : m = 0 ∨ m ∈ l) :
    m = watchMem l := by
  obtain ⟨s1, s2⟩ := watchMem_spec l
  rcases h2 with rfl | hm
  · rcases s2 with h | h
    · omega
    · have := h1 _ h; omega
  · have := s1 m hm
    rcases s2 with h | h
    · omega
    · have := h1 _ h; omega

theorem watchMem_perm {l l' : List Nat} (p : l'.Perm l) : watchMem l' = watchMem l := by
  obtain ⟨s1, s2⟩ := watchMem_spec l'
  apply watchMem_unique
  · intro x hx; exact s1 x (p.mem_iff.2 hx)
  · rcases s2 with h | h
    · exact Or.inl h
    · exact Or.inr (p.mem_iff.1 h)


section Reclaim
variable {ι : Type} (tm : ι → Nat) (pgs : ι → List Nat) (dur : Int)

/-- the pgscan sum a tick shows -/
def sumOf (x : ι) : Nat := (pgs x).foldl (· + ·) 0

def rStep (st : RecSt) (x : ι) : RecSt × Bool := reclaimStep dur st (tm x) (pgs x)

/-- sum shown by the newest sample of a newest-first history (0 when there is none: `last_pgscan_{0}`) -/
def prevSumR : List ι → Nat
  | [] => 0
  | x :: _ => sumOf pgs x

/-- time of the most recent sample at which the sum grew (0 = never) -/
def lastGrowR : List ι → Nat
  | [] => 0
  | x :: older => if prevSumR pgs older < sumOf pgs x then tm x else lastGrowR older

def recR : List ι → RecSt
  | [] => RecSt.init
  | x :: older => (reclaimStep dur (recR older) (tm x) (pgs x)).1

theorem recR_eq (l : List ι) : recR tm pgs dur l = ⟨(prevSumR pgs l : Int), lastGrowR tm pgs l⟩ := by
  induction l with
  | nil => rfl
  | cons x older ih =>
    simp only [recR, reclaimStep, ih, lastGrowR]
    by_cases hg : prevSumR pgs older < sumOf pgs x
    · have hg' : (prevSumR pgs older : Int) < ((pgs x).foldl (· + ·) 0 : Nat) := Int.ofNat_lt.2 hg
      rw [if_pos hg', if_pos hg]; rfl
    · have hg' : ¬ (prevSumR pgs older : Int) < ((pgs x).foldl (· + ·) 0 : Nat) :=
        fun h => hg (Int.ofNat_lt.1 h)
      rw [if_neg hg', if_neg hg]; rfl

theorem lastGrowR_mem (l : List ι) : lastGrowR tm pgs l = 0 ∨ ∃ y ∈ l, lastGrowR tm pgs l = tm y := by
  induction l with
  | nil => simp [lastGrowR]
  | cons x older ih =>
    simp only [lastGrowR]
    split
    · exact Or.inr ⟨x, List.mem_cons_self, rfl⟩
    · rcases ih with h | ⟨y, hy, h⟩
      · exact Or.inl h
      · exact Or.inr ⟨y, List.mem_cons_of_mem _ hy, h⟩

def condR (tn : Nat) (t : Nat) : Prop := (((tn - t) / NS : Nat) : Int) ≤ dur

/-- newest first: some sample `g` at which the sum grew (w.r.t. the sample before it) lies at most
`dur` whole seconds before `tn` -/
def DocRecR (tn : Nat) (l : List ι) : Prop :=
  ∃ r g rest, l = r ++ g :: rest ∧ prevSumR pgs rest < sumOf pgs g ∧ condR dur tn (tm g)

theorem docRecR_nil (tn : Nat) : ¬ DocRecR tm pgs dur tn [] := by
  rintro ⟨r, g, rest, h, _⟩
  cases r <;> simp at h

theorem docRecR_cons (tn : Nat) (x : ι) (older : List ι) :
    DocRecR tm pgs dur tn (x :: older) ↔
      (prevSumR pgs older < sumOf pgs x ∧ condR dur tn (tm x)) ∨ DocRecR tm pgs dur tn older := by
  constructor
  · rintro ⟨r, g, rest, h, hg, hc⟩
    cases r with
    | nil =>
      simp only [List.nil_append, List.cons.injEq] at h
      obtain ⟨rfl, rfl⟩ := h
      exact Or.inl ⟨hg, hc⟩
    | cons y r' =>
      simp only [List.cons_append, List.cons.injEq] at h
      obtain ⟨rfl, rfl⟩ := h
      exact Or.inr ⟨r', g, rest, rfl, hg, hc⟩
  · rintro (⟨hg, hc⟩ | ⟨r, g, rest, h, hg, hc⟩)
    · exact ⟨[], x, older, rfl, hg, hc⟩
    · exact ⟨x :: r, g, rest, by simp [h], hg, hc⟩

theorem lastGrowR_doc (tn : Nat) : ∀ (l : List ι), WFR tm l → (∀ x ∈ l, tm x ≤ tn) →
    ((lastGrowR tm pgs l ≠ 0 ∧ condR dur tn (lastGrowR tm pgs l)) ↔ DocRecR tm pgs dur tn l) := by
  intro l
  induction l with
  | nil => intro _ _; simp [lastGrowR, docRecR_nil]
  | cons x older ih =>
    intro hwf hle
    have hwf' := WFR_tail tm hwf
    have hle' : ∀ y ∈ older, tm y ≤ tn := fun y hy => hle y (List.mem_cons_of_mem _ hy)
    have hxpos := hwf.1 x List.mem_cons_self
    rw [docRecR_cons]
    simp only [lastGrowR]
    by_cases hg : prevSumR pgs older < sumOf pgs x
    · simp only [hg, if_true, true_and]
      constructor
      · rintro ⟨_, hc⟩; exact Or.inl hc
      · rintro (hc | ⟨r, g, rest, h, _, hc⟩)
        · exact ⟨by omega, hc⟩
        · refine ⟨by omega, ?_⟩
          have hmem : g ∈ older := by rw [h]; simp
          have hgx : tm g ≤ tm x := (List.pairwise_cons.1 hwf.2).1 g hmem
          have hxn := hle x List.mem_cons_self
          unfold condR at hc ⊢
          have : (tn - tm x) / NS ≤ (tn - tm g) / NS := Nat.div_le_div_right (by omega)
          omega
    · simp only [hg, if_false, false_and, false_or]
      exact ih hwf' hle'

/-! chronological form -/

/-- sum shown by the last sample of an oldest-first history, 0 when empty -/
def prevSum (a : List ι) : Nat :=
  match a.getLast? with
  | none => 0
  | some y => sumOf pgs y

theorem prevSumR_reverse (a : List ι) : prevSumR pgs a.reverse = prevSum pgs a := by
  unfold prevSum
  rw [← List.head?_reverse]
  cases a.reverse <;> rfl

/-- documented predicate for `pre ++ [s]` (oldest first): at some sample `g` the sum was larger than at
the sample before it (the first sample is compared with 0), and `g` is at most `dur` whole seconds old -/
def DocRec (pre : List ι) (s : ι) : Prop :=
  ∃ a g r, pre ++ [s] = a ++ g :: r ∧ prevSum pgs a < sumOf pgs g ∧
    (((tm s - tm g) / NS : Nat) : Int) ≤ dur

theorem docRec_iff_docRecR (pre : List ι) (s : ι) :
    DocRec tm pgs dur pre s ↔ DocRecR tm pgs dur (tm s) (s :: pre.reverse) := by
  constructor
  · rintro ⟨a, g, r, h, hg, hc⟩
    refine ⟨r.reverse, g, a.reverse, ?_, by rw [prevSumR_reverse]; exact hg, hc⟩
    have := congrArg List.reverse h
    simpa using this
  · rintro ⟨r, g, rest, h, hg, hc⟩
    refine ⟨rest.reverse, g, r.reverse, ?_, by rw [← prevSumR_reverse, List.reverse_reverse]; exact hg, hc⟩
    have := congrArg List.reverse h
    simpa using this

theorem stateAfter_rStep (h : List ι) :
    stateAfter (rStep tm pgs dur) RecSt.init h = recR tm pgs dur h.reverse := by
  induction h using snocInd with
  | nil => simp [stateAfter, recR]
  | snoc l x ih =>
    rw [stateAfter_snoc, ih]
    simp [rStep, recR]

theorem reclaim_iff (pre : List ι) (s : ι) (w : WFC tm (pre ++ [s])) :
    lastVerdict (rStep tm pgs dur) RecSt.init pre s = true ↔ DocRec tm pgs dur pre s := by
  rw [docRec_iff_docRecR]
  have wr : WFR tm (s :: pre.reverse) := by
    have := WFC_reverse tm w
    simpa using this
  have hle : ∀ x ∈ s :: pre.reverse, tm x ≤ tm s := by
    intro x hx
    apply WFC_le_last tm w
    rcases List.mem_cons.1 hx with rfl | hx
    · simp
    · exact List.mem_append_left _ (List.mem_reverse.1 hx)
  rw [← lastGrowR_doc tm pgs dur (tm s) _ wr hle]
  unfold lastVerdict
  rw [stateAfter_rStep]
  have hst : (reclaimStep dur (recR tm pgs dur pre.reverse) (tm s) (pgs s)).1
      = ⟨(prevSumR pgs (s :: pre.reverse) : Int), lastGrowR tm pgs (s :: pre.reverse)⟩ := by
    have := recR_eq tm pgs dur (s :: pre.reverse)
    simpa [recR] using this
  have hv : (reclaimStep dur (recR tm pgs dur pre.reverse) (tm s) (pgs s)).2 =
      (decide ((reclaimStep dur (recR tm pgs dur pre.reverse) (tm s) (pgs s)).1.lastAt ≠ 0) &&
       decide (secsBetween (reclaimStep dur (recR tm pgs dur pre.reverse) (tm s) (pgs s)).1.lastAt (tm s) ≤ dur)) := by
    simp [reclaimStep]
  simp only [rStep]
  rw [hv, hst]
  simp only [Bool.and_eq_true, decide_eq_true_eq]
  have hle' : lastGrowR tm pgs (s :: pre.reverse) ≤ tm s := by
    rcases lastGrowR_mem tm pgs (s :: pre.reverse) with h | ⟨y, hy, h⟩
    · omega
    · rw [h]; exact hle y hy
  rw [secsBetween_of_le hle']
  rfl

end Reclaim

end OomdModel.Detect

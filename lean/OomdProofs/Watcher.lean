import OomdModel.Watcher

/-! Helper lemmas for C14 (drop-in directory watcher).  Core library only. -/

namespace OomdModel.Watcher

variable {α : Type}

/-! ## `lww`: the engine after a whole item sequence -/

theorem applyAll_append (act : List (String × α)) (xs ys : List (Item α)) :
    applyAll act (xs ++ ys) = applyAll (applyAll act xs) ys := by
  simp [applyAll, List.foldl_append]

theorem lww_snoc (xs : List (Item α)) (it : Item α) : lww (xs ++ [it]) = engApply (lww xs) it := by
  simp [lww, applyAll, List.foldl_append]

theorem applyAll_lww (xs ys : List (Item α)) : applyAll (lww xs) ys = lww (xs ++ ys) := by
  simp [lww, applyAll_append]

/-- induction from the newest end of a list -/
theorem snoc_induction {β : Type} {P : List β → Prop} (nil : P [])
    (snoc : ∀ xs x, P xs → P (xs ++ [x])) : ∀ l, P l := by
  intro l
  have h : ∀ r : List β, P r.reverse := by
    intro r
    induction r with
    | nil => simpa using nil
    | cons x r ih => simpa [List.reverse_cons] using snoc r.reverse x ih
  simpa using h l.reverse

theorem toActive_tag (it : Item α) (p : String × α) (h : toActive it = some p) : p.1 = it.1 := by
  unfold toActive at h
  cases hx : it.2 with
  | none => simp [hx] at h
  | some u => simp [hx] at h; rw [← h]

theorem filterMap_toActive_filter (t : String) (l : List (Item α)) :
    (l.filterMap toActive).filter (fun p => p.1 != t)
      = (l.filter (fun x => x.1 != t)).filterMap toActive := by
  induction l with
  | nil => rfl
  | cons it l ih =>
    cases hta : toActive it with
    | none =>
      by_cases hc : (it.1 != t) = true
      · simp [hta, hc, ih]
      · simp [hta, hc, ih]
    | some p =>
      have hp := toActive_tag it p hta
      by_cases hc : (it.1 != t) = true
      · have hc' : (p.1 != t) = true := by rw [hp]; exact hc
        simp [hta, hc, hc', ih]
      · have hc' : ¬ (p.1 != t) = true := by rw [hp]; exact hc
        simp [hta, hc, hc', ih]

theorem engApply_spec (act : List (String × α)) (it : Item α) :
    engApply act it = (toActive it).toList ++ act.filter (fun p => p.1 != it.1) := by
  unfold engApply toActive engRemove
  cases it.2 <;> simp

/-- `lww` computes exactly the declarative "newest item per tag, removes dropped, newest first" -/
theorem lww_eq_spec (items : List (Item α)) : lww items = lwwSpec items := by
  induction items using snoc_induction with
  | nil => rfl
  | snoc xs it ih =>
    rw [lww_snoc, ih, engApply_spec]
    unfold lwwSpec
    rw [List.reverse_append]
    simp only [List.reverse_cons, List.reverse_nil, List.nil_append, List.singleton_append, firstPerTag,
      List.filterMap_cons]
    rw [filterMap_toActive_filter]
    cases toActive it <;> simp

theorem lastFor_nil (t : String) : lastFor t ([] : List (Item α)) = none := rfl

theorem lastFor_snoc (t : String) (xs : List (Item α)) (it : Item α) :
    lastFor t (xs ++ [it]) = if it.1 == t then some it.2 else lastFor t xs := by
  unfold lastFor
  rw [List.reverse_append]
  simp only [List.reverse_cons, List.reverse_nil, List.nil_append, List.singleton_append, List.find?_cons]
  by_cases h : (it.1 == t) = true
  · simp [h]
  · simp [h]

theorem lastFor_append_nil (t : String) (xs : List (Item α)) : lastFor t (xs ++ []) = lastFor t xs := by
  simp

theorem mem_engApply (act : List (String × α)) (it : Item α) (t : String) (u : α) :
    (t, u) ∈ engApply act it ↔ (it = (t, some u)) ∨ (it.1 ≠ t ∧ (t, u) ∈ act) := by
  obtain ⟨t', x⟩ := it
  cases x with
  | none =>
    simp only [engApply, engRemove, List.mem_filter, bne_iff_ne, ne_eq]
    constructor
    · rintro ⟨hm, hne⟩
      exact Or.inr ⟨fun h => hne h.symm, hm⟩
    · rintro (h | ⟨hne, hm⟩)
      · simp at h
      · exact ⟨hm, fun h => hne h.symm⟩
  | some u' =>
    simp only [engApply, engRemove, List.mem_cons, List.mem_filter, bne_iff_ne, ne_eq, Prod.mk.injEq,
      Option.some.injEq]
    constructor
    · rintro (⟨h1, h2⟩ | ⟨hm, hne⟩)
      · exact Or.inl ⟨h1.symm, h2.symm⟩
      · exact Or.inr ⟨fun h => hne h.symm, hm⟩
    · rintro (⟨h1, h2⟩ | ⟨hne, hm⟩)
      · exact Or.inl ⟨h1.symm, h2.symm⟩
      · exact Or.inr ⟨hm, fun h => hne h.symm⟩

/-- a tag is active with content `u` exactly when the last item scheduled for it is an add of `u` -/
theorem mem_lww_iff (items : List (Item α)) (t : String) (u : α) :
    (t, u) ∈ lww items ↔ lastFor t items = some (some u) := by
  induction items using snoc_induction with
  | nil => simp [lww, applyAll, lastFor]
  | snoc xs it ih =>
    rw [lww_snoc, mem_engApply, lastFor_snoc, ih]
    obtain ⟨t', x⟩ := it
    by_cases h : t' = t
    · subst h
      simp
    · have hb : (t' == t) = false := by simpa using h
      simp [hb, h]

theorem engApply_tags_sub (act : List (String × α)) (it : Item α) (t : String)
    (h : t ∈ (engApply act it).map Prod.fst) : t = it.1 ∨ t ∈ act.map Prod.fst := by
  rw [engApply_spec] at h
  simp only [List.map_append, List.mem_append, List.mem_map] at h
  rcases h with ⟨p, hp, rfl⟩ | ⟨p, hp, rfl⟩
  · left
    cases hta : toActive it with
    | none => simp [hta] at hp
    | some q =>
      simp [hta] at hp
      rw [hp]; exact toActive_tag it q hta
  · right
    exact List.mem_map.mpr ⟨p, (List.mem_filter.mp hp).1, rfl⟩

theorem engApply_nodup (act : List (String × α)) (it : Item α)
    (h : (act.map Prod.fst).Nodup) : ((engApply act it).map Prod.fst).Nodup := by
  rw [engApply_spec]
  have hf : ((act.filter (fun p => p.1 != it.1)).map Prod.fst).Nodup :=
    h.sublist ((List.filter_sublist).map Prod.fst)
  cases hta : toActive it with
  | none => simpa using hf
  | some q =>
    have hq := toActive_tag it q hta
    simp only [Option.toList_some, List.singleton_append, List.map_cons, List.nodup_cons]
    refine ⟨?_, hf⟩
    intro hm
    obtain ⟨p, hp, hpe⟩ := List.mem_map.mp hm
    have := (List.mem_filter.mp hp).2
    rw [hpe, hq] at this
    simp at this

/-- no tag is active twice -/
theorem lww_tags_nodup (items : List (Item α)) : ((lww items).map Prod.fst).Nodup := by
  induction items using snoc_induction with
  | nil => simp [lww, applyAll]
  | snoc xs it ih => rw [lww_snoc]; exact engApply_nodup _ _ ih

theorem lww_tags_sub (items : List (Item α)) (t : String) (h : t ∈ (lww items).map Prod.fst) :
    t ∈ items.map Prod.fst := by
  induction items using snoc_induction with
  | nil => simp [lww, applyAll] at h
  | snoc xs it ih =>
    rw [lww_snoc] at h
    rcases engApply_tags_sub _ _ _ h with h | h
    · simp [h]
    · have := ih h
      simp only [List.map_append, List.mem_append]
      exact Or.inl this

/-- when every tag is scheduled at most once, the engine holds the adds in reverse scheduling order -/
theorem lww_of_nodup (items : List (Item α)) (h : (items.map Prod.fst).Nodup) :
    lww items = (items.filterMap toActive).reverse := by
  induction items using snoc_induction with
  | nil => rfl
  | snoc xs it ih =>
    rw [List.map_append, List.nodup_append] at h
    obtain ⟨hxs, _, hdis⟩ := h
    rw [lww_snoc, ih hxs, engApply_spec, List.filterMap_append, List.reverse_append]
    have hnot : ∀ p ∈ (xs.filterMap toActive).reverse, (p.1 != it.1) = true := by
      intro p hp
      rw [List.mem_reverse, List.mem_filterMap] at hp
      obtain ⟨x, hx, hxa⟩ := hp
      have hpt := toActive_tag x p hxa
      have hne := hdis x.1 (List.mem_map.mpr ⟨x, hx, rfl⟩) it.1 (by simp)
      rw [hpt]
      simpa using hne
    rw [List.filter_eq_self.mpr hnot]
    cases hta : toActive it <;> simp [hta]

/-! ## `processAdd`, `loadAll` -/

theorem loadAll_ok_eq (fx : Fixes) (files : List (String × Load α)) (xs : List (Item α))
    (h : loadAll fx files = .ok xs) :
    xs = (files.map (fun p => Obs.add p.1 p.2)).flatMap (itemsOfObs fx) := by
  induction files generalizing xs with
  | nil => simp [loadAll] at h; simp [h]
  | cons p rest ih =>
    unfold loadAll at h
    cases hp : processAdd fx p.1 p.2 with
    | fatal => simp [hp] at h
    | ok a =>
      cases hr : loadAll fx rest with
      | fatal => simp [hp, hr] at h
      | ok b =>
        simp [hp, hr] at h
        rw [← h, ih b hr]
        simp [itemsOfObs, hp]

theorem processAdd_ok_of_caught (fx : Fixes) (hfx : fx.stoiCaught = true) (f : String) (l : Load α) :
    ∃ xs, processAdd fx f l = .ok xs := by
  unfold processAdd
  by_cases hd : isDot f = true
  · exact ⟨[], by simp [hd]⟩
  · cases l <;> simp [hd, hfx]

theorem loadAll_ok_of_caught (fx : Fixes) (hfx : fx.stoiCaught = true) (files : List (String × Load α)) :
    ∃ xs, loadAll fx files = .ok xs := by
  induction files with
  | nil => exact ⟨[], rfl⟩
  | cons p rest ih =>
    obtain ⟨a, ha⟩ := processAdd_ok_of_caught fx hfx p.1 p.2
    obtain ⟨b, hb⟩ := ih
    exact ⟨a ++ b, by simp [loadAll, ha, hb]⟩

/-! ## sorting by name -/

theorem leName_trans (a b c : String × Load α) (h1 : leName a b = true) (h2 : leName b c = true) :
    leName a c = true := by
  simp only [leName, decide_eq_true_eq] at *
  exact String.le_trans h1 h2

theorem leName_total (a b : String × Load α) : (leName a b || leName b a) = true := by
  simp only [leName, Bool.or_eq_true, decide_eq_true_eq]
  exact String.le_total a.1 b.1

theorem insertByName_perm (p : String × Load α) (l : List (String × Load α)) :
    (insertByName p l).Perm (p :: l) := by
  induction l with
  | nil => exact List.Perm.refl _
  | cons q r ih =>
    unfold insertByName
    by_cases h : leName p q = true
    · simp [h]
    · simp only [h]
      exact (List.Perm.cons q ih).trans (List.Perm.swap p q r)

theorem insertByName_sorted (p : String × Load α) (l : List (String × Load α))
    (h : l.Pairwise (fun a b => a.1 ≤ b.1)) : (insertByName p l).Pairwise (fun a b => a.1 ≤ b.1) := by
  induction l with
  | nil => simp [insertByName]
  | cons q r ih =>
    unfold insertByName
    rw [List.pairwise_cons] at h
    by_cases hle : leName p q = true
    · simp only [hle, if_true]
      have hpq : p.1 ≤ q.1 := by simpa [leName] using hle
      refine List.pairwise_cons.mpr ⟨?_, List.pairwise_cons.mpr h⟩
      intro x hx
      rcases List.mem_cons.mp hx with rfl | hx
      · exact hpq
      · exact String.le_trans hpq (h.1 x hx)
    · simp only [hle]
      have hqp : q.1 ≤ p.1 := by
        have := leName_total p q
        simp only [hle, Bool.false_or] at this
        simpa [leName] using this
      refine List.pairwise_cons.mpr ⟨?_, ih h.2⟩
      intro x hx
      have := (insertByName_perm p r).mem_iff.mp hx
      rcases List.mem_cons.mp this with rfl | hx
      · exact hqp
      · exact h.1 x hx

theorem sortFiles_sorted (files : List (String × Load α)) :
    (sortFiles files).Pairwise (fun a b => a.1 ≤ b.1) := by
  induction files with
  | nil => simp [sortFiles]
  | cons p r ih => exact insertByName_sorted p _ ih

theorem sortFiles_perm (files : List (String × Load α)) : (sortFiles files).Perm files := by
  induction files with
  | nil => exact List.Perm.refl _
  | cons p r ih => exact (insertByName_perm p _).trans (List.Perm.cons p ih)

/-! ## invariants of the transition system -/

/-- everything the proofs need about a reachable state -/
structure Good (fx : Fixes) (s : St α) : Prop where
  /-- exactly-once, in order: applied, then the local batch, then the queue -/
  fifo : s.applied ++ s.batch ++ s.queue = s.scheduled
  /-- the batches swapped out so far are what has been applied plus what is being applied -/
  drained : s.drained.flatten = s.applied ++ s.batch
  /-- the local batch is empty outside the apply loop -/
  pcBatch : s.pc ≠ .applying → s.batch = []
  /-- the engine is the fold of what has been applied -/
  eng : s.active = lww s.applied
  /-- the queue only ever receives what the observations produce -/
  obs : s.scheduled = s.observed.flatMap (itemsOfObs fx)

theorem good_emit (fx : Fixes) (s : St α) (xs : List (Item α)) (o : List (Obs α)) (g : Good fx s)
    (ho : xs = o.flatMap (itemsOfObs fx)) :
    Good fx { (s.emit xs) with observed := s.observed ++ o } where
  fifo := by simp [St.emit, ← g.fifo, List.append_assoc]
  drained := by simpa [St.emit] using g.drained
  pcBatch := by simpa [St.emit] using g.pcBatch
  eng := by simpa [St.emit] using g.eng
  obs := by simp [St.emit, g.obs, ho, List.flatMap_append]

theorem good_init (fx : Fixes) (dir : Option (List (String × Load α))) (s : St α)
    (h : init fx dir = .ok s) : Good fx s := by
  cases dir with
  | none =>
    simp [init] at h
    subst h
    constructor <;> simp [St.empty, lww, applyAll]
  | some files =>
    unfold init at h
    cases hp : prep fx files with
    | fatal => simp [hp] at h
    | ok xs =>
      simp [hp] at h
      subst h
      have he : Good fx (St.empty : St α) := by constructor <;> simp [St.empty, lww, applyAll]
      have := good_emit fx St.empty xs (obsOfFiles files) he (loadAll_ok_eq fx _ xs hp)
      simpa [St.empty] using this

theorem good_step (fx : Fixes) (s s' : St α) (st : Step α) (g : Good fx s) (h : step fx s st = .ok s') :
    Good fx s' := by
  cases st with
  | evAdd f l =>
    unfold step at h
    cases hp : processAdd fx f l with
    | fatal => simp [hp] at h
    | ok xs =>
      simp [hp] at h
      subst h
      exact good_emit fx s xs [Obs.add f l] g (by simp [itemsOfObs, hp])
  | evRemove f =>
    simp [step] at h
    subst h
    exact good_emit fx s (processRemove f) [Obs.rem f] g (by simp [itemsOfObs])
  | evSelf =>
    simp [step] at h
    subst h
    exact ⟨g.fifo, g.drained, g.pcBatch, g.eng, g.obs⟩
  | main dir =>
    unfold step at h
    cases hpc : s.pc with
    | top =>
      simp only [hpc] at h
      have hb : s.batch = [] := g.pcBatch (by simp [hpc])
      by_cases hd : s.deleted = true
      · simp only [hd, if_true] at h
        cases dir with
        | none =>
          simp at h
          subst h
          have := good_emit fx s _ (resyncObs (seenList s.observed) ([] : List (String × Load α))) g rfl
          exact ⟨this.fifo, this.drained, fun _ => by simpa [St.emit] using hb, this.eng, this.obs⟩
        | some files =>
          simp only at h
          cases hp : prep fx files with
          | fatal => simp [hp] at h
          | ok xs =>
            simp [hp] at h
            subst h
            have := good_emit fx s _ (resyncObs (seenList s.observed) files) g rfl
            exact ⟨this.fifo, this.drained, fun _ => by simpa [St.emit] using hb, this.eng, this.obs⟩
      · simp only [hd] at h
        simp at h
        subst h
        exact ⟨g.fifo, g.drained, fun _ => hb, g.eng, g.obs⟩
    | ticked =>
      simp only [hpc] at h
      simp at h
      subst h
      have hb : s.batch = [] := g.pcBatch (by simp [hpc])
      refine ⟨?_, ?_, ?_, g.eng, g.obs⟩
      · simpa [hb] using g.fifo
      · simp [g.drained, hb]
      · intro hne; simp at hne
    | applying =>
      simp only [hpc] at h
      cases hbt : s.batch with
      | nil =>
        simp [hbt] at h
        subst h
        refine ⟨?_, ?_, fun _ => rfl, g.eng, g.obs⟩
        · simpa [hbt] using g.fifo
        · simpa [hbt] using g.drained
      | cons it r =>
        simp [hbt] at h
        subst h
        refine ⟨?_, ?_, ?_, ?_, g.obs⟩
        · simpa [hbt, List.append_assoc] using g.fifo
        · simpa [hbt, List.append_assoc] using g.drained
        · intro hne; exact absurd rfl hne
        · simp [g.eng, lww_snoc]

theorem good_run (fx : Fixes) (steps : List (Step α)) (s s' : St α) (g : Good fx s)
    (h : run fx s steps = .ok s') : Good fx s' := by
  induction steps generalizing s with
  | nil => simp [run] at h; subst h; exact g
  | cons st rest ih =>
    unfold run at h
    cases hs : step fx s st with
    | fatal => simp [hs] at h
    | ok s1 =>
      simp [hs] at h
      exact ih s1 (good_step fx s s1 st g hs) h

theorem run_append (fx : Fixes) (a b : List (Step α)) (s : St α) :
    run fx s (a ++ b) = match run fx s a with | .fatal => .fatal | .ok s1 => run fx s1 b := by
  induction a generalizing s with
  | nil => simp [run]
  | cons st rest ih =>
    simp only [List.cons_append, run]
    cases step fx s st with
    | fatal => rfl
    | ok s1 => exact ih s1

/-- in a good state the engine plus everything still pending is the last-writer-wins of all items -/
theorem good_pending (fx : Fixes) (s : St α) (g : Good fx s) :
    applyAll s.active (s.batch ++ s.queue) = lww s.scheduled := by
  rw [g.eng, applyAll_lww, ← List.append_assoc, g.fifo]

/-! ## a quiet stretch: only the main thread runs -/

/-- relative to swap count `n0`: once a swap has happened, the queue is empty except between `tick()` and
the next swap -/
def QuietInv (n0 : Nat) (s : St α) : Prop := n0 < s.swaps → s.pc ≠ .ticked → s.queue = []

theorem quiet_step (fx : Fixes) (n0 : Nat) (s s' : St α) (dir : Option (List (String × Load α)))
    (hn : n0 ≤ s.swaps) (q : QuietInv n0 s) (h : step fx s (.main dir) = .ok s') :
    n0 ≤ s'.swaps ∧ QuietInv n0 s' := by
  unfold step at h
  cases hpc : s.pc with
  | top =>
    simp only [hpc] at h
    by_cases hd : s.deleted = true
    · simp only [hd, if_true] at h
      cases dir with
      | none =>
        simp at h; subst h
        exact ⟨hn, fun _ hne => absurd rfl hne⟩
      | some files =>
        simp only at h
        cases hp : prep fx files with
        | fatal => simp [hp] at h
        | ok xs =>
          simp [hp] at h; subst h
          exact ⟨by simpa [St.emit] using hn, fun _ hne => absurd rfl hne⟩
    · simp only [hd] at h
      simp at h; subst h
      exact ⟨hn, fun _ hne => absurd rfl hne⟩
  | ticked =>
    simp only [hpc] at h
    simp at h; subst h
    exact ⟨Nat.le_succ_of_le hn, fun _ _ => rfl⟩
  | applying =>
    simp only [hpc] at h
    have hq : n0 < s.swaps → s.queue = [] := fun hlt => q hlt (by simp [hpc])
    cases hbt : s.batch with
    | nil =>
      simp [hbt] at h; subst h
      exact ⟨hn, fun hlt _ => hq hlt⟩
    | cons it r =>
      simp [hbt] at h; subst h
      exact ⟨hn, fun hlt _ => hq hlt⟩

theorem quiet_run (fx : Fixes) (n0 : Nat) (steps : List (Step α)) (s s' : St α)
    (hm : ∀ st ∈ steps, st.isMain = true) (hn : n0 ≤ s.swaps) (q : QuietInv n0 s)
    (h : run fx s steps = .ok s') : QuietInv n0 s' := by
  induction steps generalizing s with
  | nil => simp [run] at h; subst h; exact q
  | cons st rest ih =>
    unfold run at h
    cases hs : step fx s st with
    | fatal => simp [hs] at h
    | ok s1 =>
      simp [hs] at h
      have hmain := hm st (by simp)
      cases st with
      | main dir =>
        obtain ⟨hn1, q1⟩ := quiet_step fx n0 s s1 dir hn q hs
        exact ih s1 (fun x hx => hm x (by simp [hx])) hn1 q1 h
      | evAdd f l => simp [Step.isMain] at hmain
      | evRemove f => simp [Step.isMain] at hmain
      | evSelf => simp [Step.isMain] at hmain

/-- while only the main thread runs and the watch is registered, nothing new is scheduled -/
theorem quiet_no_reload (fx : Fixes) (steps : List (Step α)) (s s' : St α)
    (hm : ∀ st ∈ steps, st.isMain = true) (hd : s.deleted = false) (h : run fx s steps = .ok s') :
    s'.scheduled = s.scheduled ∧ s'.deleted = false := by
  induction steps generalizing s with
  | nil => simp [run] at h; subst h; exact ⟨rfl, hd⟩
  | cons st rest ih =>
    unfold run at h
    cases hs : step fx s st with
    | fatal => simp [hs] at h
    | ok s1 =>
      simp [hs] at h
      have hmain := hm st (by simp)
      cases st with
      | main dir =>
        have h1 : s1.scheduled = s.scheduled ∧ s1.deleted = false := by
          unfold step at hs
          cases hpc : s.pc with
          | top => simp [hpc, hd] at hs; subst hs; exact ⟨rfl, rfl⟩
          | ticked => simp [hpc] at hs; subst hs; exact ⟨rfl, hd⟩
          | applying =>
            cases hbt : s.batch with
            | nil => simp [hpc, hbt] at hs; subst hs; exact ⟨rfl, hd⟩
            | cons it r => simp [hpc, hbt] at hs; subst hs; exact ⟨rfl, hd⟩
        obtain ⟨h2, h3⟩ := ih s1 (fun x hx => hm x (by simp [hx])) h1.2 h
        exact ⟨h2.trans h1.1, h3⟩
      | evAdd f l => simp [Step.isMain] at hmain
      | evRemove f => simp [Step.isMain] at hmain
      | evSelf => simp [Step.isMain] at hmain

/-! ## progress of the main thread (for the repaired code nothing is fatal) -/

theorem step_ok_of_caught (fx : Fixes) (hfx : fx.stoiCaught = true) (s : St α) (st : Step α) :
    ∃ s', step fx s st = .ok s' := by
  cases st with
  | evAdd f l =>
    obtain ⟨xs, hx⟩ := processAdd_ok_of_caught fx hfx f l
    simp [step, hx]
  | evRemove f => simp [step]
  | evSelf => simp [step]
  | main dir =>
    unfold step
    cases s.pc with
    | top =>
      by_cases hd : s.deleted = true
      · cases dir with
        | none => simp [hd]
        | some files =>
          obtain ⟨xs, hx⟩ := loadAll_ok_of_caught fx hfx (sortFiles files)
          simp [hd, prep, hx]
      · simp [hd]
    | ticked => simp
    | applying =>
      cases s.batch with
      | nil => simp
      | cons it r => simp

theorem run_ok_of_caught (fx : Fixes) (hfx : fx.stoiCaught = true) (steps : List (Step α)) (s : St α) :
    ∃ s', run fx s steps = .ok s' := by
  induction steps generalizing s with
  | nil => exact ⟨s, rfl⟩
  | cons st rest ih =>
    obtain ⟨s1, h1⟩ := step_ok_of_caught fx hfx s st
    obtain ⟨s2, h2⟩ := ih s1
    exact ⟨s2, by simp [run, h1, h2]⟩

/-- the apply loop terminates: from `applying`, `batch.length + 1` main steps reach `top`, no swap -/
theorem finish_batch (fx : Fixes) (dir : Option (List (String × Load α))) (n : Nat) (s : St α)
    (hpc : s.pc = .applying) (hl : s.batch.length = n) :
    ∃ s', run fx s (List.replicate (n + 1) (.main dir)) = .ok s' ∧ s'.pc = .top ∧ s'.swaps = s.swaps := by
  induction n generalizing s with
  | zero =>
    have hb : s.batch = [] := List.length_eq_zero_iff.mp hl
    refine ⟨{ s with pc := .top }, ?_, rfl, rfl⟩
    simp [List.replicate, run, step, hpc, hb]
  | succ k ih =>
    cases hbt : s.batch with
    | nil => simp [hbt] at hl
    | cons it r =>
      let s1 : St α := { s with batch := r, active := engApply s.active it, applied := s.applied ++ [it] }
      have h1 : step fx s (.main dir) = .ok s1 := by simp [step, hpc, hbt, s1]
      have hl1 : s1.batch.length = k := by simp [s1]; simpa [hbt] using hl
      obtain ⟨s', hr, hp, hs⟩ := ih s1 (by simp [s1, hpc]) hl1
      refine ⟨s', ?_, hp, by simpa [s1] using hs⟩
      rw [List.replicate_succ, run, h1]
      exact hr

/-- one whole `updateDropIns` from `top`: some number of main steps later the thread is back at `top`
and exactly one swap has happened -/
theorem full_tick (fx : Fixes) (hfx : fx.stoiCaught = true) (dir : Option (List (String × Load α)))
    (s : St α) (hpc : s.pc = .top) :
    ∃ n s', run fx s (List.replicate n (.main dir)) = .ok s' ∧ s'.pc = .top ∧ s'.swaps = s.swaps + 1 := by
  obtain ⟨s1, h1⟩ := step_ok_of_caught fx hfx s (.main dir)
  have hpc1 : s1.pc = .ticked ∧ s1.swaps = s.swaps := by
    unfold step at h1
    simp only [hpc] at h1
    by_cases hd : s.deleted = true
    · simp only [hd, if_true] at h1
      cases dir with
      | none => simp at h1; subst h1; exact ⟨rfl, rfl⟩
      | some files =>
        simp only at h1
        cases hp : prep fx files with
        | fatal => simp [hp] at h1
        | ok xs => simp [hp] at h1; subst h1; exact ⟨rfl, by simp [St.emit]⟩
    · simp only [hd] at h1
      simp at h1; subst h1; exact ⟨rfl, rfl⟩
  let s2 : St α := { s1 with batch := s1.queue, queue := [], drained := s1.drained ++ [s1.queue],
                             swaps := s1.swaps + 1, pc := .applying }
  have h2 : step fx s1 (.main dir) = .ok s2 := by simp [step, hpc1.1, s2]
  obtain ⟨s3, h3, hp3, hs3⟩ := finish_batch fx dir s2.batch.length s2 rfl rfl
  refine ⟨1 + (1 + (s2.batch.length + 1)), s3, ?_, hp3, ?_⟩
  · rw [← List.replicate_append_replicate, run_append]
    simp only [List.replicate_one, run, h1]
    rw [← List.replicate_append_replicate, run_append]
    simp only [List.replicate_one, run, h2]
    exact h3
  · rw [hs3]; simp [s2, hpc1.2]

/-! ## reachable states; the file-system form of convergence -/

theorem reachable_good (fx : Fixes) (s : St α) (h : Reachable fx s) : Good fx s := by
  obtain ⟨dir, steps, s0, h0, h1⟩ := h
  exact good_run fx steps s0 s (good_init fx dir s0 h0) h1

theorem itemsOfObs_all (o : Obs α) :
    itemsOfObs Fixes.all o = if isDot o.name then [] else [(o.name, unitOf o.load)] := by
  cases o with
  | add f l =>
    by_cases hd : isDot f = true
    · simp [itemsOfObs, processAdd, hd, Obs.name]
    · cases l <;> simp [itemsOfObs, processAdd, hd, Obs.name, Obs.load, unitOf, failItems, Fixes.all]
  | rem f =>
    by_cases hd : isDot f = true
    · simp [itemsOfObs, processRemove, hd, Obs.name]
    · simp [itemsOfObs, processRemove, hd, Obs.name, Obs.load, unitOf]

theorem lastObs_snoc (t : String) (obs : List (Obs α)) (o : Obs α) :
    lastObs t (obs ++ [o]) = if o.name == t then some o.load else lastObs t obs := by
  unfold lastObs
  rw [List.reverse_append]
  simp only [List.reverse_cons, List.reverse_nil, List.nil_append, List.singleton_append, List.find?_cons]
  by_cases h : (o.name == t) = true
  · simp [h]
  · simp [h]

theorem lastFor_items_all (t : String) (obs : List (Obs α)) :
    lastFor t (obs.flatMap (itemsOfObs Fixes.all))
      = if isDot t then none else (lastObs t obs).map unitOf := by
  induction obs using snoc_induction with
  | nil => simp [lastFor, lastObs]
  | snoc xs o ih =>
    rw [List.flatMap_append, List.flatMap_singleton, itemsOfObs_all, lastObs_snoc]
    by_cases hd : isDot o.name = true
    · simp only [hd, if_true, List.append_nil, ih]
      by_cases ht : isDot t = true
      · simp [ht]
      · have hne : (o.name == t) = false := by
          apply beq_false_of_ne
          intro he; rw [he] at hd; exact ht hd
        simp [ht, hne]
    · simp only [hd, Bool.false_eq_true, if_false, lastFor_snoc, ih]
      by_cases hn : (o.name == t) = true
      · have he : o.name = t := by simpa using hn
        have ht : isDot t = false := by rw [← he]; simpa using hd
        simp [hn, ht]
      · simp [hn]

end OomdModel.Watcher

"""C09 - each kill plugin's first choice follows its documented ranking policy (engine h_rank).

Scenario: one of the five real kill plugins (created through the registry, initialised with generated
arguments) ranks sibling cgroups of a scratch tree; statistics come from generated control files over
1..5 ticks.  All byte counts / counters travel as decimal strings (values up to 2^62).
"""
import os

from vlib import core

PROP = "C09"
ENGINE = "rank"
HARNESS = "h_rank"
FLAVOUR = "asan"
RULE = ("per plugin: 1..7 siblings at depth 1 (raw protection), 2 (protection normalised by the parent) or 3 (the parent's own share "
        "normalised by an over-committed grandparent level), equal or "
        "mixed preference xattrs, optional non-targeted siblings; sizes from {0..20, MiB..GiB, 2^31..2^40, 2^53..2^62} with "
        "the sibling total < 2^63, forced ties and values placed exactly on / one byte around every threshold; "
        "size_threshold 0..100 (+ >100), percentile 0..99, min_growth_ratio integral and fractional, 1..5 tick usage "
        "histories; SwapTotal/MemTotal absent, 0, < 2^31, in [2^31,2^32), > 2^32, thresholds as %, MiB, K/M/G/T, default, "
        "biased or not; PSI averages with two decimals incl. same-integer-part pairs; io.stat on two known and one unknown "
        "device with dyadic coefficients, 1..5 ticks, cgroups born on the last tick; pgscan deltas positive, zero, "
        "negative, cgroups born late; individual siblings with a missed read (io.stat / memory.stat absent, pgscan line "
        "missing) on some tick, most often the one before the ranking.  non-trivial = at least two targeted siblings share the first choice's preference "
        "and the plugin returned a non-empty ranking")
ASSUMPTIONS = [
    "the siblings' memory.current sum is below 2^63 (the code adds them in int64_t)",
    "sibling total * max(size_threshold, 100) / 100 < 2^63 - 2^11 and SwapTotal * 100 < 2^63 (the thresholds are computed in "
    "double / int64_t and converted to int64_t)",
    "(SwapTotal / MemTotal) * memory protection < 2^61 (biased swap kill converts that product to int64_t)",
    "control files are well formed (missing / malformed files are C10's subject)",
    "eligibility thresholds are compared at whole-byte granularity; decisions that depend on IEEE rounding or on the "
    "sub-byte truncation of a threshold are tolerated by the oracle and counted (coverage.rounding_tolerated)",
    "the io-cost / pgscan increase is the difference to the previous tick's sample; without a sample on this or the "
    "previous tick there is no increase (io cost 0, pgscan not eligible), as the unchanged code has it",
    "usage/0 has no defined growth: the oracle accepts either treatment",
]
TRUSTED = ["IEEE-754 double/float arithmetic of Lean's Float/Float32 equals the C++ (validated bit for bit on every run)",
           "glibc strtof/strtod vs Float.ofScientific on two-decimal literals (validated on every run)"]

NAMES = ["a", "b", "c", "d", "e", "f", "g", "h", "k1", "k2", "svc", "db", "web", "x9"]
PLUGINS = ["kill_by_memory_size_or_growth", "kill_by_swap_usage", "kill_by_pressure", "kill_by_io_cost", "kill_by_pg_scan"]


def size(rng, cap=1 << 62):
    r = rng.random()
    if r < 0.15:
        v = rng.randint(0, 20)
    elif r < 0.65:
        v = rng.randint(1, 4096) << rng.choice([10, 20, 20, 20, 24, 30])
        if rng.random() < 0.3:
            v += rng.randint(-3, 3)
    elif r < 0.8:
        v = rng.randint(1 << 31, 1 << 40)
    elif r < 0.9:
        v = (1 << rng.choice([31, 32, 33, 40])) + rng.randint(-2, 2)
    else:
        v = rng.randint(1 << 53, 1 << 62)
    return max(0, min(v, cap))


def prot_fields(rng, cur):
    """memory.min / memory.low relative to the usage"""
    def one():
        r = rng.random()
        if r < 0.6:
            return "0"
        if r < 0.64:
            return "max"
        if r < 0.69:
            return str(cur)
        if r < 0.73:
            return str(min(cur + rng.randint(1, 1 << 20), (1 << 63) - 1))
        if r < 0.87:
            return str(cur // rng.choice([2, 3, 4, 10]))
        return str(rng.randint(0, max(1, cur)))
    return one(), one()


def prefs(rng, n):
    r = rng.random()
    if r < 0.62:
        return ["none"] * n
    if r < 0.72:
        return [rng.choice(["prefer", "uprefer"])] * n
    if r < 0.8:
        return [rng.choice(["avoid", "uavoid"])] * n
    if r < 0.85:
        return ["both"] * n
    return [rng.choice(["none", "none", "prefer", "avoid", "both", "uprefer", "uavoid"]) for _ in range(n)]


def base(rng, plugin, n=None):
    n = n or rng.choice([1, 2, 2, 3, 3, 4, 5, 7])
    names = rng.sample(NAMES, n)
    ps = prefs(rng, n)
    sc = {"plugin": plugin, "args": {}, "depth": rng.choice([1, 1, 2, 3]), "nticks": 1,
          "sibs": [{"name": names[i], "pref": ps[i], "ticks": [{}]} for i in range(n)]}
    if n >= 3 and rng.random() < 0.15:
        sc["sibs"][rng.randrange(n)]["target"] = False
    return sc


def finish_mem(rng, sc):
    """parent files for depth 2 (after the siblings' usages are known)"""
    if sc["depth"] >= 2:
        par = []
        for t in range(sc["nticks"]):
            tot = 0
            for s in sc["sibs"]:
                tk = s["ticks"][min(max(t - s.get("born", 0), 0), len(s["ticks"]) - 1)]
                tot += int(tk.get("cur", "0"))
            cur = min(tot + rng.choice([0, 0, 4096, 1 << 20]), (1 << 63) - 1)
            mn, lo = prot_fields(rng, cur)
            if rng.random() < 0.3:
                lo = str(cur // rng.choice([2, 3, 4]))
            par.append({"cur": str(cur), "min": mn, "low": lo})
        sc["parent"] = par
    if sc["depth"] == 3:
        # grandparent g with children w (the parent) and u (an uncle with a claim of its own): g's level is over-committed
        # in about half of the cases, so the parent receives less protection than it claims (P(parent) < R(parent))
        gp, un = [], []
        for t in range(sc["nticks"]):
            pc = int(sc["parent"][t]["cur"])
            # the raw protections of the parent and the uncle are added in int64_t (protection_sum): keep the sum in range
            ucur = rng.choice([pc, pc // 2 + 4096, 1 << 20, 1 << 30]) if pc < (1 << 61) else rng.choice([1 << 20, 1 << 30])
            umn, ulo = prot_fields(rng, ucur)
            if rng.random() < 0.6:
                ulo = str(ucur // rng.choice([1, 2, 3]))
            un.append({"cur": str(ucur), "min": umn, "low": ulo})
            gcur = min(pc + ucur + rng.choice([0, 4096]), (1 << 63) - 1)
            gmn, glo = prot_fields(rng, gcur)
            if rng.random() < 0.6:
                glo = str(gcur // rng.choice([2, 4, 8, 16]))
            gp.append({"cur": str(gcur), "min": gmn, "low": glo})
        sc["gparent"], sc["uncle"] = gp, un
    return sc


# ---------------------------------------------------------------- kill_by_memory_size_or_growth

# (ratio string, first-tick multiplier, second-tick multiplier): with usages first*i, second*i on two ticks the
# moving average is exactly second*i / ratio, i.e. usage / average hits the configured ratio exactly
EXACT_RATIO = [("1", 16, 4), ("1.0", 16, 4), ("1.25", 176, 60), ("1.5", 80, 36), ("2", 8, 6), ("2.0", 8, 6),
               ("0.5", 112, 12), ("2.5", 16, 20), ("3.75", 16, 180), ("1.250", 176, 60)]


def gen_growth_exact_ratio(rng):
    """two-tick histories whose growth is exactly on / just beside min_growth_ratio; the size phase is out of reach"""
    sc = base(rng, "kill_by_memory_size_or_growth", n=rng.choice([2, 3, 3, 4, 5]))
    sc["nticks"] = 2
    ratio, m1, m2 = rng.choice(EXACT_RATIO)
    sc["args"] = {"min_growth_ratio": ratio, "size_threshold": str(rng.choice([100, 101, 150, 200])),
                  "growing_size_percentile": str(rng.choice([0, 0, 1, 10, 50, 80]))}
    for s in sc["sibs"]:
        i = rng.randint(1, 2000)
        first, second = m1 * i, m2 * i
        r = rng.random()
        if r < 0.4:
            pass                                  # exactly on the ratio
        elif r < 0.6:
            second -= 1                           # just below (average moves by less than usage)
        elif r < 0.75:
            second += 1
        elif r < 0.9:
            second = max(1, second // rng.choice([2, 3]))   # clearly not growing
        else:
            first, second = second, first
        mn, lo = ("0", "0") if rng.random() < 0.8 else prot_fields(rng, second)
        s["ticks"] = [{"cur": str(first), "min": mn, "low": lo}, {"cur": str(second), "min": mn, "low": lo}]
    return finish_mem(rng, sc)


# decimals that are not binary fractions (nearest float above or below the decimal), all < 4
NONDYADIC = ["1.1", "1.4", "1.6", "1.15", "2.2", "1.3", "1.7", "1.9", "0.7", "1.05", "1.2", "1.35", "2.6", "3.3", "0.9",
             "1.45", "1.55", "1.01", "1.33", "2.9", "0.3", "1.8", "1.65", "3.1", "1.125", "1.375", "1.0625"]


def exact_pair(ratio, k):
    """(first, second) usages of a two-tick history whose moving average is exactly second / ratio:
    ratio = m / 10^e < 4; second = 3mk, average = 3 * 10^e * k, first = 4k(4 * 10^e - m)"""
    ip, _, fp = ratio.partition(".")
    e = len(fp)
    m = int(ip + fp)
    return 4 * k * (4 * 10 ** e - m), 3 * m * k, 3 * 10 ** e * k


def gen_growth_boundary(rng):
    """a sibling whose usage / moving average equals a non-dyadic min_growth_ratio exactly (or misses it by one
    byte); nobody is size-eligible, the boundary sibling is inside the percentile cut and is not the largest"""
    n = rng.choice([2, 3, 3, 4, 5])
    sc = base(rng, "kill_by_memory_size_or_growth", n=n)
    for s in sc["sibs"]:
        s.pop("target", None)
    sc["nticks"] = 2
    ratio = rng.choice(NONDYADIC if rng.random() < 0.85 else [r for r, _, _ in EXACT_RATIO])
    k = rng.choice([1, 2, 4, 10, 100, rng.randint(1, 5000)])
    first, second, avg = exact_pair(ratio, k)
    delta = rng.choice([0, 0, 0, 0, 0, 0, -1, 1])
    pctl = rng.choice([0, 0, 1, 10, 30, 50])
    sc["args"] = {"min_growth_ratio": ratio, "size_threshold": str(rng.choice([100, 100, 150, 200, 60 if n >= 4 else 100])),
                  "growing_size_percentile": str(pctl)}
    sibs = sc["sibs"]
    sibs[0]["ticks"] = [{"cur": str(first), "min": "0", "low": "0"}, {"cur": str(second + delta), "min": "0", "low": "0"}]
    # a larger sibling that shrinks (growth < 1 unless ratio is tiny), so the fallback phase would pick it
    big2 = second + rng.randint(1, max(2, second // 4))
    sibs[1]["ticks"] = [{"cur": str(big2 * rng.choice([5, 8, 16])), "min": "0", "low": "0"}, {"cur": str(big2), "min": "0", "low": "0"}]
    for s in sibs[2:]:
        r = rng.random()
        if r < 0.5:      # small and shrinking
            c = rng.randint(1, max(1, second // 2))
            s["ticks"] = [{"cur": str(c * rng.choice([2, 5, 10])), "min": "0", "low": "0"}, {"cur": str(c), "min": "0", "low": "0"}]
        elif r < 0.75:   # another one exactly on / next to the ratio, smaller
            k2 = rng.randint(1, max(1, k))
            f2, s2, _ = exact_pair(ratio, k2)
            s["ticks"] = [{"cur": str(f2), "min": "0", "low": "0"}, {"cur": str(s2 + rng.choice([0, -1, 1])), "min": "0", "low": "0"}]
        else:
            c = rng.randint(1, big2)
            s["ticks"] = [{"cur": str(c), "min": "0", "low": "0"}]
    if rng.random() < 0.5:
        rng.shuffle(sibs)
    return finish_mem(rng, sc)


def gen_growth_size_boundary(rng):
    """size_threshold % of a total that is not a multiple of 100: usages floor / ceil of the exact threshold"""
    n = rng.choice([2, 3, 4])
    sc = base(rng, "kill_by_memory_size_or_growth", n=n)
    for s in sc["sibs"]:
        s.pop("target", None)
    thr = rng.choice([1, 3, 7, 10, 29, 33, 50, 50, 57, 66, 75, 99])
    total = rng.choice([101, 1001, 4097, rng.randint(100, 1 << 30), rng.randint(1 << 31, 1 << 45)])
    t_floor = total * thr // 100
    c0 = min(total, max(0, t_floor + rng.choice([0, 1, 1, -1, 2])))
    rest = total - c0
    cuts = sorted(rng.randint(0, rest) for _ in range(n - 2))
    parts = [b - a for a, b in zip([0] + cuts, cuts + [rest])]
    sc["args"] = {"size_threshold": str(thr), "min_growth_ratio": rng.choice(["1.25", "100"]),
                  "growing_size_percentile": str(rng.choice([0, 50, 80]))}
    for s, c in zip(sc["sibs"], [c0] + parts):
        mn, lo = ("0", "0") if rng.random() < 0.7 else prot_fields(rng, c)
        s["ticks"] = [{"cur": str(c), "min": mn, "low": lo}]
    if rng.random() < 0.5:
        rng.shuffle(sc["sibs"])
    return finish_mem(rng, sc)


def gen_growth(rng):
    r = rng.random()
    if r < 0.12:
        return gen_growth_exact_ratio(rng)
    if r < 0.3:
        return gen_growth_boundary(rng)
    if r < 0.36:
        return gen_growth_size_boundary(rng)
    sc = base(rng, "kill_by_memory_size_or_growth")
    n = len(sc["sibs"])
    nt = rng.choice([1, 2, 2, 3, 4, 5])
    sc["nticks"] = nt
    a = sc["args"]
    if rng.random() < 0.8:
        a["size_threshold"] = str(rng.choice([0, 1, 10, 25, 30, 33, 40, 50, 50, 50, 60, 75, 90, 100, 100, 120, 200, rng.randint(0, 100)]))
    if rng.random() < 0.8:
        a["growing_size_percentile"] = str(rng.choice([0, 1, 10, 20, 50, 67, 80, 80, 90, 99, rng.randint(0, 99)]))
    if rng.random() < 0.85:
        a["min_growth_ratio"] = rng.choice(["0", "1", "2", "4", "1.25", "1.5", "1.6", "1.1", "1.05", "0.5", "2.5", "3.75", "1.0", "1.30",
                                            "%d.%02d" % (rng.randint(0, 3), rng.randint(0, 99)), "%d.%d" % (rng.randint(1, 2), rng.randint(0, 9))])
    thr = int(a.get("size_threshold", "50"))
    shape = rng.random()
    huge = rng.random() < 0.08
    cap = (1 << 62) if huge else (1 << 44)
    budget = (1 << 63) - 1
    finals = []
    if shape < 0.25 and n >= 2 and thr <= 100:
        # one sibling exactly on / one byte around the size threshold:  cur0 * 100 == total * thr
        unit = rng.randint(1, 1 << 20)
        total = unit * 100
        c0 = unit * thr + rng.choice([0, 0, 0, -1, 1, -2])
        c0 = max(0, min(c0, total))
        rest = total - c0
        cuts = sorted(rng.randint(0, rest) for _ in range(n - 2))
        parts = [b - a_ for a_, b in zip([0] + cuts, cuts + [rest])] if n >= 2 else []
        finals = [c0] + parts
    else:
        for i in range(n):
            v = size(rng, min(cap, budget))
            if i and rng.random() < 0.25:
                v = min(finals[rng.randrange(i)], budget)
            budget -= v
            finals.append(v)
    for i, s in enumerate(sc["sibs"]):
        born = rng.choice([0, 0, 0, rng.randrange(nt)])
        if born:
            s["born"] = born
        k = nt - born
        cur = finals[i]
        hist = []
        mode = rng.random()
        for t in range(k):
            if t == k - 1:
                c = cur
            elif mode < 0.35:
                c = cur
            elif mode < 0.6:
                c = cur // rng.choice([2, 3, 4, 8])          # growing
            elif mode < 0.75:
                c = min(cur * rng.choice([2, 3]), cap)        # shrinking
            else:
                c = size(rng, cap)
            hist.append(c)
        # exact ratio cases: two samples 16k, c with c / (3k*... ) in {1, 1.6, 2}
        if k == 2 and rng.random() < 0.2 and 24 <= cur < (1 << 58):
            kk = cur // rng.choice([12, 8, 4])
            if kk > 0:
                choice = rng.choice([(12, 1), (8, 1), (4, 1)])
                hist = [16 * kk, choice[0] * kk]
                finals[i] = hist[-1]
        mn, lo = prot_fields(rng, hist[-1])
        s["ticks"] = [{"cur": str(c), "min": mn, "low": lo} for c in hist]
    # keep the total, and the threshold computed from it, below 2^63 (ASSUMPTIONS)
    total = sum(int(s["ticks"][-1]["cur"]) for s in sc["sibs"])
    if total * max(thr, 100) // 100 >= (1 << 63) - (1 << 11):
        return gen_growth(rng)
    return finish_mem(rng, sc)


# ---------------------------------------------------------------- kill_by_swap_usage

def kb_total(rng):
    """SwapTotal / MemTotal in kB"""
    r = rng.random()
    if r < 0.08:
        return None
    if r < 0.14:
        return 0
    if r < 0.34:
        return rng.randint(1, (1 << 21) - 1)                 # < 2 GiB
    if r < 0.54:
        return rng.randint(1 << 21, (1 << 22) - 1)           # [2 GiB, 4 GiB)
    if r < 0.66:
        return (1 << rng.choice([21, 22, 23, 24])) + rng.choice([0, 0, 4, -4])
    if r < 0.9:
        return rng.randint(1 << 22, 1 << 30)                 # up to 1 TiB
    return rng.randint(1 << 30, 1 << 44)


def gen_swap(rng):
    sc = base(rng, "kill_by_swap_usage")
    n = len(sc["sibs"])
    st, mt = kb_total(rng), kb_total(rng)
    if mt == 0 and rng.random() < 0.5:
        mt = rng.randint(1, 1 << 24)
    mi = {}
    if st is not None:
        mi["SwapTotal"] = str(st)
    if mt is not None:
        mi["MemTotal"] = str(mt)
    sc["meminfo"] = mi
    a = sc["args"]
    stb = (st or 0) * 1024
    r = rng.random()
    thr = 1
    if r < 0.15:
        pass
    elif r < 0.6:
        pct = rng.choice([0, 1, 5, 10, 25, 50, 50, 75, 90, 100, rng.randint(0, 100)])
        a["threshold"] = "%d%%" % pct
        thr = stb * pct // 100
    elif r < 0.8:
        mb = rng.choice([0, 1, 16, 100, 2048, 4096, rng.randint(0, 1 << 14)])
        a["threshold"] = str(mb)
        thr = mb << 20
    else:
        num, suf = rng.randint(0, 4096), rng.choice("KMGTkmg")
        a["threshold"] = "%d%s" % (num, suf)
        thr = num << {"k": 10, "m": 20, "g": 30, "t": 40}[suf.lower()]
    if rng.random() < 0.45:
        a["biased_swap_kill"] = rng.choice(["true", "True", "1", "false"])
    budget = (1 << 63) - 1
    for i, s in enumerate(sc["sibs"]):
        r = rng.random()
        if r < 0.35:
            sw = max(0, thr + rng.choice([-2, -1, 0, 0, 1, 1, 2, 4096, 1 << 20]))
        elif r < 0.5:
            sw = thr * rng.choice([2, 3]) + rng.randint(0, 3)
        elif r < 0.6 and i:
            sw = int(sc["sibs"][rng.randrange(i)]["ticks"][0]["swap"])
        else:
            sw = size(rng, 1 << 50)
        sw = min(sw, 1 << 62)
        cur = min(size(rng, 1 << 44), budget)
        budget -= cur
        mn, lo = prot_fields(rng, cur)
        s["ticks"] = [{"cur": str(cur), "min": mn, "low": lo, "swap": str(sw)}]
    # the code computes int64_t(swapRatio * protection): keep it below 2^62 (ASSUMPTIONS)
    if st and mt and (st / mt) * max(int(s["ticks"][0]["cur"]) for s in sc["sibs"]) >= float(1 << 61):
        return gen_swap(rng)
    return finish_mem(rng, sc)


# ---------------------------------------------------------------- kill_by_pressure

def psi(rng):
    r = rng.random()
    if r < 0.15:
        return "0.00"
    if r < 0.25:
        return "100.00"
    if r < 0.6:
        return "%d.%02d" % (rng.randint(0, 99), rng.randint(0, 99))
    return "%d.%02d" % (rng.choice([0, 1, 9, 10, 10, 33, 50, 99]), rng.choice([0, 1, 10, 49, 50, 51, 90, 99]))


def gen_pressure_close(rng):
    """means that differ by exactly 0.005 (or tie) at values that are not binary fractions"""
    sc = base(rng, "kill_by_pressure", n=rng.choice([2, 3, 4]))
    sc["args"]["resource"] = rng.choice(["memory", "io"])
    b = rng.randint(0, 9990)                       # hundredths
    for s in sc["sibs"]:
        a10 = max(0, min(10000, b + rng.choice([-5, 0, 0, 5, 1, -1, 10])))
        a60 = max(0, min(10000, 2 * b - a10 + rng.choice([0, 0, 1, -1])))
        v10, v60 = "%d.%02d" % divmod(a10, 100), "%d.%02d" % divmod(a60, 100)
        s["ticks"] = [{"mp10": v10, "mp60": v60, "ip10": v10, "ip60": v60, "cur": str(size(rng, 1 << 40))}]
    return finish_mem(rng, sc)


def gen_pressure(rng):
    if rng.random() < 0.2:
        return gen_pressure_close(rng)
    sc = base(rng, "kill_by_pressure")
    sc["args"]["resource"] = rng.choice(["memory", "io"])
    shared = psi(rng), psi(rng)
    for i, s in enumerate(sc["sibs"]):
        t = {"mp10": psi(rng), "mp60": psi(rng), "ip10": psi(rng), "ip60": psi(rng), "cur": str(size(rng, 1 << 40))}
        r = rng.random()
        if r < 0.25:                      # same integer part of the mean as someone else's
            b = rng.randint(0, 99)
            t["mp10"] = t["mp60"] = "%d.%02d" % (b, rng.randint(0, 99))
            t["ip10"] = t["ip60"] = "%d.%02d" % (b, rng.randint(0, 99))
            for o in sc["sibs"][:i]:
                if rng.random() < 0.5:
                    o["ticks"][0]["mp10"] = o["ticks"][0]["mp60"] = "%d.%02d" % (b, rng.randint(0, 99))
                    o["ticks"][0]["ip10"] = o["ticks"][0]["ip60"] = "%d.%02d" % (b, rng.randint(0, 99))
        elif r < 0.4:
            t["mp10"], t["mp60"] = shared
            t["ip10"], t["ip60"] = shared
        elif r < 0.5:                     # equal mean, different components
            t["mp10"], t["mp60"] = shared[1], shared[0]
            t["ip10"], t["ip60"] = shared[1], shared[0]
        s["ticks"] = [t]
    return finish_mem(rng, sc)


# ---------------------------------------------------------------- kill_by_io_cost

COEFF = ["0", "1", "2", "0.5", "0.25", "1.5", "3", "8", "0.125", "10", "1.75", "100"]


def add_missed_reads(rng, sc, kinds):
    """individual siblings miss a read on some tick (most often the tick before the ranking)"""
    nt = sc["nticks"]
    for s in sc["sibs"]:
        born = s.get("born", 0)
        if rng.random() < 0.35:
            t = rng.choice([nt - 2, nt - 2, nt - 2, nt - 1, rng.randrange(nt)])
            if born <= t < born + len(s["ticks"]):
                s["ticks"][t - born] = dict(s["ticks"][t - born], miss=rng.choice(kinds))
    return sc


def gen_rate_gap(rng, plugin):
    """3..5 ticks, steady per-tick increments of similar size, one sibling misses the read on the tick before the
    ranking: its increase over two ticks would exceed everybody's one-tick increase"""
    sc = base(rng, plugin, n=rng.choice([2, 3, 4]))
    for s in sc["sibs"]:
        s.pop("target", None)
    nt = rng.choice([3, 3, 4, 5])
    sc["nticks"] = nt
    sc["ssd"] = ["1", "0", "0", "0", "0", "0"]
    sc["hdd"] = ["1", "0", "0", "0", "0", "0"]
    step = rng.choice([1, 10, 500, 4096])
    victim = rng.randrange(len(sc["sibs"]))
    kind = rng.choice(["memstat", "nopgscan"]) if plugin == "kill_by_pg_scan" else "iostat"
    for i, s in enumerate(sc["sibs"]):
        v = rng.randint(0, 100) * step
        inc = rng.randint(3, 6) * step
        if i == victim:
            inc = rng.choice([inc, rng.randint(2, 4) * step, 0])
        ticks = []
        for t in range(nt):
            if t:
                v += inc + (rng.randint(0, 2) * step if rng.random() < 0.3 else 0)
            tk = {"pgscan": str(v), "io": [["8:0", "0", "0", str(v), "0", "0", "0"]], "cur": str(size(rng, 1 << 40))}
            if i == victim and t == nt - 2:
                tk["miss"] = kind
            ticks.append(tk)
        s["ticks"] = ticks
    return finish_mem(rng, sc)


def gen_iocost(rng):
    if rng.random() < 0.2:
        return gen_rate_gap(rng, "kill_by_io_cost")
    sc = base(rng, "kill_by_io_cost")
    nt = rng.choice([2, 2, 2, 3, 3, 4, 5, 1])
    sc["nticks"] = nt
    sc["ssd"] = [rng.choice(COEFF) for _ in range(6)]
    sc["hdd"] = [rng.choice(COEFF) for _ in range(6)]
    if rng.random() < 0.1:
        sc["ssd"] = ["0.1", "0.3", "0.7", "1.1", "0.9", "2.3"]     # inexact in binary
    step = rng.choice([1, 8, 1000, 1 << 20])
    shared = [rng.randint(0, 50) * step for _ in range(6)]
    for i, s in enumerate(sc["sibs"]):
        born = 0 if nt == 1 else rng.choice([0, 0, 0, 0, nt - 1])
        if born:
            s["born"] = born
        devs = rng.choice([["8:0"], ["8:0", "8:16"], ["8:16"], ["8:0", "9:0"], ["9:0", "8:16", "8:0"], []])
        cum = {d: [rng.randint(0, 1000) * step for _ in range(6)] for d in devs}
        ticks = []
        same = rng.random() < 0.3
        for t in range(nt - born):
            if t:
                for d in devs:
                    inc = shared if same else [rng.choice([0, 0, 1, 3, rng.randint(0, 100)]) * step for _ in range(6)]
                    cum[d] = [x + y for x, y in zip(cum[d], inc)]
                    if rng.random() < 0.03:
                        cum[d] = [0] * 6          # counters reset
            ticks.append({"io": [[d] + [str(x) for x in cum[d]] for d in devs], "cur": str(size(rng, 1 << 40))})
        s["ticks"] = ticks
    return finish_mem(rng, add_missed_reads(rng, sc, ["iostat"]))


# ---------------------------------------------------------------- kill_by_pg_scan

def gen_pgscan(rng):
    if rng.random() < 0.2:
        return gen_rate_gap(rng, "kill_by_pg_scan")
    sc = base(rng, "kill_by_pg_scan")
    nt = rng.choice([2, 2, 2, 3, 3, 4, 5])
    sc["nticks"] = nt
    shared = rng.choice([0, 1, 5, 1000, 1 << 33])
    for s in sc["sibs"]:
        born = rng.choice([0, 0, 0, 0, nt - 1, rng.randrange(nt)])
        if born:
            s["born"] = born
        v = rng.choice([0, rng.randint(0, 1 << 20), rng.randint(1 << 31, 1 << 34), rng.randint(1 << 53, 1 << 61)])
        ticks = []
        for t in range(nt - born):
            if t:
                r = rng.random()
                if r < 0.2:
                    d = 0
                elif r < 0.45:
                    d = shared
                elif r < 0.55:
                    d = -rng.randint(1, max(1, v)) if v else 0
                elif r < 0.9:
                    d = rng.randint(1, 1 << rng.choice([4, 12, 20, 33]))
                else:
                    d = rng.randint(1 << 53, 1 << 60)
                v = max(0, v + d)
            ticks.append({"pgscan": str(v), "cur": str(size(rng, 1 << 40))})
        s["ticks"] = ticks
    return finish_mem(rng, add_missed_reads(rng, sc, ["memstat", "nopgscan"]))


GENS = [gen_growth, gen_swap, gen_pressure, gen_iocost, gen_pgscan]


def gen(rng, tier):
    per = {"quick": 900, "thorough": 24000, "search": 4000}[tier]
    for i in range(per):
        yield gen_growth(rng)
        if i % 2 == 0:
            yield gen_growth(rng)
        yield gen_swap(rng)
        if i % 2 == 0:
            yield gen_swap(rng)
        yield gen_pressure(rng)
        if i % 2 == 0:
            yield gen_iocost(rng)
            yield gen_pgscan(rng)


def nontrivial(s, t, v):
    order = t.get("order") or []
    if not order:
        return False
    pref = {x["name"]: x.get("pref", "none") for x in s["sibs"] if x.get("target", True)}

    def cls(p):
        return {"prefer": 1, "uprefer": 1, "both": 1, "avoid": -1, "uavoid": -1}.get(p, 0)
    head = cls(pref.get(order[0], "none"))
    return sum(1 for p in pref.values() if cls(p) == head) >= 2


def bucket(s, t, v):
    p = s["plugin"].replace("kill_by_", "")
    b = [p, p + ":n_out=%d" % min(len(t.get("order") or []), 4), "depth=%d" % s.get("depth", 1)]
    if v.get("info"):
        b.append(p + ":phase=" + v["info"])
    if v.get("rounding"):
        b.append(p + ":rounding-tolerated")
    if v.get("rat_admits") != v.get("model_admits"):
        b.append(p + ":rat-vs-float-differ")
    if v.get("legacy_admits") != v.get("model_admits"):
        b.append(p + ":distinguishes-legacy-code")
    if len({x.get("pref", "none") for x in s["sibs"]}) > 1:
        b.append("mixed-preferences")
    return b


def extra_coverage(results):
    return {
        "rounding_tolerated": sum(1 for _, _, v in results if v.get("rounding")),
        "rat_float_decisions_differ": sum(1 for _, _, v in results if v.get("rat_admits") != v.get("model_admits")),
        "inputs_distinguishing_unrepaired_code": sum(1 for _, _, v in results if v.get("legacy_admits") != v.get("model_admits")),
        "stat_mismatches": sum(1 for _, _, v in results if v.get("stat_diffs")),
    }


def classify(s, t, v):
    oc = t.get("outcome", "ok")
    if oc not in ("ok", "exit0"):
        import re
        return "outcome:" + re.sub(r"-?\d+", "N", oc)[:60].strip().replace(" ", "_")
    return v.get("class") or (v.get("violated") or ["?"])[0]


def shrink_candidates(s):
    sibs = s["sibs"]
    if len(sibs) > 1:
        for i in range(len(sibs)):
            yield dict(s, sibs=sibs[:i] + sibs[i + 1:])
    if s.get("depth") == 3:
        c = dict(s, depth=2)
        c.pop("gparent", None)
        c.pop("uncle", None)
        yield c
    if s.get("depth") == 2:
        c = dict(s, depth=1)
        c.pop("parent", None)
        yield c
    for k in list(s["args"]):
        if k != "resource":
            a = dict(s["args"])
            del a[k]
            yield dict(s, args=a)
    for i, x in enumerate(sibs):
        if x.get("pref", "none") != "none":
            yield dict(s, sibs=sibs[:i] + [dict(x, pref="none")] + sibs[i + 1:])
        if x.get("target") is False:
            y = dict(x)
            del y["target"]
            yield dict(s, sibs=sibs[:i] + [y] + sibs[i + 1:])
        if len(x["ticks"]) > 1 and s["plugin"] == "kill_by_memory_size_or_growth":
            yield dict(s, sibs=sibs[:i] + [dict(x, ticks=x["ticks"][1:])] + sibs[i + 1:])
        if len(x["ticks"]) > 2 and s["plugin"] in ("kill_by_io_cost", "kill_by_pg_scan") and "born" not in x \
                and all(len(y["ticks"]) == len(x["ticks"]) and "born" not in y for y in sibs) and i == 0:
            # drop the first tick of everybody
            yield dict(s, nticks=s["nticks"] - 1, sibs=[dict(y, ticks=y["ticks"][1:]) for y in sibs])
        for f in ("min", "low"):
            if x["ticks"][-1].get(f, "0") != "0":
                tk = [dict(t, **{f: "0"}) for t in x["ticks"]]
                yield dict(s, sibs=sibs[:i] + [dict(x, ticks=tk)] + sibs[i + 1:])


def run(tier, seed, replay=None):
    """generic pipeline, plus one thing the generic runner does not do:
    * core.run_check only looks at model/implementation disagreements when *nothing* failed; C09 has a known
      finding that fails on every run, so disagreements (accepts = false, holds = true) are handled here: search
      for a failing input outside the known classes, else report `no-failing-input-found`."""
    import json
    import random
    import re
    import sys
    mod = sys.modules[__name__]
    rc = core.run_check(mod, tier, seed, replay)
    if rc != 0:
        return rc
    evp = os.path.join(core.EVIDENCE_DIR, PROP + ".json")
    ev = json.load(open(evp))
    cov = ev["coverage"]
    if not cov.get("model_disagreements") or not cov.get("property_failures"):
        return rc          # nothing disagreed, or the generic runner already handled the disagreement
    known = {k["class"] for k in core.load_findings()[0] if k["property"] == PROP}
    ck = core.Check(mod, tier, seed)
    exe = core.build_harness(HARNESS, FLAVOUR)
    if replay:
        rp = json.load(open(replay))
        scs = [rp["scenario"]] if "scenario" in rp else rp.get("scenarios", [])
    else:
        scs = ck.corpus() + list(gen(random.Random(seed * 1000003 + sum(map(ord, PROP))), tier))
    for i, s in enumerate(scs):
        s.setdefault("id", "again-%d" % i)
    res = ck.execute(exe, scs)
    disagree = [(s, t, v) for (s, t, v) in res if v.get("holds", True) and not core.bad_outcome(t) and not v.get("accepts", True)]
    if not disagree:
        return rc
    disagree.sort(key=lambda x: len(json.dumps(x[0])))
    s0, t0, v0 = disagree[0]
    s0 = ck.shrink(exe, s0, lambda c, tt, vv: vv.get("holds", True) and not core.bad_outcome(tt) and not vv.get("accepts", True))
    (s0, t0, v0) = ck.execute(exe, [dict(s0, id="shrunk")])[0]
    found = None
    if not replay:
        ext = list(gen(random.Random(seed + 7919), "search"))
        for i, e in enumerate(ext):
            e["id"] = "search-%d" % i
        for (s3, t3, v3) in ck.execute(exe, ext):
            if ((not v3.get("holds", True)) or core.bad_outcome(t3)) and ck.classify(s3, t3, v3) not in known:
                found = (s3, t3, v3)
                break
    if found:
        s3, t3, v3 = found
        rp = ck.write_replay("%s-%d-search.json" % (PROP, seed), {"property": PROP, "kind": "failing-input", "class": ck.classify(s3, t3, v3),
                                                                  "scenario": s3, "impl_trace": t3, "verdict": v3})
        print("VIOLATION property=%s replay=%s" % (PROP, rp))
    else:
        rp = ck.write_replay("%s-%d-correspondence.json" % (PROP, seed),
                             {"property": PROP, "kind": "correspondence-broken",
                              "what": "the Lean model (OomdModel.Rank, engine rank) no longer reproduces the implementation's ranking / statistics "
                                      "on this input; the property predicate holds on every implementation trace explored outside the known findings",
                              "count": len(disagree), "scenario": s0, "impl_trace": t0, "verdict": v0})
        print("VIOLATION property=%s replay=%s no-failing-input-found" % (PROP, rp))
    ev["violations"] = 1
    json.dump(ev, open(evp, "w"), indent=1)
    return 1

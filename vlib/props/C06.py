"""C06 (engine family) - see vlib/props/_engine.py, lean/OomdModel/Engine.lean, lean/OomdProps/C06.lean."""
from vlib.props import _engine as E
from vlib.props._engine import ENGINE, HARNESS, FLAVOUR, ASSUMPTIONS, TRUSTED, bucket, shrink_candidates  # noqa: F401

PROP = "C06"
EXHAUSTIVE = {"quick": False, "thorough": False}


def gen(rng, tier):
    return E.gen(rng, tier, PROP)
RULE = "as C02; 30% of action calls return ASYNC_PAUSED. non-trivial = at least one ASYNC_PAUSED followed by a resumption"


def nontrivial(s, t, v):
    na, ns, nas = E.stats(s, t)
    return nas >= 1 and na >= 2


# ---- suspended chains across drop-in activity: decided on the drop-in engine ---------------------------------------------
#
# h_engine has no drop-ins.  A base ruleset that is disabled by a drop-in (disable-on-drop-in) while one of its chains is
# suspended does not run at all on those ticks; when the drop-in goes away the chain must still be there - for a
# ruleset-cgroup base that means its per-cgroup instance (which holds the chain) survives the disabled ticks.  Decided on C13's
# engine (h_dropin: real compiler, Engine, drop-in adaptor); only clause C06.suspended_chain_resumes counts here.

def dropin_scenarios(rng, tier):
    from . import C13
    n = {"quick": 1200, "thorough": 15000, "search": 4000}[tier]
    for i in range(n):
        s = C13.random_history(rng, 12 if i % 3 else 5)
        s.pop("twin_tag", None)
        if "tree" not in s and rng.random() < 0.6:
            s["tree"] = {"name": "", "children": [{"name": "s", "children": [{"name": "a", "children": []}]}]}
            for b in s["rulesets"]:
                if rng.random() < 0.7:
                    b["cgroup"] = rng.choice(["s/a", "s/*"])
        acts = sorted({a for b in s["rulesets"] for a in b["actions"]})
        for t in s["ticks"]:
            for a in acts:
                if rng.random() < 0.25:
                    t["calls"][str(a)] = [2, 0, -1]
        s["prop"] = PROP
        yield s


# ---- ruleset-cgroup rulesets: every per-cgroup instance suspends and resumes on its own ---------------------------------------
#
# "(and ruleset-cgroup instances) pausing independently": decided on C11's engine (h_rscgroup), with more ASYNC_PAUSED returns
# and trees in which matching cgroups vanish (also all at once) and come back.  Clauses C06.percg_* of Driver/Rscgroup.lean.

def percg_scenarios(rng, tier):
    from . import C11
    n = {"quick": 1500, "thorough": 15000, "search": 4000}[tier]
    for _ in range(n):
        s = C11.mk_scenario(rng, calm=rng.random() < 0.5, nticks=rng.randint(4, 10))
        s["prop"] = PROP
        acts = [C11.act_id(a) for r in s["rulesets"] for a in r["actions"]]
        for i, t in enumerate(s["ticks"]):
            for key in list(t["calls"]) or []:
                for a in acts:
                    if rng.random() < 0.2:
                        t["calls"][key][str(a)] = [2, 0, -1]
            # now and then every cgroup below s/ is gone for one tick (instances must be dropped, also suspended ones)
            if i >= 2 and rng.random() < 0.12:
                t["cgs"] = [c for c in t["cgs"] if "/" not in c["path"]]
                t["calls"] = {k: v for k, v in t["calls"].items() if "/" not in k}
        yield s


def run(tier, seed, replay=None):
    import json
    import os
    import random
    import sys
    from vlib import core
    from . import C13
    mod = sys.modules[__name__]

    def want(c):
        return c.startswith("C06.")
    if replay:
        rp = json.load(open(replay))
        if rp.get("pass") == "percg":
            viol, _, _ = core.extra_pass(PROP, "rscgroup", "h_rscgroup", "asan", [rp["scenario"]], tier, seed, want=want, label="percg")
            for c, p in viol:
                print("VIOLATION property=%s replay=%s" % (PROP, p))
            return 1 if viol else 0
        if rp.get("pass") == "dropinsusp":
            viol, _, _ = core.extra_pass(PROP, "dropin", "h_dropin", "asan", [rp["scenario"]], tier, seed, want=want, label="dropinsusp")
            for c, p in viol:
                print("VIOLATION property=%s replay=%s" % (PROP, p))
            return 1 if viol else 0
        return core.run_check(mod, tier, seed, replay)
    rc = core.run_check(mod, tier, seed, replay)
    esc = tier == "quick" and core.changed_sources() and not os.environ.get("VERIF_NO_ESCALATION")
    scs = list(dropin_scenarios(random.Random(seed * 7517 + 11), "search" if esc else tier))
    viol, cov, res = core.extra_pass(PROP, "dropin", "h_dropin", "asan", scs, tier, seed, want=want,
                                     shrink_candidates=getattr(C13, "shrink_candidates", None), label="dropinsusp")
    cov["dropinsusp_pass_async_returns"] = sum(1 for s, t, v in res for tk in s["ticks"] for c in tk["calls"].values() if c[0] == 2)
    cov["dropinsusp_pass_cgroup_bases"] = sum(1 for s, t, v in res if "tree" in s)
    core.merge_extra_into_evidence(PROP, cov, len(viol),
                                   "drop-in pass (h_dropin): random add / re-add / remove histories over base rulesets of which 60% "
                                   "are ruleset-cgroup rulesets, a quarter of the action calls return ASYNC_PAUSED; clause: a "
                                   "suspended chain is resumed at the paused action on the first tick the ruleset runs again, also "
                                   "after ticks on which a drop-in disabled it")
    from . import C11
    scs2 = list(percg_scenarios(random.Random(seed * 7919 + 5), "search" if esc else tier))
    viol2, cov2, res2 = core.extra_pass(PROP, "rscgroup", "h_rscgroup", "asan", scs2, tier, seed, want=want,
                                        shrink_candidates=C11.shrink_candidates, label="percg")
    cov2["percg_pass_async_returns"] = sum(1 for s, t, v in res2 for tk in s["ticks"] for d in tk["calls"].values() for c in d.values() if c[0] == 2)
    core.merge_extra_into_evidence(PROP, cov2, len(viol2),
                                   "per-cgroup pass (ruleset-cgroup rulesets on h_rscgroup, C11's scenario space with a fifth of the "
                                   "action calls returning ASYNC_PAUSED and ticks on which every matching cgroup is gone): an instance "
                                   "that stayed resumes its own chain at the paused action with its context; one created after an "
                                   "absence starts clean")
    viol = viol + viol2
    for c, p in viol:
        print("VIOLATION property=%s replay=%s" % (PROP, p))
    return 1 if (rc or viol) else 0

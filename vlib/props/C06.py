"""C06 (engine family) - see vlib/props/_engine.py, lean/OomdModel/Engine.lean, lean/OomdProps/C06.lean."""
from vlib.props import _engine as E
from vlib.props._engine import ENGINE, HARNESS, FLAVOUR, ASSUMPTIONS, TRUSTED, bucket, shrink_candidates  # noqa: F401

PROP = "C06"
EXHAUSTIVE = {"quick": False, "thorough": False}


def gen(rng, tier):
    return E.gen(rng, tier, PROP)
RULE = "as C02; 30% of action calls return ASYNC_PAUSED. non-trivial = at least one ASYNC_PAUSED followed by a resumption"


def nontrivial(s, t, v):
    na, ns, nas = E.stats(s, t)
    return nas >= 1 and na >= 2
